SPECIFICATION Spec
INVARIANTS TypeOK Export
