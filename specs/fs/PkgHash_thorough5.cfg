SPECIFICATION Spec
CONSTANTS
  FileNames = {"a.go", "d.gop", "_e.go"}
  DirNames = {"k.go"}
  RenTargets = {"f.txt"}
  Sizes = {1, 2}
  CreateSizes = {1}
  Times = {1, 2}
  MaxOps = 5
INVARIANTS TypeOK KeyOnlyFiles Export
PROPERTIES OtherEntriesSilent SourceChangesSeen
