SPECIFICATION Spec
CONSTANTS
  FileNames = {"a.go", "d.gop", "_e.go", "f.txt", ".i.go", "n.GO", "m.spx"}
  DirNames = {"k.go", "g"}
  RenTargets = {"h.go", "_p.txt", "d.gop"}
  Sizes = {1, 2}
  CreateSizes = {1, 2}
  Times = {1, 2, 3}
  MaxOps = 3
INVARIANTS TypeOK KeyOnlyFiles Export
PROPERTIES OtherEntriesSilent SourceChangesSeen
