SPECIFICATION Spec
CONSTANTS
  FileNames = {"a.go", "b.xgo", "c.gox", "d.gop", "_e.go", "f.txt", ".i.go", "n.GO", "m.spx"}
  DirNames = {"k.go", "g"}
  RenTargets = {"h.go", "_p.txt", "f.txt", "d.gop"}
  Sizes = {1, 2, 3}
  CreateSizes = {1, 2, 3}
  Times = {1, 2, 3, 4}
  MaxOps = 12
INVARIANTS TypeOK KeyOnlyFiles Export
