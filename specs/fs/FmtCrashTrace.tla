--------------------------- MODULE FmtCrashTrace ---------------------------
(* C26 -- validation of system-call traces recorded with strace from the     *)
(* real `xgo fmt` binary against the file-system model of FmtCrash.tla.      *)
(*                                                                           *)
(* fmt_traces.ndjson holds one program per line: the FS-mutating system      *)
(* calls of one run (fault-free, or with one error injected by strace) in    *)
(* the order the kernel saw them, paths abstracted to roles, each with its   *)
(* recorded outcome (res = "ok" | "err").  The program IS the constant Progs *)
(* of FmtCrash: every event must be explained by the model action of that    *)
(* system call (precondition of success holds when the call succeeded), and  *)
(* TLC evaluates Durable in EVERY state of the behaviour - every prefix of   *)
(* the trace is a crash point "killed before / after the call".              *)
(* Durable is exported per state instead of being a TLC invariant so that    *)
(* one violating prefix does not stop the validation of the other traces;    *)
(* the harness confirms every violating prefix by killing the real process   *)
(* at that system call.  A trace is accepted iff a record with status        *)
(* done/failed is exported for it.                                           *)
EXTENDS Naturals, Sequences, TLC, Json

Traces == ndJsonDeserialize("fmt_traces.ndjson")

VARIABLES run, pc, fs, open, status, faults, nsteps, last
vars == <<run, pc, fs, open, status, faults, nsteps, last>>

\* the harness runs the binary with umask 022 (= 18)
M == INSTANCE FmtCrash WITH Progs <- Traces, MaxFaults <- 0, Umask <- 18, ModeSet <- {}, FormSet <- {}

Init == M!Init
\* IsEvent /\ bind /\ SpecAction: M!StepOk is enabled only if the recorded outcome is "ok" and the
\* model's precondition for that call holds; M!StepErr only for a recorded failure.
Next == M!StepOk \/ M!StepErr \/ M!Exit
Spec == Init /\ [][Next]_vars

TypeOK == M!TypeOK

St(p) == IF M!Seen(p) = M!Absent THEN "absent" ELSE M!Seen(p).c     \* what is seen through the path
Export ==
  PrintT(<<"CASE", ToJson(
    [kind |-> "state", id |-> M!P.id, t |-> run, k |-> nsteps, len |-> Len(M!P.steps), status |-> status,
     target |-> St("target"), tmode |-> M!Seen("target").m, tlink |-> (fs["target"].ln # ""),
     moved |-> St("moved"), mmode |-> fs["moved"].m,
     tmp |-> St("tmp"), tmpx |-> St("tmpx"), real |-> St("real"), rmode |-> fs["real"].m,
     durable |-> M!Durable, modeKept |-> M!ModeKept, mvModeKept |-> M!MvModeKept,
     sc |-> M!P.sc, inject |-> M!P.inject])>>)
=============================================================================
