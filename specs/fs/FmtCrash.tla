------------------------------ MODULE FmtCrash ------------------------------
(* C26 -- `xgo fmt` never loses a file at any crash point and keeps its mode. *)
(*                                                                           *)
(* A tiny POSIX file system (path -> [content, mode] or absent) with one     *)
(* action per file-system-mutating system call, a process that executes a    *)
(* *program* (its system-call sequence is DATA: the constant Progs), and a   *)
(* Crash action enabled in every state.                                      *)
(*                                                                           *)
(* The same module serves two purposes:                                      *)
(*  - design checking: Progs <- CurrentProgs / FixedProgs (the call order of *)
(*    cmd/internal/gopfmt/fmt.go as it is / as the proposed fix orders it),  *)
(*    every call may fail (res = "any", at most MaxFaults injected faults),  *)
(*    every state may crash;                                                 *)
(*  - trace validation (FmtCrashTrace.tla): Progs <- the system-call         *)
(*    sequences recorded with strace from the real binary; res is the        *)
(*    recorded outcome, so the behaviour is a line and every state of it is  *)
(*    a crash point ("killed before / after the call").                      *)
(*                                                                           *)
(* Paths are roles: "target" (the PATH given to xgo fmt), "moved" (target    *)
(* with .go replaced by .xgo: --mvgo), "tmp" (any other name in the target's *)
(* directory), "tmpx" (a name in another directory: $TMPDIR), "real" (the    *)
(* regular file a symbolic link at "target" points to).                      *)
(* Modes are numbers (0644 octal = 420); open/creat apply mode & ~Umask,     *)
(* chmod/fchmod do not.                                                      *)
(* The property speaks about the PATH: when "target" is a symbolic link the  *)
(* content and mode seen THROUGH the path must be complete-old-or-complete-  *)
(* new at every crash point.  Replacing the link by a regular file (rename   *)
(* over it) satisfies the statement; writing through the link in place does  *)
(* not.                                                                      *)
(* Content is abstract: "orig" (complete original), "new" (complete          *)
(* formatted), "partial" (anything else, including empty).                   *)
EXTENDS Naturals, Sequences, FiniteSets, TLC, VerifIO

CONSTANTS Progs,       \* function (e.g. a sequence) of programs [name, mv, xdev, link, origMode, newLen, steps]
          MaxFaults,   \* injected failures per run explored for res = "any"
          Umask,       \* file-mode creation mask of the process (18 = 022 octal)
          ModeSet,     \* permission bits of the scenarios, e.g. {420, 384, 493} = 0644 0600 0755
          FormSet      \* how the path reaches xgo fmt: "file-nodir" "file-dir" "walk-dot" "walk-dir"

Paths    == {"target", "moved", "tmp", "tmpx", "real"}
NoMode   == 4096
Absent   == [c |-> "absent", m |-> NoMode, ln |-> ""]
Reg(c, m) == [c |-> c, m |-> m, ln |-> ""]
Link(to)  == [c |-> "link", m |-> 511, ln |-> to]

\* m & ~u on 12 permission bits
RECURSIVE AndNotBits(_, _, _)
AndNotBits(m, u, i) == IF i > 11 THEN 0
                       ELSE (IF (m \div (2^i)) % 2 = 1 /\ (u \div (2^i)) % 2 = 0 THEN 2^i ELSE 0) + AndNotBits(m, u, i + 1)
AndNot(m, u) == AndNotBits(m, u, 0)
OKEXIT   == 1000        \* pc value: process exits with status 0
FAILEXIT == 1001        \* pc value: process reports an error and exits with status # 0
Ops      == {"CreateExcl", "Open", "Write", "Close", "Chmod", "Unlink", "Rename", "Sync"}

VARIABLES run,      \* which program: an element of DOMAIN Progs
          pc,       \* next step of the program / OKEXIT / FAILEXIT
          fs,       \* Paths -> [c, m]
          open,     \* handle -> [p: path | "gone", off: bytes written through it, good: still a prefix of new]
          status,   \* "run" | "done" | "failed" | "crashed"
          faults,   \* failures injected so far (design checking only)
          nsteps,   \* number of system calls executed (crash point index)
          last      \* [sys, res] of the last executed call (for signatures)
vars == <<run, pc, fs, open, status, faults, nsteps, last>>

P     == Progs[run]
St    == P.steps[pc]
Alive == status = "run" /\ pc \in 1..Len(P.steps)

Init == /\ run \in DOMAIN Progs
        /\ pc = 1
        /\ fs = [p \in Paths |->
                   IF Progs[run].link = "none"
                   THEN (IF p = "target" THEN Reg("orig", Progs[run].origMode) ELSE Absent)
                   ELSE (IF p = "target" THEN Link("real")                     \* the path is a symbolic link ...
                         ELSE IF p = "real" THEN Reg("orig", Progs[run].origMode)   \* ... to the source file
                         ELSE Absent)]
        /\ open = << >>
        /\ status = "run" /\ faults = 0 /\ nsteps = 0
        /\ last = [sys |-> "start", res |-> "ok"]

-----------------------------------------------------------------------------
\* One operator per system call: precondition of success and effect on (fs, open).

Present(p) == p \in Paths /\ fs[p] # Absent
\* path resolution of open(2) / chmod(2) / stat(2): a symbolic link is followed (one level)
Res(p)     == IF p \in Paths /\ fs[p].ln # "" THEN fs[p].ln ELSE p
PathOf(st) == IF st.h # 0 /\ st.h \in DOMAIN open THEN open[st.h].p ELSE Res(st.p)

\* openat(O_CREAT|O_EXCL): os.CreateTemp / os.OpenFile(O_EXCL); fails on an existing name, link or not;
\* the new file gets mode & ~umask
PreCreateExcl(st) == ~Present(st.p) /\ st.h \notin DOMAIN open
EffCreateExcl(st) == /\ fs' = [fs EXCEPT ![st.p] = Reg("partial", AndNot(st.mode, Umask))]
                     /\ open' = open @@ (st.h :> [p |-> st.p, off |-> 0, good |-> TRUE])

\* openat(O_WRONLY|O_CREAT|O_TRUNC) (os.WriteFile) or without O_TRUNC; mode only used when created
\* the path is resolved: opening a symbolic link opens (truncates) the file it points to
PreOpen(st) == st.h \notin DOMAIN open /\ (st.creat \/ Present(Res(st.p)))
EffOpen(st) ==
  LET q == Res(st.p) IN
  /\ fs' = IF ~Present(q) THEN [fs EXCEPT ![q] = Reg("partial", AndNot(st.mode, Umask))]
           ELSE IF st.trunc THEN [fs EXCEPT ![q].c = "partial"] ELSE fs
  /\ open' = open @@ (st.h :> [p |-> q, off |-> 0, good |-> (st.trunc \/ ~Present(q))])

\* write(fd, chunk): n bytes; st.match = the bytes are the right slice of the formatted text
PreWrite(st) == st.h \in DOMAIN open
EffWrite(st) ==
  LET o    == open[st.h]
      off2 == o.off + st.n
      g2   == o.good /\ st.match /\ off2 <= P.newLen
  IN /\ open' = [open EXCEPT ![st.h] = [p |-> o.p, off |-> off2, good |-> g2]]
     /\ fs' = IF o.p = "gone" \/ st.n = 0 THEN fs
              ELSE [fs EXCEPT ![o.p].c = IF g2 /\ off2 = P.newLen THEN "new" ELSE "partial"]

PreClose(st) == st.h \in DOMAIN open
EffClose(st) == /\ open' = [x \in DOMAIN open \ {st.h} |-> open[x]]
                /\ fs' = fs

\* fchmod(fd) / fchmodat(path): the mode is set as given (no umask); a path is resolved
PreChmod(st) == PathOf(st) \in Paths /\ Present(PathOf(st))
EffChmod(st) == /\ fs' = [fs EXCEPT ![PathOf(st)].m = st.mode]
                /\ open' = open

\* unlinkat(path): removes the name itself (a link, not what it points to); handles on it keep the
\* inode but it is no longer reachable
PreUnlink(st) == Present(st.p)
EffUnlink(st) == /\ fs' = [fs EXCEPT ![st.p] = Absent]
                 /\ open' = [x \in DOMAIN open |-> IF open[x].p = st.p THEN [open[x] EXCEPT !.p = "gone"] ELSE open[x]]

\* renameat(p, q): atomic replacement of the NAME q (a symbolic link at q is replaced, not followed); EXDEV when the two names are on different devices
\* (P.xdev: $TMPDIR, i.e. the role "tmpx", is on another file system than the target's directory)
PreRename(st) == /\ Present(st.p) /\ st.q \in Paths
                 /\ ~(P.xdev /\ ((st.p = "tmpx") # (st.q = "tmpx")))
EffRename(st) == /\ fs' = IF st.p = st.q THEN fs ELSE [fs EXCEPT ![st.q] = fs[st.p], ![st.p] = Absent]
                 /\ open' = [x \in DOMAIN open |->
                               IF st.p = st.q THEN open[x]
                               ELSE IF open[x].p = st.p THEN [open[x] EXCEPT !.p = st.q]
                               ELSE IF open[x].p = st.q THEN [open[x] EXCEPT !.p = "gone"]
                               ELSE open[x]]

PreSync(st) == st.h \in DOMAIN open
EffSync(st) == fs' = fs /\ open' = open

Pre(st) == CASE st.op = "CreateExcl" -> PreCreateExcl(st)
             [] st.op = "Open"       -> PreOpen(st)
             [] st.op = "Write"      -> PreWrite(st)
             [] st.op = "Close"      -> PreClose(st)
             [] st.op = "Chmod"      -> PreChmod(st)
             [] st.op = "Unlink"     -> PreUnlink(st)
             [] st.op = "Rename"     -> PreRename(st)
             [] st.op = "Sync"       -> PreSync(st)
Eff(st) == CASE st.op = "CreateExcl" -> EffCreateExcl(st)
             [] st.op = "Open"       -> EffOpen(st)
             [] st.op = "Write"      -> EffWrite(st)
             [] st.op = "Close"      -> EffClose(st)
             [] st.op = "Chmod"      -> EffChmod(st)
             [] st.op = "Unlink"     -> EffUnlink(st)
             [] st.op = "Rename"     -> EffRename(st)
             [] st.op = "Sync"       -> EffSync(st)

-----------------------------------------------------------------------------
\* The process.  fmt.go: gopfmt / writeFileWithBackup execute St, then continue at St.next, or at
\* St.onerr when the call failed (`if err != nil { return }`, or an ignored error: onerr = next).
StepOk == /\ Alive /\ St.res \in {"ok", "any"} /\ Pre(St)
          /\ Eff(St)
          /\ pc' = St.next /\ nsteps' = nsteps + 1
          /\ last' = [sys |-> St.sys, res |-> "ok"]
          /\ UNCHANGED <<run, status, faults>>

\* a failing call has no effect on the file system (a failing close still releases the handle)
StepErr == /\ Alive /\ St.res \in {"err", "any"}
           /\ St.res = "any" => (faults < MaxFaults \/ ~Pre(St))
           /\ fs' = fs
           /\ open' = IF St.op = "Close" /\ St.h \in DOMAIN open
                      THEN [x \in DOMAIN open \ {St.h} |-> open[x]] ELSE open
           /\ pc' = St.onerr /\ nsteps' = nsteps + 1
           /\ faults' = IF St.res = "any" /\ Pre(St) THEN faults + 1 ELSE faults
           /\ last' = [sys |-> St.sys, res |-> St.errno]
           /\ UNCHANGED <<run, status>>

Exit == /\ status = "run" /\ pc \in {OKEXIT, FAILEXIT}
        /\ status' = IF pc = OKEXIT THEN "done" ELSE "failed"
        /\ UNCHANGED <<run, pc, fs, open, faults, nsteps, last>>

\* SIGKILL / power button at any moment: the file system stays as it is, the process is gone
Crash == /\ status = "run"
         /\ status' = "crashed"
         /\ UNCHANGED <<run, pc, fs, open, faults, nsteps, last>>

Next == StepOk \/ StepErr \/ Exit \/ Crash
Spec == Init /\ [][Next]_vars /\ WF_vars(StepOk \/ StepErr \/ Exit)

-----------------------------------------------------------------------------
\* The property.
\* At every state (hence at every crash point) the target holds the complete original or the
\* complete formatted text.  With --mvgo the file is moved on purpose: the logical file is the
\* original under the old name or the formatted text under the new one.
\* what is seen THROUGH the path (a dangling link shows nothing)
Seen(p)     == fs[Res(p)]
TargetState == IF Seen("target") = Absent THEN "absent" ELSE Seen("target").c
Durable == \/ Seen("target").c \in {"orig", "new"}
           \/ P.mv /\ fs["target"] = Absent /\ fs["moved"].c = "new"
\* after a successful run the file has its original permission bits
FinalPath == IF P.mv THEN "moved" ELSE "target"
ModeKept  == (status = "done" /\ ~P.mv) => Seen("target").m = P.origMode
\* --mvgo creates the new file with 0666 & ~umask: not judged by C26 (the file is moved on purpose), reported as drift
MvModeKept == (status = "done" /\ P.mv) => fs["moved"].m = P.origMode
\* a successful run really formatted the file and left no temporary file behind (not part of C26)
Formatted == status = "done" => Seen(FinalPath).c = "new"
NoLitter  == status \in {"done", "failed"} => fs["tmp"] = Absent /\ fs["tmpx"] = Absent

TypeOK == /\ run \in DOMAIN Progs
          /\ pc \in (1..Len(P.steps)) \cup {OKEXIT, FAILEXIT}
          /\ \A p \in Paths : fs[p] = Absent \/ fs[p].c \in {"orig", "new", "partial", "link"}
          /\ \A p \in Paths : fs[p].m \in 0..NoMode
          /\ status \in {"run", "done", "failed", "crashed"}
          /\ faults \in 0..MaxFaults
          /\ \A h \in DOMAIN open : open[h].p \in Paths \cup {"gone"}
Terminates == <>(status \in {"done", "failed", "crashed"})

-----------------------------------------------------------------------------
\* The programs.
Step(sys, op, p, q, h, mode, n, res, next, onerr) ==
  [sys |-> sys, op |-> op, p |-> p, q |-> q, h |-> h, mode |-> mode, n |-> n, match |-> TRUE,
   creat |-> TRUE, trunc |-> TRUE, res |-> res, errno |-> "ERR", next |-> next, onerr |-> onerr]

\* sizes of the write chunks of a text of 3 abstract bytes
Chunks(c) == CASE c = 1 -> <<3>> [] c = 2 -> <<1, 2>> [] c = 3 -> <<1, 1, 1>>

\* fmt.go as it is:  f := os.CreateTemp(dir, file); f.Write(target); f.Close();
\*                   if err != nil {return}; os.Remove(path); os.Rename(tmpfile, path)
\* filepath.Split("a.xgo") gives dir = "" so the temp file is created in $TMPDIR ("tmpx").
CurrentSteps(tmp, c) ==
  LET k  == c                               \* number of write calls
      cl == k + 2                           \* index of the Close on the success path
      ec == k + 5                           \* index of the Close on the write-error path
  IN  << Step("openat", "CreateExcl", tmp, "", 1, 384, 0, "any", 2, FAILEXIT) >>
      \o [i \in 1..k |-> Step("write", "Write", "", "", 1, 0, Chunks(c)[i], "any", i + 2, ec)]
      \o << Step("close",    "Close",  "", "", 1, 0, 0, "any", cl + 1, cl + 1),      \* error ignored
            Step("unlinkat", "Unlink", "target", 0, 0, 0, 0, "any", cl + 2, FAILEXIT),
            Step("renameat", "Rename", tmp, "target", 0, 0, 0, "any", OKEXIT, FAILEXIT),
            Step("close",    "Close",  "", "", 1, 0, 0, "any", FAILEXIT, FAILEXIT) >>

\* the proposed fix (fixes/C26-atomic-rename.diff): temp file in the target's directory, chmod to the
\* original mode, rename over the target without unlink; on any error the temp file is removed.
FixedSteps(mode, c) ==
  LET k  == c
      rm == k + 5                           \* cleanup: os.Remove(tmpfile)
      ec == k + 6                           \* Close on the error path, then cleanup
  IN  << Step("openat", "CreateExcl", "tmp", "", 1, 384, 0, "any", 2, FAILEXIT) >>
      \o [i \in 1..k |-> Step("write", "Write", "", "", 1, 0, Chunks(c)[i], "any", i + 2, ec)]
      \o << Step("fchmod",   "Chmod",  "", "", 1, mode, 0, "any", k + 3, ec),
            Step("close",    "Close",  "", "", 1, 0, 0, "any", k + 4, rm),
            Step("renameat", "Rename", "tmp", "target", 0, 0, 0, "any", OKEXIT, rm),
            Step("unlinkat", "Unlink", "tmp", 0, 0, 0, 0, "any", FAILEXIT, FAILEXIT),
            Step("close",    "Close",  "", "", 1, 0, 0, "any", rm, rm) >>

\* --mvgo:  os.WriteFile(newPath, target, 0666); os.Remove(path)   (0666 = 438; the umask is applied by Open)
MvGoSteps(c) ==
  LET k == c
  IN  << Step("openat", "Open", "moved", "", 1, 438, 0, "any", 2, FAILEXIT) >>
      \o [i \in 1..k |-> Step("write", "Write", "", "", 1, 0, Chunks(c)[i], "any", i + 2, k + 4)]
      \o << Step("close",    "Close",  "", "", 1, 0, 0, "any", k + 3, FAILEXIT),
            Step("unlinkat", "Unlink", "target", 0, 0, 0, 0, "any", OKEXIT, FAILEXIT),
            Step("close",    "Close",  "", "", 1, 0, 0, "any", FAILEXIT, FAILEXIT) >>

\* The scenarios: which real runs the harness performs (file kind x mode x how the path is given x
\* flags), and the program the model expects for each.  filepath.Split gives dir = "" for a path
\* without directory component (also for every file found by `xgo fmt .`): temp file in $TMPDIR.
ExtSeq   == <<"xgo", "gox", "go">>
FormSeq  == <<"file-nodir", "file-dir", "walk-dot", "walk-dir">>
FlagSeq  == <<"plain", "smart", "smart-mvgo">>
IndexOf(seq, x) == CHOOSE i \in 1..Len(seq) : seq[i] = x
\* modes with group/other WRITE bits (0664 0666 0775 0660): a mode handed to open(2) instead of fchmod
\* loses them under umask 022.  They are rotated over the (kind, form, flags) combinations instead of
\* multiplying the scenario set.
WModeSeq == <<436, 438, 509, 432>>
RotMode(sc) == WModeSeq[((IndexOf(ExtSeq, sc.ext) + IndexOf(FormSeq, sc.form) + IndexOf(FlagSeq, sc.flags)) % 4) + 1]
ScenRec(modes, forms) == [ext : {"xgo", "gox", "go"}, mode : modes, form : forms,
                          flags : {"plain", "smart", "smart-mvgo"}, xdev : BOOLEAN,
                          link : {"none", "abs", "rel"}, c : 1..3]
Scenarios ==
  { sc \in ScenRec(ModeSet \cup {436, 438, 509, 432}, FormSet \cup {"file-dir", "walk-dir"}) :
      /\ sc.flags = "smart-mvgo" => sc.ext = "go"    \* fmt.go walk: mvgo only touches .go files
      /\ sc.xdev => (sc.form = "file-nodir" /\ sc.ext = "xgo" /\ sc.flags = "plain" /\ sc.mode \in ModeSet /\ sc.link = "none")
      \* the path is a symbolic link (absolute / relative) to the source file, given directly or found by the walk
      /\ sc.link # "none" => (sc.ext = "xgo" /\ sc.flags = "plain" /\ sc.mode = 420 /\ sc.form \in {"file-dir", "walk-dir"})
      /\ sc.link = "none" => (sc.form \in FormSet /\ (sc.mode \in ModeSet \/ sc.mode = RotMode(sc))) }
TmpOf(sc) == IF sc.form \in {"file-nodir", "walk-dot"} THEN "tmpx" ELSE "tmp"
ProgOf(sc, design) ==
  IF sc.flags = "smart-mvgo"
  THEN [name |-> "mvgo", mv |-> TRUE, xdev |-> sc.xdev, link |-> sc.link, origMode |-> sc.mode, newLen |-> 3, tmp |-> "-", sc |-> sc,
        steps |-> MvGoSteps(sc.c)]
  ELSE IF design = "current"
  THEN [name |-> "current", mv |-> FALSE, xdev |-> sc.xdev, link |-> sc.link, origMode |-> sc.mode, newLen |-> 3, tmp |-> TmpOf(sc), sc |-> sc,
        steps |-> CurrentSteps(TmpOf(sc), sc.c)]
  ELSE [name |-> "fixed", mv |-> FALSE, xdev |-> sc.xdev, link |-> sc.link, origMode |-> sc.mode, newLen |-> 3, tmp |-> "tmp", sc |-> sc,
        steps |-> FixedSteps(sc.mode, sc.c)]
CurrentProgs == [sc \in Scenarios |-> ProgOf(sc, "current")]
FixedProgs   == [sc \in Scenarios |-> ProgOf(sc, "fixed")]

-----------------------------------------------------------------------------
\* Exports.  One record per scenario (what to run for real) ...
ExportScenario ==
  (status = "run" /\ nsteps = 0 /\ P.sc.c = 1) =>
    Emit([kind |-> "scenario", ext |-> P.sc.ext, mode |-> P.sc.mode, form |-> P.sc.form, flags |-> P.sc.flags,
          xdev |-> P.sc.xdev, link |-> P.sc.link])
\* ... and one per crash point / final state of the design: the leads (durable = FALSE or
\* modeKept = FALSE) are what the harness must find (or not find) in the real binary.
ExportDesign ==
  status \in {"crashed", "done", "failed"} =>
    Emit([kind |-> "design", prog |-> P.name, tmp |-> P.tmp, origMode |-> P.origMode, xdev |-> P.xdev,
          status |-> status, k |-> nsteps, faults |-> faults,
          after |-> last, before |-> IF status = "crashed" /\ pc \in 1..Len(P.steps) THEN St.sys ELSE "exit",
          target |-> TargetState, mode |-> Seen(FinalPath).m, link |-> P.link,
          durable |-> Durable, modeKept |-> ModeKept])
=============================================================================
