------------------------------ MODULE PkgHash ------------------------------
(* C36 -- the import-cache key (tool/imp.go: Importer.PkgHash -> dirHash,    *)
(* canCl) changes exactly when the package sources change.                   *)
(*                                                                           *)
(* A package directory is a function name -> entry | None, an entry being a  *)
(* regular file or a directory with a size, a modification time and a mode.  *)
(* One action per file-system operation of a history (Create, Edit, Touch,   *)
(* Rename, Delete, Mkdir, Rmdir, Chmod).  The fingerprint the property talks *)
(* about is the projection                                                   *)
(*   Key(dir) = { (name, size, mtime) : name is a regular file, compilable,  *)
(*                                      and does not start with "_" }        *)
(* and the statement is: along every history, hash(dir) changes iff Key(dir) *)
(* changes (and equal keys have equal hashes, different keys different       *)
(* hashes).  TLC enumerates every history of MaxOps operations over the pool *)
(* (or samples longer ones with -simulate), checks on the model which        *)
(* operations can / must change the key, and exports (start, ops, key after  *)
(* every step, changed flag per step); the harness executes the history in a *)
(* real module directory and calls the real PkgHash after every step.        *)
EXTENDS Naturals, Sequences, FiniteSets, TLC, VerifIO

CONSTANTS FileNames,   \* names that are created as regular files
          DirNames,    \* names that are created as directories
          RenTargets,  \* names a file may be renamed to
          Sizes,       \* abstract sizes (bytes)
          CreateSizes, \* sizes a file is created with (subset of Sizes; keeps the branching down)
          Times,       \* abstract modification times (1 = base, 2 = base + 1ns, 3 = base + 1s, ...)
          MaxOps       \* length of the exported histories

None == [kind |-> "none", size |-> 0, mtime |-> 0, mode |-> 0]

\* What the code's rule sees of a name: path.Ext and the "_" prefix.  (tool/imp.go: dirHash, canCl)
Info == [n \in {"a.go", "b.xgo", "c.gox", "d.gop", "_e.go", "f.txt", "h.go", "g", "k.go", "m.spx", ".i.go", "n.GO", "_p.txt"} |->
  CASE n = "a.go"   -> [ext |-> ".go",  us |-> FALSE]
    [] n = "b.xgo"  -> [ext |-> ".xgo", us |-> FALSE]
    [] n = "c.gox"  -> [ext |-> ".gox", us |-> FALSE]
    [] n = "d.gop"  -> [ext |-> ".gop", us |-> FALSE]
    [] n = "_e.go"  -> [ext |-> ".go",  us |-> TRUE]
    [] n = "f.txt"  -> [ext |-> ".txt", us |-> FALSE]
    [] n = "h.go"   -> [ext |-> ".go",  us |-> FALSE]
    [] n = "g"      -> [ext |-> "",     us |-> FALSE]
    [] n = "k.go"   -> [ext |-> ".go",  us |-> FALSE]    \* used as a DIRECTORY name
    [] n = "m.spx"  -> [ext |-> ".spx", us |-> FALSE]    \* class extension not registered in a plain module
    [] n = ".i.go"  -> [ext |-> ".go",  us |-> FALSE]    \* hidden file: only "_" is skipped
    [] n = "n.GO"   -> [ext |-> ".GO",  us |-> FALSE]    \* the extension switch is case-sensitive
    [] n = "_p.txt" -> [ext |-> ".txt", us |-> TRUE]]

\* canCl: `case ".go", ".xgo", ".gop", ".gox": return true; default: mod.IsClass(ext)` -- the temp module
\* of the harness registers no class file types.
CompilableExts == {".go", ".xgo", ".gop", ".gox"}
Names      == FileNames \cup DirNames \cup RenTargets
Compilable(n) == Info[n].ext \in CompilableExts
Visible(n)    == Compilable(n) /\ ~Info[n].us          \* a regular file of this name is part of the key

VARIABLES dir,    \* Names -> entry | None
          hist,   \* operations so far
          keys    \* Key(dir) after 0, 1, ... operations
vars == <<dir, hist, keys>>

Key(d) == { [n |-> n, s |-> d[n].size, t |-> d[n].mtime] : n \in { x \in Names : d[x].kind = "file" /\ Visible(x) } }

File(s, t) == [kind |-> "file", size |-> s, mtime |-> t, mode |-> 0]
Dir(t)     == [kind |-> "dir",  size |-> 0, mtime |-> t, mode |-> 0]

\* the directory every history starts from: one visible file, one invisible file
StartDir == [n \in Names |-> IF n = "a.go" /\ n \in FileNames THEN File(1, 1)
                             ELSE IF n = "f.txt" /\ n \in FileNames THEN File(1, 1) ELSE None]

Init == /\ dir = StartDir
        /\ hist = << >>
        /\ keys = << Key(StartDir) >>

Do(op, d2) == /\ Len(hist) < MaxOps
              /\ dir' = d2
              /\ hist' = Append(hist, op)
              /\ keys' = Append(keys, Key(d2))

Op(k, n, m, s, t) == [k |-> k, n |-> n, m |-> m, s |-> s, t |-> t]

\* os.WriteFile on a new name + os.Chtimes
Create == \E n \in FileNames, s \in CreateSizes, t \in Times :
            /\ dir[n] = None
            /\ Do(Op("Create", n, "", s, t), [dir EXCEPT ![n] = File(s, t)])
\* rewrite with another size; the mtime is set explicitly (possibly to the old value)
Edit   == \E n \in FileNames, s \in Sizes, t \in Times :
            /\ dir[n].kind = "file" /\ s # dir[n].size
            /\ Do(Op("Edit", n, "", s, t), [dir EXCEPT ![n].size = s, ![n].mtime = t])
\* os.Chtimes only
Touch  == \E n \in Names, t \in Times :
            /\ dir[n] # None /\ t # dir[n].mtime
            /\ Do(Op("Touch", n, "", dir[n].size, t), [dir EXCEPT ![n].mtime = t])
\* os.Rename of a regular file to a free name: size and mtime travel with it
Rename == \E n \in FileNames \cup RenTargets, m \in RenTargets :
            /\ dir[n].kind = "file" /\ dir[m] = None /\ n # m
            /\ Do(Op("Rename", n, m, dir[n].size, dir[n].mtime), [dir EXCEPT ![m] = dir[n], ![n] = None])
Delete == \E n \in FileNames \cup RenTargets :
            /\ dir[n].kind = "file"
            /\ Do(Op("Delete", n, "", 0, 0), [dir EXCEPT ![n] = None])
Mkdir  == \E n \in DirNames, t \in Times :
            /\ dir[n] = None
            /\ Do(Op("Mkdir", n, "", 0, t), [dir EXCEPT ![n] = Dir(t)])
Rmdir  == \E n \in DirNames :
            /\ dir[n].kind = "dir"
            /\ Do(Op("Rmdir", n, "", 0, 0), [dir EXCEPT ![n] = None])
\* permission bits are not part of the key
Chmod  == \E n \in Names :
            /\ dir[n] # None
            /\ Do(Op("Chmod", n, "", dir[n].size, dir[n].mtime), [dir EXCEPT ![n].mode = 1 - dir[n].mode])

Next == Create \/ Edit \/ Touch \/ Rename \/ Delete \/ Mkdir \/ Rmdir \/ Chmod
Spec == Init /\ [][Next]_vars

-----------------------------------------------------------------------------
\* What TLC proves on the model (the property's two directions, per operation).
LastOp == hist'[Len(hist')]
Changed == Key(dir') # Key(dir)
\* "stays the same across changes that touch only other entries"
OtherEntriesSilent ==
  [][ LET op == LastOp IN
        (~Visible(op.n) /\ (op.k = "Rename" => ~Visible(op.m))) \/ op.k \in {"Chmod", "Mkdir", "Rmdir"} \/ dir[op.n].kind = "dir"
          => ~Changed ]_vars
\* "changes whenever the name, size or mtime of a compilable non-underscore regular file changes or
\* such a file appears or disappears"
SourceChangesSeen ==
  [][ LET op == LastOp IN
        \/ (op.k \in {"Create", "Delete", "Edit"} /\ Visible(op.n))
        \/ (op.k = "Touch" /\ Visible(op.n) /\ dir[op.n].kind = "file")
        \/ (op.k = "Rename" /\ (Visible(op.n) \/ Visible(op.m)))
          => Changed ]_vars
KeyOnlyFiles == \A e \in Key(dir) : dir[e.n].kind = "file" /\ Visible(e.n)
TypeOK == /\ Len(keys) = Len(hist) + 1 /\ Len(hist) <= MaxOps
          /\ \A n \in Names : dir[n] = None \/ (dir[n].kind \in {"file", "dir"} /\ dir[n].mtime \in Times)

-----------------------------------------------------------------------------
Entries(d) == { [n |-> n, kind |-> d[n].kind, s |-> d[n].size, t |-> d[n].mtime] : n \in { x \in Names : d[x] # None } }
Export == Len(hist) = MaxOps =>
            Emit([start |-> Entries(StartDir), ops |-> hist, keys |-> keys,
                  chg |-> [i \in 1..MaxOps |-> keys[i + 1] # keys[i]]])
=============================================================================
