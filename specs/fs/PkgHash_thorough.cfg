SPECIFICATION Spec
CONSTANTS
  FileNames = {"a.go", "b.xgo", "c.gox", "d.gop", "_e.go", "f.txt"}
  DirNames = {"k.go"}
  RenTargets = {"h.go", "_p.txt"}
  Sizes = {1, 2}
  CreateSizes = {1}
  Times = {1, 2}
  MaxOps = 4
INVARIANTS TypeOK KeyOnlyFiles Export
PROPERTIES OtherEntriesSilent SourceChangesSeen
