SPECIFICATION Spec
CONSTANTS
  Progs <- FixedProgs
  MaxFaults = 1
  ModeSet = {"0644", "0600", "0755"}
  FormSet = {"file-nodir", "file-dir"}
INVARIANTS TypeOK Durable ModeKept Formatted NoLitter ExportScenario ExportDesign
PROPERTY Terminates
