SPECIFICATION Spec
CONSTANTS
  Progs <- FixedProgs
  MaxFaults = 1
  Umask = 18
  ModeSet = {420, 384, 493}
  FormSet = {"file-nodir", "file-dir"}
INVARIANTS TypeOK Durable ModeKept Formatted NoLitter ExportScenario ExportDesign
PROPERTY Terminates
