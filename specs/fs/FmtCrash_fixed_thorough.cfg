SPECIFICATION Spec
CONSTANTS
  Progs <- FixedProgs
  MaxFaults = 2
  ModeSet = {"0644", "0600", "0755", "0444"}
  FormSet = {"file-nodir", "file-dir", "walk-dot", "walk-dir"}
INVARIANTS TypeOK Durable ModeKept Formatted ExportScenario ExportDesign
PROPERTY Terminates
