SPECIFICATION Spec
CONSTANTS
  Progs <- FixedProgs
  MaxFaults = 2
  Umask = 18
  ModeSet = {420, 384, 493, 292}
  FormSet = {"file-nodir", "file-dir", "walk-dot", "walk-dir"}
INVARIANTS TypeOK Durable ModeKept Formatted ExportScenario ExportDesign
PROPERTY Terminates
