SPECIFICATION Spec
CONSTANTS
  Progs <- CurrentProgs
  MaxFaults = 1
  Umask = 18
  ModeSet = {420, 384, 493}
  FormSet = {"file-nodir", "file-dir"}
INVARIANTS TypeOK Formatted ExportDesign
PROPERTY Terminates
