SPECIFICATION Spec
CONSTANTS
  Progs <- CurrentProgs
  MaxFaults = 1
  ModeSet = {"0644", "0600", "0755"}
  FormSet = {"file-nodir", "file-dir"}
INVARIANTS TypeOK Formatted ExportDesign
PROPERTY Terminates
