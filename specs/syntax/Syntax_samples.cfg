\* C18/C17: the hand-written sample trees covering every node kind (focus "samples": rendered and traversed, not parsed by the model)
SPECIFICATION Spec
CONSTANTS
  Foci <- SampleFoci
  Sizes <- SmallSizes
INVARIANTS ShapesOK Export
