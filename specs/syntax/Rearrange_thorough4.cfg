SPECIFICATION Spec
CONSTANTS
  MaxChunks = 4
  Kinds = {"package", "import", "vargroup", "func", "method", "stmt", "block", "flit", "flitres"}
  Variants = {"plain"}
  FuncExprIsDecl = FALSE
  ParenIsNesting = TRUE
  ImportIsDecl = TRUE
  TrailingCommentStays = TRUE
INVARIANTS WantIsStatement CodeKeepsBytes SplitSane CodeMeetsStatement Export
PROPERTY Terminates
