SPECIFICATION Spec
CONSTANTS
  MaxChunks = 4
  Kinds = {"import", "vargroup", "func", "method", "stmt", "block", "flit", "flitres"}
  Variants = {"plain"}
  FuncExprIsDecl = FALSE
INVARIANTS WantIsStatement CodeKeepsBytes SplitSane CodeMeetsStatement Export
PROPERTY Terminates
