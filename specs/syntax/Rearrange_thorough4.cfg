SPECIFICATION Spec
CONSTANTS
  MaxChunks = 4
  Kinds = {"package", "import", "vargroup", "func", "method", "stmt", "block", "flit", "flitres"}
  Variants = {"plain"}
  FuncExprIsDecl = FALSE
  ParenIsNesting = FALSE
  ImportIsDecl = FALSE
  TrailingCommentStays = FALSE
INVARIANTS WantIsStatement CodeKeepsBytes SplitSane CodeMeetsStatement Export
PROPERTY Terminates
