SPECIFICATION Spec
CONSTANTS
  MaxChunks = 3
  Kinds = {"package", "import", "var", "type", "vargroup", "func", "method", "opmethod", "stmt", "block", "flit", "flitres", "conv"}
  Variants = {"plain"}
  FuncExprIsDecl = FALSE
  ParenIsNesting = TRUE
  ImportIsDecl = TRUE
  TrailingCommentStays = TRUE
INVARIANTS WantIsStatement CodeKeepsBytes SplitSane CodeMeetsStatement Export
PROPERTY Terminates
