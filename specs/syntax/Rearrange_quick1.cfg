SPECIFICATION Spec
CONSTANTS
  MaxChunks = 3
  Kinds = {"import", "var", "type", "vargroup", "func", "method", "opmethod", "stmt", "block", "flit", "flitres", "conv"}
  Variants = {"plain"}
  FuncExprIsDecl = FALSE
INVARIANTS WantIsStatement CodeKeepsBytes SplitSane CodeMeetsStatement Export
PROPERTY Terminates
