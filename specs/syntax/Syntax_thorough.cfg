\* thorough tier of C22, C17, C18: every focus of Syntax.tla (FC) with ThoroughSizes, plus the all-kinds sample trees
SPECIFICATION Spec
CONSTANTS
  Foci <- AllFoci
  Sizes <- ThoroughSizes
INVARIANTS RoundTrip ParenExact LayoutFree ParenNeeded ShapesOK SpansOK Export
