----------------------------- MODULE ImportSort -----------------------------
(* C23 -- ast/import.go SortImports / sortSpecs / collapse, reached through   *)
(* format.Source and format.Node (format/format.go).                          *)
(*                                                                           *)
(* An import block is 1-2 import declarations; a declaration is grouped       *)
(* (parenthesised, any number of specs) or ungrouped (one spec).  A spec is   *)
(* (name, path, trailing comment?, blank line before?).  SortImports is       *)
(* modelled at the granularity of the code: the loop over declarations        *)
(* (ungrouped ones are skipped), the split of a grouped declaration into runs *)
(* of specs on successive lines, one sortSpecs call per run (sort by path,    *)
(* name, comment; drop a spec that equals its successor in name and path and  *)
(* carries no comment).  The i-th surviving spec of a run is printed at the   *)
(* i-th position of that run, so blank lines stay where they were.            *)
(* TLC checks the statement of the property on the model for every block in   *)
(* the bound and exports (block, expected declarations/runs).                 *)
EXTENDS Naturals, Sequences, FiniteSets, TLC, VerifIO

CONSTANTS MaxSpecs,   \* specs per block
          Names,      \* subset of {"", "x", "_", "."}   ("" = no name)
          Paths,      \* subset of {"a", "b", "a/b"}
          Cmts,       \* subset of BOOLEAN: trailing comment present?
          Blanks,     \* subset of BOOLEAN: blank line before the spec?
          TwoDecls    \* BOOLEAN: also split the specs over two declarations

\* byte order of the strings (TLC cannot compare strings)
PathRank == [p \in {"a", "a/b", "b"} |-> CASE p = "a" -> 1 [] p = "a/b" -> 2 [] p = "b" -> 3]
NameRank == [n \in {"", ".", "_", "x"} |-> CASE n = "" -> 1 [] n = "." -> 2 [] n = "_" -> 3 [] n = "x" -> 4]
ASSUME Names \subseteq DOMAIN NameRank /\ Paths \subseteq DOMAIN PathRank

Content == [name : Names, path : Paths, cmt : Cmts]           \* what moves when specs are sorted
Strip(s) == [name |-> s.name, path |-> s.path, cmt |-> s.cmt] \* a spec without its layout

\* sort.Slice less function of sortSpecs: path, then name, then comment text
Less(s, t) == \/ PathRank[s.path] < PathRank[t.path]
              \/ s.path = t.path /\ NameRank[s.name] < NameRank[t.name]
              \/ s.path = t.path /\ s.name = t.name /\ ~s.cmt /\ t.cmt
RECURSIVE Insert(_, _)
Insert(x, s) == IF s = <<>> THEN <<x>>
                ELSE IF Less(x, s[1]) THEN <<x>> \o s ELSE <<s[1]>> \o Insert(x, Tail(s))
RECURSIVE Sort(_)
Sort(s) == IF s = <<>> THEN <<>> ELSE Insert(s[1], Sort(Tail(s)))
\* collapse(prev, next): prev may be removed
Collapse(p, n) == p.path = n.path /\ p.name = n.name /\ ~p.cmt
RECURSIVE Dedupe(_)
Dedupe(s) == IF Len(s) <= 1 THEN s
             ELSE IF Collapse(s[1], s[2]) THEN Dedupe(Tail(s)) ELSE <<s[1]>> \o Dedupe(Tail(s))
\* runs of specs on successive lines: a blank line starts a new run
RECURSIVE RunsOf(_)
RunsOf(specs) ==
  IF specs = <<>> THEN <<>>
  ELSE LET brk == {k \in 2..Len(specs) : specs[k].blank}
           e   == IF brk = {} THEN Len(specs) ELSE (CHOOSE k \in brk : \A l \in brk : k <= l) - 1
       IN <<[k \in 1..e |-> Strip(specs[k])]>> \o RunsOf(SubSeq(specs, e + 1, Len(specs)))

-----------------------------------------------------------------------------
VARIABLES decls,    \* input: sequence of [grouped, specs]; spec = [name, path, cmt, blank]
          di,       \* SortImports: index of the declaration being looked at
          pending,  \* runs of the current declaration not yet handed to sortSpecs
          sorted,   \* runs of the current declaration after sortSpecs
          res,      \* output: sequence of [grouped, runs]
          pc
vars == <<decls, di, pending, sorted, res, pc>>

SpecSet == [name : Names, path : Paths, cmt : Cmts, blank : Blanks]
SpecSeqs == UNION {[1..n -> SpecSet] : n \in 1..MaxSpecs}
\* a declaration's first spec has no blank line before it (it would not start a run anyway)
DeclOK(d) == /\ d.specs # <<>> /\ ~d.specs[1].blank
             /\ (~d.grouped => Len(d.specs) = 1)
Blocks(ss) ==
     {<<[grouped |-> g, specs |-> ss]>> : g \in BOOLEAN}
  \cup (IF TwoDecls
        THEN {<<[grouped |-> g1, specs |-> SubSeq(ss, 1, k)], [grouped |-> g2, specs |-> SubSeq(ss, k + 1, Len(ss))]>> :
                g1 \in BOOLEAN, g2 \in BOOLEAN, k \in 1..(Len(ss) - 1)}
        ELSE {})
Init == \E ss \in SpecSeqs : \E b \in Blocks(ss) :
          /\ \A k \in 1..Len(b) : DeclOK(b[k])
          /\ decls = b /\ di = 1 /\ pending = <<>> /\ sorted = <<>> /\ res = <<>> /\ pc = "decl"

\* `if !d.Lparen.IsValid() { continue }`  -- not a block: left alone
SkipUngrouped == /\ pc = "decl" /\ di <= Len(decls) /\ ~decls[di].grouped
                 /\ res' = Append(res, [grouped |-> FALSE, runs |-> RunsOf(decls[di].specs)])
                 /\ di' = di + 1 /\ UNCHANGED <<decls, pending, sorted, pc>>
\* "Identify and sort runs of specs on successive lines."
BeginGrouped == /\ pc = "decl" /\ di <= Len(decls) /\ decls[di].grouped
                /\ pending' = RunsOf(decls[di].specs) /\ sorted' = <<>> /\ pc' = "runs"
                /\ UNCHANGED <<decls, di, res>>
\* sortSpecs: "A lone import, however, may be safely ignored."
SortSpecsLone == /\ pc = "runs" /\ pending # <<>> /\ Len(Head(pending)) <= 1
                 /\ sorted' = Append(sorted, Head(pending)) /\ pending' = Tail(pending)
                 /\ UNCHANGED <<decls, di, res, pc>>
\* sortSpecs: sort.Slice + dedup
SortSpecs == /\ pc = "runs" /\ pending # <<>> /\ Len(Head(pending)) > 1
             /\ sorted' = Append(sorted, Dedupe(Sort(Head(pending)))) /\ pending' = Tail(pending)
             /\ UNCHANGED <<decls, di, res, pc>>
EndDecl == /\ pc = "runs" /\ pending = <<>>
           /\ res' = Append(res, [grouped |-> TRUE, runs |-> sorted])
           /\ di' = di + 1 /\ pc' = "decl" /\ sorted' = <<>> /\ UNCHANGED <<decls, pending>>
Finish == /\ pc = "decl" /\ di > Len(decls) /\ pc' = "done"
          /\ UNCHANGED <<decls, di, pending, sorted, res>>
Next == SkipUngrouped \/ BeginGrouped \/ SortSpecsLone \/ SortSpecs \/ EndDecl \/ Finish
Spec == Init /\ [][Next]_vars /\ WF_vars(Next)

-----------------------------------------------------------------------------
\* The statement, on the model.
Done == pc = "done"
Pair(c) == <<c.name, c.path>>
RECURSIVE Flat(_)
Flat(runs) == IF runs = <<>> THEN <<>> ELSE runs[1] \o Flat(Tail(runs))
RECURSIVE FlatIn(_)
FlatIn(ds) == IF ds = <<>> THEN <<>> ELSE Flat(RunsOf(ds[1].specs)) \o FlatIn(Tail(ds))
RECURSIVE FlatOut(_)
FlatOut(rs) == IF rs = <<>> THEN <<>> ELSE Flat(rs[1].runs) \o FlatOut(Tail(rs))
Count(s, p) == Cardinality({k \in 1..Len(s) : Pair(s[k]) = p})
PairsOf(s) == {Pair(s[k]) : k \in 1..Len(s)}

\* no import added or removed except exact duplicates; name and path stay together
KeepsImportSet == Done =>
   LET a == FlatIn(decls)  b == FlatOut(res) IN
   /\ PairsOf(a) = PairsOf(b)
   /\ \A p \in PairsOf(a) : Count(b, p) >= 1 /\ Count(b, p) <= Count(a, p)
\* every contiguous group of a grouped declaration is sorted by path
GroupsSorted == Done => \A d \in 1..Len(res) : res[d].grouped =>
   \A r \in 1..Len(res[d].runs) : LET run == res[d].runs[r] IN
      \A k \in 1..(Len(run) - 1) : PathRank[run[k].path] <= PathRank[run[k + 1].path]
\* finer than the statement (today's behaviour): groups stay groups, a removed spec has a twin in its
\* own group, nothing with a comment is removed, ungrouped declarations are untouched
GroupsKept == Done =>
   /\ Len(res) = Len(decls)
   /\ \A d \in 1..Len(res) : LET inr == RunsOf(decls[d].specs) IN
        /\ res[d].grouped = decls[d].grouped /\ Len(res[d].runs) = Len(inr)
        /\ (~res[d].grouped => res[d].runs = inr)
        /\ \A r \in 1..Len(inr) :
             /\ PairsOf(res[d].runs[r]) = PairsOf(inr[r])
             /\ \A c \in {inr[r][k] : k \in 1..Len(inr[r])} : c.cmt =>
                  Cardinality({k \in 1..Len(inr[r]) : inr[r][k] = c})
                    = Cardinality({k \in 1..Len(res[d].runs[r]) : res[d].runs[r][k] = c})
\* sorting again changes nothing
Idempotent == Done => \A d \in 1..Len(res) : res[d].grouped =>
   \A r \in 1..Len(res[d].runs) : Dedupe(Sort(res[d].runs[r])) = res[d].runs[r]
Terminates == <>Done

Export == Done => Emit([decls |-> decls, want |-> res])
=============================================================================
