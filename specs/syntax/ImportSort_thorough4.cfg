SPECIFICATION Spec
CONSTANTS
  MaxSpecs = 4
  Names = {"", "x"}
  Paths = {"a", "b"}
  Cmts = {FALSE, TRUE}
  Blanks = {FALSE, TRUE}
  TwoDecls = FALSE
INVARIANTS KeepsImportSet GroupsSorted GroupsKept Idempotent Export
PROPERTY Terminates
