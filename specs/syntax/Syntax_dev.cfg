SPECIFICATION Spec
CONSTANTS
  Foci <- DevFoci
  Sizes <- ThoroughSizes
INVARIANTS RoundTrip ParenExact LayoutFree ParenNeeded ShapesOK SpansOK Export
