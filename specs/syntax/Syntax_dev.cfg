\* development cfg: DevFoci (a subset of the foci) with SmallSizes; not used by a registered check
SPECIFICATION Spec
CONSTANTS
  Foci <- DevFoci
  Sizes <- SmallSizes
INVARIANTS RoundTrip ParenExact LayoutFree ParenNeeded ShapesOK SpansOK Export
