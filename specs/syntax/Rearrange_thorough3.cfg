SPECIFICATION Spec
CONSTANTS
  MaxChunks = 3
  Kinds = {"var", "vargroup", "func", "opmethod", "stmt", "flit", "flitres", "conv"}
  Variants = {"plain", "lead", "trail", "inner"}
  FuncExprIsDecl = TRUE
INVARIANTS WantIsStatement CodeKeepsBytes SplitSane CodeMeetsStatement Export
PROPERTY Terminates
