SPECIFICATION Spec
CONSTANTS
  MaxChunks = 3
  Kinds = {"vargroup", "func", "opmethod", "stmt", "flit", "flitres"}
  Variants = {"plain", "lead", "trail"}
  FuncExprIsDecl = FALSE
  ParenIsNesting = TRUE
  ImportIsDecl = TRUE
  TrailingCommentStays = TRUE
INVARIANTS WantIsStatement CodeKeepsBytes SplitSane CodeMeetsStatement Export
PROPERTY Terminates
