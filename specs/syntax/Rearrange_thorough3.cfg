SPECIFICATION Spec
CONSTANTS
  MaxChunks = 3
  Kinds = {"vargroup", "func", "opmethod", "stmt", "flit", "flitres"}
  Variants = {"plain", "lead", "trail"}
  FuncExprIsDecl = FALSE
  ParenIsNesting = FALSE
  ImportIsDecl = FALSE
  TrailingCommentStays = FALSE
INVARIANTS WantIsStatement CodeKeepsBytes SplitSane CodeMeetsStatement Export
PROPERTY Terminates
