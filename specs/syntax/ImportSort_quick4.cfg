SPECIFICATION Spec
CONSTANTS
  MaxSpecs = 3
  Names = {"", "x"}
  Paths = {"a", "b"}
  Cmts = {FALSE}
  Blanks = {FALSE, TRUE}
  TwoDecls = TRUE
INVARIANTS KeepsImportSet GroupsSorted GroupsKept Idempotent Export
PROPERTY Terminates
