SPECIFICATION Spec
CONSTANTS
  MaxSpecs = 3
  Names = {"", "x"}
  Paths = {"a", "b", "a/b"}
  Cmts = {FALSE, TRUE}
  Blanks = {FALSE, TRUE}
  TwoDecls = FALSE
INVARIANTS KeepsImportSet GroupsSorted GroupsKept Idempotent Export
PROPERTY Terminates
