SPECIFICATION Spec
CONSTANTS
  MaxChunks = 5
  Kinds = {"var", "func", "stmt", "flitres"}
  Variants = {"plain"}
  FuncExprIsDecl = FALSE
  ParenIsNesting = TRUE
  ImportIsDecl = TRUE
  TrailingCommentStays = TRUE
INVARIANTS WantIsStatement CodeKeepsBytes SplitSane CodeMeetsStatement Export
PROPERTY Terminates
