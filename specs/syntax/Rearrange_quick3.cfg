SPECIFICATION Spec
CONSTANTS
  MaxChunks = 5
  Kinds = {"var", "func", "stmt", "flitres"}
  Variants = {"plain"}
  FuncExprIsDecl = FALSE
  ParenIsNesting = FALSE
  ImportIsDecl = FALSE
  TrailingCommentStays = FALSE
INVARIANTS WantIsStatement CodeKeepsBytes SplitSane CodeMeetsStatement Export
PROPERTY Terminates
