SPECIFICATION Spec
CONSTANTS
  MaxChunks = 3
  Kinds = {"var", "func", "stmt", "flitres"}
  Variants = {"plain", "trail"}
  FuncExprIsDecl = FALSE
  ParenIsNesting = TRUE
  ImportIsDecl = TRUE
  TrailingCommentStays = TRUE
INVARIANTS WantIsStatement CodeKeepsBytes SplitSane CodeMeetsStatement Export
PROPERTY Terminates
