\* quick tier of C22, C17, C18: every focus of Syntax.tla (FC) with QuickSizes, plus the all-kinds sample trees
SPECIFICATION Spec
CONSTANTS
  Foci <- AllFoci
  Sizes <- QuickSizes
INVARIANTS RoundTrip ParenExact LayoutFree ParenNeeded ShapesOK SpansOK Export
