------------------------------ MODULE Rearrange ------------------------------
(* C24 -- format/formatutil/format_gop.go: RearrangeFuncs (splitStmts,         *)
(* firstNonDecl, isFuncDecl, codeOf) and SourceEx.                            *)
(*                                                                           *)
(* A script is a sequence of top-level CHUNKS.  A chunk has a kind (package   *)
(* clause, import,                                                            *)
(* var, type, paren-grouped var, func, method, operator method, simple        *)
(* statement, block statement with nested braces, func literal called in      *)
(* place without / with result type, func-typed conversion) and a rendering   *)
(* variant (plain, comment line before, trailing comment, comment inside,     *)
(* blank line before).  A chunk is rendered as LINES; a line is indentation,  *)
(* code text, trailing comment, with the attributes the scanner-level         *)
(* algorithm needs (brace delta, "the scanner inserts a semicolon at the end  *)
(* of this line", class of the first token, what the paren scan of isFuncDecl *)
(* answers).  Strings are opaque to the model ("#" is replaced by the chunk   *)
(* number by the harness so that every chunk is unique).                      *)
(*                                                                           *)
(* Two things are computed for every script in the bound:                    *)
(*  - WANT: the permutation the property prescribes, over chunks (function    *)
(*    declarations hoisted over the other chunks from the first               *)
(*    non-declaration on, order kept inside each class, prefix untouched);   *)
(*  - CODE: what RearrangeFuncs does today, as a state machine over the       *)
(*    scanner's word stream (one action per word / per statement emitted),    *)
(*    producing the exact predicted output as a sequence of atoms.           *)
(* Known deviations of CODE from WANT are explicit, each behind a named       *)
(* dialect switch (one per repair in /verif/fixes, so the model follows the   *)
(* code before and after it): TrailingCommentStays (a trailing comment is the *)
(* first word of the NEXT statement), ParenIsNesting (a newline inside a      *)
(* parenthesised declaration ends a statement), ImportIsDecl (`package` and   *)
(* `import` are not declarations), FuncExprIsDecl (`func(...) T {` /          *)
(* `func(...)(...)` count as declarations; repaired in 10d0eaa).              *)
EXTENDS Naturals, Sequences, FiniteSets, TLC, VerifIO

CONSTANTS MaxChunks, Kinds, Variants,
          FuncExprIsDecl,  \* dialect switches of CODE (one per repair, so the model follows the code either way)
                           \*   TRUE = isFuncDecl before fixes/C24-funclit-result.diff (only `func (...) {` is a
                           \*   literal); FALSE = after it (committed as 10d0eaa)
          ParenIsNesting,  \*   FALSE = splitStmts counts only braces; TRUE = after fixes/C24-paren-group.diff
          ImportIsDecl,    \*   FALSE = isDecl knows const/type/var/func only; TRUE = after fixes/C24-import-decl.diff
                           \*   (package and import are declarations)
          TrailingCommentStays  \* FALSE = a trailing comment is the first word of the next statement;
                           \*   TRUE = after fixes/C24-trailing-comment.diff (attachTrailingComments)

AllKinds == {"package", "import", "var", "type", "vargroup", "func", "method", "opmethod", "stmt", "block",
             "flit", "flitres", "conv"}
AllVariants == {"plain", "lead", "trail", "inner", "blank"}
ASSUME Kinds \subseteq AllKinds /\ Variants \subseteq AllVariants

\* statement-level classification (the property's): declarations and function declarations
DeclKind == {"package", "import", "var", "type", "vargroup", "func", "method", "opmethod"}
FuncKind == {"func", "method", "opmethod"}

\* line: a indent, b code, k trailing comment, d brace delta, semi: scanner inserts ";" at the line
\* end, tok: class of the first token, cfd: isFuncDecl's answer for `func ...` lines
L(a, b, d, semi, tok, cfd) == [a |-> a, b |-> b, k |-> "", d |-> d, semi |-> semi, tok |-> tok, cfd |-> cfd, po |-> 0, pc |-> 0]
\* po / pc: the line opens / closes a parenthesis that stays open across lines
LP(l, po, pc) == [l EXCEPT !.po = po, !.pc = pc]
Tmpl(kind) ==
  CASE kind = "package"  -> << L("", "package main", 0, TRUE, "package", FALSE) >>
    [] kind = "import"   -> << L("", "import \"p#\"", 0, TRUE, "import", FALSE) >>
    [] kind = "var"      -> << L("", "var v# = #", 0, TRUE, "var", FALSE) >>
    [] kind = "type"     -> << L("", "type T# int", 0, TRUE, "type", FALSE) >>
    [] kind = "vargroup" -> << LP(L("", "var (", 0, FALSE, "var", FALSE), 1, 0),
                               L("\t", "g# = #", 0, TRUE, "other", FALSE),
                               L("\t", "h# = #", 0, TRUE, "other", FALSE),
                               LP(L("", ")", 0, TRUE, "other", FALSE), 0, 1) >>
    [] kind = "func"     -> << L("", "func f#() {", 1, FALSE, "func", TRUE),
                               L("\t", "echo #", 0, TRUE, "other", FALSE),
                               L("", "}", 0, TRUE, "close", FALSE) >>
    [] kind = "method"   -> << L("", "func (r *R#) m#(a int) {", 1, FALSE, "func", TRUE),
                               L("\t", "echo a, #", 0, TRUE, "other", FALSE),
                               L("", "}", 0, TRUE, "close", FALSE) >>
    [] kind = "opmethod" -> << L("", "func (a N#) + (b N#) N# {", 1, FALSE, "func", TRUE),
                               L("\t", "return a", 0, TRUE, "other", FALSE),
                               L("", "}", 0, TRUE, "close", FALSE) >>
    [] kind = "stmt"     -> << L("", "x# := #", 0, TRUE, "other", FALSE) >>
    [] kind = "block"    -> << L("", "if y# := #; y# > 0 {", 1, FALSE, "other", FALSE),
                               L("\t", "for {", 1, FALSE, "other", FALSE),
                               L("\t\t", "break", 0, TRUE, "other", FALSE),
                               L("\t", "}", 0, TRUE, "close", FALSE),
                               L("", "}", 0, TRUE, "close", FALSE) >>
    [] kind = "flit"     -> << L("", "func() {", 1, FALSE, "func", FALSE),
                               L("\t", "echo #", 0, TRUE, "other", FALSE),
                               L("", "}()", 0, TRUE, "close", FALSE) >>
    [] kind = "flitres"  -> << L("", "func() int {", 1, FALSE, "func", FuncExprIsDecl),
                               L("\t", "return #", 0, TRUE, "other", FALSE),
                               L("", "}()", 0, TRUE, "close", FALSE) >>
    [] kind = "conv"     -> << L("", "func(int)(c#)", 0, TRUE, "func", FuncExprIsDecl) >>
\* a "close" line starts with "}": one brace level is closed before the d braces it opens
IsNeg(l) == l.tok = "close"

CmtLine(txt) == [a |-> "", b |-> "", k |-> txt, d |-> 0, semi |-> FALSE, tok |-> "none", cfd |-> FALSE, po |-> 0, pc |-> 0]
BlankLine    == [a |-> "", b |-> "", k |-> "", d |-> 0, semi |-> FALSE, tok |-> "none", cfd |-> FALSE, po |-> 0, pc |-> 0]
Render(kind, v) ==
  LET t == Tmpl(kind) n == Len(t) IN
  CASE v = "plain" -> t
    [] v = "lead"  -> <<CmtLine("// d#")>> \o t
    [] v = "blank" -> <<BlankLine>> \o t
    [] v = "trail" -> [i \in 1..n |-> IF i = n THEN [t[i] EXCEPT !.k = "// t#"] ELSE t[i]]
    [] v = "inner" -> [i \in 1..n |-> IF i = 1 THEN [t[i] EXCEPT !.k = "// i#"] ELSE t[i]]
\* "inner" is only meaningful for multi-line chunks
VariantOK(kind, v) == v = "inner" => Len(Tmpl(kind)) > 1

-----------------------------------------------------------------------------
RECURSIVE Concat(_)
Concat(ss) == IF ss = <<>> THEN <<>> ELSE ss[1] \o Concat(Tail(ss))
\* Atoms: the script as a sequence of text pieces, each owned by a chunk.
\* w = "B" code text of a line (a word start; carries the line's attributes), "K" comment (a word),
\* "-" white space / newline.
\* trail: a comment that follows code on its line
Atom(s, c, w, l) == [s |-> s, c |-> c, w |-> w, d |-> l.d, semi |-> l.semi, tok |-> l.tok, cfd |-> l.cfd,
                     po |-> l.po, pc |-> l.pc, trail |-> (w = "K" /\ l.b # "")]
LineAtoms(l, c) ==
     (IF l.a # "" THEN <<Atom(l.a, c, "-", l)>> ELSE <<>>)
  \o (IF l.b # "" THEN <<Atom(l.b, c, "B", l)>> ELSE <<>>)
  \o (IF l.b # "" /\ l.k # "" THEN <<Atom(" ", c, "-", l)>> ELSE <<>>)
  \o (IF l.k # "" THEN <<Atom(l.k, c, "K", l)>> ELSE <<>>)
  \o <<Atom("\n", c, "-", l)>>

VARIABLES script,  \* sequence of [kind, v]
          atoms,   \* all atoms of the script
          words,   \* indices of the atoms that are words (B, K), in order: the scanner's word stream
          wi,      \* splitStmts: next word
          level,   \* splitStmts: brace level
          cur,     \* splitStmts: the statement being collected [first, tok, cfd] (first = 0: empty)
          stmts,   \* splitStmts: statements found
          first,   \* firstNonDecl
          ri,      \* RearrangeFuncs: loop index over rest
          out,     \* RearrangeFuncs: statements appended to ret so far (indices into stmts)
          pc
vars == <<script, atoms, words, wi, level, cur, stmts, first, ri, out, pc>>

RECURSIVE AllAtoms(_, _)
AllAtoms(sc, c) == IF c > Len(sc) THEN <<>>
                   ELSE LET r == Render(sc[c].kind, sc[c].v) IN
                        Concat([i \in 1..Len(r) |-> LineAtoms(r[i], c)]) \o AllAtoms(sc, c + 1)
RECURSIVE WordsOf(_, _)
WordsOf(as, i) == IF i > Len(as) THEN <<>>
                  ELSE (IF as[i].w # "-" THEN <<i>> ELSE <<>>) \o WordsOf(as, i + 1)

\* a package clause can only be the first chunk, imports can only follow it or lead the script
ImportsFirst(sc) == /\ \A i \in 1..Len(sc) : sc[i].kind = "package" => i = 1
                    /\ \A i \in 1..Len(sc) : sc[i].kind = "import" => \A j \in 1..i : sc[j].kind \in {"package", "import"}
Scripts == UNION {[1..n -> [kind : Kinds, v : Variants]] : n \in 1..MaxChunks}
EmptyStmt == [first |-> 0, tok |-> "none", cfd |-> FALSE]

Init == \E sc \in Scripts :
          /\ ImportsFirst(sc) /\ \A i \in 1..Len(sc) : VariantOK(sc[i].kind, sc[i].v)
          /\ script = sc /\ atoms = AllAtoms(sc, 1) /\ words = WordsOf(AllAtoms(sc, 1), 1)
          /\ wi = 1 /\ level = 0 /\ cur = EmptyStmt /\ stmts = <<>>
          /\ first = 0 /\ ri = 0 /\ out = <<>> /\ pc = "split"

\* ---- splitStmts: the scanner's word stream is B, (";" if the line is `semi`), K per line
At == atoms[words[wi]]
AddWord(w) == IF cur.first = 0 THEN [first |-> words[wi], tok |-> w.tok, cfd |-> w.cfd]
              ELSE IF cur.tok = "none" THEN [cur EXCEPT !.tok = w.tok, !.cfd = w.cfd] ELSE cur
\* braces always nest; parentheses only under ParenIsNesting
LevelAfter(l) == (level + l.d + (IF ParenIsNesting THEN l.po ELSE 0))
                 - ((IF IsNeg(l) THEN 1 ELSE 0) + (IF ParenIsNesting THEN l.pc ELSE 0))
\* a comment word: stmt.words = append(stmt.words, ...); tokOf skips it
ScanComment == /\ pc = "split" /\ wi <= Len(words) /\ At.w = "K"
               /\ ~(TrailingCommentStays /\ At.trail /\ cur.first = 0)
               /\ cur' = AddWord([tok |-> "none", cfd |-> FALSE])
               /\ wi' = wi + 1 /\ UNCHANGED <<script, atoms, words, level, stmts, first, ri, out, pc>>
\* attachTrailingComments: a comment on the line on which the last statement ended goes back to that
\* statement (whose chunk runs to the first word of the next one anyway), it does not open a new one
ScanTrailingComment == /\ pc = "split" /\ wi <= Len(words) /\ At.w = "K"
                       /\ TrailingCommentStays /\ At.trail /\ cur.first = 0
                       /\ wi' = wi + 1
                       /\ UNCHANGED <<script, atoms, words, level, cur, stmts, first, ri, out, pc>>
\* code words of a line; no ";" follows, or it follows inside braces
ScanCode == /\ pc = "split" /\ wi <= Len(words) /\ At.w = "B"
            /\ ~(At.semi /\ LevelAfter(At) = 0)
            /\ level' = LevelAfter(At) /\ cur' = AddWord(At)
            /\ wi' = wi + 1 /\ UNCHANGED <<script, atoms, words, stmts, first, ri, out, pc>>
\* code words of a line followed by ";" at level 0: the statement ends (before the trailing comment)
ScanCodeEndStmt == /\ pc = "split" /\ wi <= Len(words) /\ At.w = "B"
                   /\ At.semi /\ LevelAfter(At) = 0
                   /\ level' = 0 /\ stmts' = Append(stmts, AddWord(At)) /\ cur' = EmptyStmt
                   /\ wi' = wi + 1 /\ UNCHANGED <<script, atoms, words, first, ri, out, pc>>
\* EOF: words collected after the last ";" are dropped
ScanEOF == /\ pc = "split" /\ wi > Len(words) /\ pc' = "first"
           /\ UNCHANGED <<script, atoms, words, wi, level, cur, stmts, first, ri, out>>

\* ---- classification by the code
CodeFuncDecl(s) == s.tok = "func" /\ s.cfd
CodeDecl(s)     == \/ s.tok \in {"var", "type", "const"} \/ CodeFuncDecl(s)
                   \/ ImportIsDecl /\ s.tok \in {"package", "import"}
FirstNonDecl == /\ pc = "first"
                /\ LET nd == {i \in 1..Len(stmts) : ~CodeDecl(stmts[i])} IN
                   IF nd = {} THEN first' = 0 /\ pc' = "done" /\ ri' = ri
                   ELSE first' = (CHOOSE i \in nd : \A j \in nd : i <= j) /\ pc' = "funcs" /\ ri' = first'
                /\ UNCHANGED <<script, atoms, words, wi, level, cur, stmts, out>>
\* first loop over rest: function declarations
EmitFunc == /\ pc = "funcs" /\ ri <= Len(stmts) /\ CodeFuncDecl(stmts[ri])
            /\ out' = Append(out, ri) /\ ri' = ri + 1
            /\ UNCHANGED <<script, atoms, words, wi, level, cur, stmts, first, pc>>
PassFunc == /\ pc = "funcs" /\ ri <= Len(stmts) /\ ~CodeFuncDecl(stmts[ri])
            /\ ri' = ri + 1 /\ UNCHANGED <<script, atoms, words, wi, level, cur, stmts, first, out, pc>>
NextLoop == /\ pc = "funcs" /\ ri > Len(stmts) /\ pc' = "others" /\ ri' = first
            /\ UNCHANGED <<script, atoms, words, wi, level, cur, stmts, first, out>>
\* second loop over rest: everything else
EmitOther == /\ pc = "others" /\ ri <= Len(stmts) /\ ~CodeFuncDecl(stmts[ri])
             /\ out' = Append(out, ri) /\ ri' = ri + 1
             /\ UNCHANGED <<script, atoms, words, wi, level, cur, stmts, first, pc>>
PassOther == /\ pc = "others" /\ ri <= Len(stmts) /\ CodeFuncDecl(stmts[ri])
             /\ ri' = ri + 1 /\ UNCHANGED <<script, atoms, words, wi, level, cur, stmts, first, out, pc>>
Finish == /\ pc = "others" /\ ri > Len(stmts) /\ pc' = "done"
          /\ UNCHANGED <<script, atoms, words, wi, level, cur, stmts, first, ri, out>>
Next == ScanComment \/ ScanTrailingComment \/ ScanCode \/ ScanCodeEndStmt \/ ScanEOF \/ FirstNonDecl
        \/ EmitFunc \/ PassFunc \/ NextLoop \/ EmitOther \/ PassOther \/ Finish
Spec == Init /\ [][Next]_vars /\ WF_vars(Next)

-----------------------------------------------------------------------------
Done == pc = "done"
\* codeOf: from the first word of statement i to the first word of the next one (or the end)
StmtEnd(i) == IF i = Len(stmts) THEN Len(atoms) ELSE stmts[i + 1].first - 1
\* atom indices of the predicted output
CodeOut == IF first = 0 THEN [i \in 1..Len(atoms) |-> i]
           ELSE [i \in 1..(stmts[first].first - 1) |-> i]
                \o Concat([k \in 1..Len(out) |-> [j \in 1..(StmtEnd(out[k]) - stmts[out[k]].first + 1) |->
                                                     stmts[out[k]].first + j - 1]])

\* ---- WANT: the permutation the property prescribes, over chunks
N == Len(script)
NonDecl == {i \in 1..N : script[i].kind \notin DeclKind}
FirstND == IF NonDecl = {} THEN N + 1 ELSE CHOOSE i \in NonDecl : \A j \in NonDecl : i <= j
RECURSIVE Pick(_, _, _)
Pick(i, hi, wantFunc) == IF i > hi THEN <<>>
                         ELSE (IF (script[i].kind \in FuncKind) = wantFunc THEN <<i>> ELSE <<>>) \o Pick(i + 1, hi, wantFunc)
WantOrder == [i \in 1..(FirstND - 1) |-> i] \o Pick(FirstND, N, TRUE) \o Pick(FirstND, N, FALSE)
PosIn(s, x) == CHOOSE p \in 1..Len(s) : s[p] = x

\* ---- theorems on the model
\* WANT is the statement: a permutation, prefix untouched, functions first, order kept per class
WantIsStatement == Done =>
  /\ Len(WantOrder) = N /\ {WantOrder[p] : p \in 1..N} = 1..N
  /\ \A i \in 1..(FirstND - 1) : WantOrder[i] = i
  /\ \A i, j \in FirstND..N :
       /\ (script[i].kind \in FuncKind /\ script[j].kind \notin FuncKind) => PosIn(WantOrder, i) < PosIn(WantOrder, j)
       /\ ((script[i].kind \in FuncKind) = (script[j].kind \in FuncKind) /\ i < j) => PosIn(WantOrder, i) < PosIn(WantOrder, j)
\* CODE loses and adds nothing: its output is a permutation of the atoms
CodeKeepsBytes == Done => /\ Len(CodeOut) = Len(atoms)
                          /\ {CodeOut[p] : p \in 1..Len(CodeOut)} = 1..Len(atoms)
\* splitStmts never leaves a brace level open on these scripts, and finds at least one statement per chunk
SplitSane == Done => level = 0 /\ Len(stmts) >= N
\* where none of the four deviations is triggered, CODE = WANT (chunk = its comment line + its lines)
Trigger == \/ ~ImportIsDecl /\ \E i \in 1..N : script[i].kind \in {"package", "import"}
           \/ ~ParenIsNesting /\ \E i \in 1..N : script[i].kind = "vargroup"
           \/ FuncExprIsDecl /\ \E i \in 1..N : script[i].kind \in {"flitres", "conv"}
           \/ ~TrailingCommentStays /\ \E i \in 1..N : script[i].v = "trail"
           \/ \E i \in 1..N : script[i].v = "blank"     \* a blank line travels with the chunk before it (not pinned)
WantAtoms == Concat([p \in 1..N |-> LET c == WantOrder[p] IN
                       LET idx == {a \in 1..Len(atoms) : atoms[a].c = c}
                           lo == CHOOSE a \in idx : \A b \in idx : a <= b
                       IN [j \in 1..Cardinality(idx) |-> lo + j - 1]])
CodeMeetsStatement == (Done /\ ~Trigger) => CodeOut = WantAtoms
Terminates == <>Done

\* per chunk: the atoms of its body = from its first code atom to the newline of its last line
Body(c) == LET idx == {a \in 1..Len(atoms) : atoms[a].c = c}
               bs  == {a \in idx : atoms[a].w = "B"}
               lo  == CHOOSE a \in bs : \A b \in bs : a <= b
               hi  == CHOOSE a \in idx : \A b \in idx : b <= a
           IN [j \in 1..(hi - lo + 1) |-> atoms[lo + j - 1].s]
Export == Done => Emit([script |-> script,
                        atoms |-> [a \in 1..Len(atoms) |-> [s |-> atoms[a].s, c |-> atoms[a].c]],
                        bodies |-> [c \in 1..N |-> Body(c)],
                        want |-> WantOrder,
                        code |-> CodeOut,
                        trigger |-> Trigger])
=============================================================================
