SPECIFICATION Spec
CONSTANTS
  MaxSpecs = 2
  Names = {"", "x", "_", "."}
  Paths = {"a", "b", "a/b"}
  Cmts = {FALSE, TRUE}
  Blanks = {FALSE, TRUE}
  TwoDecls = TRUE
INVARIANTS KeepsImportSet GroupsSorted GroupsKept Idempotent Export
PROPERTY Terminates
