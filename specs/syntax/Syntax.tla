------------------------------- MODULE Syntax -------------------------------
(***************************************************************************)
(* Abstract syntax of XGo (goplus/gop, module github.com/goplus/xgo) as    *)
(* TLA+ trees, with its concrete presentation (tokens, layout classes,     *)
(* parentheses) and the reference parser.  Serves C22 (print/parse round   *)
(* trip), C17 (node spans), C18 (traversal order); written to be reused by *)
(* the formatting properties (C19..C21) and C13/C14/C37.                   *)
(*                                                                         *)
(* TREES.  Every node is a record [k, a, c]:                               *)
(*   k  kind = the Go type name in ast/ast.go, ast/ast_gop.go ("Ident",    *)
(*      "BinaryExpr", "ErrWrapExpr", ...) or a pseudo kind                 *)
(*      "Nil"  (absent optional child in a positional slot),               *)
(*      "List" (a []T field when a node has several lists; a = "," ",1" ",:"*)
(*              comma list (",1": items parsed with lhs=true, no lambda;   *)
(*              ",:": case list, followed by a colon),                     *)
(*              ";" statement list),                                       *)
(*      "Tuple" (parser-internal `(x, y)` before `=>`).                    *)
(*   a  attribute string: operator / name / literal spelling / flags.      *)
(*   c  sequence of children IN SOURCE ORDER (= field order of the Go      *)
(*      struct).  The layout of c per kind is the table at `Shape`.        *)
(* The same shape is exported as JSON {"k":..,"a":..,"c":[..]} and is what *)
(* harness/syntree builds real ast values from.                            *)
(*                                                                         *)
(* OPERATORS (each documented where defined):                              *)
(*   Shape(t)      items (tokens / child references) of one node           *)
(*   Par(t)        t with ParenExpr inserted exactly where NeedsParen      *)
(*   Flat(t)       token sequence [s, g] of a tree (g = gap class)         *)
(*   Toks(t, m)    tokens [s, sp] under layout m in {"canon","tight","wide"}*)
(*   PrintToks(t)  == Toks(Par(t), "canon")   minimal-paren printing       *)
(*   ParseTop(ts,ctx) precedence climbing parser over [s, sp] tokens:      *)
(*                 expressions (PExpr..), statements (PStmt, PSimple, PIf, *)
(*                 PFor, PSwitch, PBlock) and files (PFile, PFuncDecl, ..) *)
(*   Strip(t)      remove ParenExpr                                        *)
(*   Spans(t)      preorder list of [k, f, l] first/last token per node    *)
(*   Preorder(t), WalkEvents(t)   traversal order (with "nil" markers)     *)
(*   L1..L7, Universe(f)          trees by size per focus (FC, Sizes)      *)
(***************************************************************************)
EXTENDS Integers, Sequences, FiniteSets, TLC, VerifIO

CONSTANTS Foci,      \* set of focus names (DOMAIN FC, or "samples"): which construct families are enumerated
          Sizes      \* [focus -> 1..7]: trees of at most Sizes[f] expression nodes

N(k, a, c) == [k |-> k, a |-> a, c |-> c]
Nil        == N("Nil", "", <<>>)
Lst(a, c)  == N("List", a, c)
Id(n)      == N("Ident", n, <<>>)
Lit(v)     == N("BasicLit", v, <<>>)
Pseudo     == {"Nil", "List", "Tuple"}
Real(t)    == t.k \notin Pseudo
Bad        == N("BadExpr", "", <<>>)

RECURSIVE Cat(_)
Cat(ss) == IF ss = <<>> THEN <<>> ELSE Head(ss) \o Cat(Tail(ss))
Last(s) == s[Len(s)]

-----------------------------------------------------------------------------
(* LEXICON.  Token spellings are strings; the classes below are the finite  *)
(* alphabets the model uses (scanner/scanner.go decides the real classes).  *)
IdentNames == {"a", "b", "c", "d", "f", "g", "x", "y", "z", "T", "in", "tpl", "json", "v", "k", "e", "err", "main", "L", "_"}
LitNames   == {"1", "2", "3", "1.5", "\"s\"", "'c'", "2i", "3r", "\"p\"", "c\"s\"", "py\"s\""}
UnitNames  == {"3ms", "2m"}            \* INT UNIT token pair of the real scanner = one model token
RawNames   == {"`x`"}                  \* raw string; glued to an identifier = domain text literal
Keywords   == {"for", "if", "else", "func", "map", "chan", "struct", "interface", "type", "var", "const",
               "import", "package", "return", "break", "continue", "goto", "fallthrough", "go", "defer",
               "switch", "case", "default", "select", "range"}
Words      == IdentNames \cup LitNames \cup UnitNames \cup Keywords

\* token/token.go: Precedence (SRARROW "->" and BIDIARROW "<>" are XGo's, level 3)
Prec(op) == CASE op = "||" -> 1
              [] op = "&&" -> 2
              [] op \in {"==", "!=", "<", "<=", ">", ">=", "->", "<>"} -> 3
              [] op \in {"+", "-", "|", "^"} -> 4
              [] op \in {"*", "/", "%", "<<", ">>", "&", "&^"} -> 5
              [] OTHER -> 0
UnaryOps == {"+", "-", "!", "^", "&", "<-"}       \* parser.go parseUnaryExpr ("*" gives StarExpr)

\* Adjacent spellings that the scanner would read as something else: a blank is REQUIRED between them.
Merge == {<<"+", "+">>, <<"-", "-">>, <<"&", "&">>, <<"&", "^">>, <<"<", "-">>, <<"<", "<-">>,
          <<"/", "*">>, <<"!", "=">>, <<"!", "==">>, <<"1", ".">>, <<"2", ".">>, <<"3", ".">>,
          <<"1", "...">>, <<"2", "...">>, <<"3", "...">>, <<":", "=>">>, <<":", "=">>, <<":", "==">>}
MustSep(p, s) == (p \in Words /\ s \in Words) \/ <<p, s>> \in Merge

\* scanner.go Scan: tokens after which a newline becomes a semicolon (so no line break may follow them)
SemiAfter(s) == s \in IdentNames \cup LitNames \cup UnitNames \cup RawNames
                      \cup {")", "]", "}", "++", "--", "!", "?", "...", "return", "break", "continue", "fallthrough"}

-----------------------------------------------------------------------------
(* SHAPE.  Items of a node: a token [s, g] or a child reference [i, g].     *)
(* g is the gap class of the (first token of the) item:                     *)
(*   "f" free, canonical none   "b" free, canonical blank                   *)
(*   "g" glued (no white space allowed: command-call / errwrap / domain-text*)
(*       rules of parser.go isCmd depend on it)                             *)
(*   "w" white space required   "s" same as the gap of the previous token   *)
(*   "n" statement separator (a ";" token rendered as newline or ";")       *)
T(s)  == [s |-> s, g |-> "f"]
B(s)  == [s |-> s, g |-> "b"]
G(s)  == [s |-> s, g |-> "g"]
SEMI  == [s |-> ";", g |-> "n"]
C(i)  == [i |-> i, g |-> "f"]
CB(i) == [i |-> i, g |-> "b"]
CG(i) == [i |-> i, g |-> "g"]
CS(i) == [i |-> i, g |-> "s"]
CW(i) == [i |-> i, g |-> "w"]
IsRef(it) == "i" \in DOMAIN it
Opt(cond, items) == IF cond THEN items ELSE <<>>
\* children i..j separated by commas / by statement separators
Commas(i, j) == IF i > j THEN <<>> ELSE <<C(i)>> \o Cat([n \in 1..(j - i) |-> <<T(","), CB(i + n)>>])
Semis(i, j)  == IF i > j THEN <<>> ELSE <<C(i)>> \o Cat([n \in 1..(j - i) |-> <<SEMI, C(i + n)>>])
Has(t, i)    == i <= Len(t.c) /\ t.c[i].k # "Nil" /\ ~(t.c[i].k = "List" /\ t.c[i].c = <<>>)

(* Children layout c per kind (optional = Nil in that slot):                                       *)
(*  Ident a=name | BasicLit a=text [parts.. for "${x}" strings] | NumberUnitLit a=text             *)
(*  DomainTextLit a=raw literal c=<<Domain, args..>>  | EnvExpr a in {"","{"} c=<<Name>>           *)
(*  ParenExpr <<X>> | BinaryExpr a=op <<X,Y>> | UnaryExpr a=op <<X>> | StarExpr <<X>>              *)
(*  ErrWrapExpr a in {"!","?"} <<X>> or <<X,Default>> | SelectorExpr <<X,Sel>> | IndexExpr <<X,I>> *)
(*  IndexListExpr <<X,I1,..>> | SliceExpr a in {"","3"} <<X,Lo?,Hi?,Max?>> | TypeAssertExpr <<X,T?>>*)
(*  CallExpr a in {"","...","cmd","cmd..."} <<Fun,Args..>> | KeyValueExpr <<K,V>>                  *)
(*  CompositeLit <<Type?,Elts..>> | SliceLit <<Elts..>> | MatrixLit <<List row,..>> | ElemEllipsis <<Elt>> *)
(*  LambdaExpr a in {"","l","r","lr"} <<List lhs, List rhs>> | LambdaExpr2 a in {"","l"} <<List lhs, Body>> *)
(*  RangeExpr <<First?,Last?,Expr3?>> | ForPhrase <<Key?,Value,X,Init?,Cond?>>                     *)
(*  ComprehensionExpr a in {"[","{"} <<Elt?,For..>> | FuncLit <<Type,Body>> | Ellipsis <<Elt?>>    *)
(*  ArrayType <<Len?,Elt>> | MapType <<K,V>> | ChanType a in {"chan","<-chan","chan<-"} <<V>>      *)
(*  FuncType a in {"","decl"} <<TypeParams?,Params,Results?>> | StructType/InterfaceType <<FieldList>> *)
(*  FieldList a in {"(","{","[",""} <<Field..>> | Field <<List names, Type?, Tag?>>                *)
(*  ExprStmt <<X>> | AssignStmt a=tok <<List lhs, List rhs>> | IncDecStmt a <<X>>                  *)
(*  SendStmt a in {"","..."} <<Chan,Vals..>> | GoStmt/DeferStmt <<Call>> | ReturnStmt <<Results..>> *)
(*  BranchStmt a=tok <<Label?>> | BlockStmt <<Stmts..>> | IfStmt <<Init?,Cond,Body,Else?>>         *)
(*  CaseClause a in {"case","default"} <<List exprs, List body>> | SwitchStmt <<Init?,Tag?,Body>>  *)
(*  TypeSwitchStmt <<Init?,Assign,Body>> | CommClause a <<Comm?, List body>> | SelectStmt <<Body>>  *)
(*  ForStmt <<Init?,Cond?,Post?,Body>> | RangeStmt a in {"",":=","=","norange"} <<Key?,Value?,X,Body>> *)
(*  ForPhraseStmt <<ForPhrase,Body>> | LabeledStmt <<Label,Stmt>> | DeclStmt <<Decl>> | EmptyStmt  *)
(*  GenDecl a in {"var","var(","var(;","const",..,"import("} <<Specs..>> | ImportSpec <<Name?,Path>>       *)
(*  ValueSpec <<List names,Type?,Tag?,List values>> | TypeSpec a in {"","="} <<Name,TypeParams?,Type>> *)
(*  FuncDecl <<Recv?,Name,Type,Body?>> | OverloadFuncDecl <<Recv?,Name,Funcs..>> | File a <<Name?,Decls..>> *)
Shape(t) ==
  LET n == Len(t.c) IN
  CASE t.k \in {"Ident", "BasicLit", "NumberUnitLit"} -> <<T(t.a)>>
    [] t.k = "DomainTextLit" -> <<C(1), G(t.a)>>
    [] t.k = "EnvExpr"       -> IF t.a = "{" THEN <<T("$"), G("{"), C(1), T("}")>> ELSE <<T("$"), CG(1)>>
    [] t.k = "ParenExpr"     -> <<T("("), C(1), T(")")>>
    [] t.k = "BinaryExpr"    -> <<C(1), B(t.a), CS(2)>>
    [] t.k = "UnaryExpr"     -> <<T(t.a), CG(1)>>
    [] t.k = "StarExpr"      -> <<T("*"), CG(1)>>
    [] t.k = "ErrWrapExpr"   -> <<C(1), G(t.a)>> \o Opt(n = 2, <<G(":"), C(2)>>)
    [] t.k = "SelectorExpr"  -> <<C(1), G("."), CG(2)>>
    [] t.k = "IndexExpr"     -> <<C(1), G("["), C(2), T("]")>>
    [] t.k = "IndexListExpr" -> <<C(1), G("[")>> \o Commas(2, n) \o <<T("]")>>
    [] t.k = "SliceExpr"     -> <<C(1), G("[")>> \o Opt(Has(t, 2), <<C(2)>>) \o <<T(":")>> \o Opt(Has(t, 3), <<C(3)>>)
                                 \o Opt(t.a = "3", <<T(":")>> \o Opt(Has(t, 4), <<C(4)>>)) \o <<T("]")>>
    [] t.k = "TypeAssertExpr" -> <<C(1), G("."), G("(")>> \o (IF Has(t, 2) THEN <<C(2)>> ELSE <<T("type")>>) \o <<T(")")>>
    [] t.k = "CallExpr"      ->
         IF t.a \in {"cmd", "cmd..."}
         THEN <<C(1)>> \o Opt(n >= 2, <<CW(2)>> \o Cat([m \in 1..(n - 2) |-> <<T(","), CB(2 + m)>>]))
                       \o Opt(t.a = "cmd...", <<T("...")>>)
         ELSE <<C(1), G("(")>> \o Commas(2, n) \o Opt(t.a = "...", <<T("...")>>) \o <<T(")")>>
    [] t.k = "KeyValueExpr"  -> <<C(1), T(":"), CB(2)>>
    [] t.k = "CompositeLit"  -> Opt(Has(t, 1), <<C(1)>>) \o <<(IF Has(t, 1) THEN G("{") ELSE T("{"))>> \o Commas(2, n) \o <<T("}")>>
    [] t.k = "SliceLit"      -> <<T("[")>> \o Commas(1, n) \o <<T("]")>>
    [] t.k = "MatrixLit"     -> <<T("["), C(1)>> \o Cat([m \in 1..(n - 1) |-> <<T(";"), CB(1 + m)>>]) \o <<T("]")>>
    [] t.k = "ElemEllipsis"  -> <<C(1), T("...")>>
    [] t.k = "LambdaExpr"    ->
         (IF t.a \in {"l", "lr"} THEN <<T("("), C(1), T(")"), B("=>")>>
          ELSE IF Has(t, 1) THEN <<C(1), B("=>")>> ELSE <<T("=>")>>)
         \o (IF t.a \in {"r", "lr"} THEN <<B("("), C(2), T(")")>> ELSE <<CB(2)>>)
    [] t.k = "LambdaExpr2"   ->
         (IF t.a = "l" THEN <<T("("), C(1), T(")"), B("=>")>>
          ELSE IF Has(t, 1) THEN <<C(1), B("=>")>> ELSE <<T("=>")>>) \o <<CB(2)>>
    [] t.k = "RangeExpr"     -> Opt(Has(t, 1), <<C(1)>>) \o <<T(":")>> \o Opt(Has(t, 2), <<C(2)>>)
                                 \o Opt(Has(t, 3), <<T(":"), C(3)>>)
    [] t.k = "ForPhrase"     -> <<T("for")>> \o Opt(Has(t, 1), <<CB(1), T(",")>>) \o <<CB(2), B("in"), CB(3)>>
                                 \o Opt(Has(t, 5), <<B("if")>> \o Opt(Has(t, 4), <<CB(4), T(";")>>) \o <<CB(5)>>)
    [] t.k = "ComprehensionExpr" -> <<T(t.a)>> \o Opt(Has(t, 1), <<C(1)>>)
                                 \o Cat([m \in 1..(n - 1) |-> <<CB(1 + m)>>]) \o <<T(IF t.a = "[" THEN "]" ELSE "}")>>
    [] t.k = "FuncLit"       -> <<C(1), CB(2)>>
    [] t.k = "Ellipsis"      -> <<T("...")>> \o Opt(Has(t, 1), <<C(1)>>)
    [] t.k = "ArrayType"     -> <<T("[")>> \o Opt(Has(t, 1), <<C(1)>>) \o <<T("]"), C(2)>>
    [] t.k = "MapType"       -> <<T("map"), T("["), C(1), T("]"), C(2)>>
    [] t.k = "ChanType"      -> (IF t.a = "<-chan" THEN <<T("<-"), G("chan")>> ELSE IF t.a = "chan<-" THEN <<T("chan"), G("<-")>>
                                 ELSE <<T("chan")>>) \o <<CB(1)>>
    [] t.k = "FuncType"      -> Opt(t.a # "decl", <<T("func")>>) \o Opt(Has(t, 1), <<C(1)>>) \o <<C(2)>> \o Opt(Has(t, 3), <<CB(3)>>)
    [] t.k = "StructType"    -> <<T("struct"), CB(1)>>
    [] t.k = "InterfaceType" -> <<T("interface"), CB(1)>>
    [] t.k = "FieldList"     -> IF t.a = "(" THEN <<T("(")>> \o Commas(1, n) \o <<T(")")>>
                                 ELSE IF t.a = "[" THEN <<T("[")>> \o Commas(1, n) \o <<T("]")>>
                                 ELSE IF t.a = "{" THEN <<T("{")>> \o Semis(1, n) \o <<T("}")>>
                                 ELSE Commas(1, n)
    [] t.k = "Field"         -> Opt(Has(t, 1), <<C(1)>>) \o Opt(Has(t, 2), <<(IF Has(t, 1) THEN CB(2) ELSE C(2))>>)
                                 \o Opt(Has(t, 3), <<CB(3)>>)
    \* ---- statements
    [] t.k = "ExprStmt"      -> <<C(1)>>
    [] t.k = "AssignStmt"    -> <<C(1), B(t.a), CB(2)>>
    [] t.k = "IncDecStmt"    -> <<C(1), T(t.a)>>
    \* `c <-1` would be the command call c(<-1): the gap after "<-" follows the gap before it
    [] t.k = "SendStmt"      -> <<C(1), B("<-"), CS(2)>> \o Cat([m \in 1..(n - 2) |-> <<T(","), CB(2 + m)>>]) \o Opt(t.a = "...", <<T("...")>>)
    [] t.k = "GoStmt"        -> <<T("go"), CB(1)>>
    [] t.k = "DeferStmt"     -> <<T("defer"), CB(1)>>
    [] t.k = "ReturnStmt"    -> <<T("return")>> \o Opt(n >= 1, <<CB(1)>> \o Cat([m \in 1..(n - 1) |-> <<T(","), CB(1 + m)>>]))
    [] t.k = "BranchStmt"    -> <<T(t.a)>> \o Opt(Has(t, 1), <<CB(1)>>)
    [] t.k = "BlockStmt"     -> IF t.a = "bare" THEN Semis(1, n)
                                 ELSE IF n > 0 /\ t.c[1].k \in {"CaseClause", "CommClause"}
                                 THEN \* clauses: no ";" between them (it would be an empty statement), one after a non-empty body
                                      <<T("{")>> \o Cat([m \in 1..n |-> <<CB(m)>> \o Opt(Has(t.c[m], 2), <<SEMI>>)]) \o <<T("}")>>
                                 ELSE <<T("{")>> \o Semis(1, n) \o Opt(n > 0, <<SEMI>>) \o <<T("}")>>   \* "}" on its own line
    [] t.k = "IfStmt"        -> <<T("if")>> \o Opt(Has(t, 1), <<CB(1), T(";")>>) \o <<CB(2), CB(3)>> \o Opt(Has(t, 4), <<B("else"), CB(4)>>)
    [] t.k = "CaseClause"    -> (IF t.a = "default" THEN <<T("default")>> ELSE <<T("case"), CB(1)>>) \o <<T(":")>>
                                 \o Opt(Has(t, 2), <<CB(2)>>)
    [] t.k = "CommClause"    -> (IF t.a = "default" THEN <<T("default")>> ELSE <<T("case"), CB(1)>>) \o <<T(":")>>
                                 \o Opt(Has(t, 2), <<CB(2)>>)
    [] t.k = "SwitchStmt"    -> <<T("switch")>> \o Opt(Has(t, 1), <<CB(1), T(";")>>) \o Opt(Has(t, 2), <<CB(2)>>) \o <<CB(3)>>
    [] t.k = "TypeSwitchStmt" -> <<T("switch")>> \o Opt(Has(t, 1), <<CB(1), T(";")>>) \o <<CB(2), CB(3)>>
    [] t.k = "SelectStmt"    -> <<T("select"), CB(1)>>
    [] t.k = "ForStmt"       -> IF ~Has(t, 1) /\ ~Has(t, 3)
                                 THEN <<T("for")>> \o Opt(Has(t, 2), <<CB(2)>>) \o <<CB(4)>>
                                 ELSE <<T("for")>> \o Opt(Has(t, 1), <<CB(1)>>) \o <<T(";")>> \o Opt(Has(t, 2), <<CB(2)>>)
                                      \o <<T(";")>> \o Opt(Has(t, 3), <<CB(3)>>) \o <<CB(4)>>
    [] t.k = "RangeStmt"     -> <<T("for")>> \o Opt(Has(t, 1), <<CB(1)>> \o Opt(Has(t, 2), <<T(","), CB(2)>>) \o <<B(t.a)>>)
                                 \o Opt(t.a # "norange", <<B("range")>>) \o <<CB(3), CB(4)>>
    [] t.k = "ForPhraseStmt" -> <<C(1), CB(2)>>
    [] t.k = "LabeledStmt"   -> <<C(1), T(":"), CB(2)>>
    [] t.k = "DeclStmt"      -> <<C(1)>>
    [] t.k = "EmptyStmt"     -> <<>>
    \* ---- declarations
    [] t.k = "GenDecl"       -> IF t.a \in {"var(", "var(;", "const(", "type(", "import("}
                                 THEN <<T(CASE t.a \in {"var(", "var(;"} -> "var" [] t.a = "const(" -> "const" [] t.a = "type(" -> "type" [] OTHER -> "import"), B("(")>>
                                      \o Semis(1, n) \o Opt(t.a = "var(;", <<SEMI>>) \o <<T(")")>>   \* class fields: each ends with ";"
                                 ELSE <<T(t.a), CB(1)>>
    [] t.k = "ImportSpec"    -> Opt(Has(t, 1), <<C(1)>>) \o <<(IF Has(t, 1) THEN CB(2) ELSE C(2))>>
    [] t.k = "ValueSpec"     -> Opt(Has(t, 1), <<C(1)>>) \o Opt(Has(t, 2), <<(IF Has(t, 1) THEN CB(2) ELSE C(2))>>) \o Opt(Has(t, 3), <<CB(3)>>) \o Opt(Has(t, 4), <<B("="), CB(4)>>)
    [] t.k = "TypeSpec"      -> <<C(1)>> \o Opt(Has(t, 2), <<C(2)>>) \o Opt(t.a = "=", <<B("=")>>) \o <<CB(3)>>
    [] t.k = "FuncDecl" /\ t.a = "shadow" -> <<C(4)>>
    [] t.k = "FuncDecl"      -> <<T("func")>> \o Opt(Has(t, 1), <<CB(1)>>) \o <<CB(2), C(3)>> \o Opt(Has(t, 4), <<CB(4)>>)
    [] t.k = "OverloadFuncDecl" -> <<T("func")>> \o Opt(Has(t, 1), <<CB(1), T(".")>>) \o <<(IF Has(t, 1) THEN C(2) ELSE CB(2)), B("="), B("(")>>
                                 \o Semis(3, n) \o <<T(")")>>
    [] t.k = "File"          -> Opt(Has(t, 1), <<T("package"), CB(1)>> \o Opt(n >= 2, <<SEMI>>)) \o Semis(2, n)
    [] t.k = "List"          -> IF t.a = ";" THEN Semis(1, n) ELSE Commas(1, n)
    [] OTHER                 -> <<>>

-----------------------------------------------------------------------------
(* PARENTHESES.  Lvl(t) is the grammar level an unparenthesised t is parsed  *)
(* at (parser.go: parseBinaryExpr levels 1..5, parseUnaryExpr 6,             *)
(* parsePrimaryExpr 7, parseLambdaExpr 0); SlotLvl(t, i) the level child i   *)
(* of t is parsed at.  A child needs parentheses iff its level is below the  *)
(* slot's, or (colon hazard) its right edge is a default-less ErrWrapExpr    *)
(* directly followed by ":" (`x?:d` would swallow the colon,                 *)
(* parseErrWrapExpr).                                                        *)
Lvl(t) == CASE t.k = "BinaryExpr" -> Prec(t.a)
            [] t.k \in {"UnaryExpr", "StarExpr"} -> 6
            [] t.k = "ErrWrapExpr" /\ Len(t.c) = 2 -> 6
            [] t.k \in {"LambdaExpr", "LambdaExpr2"} -> 0
            [] OTHER -> 7
SlotLvl(t, i) ==
  CASE t.k = "BinaryExpr" -> IF i = 1 THEN Prec(t.a) ELSE Prec(t.a) + 1
    [] t.k \in {"UnaryExpr", "StarExpr"} -> 6
    [] t.k = "ErrWrapExpr" -> IF i = 1 THEN 7 ELSE 6
    [] t.k \in {"SelectorExpr", "IndexExpr", "IndexListExpr", "SliceExpr", "TypeAssertExpr", "CallExpr"} /\ i = 1 -> 7
    [] t.k = "CompositeLit" -> IF i = 1 THEN 7 ELSE 1      \* parseElement: parseExpr(lhs = true)
    [] t.k = "KeyValueExpr" -> IF i = 1 THEN 1 ELSE 0
    [] t.k = "RangeExpr" -> 1                              \* parseRangeExpr: parseBinaryExpr
    [] t.k = "ComprehensionExpr" /\ i = 1 -> IF t.a = "{" THEN 1 ELSE 0
    [] t.k = "ForPhrase" /\ i = 5 -> IF t.a = "stmt" THEN 0 ELSE 1   \* comprehension: parseForPhraseCond (simple statement)
    [] t.k \in {"ExprStmt", "IncDecStmt"} -> 1             \* parseLHSList
    [] t.k = "SendStmt" /\ i = 1 -> 1
    [] t.k \in {"IfStmt", "ForStmt", "SwitchStmt"} /\ i = 2 -> 1
    [] t.k = "List" -> IF t.a = ",1" THEN 1 ELSE 0
    [] OTHER -> 0
RECURSIVE REdge(_)
\* the rightmost unparenthesised primary of an expression
REdge(t) == CASE t.k = "BinaryExpr" -> REdge(t.c[2])
              [] t.k \in {"UnaryExpr", "StarExpr"} -> REdge(t.c[1])
              [] t.k = "ErrWrapExpr" /\ Len(t.c) = 2 -> REdge(t.c[2])
              [] t.k = "KeyValueExpr" -> REdge(t.c[2])
              [] t.k = "LambdaExpr" /\ t.a \notin {"r", "lr"} /\ t.c[2].c # <<>> -> REdge(Last(t.c[2].c))
              [] OTHER -> t
ColonHazard(t) == LET r == REdge(t) IN r.k = "ErrWrapExpr" /\ Len(r.c) = 1
FollowedByColon(t, i) ==
     (t.k = "SliceExpr" /\ (i = 2 \/ (i = 3 /\ t.a = "3")))
  \/ (t.k = "RangeExpr" /\ (i = 1 \/ (i = 2 /\ Has(t, 3))))
  \/ (t.k = "KeyValueExpr" /\ i = 1)
  \/ (t.k = "List" /\ t.a = ",:" /\ i = Len(t.c))        \* the last expression of `case a, b:`
RECURSIVE ExposedCL(_), Flat(_)
\* a composite literal with a type name that is not enclosed in brackets: in a control clause
\* (exprLev < 0) its "{" would be taken for the block (parsePrimaryExpr, case token.LBRACE)
ExposedCL(t) == CASE t.k = "CompositeLit" -> Has(t, 1) /\ t.c[1].k \in {"Ident", "SelectorExpr", "IndexExpr", "IndexListExpr"}
                  [] t.k \in {"BinaryExpr", "RangeExpr"} -> \E i \in 1..Len(t.c) : ExposedCL(t.c[i])
                  [] t.k \in {"UnaryExpr", "StarExpr", "ErrWrapExpr"} -> \E i \in 1..Len(t.c) : ExposedCL(t.c[i])
                  [] t.k \in {"SelectorExpr", "IndexExpr", "IndexListExpr", "SliceExpr", "TypeAssertExpr", "CallExpr"} -> ExposedCL(t.c[1])
                  [] t.k \in {"AssignStmt", "ExprStmt", "IncDecStmt", "SendStmt", "List"} -> \E i \in 1..Len(t.c) : ExposedCL(t.c[i])
                  [] t.k = "LambdaExpr" /\ t.a \notin {"r", "lr"} -> ExposedCL(t.c[2])
                  [] OTHER -> FALSE
\* slots parsed with exprLev = -1
ControlSlot(t, i) == (t.k = "ForPhrase" /\ (i = 5 \/ (i = 3 /\ t.a = "stmt")))      \* a = "stmt": the phrase of a for statement
                     \/ (t.k \in {"IfStmt", "ForStmt", "SwitchStmt"} /\ i \in {1, 2})
                     \/ (t.k = "RangeStmt" /\ i = 3) \/ (t.k = "TypeSwitchStmt" /\ i \in {1, 2})
\* slots parsed with lhs = true: "{" cannot start the operand there (parseOperand, case token.LBRACE)
LhsSlot(t, i) == (t.k = "ForPhrase" /\ i = 5 /\ t.a # "stmt") \/ (t.k \in {"ExprStmt", "IncDecStmt"}) \/ (t.k = "SendStmt" /\ i = 1)
                 \/ (t.k \in {"IfStmt", "ForStmt", "SwitchStmt"} /\ i \in {1, 2}) \/ (t.k = "List" /\ t.a = ",1")
\* element slots (parseValue): a leading "{" is a complete untyped literal there, no postfix/binary may follow it
ValueSlot(t, i) == (t.k = "CompositeLit" /\ i >= 2) \/ (t.k = "ComprehensionExpr" /\ t.a = "{" /\ i = 1) \/ t.k = "KeyValueExpr"
\* NeedsParen(t, i, pc): child i of t (pc = that child already parenthesised inside) must be wrapped
StmtKinds == {"ExprStmt", "AssignStmt", "IncDecStmt", "SendStmt", "GoStmt", "DeferStmt", "ReturnStmt", "BranchStmt", "BlockStmt",
              "IfStmt", "CaseClause", "SwitchStmt", "TypeSwitchStmt", "CommClause", "SelectStmt", "ForStmt", "RangeStmt",
              "ForPhraseStmt", "LabeledStmt", "DeclStmt", "EmptyStmt", "ForPhrase", "KeyValueExpr", "RangeExpr", "ElemEllipsis"}
NeedsParen(t, i, pc) == /\ Real(t.c[i]) /\ t.c[i].k \notin StmtKinds
                        /\ \/ Lvl(t.c[i]) < SlotLvl(t, i)
                           \/ (FollowedByColon(t, i) /\ ColonHazard(pc))
                           \/ (ControlSlot(t, i) /\ ExposedCL(pc))
                           \/ (LhsSlot(t, i) /\ Flat(pc)[1].s = "{")
                           \/ (ValueSlot(t, i) /\ Flat(pc)[1].s = "{" /\ pc.k \notin {"CompositeLit", "ComprehensionExpr", "KeyValueExpr"})
RECURSIVE Par(_), DomainOK(_)
\* Par(t): t with parentheses inserted where needed.  A lambda result that would START with "(" is read
\* by parseLambdaExpr as a parenthesised result list, so the whole result gets the lambda's own parentheses.
Par(t) == IF t.c = <<>> THEN t
          ELSE LET u == [t EXCEPT !.c = [i \in 1..Len(t.c) |->
                          LET pc == Par(t.c[i]) IN IF NeedsParen(t, i, pc) THEN N("ParenExpr", "", <<pc>>) ELSE pc]]
               IN IF t.k = "LambdaExpr" /\ t.a \in {"", "l"} /\ Len(u.c[2].c) = 1 /\ Flat(u.c[2])[1].s \in {"(", "{"}
                  THEN [u EXCEPT !.a = IF t.a = "l" THEN "lr" ELSE "r"] ELSE u
\* DOMAIN of C22 ("well-formed tree built programmatically, without explicit parentheses"): a composite
\* literal standing directly in a control clause (condition of a for-phrase / if / for / switch) is NOT
\* well-formed without its ParenExpr -- as in go/ast, whose printer keeps exactly these parentheses
\* (stripParens) and never invents them.  Such trees are still enumerated (C17/C18 use their parenthesised
\* form) but C22 skips them.
DomainOK(t) == /\ \A i \in 1..Len(t.c) :
                    ~(Real(t.c[i]) /\ ControlSlot(t, i)
                      /\ (ExposedCL(Par(t.c[i])) \/ Flat(Par(t.c[i]))[1].s = "{"))
               /\ \A i \in 1..Len(t.c) : DomainOK(t.c[i])
RECURSIVE Strip(_)
\* remove ParenExpr; `x => (e)` (RhsHasParen with one result) is the lambda's own way of writing a ParenExpr
Strip(t) == IF t.k = "ParenExpr" THEN Strip(t.c[1])
            ELSE IF t.c = <<>> THEN t
            ELSE LET u == [t EXCEPT !.c = [i \in 1..Len(t.c) |-> Strip(t.c[i])]] IN
                 IF t.k = "LambdaExpr" /\ Len(t.c[2].c) = 1 /\ t.a \in {"r", "lr"}
                 THEN [u EXCEPT !.a = IF t.a = "lr" THEN "l" ELSE ""] ELSE u
RECURSIVE HasParen(_)
HasParen(t) == t.k = "ParenExpr" \/ \E i \in 1..Len(t.c) : HasParen(t.c[i])

-----------------------------------------------------------------------------
(* TOKENS.                                                                   *)
SetG(items, g) == IF items = <<>> THEN <<>> ELSE <<[items[1] EXCEPT !.g = g]>> \o Tail(items)
\* token sequence [s, g] of a tree with explicit parentheses
Flat(t) == LET sh == Shape(t) IN
           Cat([j \in 1..Len(sh) |-> IF IsRef(sh[j]) THEN SetG(Flat(t.c[sh[j].i]), sh[j].g) ELSE <<sh[j]>>])
\* layout: which gaps hold white space.  canon = gofmt-like, tight = only required, wide = wherever allowed
Layout(fl, m) ==
  LET sp[i \in 1..Len(fl)] ==
        IF i = 1 THEN FALSE
        ELSE LET g == fl[i].g IN
             \/ MustSep(fl[i - 1].s, fl[i].s)
             \/ CASE g = "w" -> TRUE [] g = "n" -> TRUE [] g = "g" -> FALSE [] g = "s" -> sp[i - 1]
                  [] g = "b" -> m # "tight" [] OTHER -> m = "wide"
  IN [i \in 1..Len(fl) |-> [s |-> fl[i].s, sp |-> sp[i]]]
Toks(t, m)   == Layout(Flat(t), m)
PrintToks(t) == Toks(Par(t), "canon")
\* what the harness needs to lay a tree out: spelling, gap class, may a line break precede the token
RenderToks(t) == LET fl == Flat(t) IN
  [i \in 1..Len(fl) |-> [s |-> fl[i].s, g |-> fl[i].g,
                         sep |-> i > 1 /\ MustSep(fl[i - 1].s, fl[i].s),
                         nl |-> i > 1 /\ fl[i].g \notin {"g", "s"} /\ ~SemiAfter(fl[i - 1].s)]]

-----------------------------------------------------------------------------
(* SPANS and TRAVERSAL.                                                      *)
NTok(t) == Len(Flat(t))
ItemLen(t, it) == IF IsRef(it) THEN NTok(t.c[it.i]) ELSE 1
RECURSIVE SpanList(_, _)
\* preorder list of [k, f, l]: first and last token index (1-based, off tokens precede t)
SpanList(t, off) ==
  LET sh == Shape(t)
      pre[j \in 1..(Len(sh) + 1)] == IF j = 1 THEN off ELSE pre[j - 1] + ItemLen(t, sh[j - 1])
      refs(i) == {j \in 1..Len(sh) : IsRef(sh[j]) /\ sh[j].i = i}
      kids == [i \in 1..Len(t.c) |-> IF refs(i) = {} THEN <<>> ELSE SpanList(t.c[i], pre[CHOOSE j \in refs(i) : TRUE])]
      self == IF Real(t) THEN <<[k |-> t.k, f |-> off + 1, l |-> off + NTok(t)]>> ELSE <<>>
  IN self \o Cat(kids)
Spans(t) == SpanList(t, 0)
\* every real child is referenced exactly once by the shape, in increasing order (source order = field order)
RECURSIVE ShapeOK(_)
ShapeOK(t) == LET sh == Shape(t)
                  rs == SelectSeq(sh, IsRef)
              IN /\ \A j \in 1..(Len(rs) - 1) : rs[j].i < rs[j + 1].i
                 /\ t.k \in {"DomainTextLit", "BasicLit"}     \* their further children lie INSIDE the literal token
                    \/ \A i \in 1..Len(t.c) : Has(t, i) => \E j \in 1..Len(rs) : rs[j].i = i
                 /\ \A i \in 1..Len(t.c) : ShapeOK(t.c[i])
RECURSIVE Preorder(_)
\* kinds of the real nodes, parents first, children in source order
Preorder(t) == (IF Real(t) THEN <<t.k>> ELSE <<>>) \o Cat([i \in 1..Len(t.c) |-> Preorder(t.c[i])])
RECURSIVE WalkEvents(_)
\* what ast.Walk must call the visitor with: node, children..., nil
WalkEvents(t) == IF Real(t) THEN <<t.k>> \o Cat([i \in 1..Len(t.c) |-> WalkEvents(t.c[i])]) \o <<"nil">>
                 ELSE Cat([i \in 1..Len(t.c) |-> WalkEvents(t.c[i])])
RECURSIVE Parseable(_)
\* can the XGo parser produce this tree at all (no type parameters)
Parseable(t) == /\ ~(t.k \in {"TypeSpec", "FuncType"} /\ Has(t, IF t.k = "TypeSpec" THEN 2 ELSE 1))
                /\ \A i \in 1..Len(t.c) : Parseable(t.c[i])
RECURSIVE Size(_)
Size(t) == (IF Real(t) THEN 1 ELSE 0) + (IF t.c = <<>> THEN 0 ELSE LET S[i \in 0..Len(t.c)] == IF i = 0 THEN 0 ELSE S[i - 1] + Size(t.c[i]) IN S[Len(t.c)])

-----------------------------------------------------------------------------
(* PARSER (parser/parser.go: expressions, statements, files).  Tokens [s,sp] *)
(* (sp = white space precedes the token).  Every operator returns           *)
(* [t |-> tree, p |-> index of the next token]; an error yields a BadExpr   *)
(* and jumps behind the end, so the final tree differs from every           *)
(* well-formed tree.  The context cx mirrors the parser's flags:            *)
(*   cmd = allowCmd, tup = allowTuple, rng = allowRangeExpr, lhs = lhs,     *)
(*   lev = exprLev (composite literals are not operands when lev < 0).      *)
R(t, p)   == [t |-> t, p |-> p]
EOFT      == [s |-> "<EOF>", sp |-> TRUE]
At(ts, p) == IF p \in 1..Len(ts) THEN ts[p] ELSE EOFT
Err(ts)   == R(Bad, Len(ts) + 2)
Cx(cmd, tup, rng, lhs, lev) == [cmd |-> cmd, tup |-> tup, rng |-> rng, lhs |-> lhs, lev |-> lev]
Sub(cx)   == [cx EXCEPT !.cmd = FALSE, !.tup = FALSE, !.rng = FALSE, !.lhs = FALSE]
In(cx)    == [Sub(cx) EXCEPT !.lev = cx.lev + 1]            \* inside ( ) [ ] { }: exprLev++
TypeStart(s) == s \in IdentNames \ {"in"} \/ s \in {"[", "*", "(", "func", "map", "chan", "struct", "interface", "<-"}
CmdFun(t)    == t.k \in {"Ident", "SelectorExpr", "ErrWrapExpr"}
\* parser.go checkCmd: does the token after a callee start a command argument
CheckCmd(ts, p) == LET s == At(ts, p).s IN
     \/ s \in (IdentNames \cup LitNames \cup UnitNames \cup RawNames \cup {"=>", "func", "goto", "type", "map", "interface", "chan", "struct", "$"})
     \/ (s \in {"-", "&", "*", "<-", "^", "+"} /\ ~At(ts, p + 1).sp)
CompositeOK(x, lev) == (x.k \in {"Ident", "SelectorExpr", "IndexExpr", "IndexListExpr"} /\ lev >= 0)
                       \/ x.k \in {"ArrayType", "MapType", "StructType"}

RECURSIVE PExpr(_, _, _), PRange(_, _, _), PBin(_, _, _, _), PBinLoop(_, _, _, _), PUnary(_, _, _),
          PPrimary(_, _, _), PPost(_, _, _), POperand(_, _, _), PArgs(_, _, _, _), PCmdArgs(_, _, _, _),
          PTuple(_, _, _, _), PExprs(_, _, _, _), PBracket(_, _, _), PSliceMat(_, _, _, _, _), PFors(_, _, _, _),
          PBrace(_, _, _, _), PElems(_, _, _, _, _), PElement(_, _, _), PValue(_, _, _, _), PType(_, _),
          PParams(_, _), PParamList(_, _, _), PSignature(_, _), PFuncLit(_, _), PBlock(_, _), PIdents(_, _, _)

\* parseType (the subset used by literals and assertions)
PType(ts, p) ==
  LET s == At(ts, p).s IN
  CASE s \in IdentNames ->
         IF At(ts, p + 1).s = "." /\ At(ts, p + 2).s \in IdentNames
         THEN R(N("SelectorExpr", "", <<Id(s), Id(At(ts, p + 2).s)>>), p + 3) ELSE R(Id(s), p + 1)
    [] s = "*" -> LET x == PType(ts, p + 1) IN R(N("StarExpr", "", <<x.t>>), x.p)
    [] s = "[" /\ At(ts, p + 1).s = "]" -> LET x == PType(ts, p + 2) IN R(N("ArrayType", "", <<Nil, x.t>>), x.p)
    [] s = "map" /\ At(ts, p + 1).s = "[" ->
         LET k == PType(ts, p + 2) IN
         IF At(ts, k.p).s # "]" THEN Err(ts) ELSE LET v == PType(ts, k.p + 1) IN R(N("MapType", "", <<k.t, v.t>>), v.p)
    [] s = "(" -> LET x == PType(ts, p + 1) IN IF At(ts, x.p).s = ")" THEN R(N("ParenExpr", "", <<x.t>>), x.p + 1) ELSE Err(ts)
    [] OTHER -> Err(ts)

\* parseParameters (the forms the model generates: `a, b T`, `c ...T`, unnamed types); p at "("
Fld1(names, ty) == N("Field", "", <<Lst(",", names), ty, Nil>>)
RECURSIVE PIdentsL(_, _, _)
\* identifiers separated by commas, as long as an identifier follows the comma
PIdentsL(ts, p, acc) ==
  IF At(ts, p + 1).s = "," /\ At(ts, p + 2).s \in IdentNames /\ At(ts, p + 3).s # "."
  THEN PIdentsL(ts, p + 2, Append(acc, Id(At(ts, p).s))) ELSE [l |-> Append(acc, Id(At(ts, p).s)), p |-> p + 1]
PParamList(ts, p, acc) ==
  IF At(ts, p).s = ")" THEN [l |-> acc, p |-> p + 1]
  ELSE
    LET grp ==
      IF At(ts, p).s \in IdentNames /\ At(ts, p + 1).s # "." THEN
        LET ids == PIdentsL(ts, p, <<>>)
            nx == At(ts, ids.p).s IN
        IF nx = "..." THEN LET ty == PType(ts, ids.p + 1) IN [l |-> <<Fld1(ids.l, N("Ellipsis", "", <<ty.t>>))>>, p |-> ty.p]
        ELSE IF TypeStart(nx) THEN LET ty == PType(ts, ids.p) IN [l |-> <<Fld1(ids.l, ty.t)>>, p |-> ty.p]
        ELSE [l |-> [i \in 1..Len(ids.l) |-> Fld1(<<>>, ids.l[i])], p |-> ids.p]          \* the identifiers were types
      ELSE IF At(ts, p).s = "..." THEN LET ty == PType(ts, p + 1) IN [l |-> <<Fld1(<<>>, N("Ellipsis", "", <<ty.t>>))>>, p |-> ty.p]
      ELSE LET ty == PType(ts, p) IN [l |-> <<Fld1(<<>>, ty.t)>>, p |-> ty.p]
    IN IF At(ts, grp.p).s = "," THEN PParamList(ts, grp.p + 1, acc \o grp.l)
       ELSE IF At(ts, grp.p).s = ")" THEN [l |-> acc \o grp.l, p |-> grp.p + 1]
       ELSE [l |-> Append(acc, Bad), p |-> Len(ts) + 2]
PParams(ts, p) == IF At(ts, p).s # "(" THEN Err(ts)
                  ELSE LET l == PParamList(ts, p + 1, <<>>) IN R(N("FieldList", "(", l.l), l.p)
\* parseSignature: parameters and optional results; p at "("; the FuncType carries attribute a
PSignature(ts, p) ==
  LET ps == PParams(ts, p)
      rs == IF At(ts, ps.p).s = "(" THEN PParams(ts, ps.p)
            ELSE IF TypeStart(At(ts, ps.p).s) THEN LET ty == PType(ts, ps.p) IN R(N("FieldList", "", <<Fld1(<<>>, ty.t)>>), ty.p)
            ELSE R(Nil, ps.p)
  IN [ps |-> ps.t, rs |-> rs.t, p |-> rs.p]
\* parseFuncTypeOrLit; p at "func"
PFuncLit(ts, p) ==
  LET sg == PSignature(ts, p + 1)
      ft == N("FuncType", "", <<Nil, sg.ps, sg.rs>>) IN
  IF At(ts, sg.p).s = "{" THEN LET b == PBlock(ts, sg.p) IN R(N("FuncLit", "", <<ft, b.t>>), b.p) ELSE R(ft, sg.p)

\* parseLambdaExpr: [lhs] "=>" rhs | range expression | binary expression
PExpr(ts, p, cx) ==
  LET first == [Sub(cx) EXCEPT !.tup = TRUE, !.cmd = cx.cmd, !.lhs = cx.lhs]
      r0 == IF cx.lhs THEN PBin(ts, p, 1, [first EXCEPT !.tup = FALSE])      \* parseExprEx: lhs => no lambda
            ELSE IF At(ts, p).s = "=>" THEN R(Nil, p)
            ELSE IF cx.rng THEN PRange(ts, p, first) ELSE PBin(ts, p, 1, first)
  IN IF cx.lhs \/ At(ts, r0.p).s # "=>"
     THEN (IF r0.t.k = "Tuple" /\ ~cx.tup THEN Err(ts) ELSE r0)
     ELSE \* lambda: the left side must be an identifier, a parenthesised identifier or a tuple of identifiers
       LET l == r0.t
           RECURSIVE Unp(_)
           Unp(x) == IF x.k = "ParenExpr" THEN Unp(x.c[1]) ELSE x
           lhs == IF l.k = "Nil" THEN <<>> ELSE IF l.k = "Tuple" THEN l.c ELSE <<Unp(l)>>
           lflag == l.k \in {"Tuple", "ParenExpr"}
           q == r0.p + 1
           body == Sub(cx)
       IN IF \E i \in 1..Len(lhs) : lhs[i].k # "Ident" THEN Err(ts)
          ELSE IF At(ts, q).s = "(" THEN
                 LET rs == PExprs(ts, q + 1, body, <<>>) IN
                 IF At(ts, rs.p).s # ")" THEN Err(ts)
                 ELSE R(N("LambdaExpr", IF lflag THEN "lr" ELSE "r", <<Lst(",", lhs), Lst(",", rs.l)>>), rs.p + 1)
          ELSE IF At(ts, q).s = "{" THEN Err(ts)          \* LambdaExpr2 bodies: statement level, not modelled here
          ELSE LET e == PExpr(ts, q, body) IN
               R(N("LambdaExpr", IF lflag THEN "l" ELSE "", <<Lst(",", lhs), Lst(",", <<e.t>>)>>), e.p)

\* e {"," e}   (parseExpr(false, false, false) items)
PExprs(ts, p, cx, acc) ==
  LET e == PExpr(ts, p, cx) IN
  IF At(ts, e.p).s = "," THEN PExprs(ts, e.p + 1, cx, Append(acc, e.t)) ELSE [l |-> Append(acc, e.t), p |-> e.p]

\* parseRangeExpr
PRange(ts, p, cx) ==
  LET x == IF At(ts, p).s # ":" THEN PBin(ts, p, 1, cx) ELSE R(Nil, p) IN
  IF x.t.k = "Tuple" \/ At(ts, x.p).s # ":" THEN x
  ELSE LET hi == PBin(ts, x.p + 1, 1, Sub(cx))
           e3 == IF At(ts, hi.p).s = ":" THEN PBin(ts, hi.p + 1, 1, Sub(cx)) ELSE R(Nil, hi.p)
       IN R(N("RangeExpr", "", <<x.t, hi.t, e3.t>>), e3.p)

\* parseBinaryExpr: precedence climbing
PBin(ts, p, prec1, cx) ==
  LET x == PUnary(ts, p, cx) IN IF x.t.k = "Tuple" THEN x ELSE PBinLoop(ts, x, prec1, cx)
PBinLoop(ts, x, prec1, cx) ==
  LET op == At(ts, x.p).s IN
  IF Prec(op) < prec1 \/ Prec(op) = 0 THEN x
  ELSE LET y == PBin(ts, x.p + 1, Prec(op) + 1, Sub(cx)) IN
       PBinLoop(ts, R(N("BinaryExpr", op, <<x.t, y.t>>), y.p), prec1, cx)

\* parseUnaryExpr + parseErrWrapExpr
PUnary(ts, p, cx) ==
  LET s == At(ts, p).s IN
  IF s \in UnaryOps THEN LET x == PUnary(ts, p + 1, Sub(cx)) IN R(N("UnaryExpr", s, <<x.t>>), x.p)
  ELSE IF s = "*" THEN LET x == PUnary(ts, p + 1, Sub(cx)) IN R(N("StarExpr", "", <<x.t>>), x.p)
  ELSE LET x == PPrimary(ts, p, cx) IN
       IF x.t.k = "ErrWrapExpr" /\ Len(x.t.c) = 1 /\ At(ts, x.p).s = ":"
       THEN LET d == PUnary(ts, x.p + 1, Sub(cx)) IN R([x.t EXCEPT !.c = <<x.t.c[1], d.t>>], d.p)
       ELSE x

PPrimary(ts, p, cx) ==
  LET o == POperand(ts, p, cx) IN IF o.t.k = "Tuple" THEN o ELSE PPost(ts, o, cx)

\* the postfix loop of parsePrimaryExpr
PPost(ts, x, cx) ==
  LET tk == At(ts, x.p)
      s == tk.s
      isCmd == cx.cmd /\ CmdFun(x.t) /\ tk.sp               \* parser.go isCmd: x.End() != p.pos
      cmdCall == LET as == PCmdArgs(ts, x.p, cx, <<>>) IN
                 R(N("CallExpr", IF as.e THEN "cmd..." ELSE "cmd", <<x.t>> \o as.l), as.p)
  IN
  CASE s = "." ->
         IF At(ts, x.p + 1).s \in IdentNames
         THEN PPost(ts, R(N("SelectorExpr", "", <<x.t, Id(At(ts, x.p + 1).s)>>), x.p + 2), cx)
         ELSE IF At(ts, x.p + 1).s = "(" THEN
                IF At(ts, x.p + 2).s = "type" /\ At(ts, x.p + 3).s = ")"
                THEN PPost(ts, R(N("TypeAssertExpr", "", <<x.t, Nil>>), x.p + 4), cx)
                ELSE LET ty == PType(ts, x.p + 2) IN
                     IF At(ts, ty.p).s = ")" THEN PPost(ts, R(N("TypeAssertExpr", "", <<x.t, ty.t>>), ty.p + 1), cx)
                     ELSE Err(ts)
         ELSE Err(ts)
    [] s = "[" ->
         IF isCmd THEN cmdCall
         ELSE \* parseIndexOrSlice
           LET i0 == IF At(ts, x.p + 1).s = ":" THEN R(Nil, x.p + 1) ELSE PExpr(ts, x.p + 1, In(cx)) IN
           IF At(ts, i0.p).s = "]" /\ i0.t.k # "Nil" THEN PPost(ts, R(N("IndexExpr", "", <<x.t, i0.t>>), i0.p + 1), cx)
           ELSE IF At(ts, i0.p).s = ":" THEN
             LET s1 == At(ts, i0.p + 1).s
                 i1 == IF s1 \in {":", "]", "<EOF>"} THEN R(Nil, i0.p + 1) ELSE PExpr(ts, i0.p + 1, In(cx)) IN
             IF At(ts, i1.p).s = "]" THEN PPost(ts, R(N("SliceExpr", "", <<x.t, i0.t, i1.t, Nil>>), i1.p + 1), cx)
             ELSE IF At(ts, i1.p).s = ":" THEN
               LET s2 == At(ts, i1.p + 1).s
                   i2 == IF s2 \in {":", "]", "<EOF>"} THEN R(Nil, i1.p + 1) ELSE PExpr(ts, i1.p + 1, In(cx)) IN
               IF At(ts, i2.p).s = "]" /\ i1.t.k # "Nil" /\ i2.t.k # "Nil"
               THEN PPost(ts, R(N("SliceExpr", "3", <<x.t, i0.t, i1.t, i2.t>>), i2.p + 1), cx) ELSE Err(ts)
             ELSE Err(ts)
           ELSE Err(ts)
    [] s = "(" ->
         IF isCmd THEN cmdCall
         ELSE LET as == PArgs(ts, x.p + 1, In(cx), <<>>) IN
              IF At(ts, as.p).s = ")" THEN PPost(ts, R(N("CallExpr", IF as.e THEN "..." ELSE "", <<x.t>> \o as.l), as.p + 1), cx)
              ELSE Err(ts)
    [] s = "{" ->
         IF isCmd THEN cmdCall
         ELSE IF CompositeOK(x.t, cx.lev) THEN PPost(ts, PBrace(ts, x.p, cx, x.t), cx)
         ELSE x
    [] s = "!" -> IF isCmd THEN cmdCall ELSE PPost(ts, R(N("ErrWrapExpr", "!", <<x.t>>), x.p + 1), cx)
    [] s = "?" -> PPost(ts, R(N("ErrWrapExpr", "?", <<x.t>>), x.p + 1), cx)
    [] OTHER -> IF isCmd /\ CheckCmd(ts, x.p) THEN cmdCall ELSE x

\* parseCallOrConversion, isCmd = false: arguments up to ")"
PArgs(ts, p, cx, acc) ==
  IF At(ts, p).s \in {")", "<EOF>"} THEN [l |-> acc, p |-> p, e |-> FALSE]
  ELSE LET x == PExpr(ts, p, cx) IN
       IF At(ts, x.p).s = "..." THEN [l |-> Append(acc, x.t), p |-> x.p + 1, e |-> TRUE]
       ELSE IF At(ts, x.p).s = "," THEN PArgs(ts, x.p + 1, cx, Append(acc, x.t))
       ELSE [l |-> Append(acc, x.t), p |-> x.p, e |-> FALSE]
\* parseCallOrConversion, isCmd = true: arguments up to ";" / "}" / EOF; a leading tuple is the argument list
PCmdArgs(ts, p, cx, acc) ==
  IF At(ts, p).s \in {";", "<EOF>"} THEN [l |-> acc, p |-> p, e |-> FALSE]
  ELSE LET x == PExpr(ts, p, [In(cx) EXCEPT !.tup = (acc = <<>>)]) IN
       IF x.t.k = "Tuple" THEN [l |-> x.t.c, p |-> x.p, e |-> x.t.a = "..."]
       ELSE IF At(ts, x.p).s = "..." THEN [l |-> Append(acc, x.t), p |-> x.p + 1, e |-> TRUE]
       ELSE IF At(ts, x.p).s = "," THEN PCmdArgs(ts, x.p + 1, cx, Append(acc, x.t))
       ELSE [l |-> Append(acc, x.t), p |-> x.p, e |-> FALSE]

\* parseOperand
POperand(ts, p, cx) ==
  LET tk == At(ts, p)
      nx == At(ts, p + 1) IN
  CASE tk.s \in IdentNames ->
         IF nx.s \in RawNames /\ ~nx.sp THEN R(N("DomainTextLit", nx.s, <<Id(tk.s)>>), p + 2) ELSE R(Id(tk.s), p + 1)
    [] tk.s \in LitNames \cup RawNames -> R(Lit(tk.s), p + 1)
    [] tk.s \in UnitNames -> R(N("NumberUnitLit", tk.s, <<>>), p + 1)
    [] tk.s = "(" ->
         IF cx.tup /\ nx.s = ")" THEN R(N("Tuple", "", <<>>), p + 2)
         ELSE LET x == PExpr(ts, p + 1, In(cx)) IN
              IF cx.tup /\ At(ts, x.p).s \in {",", "..."} THEN PTuple(ts, x.p, cx, <<x.t>>)
              ELSE IF At(ts, x.p).s = ")" THEN R(N("ParenExpr", "", <<x.t>>), x.p + 1) ELSE Err(ts)
    [] tk.s = "{" -> IF cx.lhs THEN Err(ts) ELSE PBrace(ts, p, cx, Nil)
    [] tk.s = "[" -> PBracket(ts, p, cx)
    [] tk.s = "$" ->
         IF nx.s = "{" THEN
           IF At(ts, p + 2).s \in IdentNames /\ At(ts, p + 3).s = "}" THEN R(N("EnvExpr", "{", <<Id(At(ts, p + 2).s)>>), p + 4) ELSE Err(ts)
         ELSE IF nx.s \in IdentNames THEN R(N("EnvExpr", "", <<Id(nx.s)>>), p + 2) ELSE Err(ts)
    [] tk.s = "map" -> PType(ts, p)
    [] tk.s = "func" -> PFuncLit(ts, p)
    [] OTHER -> Err(ts)

\* (x, y, ...) before "=>" or as a command argument list
PTuple(ts, p, cx, acc) ==
  IF At(ts, p).s = "," THEN LET x == PExpr(ts, p + 1, In(cx)) IN PTuple(ts, x.p, cx, Append(acc, x.t))
  ELSE IF At(ts, p).s = "..." /\ At(ts, p + 1).s = ")" THEN R(N("Tuple", "...", acc), p + 2)
  ELSE IF At(ts, p).s = ")" THEN R(N("Tuple", "", acc), p + 1) ELSE Err(ts)

\* parseArrayTypeOrSliceLit (stateArrayTypeOrSliceLit) + parseSliceOrMatrixLit
PBracket(ts, p, cx) ==
  IF At(ts, p + 1).s = "]" THEN
    IF TypeStart(At(ts, p + 2).s) /\ At(ts, p + 2).s # "["
    THEN LET ty == PType(ts, p + 2) IN R(N("ArrayType", "", <<Nil, ty.t>>), ty.p)
    ELSE R(N("SliceLit", "", <<>>), p + 2)
  ELSE LET e == PExpr(ts, p + 1, In(cx))
           k == At(ts, e.p).s IN
       CASE k = "," -> PSliceMat(ts, e.p, cx, <<>>, <<e.t>>)
         [] k = "for" -> LET f == PFors(ts, e.p, cx, <<>>) IN
                         IF At(ts, f.p).s = "]" THEN R(N("ComprehensionExpr", "[", <<e.t>> \o f.l), f.p + 1) ELSE Err(ts)
         [] k = "]" -> IF TypeStart(At(ts, e.p + 1).s) /\ At(ts, e.p + 1).s # "["
                       THEN LET ty == PType(ts, e.p + 1) IN R(N("ArrayType", "", <<e.t, ty.t>>), ty.p)
                       ELSE R(N("SliceLit", "", <<e.t>>), e.p + 1)
         [] OTHER -> Err(ts)
PSliceMat(ts, p, cx, mat, elts) ==
  LET k == At(ts, p).s IN
  IF k = "..." THEN
    IF elts = <<>> THEN Err(ts)
    ELSE PSliceMat(ts, p + 1, cx, mat, [elts EXCEPT ![Len(elts)] = N("ElemEllipsis", "", <<@>>)])
  ELSE IF k \in {",", ";"} THEN
    LET mat2 == IF k = ";" THEN Append(mat, Lst(",", elts)) ELSE mat
        elts2 == IF k = ";" THEN <<>> ELSE elts IN
    IF At(ts, p + 1).s = "]" THEN PSliceMat(ts, p + 1, cx, mat2, elts2)
    ELSE LET e == PExpr(ts, p + 1, In(cx)) IN PSliceMat(ts, e.p, cx, mat2, Append(elts2, e.t))
  ELSE IF k = "]" THEN
    IF mat # <<>> THEN R(N("MatrixLit", "", IF elts # <<>> THEN Append(mat, Lst(",", elts)) ELSE mat), p + 1)
    ELSE R(N("SliceLit", "", elts), p + 1)
  ELSE Err(ts)

\* parseForPhrases: for [k,] v in X [if cond]
PFors(ts, p, cx, acc) ==
  IF At(ts, p).s # "for" THEN [l |-> acc, p |-> p]
  ELSE LET v1 == At(ts, p + 1).s
           two == At(ts, p + 2).s = ","
           v2 == At(ts, p + 3).s
           q == IF two THEN p + 4 ELSE p + 2 IN
       IF ~(v1 \in IdentNames /\ (two => v2 \in IdentNames) /\ At(ts, q).s \in {"in", "<-"}) THEN [l |-> Append(acc, Bad), p |-> Len(ts) + 2]
       ELSE LET x == PExpr(ts, q + 1, [Sub(cx) EXCEPT !.rng = TRUE])
                hasC == At(ts, x.p).s \in {"if", ","}
                cnd == IF hasC THEN PBin(ts, x.p + 1, 1, [Sub(cx) EXCEPT !.lhs = TRUE, !.lev = -1]) ELSE R(Nil, x.p)
                ph == N("ForPhrase", "", <<(IF two THEN Id(v1) ELSE Nil), (IF two THEN Id(v2) ELSE Id(v1)), x.t, Nil, cnd.t>>)
            IN PFors(ts, cnd.p, cx, Append(acc, ph))

\* parseLiteralValue / parseLiteralValueOrMapComprehension; p is at "{"; typ = Nil for an untyped literal
PBrace(ts, p, cx, typ) ==
  IF At(ts, p + 1).s = "}" THEN R(N("CompositeLit", "", <<typ>>), p + 2)
  ELSE IF typ.k = "Nil" /\ At(ts, p + 1).s = "for" THEN
    LET f == PFors(ts, p + 1, In(cx), <<>>) IN
    IF At(ts, f.p).s = "}" THEN R(N("ComprehensionExpr", "{", <<Nil>> \o f.l), f.p + 1) ELSE Err(ts)
  ELSE PElems(ts, p + 1, In(cx), typ, <<>>)
PElems(ts, p, cx, typ, acc) ==
  IF At(ts, p).s = "}" THEN R(N("CompositeLit", "", <<typ>> \o acc), p + 1)
  ELSE IF At(ts, p).s = "<EOF>" THEN Err(ts)
  ELSE LET e == PElement(ts, p, cx) IN
       IF typ.k = "Nil" /\ At(ts, e.p).s = "for" THEN
         IF acc # <<>> THEN Err(ts)
         ELSE LET f == PFors(ts, e.p, cx, <<>>) IN
              IF At(ts, f.p).s = "}" THEN R(N("ComprehensionExpr", "{", <<e.t>> \o f.l), f.p + 1) ELSE Err(ts)
       ELSE IF At(ts, e.p).s = "," THEN PElems(ts, e.p + 1, cx, typ, Append(acc, e.t))
       ELSE IF At(ts, e.p).s = "}" THEN R(N("CompositeLit", "", <<typ>> \o Append(acc, e.t)), e.p + 1)
       ELSE Err(ts)
PElement(ts, p, cx) ==
  LET x == PValue(ts, p, cx, TRUE) IN
  IF At(ts, x.p).s = ":" THEN LET v == PValue(ts, x.p + 1, cx, FALSE) IN R(N("KeyValueExpr", "", <<x.t, v.t>>), v.p) ELSE x
PValue(ts, p, cx, keyOk) ==
  IF At(ts, p).s = "{" THEN PBrace(ts, p, cx, Nil) ELSE PExpr(ts, p, [Sub(cx) EXCEPT !.lhs = keyOk])

\* ---- statements (parser.go parseStmt / parseSimpleStmtEx / parseIfStmt / parseForStmt / parseSwitchStmt)
AssignOps == {"=", ":=", "+=", "-=", "*=", "/=", "%=", "&=", "|=", "^=", "<<=", ">>=", "&^="}
RhsCx(lev) == Cx(FALSE, FALSE, FALSE, FALSE, lev)
RECURSIVE PStmt(_, _), PStmtList(_, _, _), PSimple(_, _, _, _), PLhs(_, _, _, _), PIf(_, _), PFor(_, _), PSpec(_, _, _), PGenDecl(_, _),
          PSwitch(_, _), PClauses(_, _, _, _), PTypes(_, _, _), PCommClauses(_, _, _), PSpecs(_, _, _, _)
\* expectSemi: ";" is consumed, ")" "}" and the end of the text need none
Semi(ts, r) == IF At(ts, r.p).s = ";" THEN R(r.t, r.p + 1)
               ELSE IF At(ts, r.p).s \in {")", "}", "<EOF>"} THEN r ELSE Err(ts)
\* parseLHSList: e {"," e} with lhs = true; only the first may be a command call
PLhs(ts, p, cx, acc) ==
  LET e == PExpr(ts, p, IF acc = <<>> THEN cx ELSE [cx EXCEPT !.cmd = FALSE]) IN
  IF At(ts, e.p).s = "," THEN PLhs(ts, e.p + 1, cx, Append(acc, e.t)) ELSE [l |-> Append(acc, e.t), p |-> e.p]
\* parseSimpleStmtEx; mode "basic" | "label" | "range".  In range mode the result may be the pseudo nodes
\* RangeClause (k, v := range X) and ForIn (k, v in X [if cond]) that PFor turns into statements.
PSimple(ts, p, cx, mode) ==
  IF mode = "range" /\ At(ts, p).s = ":" THEN LET re == PRange(ts, p, Sub(cx)) IN R(N("RangeClause", "norange", <<Lst(",", <<>>), re.t>>), re.p)
  ELSE
  LET l == PLhs(ts, p, [cx EXCEPT !.lhs = TRUE], <<>>)
      tk == At(ts, l.p).s
      one == l.l[1]
  IN
  IF tk \in AssignOps THEN
    IF mode = "range" /\ At(ts, l.p + 1).s = "range" /\ tk \in {":=", "="}
    THEN LET x == PExpr(ts, l.p + 2, [RhsCx(cx.lev) EXCEPT !.rng = TRUE]) IN R(N("RangeClause", tk, <<Lst(",", l.l), x.t>>), x.p)
    ELSE LET r == PExprs(ts, l.p + 1, RhsCx(cx.lev), <<>>) IN R(N("AssignStmt", tk, <<Lst(",1", l.l), Lst(",", r.l)>>), r.p)
  ELSE IF mode = "range" /\ tk \in {"in", "<-"} THEN
    LET x == PExpr(ts, l.p + 1, [RhsCx(cx.lev) EXCEPT !.rng = TRUE])
        cnd == IF At(ts, x.p).s \in {"if", ","} THEN PExpr(ts, x.p + 1, RhsCx(cx.lev)) ELSE R(Nil, x.p)
    IN R(N("ForIn", "", <<Lst(",", l.l), x.t, cnd.t>>), cnd.p)
  ELSE IF Len(l.l) > 1 THEN Err(ts)
  ELSE IF tk = ":" THEN
    IF mode = "range" THEN
         \* parseRangeExpr(first): the range continues after the first expression
         LET hi == PBin(ts, l.p + 1, 1, Sub(cx))
             e3 == IF At(ts, hi.p).s = ":" THEN PBin(ts, hi.p + 1, 1, Sub(cx)) ELSE R(Nil, hi.p)
         IN R(N("RangeClause", "norange", <<Lst(",", <<>>), N("RangeExpr", "", <<one, hi.t, e3.t>>)>>), e3.p)
    ELSE IF mode = "label" /\ one.k = "Ident" THEN
         LET st == PStmt(ts, l.p + 1) IN R(N("LabeledStmt", "", <<one, st.t>>), st.p)
    ELSE Err(ts)
  ELSE IF tk = "<-" THEN
    LET v == PExprs(ts, l.p + 1, RhsCx(cx.lev), <<>>) IN
    IF At(ts, v.p).s = "..." /\ Len(v.l) = 1 THEN R(N("SendStmt", "...", <<one>> \o v.l), v.p + 1)
    ELSE R(N("SendStmt", "", <<one>> \o v.l), v.p)
  ELSE IF tk \in {"++", "--"} THEN R(N("IncDecStmt", tk, <<one>>), l.p + 1)
  ELSE R(N("ExprStmt", "", <<one>>), l.p)
PStmtList(ts, p, acc) ==
  IF At(ts, p).s \in {"}", "case", "default", "<EOF>"} THEN [l |-> acc, p |-> p]
  ELSE LET st == PStmt(ts, p) IN
       IF st.t.k = "BadExpr" THEN [l |-> Append(acc, st.t), p |-> Len(ts) + 2] ELSE PStmtList(ts, st.p, Append(acc, st.t))
PBlock(ts, p) ==
  IF At(ts, p).s # "{" THEN Err(ts)
  ELSE LET b == PStmtList(ts, p + 1, <<>>) IN
       IF At(ts, b.p).s = "}" THEN R(N("BlockStmt", "", b.l), b.p + 1) ELSE Err(ts)
\* the expression of a control clause: makeExpr
CondOf(st) == IF st.k = "ExprStmt" THEN st.c[1] ELSE Bad
PIf(ts, p) ==                      \* p at "if"; no expectSemi here (the caller decides)
  LET hc == Cx(FALSE, FALSE, FALSE, FALSE, -1)
      s1 == PSimple(ts, p + 1, hc, "basic")
      two == At(ts, s1.p).s = ";"
      s2 == IF two THEN PSimple(ts, s1.p + 1, hc, "basic") ELSE s1
      init == IF two THEN s1.t ELSE Nil
      body == PBlock(ts, s2.p)
  IN IF At(ts, body.p).s = "else" THEN
       LET e == IF At(ts, body.p + 1).s = "if" THEN PIf(ts, body.p + 1)
                ELSE Semi(ts, PBlock(ts, body.p + 1))
       IN R(N("IfStmt", "", <<init, CondOf(s2.t), body.t, e.t>>), e.p)
     ELSE Semi(ts, R(N("IfStmt", "", <<init, CondOf(s2.t), body.t, Nil>>), body.p))
PFor(ts, p) ==                     \* p at "for"
  LET hc == Cx(FALSE, FALSE, FALSE, FALSE, -1) IN
  IF At(ts, p + 1).s = "{" THEN LET b == PBlock(ts, p + 1) IN Semi(ts, R(N("ForStmt", "", <<Nil, Nil, Nil, b.t>>), b.p))
  ELSE IF At(ts, p + 1).s = "range" THEN
    LET x == PExpr(ts, p + 2, [hc EXCEPT !.rng = TRUE])
        b == PBlock(ts, x.p)
    IN Semi(ts, R(N("RangeStmt", "", <<Nil, Nil, x.t, b.t>>), b.p))
  ELSE
    LET s2 == IF At(ts, p + 1).s = ";" THEN R(Nil, p + 1) ELSE PSimple(ts, p + 1, hc, "range") IN
    IF s2.t.k = "RangeClause" THEN
      LET lh == s2.t.c[1].c
          b == PBlock(ts, s2.p)
      IN IF Len(lh) > 2 THEN Err(ts)
         ELSE Semi(ts, R(N("RangeStmt", s2.t.a, <<(IF Len(lh) >= 1 THEN lh[1] ELSE Nil), (IF Len(lh) = 2 THEN lh[2] ELSE Nil),
                                                 s2.t.c[2], b.t>>), b.p))
    ELSE IF s2.t.k = "ForIn" THEN
      LET lh == s2.t.c[1].c
          b == PBlock(ts, s2.p)
      IN IF Len(lh) \notin {1, 2} \/ \E i \in 1..Len(lh) : lh[i].k # "Ident" THEN Err(ts)
         ELSE Semi(ts, R(N("ForPhraseStmt", "", <<N("ForPhrase", "stmt", <<(IF Len(lh) = 2 THEN lh[1] ELSE Nil), lh[Len(lh)],
                                                     s2.t.c[2], Nil, s2.t.c[3]>>), b.t>>), b.p))
    ELSE IF At(ts, s2.p).s = ";" THEN
      LET c2 == IF At(ts, s2.p + 1).s = ";" THEN R(Nil, s2.p + 1) ELSE PSimple(ts, s2.p + 1, hc, "basic")
          c3 == IF At(ts, c2.p).s # ";" THEN Err(ts)
                ELSE IF At(ts, c2.p + 1).s = "{" THEN R(Nil, c2.p + 1) ELSE PSimple(ts, c2.p + 1, hc, "basic")
          b == PBlock(ts, c3.p)
      IN Semi(ts, R(N("ForStmt", "", <<s2.t, (IF c2.t.k = "Nil" THEN Nil ELSE CondOf(c2.t)), c3.t, b.t>>), b.p))
    ELSE LET b == PBlock(ts, s2.p) IN Semi(ts, R(N("ForStmt", "", <<Nil, CondOf(s2.t), Nil, b.t>>), b.p))
\* T {"," T}
PTypes(ts, p, acc) ==
  LET t == PType(ts, p) IN
  IF At(ts, t.p).s = "," THEN PTypes(ts, t.p + 1, Append(acc, t.t)) ELSE [l |-> Append(acc, t.t), p |-> t.p]
\* parseCaseClause; tsw: the clauses of a type switch list types
PClauses(ts, p, tsw, acc) ==
  IF At(ts, p).s = "case" THEN
    LET es == IF tsw THEN PTypes(ts, p + 1, <<>>) ELSE PExprs(ts, p + 1, RhsCx(0), <<>>) IN
    IF At(ts, es.p).s # ":" THEN [l |-> Append(acc, Bad), p |-> Len(ts) + 2]
    ELSE LET b == PStmtList(ts, es.p + 1, <<>>) IN
         PClauses(ts, b.p, tsw, Append(acc, N("CaseClause", "case", <<Lst(",:", es.l), Lst(";", b.l)>>)))
  ELSE IF At(ts, p).s = "default" /\ At(ts, p + 1).s = ":" THEN
    LET b == PStmtList(ts, p + 2, <<>>) IN
    PClauses(ts, b.p, tsw, Append(acc, N("CaseClause", "default", <<Lst(",", <<>>), Lst(";", b.l)>>)))
  ELSE [l |-> acc, p |-> p]
IsTSAssert(x) == x.k = "TypeAssertExpr" /\ x.c[2].k = "Nil"
\* isTypeSwitchGuard: `x.(type)` or `v := x.(type)`
TSGuard(st) == \/ (st.k = "ExprStmt" /\ IsTSAssert(st.c[1]))
               \/ (st.k = "AssignStmt" /\ st.a = ":=" /\ Len(st.c[1].c) = 1 /\ Len(st.c[2].c) = 1 /\ IsTSAssert(st.c[2].c[1]))
PSwitch(ts, p) ==                  \* expression switch and type switch
  LET hc == Cx(FALSE, FALSE, FALSE, FALSE, -1)
      a1 == IF At(ts, p + 1).s \in {"{", ";"} THEN R(Nil, p + 1) ELSE PSimple(ts, p + 1, hc, "basic")
      two == At(ts, a1.p).s = ";"
      a2 == IF ~two THEN a1 ELSE IF At(ts, a1.p + 1).s = "{" THEN R(Nil, a1.p + 1) ELSE PSimple(ts, a1.p + 1, hc, "basic")
      init == IF two THEN a1.t ELSE Nil
      tsw == a2.t.k # "Nil" /\ TSGuard(a2.t)
      tag == IF a2.t.k = "Nil" THEN Nil ELSE CondOf(a2.t)
  IN IF At(ts, a2.p).s # "{" THEN Err(ts)
     ELSE LET cl == PClauses(ts, a2.p + 1, tsw, <<>>) IN
          IF At(ts, cl.p).s # "}" THEN Err(ts)
          ELSE IF tsw THEN Semi(ts, R(N("TypeSwitchStmt", "", <<init, a2.t, N("BlockStmt", "", cl.l)>>), cl.p + 1))
          ELSE Semi(ts, R(N("SwitchStmt", "", <<init, tag, N("BlockStmt", "", cl.l)>>), cl.p + 1))
\* parseCommClause (select)
PCommClauses(ts, p, acc) ==
  IF At(ts, p).s = "case" THEN
    LET l == PLhs(ts, p + 1, Cx(FALSE, FALSE, FALSE, TRUE, 0), <<>>)
        tk == At(ts, l.p).s
        comm == IF tk = "<-" THEN LET v == PExpr(ts, l.p + 1, RhsCx(0)) IN R(N("SendStmt", "", <<l.l[1], v.t>>), v.p)
                ELSE IF tk \in {"=", ":="} THEN LET v == PExpr(ts, l.p + 1, RhsCx(0)) IN
                                                  R(N("AssignStmt", tk, <<Lst(",1", l.l), Lst(",", <<v.t>>)>>), v.p)
                ELSE R(N("ExprStmt", "", <<l.l[1]>>), l.p)
    IN IF At(ts, comm.p).s # ":" THEN [l |-> Append(acc, Bad), p |-> Len(ts) + 2]
       ELSE LET b == PStmtList(ts, comm.p + 1, <<>>) IN
            PCommClauses(ts, b.p, Append(acc, N("CommClause", "case", <<comm.t, Lst(";", b.l)>>)))
  ELSE IF At(ts, p).s = "default" /\ At(ts, p + 1).s = ":" THEN
    LET b == PStmtList(ts, p + 2, <<>>) IN
    PCommClauses(ts, b.p, Append(acc, N("CommClause", "default", <<Nil, Lst(";", b.l)>>)))
  ELSE [l |-> acc, p |-> p]
\* parseGenDecl with parseValueSpec / parseTypeSpec (var, const, type; not in class files)
PIdents(ts, p, acc) ==
  IF At(ts, p).s \notin IdentNames THEN [l |-> Append(acc, Bad), p |-> Len(ts) + 2]
  ELSE IF At(ts, p + 1).s = "," THEN PIdents(ts, p + 2, Append(acc, Id(At(ts, p).s)))
  ELSE [l |-> Append(acc, Id(At(ts, p).s)), p |-> p + 1]
PSpec(ts, p, kw) ==
  IF kw = "import" THEN
    LET nm == IF At(ts, p).s \in IdentNames \cup {"."} THEN R(Id(At(ts, p).s), p + 1) ELSE R(Nil, p) IN
    IF At(ts, nm.p).s \in LitNames THEN R(N("ImportSpec", "", <<nm.t, Lit(At(ts, nm.p).s)>>), nm.p + 1) ELSE Err(ts)
  ELSE IF kw = "type" THEN
    IF At(ts, p).s \notin IdentNames THEN Err(ts)
    ELSE LET alias == At(ts, p + 1).s = "="
             ty == PType(ts, IF alias THEN p + 2 ELSE p + 1)
         IN R(N("TypeSpec", IF alias THEN "=" ELSE "", <<Id(At(ts, p).s), Nil, ty.t>>), ty.p)
  ELSE
    LET ns == PIdents(ts, p, <<>>)
        ty == IF TypeStart(At(ts, ns.p).s) THEN PType(ts, ns.p) ELSE R(Nil, ns.p)
        vs == IF At(ts, ty.p).s = "=" THEN PExprs(ts, ty.p + 1, RhsCx(0), <<>>) ELSE [l |-> <<>>, p |-> ty.p]
    IN R(N("ValueSpec", "", <<Lst(",", ns.l), ty.t, Nil, Lst(",", vs.l)>>), vs.p)
PSpecs(ts, p, kw, acc) ==
  IF At(ts, p).s \in {")", "<EOF>"} THEN [l |-> acc, p |-> p]
  ELSE LET sp == Semi(ts, PSpec(ts, p, kw)) IN
       IF sp.t.k = "BadExpr" THEN [l |-> Append(acc, sp.t), p |-> Len(ts) + 2] ELSE PSpecs(ts, sp.p, kw, Append(acc, sp.t))
PGenDecl(ts, p) ==                 \* p at the keyword; includes the expectSemi of the (last) spec
  LET kw == At(ts, p).s IN
  IF At(ts, p + 1).s = "(" THEN
    LET ss == PSpecs(ts, p + 2, kw, <<>>) IN
    IF At(ts, ss.p).s = ")" THEN Semi(ts, R(N("GenDecl", CASE kw = "var" -> "var(" [] kw = "const" -> "const(" [] kw = "import" -> "import(" [] OTHER -> "type(", ss.l), ss.p + 1))
    ELSE Err(ts)
  ELSE LET sp == Semi(ts, PSpec(ts, p + 1, kw)) IN R(N("GenDecl", kw, <<sp.t>>), sp.p)
\* parseStmt(allowCmd = true)
PStmt(ts, p) ==
  LET s == At(ts, p).s IN
  CASE s \in {"go", "defer"} ->
         LET x == PExpr(ts, p + 1, RhsCx(0)) IN
         IF x.t.k = "CallExpr" THEN Semi(ts, R(N(IF s = "go" THEN "GoStmt" ELSE "DeferStmt", "", <<x.t>>), x.p)) ELSE Err(ts)
    [] s = "return" ->
         IF At(ts, p + 1).s \in {";", "}", "<EOF>"} THEN Semi(ts, R(N("ReturnStmt", "", <<>>), p + 1))
         ELSE LET r == PExprs(ts, p + 1, RhsCx(0), <<>>) IN Semi(ts, R(N("ReturnStmt", "", r.l), r.p))
    [] s \in {"break", "continue", "goto", "fallthrough"} ->
         IF At(ts, p + 1).s \in {";", "<EOF>"} THEN Semi(ts, R(N("BranchStmt", s, <<>>), p + 1))
         ELSE IF s # "fallthrough" /\ At(ts, p + 1).s \in IdentNames /\ At(ts, p + 2).s \in {";", "<EOF>"}
         THEN Semi(ts, R(N("BranchStmt", s, <<Id(At(ts, p + 1).s)>>), p + 2)) ELSE Err(ts)
    [] s = "{" -> Semi(ts, PBlock(ts, p))
    [] s = "if" -> PIf(ts, p)
    [] s = "for" -> PFor(ts, p)
    [] s = "switch" -> PSwitch(ts, p)
    [] s = "select" ->
         IF At(ts, p + 1).s # "{" THEN Err(ts)
         ELSE LET cl == PCommClauses(ts, p + 2, <<>>) IN
              IF At(ts, cl.p).s = "}" THEN Semi(ts, R(N("SelectStmt", "", <<N("BlockStmt", "", cl.l)>>), cl.p + 1)) ELSE Err(ts)
    [] s \in {"var", "const", "type"} -> LET d == PGenDecl(ts, p) IN R(N("DeclStmt", "", <<d.t>>), d.p)
    [] s = ";" -> Err(ts)          \* empty statements are not generated
    [] OTHER ->
         LET st == PSimple(ts, p, Cx(s \in IdentNames \cup {"map"}, FALSE, FALSE, TRUE, 0), "label") IN
         IF st.t.k = "LabeledStmt" THEN st ELSE Semi(ts, st)

\* ---- files (parser.go parseFile / parseDecl / parseFuncDeclOrCall / parseOverloadDecl / parseGlobalStmts)
RECURSIVE PDecls(_, _, _), POverFuncs(_, _, _)
\* `= ( f ; (T).m ; func(..) {..} )`; p behind "("
POverFuncs(ts, p, acc) ==
  LET s == At(ts, p).s
      it == IF s \in IdentNames THEN R(Id(s), p + 1)
            ELSE IF s = "func" THEN PFuncLit(ts, p)
            ELSE IF s = "(" THEN PPrimary(ts, p, Cx(FALSE, FALSE, FALSE, FALSE, 0))
            ELSE R(Nil, p)
  IN IF it.t.k = "Nil" THEN [l |-> acc, p |-> p]
     ELSE POverFuncs(ts, IF At(ts, it.p).s = ";" THEN it.p + 1 ELSE it.p, Append(acc, it.t))
POverload(ts, p, recv, name) ==          \* p at "="
  IF At(ts, p).s # "=" \/ At(ts, p + 1).s # "(" THEN Err(ts)
  ELSE LET fs == POverFuncs(ts, p + 2, <<>>) IN
       IF At(ts, fs.p).s = ")" THEN Semi(ts, R(N("OverloadFuncDecl", "", <<recv, name>> \o fs.l), fs.p + 1)) ELSE Err(ts)
PFuncDecl(ts, p) ==                      \* p at "func"
  IF At(ts, p + 1).s = "(" THEN
    LET rc == PParams(ts, p + 1) IN
    IF At(ts, rc.p).s = "." /\ At(ts, rc.p + 1).s \in IdentNames THEN POverload(ts, rc.p + 2, rc.t, Id(At(ts, rc.p + 1).s))
    ELSE IF At(ts, rc.p).s \in IdentNames /\ At(ts, rc.p + 1).s = "(" THEN
      LET sg == PSignature(ts, rc.p + 1)
          b == IF At(ts, sg.p).s = "{" THEN PBlock(ts, sg.p) ELSE R(Nil, sg.p)
      IN Semi(ts, R(N("FuncDecl", "", <<rc.t, Id(At(ts, rc.p).s), N("FuncType", "decl", <<Nil, sg.ps, sg.rs>>), b.t>>), b.p))
    ELSE Err(ts)                         \* `func (..) {..}()` called in place: not modelled
  ELSE IF At(ts, p + 1).s \in IdentNames THEN
    LET name == Id(At(ts, p + 1).s) IN
    IF At(ts, p + 2).s = "=" THEN POverload(ts, p + 2, Nil, name)
    ELSE LET sg == PSignature(ts, p + 2)
             b == IF At(ts, sg.p).s = "{" THEN PBlock(ts, sg.p) ELSE R(Nil, sg.p)
         IN Semi(ts, R(N("FuncDecl", "", <<Nil, name, N("FuncType", "decl", <<Nil, sg.ps, sg.rs>>), b.t>>), b.p))
  ELSE Err(ts)
\* declarations up to the end of the text; anything else starts the statements of the implicit main function
PDecls(ts, p, acc) ==
  LET s == At(ts, p).s IN
  IF s = "<EOF>" THEN [l |-> acc, p |-> p]
  ELSE IF s \in {"var", "const", "type", "import"} THEN
    LET d == PGenDecl(ts, p) IN IF d.t.k = "BadExpr" THEN [l |-> Append(acc, Bad), p |-> Len(ts) + 2] ELSE PDecls(ts, d.p, Append(acc, d.t))
  ELSE IF s = "func" THEN
    LET d == PFuncDecl(ts, p) IN IF d.t.k = "BadExpr" THEN [l |-> Append(acc, Bad), p |-> Len(ts) + 2] ELSE PDecls(ts, d.p, Append(acc, d.t))
  ELSE LET b == PStmtList(ts, p, <<>>) IN
       [l |-> Append(acc, N("FuncDecl", "shadow", <<Nil, Nil, Nil, N("BlockStmt", "bare", b.l)>>)), p |-> b.p]
PFile(ts) ==
  LET pkg == At(ts, 1).s = "package" /\ At(ts, 2).s \in IdentNames
      st == IF pkg THEN Semi(ts, R(Id(At(ts, 2).s), 3)) ELSE R(Nil, 1)
      ds == PDecls(ts, st.p, <<>>)
  IN R(N("File", IF pkg THEN "" ELSE "nopkg", <<st.t>> \o ds.l), ds.p)

\* Entry points.  "expr": parser.ParseExpr = parseRHS.  "stmt": one statement, parseStmt(allowCmd = true)
\* (allowCmd survives only if the statement starts with an identifier or `map`).
ParseTop(ts, ctx) ==
  LET r == IF ctx = "expr" THEN PExpr(ts, 1, Cx(FALSE, FALSE, FALSE, FALSE, 0))
           ELSE IF ctx = "file" THEN PFile(ts) ELSE PStmt(ts, 1)
  IN IF r.p = Len(ts) + 1 THEN r.t ELSE Bad

-----------------------------------------------------------------------------
(* UNIVERSE.  Trees are built from the constructors of a focus (FC below)    *)
(* by size: E_n = trees with n expression nodes (identifier-only children    *)
(* such as Sel, lambda parameters, loop variables do not count).  L1..L7 are *)
(* constant definitions, so TLC computes each once.                          *)
TId == Id("T")
AtomOf(c) == CASE c = "a" -> Id("a") [] c = "b" -> Id("b") [] c = "f" -> Id("f")
               [] c = "1" -> Lit("1") [] c = "s" -> Lit("\"s\"") [] c = "1.5" -> Lit("1.5") [] c = "raw" -> Lit("`x`")
               [] c = "cs" -> Lit("c\"s\"") [] c = "pys" -> Lit("py\"s\"") [] c = "2i" -> Lit("2i") [] c = "3r" -> Lit("3r") [] c = "chr" -> Lit("'c'")
               [] c = "unit" -> N("NumberUnitLit", "3ms", <<>>)
               [] c = "env" -> N("EnvExpr", "", <<Id("x")>>) [] c = "envb" -> N("EnvExpr", "{", <<Id("x")>>)
               [] c = "dom" -> N("DomainTextLit", "`x`", <<Id("json")>>)
               [] c = "sl0" -> N("SliceLit", "", <<>>) [] c = "cl0" -> N("CompositeLit", "", <<TId>>)
               [] c = "ml0" -> N("CompositeLit", "", <<Nil>>)
Atoms == {"a", "b", "f", "1", "s", "1.5", "raw", "cs", "pys", "2i", "3r", "chr", "unit", "env", "envb", "dom", "sl0", "cl0", "ml0"}
BinCtor == [ c \in {"b||", "b&&", "b==", "b!=", "b<", "b<=", "b>", "b>=", "b->", "b<>", "b+", "b-", "b|", "b^",
                    "b*", "b/", "b%", "b<<", "b>>", "b&", "b&^"} |->
             CASE c = "b||" -> "||" [] c = "b&&" -> "&&" [] c = "b==" -> "==" [] c = "b!=" -> "!=" [] c = "b<" -> "<"
               [] c = "b<=" -> "<=" [] c = "b>" -> ">" [] c = "b>=" -> ">=" [] c = "b->" -> "->" [] c = "b<>" -> "<>"
               [] c = "b+" -> "+" [] c = "b-" -> "-" [] c = "b|" -> "|" [] c = "b^" -> "^" [] c = "b*" -> "*"
               [] c = "b/" -> "/" [] c = "b%" -> "%" [] c = "b<<" -> "<<" [] c = "b>>" -> ">>" [] c = "b&" -> "&"
               [] c = "b&^" -> "&^" ]
UnCtor == [ c \in {"u+", "u-", "u!", "u^", "u&", "u<-"} |->
            CASE c = "u+" -> "+" [] c = "u-" -> "-" [] c = "u!" -> "!" [] c = "u^" -> "^" [] c = "u&" -> "&" [] c = "u<-" -> "<-" ]
For1(x, cond) == N("ForPhrase", "", <<Nil, Id("x"), x, Nil, cond>>)
Ar1 == DOMAIN UnCtor \cup {"star", "ew!", "ew?", "sel", "call0", "paren", "lam0", "lam1", "lamL", "lamP", "cmp[", "cmp{",
                           "tas", "tasT", "sl1", "cl1", "slAll", "slLo", "slHi"}
Ar2 == DOMAIN BinCtor \cup {"idx", "sl1idx", "call1", "call1e", "ewd?", "ewd!", "slLH", "kvT", "kvU", "sl2", "sl2e", "cl2", "lamR",
                            "cmpIf", "cmpX", "cmpKV", "rng2", "rngLo"}
Ar3 == {"call2", "sl3", "slLH3", "rng3", "mat", "kv2"}
CmdCtors == {"cmd1", "cmd2", "cmd1e"}       \* callee E followed by 1 / 2 arguments; only at statement level
Mk(c, k) ==
  CASE c \in DOMAIN UnCtor -> N("UnaryExpr", UnCtor[c], k)
    [] c \in DOMAIN BinCtor -> N("BinaryExpr", BinCtor[c], k)
    [] c = "star"  -> N("StarExpr", "", k)
    [] c = "paren" -> N("ParenExpr", "", k)
    [] c = "ew!"   -> N("ErrWrapExpr", "!", k)
    [] c = "ew?"   -> N("ErrWrapExpr", "?", k)
    [] c = "ewd?"  -> N("ErrWrapExpr", "?", k)
    [] c = "ewd!"  -> N("ErrWrapExpr", "!", k)
    [] c = "sel"   -> N("SelectorExpr", "", <<k[1], Id("x")>>)
    [] c = "call0" -> N("CallExpr", "", k)
    [] c = "call1" -> N("CallExpr", "", k)
    [] c = "call2" -> N("CallExpr", "", k)
    [] c = "call1e" -> N("CallExpr", "...", k)
    [] c = "cmd1"  -> N("CallExpr", "cmd", k)
    [] c = "cmd2"  -> N("CallExpr", "cmd", k)
    [] c = "cmd1e" -> N("CallExpr", "cmd...", k)
    [] c = "idx"   -> N("IndexExpr", "", k)
    \* index of a one-element slice literal `[a][b]`: its own path in parseArrayTypeOrSliceLit (stateTypeOrSliceOp)
    [] c = "sl1idx" -> N("IndexExpr", "", <<N("SliceLit", "", <<k[1]>>), k[2]>>)
    [] c = "slAll" -> N("SliceExpr", "", <<k[1], Nil, Nil, Nil>>)
    [] c = "slLo"  -> N("SliceExpr", "", <<Id("a"), k[1], Nil, Nil>>)
    [] c = "slHi"  -> N("SliceExpr", "", <<Id("a"), Nil, k[1], Nil>>)
    [] c = "slLH"  -> N("SliceExpr", "", <<Id("a"), k[1], k[2], Nil>>)
    [] c = "sl3"   -> N("SliceExpr", "3", <<k[1], Nil, k[2], k[3]>>)
    [] c = "slLH3" -> N("SliceExpr", "3", <<Id("a"), k[1], k[2], k[3]>>)
    [] c = "tas"   -> N("TypeAssertExpr", "", <<k[1], TId>>)
    [] c = "tasT"  -> N("TypeAssertExpr", "", <<k[1], Nil>>)
    [] c = "lam0"  -> N("LambdaExpr", "", <<Lst(",", <<>>), Lst(",", k)>>)
    [] c = "lam1"  -> N("LambdaExpr", "", <<Lst(",", <<Id("x")>>), Lst(",", k)>>)
    [] c = "lamL"  -> N("LambdaExpr", "l", <<Lst(",", <<Id("x")>>), Lst(",", k)>>)
    [] c = "lamP"  -> N("LambdaExpr", "l", <<Lst(",", <<Id("x"), Id("y")>>), Lst(",", k)>>)
    [] c = "lamR"  -> N("LambdaExpr", "r", <<Lst(",", <<Id("x")>>), Lst(",", k)>>)
    [] c = "sl1"   -> N("SliceLit", "", k)
    [] c = "sl2"   -> N("SliceLit", "", k)
    [] c = "sl2e"  -> N("SliceLit", "", <<k[1], N("ElemEllipsis", "", <<k[2]>>)>>)
    \* a matrix literal is an operand only as a call argument (parser.go checkExpr rejects it elsewhere)
    [] c = "mat"   -> N("CallExpr", "", <<Id("f"), N("MatrixLit", "", <<Lst(",", <<k[1], k[2]>>), Lst(",", <<k[3], Lit("2")>>)>>)>>)
    [] c = "cl1"   -> N("CompositeLit", "", <<TId>> \o k)
    [] c = "cl2"   -> N("CompositeLit", "", <<TId>> \o k)
    [] c = "kvT"   -> N("CompositeLit", "", <<TId, N("KeyValueExpr", "", k)>>)
    [] c = "kvU"   -> N("CompositeLit", "", <<Nil, N("KeyValueExpr", "", k)>>)
    [] c = "kv2"   -> N("CompositeLit", "", <<Nil, N("KeyValueExpr", "", <<k[1], k[2]>>), N("KeyValueExpr", "", <<Lit("2"), k[3]>>)>>)
    [] c = "cmp["  -> N("ComprehensionExpr", "[", <<k[1], For1(Id("b"), Nil)>>)
    [] c = "cmp{"  -> N("ComprehensionExpr", "{", <<k[1], For1(Id("b"), Nil)>>)
    [] c = "cmpX"  -> N("ComprehensionExpr", "[", <<k[1], For1(k[2], Nil)>>)
    [] c = "cmpIf" -> N("ComprehensionExpr", "[", <<k[1], For1(Id("b"), k[2])>>)
    [] c = "cmpKV" -> N("ComprehensionExpr", "{", <<N("KeyValueExpr", "", k), N("ForPhrase", "", <<Id("k"), Id("v"), Id("b"), Nil, Nil>>)>>)
    [] c = "rng2"  -> N("ComprehensionExpr", "[", <<Id("x"), For1(N("RangeExpr", "", <<k[1], k[2], Nil>>), Nil)>>)
    [] c = "rngLo" -> N("ComprehensionExpr", "[", <<k[1], For1(N("RangeExpr", "", <<Nil, k[2], Nil>>), Nil)>>)
    [] c = "rng3"  -> N("ComprehensionExpr", "[", <<Id("x"), For1(N("RangeExpr", "", <<k[1], k[2], k[3]>>), Nil)>>)

\* FOCI: construct families (constructor names of Mk / AtomOf) and how their text is parsed
\* ("expr": parser.ParseExpr; "stmt": a statement of a file, where command calls are legal)
FC == [ prec    |-> {"a", "b", "b||", "b&&", "b==", "b->", "b+", "b*", "u-", "u!", "u&", "u<-", "u^", "u+", "star", "ew!", "ew?"},
        binary  |-> {"a", "b||", "b&&", "b==", "b->", "b+", "b*"},        \* nested binary operators of every level pair
        ops     |-> {"a", "b", "star"} \cup DOMAIN BinCtor \cup DOMAIN UnCtor,
        postfix |-> {"a", "1", "b+", "b*", "u-", "star", "ew!", "ew?", "ewd?", "ewd!", "sel", "call0", "call1", "call2", "call1e",
                     "idx", "slAll", "slLo", "slHi", "slLH", "sl3", "slLH3", "tas", "tasT"},
        lambda  |-> {"a", "b+", "u-", "call1", "idx", "lam0", "lam1", "lamL", "lamP", "lamR", "ew?", "sel", "sl2", "kvU", "slLo"},
        lit     |-> {"a", "1", "b+", "u-", "sl2", "sl2e", "mat", "cl1", "cl2", "kvT", "kvU", "kv2", "cmp[", "cmp{", "cmpX", "cmpIf",
                     "cmpKV", "rng2", "rngLo", "rng3", "cl0", "ml0", "ew?", "lam1", "idx", "call1"},
        atoms   |-> {"a", "1", "s", "1.5", "raw", "cs", "pys", "2i", "3r", "chr", "unit", "env", "envb", "dom", "b+", "b*", "u-", "star", "ew!", "sel", "call1", "idx"},
        slidx   |-> {"a", "1", "sl1idx", "b+", "u-", "ew?"},      \* (no "*", "(", "[" may follow `[a][b]`: they would start a type)
        stmt    |-> {"a", "f", "1", "b+", "b<", "u-", "u<-", "star", "ew!", "call1", "idx", "cl1", "cl0", "lam1"},  \* + SCtors
        decl    |-> {"a", "f", "1", "cl0"},                       \* file context: FileTrees below
        cmd     |-> {"f", "a", "1", "s", "b-", "b*", "b&", "u-", "u&", "u<-", "u^", "u+", "u!", "star", "ew!", "sel", "call1", "idx",
                     "sl2", "cl1", "lam1", "lamP", "env", "cmd1", "cmd2", "cmd1e"} ]
FCtx(f) == IF f \in {"cmd", "stmt"} THEN "stmt" ELSE IF f \in {"samples", "decl"} THEN "file" ELSE "expr"
GenFoci == Foci \ {"samples"}
AllFoci       == DOMAIN FC \cup {"samples"}   \* "samples": the fixed all-kinds sample trees (rendered and traversed only)
DevFoci       == AllFoci
SampleFoci    == {"samples"}
QuickSizes    == [binary |-> 5, prec |-> 4, ops |-> 3, postfix |-> 3, lambda |-> 4, lit |-> 3, atoms |-> 3, slidx |-> 4, decl |-> 1, stmt |-> 3, cmd |-> 3]
ThoroughSizes == [binary |-> 7, prec |-> 5, ops |-> 4, postfix |-> 4, lambda |-> 5, lit |-> 4, atoms |-> 3, slidx |-> 5, decl |-> 1, stmt |-> 4, cmd |-> 4]
SmallSizes    == [binary |-> 5, prec |-> 3, ops |-> 3, postfix |-> 3, lambda |-> 3, lit |-> 3, atoms |-> 2, slidx |-> 3, decl |-> 1, stmt |-> 3, cmd |-> 3]

Gen(n, ctors, prev) ==
     (IF n = 1 THEN {AtomOf(c) : c \in ctors \cap Atoms} ELSE {})
  \cup (IF n < 2 THEN {} ELSE UNION {{Mk(c, <<x>>) : x \in prev[n - 1]} : c \in ctors \cap Ar1})
  \cup (IF n < 3 THEN {} ELSE UNION {UNION {{Mk(c, <<x, y>>) : x \in prev[i], y \in prev[n - 1 - i]} : i \in 1..(n - 2)}
                                     : c \in ctors \cap Ar2})
  \cup (IF n < 4 THEN {} ELSE UNION {UNION {{Mk(c, <<x, y, z>>) : x \in prev[ij[1]], y \in prev[ij[2]], z \in prev[n - 1 - ij[1] - ij[2]]}
                                            : ij \in {q \in (1..(n - 3)) \X (1..(n - 3)) : q[1] + q[2] <= n - 2}}
                                     : c \in ctors \cap Ar3})
\* levels per focus; constant definitions, so TLC computes each exactly once
L1 == [f \in GenFoci |-> Gen(1, FC[f], <<>>)]
L2 == [f \in GenFoci |-> IF Sizes[f] >= 2 THEN Gen(2, FC[f], <<L1[f]>>) ELSE {}]
L3 == [f \in GenFoci |-> IF Sizes[f] >= 3 THEN Gen(3, FC[f], <<L1[f], L2[f]>>) ELSE {}]
L4 == [f \in GenFoci |-> IF Sizes[f] >= 4 THEN Gen(4, FC[f], <<L1[f], L2[f], L3[f]>>) ELSE {}]
L5 == [f \in GenFoci |-> IF Sizes[f] >= 5 THEN Gen(5, FC[f], <<L1[f], L2[f], L3[f], L4[f]>>) ELSE {}]
L6 == [f \in GenFoci |-> IF Sizes[f] >= 6 THEN Gen(6, FC[f], <<L1[f], L2[f], L3[f], L4[f], L5[f]>>) ELSE {}]
L7 == [f \in GenFoci |-> IF Sizes[f] >= 7 THEN Gen(7, FC[f], <<L1[f], L2[f], L3[f], L4[f], L5[f], L6[f]>>) ELSE {}]
ES(f) == <<L1[f], L2[f], L3[f], L4[f], L5[f], L6[f], L7[f]>>
UpTo(f) == L1[f] \cup L2[f] \cup L3[f] \cup L4[f] \cup L5[f] \cup L6[f] \cup L7[f]
\* a command callee is an identifier / selector / errwrap expression whose text starts with an identifier
\* (parseStmt keeps allowCmd only for statements starting with IDENT or `map`)
CmdCallee(e) == CmdFun(e) /\ Flat(e)[1].s \in IdentNames
\* command calls `callee arg, arg`: only as the expression of a statement (parser.go parseStmt, allowCmd)
CmdTrees(f) ==
  UNION {UNION { IF c = "cmd2"
                 THEN IF n < 4 THEN {} ELSE
                      UNION {{Mk(c, <<x, y, z>>) : x \in {e \in ES(f)[ij[1]] : CmdCallee(e)}, y \in ES(f)[ij[2]], z \in ES(f)[n - 1 - ij[1] - ij[2]]}
                             : ij \in {q \in (1..(n - 3)) \X (1..(n - 3)) : q[1] + q[2] <= n - 2}}
                 ELSE IF n < 3 THEN {} ELSE
                      UNION {{Mk(c, <<x, y>>) : x \in {e \in ES(f)[i] : CmdCallee(e)}, y \in ES(f)[n - 1 - i]} : i \in 1..(n - 2)}
               : c \in FC[f] \cap CmdCtors} : n \in 1..Sizes[f]}
\* SAMPLES: hand-written trees that together contain every node kind of ast.go / ast_gop.go (statements,
\* declarations, types, class-file variable block, overload declarations, ...).  focus "samples" renders and
\* traverses them (C18: synthesized trees of every kind; C17: spans of statements and declarations).
A == Id("a")
Bb == Id("b")
One == Lit("1")
Blk(ss) == N("BlockStmt", "", ss)
XS(e) == N("ExprStmt", "", <<e>>)
CallF(args) == N("CallExpr", "", <<Id("f")>> \o args)
Fld(names, ty) == N("Field", "", <<Lst(",", names), ty, Nil>>)
Params(fs) == N("FieldList", "(", fs)
FT(ps, rs) == N("FuncType", "", <<Nil, Params(ps), rs>>)
FTd(ps, rs) == N("FuncType", "decl", <<Nil, Params(ps), rs>>)
Asg(tok, l, r) == N("AssignStmt", tok, <<Lst(",1", l), Lst(",", r)>>)
Bin(op, x, y) == N("BinaryExpr", op, <<x, y>>)
FileOf(ds) == N("File", "", <<Id("main")>> \o ds)
\* a script: the statements form the body of the implicit (shadow) main function, parser.go parseGlobalStmts
Script(ss) == N("File", "nopkg", <<Nil, N("FuncDecl", "shadow", <<Nil, Nil, Nil, N("BlockStmt", "bare", ss)>>)>>)
FuncD(name, ps, rs, body) == N("FuncDecl", "", <<Nil, Id(name), FTd(ps, rs), body>>)
SampleExprs == {
  N("FuncLit", "", <<FT(<<Fld(<<A>>, TId)>>, N("FieldList", "", <<Fld(<<>>, TId)>>)), Blk(<<N("ReturnStmt", "", <<A>>)>>)>>),
  N("CompositeLit", "", <<N("ArrayType", "", <<Nil, TId>>), One, Lit("2")>>),
  N("CompositeLit", "", <<N("MapType", "", <<TId, TId>>), N("KeyValueExpr", "", <<A, Bb>>)>>),
  N("CompositeLit", "", <<N("StructType", "", <<N("FieldList", "{", <<Fld(<<A, Bb>>, TId)>>)>>)>>),
  CallF(<<N("ChanType", "chan", <<TId>>), N("ChanType", "<-chan", <<TId>>), N("ChanType", "chan<-", <<TId>>)>>),
  CallF(<<N("InterfaceType", "", <<N("FieldList", "{", <<N("Field", "", <<Lst(",", <<Id("g")>>), FTd(<<>>, Nil), Nil>>)>>)>>)>>),
  N("FuncLit", "", <<FT(<<Fld(<<A>>, N("Ellipsis", "", <<TId>>))>>, Nil), Blk(<<>>)>>),
  N("IndexListExpr", "", <<Id("f"), TId, TId>>),
  N("TypeAssertExpr", "", <<A, N("StarExpr", "", <<TId>>)>>),
  N("SliceExpr", "3", <<A, One, Lit("2"), Lit("3")>>),
  CallF(<<N("MatrixLit", "", <<Lst(",", <<One, N("ElemEllipsis", "", <<A>>)>>), Lst(",", <<Lit("2"), Lit("3")>>)>>)>>),
  N("DomainTextLit", "`> a, b\n x`", <<Id("json"), A, Bb>>),
  N("DomainTextLit", "`x`", <<Id("json")>>),
  N("BasicLit", "\"p${x}q\"", <<Id("x")>>),
  CallF(<<N("LambdaExpr2", "", <<Lst(",", <<Id("x")>>), Blk(<<N("ReturnStmt", "", <<Id("x")>>)>>)>>)>>),
  CallF(<<N("LambdaExpr2", "l", <<Lst(",", <<Id("x"), Id("y")>>), Blk(<<>>)>>)>>),
  N("LambdaExpr", "lr", <<Lst(",", <<Id("x"), Id("y")>>), Lst(",", <<Id("y"), Id("x")>>)>>),
  N("ComprehensionExpr", "{", <<N("KeyValueExpr", "", <<Id("v"), Id("k")>>),
        N("ForPhrase", "", <<Id("k"), Id("v"), A, Nil, Bin(">", Id("k"), One)>>),
        N("ForPhrase", "", <<Nil, Id("x"), N("RangeExpr", "", <<One, Lit("3"), Lit("2")>>), Nil, Nil>>)>>),
  N("ErrWrapExpr", "?", <<CallF(<<N("EnvExpr", "{", <<Id("x")>>), N("NumberUnitLit", "3ms", <<>>)>>), One>>),
  N("ParenExpr", "", <<N("UnaryExpr", "-", <<N("StarExpr", "", <<N("SelectorExpr", "", <<A, Id("x")>>)>>)>>)>>),
  N("CallExpr", "...", <<N("IndexExpr", "", <<Id("f"), One>>), A, Bb>>) }
SampleStmts == {
  Script(<<XS(N("CallExpr", "cmd", <<Id("f"), A, Bin("+", Bb, One)>>)), XS(N("CallExpr", "cmd...", <<N("SelectorExpr", "", <<A, Id("f")>>), Bb>>))>>),
  Script(<<Asg(":=", <<A, Bb>>, <<One, Lit("2")>>), Asg("+=", <<A>>, <<One>>), N("IncDecStmt", "++", <<A>>), N("IncDecStmt", "--", <<Bb>>),
           N("SendStmt", "", <<Id("c"), One>>), N("SendStmt", "", <<Id("c"), One, Lit("2")>>), N("SendStmt", "...", <<Id("c"), A>>),
           N("GoStmt", "", <<CallF(<<>>)>>), N("DeferStmt", "", <<CallF(<<A>>)>>)>>),
  Script(<<N("IfStmt", "", <<Asg(":=", <<A>>, <<One>>), Bin(">", A, One), Blk(<<XS(CallF(<<>>))>>),
                             N("IfStmt", "", <<Nil, Bb, Blk(<<>>), Blk(<<N("IncDecStmt", "++", <<A>>)>>)>>)>>)>>),
  Script(<<N("LabeledStmt", "", <<Id("L"), N("ForStmt", "", <<Asg(":=", <<A>>, <<One>>), Bin("<", A, Lit("3")), N("IncDecStmt", "++", <<A>>),
                  Blk(<<N("BranchStmt", "break", <<Id("L")>>), N("BranchStmt", "continue", <<>>), N("BranchStmt", "goto", <<Id("L")>>)>>)>>)>>),
           N("ForStmt", "", <<Nil, Bb, Nil, Blk(<<>>)>>), N("ForStmt", "", <<Nil, Nil, Nil, Blk(<<N("BranchStmt", "break", <<>>)>>)>>)>>),
  Script(<<N("RangeStmt", ":=", <<Id("k"), Id("v"), A, Blk(<<>>)>>), N("RangeStmt", "=", <<Id("k"), Nil, A, Blk(<<>>)>>),
           N("RangeStmt", "", <<Nil, Nil, A, Blk(<<>>)>>),
           N("RangeStmt", ":=", <<Id("x"), Nil, N("RangeExpr", "", <<Nil, Lit("3"), Nil>>), Blk(<<>>)>>),
           N("ForPhraseStmt", "", <<N("ForPhrase", "", <<Id("k"), Id("v"), A, Nil, Bin(">", Id("v"), One)>>), Blk(<<XS(CallF(<<Id("k")>>))>>)>>),
           N("ForPhraseStmt", "", <<N("ForPhrase", "", <<Nil, Id("x"), N("RangeExpr", "", <<One, Lit("3"), Nil>>), Nil, Nil>>), Blk(<<>>)>>)>>),
  Script(<<N("SwitchStmt", "", <<Asg(":=", <<A>>, <<One>>), A, Blk(<<
              N("CaseClause", "case", <<Lst(",", <<One, Lit("2")>>), Lst(";", <<XS(CallF(<<>>)), N("BranchStmt", "fallthrough", <<>>)>>)>>),
              N("CaseClause", "default", <<Lst(",", <<>>), Lst(";", <<>>)>>)>>)>>),
           N("SwitchStmt", "", <<Nil, Nil, Blk(<<N("CaseClause", "case", <<Lst(",", <<Bb>>), Lst(";", <<>>)>>)>>)>>),
           N("TypeSwitchStmt", "", <<Nil, Asg(":=", <<Id("v")>>, <<N("TypeAssertExpr", "", <<A, Nil>>)>>),
               Blk(<<N("CaseClause", "case", <<Lst(",", <<TId>>), Lst(";", <<XS(CallF(<<Id("v")>>))>>)>>)>>)>>),
           N("TypeSwitchStmt", "", <<Asg(":=", <<Bb>>, <<One>>), XS(N("TypeAssertExpr", "", <<A, Nil>>)), Blk(<<>>)>>)>>),
  Script(<<N("SelectStmt", "", <<Blk(<<
              N("CommClause", "case", <<N("SendStmt", "", <<Id("c"), One>>), Lst(";", <<XS(CallF(<<>>))>>)>>),
              N("CommClause", "case", <<Asg(":=", <<Id("v")>>, <<N("UnaryExpr", "<-", <<Id("c")>>)>>), Lst(";", <<>>)>>),
              N("CommClause", "default", <<Nil, Lst(";", <<>>)>>)>>)>>),
           Blk(<<N("DeclStmt", "", <<N("GenDecl", "var", <<N("ValueSpec", "", <<Lst(",", <<Id("x")>>), TId, Nil, Lst(",", <<>>)>>)>>)>>),
                 N("DeclStmt", "", <<N("GenDecl", "const", <<N("ValueSpec", "", <<Lst(",", <<Id("y")>>), Nil, Nil, Lst(",", <<One>>)>>)>>)>>),
                 N("DeclStmt", "", <<N("GenDecl", "type", <<N("TypeSpec", "", <<Id("L"), Nil, N("ArrayType", "", <<Nil, TId>>)>>)>>)>>)>>),
           N("ReturnStmt", "", <<>>)>>) }
SampleDecls == {
  FileOf(<<N("GenDecl", "import", <<N("ImportSpec", "", <<Nil, Lit("\"p\"")>>)>>),
           N("GenDecl", "import(", <<N("ImportSpec", "", <<Id("x"), Lit("\"p\"")>>), N("ImportSpec", "", <<Nil, Lit("\"s\"")>>)>>),
           N("GenDecl", "const", <<N("ValueSpec", "", <<Lst(",", <<A>>), Nil, Nil, Lst(",", <<One>>)>>)>>),
           N("GenDecl", "var(", <<N("ValueSpec", "", <<Lst(",", <<Bb>>), TId, Nil, Lst(",", <<Lit("2")>>)>>),
                                  N("ValueSpec", "", <<Lst(",", <<Id("c"), Id("d")>>), Nil, Nil, Lst(",", <<One, Lit("2")>>)>>)>>),
           N("GenDecl", "type", <<N("TypeSpec", "", <<TId, Nil, N("StructType", "", <<N("FieldList", "{",
                  <<Fld(<<A>>, TId), N("Field", "", <<Lst(",", <<Bb, Id("c")>>), TId, Lit("\"s\"")>>), Fld(<<>>, N("StarExpr", "", <<TId>>))>>)>>)>>)>>),
           N("GenDecl", "type(", <<N("TypeSpec", "=", <<Id("L"), Nil, N("ArrayType", "", <<Nil, TId>>)>>),
                                   N("TypeSpec", "", <<Id("g"), Nil, N("MapType", "", <<TId, TId>>)>>)>>)>>),
  \* type parameters exist only in trees converted from Go files (ast/fromgo); the XGo parser has no syntax for them
  FileOf(<<N("GenDecl", "type", <<N("TypeSpec", "", <<Id("g"), N("FieldList", "[", <<Fld(<<Id("k")>>, TId)>>), N("MapType", "", <<Id("k"), TId>>)>>)>>),
           N("FuncDecl", "", <<Nil, Id("f"), N("FuncType", "decl", <<N("FieldList", "[", <<Fld(<<Id("k")>>, TId)>>), Params(<<Fld(<<A>>, Id("k"))>>), Nil>>), Blk(<<>>)>>)>>),
  FileOf(<<N("FuncDecl", "", <<Params(<<Fld(<<Id("x")>>, N("StarExpr", "", <<TId>>))>>), Id("f"),
                               FTd(<<Fld(<<A, Bb>>, TId), Fld(<<Id("c")>>, N("Ellipsis", "", <<TId>>))>>, Params(<<Fld(<<>>, TId), Fld(<<>>, TId)>>)),
                               Blk(<<N("ReturnStmt", "", <<A, Bb>>)>>)>>),
           FuncD("g", <<>>, N("FieldList", "", <<Fld(<<>>, TId)>>), Blk(<<N("ReturnStmt", "", <<One>>)>>)),
           FuncD("main", <<>>, Nil, Blk(<<>>))>>),
  FileOf(<<N("OverloadFuncDecl", "", <<Nil, Id("g"), Id("f"), N("ParenExpr", "", <<TId>>),
                 N("FuncLit", "", <<FT(<<Fld(<<A>>, TId)>>, Nil), Blk(<<>>)>>)>>),
           N("OverloadFuncDecl", "", <<Params(<<Fld(<<>>, TId)>>), Id("g"), Id("f"), Id("a")>>)>>),
  N("File", "class", <<Nil, N("GenDecl", "var(;", <<N("ValueSpec", "", <<Lst(",", <<A>>), TId, Lit("\"s\""), Lst(",", <<>>)>>),
                                                     N("ValueSpec", "", <<Lst(",", <<>>), N("StarExpr", "", <<TId>>), Lit("\"p\""), Lst(",", <<>>)>>),
                                                     N("ValueSpec", "", <<Lst(",", <<Bb, Id("c")>>), TId, Nil, Lst(",", <<>>)>>)>>),
                             FuncD("f", <<>>, Nil, Blk(<<XS(N("CallExpr", "cmd", <<Id("g"), A>>))>>))>>) }
Samples == SampleExprs \cup SampleStmts \cup SampleDecls
\* STATEMENTS (focus "stmt"): statement constructors over the expressions of the focus; size = 1 + expression nodes
EBlk == N("BlockStmt", "", <<>>)
SXS(e) == N("ExprStmt", "", <<e>>)
SAsg(tok, l, r) == N("AssignStmt", tok, <<Lst(",1", l), Lst(",", r)>>)
SIn(x, cond) == N("ForPhraseStmt", "", <<N("ForPhrase", "stmt", <<Nil, Id("x"), x, Nil, cond>>), EBlk>>)
SAr1 == {"s:tsw", "s:tsw0", "s:var", "s:varT", "s:const", "s:vargrp", "s:selrecv", "s:x", "s:def", "s:inc", "s:ret1", "s:go", "s:if", "s:for", "s:rng", "s:rng0", "s:in", "s:blk", "s:lbl", "s:ifelse"}
SAr2 == {"s:selsend", "s:var2", "s:tswinit", "s:asg", "s:add", "s:asg2", "s:send", "s:ret2", "s:ifinit", "s:inif", "s:sw", "s:for3", "s:nest", "s:blk2"}
SMk0(c, k) ==
  CASE c = "s:x"    -> SXS(k[1])
    [] c = "s:tsw"  -> N("TypeSwitchStmt", "", <<Nil, SAsg(":=", <<Id("v")>>, <<N("TypeAssertExpr", "", <<k[1], Nil>>)>>),
                         N("BlockStmt", "", <<N("CaseClause", "case", <<Lst(",:", <<TId, N("StarExpr", "", <<TId>>)>>), Lst(";", <<SXS(N("CallExpr", "", <<Id("f"), Id("v")>>))>>)>>),
                                               N("CaseClause", "default", <<Lst(",", <<>>), Lst(";", <<>>)>>)>>)>>)
    [] c = "s:tsw0" -> N("TypeSwitchStmt", "", <<Nil, SXS(N("TypeAssertExpr", "", <<k[1], Nil>>)),
                         N("BlockStmt", "", <<N("CaseClause", "case", <<Lst(",:", <<N("ArrayType", "", <<Nil, TId>>)>>), Lst(";", <<>>)>>)>>)>>)
    [] c = "s:tswinit" -> N("TypeSwitchStmt", "", <<SAsg(":=", <<Id("a")>>, <<k[1]>>), SXS(N("TypeAssertExpr", "", <<k[2], Nil>>)), N("BlockStmt", "", <<>>)>>)
    [] c = "s:var"  -> N("DeclStmt", "", <<N("GenDecl", "var", <<N("ValueSpec", "", <<Lst(",", <<Id("a")>>), Nil, Nil, Lst(",", k)>>)>>)>>)
    [] c = "s:varT" -> N("DeclStmt", "", <<N("GenDecl", "var", <<N("ValueSpec", "", <<Lst(",", <<Id("a")>>), N("MapType", "", <<TId, N("StarExpr", "", <<TId>>)>>), Nil, Lst(",", k)>>)>>)>>)
    [] c = "s:var2" -> N("DeclStmt", "", <<N("GenDecl", "var", <<N("ValueSpec", "", <<Lst(",", <<Id("a"), Id("b")>>), Nil, Nil, Lst(",", k)>>)>>)>>)
    [] c = "s:const" -> N("DeclStmt", "", <<N("GenDecl", "const", <<N("ValueSpec", "", <<Lst(",", <<Id("c")>>), TId, Nil, Lst(",", k)>>)>>)>>)
    [] c = "s:vargrp" -> N("DeclStmt", "", <<N("GenDecl", "var(", <<N("ValueSpec", "", <<Lst(",", <<Id("a")>>), Nil, Nil, Lst(",", k)>>),
                                                                     N("ValueSpec", "", <<Lst(",", <<Id("b"), Id("c")>>), N("ArrayType", "", <<Nil, TId>>), Nil, Lst(",", <<>>)>>)>>)>>)
    [] c = "s:selrecv" -> N("SelectStmt", "", <<N("BlockStmt", "", <<
                             N("CommClause", "case", <<SAsg(":=", <<Id("v")>>, <<N("UnaryExpr", "<-", k)>>), Lst(";", <<SXS(N("CallExpr", "", <<Id("f"), Id("v")>>))>>)>>),
                             N("CommClause", "case", <<SXS(N("UnaryExpr", "<-", <<Id("c")>>)), Lst(";", <<>>)>>),
                             N("CommClause", "default", <<Nil, Lst(";", <<>>)>>)>>)>>)
    [] c = "s:selsend" -> N("SelectStmt", "", <<N("BlockStmt", "", <<N("CommClause", "case", <<N("SendStmt", "", k), Lst(";", <<N("BranchStmt", "break", <<>>)>>)>>)>>)>>)
    [] c = "s:def"  -> SAsg(":=", <<Id("a")>>, k)
    [] c = "s:inc"  -> N("IncDecStmt", "++", k)
    [] c = "s:ret1" -> N("ReturnStmt", "", k)
    [] c = "s:go"   -> N("GoStmt", "", <<N("CallExpr", "", <<Id("f"), k[1]>>)>>)
    [] c = "s:if"   -> N("IfStmt", "", <<Nil, k[1], EBlk, Nil>>)
    [] c = "s:ifelse" -> N("IfStmt", "", <<Nil, k[1], EBlk, N("IfStmt", "", <<Nil, Id("b"), EBlk, N("BlockStmt", "", <<N("BranchStmt", "break", <<>>)>>)>>)>>)
    [] c = "s:for"  -> N("ForStmt", "", <<Nil, k[1], Nil, EBlk>>)
    [] c = "s:rng"  -> N("RangeStmt", ":=", <<Id("k"), Id("v"), k[1], EBlk>>)
    [] c = "s:rng0" -> N("RangeStmt", "", <<Nil, Nil, k[1], EBlk>>)
    [] c = "s:in"   -> SIn(k[1], Nil)
    [] c = "s:blk"  -> N("BlockStmt", "", <<SXS(N("CallExpr", "", <<Id("f"), k[1]>>))>>)
    [] c = "s:lbl"  -> N("LabeledStmt", "", <<Id("L"), N("ForStmt", "", <<Nil, k[1], Nil, N("BlockStmt", "", <<N("BranchStmt", "continue", <<Id("L")>>)>>)>>)>>)
    [] c = "s:asg"  -> SAsg("=", <<k[1]>>, <<k[2]>>)
    [] c = "s:add"  -> SAsg("+=", <<k[1]>>, <<k[2]>>)
    [] c = "s:asg2" -> SAsg("=", <<Id("a"), k[1]>>, <<k[2], Lit("1")>>)
    [] c = "s:send" -> N("SendStmt", "", k)
    [] c = "s:ret2" -> N("ReturnStmt", "", k)
    [] c = "s:ifinit" -> N("IfStmt", "", <<SAsg(":=", <<Id("a")>>, <<k[1]>>), k[2], EBlk, Nil>>)
    [] c = "s:inif" -> SIn(k[1], k[2])
    [] c = "s:sw"   -> N("SwitchStmt", "", <<Nil, k[1], N("BlockStmt", "", <<N("CaseClause", "case", <<Lst(",:", <<Lit("1"), k[2]>>), Lst(";", <<N("BranchStmt", "fallthrough", <<>>)>>)>>),
                                                                               N("CaseClause", "default", <<Lst(",", <<>>), Lst(";", <<>>)>>)>>)>>)
    [] c = "s:for3" -> N("ForStmt", "", <<SAsg(":=", <<Id("a")>>, <<k[1]>>), k[2], N("IncDecStmt", "++", <<Id("a")>>), EBlk>>)
    [] c = "s:nest" -> N("IfStmt", "", <<Nil, k[1], N("BlockStmt", "", <<N("ForStmt", "", <<Nil, k[2], Nil, EBlk>>), N("ReturnStmt", "", <<>>)>>), Nil>>)
    [] c = "s:blk2" -> N("BlockStmt", "", <<SXS(N("CallExpr", "", <<Id("f"), k[1]>>)), N("DeferStmt", "", <<N("CallExpr", "", <<Id("f"), k[2]>>)>>)>>)
\* a declaration statement goes inside a block (at the top level of a script `var x = 1` is a package-level declaration)
InBlock(st) == IF st.k = "DeclStmt" THEN N("BlockStmt", "", <<st>>) ELSE st
SMk(c, k) == InBlock(SMk0(c, k))
RECURSIVE StmtOK(_)
\* well-formed for the statement model: expression statements are no bare lambdas / literals, and no composite literal
\* stands exposed in the simple statement of a control clause (it cannot be parenthesised as a whole)
StmtOK(t) == /\ (t.k = "ExprStmt" => t.c[1].k \notin {"LambdaExpr", "CompositeLit", "SliceLit"})
             \* no lambda as condition, tag, range operand, assignment target or operand of ++ / <- (meaningless, and
             \* printer.controlClause strips a ParenExpr around it)
             /\ \A i \in 1..Len(t.c) : ((t.k \in StmtKinds \/ t.k = "List") /\ (SlotLvl(t, i) = 1 \/ ControlSlot(t, i)))
                                          => t.c[i].k # "LambdaExpr"
             /\ \A i \in 1..Len(t.c) : (ControlSlot(t, i) /\ t.c[i].k \in {"AssignStmt", "ExprStmt", "IncDecStmt", "SendStmt"})
                                          => ~ExposedCL(Par(t.c[i]))
             \* the communication of `case v := <-c!:` cannot be parenthesised as a whole: no errwrap at its right edge
             /\ (t.k = "CommClause" /\ Has(t, 1)) =>
                   LET st == t.c[1]
                       e == IF st.k = "AssignStmt" THEN Last(st.c[2].c) ELSE Last(st.c)
                   IN ~ColonHazard(Par(e))
             /\ \A i \in 1..Len(t.c) : StmtOK(t.c[i])
StmtTrees(f) ==
  UNION { UNION {{SMk(c, <<x>>) : x \in ES(f)[n - 1]} : c \in SAr1}
          \cup (IF n < 3 THEN {} ELSE UNION {UNION {{SMk(c, <<x, y>>) : x \in ES(f)[i], y \in ES(f)[n - 1 - i]} : i \in 1..(n - 2)} : c \in SAr2})
        : n \in 2..Sizes[f] }
\* declaration statements without expressions
StmtFixed == { N("DeclStmt", "", <<N("GenDecl", "type", <<N("TypeSpec", "", <<Id("L"), Nil, N("ArrayType", "", <<Nil, TId>>)>>)>>)>>),
               N("DeclStmt", "", <<N("GenDecl", "type(", <<N("TypeSpec", "=", <<Id("L"), Nil, TId>>),
                                                           N("TypeSpec", "", <<Id("g"), Nil, N("MapType", "", <<TId, N("StarExpr", "", <<TId>>)>>)>>)>>)>>),
               N("DeclStmt", "", <<N("GenDecl", "var", <<N("ValueSpec", "", <<Lst(",", <<Id("a"), Id("b")>>), TId, Nil, Lst(",", <<>>)>>)>>)>>),
               N("DeclStmt", "", <<N("GenDecl", "const(", <<N("ValueSpec", "", <<Lst(",", <<Id("a")>>), Nil, Nil, Lst(",", <<Lit("1")>>)>>),
                                                            N("ValueSpec", "", <<Lst(",", <<Id("b")>>), TId, Nil, Lst(",", <<Lit("2")>>)>>)>>)>>) }
\* FILES (focus "decl", file context): function declarations with every signature form around each small statement,
\* with and without package clause / imports / preceding declarations / trailing script statements, overloads
FP(fs) == N("FieldList", "(", fs)
StarT == N("StarExpr", "", <<TId>>)
DSigs == { [recv |-> Nil, ps |-> FP(<<>>), rs |-> Nil],
           [recv |-> Nil, ps |-> FP(<<Fld1(<<Id("a")>>, TId)>>), rs |-> N("FieldList", "", <<Fld1(<<>>, TId)>>)],
           [recv |-> Nil, ps |-> FP(<<Fld1(<<Id("a"), Id("b")>>, TId), Fld1(<<Id("c")>>, N("Ellipsis", "", <<TId>>))>>),
                          rs |-> FP(<<Fld1(<<>>, TId), Fld1(<<>>, StarT)>>)],
           [recv |-> Nil, ps |-> FP(<<Fld1(<<>>, TId), Fld1(<<>>, N("ArrayType", "", <<Nil, TId>>))>>), rs |-> Nil],
           [recv |-> FP(<<Fld1(<<Id("x")>>, StarT)>>), ps |-> FP(<<Fld1(<<Id("a")>>, N("MapType", "", <<TId, TId>>))>>),
                          rs |-> FP(<<Fld1(<<Id("e")>>, TId)>>)],
           [recv |-> FP(<<Fld1(<<>>, TId)>>), ps |-> FP(<<>>), rs |-> Nil] }
FD(sg, body) == N("FuncDecl", "", <<sg.recv, Id("f"), N("FuncType", "decl", <<Nil, sg.ps, sg.rs>>), body>>)
Sig0 == CHOOSE sg \in DSigs : sg.recv = Nil /\ sg.ps.c = <<>>
DeclStmts(f) == {st \in UNION {{SMk(c, <<x>>) : x \in L1[f]} : c \in SAr1} : StmtOK(st)}
ImportD == N("GenDecl", "import", <<N("ImportSpec", "", <<Nil, Lit("\"p\"")>>)>>)
VarD == N("GenDecl", "var", <<N("ValueSpec", "", <<Lst(",", <<Id("a")>>), TId, Nil, Lst(",", <<Lit("1")>>)>>)>>)
ShadowOf(ss) == N("FuncDecl", "shadow", <<Nil, Nil, Nil, N("BlockStmt", "bare", ss)>>)
FixedFiles == {
  N("File", "", <<Id("main"), ImportD,
                  N("GenDecl", "import(", <<N("ImportSpec", "", <<Id("x"), Lit("\"p\"")>>), N("ImportSpec", "", <<Id("_"), Lit("\"s\"")>>)>>),
                  N("GenDecl", "type", <<N("TypeSpec", "", <<Id("L"), Nil, N("ArrayType", "", <<Nil, TId>>)>>)>>),
                  FD(Sig0, Nil)>>),
  N("File", "nopkg", <<Nil, N("OverloadFuncDecl", "", <<Nil, Id("g"), Id("f"), N("SelectorExpr", "", <<StarT, Id("f")>>),
                                   N("FuncLit", "", <<N("FuncType", "", <<Nil, FP(<<Fld1(<<Id("a")>>, TId)>>), Nil>>), N("BlockStmt", "", <<>>)>>)>>),
                       N("OverloadFuncDecl", "", <<FP(<<Fld1(<<>>, TId)>>), Id("g"), Id("f"), Id("a")>>)>>),
  N("File", "nopkg", <<Nil, N("GenDecl", "const(", <<N("ValueSpec", "", <<Lst(",", <<Id("a")>>), Nil, Nil, Lst(",", <<Lit("1")>>)>>),
                                                      N("ValueSpec", "", <<Lst(",", <<Id("b")>>), TId, Nil, Lst(",", <<Lit("2")>>)>>)>>),
                       ShadowOf(<<SXS(N("CallExpr", "cmd", <<Id("f"), Id("a"), Lit("1")>>)), N("ReturnStmt", "", <<>>)>>)>>) }
FileTrees(f) ==
       {N("File", "nopkg", <<Nil, FD(sg, N("BlockStmt", "", <<st>>))>>) : sg \in DSigs, st \in DeclStmts(f)}
  \cup {N("File", "", <<Id("main"), ImportD, VarD, FD(Sig0, N("BlockStmt", "", <<st, N("ReturnStmt", "", <<>>)>>))>>) : st \in DeclStmts(f)}
  \cup {N("File", "nopkg", <<Nil, FD(Sig0, N("BlockStmt", "", <<>>)), ShadowOf(<<st>>)>>) : st \in DeclStmts(f)}
  \cup FixedFiles
Universe(f) == IF f = "samples" THEN Samples
               ELSE IF f = "decl" THEN FileTrees(f)
               ELSE IF f = "stmt" THEN {t \in StmtTrees(f) : StmtOK(t)} \cup {InBlock(d) : d \in StmtFixed}
               ELSE IF FCtx(f) = "expr" THEN UpTo(f)
               ELSE {N("ExprStmt", "", <<e>>) : e \in {x \in UpTo(f) : x.k \notin {"LambdaExpr", "CompositeLit", "SliceLit"}} \cup CmdTrees(f)}

-----------------------------------------------------------------------------
(* STATE MACHINE: pick a tree, print it with minimal parentheses, parse the  *)
(* tokens back.  One CASE record per tree.  All heavy evaluation happens in  *)
(* the actions (TLC caches LET values there, not in invariants); the         *)
(* invariants only compare the recorded results.                             *)
VARIABLES foc,     \* the focus the tree comes from (decides the parse context)
          tree,    \* the abstract tree (paren-free except for the samples)
          pr,      \* printing: [pt = Par(tree), toks = canonical tokens, render, spans, walk]
          ps,      \* parsing: [canon, tight, wide, bare] parse results
          pc
vars == <<foc, tree, pr, ps, pc>>
Ctx == FCtx(foc)
NoPr == [pt |-> Nil, toks |-> <<>>, render |-> <<>>, spans |-> <<>>, walk |-> <<>>, nodom |-> FALSE]
NoPs == [canon |-> Nil, tight |-> Nil, wide |-> Nil, bare |-> Nil]
Init == /\ foc \in Foci /\ tree \in Universe(foc) /\ pr = NoPr /\ ps = NoPs /\ pc = "start"
\* printer/nodes.go expr1/binaryExpr as it should behave: parentheses exactly where NeedsParen
Render == /\ pc = "start"
          /\ LET pt == IF foc # "samples" THEN Par(tree) ELSE tree IN
             pr' = [pt |-> pt, toks |-> Toks(pt, "canon"), render |-> RenderToks(pt), spans |-> Spans(pt), walk |-> WalkEvents(pt),
                    nodom |-> ~DomainOK(tree)]
          /\ pc' = IF foc # "samples" THEN "printed" ELSE "done"
          /\ UNCHANGED <<foc, tree, ps>>
\* parser.go ParseExpr / parseStmt on the canonical, the tightest and the widest layout, and on the
\* rendering WITHOUT the inserted parentheses (bare)
Reparse == /\ pc = "printed"
           /\ ps' = [canon |-> ParseTop(pr.toks, Ctx),
                     tight |-> ParseTop(Toks(pr.pt, "tight"), Ctx),
                     wide  |-> ParseTop(Toks(pr.pt, "wide"), Ctx),
                     bare  |-> IF HasParen(pr.pt) THEN Strip(ParseTop(Toks(tree, "canon"), Ctx)) ELSE Nil]
           /\ pc' = "done" /\ UNCHANGED <<foc, tree, pr>>
Next == Render \/ Reparse
Spec == Init /\ [][Next]_vars /\ WF_vars(Next)

DoneGen == pc = "done" /\ foc # "samples"
\* C22 on the model: minimal-paren printing followed by parsing is the identity ...
RoundTrip  == DoneGen => Strip(ps.canon) = tree
\* ... and the parser finds exactly the parentheses the printer inserted (needed by C17: node-for-node match)
ParenExact == DoneGen => ps.canon = pr.pt
\* the parse does not depend on optional white space (justifies the layout variants of C17)
LayoutFree == DoneGen => ps.tight = ps.canon /\ ps.wide = ps.canon
\* the inserted parentheses are necessary: without them the text parses to a different tree
ParenNeeded == DoneGen => ps.bare # tree
ShapesOK   == ShapeOK(tree)
\* one span per real node, none empty: C17's expectation is itself consistent
SpansOK    == DoneGen =>
                 /\ Len(pr.spans) = Len(Preorder(pr.pt))
                 /\ \A i \in 1..Len(pr.spans) : pr.spans[i].f <= pr.spans[i].l \/ pr.spans[i].k \in {"EmptyStmt", "FieldList", "File"}
Terminates == <>(pc = "done")
Export == pc = "done" =>
   Emit([ctx |-> Ctx, focus |-> foc, t |-> tree, pt |-> pr.pt, toks |-> pr.render, spans |-> pr.spans, walk |-> pr.walk, nodom |-> pr.nodom,
         ok |-> IF foc # "samples" THEN ps.canon = pr.pt ELSE Parseable(tree)])
=============================================================================
