\* C32 thorough: product tpl x xgo, every string of length 5..5
\* alphabet: '"' "'" '`' '\\' 'n' 'x' '0' 'a' NL
SPECIFICATION Spec
CONSTANTS
  Alphabet = {34, 39, 96, 92, 110, 120, 48, 97, 10}
  MinLen = 5
  MaxLen = 5
  Dialects = {"tpl", "xgo"}
  CommentModes = {TRUE}
  InputMode = "chars"
  Gen = "sh:quoted"
INVARIANTS TypeOK TokenBound OffsetsMonotone TextExact Partition Export
PROPERTIES Progress
