\* C32: lexeme sequences of length 2 over the semicolon-relevant pool x every separator
\* alphabet: 
SPECIFICATION Spec
CONSTANTS
  Alphabet = {}
  MinLen = 2
  MaxLen = 2
  Dialects = {"tpl", "xgo"}
  CommentModes = {TRUE}
  InputMode = "lexemes"
  Gen = "shmix"
INVARIANTS TypeOK TokenBound OffsetsMonotone TextExact Partition Export
PROPERTIES Progress
