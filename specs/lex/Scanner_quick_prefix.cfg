\* C15 quick: every string of length <= 5
\* alphabet: 'c' 'p' 'y' '"' 'C' SP '\\'
SPECIFICATION Spec
CONSTANTS
  Alphabet = {99, 112, 121, 34, 67, 32, 92}
  MinLen = 0
  MaxLen = 5
  Dialects = {"xgo"}
  CommentModes = {TRUE}
  InputMode = "chars"
  Gen = "prefix"
INVARIANTS TypeOK TokenBound OffsetsMonotone TextExact Partition Export
PROPERTIES Progress
