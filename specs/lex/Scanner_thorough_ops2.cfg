\* C15 thorough: every string of length 4..4
\* alphabet: '(' ')' '[' ']' '{' '}' ',' ';' '~' '?' '$' '@' '%' '/' '.'
SPECIFICATION Spec
CONSTANTS
  Alphabet = {40, 41, 91, 93, 123, 125, 44, 59, 126, 63, 36, 64, 37, 47, 46}
  MinLen = 4
  MaxLen = 4
  Dialects = {"xgo"}
  CommentModes = {TRUE, FALSE}
  InputMode = "chars"
  Gen = "ops2"
INVARIANTS TypeOK TokenBound OffsetsMonotone TextExact Partition Export
PROPERTIES Progress
