\* C32 thorough: product tpl x xgo, every string of length 6..6
\* alphabet: 'a' NL '!' '.' '(' ')' ';' SP
SPECIFICATION Spec
CONSTANTS
  Alphabet = {97, 10, 33, 46, 40, 41, 59, 32}
  MinLen = 6
  MaxLen = 6
  Dialects = {"tpl", "xgo"}
  CommentModes = {TRUE}
  InputMode = "chars"
  Gen = "sh:semis"
INVARIANTS TypeOK TokenBound OffsetsMonotone TextExact Partition Export
PROPERTIES Progress
