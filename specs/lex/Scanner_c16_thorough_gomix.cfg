\* C16: lexeme sequences of length 3 over the semicolon-relevant pool x separators "", "\n", "//c\n"
\* alphabet: 
SPECIFICATION Spec
CONSTANTS
  Alphabet = {}
  MinLen = 3
  MaxLen = 3
  Dialects = {"xgo", "go"}
  CommentModes = {TRUE}
  InputMode = "lexemes"
  Gen = "gomix3"
INVARIANTS TypeOK TokenBound OffsetsMonotone TextExact Partition Export
PROPERTIES Progress
