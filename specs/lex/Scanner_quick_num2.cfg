\* C15 quick: every string of length <= 4
\* alphabet: '0' '7' '9' 'p' 'o' 'r' 'a' '-' '.' ' '
SPECIFICATION Spec
CONSTANTS
  Alphabet = {48, 55, 57, 112, 111, 114, 97, 45, 46, 32}
  MinLen = 0
  MaxLen = 4
  Dialects = {"xgo"}
  CommentModes = {TRUE}
  InputMode = "chars"
  Gen = "num2"
INVARIANTS TypeOK TokenBound OffsetsMonotone TextExact Partition Export
PROPERTIES Progress
