\* C15 quick: every string of length <= 4
\* alphabet: NUL BOM LETTER BADBYTE UDIGIT 'a' '1' SP NL '"' '/' '.'
SPECIFICATION Spec
CONSTANTS
  Alphabet = {0, 65279, 257, 255, 1633, 97, 49, 32, 10, 34, 47, 46}
  MinLen = 0
  MaxLen = 4
  Dialects = {"xgo"}
  CommentModes = {TRUE, FALSE}
  InputMode = "chars"
  Gen = "soup"
INVARIANTS TypeOK TokenBound OffsetsMonotone TextExact Partition Export
PROPERTIES Progress
