\* C16 quick: product xgo x go, every string of length <= 5
\* alphabet: 'a' ')' '/' '*' NL CR SP
SPECIFICATION Spec
CONSTANTS
  Alphabet = {97, 41, 47, 42, 10, 13, 32}
  MinLen = 0
  MaxLen = 5
  Dialects = {"xgo", "go"}
  CommentModes = {TRUE, FALSE}
  InputMode = "chars"
  Gen = "go:cmt"
INVARIANTS TypeOK TokenBound OffsetsMonotone TextExact Partition Export
PROPERTIES Progress
