\* C16 thorough: product xgo x go, every string of length <= 6
\* alphabet: '0' '1' '_' '.' 'e' 'x' 'p'
SPECIFICATION Spec
CONSTANTS
  Alphabet = {48, 49, 95, 46, 101, 120, 112}
  MinLen = 0
  MaxLen = 6
  Dialects = {"xgo", "go"}
  CommentModes = {TRUE}
  InputMode = "chars"
  Gen = "go:num6"
INVARIANTS TypeOK TokenBound OffsetsMonotone TextExact Partition Export
PROPERTIES Progress
