\* C32 thorough: product tpl x xgo, every string of length 6..6
\* alphabet: 'a' ')' '/' '*' '#' NL CR SP
SPECIFICATION Spec
CONSTANTS
  Alphabet = {97, 41, 47, 42, 35, 10, 13, 32}
  MinLen = 6
  MaxLen = 6
  Dialects = {"tpl", "xgo"}
  CommentModes = {TRUE}
  InputMode = "chars"
  Gen = "sh:cmt"
INVARIANTS TypeOK TokenBound OffsetsMonotone TextExact Partition Export
PROPERTIES Progress
