\* C15 quick: every string of length <= 5
\* alphabet: 'a' NL '!' '.' '(' ')' ';' SP
SPECIFICATION Spec
CONSTANTS
  Alphabet = {97, 10, 33, 46, 40, 41, 59, 32}
  MinLen = 0
  MaxLen = 5
  Dialects = {"xgo"}
  CommentModes = {TRUE}
  InputMode = "chars"
  Gen = "semis"
INVARIANTS TypeOK TokenBound OffsetsMonotone TextExact Partition Export
PROPERTIES Progress
