\* C15 thorough: every string of length 6..6
\* alphabet: 'c' 'p' 'y' '"' 'C' SP '\\'
SPECIFICATION Spec
CONSTANTS
  Alphabet = {99, 112, 121, 34, 67, 32, 92}
  MinLen = 6
  MaxLen = 6
  Dialects = {"xgo"}
  CommentModes = {TRUE}
  InputMode = "chars"
  Gen = "prefix"
INVARIANTS TypeOK TokenBound OffsetsMonotone TextExact Partition Export
PROPERTIES Progress
