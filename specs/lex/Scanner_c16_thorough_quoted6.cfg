\* C16 thorough: product xgo x go, every string of length <= 6
\* alphabet: '"' "'" '\\' 'n' 'x' '0'
SPECIFICATION Spec
CONSTANTS
  Alphabet = {34, 39, 92, 110, 120, 48}
  MinLen = 0
  MaxLen = 6
  Dialects = {"xgo", "go"}
  CommentModes = {TRUE}
  InputMode = "chars"
  Gen = "go:quoted6"
INVARIANTS TypeOK TokenBound OffsetsMonotone TextExact Partition Export
PROPERTIES Progress
