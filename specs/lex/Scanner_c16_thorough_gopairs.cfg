\* C16: every pair of Go lexemes x separators "", " ", "\n"
\* alphabet: 
SPECIFICATION Spec
CONSTANTS
  Alphabet = {}
  MinLen = 2
  MaxLen = 2
  Dialects = {"xgo", "go"}
  CommentModes = {TRUE}
  InputMode = "lexemes"
  Gen = "gopairs"
INVARIANTS TypeOK TokenBound OffsetsMonotone TextExact Partition Export
PROPERTIES Progress
