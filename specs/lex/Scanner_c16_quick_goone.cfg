\* C16: one Go lexeme x every separator
\* alphabet: 
SPECIFICATION Spec
CONSTANTS
  Alphabet = {}
  MinLen = 1
  MaxLen = 1
  Dialects = {"xgo", "go"}
  CommentModes = {TRUE, FALSE}
  InputMode = "lexemes"
  Gen = "goone"
INVARIANTS TypeOK TokenBound OffsetsMonotone TextExact Partition Export
PROPERTIES Progress
