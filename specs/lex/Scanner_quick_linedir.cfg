\* lexeme cfg "linedir" (see Pool / Seps in Scanner.tla), sequences of length 1..2, both comment modes
SPECIFICATION Spec
CONSTANTS
  Alphabet = {}
  MinLen = 1
  MaxLen = 2
  Dialects = {"xgo"}
  CommentModes = {TRUE, FALSE}
  InputMode = "lexemes"
  Gen = "linedir"
INVARIANTS TypeOK TokenBound OffsetsMonotone TextExact Partition Export
PROPERTIES Progress
