\* C32 thorough: product tpl x xgo, every string of length 5..5
\* alphabet: '0' '1' '8' '_' '.' 'e' 'x' 'b' '+' 'i'
SPECIFICATION Spec
CONSTANTS
  Alphabet = {48, 49, 56, 95, 46, 101, 120, 98, 43, 105}
  MinLen = 5
  MaxLen = 5
  Dialects = {"tpl", "xgo"}
  CommentModes = {TRUE}
  InputMode = "chars"
  Gen = "sh:num1"
INVARIANTS TypeOK TokenBound OffsetsMonotone TextExact Partition Export
PROPERTIES Progress
