\* C15 thorough: every string of length 6..6
\* alphabet: 'a' NL '!' '.' '(' ')' ';' SP
SPECIFICATION Spec
CONSTANTS
  Alphabet = {97, 10, 33, 46, 40, 41, 59, 32}
  MinLen = 6
  MaxLen = 6
  Dialects = {"xgo"}
  CommentModes = {TRUE}
  InputMode = "chars"
  Gen = "semis"
INVARIANTS TypeOK TokenBound OffsetsMonotone TextExact Partition Export
PROPERTIES Progress
