\* C32 quick: product tpl x xgo, every string of length <= 4
\* alphabet: '"' "'" '`' '\\' 'n' 'x' '0' 'a' NL
SPECIFICATION Spec
CONSTANTS
  Alphabet = {34, 39, 96, 92, 110, 120, 48, 97, 10}
  MinLen = 0
  MaxLen = 4
  Dialects = {"tpl", "xgo"}
  CommentModes = {TRUE}
  InputMode = "chars"
  Gen = "sh:quoted"
INVARIANTS TypeOK TokenBound OffsetsMonotone TextExact Partition Export
PROPERTIES Progress
