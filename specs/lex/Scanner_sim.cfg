\* simulation: random strings of length 16..40 over the union alphabet (tlc -simulate)
\* alphabet: NUL NL CR SP ' ' '!' '"' '#' '$' '%' '&' "'" '(' ')' '*' '+' ',' '-' '.' '/' '0' '1' '7' '8' '9' ':' ';' '<' '=' '>' '?' '@' 'C' '[' '\\' ']' '^' '_' '`' 'a' 'b' 'c' 'e' 'i' 'n' 'o' 'p' 'r' 'x' 'y' '{' '|' '}' '~' BADBYTE LETTER UDIGIT BOM CR TAB 'c' 'y' 'p'
SPECIFICATION Spec
CONSTANTS
  Alphabet = {0, 9, 10, 13, 32, 33, 34, 35, 36, 37, 38, 39, 40, 41, 42, 43, 44, 45, 46, 47, 48, 49, 55, 56, 57, 58, 59, 60, 61, 62, 63, 64, 67, 91, 92, 93, 94, 95, 96, 97, 98, 99, 101, 105, 110, 111, 112, 114, 120, 121, 123, 124, 125, 126, 255, 257, 1633, 65279}
  MinLen = 16
  MaxLen = 40
  Dialects = {"xgo"}
  CommentModes = {TRUE, FALSE}
  InputMode = "chars"
  Gen = "sim"
INVARIANTS TypeOK TokenBound OffsetsMonotone TextExact Partition Export
PROPERTIES Progress
