\* C16 thorough: product xgo x go, every string of length 6..6
\* alphabet: 'a' NL '!' '.' '(' ')' ';' SP
SPECIFICATION Spec
CONSTANTS
  Alphabet = {97, 10, 33, 46, 40, 41, 59, 32}
  MinLen = 6
  MaxLen = 6
  Dialects = {"xgo", "go"}
  CommentModes = {TRUE}
  InputMode = "chars"
  Gen = "go:semis"
INVARIANTS TypeOK TokenBound OffsetsMonotone TextExact Partition Export
PROPERTIES Progress
