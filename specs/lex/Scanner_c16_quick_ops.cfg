\* C16 quick: product xgo x go, every string of length <= 3
\* alphabet: '+' '-' '<' '>' '=' '!' '&' '^' '|' ':' '.' '*' '~'
SPECIFICATION Spec
CONSTANTS
  Alphabet = {43, 45, 60, 62, 61, 33, 38, 94, 124, 58, 46, 42, 126}
  MinLen = 0
  MaxLen = 3
  Dialects = {"xgo", "go"}
  CommentModes = {TRUE}
  InputMode = "chars"
  Gen = "go:ops"
INVARIANTS TypeOK TokenBound OffsetsMonotone TextExact Partition Export
PROPERTIES Progress
