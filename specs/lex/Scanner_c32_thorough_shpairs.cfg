\* C32: every pair of shared lexemes x separators "", " ", "\n"
\* alphabet: 
SPECIFICATION Spec
CONSTANTS
  Alphabet = {}
  MinLen = 2
  MaxLen = 2
  Dialects = {"tpl", "xgo"}
  CommentModes = {TRUE}
  InputMode = "lexemes"
  Gen = "shpairs"
INVARIANTS TypeOK TokenBound OffsetsMonotone TextExact Partition Export
PROPERTIES Progress
