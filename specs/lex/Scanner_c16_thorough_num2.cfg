\* C16 thorough: product xgo x go, every string of length 5..5
\* alphabet: '0' '7' '9' 'p' 'o' 'r' 'a' '-' '.' ' '
SPECIFICATION Spec
CONSTANTS
  Alphabet = {48, 55, 57, 112, 111, 114, 97, 45, 46, 32}
  MinLen = 5
  MaxLen = 5
  Dialects = {"xgo", "go"}
  CommentModes = {TRUE}
  InputMode = "chars"
  Gen = "go:num2"
INVARIANTS TypeOK TokenBound OffsetsMonotone TextExact Partition Export
PROPERTIES Progress
