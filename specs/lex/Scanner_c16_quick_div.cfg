\* lexeme cfg "div" (see Pool / Seps in Scanner.tla), sequences of length 3..3, model exported with ScanComments (the harness runs the real scanners in both modes)
SPECIFICATION Spec
CONSTANTS
  Alphabet = {}
  MinLen = 3
  MaxLen = 3
  Dialects = {"xgo", "go"}
  CommentModes = {TRUE}
  InputMode = "lexemes"
  Gen = "div"
INVARIANTS TypeOK TokenBound OffsetsMonotone TextExact Partition Export
PROPERTIES Progress
