\* C32: lexeme sequences of length 3 over the semicolon-relevant pool
\* alphabet: 
SPECIFICATION Spec
CONSTANTS
  Alphabet = {}
  MinLen = 3
  MaxLen = 3
  Dialects = {"tpl", "xgo"}
  CommentModes = {TRUE}
  InputMode = "lexemes"
  Gen = "shmix3"
INVARIANTS TypeOK TokenBound OffsetsMonotone TextExact Partition Export
PROPERTIES Progress
