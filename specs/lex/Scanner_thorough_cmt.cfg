\* C15 thorough: every string of length 6..6
\* alphabet: 'a' ')' '/' '*' '#' NL CR SP
SPECIFICATION Spec
CONSTANTS
  Alphabet = {97, 41, 47, 42, 35, 10, 13, 32}
  MinLen = 6
  MaxLen = 6
  Dialects = {"xgo"}
  CommentModes = {TRUE, FALSE}
  InputMode = "chars"
  Gen = "cmt"
INVARIANTS TypeOK TokenBound OffsetsMonotone TextExact Partition Export
PROPERTIES Progress
