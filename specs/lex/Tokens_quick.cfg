\* C33: every operator and keyword token of both tables (finite, exhaustive)
SPECIFICATION TSpec
CONSTANTS
  Alphabet = {}
  MinLen = 0
  MaxLen = 0
  Dialects = {}
  CommentModes = {}
  InputMode = "chars"
  Gen = "tokens"
INVARIANTS TypeOK TableOK OffsetsMonotone TextExact Partition TExport
PROPERTIES Progress Termination
