\* C32 thorough: product tpl x xgo, every string of length 4..4
\* alphabet: '+' '-' '<' '>' '=' '!' '&' '^' '|' ':' '.' '*' '?' '$'
SPECIFICATION Spec
CONSTANTS
  Alphabet = {43, 45, 60, 62, 61, 33, 38, 94, 124, 58, 46, 42, 63, 36}
  MinLen = 4
  MaxLen = 4
  Dialects = {"tpl", "xgo"}
  CommentModes = {TRUE}
  InputMode = "chars"
  Gen = "sh:ops"
INVARIANTS TypeOK TokenBound OffsetsMonotone TextExact Partition Export
PROPERTIES Progress
