\* small bound, all dialects: Termination (liveness) and Deterministic
\* alphabet: 'a' '1' '.' 'e' '/' '*' '#' NL '"' '\\' ')' '!'
SPECIFICATION Spec
CONSTANTS
  Alphabet = {97, 49, 46, 101, 47, 42, 35, 10, 34, 92, 41, 33}
  MinLen = 0
  MaxLen = 3
  Dialects = {"xgo", "go", "tpl"}
  CommentModes = {TRUE, FALSE}
  InputMode = "chars"
  Gen = "live"
INVARIANTS TypeOK Deterministic TokenBound OffsetsMonotone TextExact Partition Export
PROPERTIES Progress Termination
