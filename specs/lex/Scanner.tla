------------------------------- MODULE Scanner -------------------------------
(* C15 / C16 / C32 -- executable reference model of the three scanners that share one design:  *)
(*   dialect "xgo" : /repo/scanner/scanner.go            (Scanner.Scan)                          *)
(*   dialect "go"  : $GOROOT/src/go/scanner/scanner.go   (go1.23; the reference of C16)          *)
(*   dialect "tpl" : /repo/tpl/scanner/scanner.go        (the scanner C32 compares with xgo)     *)
(*                                                                                             *)
(* Source text is a sequence of SYMBOLS (integers): 0..127 the ASCII byte, 128..255 a lone byte *)
(* that is invalid UTF-8, >= 256 a Unicode code point (257 = a letter, 1633 = a non-ASCII digit,*)
(* 65279 = BOM).  Offsets in the model are symbol indices (0-based in the exported tokens); the *)
(* harness converts them to byte offsets.                                                      *)
(*                                                                                             *)
(* The machine is character level: `p` is the index of the current character (s.ch = Ch(p),    *)
(* s.offset = p-1).  One action per code path of Scan; a documented difference between the     *)
(* dialects is a named switch (section DIALECT SWITCHES).  `dia` and `cm` (ScanComments) are     *)
(* chosen by action Start from the constant sets Dialects / CommentModes and never change       *)
(* afterwards, so one TLC run explores the product of the dialects on the same inputs.          *)
EXTENDS Integers, Sequences, FiniteSets, TLC, VerifIO, LexPool

CONSTANTS Alphabet,      \* symbols used by the character-level enumeration
          MinLen, MaxLen,\* lengths enumerated (characters, or lexemes in lexeme mode)
          Dialects,      \* subset of {"xgo", "go", "tpl"}
          CommentModes,  \* subset of BOOLEAN (ScanComments)
          InputMode,     \* "chars": all strings over Alphabet; "lexemes": lexeme sequences over Pool(Gen)
          Gen            \* name of the alphabet / pool (exported with each case)

VARIABLES src,        \* the input (constant once scanning has started)
          nlex,       \* number of symbols / lexemes generated so far
          dia, cm,    \* dialect and comment mode of this behaviour
          p,          \* 1-based index of the current character; Len(src)+1 = EOF
          pc,         \* "gen" | "scan" | "num" | "str" | "done"
          insertSemi, \* s.insertSemi
          nParen,     \* s.nParen (xgo, tpl)
          unit,       \* pending UNIT token <<start, end>> (0-based) or <<>>   (s.unitVal)
          nl,         \* go: s.nlPos as 0-based offset, -1 if none
          st,         \* token in progress: [s0, k, ph, base, q, le]
          out         \* tokens returned so far
vars == <<src, nlex, dia, cm, p, pc, insertSemi, nParen, unit, nl, st, out>>

-----------------------------------------------------------------------------
\* Characters
NUL == 0  TAB == 9  NL == 10  CR == 13  SP == 32  BANG == 33  DQ == 34  SHARP == 35  DOLLAR == 36
PCT == 37  AMP == 38  SQ == 39  LPAR == 40  RPAR == 41  STAR == 42  PLUS == 43  COMMA == 44
MINUS == 45  DOT == 46  SL == 47  COLON == 58  SEMI == 59  LT == 60  EQ == 61  GT == 62  QM == 63
AT == 64  LBRK == 91  BSL == 92  RBRK == 93  CARET == 94  USCORE == 95  BQ == 96  LBRC == 123
BAR == 124  RBRC == 125  TILDE == 126
BOM == 65279  RUNEERROR == 65533
EOFCH == -1

UniLetters == {257, 955}        \* non-ASCII letters used in alphabets
UniDigits  == {1633}            \* non-ASCII decimal digit (unicode.IsDigit, not isDecimal)

Ch(i)  == IF i >= 1 /\ i <= Len(src) THEN src[i] ELSE EOFCH
\* what next() puts into s.ch: a lone byte >= 0x80 decodes to utf8.RuneError
Rune(c) == IF c >= 128 /\ c <= 255 THEN RUNEERROR ELSE c

Lower(c)   == IF c >= 65 /\ c <= 90 THEN c + 32 ELSE c
Letter(c)  == (c >= 97 /\ c <= 122) \/ (c >= 65 /\ c <= 90) \/ c = USCORE \/ c \in UniLetters
Decimal(c) == c >= 48 /\ c <= 57
Digit(c)   == Decimal(c) \/ c \in UniDigits
Hex(c)     == Decimal(c) \/ (Lower(c) >= 97 /\ Lower(c) <= 102)
Blank(c)   == c \in {SP, TAB, CR}
DigitVal(c) == IF Decimal(c) THEN c - 48 ELSE IF Lower(c) >= 97 /\ Lower(c) <= 102 THEN Lower(c) - 87 ELSE 16

Min(S) == CHOOSE m \in S : \A k \in S : m <= k
\* first index >= i (up to Len+1) whose character does not satisfy the class
RunEnd(i, Ok(_)) == Min({ j \in i..(Len(src) + 1) : j = Len(src) + 1 \/ ~Ok(src[j]) })
IdentEnd(i)   == LET Ok(c) == Letter(c) \/ Digit(c) IN RunEnd(i, Ok)
\* scanner.go: digits(base)
DigitsEnd(i, base) == LET OkD(c) == Decimal(c) \/ c = USCORE
                          OkH(c) == Hex(c) \/ c = USCORE
                      IN IF base <= 10 THEN RunEnd(i, OkD) ELSE RunEnd(i, OkH)
LineEnd(i)    == LET Ok(c) == c # NL IN RunEnd(i, Ok)              \* index of the NL or EOF
BlankEnd(i)   == RunEnd(i, Blank)                                   \* skipWhitespace with insertSemi set
Sub(a, b)     == SubSeq(src, a, b - 1)                              \* characters [a, b)

-----------------------------------------------------------------------------
\* DIALECT SWITCHES (every documented difference between the three scanners)
\* Repairs of the XGo scanner committed to /repo (`fix:` commits ead8333, 7645ecf, 8b7f5d9 + 9bba499, 7e77a61; tpl/scanner: 143f899).  With a tag removed the xgo dialect models the scanner before that repair.
\* (The repairs 60a3978 "UNIT offset" and 42ff237 "# at EOF" need no switch: the model always had the
\* behaviour the property demands.)
XGoFixed == {"tilde", "sharp-empty", "sharp-star", "findlineend-sharp", "tpl-findlineend-sharp"}

HasKeywords      == dia \in {"xgo", "go"}         \* tpl: every identifier is IDENT
HasPrefixStrings == dia = "xgo"                    \* c"..", C"..", py".." (scanner.go: Scan, case isLetter)
HasUnitSuffix    == dia \in {"xgo", "tpl"}         \* 1r -> RAT, 1x -> INT UNIT (scanNumber, isLetter branch)
BangInsertsSemi  == dia \in {"xgo", "tpl"}         \* `!` sets insertSemi
EllipsisSemi     == dia \in {"xgo", "tpl"}         \* `...` sets insertSemi when nParen = 0
HasArrows        == dia \in {"xgo", "tpl"}         \* -> <> =>
HasQuestionEnv   == dia \in {"xgo", "tpl"}         \* ? $
HasTilde         == dia \in {"go", "tpl"} \/ (dia = "xgo" /\ "tilde" \in XGoFixed)
                                                   \* ~ (xgo: ILLEGAL although token.TILDE has the spelling)
HasAt            == dia = "tpl"                    \* @
HasPow           == dia = "tpl"                    \* **
HasSharpComment  == dia \in {"xgo", "tpl"}         \* # comments
SharpBlock       == dia = "xgo" /\ "sharp-star" \notin XGoFixed
                                                   \* #* ... */ is a block comment (scanComment is shared with '/')
SharpSkipsOne    == dia = "xgo" /\ "sharp-empty" \notin XGoFixed
                                                   \* the character after # is consumed unconditionally, even NL
SharpStripsCR    == dia = "xgo"                    \* tpl: scanSharpComment keeps every \r
SemiBeforeComment == dia \in {"xgo", "tpl"}        \* go <= 1.19 order: `;` first, at the comment's offset (findLineEnd)
                                                   \* go >= 1.20: comment first, `;` at the newline (nlPos)
FindLineEndSharp == \/ dia = "xgo" /\ "findlineend-sharp" \in XGoFixed
                    \/ dia = "tpl" /\ "tpl-findlineend-sharp" \in XGoFixed
                                                   \* findLineEnd answers true at a `#` after a /* */ comment (a # comment
                                                   \* runs to the end of the line); before the repairs: false, so
                                                   \* `x /* c */ # d` + newline gets no semicolon at all
KeepStarCRSlash  == dia \in {"xgo", "go"}          \* stripCR keeps the \r of *\r/ inside /* */ (tpl strips all)

-----------------------------------------------------------------------------
\* scanner.go: scanEscape -- number of characters consumed after the backslash, at index i
RECURSIVE EscDigits(_, _, _)
EscDigits(i, n, base) == IF n = 0 \/ DigitVal(Ch(i)) >= base THEN 0 ELSE 1 + EscDigits(i + 1, n - 1, base)
EscLen(i, quote) ==
  LET c == Ch(i) IN
  IF c \in {97, 98, 102, 110, 114, 116, 118, BSL, quote} THEN 1   \* a b f n r t v \ quote
  ELSE IF c >= 48 /\ c <= 55 THEN EscDigits(i, 3, 8)
  ELSE IF c = 120 THEN 1 + EscDigits(i + 1, 2, 16)                   \* x
  ELSE IF c = 117 THEN 1 + EscDigits(i + 1, 4, 16)                   \* u
  ELSE IF c = 85  THEN 1 + EscDigits(i + 1, 8, 16)                   \* U
  ELSE 0                                                              \* unknown escape: stop at the offender

\* scanner.go: scanComment, block style: index after the closing */ (search starts at i), Len+1 if unterminated
BlockClose(i) == LET C == { j \in i..Len(src) : Ch(j) = STAR /\ Ch(j + 1) = SL }
                 IN IF C = {} THEN Len(src) + 1 ELSE Min(C) + 2
\* first NL inside [i, e), 0 if none  (go: nlOffset)
FirstNL(i, e) == LET N == { j \in i..(e - 1) : Ch(j) = NL } IN IF N = {} THEN 0 ELSE Min(N)

\* scanner.go: findLineEnd; i = index of the character following the initial '/'
RECURSIVE FindLineEnd(_)
FindLineEnd(i) ==
  IF Ch(i) = SL THEN TRUE
  ELSE IF Ch(i) # STAR THEN FALSE
  ELSE LET e == BlockClose(i + 1) IN
       IF FirstNL(i + 1, e) # 0 THEN TRUE
       ELSE LET j == BlankEnd(e) IN
            IF Ch(j) = EOFCH \/ Ch(j) = NL \/ (FindLineEndSharp /\ Ch(j) = SHARP) THEN TRUE
            ELSE IF Ch(j) # SL THEN FALSE
            ELSE FindLineEnd(j + 1)

\* stripCR
RECURSIVE StripFrom(_, _, _, _)
StripFrom(b, j, acc, keepStar) ==
  IF j > Len(b) THEN acc
  ELSE IF b[j] # CR
          \/ (keepStar /\ Len(acc) > 2 /\ acc[Len(acc)] = STAR /\ j + 1 <= Len(b) /\ b[j + 1] = SL)
       THEN StripFrom(b, j + 1, Append(acc, b[j]), keepStar)
       ELSE StripFrom(b, j + 1, acc, keepStar)
StripCR(b, keepStar) == StripFrom(b, 1, <<>>, keepStar)
HasCRFrom(b, k) == \E j \in k..Len(b) : b[j] = CR
NumCRFrom(b, k) == Cardinality({ j \in k..Len(b) : b[j] = CR })

\* literal of a comment whose raw text is b (b[1] is '/' or '#')
CommentLit(b) ==
  IF dia = "tpl" THEN
       IF b[1] = SHARP THEN b                                        \* tpl scanSharpComment: raw
       ELSE IF HasCRFrom(b, 3) THEN StripCR(b, FALSE) ELSE b         \* tpl stripCR: all \r
  ELSE \* scanner.go / go/scanner scanComment, label exit
       \* numCR counts the \r met by the loops: everything after the two-character opener; before repair
       \* "sharp-empty" the # style skipped its second character unseen, afterwards it is looked at too
       LET from == IF b[1] = SHARP /\ dia = "xgo" /\ "sharp-empty" \in XGoFixed THEN 2 ELSE 3
           n0 == NumCRFrom(b, from)
           dropLast == n0 > 0 /\ Len(b) >= 2 /\ b[2] = SL /\ b[Len(b)] = CR
           b1 == IF dropLast THEN SubSeq(b, 1, Len(b) - 1) ELSE b
           n1 == IF dropLast THEN n0 - 1 ELSE n0
           \* stripCR(lit, comment): since repair 9bba499 (part of "sharp-star") a `#*` line comment no longer
           \* counts as a /* */ comment here either
           blk == Len(b1) >= 2 /\ b1[2] = STAR /\ (b1[1] = SL \/ (dia = "xgo" /\ "sharp-star" \notin XGoFixed))
       IN IF n1 > 0 THEN StripCR(b1, blk /\ KeepStarCRSlash) ELSE b1
RawStringLit(b) == IF HasCRFrom(b, 2) THEN StripCR(b, FALSE) ELSE b

-----------------------------------------------------------------------------
NoSt == [s0 |-> 0, k |-> "", ph |-> 0, base |-> 0, q |-> 0, le |-> 0]
Tok(k, s, e, l) == [k |-> k, s |-> s - 1, e |-> e - 1, l |-> l]     \* s, e are 1-based [s, e)
AutoSemi(at)    == [k |-> ";auto", s |-> at - 1, e |-> at - 1, l |-> <<NL>>]

RECURSIVE Flat(_, _)
Flat(ls, ss) == IF ls = <<>> THEN <<>> ELSE Head(ls) \o Head(ss) \o Flat(Tail(ls), Tail(ss))
\* lexeme pools of the differential checks, selected by Gen:
\*   goone / shone     one lexeme of the full pool followed by every separator   (token kind x separator)
\*   gomix / shmix     sequences over a small pool of semicolon-relevant lexemes, every separator
\*   gopairs / shpairs sequences over the full pool, separators "", " ", "\n"
\*   gomix3 / shmix3   triples over the small pool, separators "", "\n" and one line comment
\*   div               triples over a 1 ) / /= * with "", " " and general comments in between
\*   linedir           one or two line-directive comments (or the identifier a), separators "", "\n"
GoAll == PoolGoOps \cup PoolKw \cup PoolIdents \cup PoolNums \cup PoolStrs
ShAll == (PoolGoOps \ {<<126>>}) \cup PoolXOps \cup PoolIdents \cup PoolNums \cup PoolStrs
GoMix == {<<97>>, <<49>>, <<41>>, <<33>>, <<46, 46, 46>>, <<40>>, <<43, 43>>, <<60>>, <<62>>, <<45>>,
          <<61>>, <<126>>, <<114, 101, 116, 117, 114, 110>>, <<34, 97, 34>>, <<59>>, <<123>>, <<125>>}
          \* a 1 ) ! ... ( ++ < > - = ~ return "a" ; { }
ShMix == {<<97>>, <<49>>, <<41>>, <<33>>, <<46, 46, 46>>, <<40>>, <<42>>, <<60>>, <<62>>, <<45>>,
          <<61>>, <<63>>, <<49, 109>>, <<34, 97, 34>>, <<59>>, <<123>>, <<125>>}
          \* a 1 ) ! ... ( * < > - = ? 1m "a" ; { }
PlainSeps == {<<>>, <<32>>, <<10>>}
\* "div": previous token, operator, operand with general comments in between -- the look-ahead findLineEnd must
\* leave the scanner where it was when a `/` or `/=` (not a comment) follows a newline-free /* */ comment
DivPool == {<<97>>, <<49>>, <<41>>, <<47>>, <<47, 61>>, <<42>>}              \* a 1 ) / /= *
DivSeps == {<<>>, <<32>>, <<32, 47, 42, 99, 42, 47, 32>>, <<47, 42, 99, 42, 47>>,
            <<32, 47, 42, 99, 42, 47, 32, 47, 42, 100, 42, 47, 32>>}           \* "" " " " /*c*/ " "/*c*/" " /*c*/ /*d*/ "
Pool == CASE Gen \in {"goone", "gopairs"} -> GoAll
          [] Gen \in {"gomix", "gomix3"} -> GoMix
          [] Gen \in {"shone", "shpairs"} -> ShAll
          [] Gen \in {"shmix", "shmix3"} -> ShMix
          [] Gen = "div" -> DivPool
          [] Gen = "linedir" -> PoolLineDir \cup {<<97>>}
          [] OTHER -> {}
Seps == CASE Gen \in {"goone", "gomix"} -> PoolSeps
          [] Gen \in {"shone", "shmix"} -> PoolSeps \cup PoolSharp
          [] Gen \in {"gopairs", "shpairs"} -> PlainSeps
          [] Gen = "div" -> DivSeps
          [] Gen = "linedir" -> {<<>>, <<10>>}
          [] Gen = "gomix3" -> {<<>>, <<10>>, <<47, 47, 99, 10>>}      \* "" "\n" "//c\n"
          [] Gen = "shmix3" -> {<<>>, <<10>>, <<35, 99, 10>>}          \* "" "\n" "#c\n"
          [] OTHER -> {<<>>}

\* Input generation.  The input is built inside the behaviour (one symbol, or one lexeme and one separator,
\* per step) so that TLC's workers share the enumeration; `Start` fixes the dialect and the comment mode
\* and performs Init's "ignore BOM at file beginning".  Every string / lexeme sequence within the bound is
\* reached by exactly one path.
Init == /\ src = <<>> /\ nlex = 0 /\ dia = "" /\ cm = FALSE /\ p = 1
        /\ pc = "gen" /\ insertSemi = FALSE /\ nParen = 0 /\ unit = <<>> /\ nl = -1 /\ st = NoSt /\ out = <<>>
GenChar == /\ pc = "gen" /\ InputMode = "chars" /\ nlex < MaxLen
           /\ \E a \in Alphabet : src' = Append(src, a)
           /\ nlex' = nlex + 1
           /\ UNCHANGED <<dia, cm, p, pc, insertSemi, nParen, unit, nl, st, out>>
GenLexeme == /\ pc = "gen" /\ InputMode = "lexemes" /\ nlex < MaxLen
             /\ \E l \in Pool, s \in Seps : src' = src \o l \o s
             /\ nlex' = nlex + 1
             /\ UNCHANGED <<dia, cm, p, pc, insertSemi, nParen, unit, nl, st, out>>
Start == /\ pc = "gen" /\ nlex >= MinLen
         /\ \E d \in Dialects, c \in CommentModes : dia' = d /\ cm' = c
         /\ p' = (IF Len(src) >= 1 /\ src[1] = BOM THEN 2 ELSE 1)     \* Init: ignore BOM at file beginning
         /\ pc' = "scan"
         /\ UNCHANGED <<src, nlex, insertSemi, nParen, unit, nl, st, out>>

c0 == Ch(p)
Scanning == pc = "scan" /\ unit = <<>> /\ nl < 0
IsWS(c)  == Blank(c) \/ (c = NL /\ ~insertSemi)

\* go/scanner Scan: `if s.nlPos.IsValid()` -- artificial ';' after a /*...*/ comment containing a newline
GoNlSemi == /\ pc = "scan" /\ nl >= 0
            /\ out' = Append(out, AutoSemi(nl + 1)) /\ nl' = -1
            /\ UNCHANGED <<src, nlex, dia, cm, p, pc, insertSemi, nParen, unit, st>>

\* scanner.go: skipWhitespace
SkipWS == /\ pc = "scan" /\ nl < 0 /\ IsWS(c0)
          /\ p' = RunEnd(p, IsWS)
          /\ UNCHANGED <<src, nlex, dia, cm, pc, insertSemi, nParen, unit, nl, st, out>>

\* scanner.go: Scan, `if s.unitVal != ""` -- the pending unit becomes a UNIT token.  The reference model
\* places it where the unit is in the source (the code computes offset-after-whitespace minus len).
UnitTok == /\ pc = "scan" /\ unit # <<>> /\ ~IsWS(c0)
           /\ out' = Append(out, Tok("UNIT", unit[1] + 1, unit[2] + 1, Sub(unit[1] + 1, unit[2] + 1)))
           /\ unit' = <<>> /\ insertSemi' = TRUE
           /\ UNCHANGED <<src, nlex, dia, cm, p, pc, nParen, nl, st>>

\* scanner.go: Scan, case isLetter
ScanIdent ==
  /\ Scanning /\ Letter(c0)
  /\ LET e   == IdentEnd(p)
         lit == Sub(p, e)
         kw  == HasKeywords /\ Len(lit) > 1 /\ lit \in Keywords
         pre == HasPrefixStrings /\ Ch(e) = DQ /\ lit \in {<<99>>, <<67>>, <<112, 121>>}   \* c C py
     IN IF pre
        THEN \* c"..." / py"...": the opening quote is consumed, scanString follows
             /\ p' = e + 1 /\ pc' = "str"
             /\ st' = [NoSt EXCEPT !.s0 = p, !.k = (IF Len(lit) = 2 THEN "PYSTRING" ELSE "CSTRING"), !.q = DQ, !.le = e]
             /\ UNCHANGED <<insertSemi, out>>
        ELSE /\ p' = e /\ pc' = "scan" /\ st' = st
             /\ out' = Append(out, Tok(IF kw THEN KwName(lit) ELSE "IDENT", p, e, lit))
             /\ insertSemi' = (~kw \/ KwName(lit) \in {"break", "continue", "fallthrough", "return"})
  /\ UNCHANGED <<src, nlex, dia, cm, nParen, unit, nl>>

\* scanner.go: scanNumber, integer part (prefix + digits); a leading '.' goes straight to the fraction
NumStart ==
  /\ Scanning /\ (Decimal(c0) \/ (c0 = DOT /\ Decimal(Ch(p + 1))))
  /\ IF c0 = DOT
     THEN /\ p' = DigitsEnd(p + 1, 10)
          /\ st' = [NoSt EXCEPT !.s0 = p, !.k = "FLOAT", !.ph = 2, !.base = 10]
     ELSE LET x    == Lower(Ch(p + 1))
              base == IF c0 # 48 THEN 10 ELSE IF x = 120 THEN 16 ELSE IF x = 98 THEN 2 ELSE 8
              p1   == IF c0 # 48 THEN p ELSE IF x \in {120, 111, 98} THEN p + 2 ELSE p + 1
          IN /\ p' = DigitsEnd(p1, base)
             /\ st' = [NoSt EXCEPT !.s0 = p, !.k = "INT", !.ph = 1, !.base = base]
  /\ pc' = "num"
  /\ UNCHANGED <<src, nlex, dia, cm, insertSemi, nParen, unit, nl, out>>

FracHere == st.ph = 1 /\ c0 = DOT
ExpHere  == st.ph <= 2 /\ ~FracHere /\ Lower(c0) \in {101, 112}                  \* e p
SufHere  == st.ph <= 3 /\ ~FracHere /\ ~ExpHere /\ (IF HasUnitSuffix THEN Letter(c0) ELSE c0 = 105)

\* scanNumber: fractional part
NumFraction == /\ pc = "num" /\ FracHere
               /\ p' = DigitsEnd(p + 1, st.base)
               /\ st' = [st EXCEPT !.k = "FLOAT", !.ph = 2]
               /\ UNCHANGED <<src, nlex, dia, cm, pc, insertSemi, nParen, unit, nl, out>>
\* scanNumber: exponent
NumExponent == /\ pc = "num" /\ ExpHere
               /\ LET p1 == IF Ch(p + 1) \in {PLUS, MINUS} THEN p + 2 ELSE p + 1
                  IN p' = DigitsEnd(p1, 10)
               /\ st' = [st EXCEPT !.k = "FLOAT", !.ph = 3]
               /\ UNCHANGED <<src, nlex, dia, cm, pc, insertSemi, nParen, unit, nl, out>>
\* scanNumber: suffix.  go: 'i' only.  xgo/tpl: an identifier; "i" -> IMAG, "r" -> RAT, else pending unit
NumSuffix == /\ pc = "num" /\ SufHere
             /\ IF ~HasUnitSuffix
                THEN /\ p' = p + 1 /\ st' = [st EXCEPT !.k = "IMAG", !.ph = 4] /\ unit' = unit
                ELSE LET e == IdentEnd(p)  id == Sub(p, e) IN
                     /\ p' = e
                     /\ IF id = <<105>> THEN st' = [st EXCEPT !.k = "IMAG", !.ph = 4] /\ unit' = unit
                        ELSE IF id = <<114>> THEN st' = [st EXCEPT !.k = "RAT", !.ph = 4] /\ unit' = unit
                        ELSE st' = [st EXCEPT !.ph = 4, !.le = p] /\ unit' = <<p - 1, e - 1>>
             /\ UNCHANGED <<src, nlex, dia, cm, pc, insertSemi, nParen, nl, out>>
\* scanNumber: return (literal excludes the unit)
NumEmit == /\ pc = "num" /\ ~FracHere /\ ~ExpHere /\ ~SufHere
           /\ LET e == IF st.le # 0 THEN st.le ELSE p
              IN out' = Append(out, Tok(st.k, st.s0, e, Sub(st.s0, e)))
           /\ insertSemi' = TRUE /\ pc' = "scan" /\ st' = NoSt
           /\ UNCHANGED <<src, nlex, dia, cm, p, nParen, unit, nl>>

\* scanner.go: Scan, case '"' and '\'' -- opening quote consumed
StrStart == /\ Scanning /\ c0 \in {DQ, SQ}
            /\ p' = p + 1 /\ pc' = "str"
            /\ st' = [NoSt EXCEPT !.s0 = p, !.k = (IF c0 = DQ THEN "STRING" ELSE "CHAR"), !.q = c0, !.le = p]
            /\ UNCHANGED <<src, nlex, dia, cm, insertSemi, nParen, unit, nl, out>>
\* scanString / scanRune loop: ordinary characters
StrBody == /\ pc = "str" /\ c0 \notin {st.q, BSL, NL, EOFCH}
           /\ LET Ok(c) == c \notin {st.q, BSL, NL} IN p' = RunEnd(p, Ok)
           /\ UNCHANGED <<src, nlex, dia, cm, pc, insertSemi, nParen, unit, nl, st, out>>
\* scanString / scanRune loop: backslash + scanEscape
StrEscape == /\ pc = "str" /\ c0 = BSL
             /\ p' = p + 1 + EscLen(p + 1, st.q)
             /\ UNCHANGED <<src, nlex, dia, cm, pc, insertSemi, nParen, unit, nl, st, out>>
\* closing quote / not terminated (newline or EOF: nothing consumed).  The literal of a prefixed string
\* starts at the quote (st.le), its offset is the prefix's.
StrEnd == /\ pc = "str" /\ c0 \in {st.q, NL, EOFCH}
          /\ LET e == IF c0 = st.q THEN p + 1 ELSE p IN
               /\ p' = e
               /\ out' = Append(out, Tok(st.k, st.s0, e, Sub(st.le, e)))
          /\ insertSemi' = TRUE /\ pc' = "scan" /\ st' = NoSt
          /\ UNCHANGED <<src, nlex, dia, cm, nParen, unit, nl>>

\* scanner.go: scanRawString
RawString == /\ Scanning /\ c0 = BQ
             /\ LET Ok(c) == c # BQ
                    j == RunEnd(p + 1, Ok)
                    e == IF j <= Len(src) THEN j + 1 ELSE j
                IN /\ p' = e
                   /\ out' = Append(out, Tok("STRING", p, e, RawStringLit(Sub(p, e))))
             /\ insertSemi' = TRUE
             /\ UNCHANGED <<src, nlex, dia, cm, pc, nParen, unit, nl, st>>

\* Scan, case -1
EofSemi == /\ Scanning /\ c0 = EOFCH /\ insertSemi
           /\ out' = Append(out, AutoSemi(p)) /\ insertSemi' = FALSE /\ nParen' = 0
           /\ UNCHANGED <<src, nlex, dia, cm, p, pc, unit, nl, st>>
Eof     == /\ Scanning /\ c0 = EOFCH /\ ~insertSemi
           /\ pc' = "done"
           /\ UNCHANGED <<src, nlex, dia, cm, p, insertSemi, nParen, unit, nl, st, out>>
\* Scan, case '\n' (only reached with insertSemi set)
NewlineSemi == /\ Scanning /\ c0 = NL /\ insertSemi
               /\ out' = Append(out, AutoSemi(p)) /\ p' = p + 1 /\ insertSemi' = FALSE /\ nParen' = 0
               /\ UNCHANGED <<src, nlex, dia, cm, pc, unit, nl, st>>

\* Comments ------------------------------------------------------------------
SlashComment == c0 = SL /\ Ch(p + 1) \in {SL, STAR}
\* extent and raw end of the comment starting at p
SlashEnd == IF Ch(p + 1) = SL THEN LineEnd(p + 2) ELSE BlockClose(p + 2)
SharpEnd == IF SharpBlock /\ Ch(p + 1) = STAR THEN BlockClose(p + 2)
            ELSE IF SharpSkipsOne THEN (IF p + 1 > Len(src) THEN p + 1 ELSE LineEnd(p + 2))
            ELSE LineEnd(p + 1)
\* xgo `#` style: the first character after # is not looked at, so a \r there is not counted
SharpLit(b) == IF dia = "tpl" THEN b ELSE CommentLit(b)

\* scanner.go (xgo, tpl): comment after a token that wants a semicolon and findLineEnd() is true:
\* the ';' comes first, at the comment's offset; the comment is re-scanned by the next call
SemiBeforeSlash == /\ Scanning /\ SlashComment /\ SemiBeforeComment /\ insertSemi /\ FindLineEnd(p + 1)
                   /\ out' = Append(out, AutoSemi(p)) /\ insertSemi' = FALSE /\ nParen' = 0
                   /\ UNCHANGED <<src, nlex, dia, cm, p, pc, unit, nl, st>>
SemiBeforeSharp == /\ Scanning /\ c0 = SHARP /\ HasSharpComment /\ insertSemi
                   /\ out' = Append(out, AutoSemi(p)) /\ insertSemi' = FALSE /\ nParen' = 0
                   /\ UNCHANGED <<src, nlex, dia, cm, p, pc, unit, nl, st>>
\* xgo, tpl: scanComment; COMMENT token or skipped; insertSemi is cleared either way
OldComment == /\ Scanning /\ SemiBeforeComment
              /\ \/ SlashComment /\ ~(insertSemi /\ FindLineEnd(p + 1))
                 \/ c0 = SHARP /\ HasSharpComment /\ ~insertSemi
              /\ LET e == IF c0 = SL THEN SlashEnd ELSE SharpEnd
                     l == IF c0 = SL THEN CommentLit(Sub(p, e)) ELSE SharpLit(Sub(p, e))
                 IN /\ p' = e
                    /\ out' = IF cm THEN Append(out, Tok("COMMENT", p, e, l)) ELSE out
              /\ insertSemi' = FALSE
              /\ UNCHANGED <<src, nlex, dia, cm, pc, nParen, unit, nl, st>>
\* go >= 1.20: the comment is scanned first; a newline inside a /* */ comment after a semicolon-wanting
\* token is remembered in nlPos; otherwise insertSemi survives the comment
GoComment == /\ Scanning /\ ~SemiBeforeComment /\ SlashComment
             /\ LET e == SlashEnd
                    n == IF Ch(p + 1) = STAR THEN FirstNL(p + 2, e) ELSE 0
                IN /\ p' = e
                   /\ out' = IF cm THEN Append(out, Tok("COMMENT", p, e, CommentLit(Sub(p, e)))) ELSE out
                   /\ IF insertSemi /\ n # 0 THEN nl' = n - 1 /\ insertSemi' = FALSE
                      ELSE nl' = nl /\ insertSemi' = insertSemi
             /\ UNCHANGED <<src, nlex, dia, cm, pc, nParen, unit, st>>

\* Operators ----------------------------------------------------------------
\* Scan's operator switch as a function of the characters at p: [k kind, n length, semi insertSemi]
Op(k, n, semi) == [k |-> k, n |-> n, semi |-> semi]
Sw2(t0, t1) == IF Ch(p + 1) = EQ THEN Op(t1, 2, FALSE) ELSE Op(t0, 1, FALSE)
Sw3(t0, t1, c2, t2, semi2) == IF Ch(p + 1) = EQ THEN Op(t1, 2, FALSE)
                              ELSE IF Ch(p + 1) = c2 THEN Op(t2, 2, semi2) ELSE Op(t0, 1, FALSE)
Sw4(t0, t1, c2, t2, t3) == IF Ch(p + 1) = EQ THEN Op(t1, 2, FALSE)
                           ELSE IF Ch(p + 1) = c2 THEN (IF Ch(p + 2) = EQ THEN Op(t3, 3, FALSE) ELSE Op(t2, 2, FALSE))
                           ELSE Op(t0, 1, FALSE)
NoOp == Op("", 0, FALSE)
OpAt ==
  CASE c0 = COLON -> Sw2(":", ":=")
    [] c0 = DOT   -> IF Ch(p + 1) = DOT /\ Ch(p + 2) = DOT THEN Op("...", 3, EllipsisSemi /\ nParen = 0) ELSE Op(".", 1, FALSE)
    [] c0 = COMMA -> Op(",", 1, FALSE)
    [] c0 = SEMI  -> Op(";", 1, FALSE)
    [] c0 = LPAR  -> Op("(", 1, FALSE)
    [] c0 = RPAR  -> Op(")", 1, TRUE)
    [] c0 = LBRK  -> Op("[", 1, FALSE)
    [] c0 = RBRK  -> Op("]", 1, TRUE)
    [] c0 = LBRC  -> Op("{", 1, FALSE)
    [] c0 = RBRC  -> Op("}", 1, TRUE)
    [] c0 = PLUS  -> Sw3("+", "+=", PLUS, "++", TRUE)
    [] c0 = MINUS -> IF HasArrows /\ Ch(p + 1) = GT THEN Op("->", 2, FALSE) ELSE Sw3("-", "-=", MINUS, "--", TRUE)
    [] c0 = STAR  -> IF HasPow THEN Sw3("*", "*=", STAR, "**", FALSE) ELSE Sw2("*", "*=")
    [] c0 = SL    -> Sw2("/", "/=")                                   \* not a comment (guarded by the action)
    [] c0 = PCT   -> Sw2("%", "%=")
    [] c0 = CARET -> Sw2("^", "^=")
    [] c0 = LT    -> IF Ch(p + 1) = MINUS THEN Op("<-", 2, FALSE)
                     ELSE IF HasArrows /\ Ch(p + 1) = GT THEN Op("<>", 2, FALSE)
                     ELSE Sw4("<", "<=", LT, "<<", "<<=")
    [] c0 = GT    -> Sw4(">", ">=", GT, ">>", ">>=")
    [] c0 = EQ    -> IF HasArrows THEN Sw3("=", "==", GT, "=>", FALSE) ELSE Sw2("=", "==")
    [] c0 = BANG  -> IF Ch(p + 1) = EQ THEN Op("!=", 2, FALSE) ELSE Op("!", 1, BangInsertsSemi)
    [] c0 = AMP   -> IF Ch(p + 1) = CARET THEN (IF Ch(p + 2) = EQ THEN Op("&^=", 3, FALSE) ELSE Op("&^", 2, FALSE))
                     ELSE Sw3("&", "&=", AMP, "&&", FALSE)
    [] c0 = BAR   -> Sw3("|", "|=", BAR, "||", FALSE)
    [] c0 = QM /\ HasQuestionEnv     -> Op("?", 1, TRUE)
    [] c0 = DOLLAR /\ HasQuestionEnv -> Op("$", 1, FALSE)
    [] c0 = TILDE /\ HasTilde        -> Op("~", 1, FALSE)
    [] c0 = AT /\ HasAt              -> Op("@", 1, FALSE)
    [] OTHER -> NoOp

\* Scan: the operator / delimiter arms
ScanOperator ==
  /\ Scanning /\ ~SlashComment /\ ~(c0 = DOT /\ Decimal(Ch(p + 1))) /\ OpAt.n > 0
  /\ LET o == OpAt IN
       /\ p' = p + o.n
       /\ out' = Append(out, Tok(o.k, p, p + o.n, IF o.k = ";" THEN <<SEMI>> ELSE <<>>))
       /\ insertSemi' = o.semi
       /\ nParen' = IF dia = "go" THEN nParen
                    ELSE IF o.k = "(" THEN nParen + 1 ELSE IF o.k = ")" THEN nParen - 1
                    ELSE IF o.k = ";" THEN 0 ELSE nParen
  /\ UNCHANGED <<src, nlex, dia, cm, pc, unit, nl, st>>

\* Scan: default arm -- ILLEGAL character; insertSemi is preserved
Illegal ==
  /\ Scanning /\ c0 # EOFCH /\ ~IsWS(c0) /\ c0 # NL
  /\ ~Letter(c0) /\ ~Decimal(c0) /\ c0 \notin {DQ, SQ, BQ}
  /\ ~SlashComment /\ ~(c0 = SHARP /\ HasSharpComment) /\ OpAt.n = 0
  /\ p' = p + 1
  /\ out' = Append(out, Tok("ILLEGAL", p, p + 1, <<Rune(c0)>>))
  /\ UNCHANGED <<src, nlex, dia, cm, pc, insertSemi, nParen, unit, nl, st>>

Next == \/ GenChar \/ GenLexeme \/ Start
        \/ GoNlSemi \/ SkipWS \/ UnitTok \/ ScanIdent
        \/ NumStart \/ NumFraction \/ NumExponent \/ NumSuffix \/ NumEmit
        \/ StrStart \/ StrBody \/ StrEscape \/ StrEnd \/ RawString
        \/ EofSemi \/ Eof \/ NewlineSemi
        \/ SemiBeforeSlash \/ SemiBeforeSharp \/ OldComment \/ GoComment
        \/ ScanOperator \/ Illegal
Spec == Init /\ [][Next]_vars /\ WF_vars(Next)

-----------------------------------------------------------------------------
\* The properties of C15, stated on the model.
N == Len(src)
HasExtent(t) == t.e > t.s
RemoveCR(b) == SelectSeq(b, LAMBDA c : c # CR)
TextKinds == {"IDENT", "INT", "FLOAT", "IMAG", "RAT", "CHAR", "STRING", "UNIT", "COMMENT"}

TypeOK == /\ p \in 1..(N + 1) /\ pc \in {"gen", "scan", "num", "str", "done"}
          /\ insertSemi \in BOOLEAN /\ nParen \in (0 - N)..N /\ nl \in -1..N
          /\ \A i \in 1..Len(out) : out[i].s \in 0..N /\ out[i].e \in out[i].s..N

\* exactly one action is enabled in every non-final state: the model is a deterministic machine
Deterministic == pc \notin {"gen", "done"} =>
   Cardinality({ a \in 1..23 :
       CASE a = 1 -> ENABLED GoNlSemi [] a = 2 -> ENABLED SkipWS [] a = 3 -> ENABLED UnitTok [] a = 4 -> ENABLED ScanIdent
         [] a = 5 -> ENABLED NumStart [] a = 6 -> ENABLED NumFraction [] a = 7 -> ENABLED NumExponent
         [] a = 8 -> ENABLED NumSuffix [] a = 9 -> ENABLED NumEmit [] a = 10 -> ENABLED StrStart
         [] a = 11 -> ENABLED StrBody [] a = 12 -> ENABLED StrEscape [] a = 13 -> ENABLED StrEnd
         [] a = 14 -> ENABLED RawString [] a = 15 -> ENABLED EofSemi [] a = 16 -> ENABLED Eof
         [] a = 17 -> ENABLED NewlineSemi [] a = 18 -> ENABLED SemiBeforeSlash [] a = 19 -> ENABLED SemiBeforeSharp
         [] a = 20 -> ENABLED OldComment [] a = 21 -> ENABLED GoComment [] a = 22 -> ENABLED ScanOperator
         [] a = 23 -> ENABLED Illegal }) = 1

\* Progress: a well-founded measure decreases with every step (8 per unread character, < 8 for the flags),
\* hence at most 8*(N+1) steps, and every token-returning step consumes a character or clears a flag.
Measure == 8 * (N + 1 - p) + (IF pc = "done" THEN 0 ELSE 1) + (IF pc \in {"num", "str"} THEN 3 ELSE 0)
           + (IF insertSemi THEN 1 ELSE 0) + (IF unit # <<>> THEN 1 ELSE 0) + (IF nl >= 0 THEN 1 ELSE 0)
Progress == [][pc # "gen" => Measure' < Measure]_vars
\* number of tokens <= characters consumed + inserted semicolons
Autos == Cardinality({ i \in 1..Len(out) : out[i].k = ";auto" })
TokenBound == Len(out) <= (p - 1) + Autos
Termination == <>(pc = "done")

\* offsets never decrease, and strictly increase from a token with source extent to the next token
\* (OffsetsMonotone, TextExact and Partition are evaluated in the final state of a behaviour: `out` only
\* grows by Append, so the final stream contains every token ever returned.)
OffsetsMonotone == pc = "done" => \A i \in 1..(Len(out) - 1) :
   /\ out[i].s <= out[i + 1].s
   /\ HasExtent(out[i]) /\ HasExtent(out[i + 1]) => out[i].s < out[i + 1].s

\* the text of every token is the source at its offset: literally for operators, keywords and `;`,
\* carriage returns aside for the classes whose literal is CR-normalised.  The literal of a prefixed
\* string (c"..", py"..") is the source text after the prefix (documented deviation of the xgo dialect).
TextOf(t) == SubSeq(src, t.s + 1, t.e)
TextExact == pc = "done" => \A i \in 1..Len(out) : LET t == out[i] IN
   CASE t.k \in TextKinds -> RemoveCR(t.l) = RemoveCR(TextOf(t))
     [] t.k \in {"CSTRING", "PYSTRING"} -> t.l = SubSeq(src, t.e - Len(t.l) + 1, t.e)
     [] t.k \in OpKinds -> TextOf(t) = OpSpelling(t.k)
     [] t.k \in {kw[1] : kw \in KwTable} -> t.l = TextOf(t) /\ KwName(t.l) = t.k
     [] t.k = "ILLEGAL" -> t.e = t.s + 1 /\ t.l = <<Rune(src[t.s + 1])>>
     [] t.k = ";auto" -> t.e = t.s
     [] OTHER -> FALSE

\* with comment scanning on: extents are disjoint, in order, and cover every non-blank character
Disjoint == \A i \in 1..Len(out) : \A j \in (i + 1)..Len(out) :
               HasExtent(out[i]) /\ HasExtent(out[j]) => out[i].e <= out[j].s
Covered(i) == \E k \in 1..Len(out) : out[k].s < i /\ i <= out[k].e
IsBlankSym(i) == src[i] \in {SP, TAB, CR, NL} \/ (i = 1 /\ src[i] = BOM)
Partition == /\ pc = "done" => Disjoint
             /\ (pc = "done" /\ cm) => \A i \in 1..N : ~IsBlankSym(i) => Covered(i)
             /\ out # <<>> => out[Len(out)].e < p              \* nothing is tokenised ahead of the reading position

Export == pc = "done" => Emit([src |-> src, d |-> dia, c |-> cm, g |-> Gen, out |-> out])
=============================================================================
