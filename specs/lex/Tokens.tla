------------------------------- MODULE Tokens -------------------------------
(* C33 -- token spellings round-trip through the scanners.                                      *)
(*                                                                                             *)
(* The two token tables (token/token.go and tpl/token/token.go) as TLA+ constants: name,        *)
(* spelling, class, binary precedence, isOperator.  The module extends the scanner model: for   *)
(* every operator and keyword of a table, TLC runs the model of the table's scanner (dialect    *)
(* "xgo" resp. "tpl") on the spelling alone and records whether the result is exactly that      *)
(* token, optionally followed by the inserted semicolon (`rt`); the table-level consistency     *)
(* conditions are invariants.  One CASE record per token is exported; the harness compares the  *)
(* table with the code (DRIFT) and evaluates the statement on the real scanners and the real    *)
(* String / Len / Precedence / IsOperator (oracle S).                                           *)
EXTENDS Scanner

XGoTable == <<
  [n |-> "ILLEGAL", sp |-> "ILLEGAL", cls |-> "special", prec |-> 0, op |-> FALSE],
  [n |-> "EOF", sp |-> "EOF", cls |-> "special", prec |-> 0, op |-> FALSE],
  [n |-> "COMMENT", sp |-> "COMMENT", cls |-> "special", prec |-> 0, op |-> FALSE],
  [n |-> "IDENT", sp |-> "IDENT", cls |-> "literal", prec |-> 0, op |-> FALSE],
  [n |-> "INT", sp |-> "INT", cls |-> "literal", prec |-> 0, op |-> FALSE],
  [n |-> "FLOAT", sp |-> "FLOAT", cls |-> "literal", prec |-> 0, op |-> FALSE],
  [n |-> "IMAG", sp |-> "IMAG", cls |-> "literal", prec |-> 0, op |-> FALSE],
  [n |-> "CHAR", sp |-> "CHAR", cls |-> "literal", prec |-> 0, op |-> FALSE],
  [n |-> "STRING", sp |-> "STRING", cls |-> "literal", prec |-> 0, op |-> FALSE],
  [n |-> "CSTRING", sp |-> "CSTRING", cls |-> "literal", prec |-> 0, op |-> FALSE],
  [n |-> "PYSTRING", sp |-> "PYSTRING", cls |-> "literal", prec |-> 0, op |-> FALSE],
  [n |-> "RAT", sp |-> "RAT", cls |-> "literal", prec |-> 0, op |-> FALSE],
  [n |-> "UNIT", sp |-> "UNIT", cls |-> "literal", prec |-> 0, op |-> FALSE],
  [n |-> "ADD", sp |-> "+", cls |-> "operator", prec |-> 4, op |-> TRUE],
  [n |-> "SUB", sp |-> "-", cls |-> "operator", prec |-> 4, op |-> TRUE],
  [n |-> "MUL", sp |-> "*", cls |-> "operator", prec |-> 5, op |-> TRUE],
  [n |-> "QUO", sp |-> "/", cls |-> "operator", prec |-> 5, op |-> TRUE],
  [n |-> "REM", sp |-> "%", cls |-> "operator", prec |-> 5, op |-> TRUE],
  [n |-> "AND", sp |-> "&", cls |-> "operator", prec |-> 5, op |-> TRUE],
  [n |-> "OR", sp |-> "|", cls |-> "operator", prec |-> 4, op |-> TRUE],
  [n |-> "XOR", sp |-> "^", cls |-> "operator", prec |-> 4, op |-> TRUE],
  [n |-> "SHL", sp |-> "<<", cls |-> "operator", prec |-> 5, op |-> TRUE],
  [n |-> "SHR", sp |-> ">>", cls |-> "operator", prec |-> 5, op |-> TRUE],
  [n |-> "AND_NOT", sp |-> "&^", cls |-> "operator", prec |-> 5, op |-> TRUE],
  [n |-> "ADD_ASSIGN", sp |-> "+=", cls |-> "operator", prec |-> 0, op |-> TRUE],
  [n |-> "SUB_ASSIGN", sp |-> "-=", cls |-> "operator", prec |-> 0, op |-> TRUE],
  [n |-> "MUL_ASSIGN", sp |-> "*=", cls |-> "operator", prec |-> 0, op |-> TRUE],
  [n |-> "QUO_ASSIGN", sp |-> "/=", cls |-> "operator", prec |-> 0, op |-> TRUE],
  [n |-> "REM_ASSIGN", sp |-> "%=", cls |-> "operator", prec |-> 0, op |-> TRUE],
  [n |-> "AND_ASSIGN", sp |-> "&=", cls |-> "operator", prec |-> 0, op |-> TRUE],
  [n |-> "OR_ASSIGN", sp |-> "|=", cls |-> "operator", prec |-> 0, op |-> TRUE],
  [n |-> "XOR_ASSIGN", sp |-> "^=", cls |-> "operator", prec |-> 0, op |-> TRUE],
  [n |-> "SHL_ASSIGN", sp |-> "<<=", cls |-> "operator", prec |-> 0, op |-> TRUE],
  [n |-> "SHR_ASSIGN", sp |-> ">>=", cls |-> "operator", prec |-> 0, op |-> TRUE],
  [n |-> "AND_NOT_ASSIGN", sp |-> "&^=", cls |-> "operator", prec |-> 0, op |-> TRUE],
  [n |-> "LAND", sp |-> "&&", cls |-> "operator", prec |-> 2, op |-> TRUE],
  [n |-> "LOR", sp |-> "||", cls |-> "operator", prec |-> 1, op |-> TRUE],
  [n |-> "ARROW", sp |-> "<-", cls |-> "operator", prec |-> 0, op |-> TRUE],
  [n |-> "INC", sp |-> "++", cls |-> "operator", prec |-> 0, op |-> TRUE],
  [n |-> "DEC", sp |-> "--", cls |-> "operator", prec |-> 0, op |-> TRUE],
  [n |-> "EQL", sp |-> "==", cls |-> "operator", prec |-> 3, op |-> TRUE],
  [n |-> "LSS", sp |-> "<", cls |-> "operator", prec |-> 3, op |-> TRUE],
  [n |-> "GTR", sp |-> ">", cls |-> "operator", prec |-> 3, op |-> TRUE],
  [n |-> "ASSIGN", sp |-> "=", cls |-> "operator", prec |-> 0, op |-> TRUE],
  [n |-> "NOT", sp |-> "!", cls |-> "operator", prec |-> 0, op |-> TRUE],
  [n |-> "NEQ", sp |-> "!=", cls |-> "operator", prec |-> 3, op |-> TRUE],
  [n |-> "LEQ", sp |-> "<=", cls |-> "operator", prec |-> 3, op |-> TRUE],
  [n |-> "GEQ", sp |-> ">=", cls |-> "operator", prec |-> 3, op |-> TRUE],
  [n |-> "DEFINE", sp |-> ":=", cls |-> "operator", prec |-> 0, op |-> TRUE],
  [n |-> "ELLIPSIS", sp |-> "...", cls |-> "operator", prec |-> 0, op |-> TRUE],
  [n |-> "LPAREN", sp |-> "(", cls |-> "operator", prec |-> 0, op |-> TRUE],
  [n |-> "LBRACK", sp |-> "[", cls |-> "operator", prec |-> 0, op |-> TRUE],
  [n |-> "LBRACE", sp |-> "{", cls |-> "operator", prec |-> 0, op |-> TRUE],
  [n |-> "COMMA", sp |-> ",", cls |-> "operator", prec |-> 0, op |-> TRUE],
  [n |-> "PERIOD", sp |-> ".", cls |-> "operator", prec |-> 0, op |-> TRUE],
  [n |-> "RPAREN", sp |-> ")", cls |-> "operator", prec |-> 0, op |-> TRUE],
  [n |-> "RBRACK", sp |-> "]", cls |-> "operator", prec |-> 0, op |-> TRUE],
  [n |-> "RBRACE", sp |-> "}", cls |-> "operator", prec |-> 0, op |-> TRUE],
  [n |-> "SEMICOLON", sp |-> ";", cls |-> "operator", prec |-> 0, op |-> TRUE],
  [n |-> "COLON", sp |-> ":", cls |-> "operator", prec |-> 0, op |-> TRUE],
  [n |-> "QUESTION", sp |-> "?", cls |-> "operator", prec |-> 0, op |-> TRUE],
  [n |-> "DRARROW", sp |-> "=>", cls |-> "operator", prec |-> 0, op |-> TRUE],
  [n |-> "SRARROW", sp |-> "->", cls |-> "operator", prec |-> 3, op |-> TRUE],
  [n |-> "BIDIARROW", sp |-> "<>", cls |-> "operator", prec |-> 3, op |-> TRUE],
  [n |-> "ENV", sp |-> "$", cls |-> "operator", prec |-> 0, op |-> TRUE],
  [n |-> "TILDE", sp |-> "~", cls |-> "operator", prec |-> 0, op |-> TRUE],
  [n |-> "BREAK", sp |-> "break", cls |-> "keyword", prec |-> 0, op |-> FALSE],
  [n |-> "CASE", sp |-> "case", cls |-> "keyword", prec |-> 0, op |-> FALSE],
  [n |-> "CHAN", sp |-> "chan", cls |-> "keyword", prec |-> 0, op |-> FALSE],
  [n |-> "CONST", sp |-> "const", cls |-> "keyword", prec |-> 0, op |-> FALSE],
  [n |-> "CONTINUE", sp |-> "continue", cls |-> "keyword", prec |-> 0, op |-> FALSE],
  [n |-> "DEFAULT", sp |-> "default", cls |-> "keyword", prec |-> 0, op |-> FALSE],
  [n |-> "DEFER", sp |-> "defer", cls |-> "keyword", prec |-> 0, op |-> FALSE],
  [n |-> "ELSE", sp |-> "else", cls |-> "keyword", prec |-> 0, op |-> FALSE],
  [n |-> "FALLTHROUGH", sp |-> "fallthrough", cls |-> "keyword", prec |-> 0, op |-> FALSE],
  [n |-> "FOR", sp |-> "for", cls |-> "keyword", prec |-> 0, op |-> FALSE],
  [n |-> "FUNC", sp |-> "func", cls |-> "keyword", prec |-> 0, op |-> FALSE],
  [n |-> "GO", sp |-> "go", cls |-> "keyword", prec |-> 0, op |-> FALSE],
  [n |-> "GOTO", sp |-> "goto", cls |-> "keyword", prec |-> 0, op |-> FALSE],
  [n |-> "IF", sp |-> "if", cls |-> "keyword", prec |-> 0, op |-> FALSE],
  [n |-> "IMPORT", sp |-> "import", cls |-> "keyword", prec |-> 0, op |-> FALSE],
  [n |-> "INTERFACE", sp |-> "interface", cls |-> "keyword", prec |-> 0, op |-> FALSE],
  [n |-> "MAP", sp |-> "map", cls |-> "keyword", prec |-> 0, op |-> FALSE],
  [n |-> "PACKAGE", sp |-> "package", cls |-> "keyword", prec |-> 0, op |-> FALSE],
  [n |-> "RANGE", sp |-> "range", cls |-> "keyword", prec |-> 0, op |-> FALSE],
  [n |-> "RETURN", sp |-> "return", cls |-> "keyword", prec |-> 0, op |-> FALSE],
  [n |-> "SELECT", sp |-> "select", cls |-> "keyword", prec |-> 0, op |-> FALSE],
  [n |-> "STRUCT", sp |-> "struct", cls |-> "keyword", prec |-> 0, op |-> FALSE],
  [n |-> "SWITCH", sp |-> "switch", cls |-> "keyword", prec |-> 0, op |-> FALSE],
  [n |-> "TYPE", sp |-> "type", cls |-> "keyword", prec |-> 0, op |-> FALSE],
  [n |-> "VAR", sp |-> "var", cls |-> "keyword", prec |-> 0, op |-> FALSE]
>>
TplTable == <<
  [n |-> "ILLEGAL", sp |-> "ILLEGAL", cls |-> "special", prec |-> 0, op |-> FALSE],
  [n |-> "EOF", sp |-> "EOF", cls |-> "special", prec |-> 0, op |-> FALSE],
  [n |-> "COMMENT", sp |-> "COMMENT", cls |-> "special", prec |-> 0, op |-> FALSE],
  [n |-> "IDENT", sp |-> "IDENT", cls |-> "literal", prec |-> 0, op |-> FALSE],
  [n |-> "INT", sp |-> "INT", cls |-> "literal", prec |-> 0, op |-> FALSE],
  [n |-> "FLOAT", sp |-> "FLOAT", cls |-> "literal", prec |-> 0, op |-> FALSE],
  [n |-> "IMAG", sp |-> "IMAG", cls |-> "literal", prec |-> 0, op |-> FALSE],
  [n |-> "CHAR", sp |-> "CHAR", cls |-> "literal", prec |-> 0, op |-> FALSE],
  [n |-> "STRING", sp |-> "STRING", cls |-> "literal", prec |-> 0, op |-> FALSE],
  [n |-> "RAT", sp |-> "RAT", cls |-> "literal", prec |-> 0, op |-> FALSE],
  [n |-> "UNIT", sp |-> "UNIT", cls |-> "literal", prec |-> 0, op |-> FALSE],
  [n |-> "ADD", sp |-> "+", cls |-> "operator", prec |-> 0, op |-> TRUE],
  [n |-> "SUB", sp |-> "-", cls |-> "operator", prec |-> 0, op |-> TRUE],
  [n |-> "MUL", sp |-> "*", cls |-> "operator", prec |-> 0, op |-> TRUE],
  [n |-> "QUO", sp |-> "/", cls |-> "operator", prec |-> 0, op |-> TRUE],
  [n |-> "REM", sp |-> "%", cls |-> "operator", prec |-> 0, op |-> TRUE],
  [n |-> "AND", sp |-> "&", cls |-> "operator", prec |-> 0, op |-> TRUE],
  [n |-> "OR", sp |-> "|", cls |-> "operator", prec |-> 0, op |-> TRUE],
  [n |-> "XOR", sp |-> "^", cls |-> "operator", prec |-> 0, op |-> TRUE],
  [n |-> "LT", sp |-> "<", cls |-> "operator", prec |-> 0, op |-> TRUE],
  [n |-> "GT", sp |-> ">", cls |-> "operator", prec |-> 0, op |-> TRUE],
  [n |-> "ASSIGN", sp |-> "=", cls |-> "operator", prec |-> 0, op |-> TRUE],
  [n |-> "NOT", sp |-> "!", cls |-> "operator", prec |-> 0, op |-> TRUE],
  [n |-> "LPAREN", sp |-> "(", cls |-> "operator", prec |-> 0, op |-> TRUE],
  [n |-> "LBRACK", sp |-> "[", cls |-> "operator", prec |-> 0, op |-> TRUE],
  [n |-> "LBRACE", sp |-> "{", cls |-> "operator", prec |-> 0, op |-> TRUE],
  [n |-> "COMMA", sp |-> ",", cls |-> "operator", prec |-> 0, op |-> TRUE],
  [n |-> "PERIOD", sp |-> ".", cls |-> "operator", prec |-> 0, op |-> TRUE],
  [n |-> "RPAREN", sp |-> ")", cls |-> "operator", prec |-> 0, op |-> TRUE],
  [n |-> "RBRACK", sp |-> "]", cls |-> "operator", prec |-> 0, op |-> TRUE],
  [n |-> "RBRACE", sp |-> "}", cls |-> "operator", prec |-> 0, op |-> TRUE],
  [n |-> "SEMICOLON", sp |-> ";", cls |-> "operator", prec |-> 0, op |-> TRUE],
  [n |-> "COLON", sp |-> ":", cls |-> "operator", prec |-> 0, op |-> TRUE],
  [n |-> "QUESTION", sp |-> "?", cls |-> "operator", prec |-> 0, op |-> TRUE],
  [n |-> "TILDE", sp |-> "~", cls |-> "operator", prec |-> 0, op |-> TRUE],
  [n |-> "AT", sp |-> "@", cls |-> "operator", prec |-> 0, op |-> TRUE],
  [n |-> "ENV", sp |-> "$", cls |-> "operator", prec |-> 0, op |-> TRUE],
  [n |-> "SHL", sp |-> "<<", cls |-> "operator", prec |-> 0, op |-> TRUE],
  [n |-> "SHR", sp |-> ">>", cls |-> "operator", prec |-> 0, op |-> TRUE],
  [n |-> "AND_NOT", sp |-> "&^", cls |-> "operator", prec |-> 0, op |-> TRUE],
  [n |-> "ADD_ASSIGN", sp |-> "+=", cls |-> "operator", prec |-> 0, op |-> TRUE],
  [n |-> "SUB_ASSIGN", sp |-> "-=", cls |-> "operator", prec |-> 0, op |-> TRUE],
  [n |-> "MUL_ASSIGN", sp |-> "*=", cls |-> "operator", prec |-> 0, op |-> TRUE],
  [n |-> "QUO_ASSIGN", sp |-> "/=", cls |-> "operator", prec |-> 0, op |-> TRUE],
  [n |-> "REM_ASSIGN", sp |-> "%=", cls |-> "operator", prec |-> 0, op |-> TRUE],
  [n |-> "AND_ASSIGN", sp |-> "&=", cls |-> "operator", prec |-> 0, op |-> TRUE],
  [n |-> "OR_ASSIGN", sp |-> "|=", cls |-> "operator", prec |-> 0, op |-> TRUE],
  [n |-> "XOR_ASSIGN", sp |-> "^=", cls |-> "operator", prec |-> 0, op |-> TRUE],
  [n |-> "SHL_ASSIGN", sp |-> "<<=", cls |-> "operator", prec |-> 0, op |-> TRUE],
  [n |-> "SHR_ASSIGN", sp |-> ">>=", cls |-> "operator", prec |-> 0, op |-> TRUE],
  [n |-> "AND_NOT_ASSIGN", sp |-> "&^=", cls |-> "operator", prec |-> 0, op |-> TRUE],
  [n |-> "LAND", sp |-> "&&", cls |-> "operator", prec |-> 0, op |-> TRUE],
  [n |-> "LOR", sp |-> "||", cls |-> "operator", prec |-> 0, op |-> TRUE],
  [n |-> "ARROW", sp |-> "<-", cls |-> "operator", prec |-> 0, op |-> TRUE],
  [n |-> "INC", sp |-> "++", cls |-> "operator", prec |-> 0, op |-> TRUE],
  [n |-> "DEC", sp |-> "--", cls |-> "operator", prec |-> 0, op |-> TRUE],
  [n |-> "EQ", sp |-> "==", cls |-> "operator", prec |-> 0, op |-> TRUE],
  [n |-> "NE", sp |-> "!=", cls |-> "operator", prec |-> 0, op |-> TRUE],
  [n |-> "LE", sp |-> "<=", cls |-> "operator", prec |-> 0, op |-> TRUE],
  [n |-> "GE", sp |-> ">=", cls |-> "operator", prec |-> 0, op |-> TRUE],
  [n |-> "DEFINE", sp |-> ":=", cls |-> "operator", prec |-> 0, op |-> TRUE],
  [n |-> "ELLIPSIS", sp |-> "...", cls |-> "operator", prec |-> 0, op |-> TRUE],
  [n |-> "DRARROW", sp |-> "=>", cls |-> "operator", prec |-> 0, op |-> TRUE],
  [n |-> "SRARROW", sp |-> "->", cls |-> "operator", prec |-> 0, op |-> TRUE],
  [n |-> "BIDIARROW", sp |-> "<>", cls |-> "operator", prec |-> 0, op |-> TRUE],
  [n |-> "POW", sp |-> "**", cls |-> "operator", prec |-> 0, op |-> TRUE]
>>

Table(d) == IF d = "xgo" THEN XGoTable ELSE TplTable
Scannable(e) == e.cls \in {"operator", "keyword"}          \* the tokens the property quantifies over
Spell(e) == IF e.cls = "keyword" THEN (CHOOSE kw \in KwTable : kw[1] = e.sp)[2] ELSE OpSpelling(e.sp)

\* One behaviour per (table, scannable token): the scanner model runs on the spelling alone.
\* nlex (unused while scanning) remembers which entry was chosen.
TInit == /\ \E d \in {"xgo", "tpl"} : \E i \in 1..Len(Table(d)) :
              /\ Scannable(Table(d)[i])
              /\ dia = d /\ nlex = i /\ src = Spell(Table(d)[i])
         /\ cm = TRUE /\ p = 1 /\ pc = "scan" /\ insertSemi = FALSE /\ nParen = 0
         /\ unit = <<>> /\ nl = -1 /\ st = NoSt /\ out = <<>>
TSpec == TInit /\ [][Next]_vars /\ WF_vars(Next)

Entry == Table(dia)[nlex]
\* the statement on the model: the spelling scans to exactly this token, then (`;`) EOF
RoundTrip == /\ Len(out) \in {1, 2}
             /\ out[1].k = Entry.sp /\ out[1].s = 0 /\ out[1].e = Len(src)
             /\ Len(out) = 2 => out[2].k = ";auto"

-----------------------------------------------------------------------------
\* Table-level consistency (constant formulas, checked once by TLC as invariants).
Idx(d) == { i \in 1..Len(Table(d)) : Scannable(Table(d)[i]) }
SpellingsUnique == \A d \in {"xgo", "tpl"} : \A i, j \in 1..Len(Table(d)) :
                      i # j => Table(d)[i].sp # Table(d)[j].sp /\ Table(d)[i].n # Table(d)[j].n
SpellingsKnown  == \A d \in {"xgo", "tpl"} : \A i \in Idx(d) :
                      IF Table(d)[i].cls = "keyword" THEN \E kw \in KwTable : kw[1] = Table(d)[i].sp
                      ELSE Table(d)[i].sp \in OpKinds
\* every binary operator with a precedence is an operator; precedences are the documented 1..5
PrecImpliesOperator == \A d \in {"xgo", "tpl"} : \A i \in 1..Len(Table(d)) :
                      /\ Table(d)[i].prec \in 0..5
                      /\ Table(d)[i].prec > 0 => Table(d)[i].op /\ Table(d)[i].cls = "operator"
\* the precedence table is total on the binary operators of the language
BinaryOps == {"||", "&&", "==", "!=", "<", "<=", ">", ">=", "->", "<>", "+", "-", "|", "^", "*", "/", "%", "<<", ">>", "&", "&^"}
PrecTotal == \A i \in 1..Len(XGoTable) : (XGoTable[i].prec > 0) <=> (XGoTable[i].sp \in BinaryOps)
KeywordsComplete == { XGoTable[i].sp : i \in { j \in 1..Len(XGoTable) : XGoTable[j].cls = "keyword" } } = { kw[1] : kw \in KwTable }
OperatorsAreOps == \A d \in {"xgo", "tpl"} : \A i \in 1..Len(Table(d)) : (Table(d)[i].cls = "operator") <=> Table(d)[i].op
TableOK == SpellingsUnique /\ SpellingsKnown /\ PrecImpliesOperator /\ PrecTotal /\ KeywordsComplete /\ OperatorsAreOps

TExport == pc = "done" =>
   Emit([tab |-> dia, n |-> Entry.n, sp |-> Entry.sp, cls |-> Entry.cls, prec |-> Entry.prec, op |-> Entry.op,
         src |-> src, out |-> out, rt |-> RoundTrip,
         all |-> [i \in 1..Len(Table(dia)) |-> <<Table(dia)[i].n, Table(dia)[i].sp, Table(dia)[i].cls>>]])
=============================================================================
