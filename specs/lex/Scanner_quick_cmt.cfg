\* C15 quick: every string of length <= 5
\* alphabet: 'a' ')' '/' '*' '#' NL CR SP
SPECIFICATION Spec
CONSTANTS
  Alphabet = {97, 41, 47, 42, 35, 10, 13, 32}
  MinLen = 0
  MaxLen = 5
  Dialects = {"xgo"}
  CommentModes = {TRUE, FALSE}
  InputMode = "chars"
  Gen = "cmt"
INVARIANTS TypeOK TokenBound OffsetsMonotone TextExact Partition Export
PROPERTIES Progress
