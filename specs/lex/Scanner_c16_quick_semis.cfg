\* C16 quick: product xgo x go, every string of length <= 5
\* alphabet: 'a' NL '!' '.' '(' ')' ';' SP
SPECIFICATION Spec
CONSTANTS
  Alphabet = {97, 10, 33, 46, 40, 41, 59, 32}
  MinLen = 0
  MaxLen = 5
  Dialects = {"xgo", "go"}
  CommentModes = {TRUE}
  InputMode = "chars"
  Gen = "go:semis"
INVARIANTS TypeOK TokenBound OffsetsMonotone TextExact Partition Export
PROPERTIES Progress
