\* C15 thorough: every string of length 5..5
\* alphabet: NUL BOM LETTER BADBYTE UDIGIT 'a' '1' SP NL '"' '/' '.'
SPECIFICATION Spec
CONSTANTS
  Alphabet = {0, 65279, 257, 255, 1633, 97, 49, 32, 10, 34, 47, 46}
  MinLen = 5
  MaxLen = 5
  Dialects = {"xgo"}
  CommentModes = {TRUE, FALSE}
  InputMode = "chars"
  Gen = "soup"
INVARIANTS TypeOK TokenBound OffsetsMonotone TextExact Partition Export
PROPERTIES Progress
