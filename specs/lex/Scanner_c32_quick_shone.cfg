\* C32: one shared lexeme x every separator (incl. # comments)
\* alphabet: 
SPECIFICATION Spec
CONSTANTS
  Alphabet = {}
  MinLen = 1
  MaxLen = 1
  Dialects = {"tpl", "xgo"}
  CommentModes = {TRUE, FALSE}
  InputMode = "lexemes"
  Gen = "shone"
INVARIANTS TypeOK TokenBound OffsetsMonotone TextExact Partition Export
PROPERTIES Progress
