\* C15 quick: every string of length <= 4
\* alphabet: '0' '1' '8' '_' '.' 'e' 'x' 'b' '+' 'i'
SPECIFICATION Spec
CONSTANTS
  Alphabet = {48, 49, 56, 95, 46, 101, 120, 98, 43, 105}
  MinLen = 0
  MaxLen = 4
  Dialects = {"xgo"}
  CommentModes = {TRUE}
  InputMode = "chars"
  Gen = "num1"
INVARIANTS TypeOK TokenBound OffsetsMonotone TextExact Partition Export
PROPERTIES Progress
