\* C15 quick: every string of length <= 4
\* alphabet: '+' '-' '<' '>' '=' '!' '&' '^' '|' ':' '.' '*'
SPECIFICATION Spec
CONSTANTS
  Alphabet = {43, 45, 60, 62, 61, 33, 38, 94, 124, 58, 46, 42}
  MinLen = 0
  MaxLen = 4
  Dialects = {"xgo"}
  CommentModes = {TRUE}
  InputMode = "chars"
  Gen = "ops1"
INVARIANTS TypeOK TokenBound OffsetsMonotone TextExact Partition Export
PROPERTIES Progress
