SPECIFICATION Spec
CONSTANTS
  Writers = {"w1"}
  Readers = {"r1"}
  Closers = {"x1"}
  MaxCalls = 1
  PayLen = 2
  BufLen = 2
  StreamLen = 1
  DoneInSel2 = TRUE
  CloseDone = {"r","w"}
  Truncate = 0
  CoarseSelect = FALSE
INVARIANTS WholePayloads SuccessDelivered ReadInOrder ResultToOwner AfterCloseEOF AfterCloseNoIO
PROPERTIES CloseUnblocks CloseReturns
