------------------------------ MODULE Watcher ------------------------------
(* C40 -- x/watcher/changes.go: Changes.FileChanged / Changes.Fetch.          *)
(*                                                                           *)
(* Design spec at lock granularity.  One action per lock operation, critical *)
(* section body, condition-variable operation and call boundary:             *)
(*                                                                           *)
(*   FileChanged(name): dir := path.Dir(name)                                *)
(*        FCLock   p.mutex.Lock()                                            *)
(*        FCRecord n := len(p.changed); p.changed[dir] = none{}              *)
(*        FCUnlock p.mutex.Unlock()                                          *)
(*        FCBcast  [verif gate]  if n == 0 { p.cond.Broadcast() }            *)
(*   Fetch():                                                                *)
(*        FetchLock    p.mutex.Lock()                                        *)
(*        FetchCheck   for len(p.changed) == 0 { p.cond.Wait() }             *)
(*                     (Wait = join the notify list + Unlock, atomically     *)
(*                      w.r.t. Broadcast; FetchRelock = Lock after wake-up)  *)
(*        FetchTake    for dir = range p.changed { delete(..); break }       *)
(*        FetchUnlock  p.mutex.Unlock()                                      *)
(*   EntryDeleted(dir,true) / Ignore(..) -> deleteMod / lookupMod:           *)
(*        AuxLock / AuxUnlock  (take the same mutex, do not touch changed)   *)
(*   EntryDeleted(file,false) = FileChanged(file).                           *)
(*                                                                           *)
(* Directory names map through path.Dir of the reported file: DirOf.         *)
(* The deviations a realistic edit could introduce are named switches        *)
(* (CODE values first): Bcast, IfN, Loop, Delete, NRead.                     *)
(* NRead = "locked": n := len(p.changed) is read under the mutex (FCRecord); *)
(* NRead = "before-lock": it is read before p.mutex.Lock() (FCPreRead), so   *)
(* the broadcast decision may rest on a stale count.                         *)
EXTENDS Naturals, Sequences, FiniteSets, TLC

CONSTANTS Producers,   \* goroutines calling FileChanged
          Consumers,   \* goroutines calling Fetch
          Aux,         \* goroutines calling Ignore / EntryDeleted(dir)
          Files,       \* reported file names
          DirOf,       \* [Files -> directory]  (= path.Dir)
          MaxReports,  \* calls per producer
          MaxFetches,  \* calls per consumer
          MaxAux,      \* calls per aux goroutine
          Bcast,       \* "broadcast" (code) | "signal"
          IfN,         \* "eq0" (code: if n == 0) | "ne0"
          Loop,        \* "for" (code: for len(changed)==0 {Wait}) | "if"
          Delete,      \* TRUE (code: delete(p.changed, dir)) | FALSE
          NRead        \* "locked" (code: n read inside the critical section) | "before-lock"

\* path.Dir on the file names used by the configurations and by the harness.
StdDirOf == [f \in {"a/x.go", "a/y.xgo", "b/x.go", "b/s/z.go", "x.go"} |->
               CASE f = "a/x.go"   -> "a"
                 [] f = "a/y.xgo"  -> "a"
                 [] f = "b/x.go"   -> "b"
                 [] f = "b/s/z.go" -> "b/s"
                 [] f = "x.go"     -> "."]

NoProc == "-"
NoDir  == "-"          \* "no result yet" (never a directory name)
Empty  == ""           \* what Fetch returns when its range loop runs 0 times
Procs  == Producers \cup Consumers \cup Aux
Dirs   == { DirOf[f] : f \in Files }

VARIABLES mutex,     \* holder of p.mutex, or NoProc
          waitset,   \* consumers on p.cond's notify list (parked in Wait)
          changed,   \* p.changed (set of pending directories)
          pc,        \* control state per goroutine
          arg,       \* producer: file being reported
          pn,        \* producer: n read under the lock
          res,       \* consumer: directory taken by the current/last Fetch
          calls,     \* calls started per goroutine (bounds the model)
          \* ---- history (ghost) variables, only read by the properties ----
          rep,       \* [Dirs -> Nat] report critical sections done
          fet,       \* [Dirs \cup {Empty} -> Nat] Fetch results taken
          pend       \* directories reported since they were last fetched

wvars == <<mutex, waitset, changed, pc, arg, pn, res, calls, rep, fet, pend>>

Init == /\ mutex = NoProc /\ waitset = {} /\ changed = {}
        /\ pc = [q \in Procs |-> "idle"]
        /\ arg = [p \in Producers |-> NoDir]
        /\ pn = [p \in Producers |-> 0]
        /\ res = [c \in Consumers |-> NoDir]
        /\ calls = [q \in Procs |-> 0]
        /\ rep = [d \in Dirs |-> 0]
        /\ fet = [d \in Dirs \cup {Empty} |-> 0]
        /\ pend = {}

Goto(q, l) == pc' = [pc EXCEPT ![q] = l]

----------------------------------------------------------------------------
\* FileChanged
FCStart(p, f) == /\ pc[p] = "idle" /\ calls[p] < MaxReports
                 /\ arg' = [arg EXCEPT ![p] = f]
                 /\ calls' = [calls EXCEPT ![p] = @ + 1]
                 /\ Goto(p, IF NRead = "locked" THEN "fc_lock" ELSE "fc_pre")
                 /\ UNCHANGED <<mutex, waitset, changed, pn, res, rep, fet, pend>>
\* only with NRead = "before-lock": n := len(p.changed) without holding the mutex
FCPreRead(p) == /\ pc[p] = "fc_pre"
                /\ pn' = [pn EXCEPT ![p] = Cardinality(changed)]
                /\ Goto(p, "fc_lock")
                /\ UNCHANGED <<mutex, waitset, changed, arg, res, calls, rep, fet, pend>>
FCLock(p) == /\ pc[p] = "fc_lock" /\ mutex = NoProc
             /\ mutex' = p /\ Goto(p, "fc_rec")
             /\ UNCHANGED <<waitset, changed, arg, pn, res, calls, rep, fet, pend>>
FCRecord(p) == /\ pc[p] = "fc_rec"
               /\ LET d == DirOf[arg[p]] IN
                    /\ pn' = IF NRead = "locked" THEN [pn EXCEPT ![p] = Cardinality(changed)] ELSE pn
                    /\ changed' = changed \cup {d}
                    /\ rep' = [rep EXCEPT ![d] = @ + 1]
                    /\ pend' = pend \cup {d}
               /\ Goto(p, "fc_unlock")
               /\ UNCHANGED <<mutex, waitset, arg, res, calls, fet>>
FCUnlock(p) == /\ pc[p] = "fc_unlock"
               /\ mutex' = NoProc /\ Goto(p, "fc_gate")
               /\ UNCHANGED <<waitset, changed, arg, pn, res, calls, rep, fet, pend>>
\* the only internal window of FileChanged: the lock is released, the wake-up not yet sent
WillNotify(p) == IF IfN = "eq0" THEN pn[p] = 0 ELSE pn[p] # 0
FCBcast(p) ==
  /\ pc[p] = "fc_gate"
  /\ IF WillNotify(p) /\ waitset # {}
     THEN IF Bcast = "broadcast"
          THEN /\ waitset' = {}
               /\ pc' = [q \in Procs |-> IF q = p THEN "fc_ret"
                                         ELSE IF q \in waitset THEN "f_relock" ELSE pc[q]]
          ELSE \E w \in waitset :      \* Signal wakes one waiter
               /\ waitset' = waitset \ {w}
               /\ pc' = [pc EXCEPT ![p] = "fc_ret", ![w] = "f_relock"]
     ELSE waitset' = waitset /\ Goto(p, "fc_ret")
  /\ UNCHANGED <<mutex, changed, arg, pn, res, calls, rep, fet, pend>>
FCRet(p) == /\ pc[p] = "fc_ret" /\ Goto(p, "idle")
            /\ UNCHANGED <<mutex, waitset, changed, arg, pn, res, calls, rep, fet, pend>>

----------------------------------------------------------------------------
\* Fetch
FetchStart(c) == /\ pc[c] = "idle" /\ calls[c] < MaxFetches
                 /\ calls' = [calls EXCEPT ![c] = @ + 1]
                 /\ res' = [res EXCEPT ![c] = NoDir]
                 /\ Goto(c, "f_lock")
                 /\ UNCHANGED <<mutex, waitset, changed, arg, pn, rep, fet, pend>>
FetchLock(c) == /\ pc[c] = "f_lock" /\ mutex = NoProc
                /\ mutex' = c /\ Goto(c, "f_check")
                /\ UNCHANGED <<waitset, changed, arg, pn, res, calls, rep, fet, pend>>
\* loop test; cond.Wait() = notifyListAdd + Unlock (a later Broadcast reaches this waiter)
FetchCheck(c) == /\ pc[c] = "f_check"
                 /\ IF changed = {}
                    THEN /\ waitset' = waitset \cup {c} /\ mutex' = NoProc
                         /\ Goto(c, "f_parked")
                    ELSE /\ Goto(c, "f_take") /\ UNCHANGED <<waitset, mutex>>
                 /\ UNCHANGED <<changed, arg, pn, res, calls, rep, fet, pend>>
\* tail of cond.Wait(): re-acquire the mutex after having been notified
FetchRelock(c) == /\ pc[c] = "f_relock" /\ mutex = NoProc
                  /\ mutex' = c
                  /\ Goto(c, IF Loop = "for" THEN "f_check" ELSE "f_take")
                  /\ UNCHANGED <<waitset, changed, arg, pn, res, calls, rep, fet, pend>>
FetchTake(c) ==
  /\ pc[c] = "f_take"
  /\ IF changed = {}
     THEN /\ res' = [res EXCEPT ![c] = Empty]        \* range loop runs 0 times: dir = ""
          /\ fet' = [fet EXCEPT ![Empty] = @ + 1]
          /\ UNCHANGED <<changed, pend>>
     ELSE \E d \in changed :                         \* map iteration order: any element
          /\ res' = [res EXCEPT ![c] = d]
          /\ changed' = IF Delete THEN changed \ {d} ELSE changed
          /\ fet' = [fet EXCEPT ![d] = @ + 1]
          /\ pend' = pend \ {d}
  /\ Goto(c, "f_unlock")
  /\ UNCHANGED <<mutex, waitset, arg, pn, calls, rep>>
FetchUnlock(c) == /\ pc[c] = "f_unlock"
                  /\ mutex' = NoProc /\ Goto(c, "f_ret")
                  /\ UNCHANGED <<waitset, changed, arg, pn, res, calls, rep, fet, pend>>
FetchRet(c) == /\ pc[c] = "f_ret" /\ Goto(c, "idle")
               /\ UNCHANGED <<mutex, waitset, changed, arg, pn, res, calls, rep, fet, pend>>

----------------------------------------------------------------------------
\* Ignore -> lookupMod, EntryDeleted(dir, true) -> deleteMod: mutex only
AuxStart(a) == /\ pc[a] = "idle" /\ calls[a] < MaxAux
               /\ calls' = [calls EXCEPT ![a] = @ + 1] /\ Goto(a, "x_lock")
               /\ UNCHANGED <<mutex, waitset, changed, arg, pn, res, rep, fet, pend>>
AuxLock(a) == /\ pc[a] = "x_lock" /\ mutex = NoProc
              /\ mutex' = a /\ Goto(a, "x_unlock")
              /\ UNCHANGED <<waitset, changed, arg, pn, res, calls, rep, fet, pend>>
AuxUnlock(a) == /\ pc[a] = "x_unlock"
                /\ mutex' = NoProc /\ Goto(a, "x_ret")
                /\ UNCHANGED <<waitset, changed, arg, pn, res, calls, rep, fet, pend>>
AuxRet(a) == /\ pc[a] = "x_ret" /\ Goto(a, "idle")
             /\ UNCHANGED <<mutex, waitset, changed, arg, pn, res, calls, rep, fet, pend>>

----------------------------------------------------------------------------
\* steps a goroutine takes on its own once the call has started
ProdStep(p) == FCPreRead(p) \/ FCLock(p) \/ FCRecord(p) \/ FCUnlock(p) \/ FCBcast(p) \/ FCRet(p)
ConsStep(c) == FetchLock(c) \/ FetchCheck(c) \/ FetchRelock(c) \/ FetchTake(c)
               \/ FetchUnlock(c) \/ FetchRet(c)
AuxStep(a)  == AuxLock(a) \/ AuxUnlock(a) \/ AuxRet(a)
Step(q) == \/ q \in Producers /\ ProdStep(q)
           \/ q \in Consumers /\ ConsStep(q)
           \/ q \in Aux /\ AuxStep(q)
CallStart == \/ \E p \in Producers, f \in Files : FCStart(p, f)
             \/ \E c \in Consumers : FetchStart(c)
             \/ \E a \in Aux : AuxStart(a)
Next == CallStart \/ \E q \in Procs : Step(q)

\* the callers decide when to call (no fairness on CallStart); a started call keeps running
Spec == Init /\ [][Next]_wvars /\ \A q \in Procs : WF_wvars(Step(q))

----------------------------------------------------------------------------
\* Properties (statement of C40)
TypeOK == /\ mutex \in Procs \cup {NoProc}
          /\ waitset \subseteq Consumers
          /\ changed \subseteq Dirs
          /\ \A c \in Consumers : (c \in waitset) <=> (pc[c] = "f_parked")

\* Fetch never returns a directory that was not reported
NoSpurious == /\ fet[Empty] = 0
              /\ \A d \in Dirs : fet[d] > 0 => rep[d] > 0
              /\ \A c \in Consumers : res[c] \in Dirs \cup {NoDir}
\* a directory is returned at most once per report made before that fetch
AtMostOncePerReport == \A d \in Dirs : fet[d] <= rep[d]
\* nothing is lost: what was reported and not fetched since is exactly what is pending
NoLost == changed = pend
\* whoever holds the mutex is inside a critical section, and nobody else is
MutexInv == \A q \in Procs :
   (pc[q] \in {"fc_rec", "fc_unlock", "f_check", "f_take", "f_unlock", "x_unlock"}) <=> (mutex = q)
\* a parked fetcher and a pending directory => a wake-up for it is still on its way
WakeInv == (waitset # {} /\ changed # {}) =>
              \E p \in Producers : pc[p] \in {"fc_unlock", "fc_gate"} /\ pn[p] = 0
\* when nothing can move any more, a blocked fetcher means there is nothing to fetch
Quiet == \A q \in Procs : pc[q] \in {"idle", "f_parked"}
NoLostWakeup == (Quiet /\ waitset # {}) => changed = {}

\* a waiting fetch wakes up once a change is reported
Wakes == \A c \in Consumers : (c \in waitset /\ changed # {}) ~> (c \notin waitset)
\* every started FileChanged returns (it never waits for a consumer)
FCReturns == \A p \in Producers : (pc[p] # "idle") ~> (pc[p] = "idle")
=============================================================================
