---------------------------- MODULE WatcherTrace ----------------------------
(* C40 -- validation of histories recorded from the real watcher.Changes      *)
(* against Watcher.tla.  trace.ndjson holds many traces separated by a reset *)
(* record.  One line = one event of one goroutine g, numbered by one atomic  *)
(* counter at the moment it was logged (file order = that order):            *)
(*   {"op":"fc","ph":"start","g":p,"file":f}   just before FileChanged(f)    *)
(*   {"op":"fc","ph":"gate","g":p,"dir":d,"n":n}  verif hook between Unlock  *)
(*                                             and Broadcast (n, dir as seen)*)
(*   {"op":"fc","ph":"end","g":p}              just after it returned        *)
(*   {"op":"fetch","ph":"start","g":c} / {"op":"fetch","ph":"end","g":c,"dir":d} *)
(*   {"op":"fetch","ph":"parked","g":c}        c was seen parked in cond.Wait *)
(*   {"op":"aux","ph":"start"|"end","g":a}     Ignore / EntryDeleted(dir)    *)
(*   {"op":"quiesce","blocked":[c..]}          nothing runs any more; these  *)
(*                                             fetchers are still blocked    *)
(*   {"op":"reset"}                            next trace starts             *)
(* Lock operations, critical sections and the wake-up (the linearization     *)
(* points) are internal steps of the spec taken between the lines.           *)
(* Mode "design": internal steps are the critical sections and the wake-up   *)
(* of Watcher.tla (Lock;body;Unlock as one step, see CSFileChanged).         *)
(* Mode "contract": one atomic step per call (add the directory / take any   *)
(* pending directory, blocking while there is none) -- exactly the statement *)
(* of C40; used for the verdict when the design rejects a trace.             *)
EXTENDS Watcher, Json

CONSTANTS Mode

Trace == ndJsonDeserialize("trace.ndjson")

VARIABLES ln,      \* lines consumed
          seen     \* producers whose gate line of the current call was consumed
tvars == <<mutex, waitset, changed, pc, arg, pn, res, calls, rep, fet, pend, ln, seen>>

Ev == Trace[ln + 1]
Is(op, ph) == ln < Len(Trace) /\ Ev.op = op /\ Ev.ph = ph
Consume == ln' = ln + 1
Keep == UNCHANGED wvars

TInit == Init /\ ln = 0 /\ seen = {} /\ TLCSet(1, 0)

\* ---- contract mode: atomic calls -------------------------------------------------
AtomicFC(p) == /\ pc[p] = "fc_lock"
               /\ LET d == DirOf[arg[p]] IN
                    /\ changed' = changed \cup {d}
                    /\ rep' = [rep EXCEPT ![d] = @ + 1]
                    /\ pend' = pend \cup {d}
               /\ Goto(p, "fc_gate")
               /\ UNCHANGED <<mutex, waitset, arg, pn, res, calls, fet>>
AtomicFCDone(p) == /\ pc[p] = "fc_gate" /\ Goto(p, "fc_ret")
                   /\ UNCHANGED <<mutex, waitset, changed, arg, pn, res, calls, rep, fet, pend>>
AtomicFetch(c) == /\ pc[c] = "f_lock" /\ changed # {}
                  /\ \E d \in changed :
                       /\ res' = [res EXCEPT ![c] = d]
                       /\ changed' = changed \ {d}
                       /\ fet' = [fet EXCEPT ![d] = @ + 1]
                       /\ pend' = pend \ {d}
                  /\ Goto(c, "f_ret")
                  /\ UNCHANGED <<mutex, waitset, arg, pn, calls, rep>>
AtomicAux(a) == /\ pc[a] = "x_lock" /\ Goto(a, "x_ret")
                /\ UNCHANGED <<mutex, waitset, changed, arg, pn, res, calls, rep, fet, pend>>

\* ---- design mode: one step per critical section ------------------------------------
\* Lock;body;Unlock of Watcher.tla taken as one step (the mutex makes critical sections
\* atomic w.r.t. each other, and FCBcast -- the only step outside the mutex -- commutes with
\* Lock and with Unlock, so every fine-grained behaviour has the same lines as a coarse one).
CSFileChanged(p) ==
  /\ pc[p] = "fc_lock" /\ mutex = NoProc
  /\ LET d == DirOf[arg[p]] IN
       /\ pn' = [pn EXCEPT ![p] = Cardinality(changed)]
       /\ changed' = changed \cup {d}
       /\ rep' = [rep EXCEPT ![d] = @ + 1]
       /\ pend' = pend \cup {d}
  /\ Goto(p, "fc_gate")
  /\ UNCHANGED <<mutex, waitset, arg, res, calls, fet>>
CSFetch(c) ==
  /\ pc[c] \in {"f_lock", "f_relock"} /\ mutex = NoProc
  /\ IF changed = {} /\ (pc[c] = "f_lock" \/ Loop = "for")
     THEN /\ waitset' = waitset \cup {c} /\ Goto(c, "f_parked")       \* cond.Wait()
          /\ UNCHANGED <<changed, res, fet, pend>>
     ELSE /\ IF changed = {}
             THEN /\ res' = [res EXCEPT ![c] = Empty]
                  /\ fet' = [fet EXCEPT ![Empty] = @ + 1]
                  /\ UNCHANGED <<changed, pend>>
             ELSE \E d \in changed :
                  /\ res' = [res EXCEPT ![c] = d]
                  /\ changed' = IF Delete THEN changed \ {d} ELSE changed
                  /\ fet' = [fet EXCEPT ![d] = @ + 1]
                  /\ pend' = pend \ {d}
          /\ Goto(c, "f_ret") /\ UNCHANGED waitset
  /\ UNCHANGED <<mutex, arg, pn, calls, rep>>

\* ---- internal steps (no line consumed) ------------------------------------------
Silent ==
  /\ UNCHANGED ln
  /\ IF Mode = "design"
     THEN \/ \E p \in Producers :
               \/ CSFileChanged(p) /\ UNCHANGED seen
               \/ p \in seen /\ FCBcast(p) /\ seen' = seen \ {p}
          \/ \E c \in Consumers : CSFetch(c) /\ UNCHANGED seen
          \/ \E a \in Aux : AtomicAux(a) /\ UNCHANGED seen
     ELSE \/ \E p \in Producers :
               \/ AtomicFC(p) /\ UNCHANGED seen
               \/ p \in seen /\ AtomicFCDone(p) /\ seen' = seen \ {p}
          \/ \E c \in Consumers : AtomicFetch(c) /\ UNCHANGED seen
          \/ \E a \in Aux : AtomicAux(a) /\ UNCHANGED seen

\* ---- lines -------------------------------------------------------------------------
EvFCStart == /\ Is("fc", "start") /\ Ev.g \in Producers /\ Ev.file \in Files
             /\ FCStart(Ev.g, Ev.file) /\ Consume /\ UNCHANGED seen
EvFCGate  == /\ Is("fc", "gate") /\ Ev.g \in Producers
             /\ pc[Ev.g] = "fc_gate" /\ Ev.g \notin seen
             /\ DirOf[arg[Ev.g]] = Ev.dir
             /\ (Mode = "design" => pn[Ev.g] = Ev.n)
             /\ seen' = seen \cup {Ev.g} /\ Keep /\ Consume
EvFCEnd   == /\ Is("fc", "end") /\ Ev.g \in Producers
             /\ FCRet(Ev.g) /\ Consume /\ UNCHANGED seen
EvFetchStart == /\ Is("fetch", "start") /\ Ev.g \in Consumers
                /\ FetchStart(Ev.g) /\ Consume /\ UNCHANGED seen
EvFetchParked == /\ Is("fetch", "parked") /\ Ev.g \in Consumers
                 /\ pc[Ev.g] = (IF Mode = "design" THEN "f_parked" ELSE "f_lock")
                 /\ Keep /\ Consume /\ UNCHANGED seen
EvFetchEnd == /\ Is("fetch", "end") /\ Ev.g \in Consumers
              /\ res[Ev.g] = Ev.dir
              /\ FetchRet(Ev.g) /\ Consume /\ UNCHANGED seen
EvAuxStart == /\ Is("aux", "start") /\ Ev.g \in Aux
              /\ AuxStart(Ev.g) /\ Consume /\ UNCHANGED seen
EvAuxEnd == /\ Is("aux", "end") /\ Ev.g \in Aux
            /\ AuxRet(Ev.g) /\ Consume /\ UNCHANGED seen
\* all producers returned, every goroutine is idle or blocked for good
EvQuiesce ==
  /\ ln < Len(Trace) /\ Ev.op = "quiesce"
  /\ LET B == { c \in Consumers : \E k \in 1..Len(Ev.blocked) : Ev.blocked[k] = c } IN
       /\ \A q \in Procs \ B : pc[q] = "idle"
       /\ IF Mode = "design"
          THEN \A c \in B : pc[c] = "f_parked"
          ELSE /\ \A c \in B : pc[c] = "f_lock"
               /\ B # {} => changed = {}     \* a waiting fetch wakes up once a change is reported
  /\ Keep /\ Consume /\ UNCHANGED seen
EvReset == /\ ln < Len(Trace) /\ Ev.op = "reset"
           /\ mutex' = NoProc /\ waitset' = {} /\ changed' = {}
           /\ pc' = [q \in Procs |-> "idle"]
           /\ arg' = [p \in Producers |-> NoDir]
           /\ pn' = [p \in Producers |-> 0]
           /\ res' = [c \in Consumers |-> NoDir]
           /\ calls' = [q \in Procs |-> 0]
           /\ rep' = [d \in Dirs |-> 0]
           /\ fet' = [d \in Dirs \cup {Empty} |-> 0]
           /\ pend' = {} /\ seen' = {} /\ Consume

TNext == \/ Silent
         \/ EvFCStart \/ EvFCGate \/ EvFCEnd
         \/ EvFetchStart \/ EvFetchParked \/ EvFetchEnd
         \/ EvAuxStart \/ EvAuxEnd \/ EvQuiesce \/ EvReset

TSpec == TInit /\ [][TNext]_tvars

\* acceptance: high-water mark of consumed lines (internal steps make depth meaningless)
Hwm == TLCSet(1, IF TLCGet(1) < ln THEN ln ELSE TLCGet(1))
Post == PrintT(<<"HWM", TLCGet(1), Len(Trace)>>)
=============================================================================
