SPECIFICATION RSpec
CONSTANTS
  Producers = {"p1","p2"}
  Consumers = {"c1","c2"}
  Aux = {}
  Files = {"a/x.go","a/y.xgo","b/x.go"}
  DirOf <- StdDirOf
  MaxReports = 1
  MaxFetches = 1
  MaxAux = 1
  Bcast = "broadcast"
  IfN = "eq0"
  Loop = "for"
  Delete = TRUE
  NRead = "locked"
INVARIANTS NoSpurious AtMostOncePerReport NoLost WakeInv NoLostWakeup Export
