SPECIFICATION TSpec
CONSTANTS
  Writers = {"w1", "w2", "w3"}
  Readers = {"r1", "r2"}
  Closers = {"x1", "x2"}
  MaxCalls = 1000000
  PayLen = 2
  BufLen = 2
  StreamLen = 1000000
  DoneInSel2 = TRUE
  CloseDone = {"r", "w"}
  Truncate = 0
  CoarseSelect = FALSE
CONSTRAINT Hwm
INVARIANTS WholePayloads SuccessDelivered ReadInOrder ResultToOwner AfterCloseEOF AfterCloseNoIO
POSTCONDITION Post
