---------------------------- MODULE WatcherReplay ----------------------------
(* C40 -- behaviours of Watcher.tla in the shape the harness can steer.       *)
(* The harness controls: when a goroutine starts a call, and when a producer *)
(* standing at the verif gate (between Unlock and Broadcast) may go on.      *)
(* Everything else runs until nothing can move (settled).  A behaviour is    *)
(* exported as the alternation  obs cmd obs cmd ... obs  where               *)
(*   cmd = fc(p,file) | open(p) | fetch(c) | aux(a)                          *)
(*   obs = what is observable once settled: fetchers parked in cond.Wait,    *)
(*         the (goroutine, directory) pairs returned by Fetch since the last *)
(*         obs, producers standing at the gate, and p.changed.               *)
(* Which directory a Fetch takes and which woken fetcher wins the mutex are  *)
(* not controllable: all outcomes of one command sequence are exported (in   *)
(* the exhaustive configurations) and the real outcome must be one of them.  *)
EXTENDS Watcher, VerifIO

VARIABLES gate,    \* producers allowed through the gate
          sched,   \* exported alternation of obs / cmd records
          rets     \* <<c, dir>> returned since the last obs
rvars == <<mutex, waitset, changed, pc, arg, pn, res, calls, rep, fet, pend, gate, sched, rets>>

Settled == \A q \in Procs : \/ pc[q] \in {"idle", "f_parked"}
                            \/ pc[q] = "fc_gate" /\ q \notin gate
Obs == [k |-> "obs", parked |-> waitset, changed |-> changed, rets |-> rets,
        atgate |-> { p \in Producers : pc[p] = "fc_gate" }]

RInit == Init /\ gate = {} /\ sched = <<>> /\ rets = {}

Issue(c) == sched' = sched \o <<Obs, c>> /\ rets' = {}
CmdFC(p, f) == /\ FCStart(p, f) /\ Issue([k |-> "fc", g |-> p, file |-> f]) /\ UNCHANGED gate
CmdOpen(p)  == /\ pc[p] = "fc_gate" /\ p \notin gate
               /\ gate' = gate \cup {p} /\ Issue([k |-> "open", g |-> p]) /\ UNCHANGED wvars
CmdFetch(c) == /\ FetchStart(c) /\ Issue([k |-> "fetch", g |-> c]) /\ UNCHANGED gate
CmdAux(a)   == /\ AuxStart(a) /\ Issue([k |-> "aux", g |-> a]) /\ UNCHANGED gate
Cmd == \/ \E p \in Producers, f \in Files : CmdFC(p, f)
       \/ \E p \in Producers : CmdOpen(p)
       \/ \E c \in Consumers : CmdFetch(c)
       \/ \E a \in Aux : CmdAux(a)

Run == \E q \in Procs :
          /\ pc[q] = "fc_gate" => q \in gate
          /\ Step(q)
          /\ gate' = IF pc[q] = "fc_gate" THEN gate \ {q} ELSE gate
          /\ rets' = IF pc[q] = "f_ret" THEN rets \cup {<<q, res[q]>>} ELSE rets
          /\ UNCHANGED sched

RNext == IF Settled THEN Cmd ELSE Run
RSpec == RInit /\ [][RNext]_rvars

Finished == Settled /\ ~ENABLED Cmd
Export == Finished => Emit([sched |-> sched \o <<Obs>>])
\* the properties of Watcher.tla hold along the steered behaviours as well
=============================================================================
