SPECIFICATION TSpec
CONSTANTS
  Producers = {"p1", "p2", "p3"}
  Consumers = {"c1", "c2", "c3", "c4"}
  Aux = {"a1"}
  Files = {"a/x.go", "a/y.xgo", "b/x.go", "b/s/z.go", "x.go"}
  DirOf <- StdDirOf
  MaxReports = 1000000
  MaxFetches = 1000000
  MaxAux = 1000000
  Bcast = "broadcast"
  IfN = "eq0"
  Loop = "for"
  Delete = TRUE
  NRead = "locked"
  Mode = "contract"
CONSTRAINT Hwm
INVARIANTS NoSpurious AtMostOncePerReport NoLost
POSTCONDITION Post
