SPECIFICATION Spec
CONSTANTS
  Writers = {"w1"}
  Readers = {"r1","r2"}
  Closers = {"x1","x2"}
  MaxCalls = 1
  PayLen = 2
  BufLen = 2
  StreamLen = 3
  DoneInSel2 = TRUE
  CloseDone = {"r","w"}
  Truncate = 0
  CoarseSelect = FALSE
INVARIANTS WholePayloads SuccessDelivered ReadInOrder ResultToOwner AfterCloseEOF AfterCloseNoIO

