SPECIFICATION RSpec
CONSTANTS
  Producers = {"p1","p2"}
  Consumers = {"c1","c2","c3"}
  Aux = {"a1"}
  Files = {"a/x.go","a/y.xgo","b/x.go","b/s/z.go","x.go"}
  DirOf <- StdDirOf
  MaxReports = 3
  MaxFetches = 3
  MaxAux = 1
  Bcast = "broadcast"
  IfN = "eq0"
  Loop = "for"
  Delete = TRUE
  NRead = "locked"
INVARIANTS NoSpurious AtMostOncePerReport NoLost WakeInv NoLostWakeup Export
