SPECIFICATION Spec
CONSTANTS
  Writers = {"w1"}
  Readers = {"r1"}
  Closers = {"x1"}
  MaxCalls = 2
  PayLen = 2
  BufLen = 2
  StreamLen = 3
  DoneInSel2 = TRUE
  CloseDone = {"r","w"}
  Truncate = 0
  CoarseSelect = FALSE
INVARIANTS WholePayloads SuccessDelivered ReadInOrder ResultToOwner AfterCloseEOF AfterCloseNoIO

