---------------------------- MODULE FakeNetTrace ----------------------------
(* C41 -- validation of histories recorded from a real fakenet connection     *)
(* against FakeNet.tla.  trace.ndjson: many traces separated by reset lines. *)
(* Lines (numbered by one atomic counter when logged):                       *)
(*  callers   {"op":"write","ph":"start","g":k,"id":i,"len":n}               *)
(*            {"op":"write","ph":"end","g":k,"n":n,"err":"nil|eof|other"}    *)
(*            {"op":"read","ph":"start","g":k,"len":n}                       *)
(*            {"op":"read","ph":"end","g":k,"n":n,"err":e,"off":o}           *)
(*            {"op":"close","ph":"start"|"end","g":x}                        *)
(*  underlying streams (the harness implements them, so it sees the calls)   *)
(*            {"op":"uw","ph":"enter","k":k,"id":i,"len":n}  out.Write(bytes *)
(*                      = the first n bytes of payload i of writer k)        *)
(*            {"op":"uw","ph":"ret","n":n,"err":e}                           *)
(*            {"op":"ur","ph":"enter","len":n}            in.Read(buffer n)  *)
(*            {"op":"ur","ph":"ret","n":n,"err":e,"off":o}                   *)
(*            {"op":"uclose","ph":"in"|"out"}                                *)
(*  {"op":"final","ph":"-"}  every call has returned                         *)
(* The channel steps (select polls, parking, rendezvous, close(done)) are    *)
(* internal steps taken between the lines.                                   *)
EXTENDS FakeNet, Json

Trace == ndJsonDeserialize("trace.ndjson")
VARIABLE ln
tvars == <<cpc, creq, cres, calls, after, fpc, fbuf, fres, done, closed, xpc, xtodo, closeRet,
           inClosed, outClosed, rpos, wire, got, ln>>

Ev == Trace[ln + 1]
Is(op, ph) == ln < Len(Trace) /\ Ev.op = op /\ Ev.ph = ph
Consume == ln' = ln + 1

TInit == Init /\ ln = 0 /\ TLCSet(1, 0)

Silent ==
  /\ UNCHANGED ln
  /\ \/ \E k \in Callers : Sel1Send(k) \/ Sel1Done(k) \/ Sel1Park(k) \/ Sel2Recv(k) \/ Sel2Done(k) \/ Sel2Park(k)
     \/ \E f \in Feeders : FRecvTake(f) \/ FRecvDone(f) \/ FRecvPark(f) \/ FSendGive(f) \/ FSendDone(f) \/ FSendPark(f)
     \/ \E x \in Closers, f \in Feeders : CloseFeeder(x, f)

EvWriteStart == /\ Is("write", "start") /\ Ev.g \in Writers
                /\ calls[Ev.g] + 1 = Ev.id
                /\ CallStartL(Ev.g, Ev.len) /\ Consume
EvReadStart  == /\ Is("read", "start") /\ Ev.g \in Readers
                /\ CallStartL(Ev.g, Ev.len) /\ Consume
EvWriteEnd == /\ Is("write", "end") /\ Ev.g \in Writers
              /\ cpc[Ev.g] = "ret" /\ cres[Ev.g].n = Ev.n /\ cres[Ev.g].err = Ev.err
              /\ CallEnd(Ev.g) /\ Consume
EvReadEnd  == /\ Is("read", "end") /\ Ev.g \in Readers
              /\ cpc[Ev.g] = "ret" /\ cres[Ev.g].n = Ev.n /\ cres[Ev.g].err = Ev.err
              /\ (Ev.n > 0 => cres[Ev.g].off = Ev.off)
              /\ CallEnd(Ev.g) /\ Consume
EvCloseStart == /\ Is("close", "start") /\ Ev.g \in Closers /\ CloseStart(Ev.g) /\ Consume
EvCloseEnd   == /\ Is("close", "end") /\ Ev.g \in Closers /\ CloseEnd(Ev.g) /\ Consume
EvUClose == /\ ln < Len(Trace) /\ Ev.op = "uclose"
            /\ \E x \in Closers : CloseUnder(x, Ev.ph)
            /\ Consume
\* out.Write is entered with exactly the bytes of the request the feeder holds
EvUWEnter == /\ Is("uw", "enter")
             /\ fpc["w"] = "call" /\ fbuf["w"].k = Ev.k /\ fbuf["w"].id = Ev.id /\ fbuf["w"].len = Ev.len
             /\ SourceInvoke("w") /\ Consume
EvUWRet == /\ Is("uw", "ret")
           /\ IF Ev.err = "nil" THEN fbuf["w"].len = Ev.n /\ SrcRetW(TRUE) ELSE SrcRetW(FALSE)
           /\ Consume
EvUREnter == /\ Is("ur", "enter")
             /\ fpc["r"] = "call" /\ fbuf["r"].len = Ev.len
             /\ SourceInvoke("r") /\ Consume
EvURRet == /\ Is("ur", "ret")
           /\ Ev.n > 0 => (Ev.off = rpos /\ Ev.n <= fbuf["r"].len /\ Ev.err = "nil")
           /\ SrcRetR(Ev.n, Ev.err) /\ Consume
EvFinal == /\ ln < Len(Trace) /\ Ev.op = "final"
           /\ \A k \in Callers : cpc[k] = "idle"
           /\ \A x \in Closers : xpc[x] \in {"idle", "closed"}
           /\ UNCHANGED vars /\ Consume
EvReset == /\ ln < Len(Trace) /\ Ev.op = "reset"
           /\ cpc' = [k \in Callers |-> "idle"]
           /\ creq' = [k \in Callers |-> None]
           /\ cres' = [k \in Callers |-> EOFRes]
           /\ calls' = [k \in Callers |-> 0]
           /\ after' = [k \in Callers |-> FALSE]
           /\ fpc' = [f \in Feeders |-> "recv"]
           /\ fbuf' = [f \in Feeders |-> None]
           /\ fres' = [f \in Feeders |-> EOFRes]
           /\ done' = [f \in Feeders |-> FALSE]
           /\ closed' = [f \in Feeders |-> FALSE]
           /\ xpc' = [x \in Closers |-> "idle"]
           /\ xtodo' = [x \in Closers |-> {}]
           /\ closeRet' = FALSE /\ inClosed' = FALSE /\ outClosed' = FALSE
           /\ rpos' = 0 /\ wire' = <<>> /\ got' = <<>>
           /\ Consume

TNext == \/ Silent
         \/ EvWriteStart \/ EvReadStart \/ EvWriteEnd \/ EvReadEnd
         \/ EvCloseStart \/ EvCloseEnd \/ EvUClose
         \/ EvUWEnter \/ EvUWRet \/ EvUREnter \/ EvURRet
         \/ EvFinal \/ EvReset
TSpec == TInit /\ [][TNext]_tvars

Hwm == TLCSet(1, IF TLCGet(1) < ln THEN ln ELSE TLCGet(1))
Post == PrintT(<<"HWM", TLCGet(1), Len(Trace)>>)
=============================================================================
