------------------------------ MODULE FakeNet ------------------------------
(* C41 -- x/fakenet/conn.go: fakeConn.Read/Write (connFeeder.do), the two     *)
(* feeder goroutines (connFeeder.run), fakeConn.Close (connFeeder.close x2,  *)
(* in.Close, out.Close).                                                     *)
(*                                                                           *)
(* One action per channel operation.  input and result are unbuffered: a     *)
(* communication happens when one party *polls* its select while the other   *)
(* is already *parked* in a select on the same channel (Go runtime: a select *)
(* locks its channels, takes a ready case -- a parked partner or a closed    *)
(* done -- choosing among the ready ones at random, and parks otherwise;     *)
(* close(done) resolves every goroutine parked on done at once).             *)
(* Switch CoarseSelect = TRUE gives the coarser reading "two goroutines      *)
(* standing at matching selects may communicate" (needed to see why the      *)
(* after-Close guarantee rests on the parked/closed atomicity).              *)
(*                                                                           *)
(* The underlying reader / writer (in.Read, out.Write) are the environment:  *)
(* SourceReturn may never happen (a blocked stdin / stdout).                 *)
(* Named switches (CODE value first):                                        *)
(*   DoneInSel2   TRUE | FALSE  second select of do has `case <-f.done`      *)
(*   CloseDone    {"r","w"} | subset: feeders whose close() does close(done) *)
(*   Truncate     0 | 1      run hands source(b[:len(b)-Truncate])           *)
EXTENDS Naturals, Sequences, FiniteSets, TLC

CONSTANTS Writers, Readers, Closers,
          MaxCalls,      \* calls per reader / writer goroutine
          PayLen,        \* length of every Write payload
          BufLen,        \* length of every Read buffer
          StreamLen,     \* bytes the underlying reader can deliver before its own EOF
          DoneInSel2, CloseDone, Truncate, CoarseSelect

Feeders == {"r", "w"}
Callers == Writers \cup Readers
FeederOf(k) == IF k \in Writers THEN "w" ELSE "r"
None == [k |-> "-", id |-> 0, len |-> 0]
EOFRes == [n |-> 0, err |-> "eof", off |-> 0]

VARIABLES
  cpc,      \* caller: idle | sel1 | sel1_parked | sel2 | sel2_parked | ret
  creq,     \* caller: current request [k, id, len]
  cres,     \* caller: result [n, err, off]
  calls,    \* caller: calls started
  after,    \* caller: the current call started after some Close had returned
  fpc,      \* feeder: recv | recv_parked | call | incall | send | send_parked | exit
  fbuf,     \* feeder: request it holds
  fres,     \* feeder: result of source
  done,     \* [Feeders -> BOOLEAN]  f.done is closed
  closed,   \* [Feeders -> BOOLEAN]  f.closed
  xpc,      \* closer: idle | feeders (closing feeders, then in/out) | ret | closed
  xtodo,    \* closer: what is still to close, subset of {"r","w","in","out"}
  closeRet, \* some Close has returned
  inClosed, outClosed,
  rpos,     \* bytes taken from the underlying reader
  wire,     \* requests that reached the underlying writer: <<[k,id,len],...>>
  got       \* chunks returned by successful Reads, in delivery order: <<[off,n],...>>

vars == <<cpc, creq, cres, calls, after, fpc, fbuf, fres, done, closed, xpc, xtodo, closeRet,
          inClosed, outClosed, rpos, wire, got>>

Init == /\ cpc = [k \in Callers |-> "idle"]
        /\ creq = [k \in Callers |-> None]
        /\ cres = [k \in Callers |-> EOFRes]
        /\ calls = [k \in Callers |-> 0]
        /\ after = [k \in Callers |-> FALSE]
        /\ fpc = [f \in Feeders |-> "recv"]
        /\ fbuf = [f \in Feeders |-> None]
        /\ fres = [f \in Feeders |-> EOFRes]
        /\ done = [f \in Feeders |-> FALSE]
        /\ closed = [f \in Feeders |-> FALSE]
        /\ xpc = [x \in Closers |-> "idle"]
        /\ xtodo = [x \in Closers |-> {}]
        /\ closeRet = FALSE /\ inClosed = FALSE /\ outClosed = FALSE
        /\ rpos = 0 /\ wire = <<>> /\ got = <<>>

----------------------------------------------------------------------------
\* callers: conn.go connFeeder.do
CallStartL(k, len) ==
  /\ cpc[k] = "idle" /\ calls[k] < MaxCalls
  /\ calls' = [calls EXCEPT ![k] = @ + 1]
  /\ creq' = [creq EXCEPT ![k] = [k |-> k, id |-> calls[k] + 1, len |-> len]]
  /\ after' = [after EXCEPT ![k] = closeRet]
  /\ cpc' = [cpc EXCEPT ![k] = "sel1"]
  /\ UNCHANGED <<cres, fpc, fbuf, fres, done, closed, xpc, xtodo, closeRet, inClosed, outClosed, rpos, wire, got>>
CallStart(k) == CallStartL(k, IF k \in Writers THEN PayLen ELSE BufLen)

\* first select: case f.input <- b  (partner = feeder parked in its first select)
Sel1Send(k) == LET f == FeederOf(k) IN
  /\ cpc[k] = "sel1"
  /\ fpc[f] = "recv_parked" \/ (CoarseSelect /\ fpc[f] = "recv")
  /\ fbuf' = [fbuf EXCEPT ![f] = creq[k]]
  /\ fpc' = [fpc EXCEPT ![f] = "call"]
  /\ cpc' = [cpc EXCEPT ![k] = "sel2"]
  /\ UNCHANGED <<creq, cres, calls, after, fres, done, closed, xpc, xtodo, closeRet, inClosed, outClosed, rpos, wire, got>>
\* first select: case <-f.done: return 0, io.EOF
Sel1Done(k) == LET f == FeederOf(k) IN
  /\ cpc[k] = "sel1" /\ done[f]
  /\ cres' = [cres EXCEPT ![k] = EOFRes]
  /\ cpc' = [cpc EXCEPT ![k] = "ret"]
  /\ UNCHANGED <<creq, calls, after, fpc, fbuf, fres, done, closed, xpc, xtodo, closeRet, inClosed, outClosed, rpos, wire, got>>
Sel1Park(k) == LET f == FeederOf(k) IN
  /\ cpc[k] = "sel1" /\ ~done[f] /\ fpc[f] # "recv_parked"
  /\ cpc' = [cpc EXCEPT ![k] = "sel1_parked"]
  /\ UNCHANGED <<creq, cres, calls, after, fpc, fbuf, fres, done, closed, xpc, xtodo, closeRet, inClosed, outClosed, rpos, wire, got>>

\* delivery of a result to caller k (shared by both directions of the rendezvous)
Deliver(k, f) ==
  /\ cres' = [cres EXCEPT ![k] = fres[f]]
  /\ cpc' = [cpc EXCEPT ![k] = "ret"]
  /\ fpc' = [fpc EXCEPT ![f] = "recv"]
  /\ got' = IF f = "r" /\ fres[f].n > 0 THEN Append(got, [off |-> fres[f].off, n |-> fres[f].n]) ELSE got
\* second select: case r := <-f.result
Sel2Recv(k) == LET f == FeederOf(k) IN
  /\ cpc[k] = "sel2"
  /\ fpc[f] = "send_parked" \/ (CoarseSelect /\ fpc[f] = "send")
  /\ Deliver(k, f)
  /\ UNCHANGED <<creq, calls, after, fbuf, fres, done, closed, xpc, xtodo, closeRet, inClosed, outClosed, rpos, wire>>
\* second select: case <-f.done: return 0, io.EOF
Sel2Done(k) == LET f == FeederOf(k) IN
  /\ cpc[k] = "sel2" /\ DoneInSel2 /\ done[f]
  /\ cres' = [cres EXCEPT ![k] = EOFRes]
  /\ cpc' = [cpc EXCEPT ![k] = "ret"]
  /\ UNCHANGED <<creq, calls, after, fpc, fbuf, fres, done, closed, xpc, xtodo, closeRet, inClosed, outClosed, rpos, wire, got>>
Sel2Park(k) == LET f == FeederOf(k) IN
  /\ cpc[k] = "sel2" /\ ~(DoneInSel2 /\ done[f]) /\ fpc[f] # "send_parked"
  /\ cpc' = [cpc EXCEPT ![k] = "sel2_parked"]
  /\ UNCHANGED <<creq, cres, calls, after, fpc, fbuf, fres, done, closed, xpc, xtodo, closeRet, inClosed, outClosed, rpos, wire, got>>
CallEnd(k) ==
  /\ cpc[k] = "ret" /\ cpc' = [cpc EXCEPT ![k] = "idle"]
  /\ UNCHANGED <<creq, cres, calls, after, fpc, fbuf, fres, done, closed, xpc, xtodo, closeRet, inClosed, outClosed, rpos, wire, got>>

----------------------------------------------------------------------------
\* feeders: conn.go connFeeder.run
\* first select: case b = <-f.input (partner = a caller parked in its first select)
FRecvTake(f) == \E k \in Callers :
  /\ FeederOf(k) = f /\ fpc[f] = "recv" /\ cpc[k] = "sel1_parked"
  /\ fbuf' = [fbuf EXCEPT ![f] = creq[k]]
  /\ fpc' = [fpc EXCEPT ![f] = "call"]
  /\ cpc' = [cpc EXCEPT ![k] = "sel2"]
  /\ UNCHANGED <<creq, cres, calls, after, fres, done, closed, xpc, xtodo, closeRet, inClosed, outClosed, rpos, wire, got>>
FRecvDone(f) ==
  /\ fpc[f] = "recv" /\ done[f] /\ fpc' = [fpc EXCEPT ![f] = "exit"]
  /\ UNCHANGED <<cpc, creq, cres, calls, after, fbuf, fres, done, closed, xpc, xtodo, closeRet, inClosed, outClosed, rpos, wire, got>>
FRecvPark(f) ==
  /\ fpc[f] = "recv" /\ ~done[f]
  /\ ~\E k \in Callers : FeederOf(k) = f /\ cpc[k] = "sel1_parked"
  /\ fpc' = [fpc EXCEPT ![f] = "recv_parked"]
  /\ UNCHANGED <<cpc, creq, cres, calls, after, fbuf, fres, done, closed, xpc, xtodo, closeRet, inClosed, outClosed, rpos, wire, got>>
\* n, err := f.source(b): the call is made ...
SourceInvoke(f) ==
  /\ fpc[f] = "call" /\ fpc' = [fpc EXCEPT ![f] = "incall"]
  /\ UNCHANGED <<cpc, creq, cres, calls, after, fbuf, fres, done, closed, xpc, xtodo, closeRet, inClosed, outClosed, rpos, wire, got>>
\* ... and returns (environment: out.Write takes the bytes / in.Read yields a chunk, EOF or an error)
SrcRetW(ok) ==
  /\ fpc["w"] = "incall"
  /\ IF ok
     THEN /\ wire' = Append(wire, [k |-> fbuf["w"].k, id |-> fbuf["w"].id,
                                   len |-> fbuf["w"].len - Truncate, full |-> fbuf["w"].len])
          /\ fres' = [fres EXCEPT !["w"] = [n |-> fbuf["w"].len - Truncate, err |-> "nil", off |-> 0]]
     ELSE /\ fres' = [fres EXCEPT !["w"] = [n |-> 0, err |-> "other", off |-> 0]]
          /\ UNCHANGED wire
  /\ fpc' = [fpc EXCEPT !["w"] = "send"]
  /\ UNCHANGED <<cpc, creq, cres, calls, after, fbuf, done, closed, xpc, xtodo, closeRet, inClosed, outClosed, rpos, got>>
\* an open underlying writer takes the bytes, a closed one fails the write
SourceReturnW == (~outClosed /\ SrcRetW(TRUE)) \/ (outClosed /\ SrcRetW(FALSE))
SrcRetR(n, err) ==
  /\ fpc["r"] = "incall"
  /\ IF n > 0
     THEN /\ fres' = [fres EXCEPT !["r"] = [n |-> n, err |-> "nil", off |-> rpos]]
          /\ rpos' = rpos + n
     ELSE /\ fres' = [fres EXCEPT !["r"] = [n |-> 0, err |-> err, off |-> 0]]
          /\ UNCHANGED rpos
  /\ fpc' = [fpc EXCEPT !["r"] = "send"]
  /\ UNCHANGED <<cpc, creq, cres, calls, after, fbuf, done, closed, xpc, xtodo, closeRet, inClosed, outClosed, wire, got>>
\* an open underlying reader yields 1..len(b) bytes or its own EOF, a closed one fails the read
SourceReturnR ==
  /\ fpc["r"] = "incall"
  /\ \/ /\ ~inClosed /\ rpos < StreamLen
        /\ \E n \in 1..(fbuf["r"].len - Truncate) : rpos + n <= StreamLen /\ SrcRetR(n, "nil")
     \/ ~inClosed /\ rpos = StreamLen /\ SrcRetR(0, "eof")
     \/ inClosed /\ SrcRetR(0, "other")
\* second select: case f.result <- feedResult{..} (partner = the caller parked in its second select)
FSendGive(f) == \E k \in Callers :
  /\ FeederOf(k) = f /\ fpc[f] = "send" /\ cpc[k] = "sel2_parked"
  /\ Deliver(k, f)
  /\ UNCHANGED <<creq, calls, after, fbuf, fres, done, closed, xpc, xtodo, closeRet, inClosed, outClosed, rpos, wire>>
FSendDone(f) ==
  /\ fpc[f] = "send" /\ done[f] /\ fpc' = [fpc EXCEPT ![f] = "exit"]
  /\ UNCHANGED <<cpc, creq, cres, calls, after, fbuf, fres, done, closed, xpc, xtodo, closeRet, inClosed, outClosed, rpos, wire, got>>
FSendPark(f) ==
  /\ fpc[f] = "send" /\ ~done[f]
  /\ ~\E k \in Callers : FeederOf(k) = f /\ cpc[k] = "sel2_parked"
  /\ fpc' = [fpc EXCEPT ![f] = "send_parked"]
  /\ UNCHANGED <<cpc, creq, cres, calls, after, fbuf, fres, done, closed, xpc, xtodo, closeRet, inClosed, outClosed, rpos, wire, got>>

----------------------------------------------------------------------------
\* Close: c.reader.close(); c.writer.close(); c.in.Close(); c.out.Close()
\* (the property does not pin the order of the two feeders: any order is allowed here)
CloseStart(x) ==
  /\ xpc[x] = "idle" /\ xpc' = [xpc EXCEPT ![x] = "feeders"]
  /\ xtodo' = [xtodo EXCEPT ![x] = Feeders \cup {"in", "out"}]
  /\ UNCHANGED <<cpc, creq, cres, calls, after, fpc, fbuf, fres, done, closed, closeRet, inClosed, outClosed, rpos, wire, got>>
\* connFeeder.close: mu.Lock; if !closed { closed = true; close(done) }; mu.Unlock
\* close(done) resolves every goroutine parked in a select that has the done case
CloseFeeder(x, f) ==
  /\ xpc[x] = "feeders" /\ f \in Feeders /\ f \in xtodo[x]
  /\ xtodo' = [xtodo EXCEPT ![x] = @ \ {f}]
  /\ closed' = [closed EXCEPT ![f] = TRUE]
  /\ IF ~closed[f] /\ f \in CloseDone
     THEN /\ done' = [done EXCEPT ![f] = TRUE]
          /\ cpc' = [k \in Callers |->
                       IF FeederOf(k) = f /\ (cpc[k] = "sel1_parked" \/ (cpc[k] = "sel2_parked" /\ DoneInSel2))
                       THEN "ret" ELSE cpc[k]]
          /\ cres' = [k \in Callers |->
                       IF FeederOf(k) = f /\ (cpc[k] = "sel1_parked" \/ (cpc[k] = "sel2_parked" /\ DoneInSel2))
                       THEN EOFRes ELSE cres[k]]
          /\ fpc' = [fpc EXCEPT ![f] = IF @ \in {"recv_parked", "send_parked"} THEN "exit" ELSE @]
     ELSE UNCHANGED <<done, cpc, cres, fpc>>
  /\ UNCHANGED <<creq, calls, after, fbuf, fres, xpc, closeRet, inClosed, outClosed, rpos, wire, got>>
\* c.in.Close(); c.out.Close()  (after both feeders; their relative order is not pinned either)
CloseUnder(x, u) ==
  /\ xpc[x] = "feeders" /\ xtodo[x] \subseteq {"in", "out"} /\ u \in xtodo[x]
  /\ xtodo' = [xtodo EXCEPT ![x] = @ \ {u}]
  /\ IF u = "in" THEN inClosed' = TRUE /\ UNCHANGED outClosed
                 ELSE outClosed' = TRUE /\ UNCHANGED inClosed
  /\ xpc' = [xpc EXCEPT ![x] = IF xtodo[x] = {u} THEN "ret" ELSE @]
  /\ UNCHANGED <<cpc, creq, cres, calls, after, fpc, fbuf, fres, done, closed, closeRet, rpos, wire, got>>
CloseEnd(x) ==
  /\ xpc[x] = "ret" /\ xpc' = [xpc EXCEPT ![x] = "closed"] /\ closeRet' = TRUE
  /\ UNCHANGED <<cpc, creq, cres, calls, after, fpc, fbuf, fres, done, closed, xtodo, inClosed, outClosed, rpos, wire, got>>

----------------------------------------------------------------------------
CallerStep(k) == Sel1Send(k) \/ Sel1Done(k) \/ Sel1Park(k) \/ Sel2Recv(k) \/ Sel2Done(k) \/ Sel2Park(k) \/ CallEnd(k)
FeederStep(f) == FRecvTake(f) \/ FRecvDone(f) \/ FRecvPark(f) \/ SourceInvoke(f)
                 \/ FSendGive(f) \/ FSendDone(f) \/ FSendPark(f)
CloserStep(x) == (\E f \in Feeders : CloseFeeder(x, f)) \/ (\E u \in {"in", "out"} : CloseUnder(x, u)) \/ CloseEnd(x)
Env == SourceReturnW \/ SourceReturnR
Next == \/ \E k \in Callers : CallStart(k) \/ CallerStep(k)
        \/ \E f \in Feeders : FeederStep(f)
        \/ \E x \in Closers : CloseStart(x) \/ CloserStep(x)
        \/ Env

\* callers and Close keep running once started; nothing is assumed about the feeders' speed, and
\* the underlying reader / writer (Env) may block for ever
Spec == Init /\ [][Next]_vars
             /\ \A k \in Callers : WF_vars(CallerStep(k))
             /\ \A x \in Closers : WF_vars(CloserStep(x))

----------------------------------------------------------------------------
\* Properties (statement of C41)
\* bytes reaching the underlying writer are whole Write payloads, each at most once,
\* in call order per caller
WholePayloads ==
  /\ \A i \in 1..Len(wire) : /\ wire[i].k \in Writers
                            /\ wire[i].id \in 1..calls[wire[i].k]
                            /\ wire[i].len = wire[i].full
  /\ \A i, j \in 1..Len(wire) : (i < j /\ wire[i].k = wire[j].k) => wire[i].id < wire[j].id
\* a Write that reports success has delivered its payload
SuccessDelivered == \A k \in Writers :
  (cpc[k] = "ret" /\ cres[k].err = "nil") =>
      /\ cres[k].n = creq[k].len
      /\ \E i \in 1..Len(wire) : wire[i].k = k /\ wire[i].id = creq[k].id
\* bytes returned by Read are the underlying stream in order: increasing, non-overlapping
\* chunks; contiguous as long as no Close interfered
ReadInOrder ==
  /\ \A i \in 1..Len(got) : got[i].off + got[i].n <= rpos
  /\ \A i \in 1..(Len(got) - 1) : got[i].off + got[i].n <= got[i + 1].off
  /\ (~done["r"] /\ Len(got) > 0) => got[1].off = 0
  /\ ~done["r"] => \A i \in 1..(Len(got) - 1) : got[i].off + got[i].n = got[i + 1].off
\* a result goes to the caller whose request the feeder holds
ResultToOwner == \A k \in Callers :
  cpc[k] \in {"sel2", "sel2_parked"} => fbuf[FeederOf(k)].k = k \/ fpc[FeederOf(k)] = "exit"
                                         \/ done[FeederOf(k)]
\* after Close has returned every do started later returns (0, EOF)
AfterCloseEOF == \A k \in Callers : (cpc[k] = "ret" /\ after[k]) => cres[k] = EOFRes
\* a call started after Close never reaches the underlying stream
AfterCloseNoIO == \A k \in Callers : (after[k] /\ cpc[k] # "idle") => cpc[k] \in {"sel1", "ret"}
\* every pending do returns once Close is called
CloseUnblocks == \A k \in Callers :
  ((\E x \in Closers : xpc[x] # "idle") /\ cpc[k] # "idle") ~> (cpc[k] = "idle")
CloseReturns == \A x \in Closers : (xpc[x] # "idle") ~> (xpc[x] = "closed")
=============================================================================
