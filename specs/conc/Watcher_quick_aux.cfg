SPECIFICATION Spec
CONSTANTS
  Producers = {"p1"}
  Consumers = {"c1","c2"}
  Aux = {"a1"}
  Files = {"a/x.go", "a/y.xgo", "b/x.go"}
  DirOf <- StdDirOf
  MaxReports = 2
  MaxFetches = 1
  MaxAux = 1
  Bcast = "broadcast"
  IfN = "eq0"
  Loop = "for"
  Delete = TRUE
  NRead = "locked"
INVARIANTS TypeOK NoSpurious AtMostOncePerReport NoLost MutexInv WakeInv NoLostWakeup

