SPECIFICATION Spec
CONSTANTS
  Producers = {"p1","p2"}
  Consumers = {"c1","c2"}
  Aux = {}
  Files = {"a/x.go", "b/x.go"}
  DirOf <- StdDirOf
  MaxReports = 1
  MaxFetches = 1
  MaxAux = 1
  Bcast = "broadcast"
  IfN = "eq0"
  Loop = "for"
  Delete = TRUE
  NRead = "locked"
INVARIANTS TypeOK NoSpurious AtMostOncePerReport NoLost MutexInv WakeInv NoLostWakeup
PROPERTIES Wakes FCReturns
