SPECIFICATION Spec
CONSTANTS
  Depth = 3
  WideDepth = 1
  Atoms = {"a", "b"}
  GenPool = "small"
  GenRules = 1
INVARIANTS TypeOK RoundTrip ParensMinimal NoEmptyRule PrintParse Export
PROPERTY Terminates
