SPECIFICATION Spec
CONSTANTS
  AtomVals = {"1", "2"}
  Seps = {"+", "*"}
  MaxTail = 4
  ElemTail = 1
  NestTail = 2
  DeepTail = 2
  Nums = {1}
  MaxOperands = 1
  WithNeg = FALSE
  CmpOps = {}
INVARIANTS TypeOK FoldInv LeftFold SourceOrder Distinguishes Export
PROPERTY Terminates ReadOnly
