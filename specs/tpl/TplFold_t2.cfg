SPECIFICATION Spec
CONSTANTS
  AtomVals = {"1", "2", "3"}
  Seps = {"+", "-", "*"}
  MaxTail = 4
  ElemTail = 0
  NestTail = 0
  DeepTail = 0
  Nums = {1}
  MaxOperands = 1
  WithNeg = FALSE
  CmpOps = {}
INVARIANTS TypeOK FoldInv LeftFold SourceOrder Distinguishes Export
PROPERTY Terminates ReadOnly
