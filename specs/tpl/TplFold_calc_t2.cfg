SPECIFICATION SpecCalc
CONSTANTS
  AtomVals = {"1"}
  Seps = {"+"}
  MaxTail = 0
  ElemTail = 0
  NestTail = 0
  DeepTail = 0
  Nums = {1, 2, 3}
  MaxOperands = 5
  WithNeg = FALSE
  CmpOps = {}
INVARIANTS TypeOK CalcIsPrecedenceClimbing ExportCalc
PROPERTY Terminates
