SPECIFICATION Spec
CONSTANTS
  Dialect = "code"
  TokLeaves = {"a", ","}
  DocDepth = 2
  SubDepth = 0
  Wide = TRUE
  Slim = FALSE
  Alphabet = {"a", ","}
  MaxInput = 2
INVARIANTS TypeOK StackDistinct Consumes Bounded NoHang RejectSound Export
PROPERTY Terminates
