------------------------------- MODULE TplFold -------------------------------
(* C30 -- the result helpers of tpl (tpl/tpl.go): List, ListOp, RangeOp,      *)
(* BinaryOp / BinaryExpr (recursive R and non-recursive NR variants).         *)
(*                                                                           *)
(* The match result of `R % sep` is (README, "Matching Results") the          *)
(* two-level list  [r0, [[s1, r1], [s2, r2], ...]].  Here it is the record     *)
(*     [k |-> "lr", v, hd |-> <<r0>>, tl |-> << [op |-> s1, x |-> r1], ... >>] *)
(* and an element is an atom [k |-> "at", v |-> value] or again an "lr"      *)
(* (the result of a nested `(R % s1) % s2`).                                  *)
(*                                                                           *)
(* Part 1 (Spec): the helpers as a loop machine over the tail.  List /        *)
(* ListOp / RangeOp visit r0, r1, ... in source order; BinaryOp / BinaryExpr  *)
(* combine them from the left, fn(s_k, acc, r_k), taking the separators in    *)
(* order; the R variants first fold every element that is itself a list, the  *)
(* NR variants hand it to fn as it is.  The combination is symbolic (a        *)
(* string "(x+y)"), so associativity cannot hide a wrong order.               *)
(*                                                                           *)
(* Part 2 (SpecCalc): the calculator grammar of the README                    *)
(*     expr = operand % "*" % ("+" | "-") % ("<" | ">")                       *)
(*                                          => BinaryOp(true, self, fn)      *)
(*     operand = basicLit | unaryExpr | "(" expr ")"                          *)
(* For every arithmetic expression tree of the bound, printed with minimal    *)
(* parentheses: the value obtained by matching the text into the nested `%`   *)
(* structure and folding it (CalcFold) equals the value of a reference        *)
(* precedence-climbing evaluator (PCValue) and the value of the tree.         *)
EXTENDS Integers, Sequences, FiniteSets, TLC, VerifIO

CONSTANTS AtomVals,     \* part 1: atom spellings, e.g. {"1", "2"}
          Seps,         \* part 1: separator spellings, e.g. {"+", "*"}
          MaxTail,      \* part 1: longest tail of a flat list result
          ElemTail,     \* part 1: longest tail of an element that is itself a list result
          NestTail,     \* part 1: longest tail of a list result with such elements
          DeepTail,     \* part 1: 0 = no THREE-level list results, n > 0 = those with tails <= n - 1
          Nums,         \* part 2: operand values
          MaxOperands,  \* part 2: operands per expression
          WithNeg,      \* part 2: TRUE = also every placement of one unary minus
          CmpOps        \* part 2: operators of the third (lowest) % level, {"<", ">"} or {}

-----------------------------------------------------------------------------
\* Part 1: list results
At(v)        == [k |-> "at", v |-> v, hd |-> <<>>, tl |-> <<>>]
LR(h, tail)  == [k |-> "lr", v |-> "", hd |-> <<h>>, tl |-> tail]
Pair(s, x)   == [op |-> s, x |-> x]

RECURSIVE SeqsUpTo(_, _)
SeqsUpTo(S, n) == IF n = 0 THEN {<<>>} ELSE LET P == SeqsUpTo(S, n - 1) IN P \cup { Append(p, x) : p \in { q \in P : Len(q) = n - 1 }, x \in S }

Atoms    == { At(v) : v \in AtomVals }
PairsOf(E) == { Pair(s, x) : s \in Seps, x \in E }
FlatLRs(n) == { LR(h, t) : h \in Atoms, t \in SeqsUpTo(PairsOf(Atoms), n) }
NestElems == Atoms \cup FlatLRs(ElemTail)
NestedLRs == { LR(h, t) : h \in NestElems, t \in SeqsUpTo(PairsOf(NestElems), NestTail) }
\* three levels, the result of `((R % s1) % s2) % s3`: an element is a list result whose elements are list
\* results.  BinaryOpR / BinaryExprR must recurse all the way down.  Representative level-1 elements keep it small.
D1 == IF AtomVals = {} \/ Seps = {} THEN {} ELSE
      LET a  == CHOOSE x \in AtomVals : TRUE
          b  == IF \E x \in AtomVals : x # a THEN CHOOSE x \in AtomVals : x # a ELSE a
          s1 == CHOOSE x \in Seps : TRUE
          s2 == IF \E x \in Seps : x # s1 THEN CHOOSE x \in Seps : x # s1 ELSE s1
      IN  { At(a), LR(At(a), <<Pair(s1, At(b))>>), LR(At(b), <<Pair(s2, At(a))>>) }
D2 == { LR(x, <<>>) : x \in D1 } \cup { LR(x, <<Pair(s, y)>>) : x \in D1, s \in Seps, y \in D1 }
DeepLRs == IF DeepTail = 0 THEN {} ELSE { LR(h, t) : h \in D2, t \in SeqsUpTo(PairsOf(D2), DeepTail - 1) }
ListResults == FlatLRs(MaxTail) \cup NestedLRs \cup DeepLRs

\* how fn sees an element that is not folded: the harness renders []any the same way
RECURSIVE Show(_), ShowTail(_)
Show(e) == IF e.k = "at" THEN e.v ELSE "[" \o Show(e.hd[1]) \o ShowTail(e.tl) \o "]"
ShowTail(t) == IF t = <<>> THEN "" ELSE " " \o t[1].op \o Show(t[1].x) \o ShowTail(Tail(t))

App(op, x, y) == "(" \o x \o op \o y \o ")"

\* the documented meaning: left fold, separators in order; R folds nested elements first
RECURSIVE FoldL(_, _, _)
Operand(e, rec) == IF rec /\ e.k = "lr" THEN FoldL(e, Len(e.tl), rec) ELSE Show(e)
FoldL(l, n, rec) == IF n = 0 THEN Operand(l.hd[1], rec)
                    ELSE App(l.tl[n].op, FoldL(l, n - 1, rec), Operand(l.tl[n].x, rec))
\* the wrong meaning, to show the cases can tell the difference
RECURSIVE FoldRight(_, _, _)
FoldRight(l, i, rec) == IF i > Len(l.tl) THEN ""
                        ELSE IF i = Len(l.tl) THEN Operand(l.tl[i].x, rec)
                        ELSE App(l.tl[i + 1].op, Operand(l.tl[i].x, rec), FoldRight(l, i + 1, rec))
Elements(l) == <<l.hd[1]>> \o [ i \in 1..Len(l.tl) |-> l.tl[i].x ]

VARIABLES obj,    \* part 1: the list result; part 2: the expression tree
          rec,    \* part 1: R (TRUE) or NR (FALSE) variant; part 2: unused (TRUE)
          i,      \* elements of the tail consumed so far
          acc,    \* BinaryOp accumulator (part 2: the calculator's value)
          log,    \* elements visited so far, as List / ListOp / RangeOp see them (part 2: the printed tokens)
          pc
vars == <<obj, rec, i, acc, log, pc>>

Init == /\ obj \in ListResults /\ rec \in BOOLEAN
        /\ i = 0 /\ acc = "" /\ log = <<>> /\ pc = "head"

\* tpl.go BinaryOpR/NR: ret := in[0] (R: folded first);  List/RangeOp: ret[0] = in[0]
HeadStep == /\ pc = "head"
        /\ acc' = Operand(obj.hd[1], rec) /\ log' = <<Show(obj.hd[1])>>
        /\ pc' = "loop" /\ UNCHANGED <<obj, rec, i>>
\* tpl.go: for _, v := range in[1] { next := v.([]any); op := next[0]; y := next[1]; ret = fn(op, ret, y) }
LoopStep == /\ pc = "loop" /\ i < Len(obj.tl)
        /\ LET p == obj.tl[i + 1] IN
           /\ acc' = App(p.op, acc, Operand(p.x, rec))
           /\ log' = Append(log, Show(p.x))
        /\ i' = i + 1 /\ UNCHANGED <<obj, rec, pc>>
FinishStep == /\ pc = "loop" /\ i = Len(obj.tl)
          /\ pc' = "done" /\ UNCHANGED <<obj, rec, i, acc, log>>
Next == HeadStep \/ LoopStep \/ FinishStep
Spec == Init /\ [][Next]_vars /\ WF_vars(Next)

TypeOK == pc \in {"head", "loop", "done", "print", "eval"} /\ i \in 0..8
\* loop invariant: the accumulator is the left fold of the prefix
FoldInv == pc = "loop" => acc = FoldL(obj, i, rec)
LeftFold == pc = "done" => acc = FoldL(obj, Len(obj.tl), rec)
\* List / ListOp / RangeOp: the elements in source order
SourceOrder == pc = "done" => log = [ j \in 1..(Len(obj.tl) + 1) |-> Show(Elements(obj)[j]) ]
\* vacuity guard: with two or more tail elements a right fold is a different term
Distinguishes == (pc = "done" /\ Len(obj.tl) >= 2) => acc # App(obj.tl[1].op, Operand(obj.hd[1], rec), FoldRight(obj, 1, rec))
Terminates == <>(pc = "done")
\* the helpers only read the match result: no action of the fold machine changes obj (tpl.go: List must not
\* build its result inside in's backing array, BinaryOp must not write into the lists it walks)
ReadOnly == [][obj' = obj]_vars

Export == pc = "done" => Emit([lr |-> obj, rec |-> rec, fold |-> acc, order |-> log, readonly |-> TRUE])

-----------------------------------------------------------------------------
\* Part 2: arithmetic expressions and the calculator
Num(n)        == [k |-> "num", n |-> n, op |-> "",  xs |-> <<>>]
Neg(x)        == [k |-> "neg", n |-> 0, op |-> "-", xs |-> <<x>>]
Bin(o, x, y)  == [k |-> "bin", n |-> 0, op |-> o,   xs |-> <<x, y>>]
Ops == {"+", "-", "*"} \cup CmpOps

RECURSIVE TreesN(_)
TreesN(n) == IF n = 1 THEN { Num(v) : v \in Nums }
             ELSE UNION { { Bin(o, l, r) : o \in Ops, l \in TreesN(m), r \in TreesN(n - m) } : m \in 1..(n - 1) }
RECURSIVE NegVariants(_)
NegVariants(t) == {Neg(t)} \cup
   (IF t.k = "bin" THEN { Bin(t.op, l, t.xs[2]) : l \in NegVariants(t.xs[1]) } \cup { Bin(t.op, t.xs[1], r) : r \in NegVariants(t.xs[2]) }
    ELSE {})
\* (the set of all trees is never built as one value: InitCalc / PrintStep enumerate it piecewise)

RECURSIVE Eval(_)
Apply(o, x, y) == CASE o = "+" -> x + y [] o = "-" -> x - y [] o = "*" -> x * y
                    [] o = "<" -> (IF x < y THEN 1 ELSE 0) [] o = ">" -> (IF x > y THEN 1 ELSE 0)   \* as in C
Eval(t) == CASE t.k = "num" -> t.n
             [] t.k = "neg" -> 0 - Eval(t.xs[1])
             [] t.k = "bin" -> Apply(t.op, Eval(t.xs[1]), Eval(t.xs[2]))

\* minimal parentheses for the calculator's precedence: + - (1) < * (2) < unary minus (3) < number (4); left associative
Level(t) == CASE t.k = "num" -> 5 [] t.k = "neg" -> 4 [] t.op = "*" -> 3 [] t.op \in {"+", "-"} -> 2 [] OTHER -> 1
NumTok(n) == ToString(n)
RECURSIVE PrE(_), PrEAt(_, _)
PrEAt(t, p) == IF Level(t) < p THEN <<"(">> \o PrE(t) \o <<")">> ELSE PrE(t)
PrE(t) == CASE t.k = "num" -> <<NumTok(t.n)>>
            [] t.k = "neg" -> <<"-">> \o PrEAt(t.xs[1], 4)
            [] t.k = "bin" -> PrEAt(t.xs[1], Level(t)) \o <<t.op>> \o PrEAt(t.xs[2], Level(t) + 1)

TokE(ts, j) == IF j <= Len(ts) THEN ts[j] ELSE "<eof>"
IsNumTok(c) == \E n \in Nums : NumTok(n) = c
ValOf(c) == CHOOSE n \in Nums : NumTok(n) = c

\* (a) the reference: precedence climbing over the tokens.  A result is [v, j].
BinPrec(c) == IF c = "*" THEN 3 ELSE IF c \in {"+", "-"} THEN 2 ELSE IF c \in {"<", ">"} THEN 1 ELSE 0
RECURSIVE PCExpr(_, _, _), PCLoop(_, _, _, _), PCPrimary(_, _)
PCPrimary(ts, j) ==
  LET c == TokE(ts, j) IN
  IF IsNumTok(c) THEN [v |-> ValOf(c), j |-> j + 1]
  ELSE IF c = "-" THEN LET r == PCPrimary(ts, j + 1) IN [v |-> 0 - r.v, j |-> r.j]
  ELSE \* "("
       LET r == PCExpr(ts, j + 1, 1) IN [v |-> r.v, j |-> r.j + 1]
PCLoop(ts, j, lhs, minp) ==
  LET c == TokE(ts, j) IN
  IF BinPrec(c) >= minp /\ BinPrec(c) > 0
  THEN LET r == PCExpr(ts, j + 1, BinPrec(c) + 1) IN PCLoop(ts, r.j, Apply(c, lhs, r.v), minp)
  ELSE [v |-> lhs, j |-> j]
PCExpr(ts, j, minp) == LET r == PCPrimary(ts, j) IN PCLoop(ts, r.j, r.v, minp)
PCValue(ts) == PCExpr(ts, 1, 1).v

\* (b) the calculator: match the text into the nested % structure, then BinaryOp(true, ...).
\*     expr = ((operand % "*") % ("+" | "-")) % ("<" | ">");  operand results are numbers (their rules rewrite
\*     the result).  Three % levels: BinaryOp(true, ...) has to recurse through two levels of nested lists.
NAt(n)       == [k |-> "at", v |-> n, hd |-> <<>>, tl |-> <<>>]
RECURSIVE CCmp(_, _), CCmpTail(_, _, _), CExpr(_, _), CExprTail(_, _, _), CTerm(_, _), CTermTail(_, _, _), COperand(_, _), NumFold(_, _)
\* BinaryOpR with the calculator's fn
NumOperand(e) == IF e.k = "lr" THEN NumFold(e, Len(e.tl)) ELSE e.v
NumFold(l, n) == IF n = 0 THEN NumOperand(l.hd[1]) ELSE Apply(l.tl[n].op, NumFold(l, n - 1), NumOperand(l.tl[n].x))
COperand(ts, j) ==
  LET c == TokE(ts, j) IN
  IF IsNumTok(c) THEN [e |-> NAt(ValOf(c)), j |-> j + 1]                          \* basicLit
  ELSE IF c = "-" THEN LET r == COperand(ts, j + 1) IN [e |-> NAt(0 - r.e.v), j |-> r.j]   \* unaryExpr => -self[1]
  ELSE LET r == CCmp(ts, j + 1) IN [e |-> NAt(NumFold(r.e, Len(r.e.tl))), j |-> r.j + 1]   \* "(" expr ")" => self[1]
CTermTail(ts, j, l) ==
  IF TokE(ts, j) = "*" THEN LET r == COperand(ts, j + 1) IN CTermTail(ts, r.j, LR(l.hd[1], Append(l.tl, Pair("*", r.e))))
  ELSE [e |-> l, j |-> j]
CTerm(ts, j) == LET r == COperand(ts, j) IN CTermTail(ts, r.j, LR(r.e, <<>>))
CExprTail(ts, j, l) ==
  IF TokE(ts, j) \in {"+", "-"} THEN LET r == CTerm(ts, j + 1) IN CExprTail(ts, r.j, LR(l.hd[1], Append(l.tl, Pair(TokE(ts, j), r.e))))
  ELSE [e |-> l, j |-> j]
CExpr(ts, j) == LET r == CTerm(ts, j) IN CExprTail(ts, r.j, LR(r.e, <<>>))
CCmpTail(ts, j, l) ==
  IF TokE(ts, j) \in {"<", ">"} THEN LET r == CExpr(ts, j + 1) IN CCmpTail(ts, r.j, LR(l.hd[1], Append(l.tl, Pair(TokE(ts, j), r.e))))
  ELSE [e |-> l, j |-> j]
CCmp(ts, j) == LET r == CExpr(ts, j) IN CCmpTail(ts, r.j, LR(r.e, <<>>))
CalcStructure(ts) == CCmp(ts, 1).e
CalcFold(ts) == LET s == CalcStructure(ts) IN NumFold(s, Len(s.tl))

\* every plain tree of 1..MaxOperands operands; the top split is chosen here so that no giant set is built
InitCalc == /\ \E n \in 1..MaxOperands :
                 IF n = 1 THEN obj \in TreesN(1)
                 ELSE \E m \in 1..(n - 1) : \E o \in Ops : \E l \in TreesN(m) : \E r \in TreesN(n - m) : obj = Bin(o, l, r)
            /\ rec = TRUE /\ i = 0 /\ acc = 0 /\ log = <<>> /\ pc = "print"
\* print the expression -- as it is, or with one unary minus placed anywhere -- with minimal parentheses
PrintStep == /\ pc = "print"
             /\ \E t \in {obj} \cup (IF WithNeg THEN NegVariants(obj) \cup (IF obj.k = "num" THEN {Neg(Neg(obj))} ELSE {}) ELSE {}) :
                   obj' = t /\ log' = PrE(t)
             /\ pc' = "eval" /\ UNCHANGED <<rec, i, acc>>
\* Compiler.ParseExpr of the calculator: match into the % structure and fold it
EvalStep == /\ pc = "eval" /\ acc' = CalcFold(log) /\ pc' = "done" /\ UNCHANGED <<obj, rec, i, log>>
NextCalc == PrintStep \/ EvalStep
SpecCalc == InitCalc /\ [][NextCalc]_vars /\ WF_vars(NextCalc)

\* the calculator built from % and BinaryOp computes what precedence climbing computes, and both the tree's value
CalcIsPrecedenceClimbing == pc = "done" => (acc = PCValue(log) /\ acc = Eval(obj))
ExportCalc == pc = "done" => Emit([expr |-> log, val |-> acc, lr |-> CalcStructure(log)])
=============================================================================
