SPECIFICATION Spec
CONSTANTS
  Depth = 3
  WideDepth = 1
  Atoms = {"a", "S", "C"}
  GenPool = "small"
  GenRules = 1
INVARIANTS TypeOK RoundTrip ParensMinimal NoEmptyRule PrintParse Export
PROPERTY Terminates
