------------------------------ MODULE TplMatch ------------------------------
(* C28 / C29 -- the tpl matcher (tpl/matcher/match.go) as a small-step       *)
(* machine with an explicit stack over (grammar node, input position).       *)
(*                                                                           *)
(* A grammar is a tuple of rules (rule 1 = doc, rule 2 = r2); a rule is a    *)
(* tree of nodes [k, v, xs]:                                                 *)
(*   tok v        a token matcher: v = "IDENT" (class), an identifier v      *)
(*                (keyword literal "v") or a punctuation token               *)
(*   eps          the empty string literal ""  (matcher.True)                *)
(*   opt star plus  ?x *x +x          seq alt   x1 .. xn / x1 | .. | xn      *)
(*   list         x % y  (README: shorthand for x *(y x))                    *)
(*   adj          x ++ y              ref v     reference to rule v          *)
(* An input is a sequence of [tok, gap]: gap = white space before the token. *)
(*                                                                           *)
(* README result construction: token -> the token; sequence -> n-element     *)
(* list; *x +x -> list of the iterations; ?x -> result of x or nil;          *)
(* x % y -> [x, [[y, x], ...]] (two levels); x ++ y -> pair; choice -> the   *)
(* result of the alternative taken.  Ordered choice, greedy repetition       *)
(* without backtracking, `++` needs touching tokens.  Where the README is    *)
(* silent the machine is nondeterministic (AltCommit / AltNext: what happens *)
(* after an alternative failed having consumed input) or sets `undoc`        *)
(* (`++` with an operand that matched nothing).  The flag `code` stays TRUE  *)
(* on the behaviour that follows the implementation's `stops` rule, computed *)
(* from the First sets like Choices.CheckConflicts does.                     *)
(*                                                                           *)
(* Termination (C28).  The matcher is deterministic and has no memory, so it *)
(* diverges iff a repetition body succeeds without consuming (the same call  *)
(* repeats for ever) or a (node, position) pair is called while it is still  *)
(* on the stack.  The machine detects both and stops in pc = "hang" naming   *)
(* the cause (`why`).  Dialect "guarded" is the implementation since commits *)
(* 9896edf / a8daf6b (and what every registered cfg uses): a repetition ends *)
(* on an iteration that consumed nothing and every left-recursive rule is    *)
(* rejected at compile time; TLC proves NoHang and <>halted for it.  Dialect *)
(* "code" is the implementation before those commits (compile time rejects   *)
(* only recursion that First meets while checking a choice); it is kept to   *)
(* document the two divergences and to name them when they come back.        *)
EXTENDS Integers, Sequences, FiniteSets, TLC, VerifIO

CONSTANTS Dialect,      \* "code" | "guarded"
          TokLeaves,    \* token matchers used as leaves, e.g. {"a", ","} or {"a", "IDENT", ","}
          DocDepth,     \* depth of rule doc (leaf = 1)
          SubDepth,     \* depth of rule r2; 0 = single-rule grammars
          Wide,         \* TRUE: also 3-ary seq / alt over leaves
          Slim,         \* TRUE: above depth 2 a binary node has a leaf operand (thins the deepest layer)
          Alphabet,     \* input tokens
          MaxInput      \* longest input

Idents == {"a", "b", "c"}                    \* identifier tokens (cannot touch each other)
RuleName == <<"doc", "r2">>
RuleIdx(v) == IF v = "doc" THEN 1 ELSE 2
NRules == IF SubDepth = 0 THEN 1 ELSE 2

N(k, v, xs) == [k |-> k, v |-> v, xs |-> xs]
LeafSet == { N("tok", v, <<>>) : v \in TokLeaves } \cup { N("eps", "", <<>>) }
           \cup { N("ref", RuleName[i], <<>>) : i \in 1..NRules }
UnKinds  == {"opt", "star", "plus"}
BinKinds == {"seq", "alt", "list", "adj"}

RECURSIVE Exprs(_)
Exprs(d) == IF d <= 1 THEN LeafSet
            ELSE LET S == Exprs(d - 1)
                     Pairs == IF Slim /\ d > 2 THEN (S \X LeafSet) \cup (LeafSet \X S) ELSE S \X S
                 IN
                 S \cup { N(k, "", <<x>>) : k \in UnKinds, x \in S }
                   \cup { N(k, "", <<xy[1], xy[2]>>) : k \in BinKinds, xy \in Pairs }
                   \cup (IF Wide THEN { N(k, "", <<x, y, z>>) : k \in {"seq", "alt"}, x \in LeafSet, y \in LeafSet, z \in LeafSet }
                         ELSE {})

RECURSIVE Mentions(_, _)
Mentions(t, v) == (t.k = "ref" /\ t.v = v) \/ \E i \in 1..Len(t.xs) : Mentions(t.xs[i], v)

Grammars == IF SubDepth = 0 THEN { <<d>> : d \in Exprs(DocDepth) }
            ELSE { <<d, r>> : d \in { e \in Exprs(DocDepth) : Mentions(e, "r2") }, r \in Exprs(SubDepth) }

\* README: R1 % R2 is shorthand for R1 *(R2 R1)   (matcher.List)
RECURSIVE Desugar(_)
Desugar(t) == IF t.k = "list"
              THEN LET x == Desugar(t.xs[1])  y == Desugar(t.xs[2])
                   IN  N("seq", "", <<x, N("star", "", <<N("seq", "", <<y, x>>)>>)>>)
              ELSE N(t.k, t.v, [ i \in 1..Len(t.xs) |-> Desugar(t.xs[i]) ])

\* all inputs up to MaxInput; the gap flags vary only for grammars with a `++` (nothing else looks at them)
RECURSIVE HasAdj(_)
HasAdj(t) == t.k = "adj" \/ \E i \in 1..Len(t.xs) : HasAdj(t.xs[i])
InputsFor(g) ==
  LET adj == \E r \in 1..Len(g) : HasAdj(g[r]) IN
  UNION { { s \in [1..n -> [tok : Alphabet, gap : BOOLEAN]] :
              /\ n > 0 => s[1].gap = FALSE
              /\ \A i \in 2..n : (s[i - 1].tok \in Idents /\ s[i].tok \in Idents) => s[i].gap
              /\ ~adj => \A i \in 2..n : s[i].gap }
          : n \in 0..MaxInput }

\* result values: every value is [t, l]
Tk(s)   == [t |-> s, l |-> <<>>]
Nil     == [t |-> "nil", l |-> <<>>]
Lst(xs) == [t |-> "list", l |-> xs]

-----------------------------------------------------------------------------
\* First sets and the compile-time analysis (match.go: First, Choices.CheckConflicts; cl.NewEx)
FirstElem(v) == IF v \in Idents THEN <<"lit", v>> ELSE <<"class", v>>
Rec == [f |-> {}, e |-> FALSE, rec |-> TRUE]

RECURSIVE FirstOf(_, _, _), SeqFirst(_, _, _, _)
\* Var.First empties the variable while it is being visited: `vis` = variables in progress
FirstOf(g, t, vis) ==
  CASE t.k = "tok"  -> [f |-> {FirstElem(t.v)}, e |-> FALSE, rec |-> FALSE]
    [] t.k = "eps"  -> [f |-> {}, e |-> TRUE, rec |-> FALSE]
    [] t.k \in {"opt", "star"} -> LET r == FirstOf(g, t.xs[1], vis) IN [f |-> r.f, e |-> TRUE, rec |-> r.rec]
    [] t.k = "plus" -> FirstOf(g, t.xs[1], vis)
    [] t.k = "adj"  -> LET r == FirstOf(g, t.xs[1], vis) IN [f |-> r.f, e |-> FALSE, rec |-> r.rec]
    [] t.k = "alt"  -> LET rs == [ i \in 1..Len(t.xs) |-> FirstOf(g, t.xs[i], vis) ] IN
                       [f   |-> UNION { rs[i].f : i \in 1..Len(t.xs) },
                        e   |-> \E i \in 1..Len(t.xs) : rs[i].e,
                        rec |-> \E i \in 1..Len(t.xs) : rs[i].rec]
    [] t.k = "seq"  -> SeqFirst(g, t.xs, 1, vis)
    [] t.k = "ref"  -> IF RuleIdx(t.v) \in vis THEN Rec           \* RecursiveError
                       ELSE FirstOf(g, g[RuleIdx(t.v)], vis \cup {RuleIdx(t.v)})
\* gSequence.First: items are visited while the previous ones may be empty
SeqFirst(g, xs, i, vis) ==
  LET r == FirstOf(g, xs[i], vis) IN
  IF r.rec \/ ~r.e \/ i = Len(xs) THEN r
  ELSE LET q == SeqFirst(g, xs, i + 1, vis) IN [f |-> r.f \cup q.f, e |-> q.e, rec |-> q.rec]

\* matcher.hasConflict: a literal meets only the same literal; a class meets itself and its literals
ElemConflict(m, next) == IF m[1] = "lit" THEN m \in next
                         ELSE m \in next \/ (m[2] = "IDENT" /\ \E x \in next : x[1] = "lit")
Conflict(me, next) == \E m \in me : ElemConflict(m, next)
\* Choices.CheckConflicts: option i stops the choice iff its First meets no later option's First
Stops(g, t, i) == ~\E j \in (i + 1)..Len(t.xs) :
                     Conflict(FirstOf(g, t.xs[i], {}).f, FirstOf(g, t.xs[j], {}).f)

RECURSIVE AltNodes(_)
AltNodes(t) == (IF t.k = "alt" THEN {t} ELSE {}) \cup UNION { AltNodes(t.xs[i]) : i \in 1..Len(t.xs) }
\* cl.NewEx today: RecursiveError only when First is computed for an option of some choice
AcceptCode(g) == \A r \in 1..Len(g) : \A c \in AltNodes(g[r]) : \A i \in 1..Len(c.xs) : ~FirstOf(g, c.xs[i], {}).rec
\* repaired design: additionally First of every rule must not meet the rule again (no left recursion)
AcceptGuarded(g) == AcceptCode(g) /\ \A r \in 1..Len(g) : ~FirstOf(g, g[r], {r}).rec
Accept(g) == IF Dialect = "code" THEN AcceptCode(g) ELSE AcceptGuarded(g)

-----------------------------------------------------------------------------
VARIABLES gram,    \* the grammar as written (with list nodes)
          G,       \* the grammar the matcher runs: gram with x % y expanded (matcher.List)
          inp,     \* the input
          stack,   \* frames [p, pos, i, n, acc]: node path, start position, child index, consumed, partial results
          ret,     \* result register [st, n, val]: st = "none" | "ok" | "fail"
          pc,      \* "init" | "run" | "done" | "hang" | "rejected"
          undoc,   \* the behaviour passed through a situation the README does not describe
          code,    \* every AltCommit / AltNext taken so far is the one the implementation's stops rule takes
          why,     \* cause of a hang
          an,      \* compile-time analysis of G: [code, guarded] = accepted by today's / the repaired analysis
          steps    \* number of machine steps taken (for the bound proved as an invariant)
vars == <<gram, G, an, inp, stack, ret, pc, undoc, code, why, steps>>

RECURSIVE Sub(_, _)
Sub(t, p) == IF p = <<>> THEN t ELSE Sub(t.xs[p[1]], Tail(p))
NodeAt(p) == Sub(G[p[1]], Tail(p))

NoRet     == [st |-> "none", n |-> 0, val |-> Nil]
OkR(n, v) == [st |-> "ok",   n |-> n, val |-> v]
FailR(n)  == [st |-> "fail", n |-> n, val |-> Nil]
Frame(p, pos) == [p |-> p, pos |-> pos, i |-> 0, n |-> 0, acc |-> <<>>]
Top == stack[Len(stack)]
Pop == SubSeq(stack, 1, Len(stack) - 1)
WithTop(f) == [stack EXCEPT ![Len(stack)] = f]
OnStack(stk, p, pos) == \E k \in 1..Len(stk) : stk[k].p = p /\ stk[k].pos = pos

TokMatches(v, tk) == IF v = "IDENT" THEN tk \in Idents ELSE v = tk
\* gToken.Match / gLiteral.Match / gTrue.Match
LeafRet(nd, pos) == IF nd.k = "eps" THEN OkR(0, Nil)
                    ELSE IF pos < Len(inp) /\ TokMatches(nd.v, inp[pos + 1].tok) THEN OkR(1, Tk(inp[pos + 1].tok))
                    ELSE FailR(0)

\* Call the node at path p at position pos on top of stack stk.  Leaves answer at once; a composite
\* node is pushed -- unless the same call is already in progress (unbounded recursion).
Invoke(stk, p, pos) ==
  LET nd == NodeAt(p) IN
  IF nd.k \in {"tok", "eps"} THEN
       /\ stack' = stk /\ ret' = LeafRet(nd, pos) /\ pc' = pc /\ why' = why
  ELSE IF OnStack(stk, p, pos) THEN
       /\ stack' = stk /\ ret' = NoRet /\ pc' = "hang" /\ why' = "left-recursion"
  ELSE /\ stack' = Append(stk, Frame(p, pos)) /\ ret' = NoRet /\ pc' = pc /\ why' = why
Return(r) == /\ stack' = Pop /\ ret' = r /\ pc' = pc /\ why' = why
ChildPath(f, i) == IF NodeAt(f.p).k = "ref" THEN <<RuleIdx(NodeAt(f.p).v)>> ELSE Append(f.p, i)

Init == /\ gram \in Grammars /\ inp \in InputsFor(gram)
        /\ G = [ r \in 1..Len(gram) |-> Desugar(gram[r]) ]
        /\ an = [code |-> AcceptCode(G), guarded |-> AcceptGuarded(G)]
        /\ stack = <<>> /\ ret = NoRet /\ pc = "init" /\ undoc = FALSE /\ code = TRUE /\ why = "" /\ steps = 0

\* cl.NewEx: compile-time analysis
Compile == /\ pc = "init"
           /\ IF (IF Dialect = "code" THEN an.code ELSE an.guarded)
              THEN /\ pc' = "run" /\ stack' = <<Frame(<<1>>, 0)>>      \* Doc.Match (Var.Match of rule doc)
              ELSE /\ pc' = "rejected" /\ stack' = stack
           /\ UNCHANGED <<gram, G, an, inp, ret, undoc, code, why>>

Running(k) == pc = "run" /\ stack # <<>> /\ NodeAt(Top.p).k = k

\* a frame just pushed calls its first child
Enter == /\ pc = "run" /\ stack # <<>> /\ ret.st = "none" /\ Top.i = 0
         /\ LET f == Top
                \* a rule called as the root is a frame whose path is <<r>>: it stands for Var.Match
                leafRoot == NodeAt(f.p).k \in {"tok", "eps"}
            IN  IF leafRoot
                THEN /\ stack' = Pop /\ ret' = LeafRet(NodeAt(f.p), f.pos) /\ pc' = pc /\ why' = why
                ELSE Invoke(WithTop([f EXCEPT !.i = 1]), ChildPath(f, 1), f.pos)
         /\ UNCHANGED <<gram, G, an, inp, undoc, code>>

\* Var.Match: the result of the rule body is the result of the reference
RetRef == /\ Running("ref") /\ ret.st # "none"
          /\ Return(ret)
          /\ UNCHANGED <<gram, G, an, inp, undoc, code>>

\* gRepeat01.Match: ?x
RetOpt == /\ Running("opt") /\ ret.st # "none"
          /\ Return(IF ret.st = "ok" THEN ret ELSE OkR(0, Nil))
          /\ UNCHANGED <<gram, G, an, inp, undoc, code>>

\* gRepeat0.Match / gRepeat1.Match: greedy, the failing iteration is dropped
RepeatStep(k) ==
  /\ Running(k) /\ ret.st # "none"
  /\ LET f == Top
         cause == IF k = "star" THEN "star-nullable" ELSE "plus-nullable" IN
     IF ret.st = "fail" THEN
          /\ IF k = "plus" /\ f.acc = <<>> THEN Return(FailR(ret.n))          \* +x needs one x
             ELSE Return(OkR(f.n, Lst(f.acc)))
          /\ undoc' = undoc
     ELSE IF ret.n = 0 THEN
          \* x matched without consuming: the next iteration is the same call again
          IF Dialect = "code"
          THEN /\ pc' = "hang" /\ why' = cause                          \* before commit 9896edf: loops for ever
               /\ stack' = stack /\ ret' = NoRet /\ undoc' = undoc
          ELSE \* match.go gRepeat0/gRepeat1 `if n1 == 0`: the repetition ends; +x keeps its first (empty) match.
               \* The README does not say what an empty iteration yields (undoc); `why` remembers that the
               \* guard was needed, so a regression is reported under the cause it had.
               /\ stack' = Pop /\ pc' = pc /\ why' = cause /\ undoc' = TRUE
               /\ ret' = OkR(f.n, Lst(IF k = "plus" /\ f.acc = <<>> THEN <<ret.val>> ELSE f.acc))
     ELSE LET f2 == [f EXCEPT !.n = f.n + ret.n, !.acc = Append(f.acc, ret.val)]
          IN  Invoke(WithTop(f2), ChildPath(f, 1), f.pos + f2.n) /\ undoc' = undoc
  /\ UNCHANGED <<gram, G, an, inp, code>>
RetStar == RepeatStep("star")
RetPlus == RepeatStep("plus")

\* gSequence.Match: n-element list; a failing item fails the sequence (consumed so far is reported)
RetSeq == /\ Running("seq") /\ ret.st # "none"
          /\ LET f == Top  nd == NodeAt(f.p) IN
             IF ret.st = "fail" THEN Return(FailR(f.n + ret.n))
             ELSE LET f2 == [f EXCEPT !.n = f.n + ret.n, !.acc = Append(f.acc, ret.val), !.i = f.i + 1] IN
                  IF f.i = Len(nd.xs) THEN Return(OkR(f2.n, Lst(f2.acc)))
                  ELSE Invoke(WithTop(f2), ChildPath(f, f.i + 1), f.pos + f2.n)
          /\ UNCHANGED <<gram, G, an, inp, undoc, code>>

\* Choices.Match: the first alternative that matches wins
AltOk == /\ Running("alt") /\ ret.st = "ok"
         /\ Return(ret)
         /\ UNCHANGED <<gram, G, an, inp, undoc, code>>
\* an alternative failed: try the next one.  If it failed after consuming input the README does not
\* say whether the next one is tried; the implementation does unless stops[i].
AltNext == /\ Running("alt") /\ ret.st = "fail"
           /\ LET f == Top  nd == NodeAt(f.p) IN
              /\ f.i < Len(nd.xs)
              /\ Invoke(WithTop([f EXCEPT !.i = f.i + 1, !.n = IF ret.n > f.n THEN ret.n ELSE f.n]),
                        ChildPath(f, f.i + 1), f.pos)
              /\ code' = (code /\ ~(ret.n > 0 /\ Stops(G, nd, f.i)))
           /\ UNCHANGED <<gram, G, an, inp, undoc>>
\* ... or give up the whole choice (only after input was consumed)
AltCommit == /\ Running("alt") /\ ret.st = "fail" /\ ret.n > 0
             /\ LET f == Top  nd == NodeAt(f.p) IN
                /\ f.i < Len(nd.xs)
                /\ Return(FailR(ret.n))
                /\ code' = (code /\ Stops(G, nd, f.i))
             /\ UNCHANGED <<gram, G, an, inp, undoc>>
\* the last alternative failed
AltFail == /\ Running("alt") /\ ret.st = "fail"
           /\ LET f == Top  nd == NodeAt(f.p) IN
              /\ f.i = Len(nd.xs)
              /\ Return(FailR(IF ret.n > f.n THEN ret.n ELSE f.n))
           /\ UNCHANGED <<gram, G, an, inp, undoc, code>>

\* gAdjoin.Match: both operands must consume, and the tokens at the seam must touch
RetAdj == /\ Running("adj") /\ ret.st # "none"
          /\ LET f == Top IN
             IF f.i = 1 THEN
                  IF ret.st = "fail" THEN Return(FailR(ret.n)) /\ undoc' = undoc
                  ELSE IF ret.n = 0 THEN Return(FailR(0)) /\ undoc' = TRUE               \* errAdjoinEmpty
                  ELSE /\ Invoke(WithTop([f EXCEPT !.i = 2, !.n = ret.n, !.acc = <<ret.val>>]), ChildPath(f, 2), f.pos + ret.n)
                       /\ undoc' = undoc
             ELSE IF ret.st = "fail" THEN Return(FailR(f.n)) /\ undoc' = undoc
                  ELSE IF ret.n = 0 THEN Return(FailR(f.n)) /\ undoc' = TRUE             \* errAdjoinEmpty
                  ELSE IF inp[f.pos + f.n + 1].gap THEN Return(FailR(f.n)) /\ undoc' = undoc   \* "not adjoin"
                  ELSE Return(OkR(f.n + ret.n, Lst(Append(f.acc, ret.val)))) /\ undoc' = undoc
          /\ UNCHANGED <<gram, G, an, inp, code>>

\* Compiler.Match returns
Finish == /\ pc = "run" /\ stack = <<>> /\ ret.st # "none"
          /\ pc' = "done"
          /\ UNCHANGED <<gram, G, an, inp, stack, ret, undoc, code, why>>

Step == Compile \/ Enter \/ RetRef \/ RetOpt \/ RetStar \/ RetPlus \/ RetSeq
        \/ AltOk \/ AltNext \/ AltCommit \/ AltFail \/ RetAdj \/ Finish
Next == Step /\ steps' = steps + 1
Spec == Init /\ [][Next]_vars /\ WF_vars(Next)

-----------------------------------------------------------------------------
Halted == pc \in {"done", "hang", "rejected"}
TypeOK == /\ pc \in {"init", "run", "done", "hang", "rejected"}
          /\ ret.st \in {"none", "ok", "fail"}
          /\ \A k \in 1..Len(stack) : stack[k].pos \in 0..Len(inp) /\ stack[k].n \in 0..Len(inp)
\* the stack invariant: no call is in progress twice, hence the depth is bounded by nodes x positions
StackDistinct == \A j, k \in 1..Len(stack) : j # k => ~(stack[j].p = stack[k].p /\ stack[j].pos = stack[k].pos)
\* a match never consumes more than there is, and what a frame has consumed lies behind its start
Consumes == /\ (ret.st = "ok" /\ stack # <<>> /\ NodeAt(Top.p).k \in {"seq", "star", "plus", "adj"})
                  => Top.pos + Top.n + ret.n <= Len(inp)
            /\ (pc = "done" /\ ret.st = "ok") => ret.n <= Len(inp)
\* the machine always halts: with a result, with a diagnosed divergence, or rejected at compile time
Terminates == <>Halted
\* ... within a number of steps bounded by (nodes^2 x positions^2): a variant function, checked as an invariant
RECURSIVE Size(_)
Size(t) == 1 + (IF Len(t.xs) = 0 THEN 0 ELSE LET szs == [ i \in 1..Len(t.xs) |-> Size(t.xs[i]) ] IN
                  szs[1] + (IF Len(t.xs) > 1 THEN szs[2] ELSE 0) + (IF Len(t.xs) > 2 THEN szs[3] ELSE 0))
StepBound == LET nodes == Size(G[1]) + (IF Len(G) > 1 THEN Size(G[2]) ELSE 0)
             IN  3 + 4 * nodes * nodes * (Len(inp) + 1) * (Len(inp) + 1)    \* a reference re-runs the rule body
Bounded == steps <= 12 \/ steps <= StepBound
\* the repaired design never diverges
NoHang == Dialect = "guarded" => pc # "hang"
\* a rejected grammar is one whose First computation meets a rule again
RejectSound == pc = "rejected" => \E r \in 1..Len(G) : FirstOf(G, G[r], {r}).rec \/ ~an.code

Export == Halted =>
   Emit([g |-> gram, steps |-> steps, inp |-> inp, pc |-> pc, st |-> ret.st, n |-> ret.n, val |-> ret.val,
         undoc |-> undoc, code |-> code, why |-> why,
         acc |-> an.code, accg |-> an.guarded])
=============================================================================
