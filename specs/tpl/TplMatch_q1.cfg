SPECIFICATION Spec
CONSTANTS
  Dialect = "guarded"
  TokLeaves = {"a", ","}
  DocDepth = 2
  SubDepth = 0
  Wide = TRUE
  Slim = FALSE
  Alphabet = {"a", ",", "@"}
  MaxInput = 3
INVARIANTS TypeOK StackDistinct Consumes Bounded NoHang RejectSound Export

