SPECIFICATION Spec
CONSTANTS
  Dialect = "guarded"
  TokLeaves = {"a", ","}
  DocDepth = 3
  SubDepth = 0
  Wide = FALSE
  Slim = TRUE
  Alphabet = {"a", ",", "@"}
  MaxInput = 2
INVARIANTS TypeOK StackDistinct Consumes Bounded NoHang RejectSound Export

