SPECIFICATION Spec
CONSTANTS
  Dialect = "code"
  TokLeaves = {"a", "IDENT", ","}
  DocDepth = 3
  SubDepth = 0
  Wide = FALSE
  Slim = TRUE
  Alphabet = {"a", "c", ","}
  MaxInput = 2
INVARIANTS TypeOK StackDistinct Consumes Bounded NoHang RejectSound Export

