SPECIFICATION Spec
CONSTANTS
  Dialect = "guarded"
  TokLeaves = {"a", "IDENT", ","}
  DocDepth = 2
  SubDepth = 0
  Wide = TRUE
  Slim = FALSE
  Alphabet = {"a", "c", ","}
  MaxInput = 3
INVARIANTS TypeOK StackDistinct Consumes Bounded NoHang RejectSound Export

