SPECIFICATION Spec
CONSTANTS
  Depth = 3
  WideDepth = 2
  Atoms = {"a"}
  GenPool = "small"
  GenRules = 1
INVARIANTS TypeOK RoundTrip ParensMinimal NoEmptyRule PrintParse Export
PROPERTY Terminates
