SPECIFICATION Spec
CONSTANTS
  Dialect = "guarded"
  TokLeaves = {"a", ","}
  DocDepth = 2
  SubDepth = 2
  Wide = FALSE
  Slim = FALSE
  Alphabet = {"a", ","}
  MaxInput = 1
INVARIANTS TypeOK StackDistinct Consumes Bounded NoHang RejectSound Export

