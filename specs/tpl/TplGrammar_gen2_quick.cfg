SPECIFICATION SpecGen
CONSTANTS
  Depth = 1
  WideDepth = 1
  Atoms = {"a"}
  GenPool = "small"
  GenRules = 2
INVARIANTS GenTypeOK GenWellFormed ExportGen
