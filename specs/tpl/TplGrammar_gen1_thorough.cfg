SPECIFICATION SpecGen
CONSTANTS
  Depth = 1
  WideDepth = 1
  Atoms = {"a"}
  GenPool = "full"
  GenRules = 1
INVARIANTS GenTypeOK GenWellFormed ExportGen
