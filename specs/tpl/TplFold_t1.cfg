SPECIFICATION Spec
CONSTANTS
  AtomVals = {"1", "2"}
  Seps = {"+", "*"}
  MaxTail = 4
  ElemTail = 1
  NestTail = 3
  DeepTail = 3
  Nums = {1}
  MaxOperands = 1
  WithNeg = FALSE
  CmpOps = {}
INVARIANTS TypeOK FoldInv LeftFold SourceOrder Distinguishes Export
PROPERTY Terminates ReadOnly
