----------------------------- MODULE TplGrammar -----------------------------
(* C31 / C27 -- the grammar language of tpl (tpl/parser, tpl/cl).              *)
(*                                                                           *)
(* Part 1 (C31).  Grammar expressions are trees                              *)
(*     atom | *x +x ?x | x ++ y | x % y | x1 x2 .. xn | x1 "|" .. "|" xn     *)
(* (tpl/ast: Ident/BasicLit, UnaryExpr, BinaryExpr, Sequence, Choice).       *)
(* `Pr` prints a tree as a token sequence with the fewest parentheses the    *)
(* documented precedence allows (README: unary > ++ > % > sequence > |, the  *)
(* binary operators associate to the left); `ParseRule` is the recursive     *)
(* descent the README / the EBNF comments of tpl/parser document:            *)
(*     expr     = termList % "|"                                             *)
(*     termList = +term                                                      *)
(*     term     = term2 % "%"                                                *)
(*     term2    = factor % "++"                                              *)
(*     factor   = IDENT | CHAR | STRING | ("*"|"+"|"?") factor | "(" expr ")"*)
(* A token sequence outside that language (missing factor, unbalanced        *)
(* parenthesis, trailing token) is an error.  The machine: pick a tree,      *)
(* print it, parse it (model theorem RoundTrip), then mutate the printed     *)
(* text by deleting / doubling one token and parse again; every parse is     *)
(* exported and replayed into the real tpl/parser.ParseFile.                 *)
(*                                                                           *)
(* Part 2 (C27) is the token-level generator of grammar *sources* (SpecGen). *)
(* A node is the record [k, v, xs]: k in atom/un/bin/seq/alt/err, v the      *)
(* atom spelling or the operator, xs the children.                           *)
EXTENDS Integers, Sequences, FiniteSets, TLC, VerifIO

CONSTANTS Depth,       \* depth of the enumerated trees (atom = 1)
          WideDepth,   \* children of 3-ary seq/alt nodes have at most this depth
          Atoms,       \* atom spellings used in the trees
          GenPool,     \* C27: "small" | "full"
          GenRules     \* C27: 1 | 2 rules per source

Atom(a)      == [k |-> "atom", v |-> a,  xs |-> <<>>]
Un(o, x)     == [k |-> "un",   v |-> o,  xs |-> <<x>>]
Bin(o, x, y) == [k |-> "bin",  v |-> o,  xs |-> <<x, y>>]
SeqN(xs)     == [k |-> "seq",  v |-> "", xs |-> xs]
AltN(xs)     == [k |-> "alt",  v |-> "", xs |-> xs]
ErrT         == [k |-> "err",  v |-> "", xs |-> <<>>]

UnOps  == {"*", "+", "?"}
BinOps == {"++", "%"}

RECURSIVE TreesUpTo(_)
TreesUpTo(d) ==
  IF d <= 0 THEN {}
  ELSE IF d = 1 THEN { Atom(a) : a \in Atoms }
  ELSE LET S == TreesUpTo(d - 1)
           W == TreesUpTo(IF d - 1 < WideDepth THEN d - 1 ELSE WideDepth)
       IN  S \cup { Un(o, x) : o \in UnOps, x \in S }
             \cup { Bin(o, x, y) : o \in BinOps, x \in S, y \in S }
             \cup { SeqN(<<x, y>>) : x \in S, y \in S }
             \cup { AltN(<<x, y>>) : x \in S, y \in S }
             \cup { SeqN(<<x, y, z>>) : x \in W, y \in W, z \in W }
             \cup { AltN(<<x, y, z>>) : x \in W, y \in W, z \in W }

Trees == TreesUpTo(Depth)

-----------------------------------------------------------------------------
\* Printing with minimal parentheses.  Level of a node = README precedence.
Prec(t) == CASE t.k = "alt" -> 1
             [] t.k = "seq" -> 2
             [] t.k = "bin" /\ t.v = "%"  -> 3
             [] t.k = "bin" /\ t.v = "++" -> 4
             [] t.k = "un"  -> 5
             [] OTHER -> 6

RECURSIVE Pr(_), PrAt(_, _), PrList(_, _, _)
\* print t where an operand of level >= p is required
PrAt(t, p) == IF Prec(t) < p THEN <<"(">> \o Pr(t) \o <<")">> ELSE Pr(t)
PrList(xs, p, sep) ==
  IF Len(xs) = 0 THEN <<>>
  ELSE IF Len(xs) = 1 THEN PrAt(xs[1], p)
  ELSE PrAt(xs[1], p) \o sep \o PrList(Tail(xs), p, sep)
Pr(t) == CASE t.k = "atom" -> <<t.v>>
           [] t.k = "un"   -> <<t.v>> \o PrAt(t.xs[1], 5)             \* *?x needs no parens
           [] t.k = "bin" /\ t.v = "%"  -> PrAt(t.xs[1], 3) \o <<"%">>  \o PrAt(t.xs[2], 4)  \* left assoc
           [] t.k = "bin" /\ t.v = "++" -> PrAt(t.xs[1], 4) \o <<"++">> \o PrAt(t.xs[2], 5)
           [] t.k = "seq"  -> PrList(t.xs, 3, <<>>)
           [] t.k = "alt"  -> PrList(t.xs, 2, <<"|">>)
           [] OTHER -> <<>>

-----------------------------------------------------------------------------
\* Recursive descent.  A result is [st, t, i]: st = "ok" (tree t, next token i),
\* "none" (no factor starts here, nothing consumed, not an error by itself), "err".
Reserved == {"*", "+", "?", "++", "%", "|", "(", ")", "<eof>",
             "=", "=>", "{", "}", "[", "]", ",", ";", "NL"}     \* rule-level punctuation is never an atom
TokAt(ts, i) == IF i <= Len(ts) THEN ts[i] ELSE "<eof>"
Ok(t, i) == [st |-> "ok",   t |-> t,    i |-> i]
None(i)  == [st |-> "none", t |-> ErrT, i |-> i]
Err(i)   == [st |-> "err",  t |-> ErrT, i |-> i]

RECURSIVE PExpr(_, _), PAltRest(_, _, _), PTerms(_, _, _), PTerm(_, _), PTermRest(_, _, _),
          PTerm2(_, _), PTerm2Rest(_, _, _), PFactor(_, _)

\* parser.go parseFactor
PFactor(ts, i) ==
  LET c == TokAt(ts, i) IN
  IF c \notin Reserved THEN Ok(Atom(c), i + 1)
  ELSE IF c \in UnOps THEN
       LET r == PFactor(ts, i + 1) IN
       IF r.st = "ok" THEN Ok(Un(c, r.t), r.i) ELSE Err(r.i)      \* operator without operand
  ELSE IF c = "(" THEN
       LET r == PExpr(ts, i + 1) IN
       IF r.st = "ok" /\ TokAt(ts, r.i) = ")" THEN Ok(r.t, r.i + 1) ELSE Err(r.i)
  ELSE None(i)

\* parser.go parseTerm2: factor % "++"
PTerm2Rest(ts, i, x) ==
  IF TokAt(ts, i) = "++"
  THEN LET r == PFactor(ts, i + 1) IN
       IF r.st = "ok" THEN PTerm2Rest(ts, r.i, Bin("++", x, r.t)) ELSE Err(r.i)
  ELSE Ok(x, i)
PTerm2(ts, i) == LET r == PFactor(ts, i) IN IF r.st = "ok" THEN PTerm2Rest(ts, r.i, r.t) ELSE r

\* parser.go parseTerm: term2 % "%"
PTermRest(ts, i, x) ==
  IF TokAt(ts, i) = "%"
  THEN LET r == PTerm2(ts, i + 1) IN
       IF r.st = "ok" THEN PTermRest(ts, r.i, Bin("%", x, r.t)) ELSE Err(r.i)
  ELSE Ok(x, i)
PTerm(ts, i) == LET r == PTerm2(ts, i) IN IF r.st = "ok" THEN PTermRest(ts, r.i, r.t) ELSE r

\* parser.go parseTermList: +term ; one term is the term itself, none is an error
PTerms(ts, i, acc) ==
  LET r == PTerm(ts, i) IN
  IF r.st = "ok" THEN PTerms(ts, r.i, Append(acc, r.t))
  ELSE IF r.st = "err" THEN r
  ELSE IF Len(acc) = 0 THEN Err(i)                                  \* "expected factor"
  ELSE IF Len(acc) = 1 THEN Ok(acc[1], i)
  ELSE Ok(SeqN(acc), i)

\* parser.go parseExpr: termList % "|"
PAltRest(ts, i, acc) ==
  IF TokAt(ts, i) = "|"
  THEN LET r == PTerms(ts, i + 1, <<>>) IN
       IF r.st = "ok" THEN PAltRest(ts, r.i, Append(acc, r.t)) ELSE Err(r.i)
  ELSE Ok(AltN(acc), i)
PExpr(ts, i) ==
  LET r == PTerms(ts, i, <<>>) IN
  IF r.st = "ok" /\ TokAt(ts, r.i) = "|" THEN PAltRest(ts, r.i, <<r.t>>) ELSE r

\* parser.go parseRule: the expression must be followed by the end of the rule
ParseRule(ts) ==
  LET r == PExpr(ts, 1) IN
  IF r.st = "ok" /\ r.i = Len(ts) + 1 THEN [ok |-> TRUE, t |-> r.t] ELSE [ok |-> FALSE, t |-> ErrT]

-----------------------------------------------------------------------------
\* The machine of part 1.
VARIABLES tree,   \* the abstract tree chosen by Init (C27 generator: ErrT)
          toks,   \* token sequence handed to the parser
          mut,    \* <<kind, position>> of the mutation applied to Pr(tree): none / del / dup
          res,    \* [ok, t] result of the model parser
          pc
vars == <<tree, toks, mut, res, pc>>

DelAt(s, i) == SubSeq(s, 1, i - 1) \o SubSeq(s, i + 1, Len(s))
DupAt(s, i) == SubSeq(s, 1, i) \o SubSeq(s, i, Len(s))

Init == /\ tree \in Trees
        /\ toks = Pr(tree) /\ mut = <<"none", 0>>
        /\ res = [ok |-> FALSE, t |-> ErrT] /\ pc = "parse"

\* parser.go ParseFile on the rule `doc = <toks>`
ParseStep == /\ pc = "parse"
             /\ res' = ParseRule(toks) /\ pc' = "done"
             /\ UNCHANGED <<tree, toks, mut>>
\* delete one token of the printed text (missing factor / operator / parenthesis)
Delete(i) == /\ pc = "done" /\ mut[1] = "none" /\ i \in 1..Len(toks)
             /\ toks' = DelAt(toks, i) /\ mut' = <<"del", i>> /\ pc' = "parse"
             /\ UNCHANGED <<tree, res>>
\* double one operator or parenthesis token (operator without its operand)
Double(i) == /\ pc = "done" /\ mut[1] = "none" /\ i \in 1..Len(toks) /\ toks[i] \in Reserved
             /\ toks' = DupAt(toks, i) /\ mut' = <<"dup", i>> /\ pc' = "parse"
             /\ UNCHANGED <<tree, res>>
\* drop one pair of matching parentheses: the text stays well formed but means another tree
Balance(s, i, j) == Cardinality({ k \in i..j : s[k] = "(" }) - Cardinality({ k \in i..j : s[k] = ")" })
MatchOf(s, i) == CHOOSE j \in (i + 1)..Len(s) :
                    /\ Balance(s, i, j) = 0
                    /\ \A m \in (i + 1)..(j - 1) : Balance(s, i, m) # 0
Unparen(i) == /\ pc = "done" /\ mut[1] = "none" /\ i \in 1..Len(toks) /\ toks[i] = "("
              /\ toks' = DelAt(DelAt(toks, MatchOf(toks, i)), i) /\ mut' = <<"pair", i>> /\ pc' = "parse"
              /\ UNCHANGED <<tree, res>>
Next == ParseStep \/ \E i \in 1..(Len(toks) + 1) : Delete(i) \/ Double(i) \/ Unparen(i)
Spec == Init /\ [][Next]_vars /\ WF_vars(Next)

\* Model theorems.
TypeOK == /\ pc \in {"parse", "done"} /\ mut[1] \in {"none", "del", "dup", "pair"}
          /\ res.ok \in BOOLEAN
RoundTrip == (pc = "done" /\ mut[1] = "none") => (res.ok /\ res.t = tree)
\* the parentheses Pr writes are all needed: without a pair the text means another tree (or none),
\* and a single parenthesis dropped is an error
ParensMinimal == /\ (pc = "done" /\ mut[1] = "pair") => ~(res.ok /\ res.t = tree)
                 /\ (pc = "done" /\ mut[1] = "del" /\ Pr(tree)[mut[2]] \in {"(", ")"}) => ~res.ok
\* an empty token sequence is never accepted (no empty rule)
NoEmptyRule == (pc = "done" /\ toks = <<>>) => ~res.ok
\* an accepted text prints back to itself: the parser inverts Pr on its whole range
PrintParse == (pc = "done" /\ res.ok) => ParseRule(Pr(res.t)) = res
Terminates == <>(pc = "done")

Export == pc = "done" =>
   Emit([toks |-> toks, ok |-> res.ok, t |-> res.t, mut |-> mut[1], at |-> mut[2]])

-----------------------------------------------------------------------------
(* Part 2 (C27): generator of grammar SOURCES at token level.                *)
(* A source is 1..2 rules separated by the token "NL"; a rule is a shape (a   *)
(* token sequence with holes #1..#4, well formed or not) whose holes are     *)
(* filled with atoms.  Atom spellings: "c:<n>" = char literal '\x<n>',       *)
(* "o:<n>" = char literal in octal, "s:<n>" = one-byte string literal        *)
(* "\x<n>", "r:<n>" = the raw byte between single quotes, "q:<sp>" / "k:<sp>"*)
(* / "b:<sp>" = the spelling <sp> between double / single / back quotes,     *)
(* "@..." = named malformed literals rendered by the harness, anything else  *)
(* is written as it is (names).  Every hole position of every shape is swept *)
(* over ALL atoms (in particular all 256 byte values in four spellings and   *)
(* every spelling of the token table) while the other holes take             *)
(* representatives, and all holes together range over the class pool.        *)
(* The model classifies each source (Expect): "err" when the documented      *)
(* grammar / literal rules reject it, "ok", or "any" where the documentation *)
(* is silent.  The property itself (no panic escapes) needs no prediction;   *)
(* the prediction is compared for drift only.                                *)

OpBytes == {43, 45, 42, 47, 37, 38, 124, 94, 60, 62, 61, 33, 40, 91, 123, 44, 46, 41, 93, 125, 59, 58, 63, 126, 64, 36}
LetterBytes == (65..90) \cup (97..122) \cup {95}
SingleOps == {"+", "-", "*", "/", "%", "&", "|", "^", "<", ">", "=", "!", "(", "[", "{", ",", ".", ")", "]", "}",
              ";", ":", "?", "~", "@", "$"}
MultiOps  == {"<<", ">>", "&^", "+=", "-=", "*=", "/=", "%=", "&=", "|=", "^=", "<<=", ">>=", "&^=", "&&", "||",
              "<-", "++", "--", "==", "!=", "<=", ">=", ":=", "...", "=>", "->", "<>", "**"}
NonToks   == {"@@", "+++", "=>>", "1", "12", " ", "+ ", "0x"}            \* quoted spellings outside the table
Keywords  == {"if", "x", "_", "a1", "INT", "Z"}                          \* quoted identifiers
TokNames  == {"EOF", "COMMENT", "IDENT", "INT", "FLOAT", "IMAG", "CHAR", "STRING", "RAT", "UNIT", "LPAREN", "RPAREN",
              "LBRACK", "RBRACK", "LBRACE", "RBRACE", "SPACE", "QSTRING", "RAWSTRING"}
UndefNames == {"zz", "int", "_", "Int", "if"}
RuleNames == {"doc", "r2"}
BadAtoms  == {"@emptychar", "@twochar", "@badesc", "@badhex", "@badoct", "@badstresc", "@unterminated",
              "@untermchar", "@untermraw", "@nulbyte", "@badutf8",                    \* lexical errors
              "@mbchar", "@mbstr", "@uchar", "@ustr", "@bigchar", "@number", "@float"}   \* not grammar literals

BytesOf(pfx, N) == { pfx \o ToString(n) : n \in N }
Quoted(pfx, S)  == { pfx \o x : x \in S }

SweepAtoms ==
  BytesOf("c:", 0..255) \cup BytesOf("s:", 0..255)
  \cup (IF GenPool = "full" THEN BytesOf("o:", 0..255) \cup BytesOf("r:", 0..255) ELSE {})   \* octal / raw spellings
  \cup Quoted("q:", SingleOps \cup MultiOps \cup NonToks \cup Keywords \cup {""})
  \cup Quoted("k:", SingleOps) \cup Quoted("b:", SingleOps \cup MultiOps \cup NonToks \cup {"", "x"})
  \cup TokNames \cup UndefNames \cup RuleNames \cup BadAtoms

\* atoms the documentation makes valid literals / names
OkAtoms  == TokNames
            \cup BytesOf("c:", OpBytes) \cup BytesOf("o:", OpBytes) \cup BytesOf("s:", OpBytes) \cup BytesOf("r:", OpBytes)
            \cup BytesOf("s:", LetterBytes)
            \cup Quoted("q:", SingleOps \cup MultiOps \cup Keywords \cup {""})
            \cup Quoted("k:", SingleOps) \cup Quoted("b:", SingleOps \cup MultiOps \cup {"", "x"})
\* escaped bytes in the code range of the multi-character operators: undocumented
AnyAtoms == BytesOf("c:", 128..159) \cup BytesOf("o:", 128..159) \cup BytesOf("s:", 128..159)
AtomClass(a) == IF a \in RuleNames THEN "ref" ELSE IF a \in OkAtoms THEN "ok" ELSE IF a \in AnyAtoms THEN "any" ELSE "err"

HoleNames == {"#1", "#2", "#3", "#4"}
HoleNo(h) == CASE h = "#1" -> 1 [] h = "#2" -> 2 [] h = "#3" -> 3 [] h = "#4" -> 4
Fill(sh, f) == [ i \in 1..Len(sh) |-> IF sh[i] \in HoleNames THEN f[HoleNo(sh[i])] ELSE sh[i] ]

\* rule bodies (what follows `name =`), well formed ones first
Bodies1 == {
  <<"#1">>, <<"#1", "#2">>, <<"#1", "|", "#2">>, <<"*", "#1">>, <<"+", "#1">>, <<"?", "#1">>,
  <<"#1", "%", "#2">>, <<"#1", "++", "#2">>, <<"(", "#1", ")">>,
  <<"#1", "#2", "|", "#3", "#4">>, <<"#1", "%", "#2", "++", "#3", "|", "?", "#4">>,
  <<"*", "(", "#1", "|", "#2", ")", "#3">>,
  <<"#1", "=>", "{", "}">>, <<"#1", "=>", "{", "return", "{", "self", "}", "}">>,
  \* malformed
  <<>>, <<"#1", "|">>, <<"|", "#1">>, <<"(", "#1">>, <<"#1", ")">>, <<"*">>, <<"#1", "%">>, <<"#1", "++">>,
  <<"(", ")">>, <<"#1", "=>">>, <<"#1", "=>", "{">>, <<"#1", "=>", "{", "{", "}">>, <<"#1", "=>", "}">>,
  <<"#1", "=", "#2">>, <<"[", "#1", "]">>, <<"#1", ",", "#2">>, <<"%", "#1">>, <<"++", "#1">>,
  <<"#1", "|", "|", "#2">>, <<"(", "#1", "|", ")">> }
\* whole rules with a malformed head
BadHeads == { <<"doc", "#1">>, <<"=", "#1">>, <<"doc", "doc", "=", "#1">>, <<"#1", "=", "#2">>, <<"doc", "=>", "#1">>,
              <<"doc", "=", "=", "#1">>, <<"(", "doc", ")", "=", "#1">> }
Shapes1 == { <<"doc", "=">> \o b : b \in Bodies1 } \cup BadHeads

\* two-rule sources: bodies of at most two holes
Bodies2 == { <<"#1">>, <<"#1", "#2">>, <<"#1", "|", "#2">>, <<"*", "#1">>, <<"#1", "%", "#2">>, <<"?", "#1", "|", "#2">>,
             <<"(", "#1">>, <<>> }
Shift(b) == [ i \in 1..Len(b) |-> IF b[i] = "#1" THEN "#3" ELSE IF b[i] = "#2" THEN "#4" ELSE b[i] ]
Shapes2 == { <<"doc", "=">> \o a \o <<"NL", n, "=">> \o Shift(b) : a \in Bodies2, b \in Bodies2, n \in {"r2", "doc"} }

ClassPool == IF GenPool = "small"
             THEN {"INT", "q:x", "q:+", "q:", "zz", "doc", "q:@@", "@badesc"}
             ELSE {"INT", "q:x", "q:+", "q:", "zz", "doc", "q:@@", "@badesc", "k:+", "q:<<=", "b:+", "SPACE",
                   "QSTRING", "@mbchar", "r2", "c:200"}
OtherPool == IF GenPool = "small" THEN {"INT"} ELSE {"INT", "doc"}
RefPool   == IF GenPool = "small" THEN {"doc", "r2", "INT", "zz"} ELSE {"doc", "r2", "INT", "zz", "q:"}

Holes(sh) == { HoleNo(sh[i]) : i \in { j \in 1..Len(sh) : sh[j] \in HoleNames } }
\* fills of the holes hs: all holes over Pool, and one hole swept over Sweep with the others over Others
FillsOf(sh, Sweep, Others, Pool) ==
  LET hs == Holes(sh) IN
  [hs -> Pool] \cup UNION { { [ g EXCEPT ![h] = a ] : a \in Sweep, g \in [hs -> Others] } : h \in hs }

GenShapes == IF GenRules = 1 THEN Shapes1 ELSE Shapes2
\* two-rule sources are swept over all atoms only with the full pool
GenSweep  == IF GenRules = 1 THEN SweepAtoms
             ELSE IF GenPool = "full" THEN BytesOf("c:", 0..255) \cup BytesOf("s:", 0..255) \cup TokNames \cup UndefNames \cup BadAtoms
             ELSE {}

\* ---- the documented verdict on a source -------------------------------------------------
RECURSIVE SplitNL(_)
SplitNL(s) == IF \A i \in 1..Len(s) : s[i] # "NL" THEN <<s>>
              ELSE LET i == CHOOSE k \in 1..Len(s) : s[k] = "NL" /\ \A m \in 1..(k - 1) : s[m] # "NL"
                   IN  <<SubSeq(s, 1, i - 1)>> \o SplitNL(SubSeq(s, i + 1, Len(s)))
IsAtomTok(c) == c \notin Reserved
IsNameTok(c) == c \in TokNames \cup UndefNames \cup RuleNames
BraceBal(s, j) == Cardinality({ k \in 1..j : s[k] = "{" }) - Cardinality({ k \in 1..j : s[k] = "}" })
\* `=> { ... }`: the braces close exactly at the end of the rule
RetProcOK(tl) == tl = <<>> \/ ( /\ Len(tl) >= 3 /\ tl[1] = "=>" /\ tl[2] = "{"
                                /\ BraceBal(tl, Len(tl)) = 0
                                /\ \A j \in 2..(Len(tl) - 1) : BraceBal(tl, j) > 0 )
ArrowAt(r) == IF \E i \in 1..Len(r) : r[i] = "=>"
              THEN CHOOSE i \in 1..Len(r) : r[i] = "=>" /\ \A m \in 1..(i - 1) : r[m] # "=>"
              ELSE Len(r) + 1
RuleSynOK(r) == /\ Len(r) >= 3 /\ IsNameTok(r[1]) /\ r[2] = "="
                /\ ParseRule(SubSeq(r, 3, ArrowAt(r) - 1)).ok
                /\ RetProcOK(SubSeq(r, ArrowAt(r), Len(r)))
BodyAtoms(r) == { r[i] : i \in { j \in 3..(ArrowAt(r) - 1) : IsAtomTok(r[j]) } }
Expect(src) ==
  LET rules == SplitNL(src)
      names == { rules[i][1] : i \in 1..Len(rules) }
      atoms == UNION { BodyAtoms(rules[i]) : i \in 1..Len(rules) }
      cls   == { IF a \in names THEN "ref" ELSE AtomClass(a) : a \in atoms }   \* rules shadow built-in names
  IN  IF \E i \in 1..Len(rules) : ~RuleSynOK(rules[i]) THEN "err"            \* syntax error
      ELSE IF "err" \in cls THEN "err"                                        \* invalid literal / undefined name
      ELSE IF Cardinality(names) < Len(rules) THEN "err"                      \* duplicate rule
      ELSE IF \E a \in atoms : a \in RuleNames /\ a \notin names THEN "err"  \* reference to a missing rule
      ELSE IF "any" \in cls THEN "any"
      ELSE IF "ref" \in cls THEN "any"                                        \* recursion: C28's business
      ELSE "ok"

InitGen == /\ toks = <<>> /\ tree = ErrT /\ mut = <<"gen", 0>>
           /\ res = [ok |-> FALSE, t |-> ErrT, exp |-> "?"] /\ pc = "shape"
\* choose the shape of the source (rule structure with holes)
PickShape == /\ pc = "shape"
             /\ \E sh \in GenShapes : toks' = sh
             /\ pc' = "fill" /\ UNCHANGED <<tree, mut, res>>
\* fill the holes with atoms
PickFill == /\ pc = "fill"
            /\ \E f \in FillsOf(toks, GenSweep, IF GenRules = 1 THEN OtherPool ELSE {"INT"},
                                 IF GenRules = 1 THEN ClassPool ELSE RefPool) : toks' = Fill(toks, f)
            /\ pc' = "classify" /\ UNCHANGED <<tree, mut, res>>
\* tpl.New on the rendered source: the model's verdict
Classify == /\ pc = "classify"
            /\ LET e == Expect(toks) IN res' = [ok |-> e = "ok", t |-> ErrT, exp |-> e]
            /\ pc' = "done" /\ UNCHANGED <<tree, toks, mut>>
NextGen == PickShape \/ PickFill \/ Classify
SpecGen == InitGen /\ [][NextGen]_vars /\ WF_vars(NextGen)

GenTypeOK == pc \in {"shape", "fill", "classify", "done"} /\ (pc = "done" => res.exp \in {"ok", "err", "any"})
\* a source the model accepts consists of rules the model parser of part 1 accepts
GenWellFormed == (pc = "done" /\ res.exp # "err") =>
   LET rules == SplitNL(toks) IN \A i \in 1..Len(rules) : RuleSynOK(rules[i])
ExportGen == pc = "done" => Emit([src |-> toks, exp |-> res.exp])

=============================================================================
