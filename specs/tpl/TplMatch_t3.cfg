SPECIFICATION Spec
CONSTANTS
  Dialect = "code"
  TokLeaves = {"a", ","}
  DocDepth = 3
  SubDepth = 0
  Wide = TRUE
  Slim = TRUE
  Alphabet = {"a", ",", "@"}
  MaxInput = 3
INVARIANTS TypeOK StackDistinct Consumes Bounded NoHang RejectSound Export

