\* C21 quick: one comment of every kind at EVERY token boundary, before/after the line break
SPECIFICATION LSpec
CONSTANTS
  Foci = {"lit"}
  Sizes <- SmallSizes
  LFoci = {"stmt", "decl", "class", "pairs", "samples"}
  Bases = {"canon"}
  MaxGap = 0
  MaxCm = 1
  CmKinds = {"//", "/*", "/*o", "#"}
  MutKinds = {}
  PoolN = 1
INVARIANTS RescanOK CommentsOK GapsLegal TreeKept LShapesOK LExport
