\* C20 quick: key:value literals with a 42-column key, one pair per line, every gap deviation (blank before a colon); import groups with raw / escaped / repeated paths
SPECIFICATION LSpec
CONSTANTS
  Foci = {"prec"}
  Sizes <- SmallSizes
  LFoci = {"kv", "imports"}
  Bases = {"rows", "canon"}
  MaxGap = 1
  MaxCm = 0
  CmKinds = {}
  MutKinds = {}
  PoolN = 1
INVARIANTS RescanOK CommentsOK GapsLegal TreeKept LShapesOK LExport
