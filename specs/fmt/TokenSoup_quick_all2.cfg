\* C13 quick: every sequence of at most 2 tokens over the full token alphabet, separators blank / newline
SPECIFICATION Spec
CONSTANTS
  Alphabet <- AllTokens
  Seps = {" ", "\n"}
  MaxLen = 2
INVARIANTS TypeOK ContractShape Export
