\* C21 quick: a general comment at every boundary of every literal / lambda expression tree
SPECIFICATION LSpec
CONSTANTS
  Foci = {"lit", "lambda"}
  Sizes <- SmallSizes
  LFoci = {"xasg"}
  Bases = {"wide"}
  MaxGap = 0
  MaxCm = 1
  CmKinds = {"/*"}
  MutKinds = {}
  PoolN = 1
INVARIANTS RescanOK CommentsOK GapsLegal TreeKept LShapesOK LExport
