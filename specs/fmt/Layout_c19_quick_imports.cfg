\* C19 quick: import groups (same path under different names, raw / escaped path spellings; package file, script, class file), long-key key:value literals, one-line function bodies; six base layouts
SPECIFICATION LSpec
CONSTANTS
  Foci = {"prec"}
  Sizes <- SmallSizes
  LFoci = {"imports", "kv", "oneline"}
  Bases = {"canon", "tight", "wide", "nl", "one", "rows"}
  MaxGap = 0
  MaxCm = 0
  CmKinds = {}
  MutKinds = {}
  PoolN = 1
INVARIANTS RescanOK CommentsOK GapsLegal TreeKept LShapesOK LExport
