\* C13 thorough: every sequence of at most 5 tokens over the bracket / comprehension / lambda alphabet, blank-separated
SPECIFICATION Spec
CONSTANTS
  Alphabet <- BrkAlpha
  Seps = {" "}
  MaxLen = 5
INVARIANTS TypeOK ContractShape Export
