------------------------------- MODULE Layout -------------------------------
(***************************************************************************)
(* LAYOUT / COMMENT presentation machine on top of the abstract syntax of  *)
(* specs/syntax/Syntax.tla (copied next to this module at run time).       *)
(* Serves C19 (formatting preserves the tree), C20 (formatting is          *)
(* idempotent), C21 (formatting keeps every comment, in order).            *)
(*                                                                         *)
(* The abstract object is a tree t (a whole file: script, package file or  *)
(* class file).  A PRESENTATION of t is its token sequence Flat(Par(t))    *)
(* plus, for every token, a GAP decision (what white space precedes it)    *)
(* and, at token boundaries, inserted COMMENTS.  The machine enumerates    *)
(* presentations:                                                          *)
(*   ChooseTree        fix the tree, its parenthesised form, a base layout *)
(*   Mutate            (optional) one AST mutation: wrap in parentheses,   *)
(*                     swap operands, change operator                      *)
(*   PlaceGap(i, g)    deviate from the base layout at token i             *)
(*   InsertComment     put a comment of one of four kinds at a boundary    *)
(*   Done              render: item list (tokens, white space, comments)   *)
(* Model-level theorems (TLC invariants):                                  *)
(*   RescanOK    scanning the rendering (scanner.go semicolon insertion    *)
(*               rule) gives back exactly the token sequence, separators   *)
(*               as ";" -- layout is invisible to the token stream         *)
(*   CommentsOK  the comment sequence of the rendering is the inserted     *)
(*               sequence, text-exact, in order                            *)
(*   GapsLegal   every gap decision respects the legality rule             *)
(* The formatter (format.Source) must be the identity on the abstract      *)
(* object (tree: C19, comment sequence: C21) and a projection on texts     *)
(* (C20); that is checked on the real code by harness/cmd/fmth.            *)
(***************************************************************************)
EXTENDS Syntax

CONSTANTS LFoci,      \* which tree families are enumerated (see LUniverse)
          Bases,      \* base layouts: subset of {"canon", "tight", "wide", "nl", "one", "rows"}
          MaxGap,     \* at most this many PlaceGap deviations
          MaxCm,      \* at most this many inserted comments
          CmKinds,    \* subset of {"//", "/*", "/*o", "#"}
          MutKinds,   \* subset of {"wrap", "wrap2", "swap", "op"}; {} = no Mutate action
          PoolN       \* size of the expression pool used inside statements / declarations (1..4)

VARIABLES base,       \* the base layout
          lay,        \* gap decision per token (function 1..n -> gap string)
          ned,        \* [n |-> number of deviations, last |-> index of the last deviated token]
          cms,        \* inserted comments, in source order: [b |-> boundary 0..n, k |-> kind, pre |-> before the gap]
          mut,        \* the mutation applied ("" = none)
          out         \* the rendering: [items, scan]
lvars == <<foc, tree, pr, ps, pc, base, lay, ned, cms, mut, out>>

-----------------------------------------------------------------------------
(* TREE FAMILIES.  Expressions come from the enumerators of Syntax.tla      *)
(* (Foci / Sizes) and are wrapped into a statement of a script; statements, *)
(* declarations and class files are built here from templates over a small  *)
(* expression pool.                                                         *)
\* literals that are not in the lexicon of Syntax.tla
RawP == "`p`"                       \* raw-string spelling of the import path p
EscS == "\"\\x73\""                   \* escaped spelling of the import path s ("\x73")
K16  == "\"aaaaaaaaaaaaaa\""                                       \* a 16-column key
K42  == "\"aaaaaaaaaaaaaaaaaaaaaaaaaaaaaaaaaaaaaaaa\""             \* a 42-column key (> 40: exprList's smallSize)
ExtraLits == {"\"p${x}q\"", "`> a, b\n x`", RawP, EscS, K16, K42}
\* Syntax!MustSep extended to the extra literals (a word glued to a literal would be one token / a domain text literal)
NewLits == {RawP, EscS, K16, K42}     \* (the two sample literals are glued to their neighbours on purpose)
LMustSep(p, s) == MustSep(p, s) \/ (p \in Words /\ s \in NewLits) \/ (p \in NewLits /\ s \in Words)
Call0 == CallF(<<>>)
Pool == LET all == <<A, Bin("+", A, Bb), CallF(<<A>>), N("ErrWrapExpr", "!", <<Call0>>)>>
        IN {all[i] : i \in 1..PoolN}
Body(e) == Blk(<<XS(CallF(<<e>>))>>)
Echo(args) == XS(N("CallExpr", "cmd", <<Id("g")>> \o args))      \* command-style call `g a, b`
ForPh(x, c) == N("ForPhrase", "", <<Nil, Id("x"), x, Nil, c>>)
Case(es, ss) == N("CaseClause", "case", <<Lst(",", es), Lst(";", ss)>>)
Dflt(ss) == N("CaseClause", "default", <<Lst(",", <<>>), Lst(";", ss)>>)
VSpec(names, ty, vals) == N("ValueSpec", "", <<Lst(",", names), ty, Nil, Lst(",", vals)>>)
\* statements with one expression slot
Stmts1(e) == {
  Asg(":=", <<A>>, <<e>>), Asg("=", <<A, Bb>>, <<e, One>>), Asg("+=", <<A>>, <<e>>),
  N("IncDecStmt", "++", <<A>>),
  N("SendStmt", "", <<Id("c"), e>>),
  N("GoStmt", "", <<CallF(<<e>>)>>), N("DeferStmt", "", <<CallF(<<e>>)>>),
  N("ReturnStmt", "", <<e>>), N("ReturnStmt", "", <<e, One>>),
  XS(CallF(<<e, One>>)), Echo(<<e>>), Echo(<<e, One>>),
  Echo(<<N("LambdaExpr", "", <<Lst(",", <<Id("x")>>), Lst(",", <<e>>)>>)>>),
  Echo(<<N("LambdaExpr2", "", <<Lst(",", <<Id("x")>>), Body(e)>>)>>),
  XS(CallF(<<N("FuncLit", "", <<FT(<<>>, Nil), Body(e)>>)>>)),
  N("IfStmt", "", <<Nil, e, Body(A), Nil>>),
  N("IfStmt", "", <<Asg(":=", <<A>>, <<e>>), A, Body(A), Blk(<<>>)>>),
  N("IfStmt", "", <<Nil, A, Body(e), N("IfStmt", "", <<Nil, Bb, Body(One), Nil>>)>>),
  N("ForStmt", "", <<Nil, Nil, Nil, Body(e)>>), N("ForStmt", "", <<Nil, e, Nil, Body(A)>>),
  N("ForStmt", "", <<Asg(":=", <<A>>, <<One>>), Bin("<", A, e), N("IncDecStmt", "++", <<A>>), Body(A)>>),
  N("RangeStmt", ":=", <<Id("k"), Id("v"), e, Body(A)>>), N("RangeStmt", "", <<Nil, Nil, e, Body(A)>>),
  N("RangeStmt", ":=", <<Id("x"), Nil, N("RangeExpr", "", <<Nil, e, Nil>>), Body(A)>>),
  N("ForPhraseStmt", "", <<ForPh(e, Nil), Body(A)>>),
  N("ForPhraseStmt", "", <<N("ForPhrase", "", <<Id("k"), Id("v"), Bb, Nil, e>>), Body(A)>>),
  N("SwitchStmt", "", <<Nil, e, Blk(<<Case(<<One, Lit("2")>>, <<XS(Call0)>>), Dflt(<<>>)>>)>>),
  N("SwitchStmt", "", <<Nil, Nil, Blk(<<Case(<<e>>, <<XS(Call0), N("BranchStmt", "fallthrough", <<>>)>>), Dflt(<<XS(Call0)>>)>>)>>),
  N("TypeSwitchStmt", "", <<Nil, Asg(":=", <<Id("v")>>, <<N("TypeAssertExpr", "", <<e, Nil>>)>>), Blk(<<Case(<<TId>>, <<XS(CallF(<<Id("v")>>))>>)>>)>>),
  N("SelectStmt", "", <<Blk(<<N("CommClause", "case", <<N("SendStmt", "", <<Id("c"), e>>), Lst(";", <<XS(Call0)>>)>>),
                              N("CommClause", "default", <<Nil, Lst(";", <<>>)>>)>>)>>),
  N("LabeledStmt", "", <<Id("L"), N("ForStmt", "", <<Nil, Nil, Nil, Blk(<<N("BranchStmt", "break", <<Id("L")>>)>>)>>)>>),
  N("DeclStmt", "", <<N("GenDecl", "var", <<VSpec(<<Id("x")>>, TId, <<e>>)>>)>>),
  N("DeclStmt", "", <<N("GenDecl", "const", <<VSpec(<<Id("y")>>, Nil, <<e>>)>>)>>),
  Blk(<<XS(CallF(<<e>>)), XS(Call0)>>),
  Asg(":=", <<A>>, <<N("ComprehensionExpr", "[", <<e, ForPh(Bb, Nil)>>)>>),
  Asg(":=", <<A>>, <<N("ComprehensionExpr", "{", <<N("KeyValueExpr", "", <<Id("x"), e>>), ForPh(Bb, Bin(">", Id("x"), One))>>)>>),
  Asg(":=", <<A>>, <<N("CompositeLit", "", <<TId, N("KeyValueExpr", "", <<A, e>>), N("KeyValueExpr", "", <<Bb, One>>)>>)>>),
  Asg(":=", <<A>>, <<N("SliceLit", "", <<e, One, Lit("2")>>)>>),
  Asg(":=", <<A>>, <<N("ErrWrapExpr", "?", <<CallF(<<e>>), One>>)>>),
  Asg(":=", <<A>>, <<N("SliceExpr", "", <<A, e, Bb, Nil>>)>>),
  \* an errwrap operand directly in front of an operator / "=" (`f(e)! == 1` must not become `f(e)!==1`)
  Asg(":=", <<A>>, <<Bin("==", N("ErrWrapExpr", "!", <<CallF(<<e>>)>>), One)>>),
  N("IfStmt", "", <<Nil, Bin("!=", N("ErrWrapExpr", "!", <<CallF(<<e>>)>>), Bb), Body(A), Nil>>),
  Asg("=", <<N("IndexExpr", "", <<A, N("ErrWrapExpr", "!", <<CallF(<<e>>)>>)>>)>>, <<One>>) }
StmtSet == UNION {Stmts1(e) : e \in Pool}
\* a declaration at the top level of a script is a declaration of the file, not a statement of the shadow main
TopStmts == {s \in StmtSet : s.k # "DeclStmt"}
\* a few statements used as neighbours in two-statement scripts
Nbrs == {Asg(":=", <<A>>, <<One>>), Echo(<<A>>), N("IfStmt", "", <<Nil, A, Body(A), Nil>>)}
TopDecls(e) == {
  N("GenDecl", "import", <<N("ImportSpec", "", <<Nil, Lit("\"p\"")>>)>>),
  N("GenDecl", "import(", <<N("ImportSpec", "", <<Nil, Lit("\"s\"")>>), N("ImportSpec", "", <<Id("x"), Lit("\"p\"")>>)>>),
  N("GenDecl", "const", <<VSpec(<<A>>, Nil, <<e>>)>>),
  N("GenDecl", "const(", <<VSpec(<<A>>, TId, <<e>>), VSpec(<<Bb>>, Nil, <<One>>)>>),
  N("GenDecl", "var", <<VSpec(<<A, Bb>>, TId, <<>>)>>),
  N("GenDecl", "var(", <<VSpec(<<A>>, Nil, <<e>>), VSpec(<<Id("c"), Id("d")>>, Nil, <<One, Lit("2")>>)>>),
  N("GenDecl", "type", <<N("TypeSpec", "", <<TId, Nil, N("StructType", "", <<N("FieldList", "{",
        <<Fld(<<A>>, TId), N("Field", "", <<Lst(",", <<Bb, Id("c")>>), TId, Lit("\"s\"")>>), Fld(<<>>, N("StarExpr", "", <<TId>>))>>)>>)>>)>>),
  N("GenDecl", "type(", <<N("TypeSpec", "=", <<Id("L"), Nil, N("ArrayType", "", <<Nil, TId>>)>>),
                          N("TypeSpec", "", <<Id("g"), Nil, N("MapType", "", <<TId, TId>>)>>)>>),
  N("GenDecl", "type", <<N("TypeSpec", "", <<Id("g"), Nil, N("InterfaceType", "", <<N("FieldList", "{",
        <<N("Field", "", <<Lst(",", <<Id("f")>>), FTd(<<Fld(<<A>>, TId)>>, N("FieldList", "", <<Fld(<<>>, TId)>>)), Nil>>)>>)>>)>>)>>),
  FuncD("f", <<Fld(<<A, Bb>>, TId)>>, N("FieldList", "", <<Fld(<<>>, TId)>>), Blk(<<N("ReturnStmt", "", <<e>>)>>)),
  N("FuncDecl", "", <<Params(<<Fld(<<Id("x")>>, N("StarExpr", "", <<TId>>))>>), Id("f"),
                      FTd(<<Fld(<<A>>, N("Ellipsis", "", <<TId>>))>>, Params(<<Fld(<<>>, TId), Fld(<<>>, TId)>>)),
                      Blk(<<N("ReturnStmt", "", <<e, One>>)>>)>>),
  FuncD("g", <<>>, Nil, Blk(<<>>)),
  N("OverloadFuncDecl", "", <<Nil, Id("g"), Id("f"), N("ParenExpr", "", <<TId>>),
        N("FuncLit", "", <<FT(<<Fld(<<A>>, TId)>>, Nil), Body(e)>>)>>) }
DeclSet == UNION {TopDecls(e) : e \in Pool}
DeclNbrs == {N("GenDecl", "var", <<VSpec(<<Id("z")>>, TId, <<>>)>>), FuncD("main", <<>>, Nil, Body(A))}
TagSpec(names, ty, tag) == N("ValueSpec", "", <<Lst(",", names), ty, Lit(tag), Lst(",", <<>>)>>)
ClassVars == {
  N("GenDecl", "var(;", <<VSpec(<<A>>, TId, <<>>)>>),
  \* tagged fields: a single spec in parentheses (printer.spec, not valueSpec), an embedded one, two tagged specs,
  \* and a field declared without grouping parentheses
  N("GenDecl", "var(;", <<TagSpec(<<A>>, TId, "\"s\"")>>),
  N("GenDecl", "var(;", <<TagSpec(<<>>, N("StarExpr", "", <<TId>>), "\"p\"")>>),
  N("GenDecl", "var(;", <<TagSpec(<<A, Bb>>, TId, "\"s\""), TagSpec(<<Id("c")>>, TId, "\"p\"")>>),
  N("GenDecl", "var", <<TagSpec(<<A>>, TId, "\"s\"")>>),
  N("GenDecl", "var(;", <<N("ValueSpec", "", <<Lst(",", <<A>>), TId, Lit("\"s\""), Lst(",", <<>>)>>),
                          N("ValueSpec", "", <<Lst(",", <<>>), N("StarExpr", "", <<TId>>), Nil, Lst(",", <<>>)>>),
                          VSpec(<<Bb, Id("c")>>, TId, <<>>)>>) }
ClassFile(ds) == N("File", "class", <<Nil>> \o ds)
ClassSet == UNION {UNION {{ClassFile(<<v, FuncD("f", <<>>, Nil, Body(e))>>),
                           ClassFile(<<v, FuncD("f", <<Fld(<<Id("x")>>, TId)>>, Nil, Blk(<<Echo(<<e>>)>>)), FuncD("g", <<>>, Nil, Blk(<<>>))>>)}
                          : v \in ClassVars} : e \in Pool}
                \cup {ClassFile(<<FuncD("f", <<>>, Nil, Body(e))>>) : e \in Pool}
\* a handful of shapes on which PAIRS of comments / gap deviations are enumerated
PairSet == { Script(<<Asg(":=", <<A>>, <<N("ComprehensionExpr", "[", <<A, ForPh(Bb, Bin(">", Id("x"), One))>>)>>)>>),
             Script(<<Echo(<<N("LambdaExpr", "l", <<Lst(",", <<Id("x"), Id("y")>>), Lst(",", <<Bin("+", Id("x"), Id("y"))>>)>>), One>>)>>),
             Script(<<N("IfStmt", "", <<Nil, A, Body(A), Blk(<<XS(Call0)>>)>>), Echo(<<A>>)>>),
             Script(<<Asg(":=", <<A>>, <<N("CompositeLit", "", <<TId, N("KeyValueExpr", "", <<A, One>>), N("KeyValueExpr", "", <<Bb, CallF(<<A, Bb>>)>>)>>)>>)>>),
             Script(<<Asg(":=", <<A>>, <<N("ErrWrapExpr", "?", <<CallF(<<N("SliceLit", "", <<One, Lit("2")>>)>>), One>>)>>)>>),
             FileOf(<<FuncD("f", <<Fld(<<A>>, TId)>>, N("FieldList", "", <<Fld(<<>>, TId)>>), Blk(<<N("ReturnStmt", "", <<Bin("*", A, One)>>)>>)),
                      N("GenDecl", "var", <<VSpec(<<Id("z")>>, TId, <<>>)>>)>>),
             ClassFile(<<N("GenDecl", "var(;", <<VSpec(<<A>>, TId, <<>>)>>), FuncD("f", <<>>, Nil, Blk(<<Echo(<<A>>)>>))>>),
             Script(<<N("ForPhraseStmt", "", <<ForPh(N("RangeExpr", "", <<One, Lit("3"), Nil>>), Nil), Body(Id("x"))>>)>>) }
\* IMPORT GROUPS: the same path under different names (no exact duplicates: ast.SortImports may drop those), and paths
\* written as raw string / with an escape (the printer canonicalises the spelling, the sorter must use the path itself)
ISpec(name, path) == N("ImportSpec", "", <<name, Lit(path)>>)
ImportGroups == { <<ISpec(Nil, "\"p\""), ISpec(Nil, "\"s\""), ISpec(Id("x"), "\"s\"")>>,
                  <<ISpec(Nil, "\"s\""), ISpec(Id("_"), "\"s\"")>>,
                  <<ISpec(Id("x"), "\"p\""), ISpec(Nil, "\"p\"")>>,
                  <<ISpec(Nil, "\"s\""), ISpec(Nil, RawP)>>,
                  <<ISpec(Nil, EscS), ISpec(Nil, "\"p\"")>>,
                  <<ISpec(Id("x"), RawP), ISpec(Nil, "\"s\"")>> }
ImportSet == UNION {{ FileOf(<<N("GenDecl", "import(", g), FuncD("main", <<>>, Nil, Body(A))>>),
                      N("File", "nopkg", <<Nil, N("GenDecl", "import(", g), N("FuncDecl", "shadow", <<Nil, Nil, Nil, N("BlockStmt", "bare", <<Echo(<<A>>)>>)>>)>>),
                      ClassFile(<<N("GenDecl", "import(", g), N("GenDecl", "var(;", <<VSpec(<<A>>, TId, <<>>)>>), FuncD("f", <<>>, Nil, Body(A))>>) }
                    : g \in ImportGroups}
\* KEY:VALUE LITERALS with one key longer than 40 columns (printer exprList: alignment sections by key-size ratio)
KV(k, v) == N("KeyValueExpr", "", <<Lit(k), v>>)
KvLists == { <<KV(K16, One), KV(K42, Lit("2"))>>, <<KV(K42, One), KV(K16, Lit("2"))>>, <<KV(K16, One), KV(K42, Lit("2")), KV("\"s\"", Lit("3"))>> }
KvSet == UNION {{ Script(<<Asg(":=", <<A>>, <<N("CompositeLit", "", <<TId>> \o l)>>)>>),
                  Script(<<Asg(":=", <<A>>, <<N("CompositeLit", "", <<Nil>> \o l)>>)>>) } : l \in KvLists}
\* FUNCTION BODIES WRITTEN ON ONE LINE (printer funcBody / bodySize look ahead over the comments), followed by more code
OneLineSet == { FileOf(<<FuncD("f", <<>>, Nil, Blk(<<XS(Call0)>>)), N("GenDecl", "var", <<VSpec(<<Id("z")>>, TId, <<>>)>>)>>),
                Script(<<XS(N("CallExpr", "", <<Id("g"), N("FuncLit", "", <<FT(<<>>, Nil), Blk(<<XS(Call0)>>)>>)>>)), Asg(":=", <<A>>, <<One>>)>>),
                FileOf(<<FuncD("f", <<>>, Nil, Blk(<<>>)), FuncD("g", <<>>, Nil, Blk(<<XS(CallF(<<A>>))>>))>>) }
\* a File sample is used as it is; an expression sample becomes `v := e`
IsFile(t) == t.k = "File"
WrapAsg(e) == Script(<<Asg(":=", <<Id("v")>>, <<e>>)>>)
ExprFoci == GenFoci \ {"cmd"}
LUniverse(lf) ==
  CASE lf = "xasg"    -> {WrapAsg(e) : e \in UNION {UpTo(f) : f \in ExprFoci}}
    [] lf = "xarg"    -> {Script(<<Echo(<<e, One>>)>>) : e \in UNION {UpTo(f) : f \in ExprFoci}}
    [] lf = "xcmd"    -> IF "cmd" \in GenFoci THEN {Script(<<s>>) : s \in Universe("cmd")} ELSE {}
    [] lf = "stmt"    -> {Script(<<s>>) : s \in TopStmts}
    [] lf = "stmt2"   -> {Script(<<s, m>>) : s \in TopStmts, m \in Nbrs} \cup {Script(<<m, s>>) : s \in TopStmts, m \in Nbrs}
    [] lf = "fstmt"   -> {FileOf(<<FuncD("f", <<>>, Nil, Blk(<<s>>))>>) : s \in StmtSet}
    [] lf = "decl"    -> {FileOf(<<d>>) : d \in DeclSet}
    [] lf = "decl2"   -> {FileOf(<<d, m>>) : d \in DeclSet, m \in DeclNbrs} \cup {FileOf(<<m, d>>) : d \in DeclSet \ {x \in DeclSet : x.k = "GenDecl" /\ x.a \in {"import", "import("}}, m \in DeclNbrs}
    [] lf = "class"   -> ClassSet
    [] lf = "pairs"   -> PairSet
    [] lf = "imports" -> ImportSet
    [] lf = "kv"      -> KvSet
    [] lf = "oneline" -> OneLineSet
    [] lf = "samples" -> {t \in Samples : IsFile(t) /\ Parseable(t)} \cup {WrapAsg(e) : e \in SampleExprs}
    [] OTHER -> {}
AllLFoci == {"xasg", "xarg", "xcmd", "stmt", "stmt2", "fstmt", "decl", "decl2", "class", "pairs", "imports", "kv", "oneline", "samples"}

-----------------------------------------------------------------------------
(* MUTATIONS of a tree (C19: AST-mutated variants).                         *)
ExprKinds == {"Ident", "BasicLit", "NumberUnitLit", "DomainTextLit", "EnvExpr", "ParenExpr", "BinaryExpr", "UnaryExpr", "StarExpr",
              "ErrWrapExpr", "SelectorExpr", "IndexExpr", "SliceExpr", "TypeAssertExpr", "CallExpr", "CompositeLit", "SliceLit",
              "LambdaExpr", "ComprehensionExpr", "FuncLit"}
\* child slots that hold an ordinary expression (so that `(e)` is legal there and is kept as a ParenExpr)
WrapSlot(t, i) ==
  /\ t.c[i].k \in ExprKinds
  /\ ~(t.c[i].k = "CallExpr" /\ t.c[i].a \in {"cmd", "cmd..."})       \* `(g a)` is not a command call
  /\ \/ t.k \in {"BinaryExpr", "UnaryExpr", "StarExpr", "ParenExpr", "IndexExpr", "SliceExpr", "ReturnStmt", "ExprStmt", "ElemEllipsis"}
     \/ (t.k = "ErrWrapExpr")
     \/ (t.k \in {"SelectorExpr", "TypeAssertExpr"} /\ i = 1)
     \/ (t.k = "CallExpr" /\ (i >= 2 \/ t.a \notin {"cmd", "cmd..."}))
     \/ (t.k = "KeyValueExpr" /\ i = 2)
     \/ (t.k \in {"CompositeLit"} /\ i >= 2)
     \/ (t.k = "SliceLit")
     \/ (t.k = "List" /\ t.a = "," /\ t.c[i].k # "Ident")      \* (identifier lists are also field / parameter names)
     \/ (t.k \in {"IfStmt", "SwitchStmt"} /\ i = 2)
     \/ (t.k = "SendStmt" /\ i >= 2)
     \/ (t.k = "RangeExpr")
     \/ (t.k = "ComprehensionExpr" /\ i = 1 /\ t.c[i].k # "KeyValueExpr")
     \/ (t.k = "ForPhrase" /\ i \in {3, 5})
OtherOps(op) == {"||", "==", "+", "*"} \ {op}
RECURSIVE Muts(_, _)
\* every tree that differs from t by ONE mutation of a kind in ks; lists of identifiers (lambda parameters,
\* assignment targets `",1"`) are left alone
Muts(t, ks) ==
  LET local == (IF "swap" \in ks /\ t.k = "BinaryExpr" /\ t.c[1] # t.c[2] THEN {[t EXCEPT !.c = <<t.c[2], t.c[1]>>]} ELSE {})
               \cup (IF "op" \in ks /\ t.k = "BinaryExpr" THEN {[t EXCEPT !.a = o] : o \in OtherOps(t.a)} ELSE {})
      wrapped(i) == (IF "wrap" \in ks THEN {N("ParenExpr", "", <<t.c[i]>>)} ELSE {})
                    \cup (IF "wrap2" \in ks THEN {N("ParenExpr", "", <<N("ParenExpr", "", <<t.c[i]>>)>>)} ELSE {})
      deep(i) == IF t.k = "List" /\ t.a = ",1" THEN {}
                 ELSE IF t.k \in {"LambdaExpr", "LambdaExpr2"} /\ i = 1 THEN {}
                 ELSE Muts(t.c[i], ks) \cup (IF WrapSlot(t, i) THEN wrapped(i) ELSE {})
  IN local \cup UNION {{[t EXCEPT !.c[i] = m] : m \in deep(i)} : i \in 1..Len(t.c)}

-----------------------------------------------------------------------------
(* GAPS.  rt = RenderToks(pt): per token [s, g, sep, nl] (Syntax.tla).       *)
(* A gap decision is the white space in front of a token:                   *)
(*   ""  none   " " blank   "\n" newline   "\n\n" blank line                *)
(* and for a statement separator (class "n", spelled ";") how the separator *)
(* itself is written: "\n" / "\n\n" (automatic semicolon), ";" explicit,    *)
(* "omit" (legal before a closing ")" or "}").                              *)
GapKinds == {"", " ", "\n", "\n\n"}
\* literals of the sample trees that are not in the lexicon of Syntax.tla
\* Syntax!SemiAfter as one constant set (TLC evaluates a constant definition once)
LSemiSet == IdentNames \cup LitNames \cup UnitNames \cup RawNames \cup ExtraLits
              \cup {")", "]", "}", "++", "--", "!", "?", "...", "return", "break", "continue", "fallthrough"}
LSemiAfter(s) == s \in LSemiSet
SemiSetOK == \A s \in LSemiSet \cup Words \cup {"+", "(", "{", ",", ";", "=>", "."} : LSemiAfter(s) = (SemiAfter(s) \/ s \in ExtraLits)
ASSUME SemiSetOK
SepKinds == {"\n", "\n\n", ";", "omit"}
IsNL(g)  == g \in {"\n", "\n\n"}
IsSep(rt, i) == i \in 1..Len(rt) /\ rt[i].g = "n"
LSep(rt, i)  == rt[i].sep \/ (i > 1 /\ LMustSep(rt[i - 1].s, rt[i].s))
PrevS(rt, i) == IF i > 1 THEN rt[i - 1].s ELSE ""
\* the scanner turns a newline after these tokens into ";" (scanner.go: insertSemi) -- Syntax!SemiAfter;
\* a separator written as a newline IS that semicolon, so a newline is wanted exactly there
NLLegal(rt, l, i) == i > 1 /\ (IF IsSep(rt, i - 1) THEN l[i - 1] = ";" ELSE ~LSemiAfter(rt[i - 1].s))
\* white space after "." (selector, type assertion) is legal although Syntax.tla glues those tokens
Relaxed(rt, i) == i > 1 /\ rt[i - 1].s = "." /\ rt[i].g = "g" /\ rt[i].s # "("
\* THE LEGALITY RULE for the gap in front of token i
\* a separator may be left out before a closing "}" or ")" (parser.go expectSemi); the field block of a class file is
\* the exception: every field there ends with ";" (parseClassFieldsDecl), so cls restricts the rule to "}"
OmitOK(rt, i, cls) == i < Len(rt) /\ rt[i + 1].s \in (IF cls THEN {"}"} ELSE {")", "}"})
Legal(rt, l, i, g, cls) ==
  IF i = 1 THEN g = ""
  ELSE IF IsSep(rt, i) THEN /\ g \in SepKinds
                            /\ g = "omit" => OmitOK(rt, i, cls) /\ ~IsNL(l[i + 1])
  ELSE /\ g \in GapKinds
       /\ (rt[i].g = "g" /\ ~Relaxed(rt, i)) => g = (IF rt[i].sep THEN " " ELSE "")
       /\ rt[i].g = "w" => g # ""
       /\ LSep(rt, i) => g # ""
       /\ IsNL(g) => NLLegal(rt, l, i)
\* base layouts
BaseGap(rt, i, m, cls) ==
  IF i = 1 THEN ""
  ELSE IF IsSep(rt, i) THEN (IF m \in {"tight", "one"} THEN (IF m = "one" /\ OmitOK(rt, i, cls) THEN "omit" ELSE ";") ELSE "\n")
  ELSE IF rt[i - 1].s = "{" /\ rt[i - 1].g = "b" /\ rt[i].s # "}" /\ m \in {"canon", "wide", "nl", "rows"} THEN "\n"
  \* "rows": canonical, but every element of a list on its own line (break after "{" / "[" / "(" and after every ",")
  ELSE IF m = "rows" /\ rt[i - 1].s \in {",", "{"} /\ rt[i].s \notin {"}", ")"} /\ rt[i].g # "g" THEN "\n"
  ELSE LET g == rt[i].g
           can == LSep(rt, i) \/ (CASE g = "w" -> TRUE [] g = "g" -> FALSE [] g = "s" -> FALSE [] g = "b" -> m # "tight" [] OTHER -> m \in {"wide", "nl"})
       IN IF m = "nl" /\ ~IsSep(rt, i - 1) /\ ~LSemiAfter(rt[i - 1].s) /\ (rt[i].g # "g" \/ Relaxed(rt, i)) THEN "\n" ELSE IF can THEN " " ELSE ""
\* effective gap: class "s" copies the spacing of the previous gap; after a ";" / omitted separator a blank
RECURSIVE Eff(_, _, _)
Eff(rt, l, i) ==
  IF i = 1 THEN ""
  ELSE IF IsSep(rt, i) THEN l[i]
  ELSE IF IsSep(rt, i - 1) /\ l[i - 1] \in {";", "omit"} /\ l[i] = "" THEN " "
  ELSE IF rt[i].g = "s" /\ ~IsNL(l[i]) /\ ~rt[i].sep THEN (IF Eff(rt, l, i - 1) = "" THEN "" ELSE " ")
  ELSE l[i]

-----------------------------------------------------------------------------
(* COMMENTS.  Boundary b (0..n) lies between token b and token b+1.  A       *)
(* comment is placed before (pre) or after the white space of that boundary.*)
LineKind(k) == k \in {"//", "#"}
CmText(k, j) == CASE k = "//" -> IF j = 1 THEN "// c1" ELSE IF j = 2 THEN "// c2" ELSE "// c3"
               [] k = "#"  -> IF j = 1 THEN "# c1" ELSE IF j = 2 THEN "# c2" ELSE "# c3"
               [] OTHER    -> IF j = 1 THEN "/* c1 */" ELSE IF j = 2 THEN "/* c2 */" ELSE "/* c3 */"
\* may white space / a line break stand at boundary b under layout l
BoundaryFree(rt, b) == b = 0 \/ b = Len(rt) \/ rt[b + 1].g # "g" \/ Relaxed(rt, b + 1)
BoundaryNL(rt, l, b) == \/ b = 0 \/ b = Len(rt)
                        \/ (IsSep(rt, b + 1) /\ IsNL(l[b + 1]))      \* in front of a separator written as newline
                        \/ (IsSep(rt, b) /\ IsNL(l[b]))              \* behind it
                        \/ (~IsSep(rt, b + 1) /\ Legal(rt, l, b + 1, "\n", FALSE))
CmLegal(rt, l, b, k, pre) ==
  /\ BoundaryFree(rt, b)
  /\ (b < Len(rt) /\ rt[b + 1].g = "s") => FALSE
  /\ (LineKind(k) \/ k = "/*o") => BoundaryNL(rt, l, b)
  \* "after the white space" is a different place only if that white space is a line break
  /\ ~pre => (b > 0 /\ b < Len(rt) /\ ~IsSep(rt, b + 1) /\ IsNL(Eff(rt, l, b + 1)))
  /\ (k = "/*o") => pre

-----------------------------------------------------------------------------
(* RENDERING.  Items [k, s]: k = "t" token, "w" white space, "c" general     *)
(* comment, "l" line comment.                                               *)
It(k, s) == [k |-> k, s |-> s]
CmItem(c, j) == It(IF LineKind(c.k) THEN "l" ELSE "c", CmText(c.k, j))
\* comments at boundary b with their ordinal numbers (position in cms)
CmAt(cs, b, pre) == SelectSeq([j \in 1..Len(cs) |-> [c |-> cs[j], j |-> j]], LAMBDA x : x.c.b = b /\ x.c.pre = pre)
Boundary(rt, l, cs, b) ==
  LET n == Len(rt)
      P == CmAt(cs, b, TRUE)
      Q == CmAt(cs, b, FALSE)
      g0 == IF b = n THEN "\n" ELSE IF IsSep(rt, b + 1) THEN (IF IsNL(l[b + 1]) THEN l[b + 1] ELSE "") ELSE Eff(rt, l, b + 1)
      pItems == Cat([j \in 1..Len(P) |->
                  (IF P[j].c.k = "/*o" THEN <<It("w", "\n")>> ELSE IF b > 0 \/ j > 1 THEN <<It("w", " ")>> ELSE <<>>) \o <<CmItem(P[j].c, P[j].j)>>
                  \o (IF LineKind(P[j].c.k) /\ j < Len(P) THEN <<It("w", "\n")>> ELSE <<>>)])
      lastP == IF P = <<>> THEN "" ELSE P[Len(P)].c.k
      g1 == IF P = <<>> THEN g0
            ELSE IF (LineKind(lastP) \/ lastP = "/*o") /\ ~IsNL(g0) THEN "\n"
            ELSE IF g0 = "" THEN " " ELSE g0
      qItems == Cat([j \in 1..Len(Q) |-> <<CmItem(Q[j].c, Q[j].j), It("w", IF LineKind(Q[j].c.k) THEN "\n" ELSE " ")>>])
  IN pItems \o (IF g1 = "" THEN <<>> ELSE <<It("w", g1)>>) \o qItems
TokItem(rt, l, i) == IF IsSep(rt, i) THEN (IF l[i] = ";" THEN <<It("t", ";")>> ELSE <<>>) ELSE <<It("t", rt[i].s)>>
Items(rt, l, cs) == Cat([i \in 1..Len(rt) |-> Boundary(rt, l, cs, i - 1) \o TokItem(rt, l, i)]) \o Boundary(rt, l, cs, Len(rt))

\* THE SCANNER on items (scanner/scanner.go Scan: insertSemi, findLineEnd): token spellings, automatic ";"
RECURSIVE ScanItems(_, _, _, _)
ScanItems(its, j, last, glued) ==
  IF j > Len(its) THEN (IF last # "" /\ LSemiAfter(last) THEN <<";">> ELSE <<>>)
  ELSE LET it == its[j] IN
       CASE it.k = "t" -> (IF glued /\ last # "" /\ LMustSep(last, it.s) THEN <<"<fused>">> ELSE <<>>)
                          \o <<it.s>> \o ScanItems(its, j + 1, IF it.s = ";" THEN "" ELSE it.s, TRUE)
         [] it.k = "w" -> IF IsNL(it.s) /\ last # "" /\ LSemiAfter(last) THEN <<";">> \o ScanItems(its, j + 1, "", FALSE)
                          ELSE ScanItems(its, j + 1, last, FALSE)
         [] it.k = "l" -> IF last # "" /\ LSemiAfter(last) THEN <<";">> \o ScanItems(its, j + 1, "", FALSE)
                          ELSE ScanItems(its, j + 1, last, FALSE)
         [] OTHER      -> ScanItems(its, j + 1, last, FALSE)      \* a general comment separates tokens, nothing else
\* what the scanner must deliver: the tokens of the tree, omitted separators left out, ";" at the end of the text
Expected(rt, l) ==
  LET n == Len(rt)
      kept == SelectSeq([i \in 1..n |-> [i |-> i, s |-> rt[i].s]], LAMBDA x : ~(IsSep(rt, x.i) /\ l[x.i] = "omit"))
      ss == [j \in 1..Len(kept) |-> kept[j].s]
  IN IF n > 0 /\ ~IsSep(rt, n) /\ LSemiAfter(rt[n].s) THEN Append(ss, ";") ELSE ss
CommentsOf(its) == LET cs == SelectSeq(its, LAMBDA x : x.k \in {"c", "l"}) IN [j \in 1..Len(cs) |-> cs[j].s]

-----------------------------------------------------------------------------
(* STATE MACHINE                                                            *)
NoOut == [items |-> <<>>, scan |-> <<>>]
MkPr(t) == LET pt == Par(t) IN [pt |-> pt, toks |-> <<>>, render |-> RenderToks(pt), spans |-> Spans(pt), walk |-> <<>>]
BaseLay(rt, m, cls) == [i \in 1..Len(rt) |-> BaseGap(rt, i, m, cls)]
LInit == /\ foc \in LFoci /\ tree \in LUniverse(foc) /\ base \in Bases
         /\ pr = NoPr /\ ps = NoPs /\ pc = "start" /\ lay = <<>> /\ ned = [n |-> 0, last |-> 0]
         /\ cms = <<>> /\ mut = "" /\ out = NoOut
\* fix the tree: parenthesise it (Par), compute tokens / spans, lay it out in the base layout
ChooseTree == /\ pc = "start"
              /\ pr' = MkPr(tree)
              /\ lay' = BaseLay(pr'.render, base, tree.a = "class")
              /\ pc' = "layout"
              /\ UNCHANGED <<foc, tree, ps, base, ned, cms, mut, out>>
\* one AST mutation of the chosen tree (before any layout decision)
Mutate == /\ pc = "start" /\ MutKinds # {}
          /\ \E m \in Muts(tree, MutKinds) :
               /\ tree' = m
               /\ pr' = MkPr(m)
               /\ lay' = BaseLay(pr'.render, base, tree.a = "class")
          /\ mut' = "mutated" /\ pc' = "layout"
          /\ UNCHANGED <<foc, ps, base, ned, cms, out>>
\* deviate from the base layout in front of token i (left to right, so every set of deviations is reached once)
PlaceGap(i, g) == /\ pc = "layout" /\ ned.n < MaxGap /\ i > ned.last
                  /\ g # lay[i] /\ (Legal(pr.render, lay, i, g, tree.a = "class") = TRUE)   \* (= TRUE: evaluated as a value, so \/ short-circuits)
                  /\ lay' = [lay EXCEPT ![i] = g]
                  /\ ned' = [n |-> ned.n + 1, last |-> i]
                  /\ UNCHANGED <<foc, tree, pr, ps, pc, base, cms, mut, out>>
\* insert a comment at boundary b (left to right; "pre" before "post" at one boundary)
InsertComment(b, k, pre) ==
  /\ pc \in {"layout", "comment"} /\ Len(cms) < MaxCm
  /\ CmLegal(pr.render, lay, b, k, pre) = TRUE
  /\ IF cms = <<>> THEN TRUE ELSE LET c == cms[Len(cms)] IN (c.b < b \/ (c.b = b /\ (c.pre \/ ~pre)))
  /\ cms' = Append(cms, [b |-> b, k |-> k, pre |-> pre])
  /\ pc' = "comment"
  /\ UNCHANGED <<foc, tree, pr, ps, base, lay, ned, mut, out>>
Done == /\ pc \in {"layout", "comment"}
        /\ LET its == Items(pr.render, lay, cms) IN out' = [items |-> its, scan |-> ScanItems(its, 1, "", FALSE)]
        /\ pc' = "done"
        /\ UNCHANGED <<foc, tree, pr, ps, base, lay, ned, cms, mut>>
LNext == \/ ChooseTree \/ Mutate \/ Done
         \/ \E i \in 1..Len(lay) : \E g \in GapKinds \cup SepKinds : PlaceGap(i, g)
         \/ \E b \in 0..Len(lay) : \E k \in CmKinds : \E pre \in BOOLEAN : InsertComment(b, k, pre)
LSpec == LInit /\ [][LNext]_lvars /\ WF_lvars(LNext)

-----------------------------------------------------------------------------
(* THEOREMS on the model                                                    *)
IsDone == pc = "done"
\* layout and comments are invisible to the token stream (except the legal semicolons)
RescanOK == IsDone => out.scan = Expected(pr.render, lay)
\* the comment sequence of the rendering is the inserted one, in order, text-exact
CommentsOK == IsDone => CommentsOf(out.items) = [j \in 1..Len(cms) |-> CmText(cms[j].k, j)]
\* every gap decision is legal (the base layouts as well as the deviations)
GapsLegal == pc = "layout" => \A i \in 1..Len(lay) : Legal(pr.render, lay, i, lay[i], tree.a = "class")
\* the parenthesised tree is the tree again once the inserted parentheses are stripped (mutations keep theirs)
\* (both evaluated once per tree: in the state right after ChooseTree / Mutate)
Fresh == pc = "layout" /\ ned.n = 0 /\ cms = <<>>
TreeKept == Fresh => Strip(pr.pt) = Strip(tree)
LShapesOK == Fresh => ShapeOK(pr.pt)
LTerminates == <>(pc = "done")
\* comments of the record: boundary, kind, placement, text
CmRec == [j \in 1..Len(cms) |-> [b |-> cms[j].b, k |-> cms[j].k, pre |-> cms[j].pre, tx |-> CmText(cms[j].k, j)]]
LExport == IsDone =>
   Emit([focus |-> foc, cls |-> tree.a = "class", base |-> base, mut |-> mut, ned |-> ned.n,
         t |-> pr.pt, scan |-> out.scan,
         src |-> [j \in 1..Len(out.items) |-> out.items[j].s],
         ik |-> [j \in 1..Len(out.items) |-> out.items[j].k],
         toks |-> [i \in 1..Len(pr.render) |-> pr.render[i].s],
         spans |-> pr.spans, cms |-> CmRec])
=============================================================================
