\* C21 thorough: one comment at every boundary, two base layouts, pool of 2 expressions
SPECIFICATION LSpec
CONSTANTS
  Foci = {"lit"}
  Sizes <- SmallSizes
  LFoci = {"stmt", "fstmt", "decl", "class", "pairs", "samples"}
  Bases = {"canon", "nl"}
  MaxGap = 0
  MaxCm = 1
  CmKinds = {"//", "/*", "/*o", "#"}
  MutKinds = {}
  PoolN = 2
INVARIANTS RescanOK CommentsOK GapsLegal TreeKept LShapesOK LExport
