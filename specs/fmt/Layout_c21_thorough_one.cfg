\* C21 thorough: one comment, two base layouts, pool of 2
SPECIFICATION LSpec
CONSTANTS
  Foci = {"lit"}
  Sizes <- SmallSizes
  LFoci = {"stmt", "stmt2", "fstmt", "decl", "decl2", "class", "pairs", "samples"}
  Bases = {"canon", "nl"}
  MaxGap = 0
  MaxCm = 1
  CmKinds = {"//", "/*", "/*o", "#"}
  MutKinds = {}
  PoolN = 2
INVARIANTS RescanOK CommentsOK GapsLegal TreeKept LShapesOK LExport
