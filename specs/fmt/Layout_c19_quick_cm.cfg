\* C19 quick: one comment at every token boundary (a comment must not change the tree)
SPECIFICATION LSpec
CONSTANTS
  Foci = {"prec"}
  Sizes <- SmallSizes
  LFoci = {"stmt", "decl", "class", "pairs"}
  Bases = {"canon"}
  MaxGap = 0
  MaxCm = 1
  CmKinds = {"//", "/*"}
  MutKinds = {}
  PoolN = 1
INVARIANTS RescanOK CommentsOK GapsLegal TreeKept LShapesOK LExport
