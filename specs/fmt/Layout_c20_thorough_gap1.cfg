\* C20 thorough: one gap deviation, five bases, pool of 2
SPECIFICATION LSpec
CONSTANTS
  Foci = {"lit"}
  Sizes <- SmallSizes
  LFoci = {"stmt", "stmt2", "fstmt", "decl", "decl2", "class", "pairs", "samples"}
  Bases = {"canon", "tight", "wide", "one", "nl"}
  MaxGap = 1
  MaxCm = 0
  CmKinds = {}
  MutKinds = {}
  PoolN = 2
INVARIANTS RescanOK CommentsOK GapsLegal TreeKept LShapesOK LExport
