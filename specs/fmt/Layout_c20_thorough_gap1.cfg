\* C20 thorough: one gap deviation at every token from five base layouts
SPECIFICATION LSpec
CONSTANTS
  Foci = {"lit"}
  Sizes <- SmallSizes
  LFoci = {"stmt", "fstmt", "decl", "class", "pairs", "samples"}
  Bases = {"canon", "tight", "wide", "one", "nl"}
  MaxGap = 1
  MaxCm = 0
  CmKinds = {}
  MutKinds = {}
  PoolN = 1
INVARIANTS RescanOK CommentsOK GapsLegal TreeKept LShapesOK LExport
