\* C13 thorough: every sequence of at most 3 tokens over the statement alphabet
SPECIFICATION Spec
CONSTANTS
  Alphabet <- StmtAlpha
  Seps = {" ", "\n"}
  MaxLen = 3
INVARIANTS TypeOK ContractShape Export
