\* C19 thorough: every expression tree as command-call argument and as assignment source, three more base layouts
SPECIFICATION LSpec
CONSTANTS
  Foci = {"prec", "ops", "postfix", "lambda", "lit", "atoms", "slidx", "cmd"}
  Sizes <- SmallSizes
  LFoci = {"xarg", "xasg"}
  Bases = {"tight", "wide", "one"}
  MaxGap = 0
  MaxCm = 0
  CmKinds = {}
  MutKinds = {}
  PoolN = 1
INVARIANTS RescanOK CommentsOK GapsLegal TreeKept LShapesOK LExport
