\* C20 quick: one comment at every boundary
SPECIFICATION LSpec
CONSTANTS
  Foci = {"lit"}
  Sizes <- SmallSizes
  LFoci = {"stmt", "decl", "class", "pairs", "samples"}
  Bases = {"canon"}
  MaxGap = 0
  MaxCm = 1
  CmKinds = {"//", "/*", "/*o", "#"}
  MutKinds = {}
  PoolN = 1
INVARIANTS RescanOK CommentsOK GapsLegal TreeKept LShapesOK LExport
