\* the contract machine terminates: every call returns and is checked (liveness, small bound)
SPECIFICATION Spec
CONSTANTS
  Alphabet <- CoreAlpha
  Seps = {" ", "\n"}
  MaxLen = 2
INVARIANTS TypeOK ContractShape
PROPERTIES Returns
