\* C20 thorough: a gap deviation combined with a comment on the pair shapes
SPECIFICATION LSpec
CONSTANTS
  Foci = {"lit"}
  Sizes <- SmallSizes
  LFoci = {"pairs"}
  Bases = {"canon"}
  MaxGap = 1
  MaxCm = 1
  CmKinds = {"//", "/*", "/*o", "#"}
  MutKinds = {}
  PoolN = 1
INVARIANTS RescanOK CommentsOK GapsLegal TreeKept LShapesOK LExport
