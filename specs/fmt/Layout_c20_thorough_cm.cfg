\* C20 thorough: a comment and a gap deviation
SPECIFICATION LSpec
CONSTANTS
  Foci = {"lit"}
  Sizes <- SmallSizes
  LFoci = {"stmt", "fstmt", "decl", "class", "pairs", "samples"}
  Bases = {"canon", "nl"}
  MaxGap = 1
  MaxCm = 1
  CmKinds = {"//", "/*", "/*o", "#"}
  MutKinds = {}
  PoolN = 1
INVARIANTS RescanOK CommentsOK GapsLegal TreeKept LShapesOK LExport
