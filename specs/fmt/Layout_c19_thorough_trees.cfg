\* C19 thorough: expression trees at QuickSizes (prec, lambda, lit, postfix, cmd), canonical layout
SPECIFICATION LSpec
CONSTANTS
  Foci = {"prec", "lambda", "lit", "cmd", "postfix"}
  Sizes <- QuickSizes
  LFoci = {"xasg", "xcmd"}
  Bases = {"canon"}
  MaxGap = 0
  MaxCm = 0
  CmKinds = {}
  MutKinds = {}
  PoolN = 1
INVARIANTS RescanOK CommentsOK GapsLegal TreeKept LShapesOK LExport
