\* C19 thorough: expression trees at QuickSizes
SPECIFICATION LSpec
CONSTANTS
  Foci = {"prec", "ops", "postfix", "lambda", "lit", "atoms", "slidx", "cmd"}
  Sizes <- QuickSizes
  LFoci = {"xasg", "xcmd"}
  Bases = {"canon", "nl"}
  MaxGap = 0
  MaxCm = 0
  CmKinds = {}
  MutKinds = {}
  PoolN = 1
INVARIANTS RescanOK CommentsOK GapsLegal TreeKept LShapesOK LExport
