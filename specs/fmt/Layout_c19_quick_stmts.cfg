\* C19 quick: statements, declarations, class files, samples in five base layouts
SPECIFICATION LSpec
CONSTANTS
  Foci = {"prec"}
  Sizes <- SmallSizes
  LFoci = {"stmt", "fstmt", "decl", "decl2", "class", "pairs", "samples"}
  Bases = {"canon", "tight", "wide", "nl", "one"}
  MaxGap = 0
  MaxCm = 0
  CmKinds = {}
  MutKinds = {}
  PoolN = 2
INVARIANTS RescanOK CommentsOK GapsLegal TreeKept LShapesOK LExport
