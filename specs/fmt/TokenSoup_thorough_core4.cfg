\* C13 thorough: every sequence of at most 4 tokens over a 10-token alphabet
SPECIFICATION Spec
CONSTANTS
  Alphabet <- Core4Alpha
  Seps = {" ", "\n"}
  MaxLen = 4
INVARIANTS TypeOK ContractShape Export
