\* C21 thorough: one comment at every boundary of every expression tree
SPECIFICATION LSpec
CONSTANTS
  Foci = {"prec", "ops", "postfix", "lambda", "lit", "atoms", "slidx", "cmd"}
  Sizes <- SmallSizes
  LFoci = {"xasg", "xcmd"}
  Bases = {"wide"}
  MaxGap = 0
  MaxCm = 1
  CmKinds = {"/*", "//"}
  MutKinds = {}
  PoolN = 1
INVARIANTS RescanOK CommentsOK GapsLegal TreeKept LShapesOK LExport
