\* C20 quick: literals, calls, slices with a line break wherever one is legal
SPECIFICATION LSpec
CONSTANTS
  Foci = {"lit", "postfix"}
  Sizes <- SmallSizes
  LFoci = {"xasg"}
  Bases = {"nl", "wide"}
  MaxGap = 0
  MaxCm = 0
  CmKinds = {}
  MutKinds = {}
  PoolN = 1
INVARIANTS RescanOK CommentsOK GapsLegal TreeKept LShapesOK LExport
