\* C19 thorough: statements/declarations/class files, pool of 4 expressions, one gap deviation
SPECIFICATION LSpec
CONSTANTS
  Foci = {"prec"}
  Sizes <- SmallSizes
  LFoci = {"stmt", "stmt2", "fstmt", "decl", "decl2", "class", "pairs", "samples"}
  Bases = {"canon", "tight", "wide", "nl", "one"}
  MaxGap = 1
  MaxCm = 0
  CmKinds = {}
  MutKinds = {}
  PoolN = 4
INVARIANTS RescanOK CommentsOK GapsLegal TreeKept LShapesOK LExport
