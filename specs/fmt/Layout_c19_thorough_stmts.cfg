\* C19 thorough: statements, statement pairs, declarations, declaration pairs, class files, samples; pool of 3 expressions; five base layouts
SPECIFICATION LSpec
CONSTANTS
  Foci = {"prec"}
  Sizes <- SmallSizes
  LFoci = {"stmt", "stmt2", "fstmt", "decl", "decl2", "class", "pairs", "samples"}
  Bases = {"canon", "tight", "wide", "nl", "one"}
  MaxGap = 0
  MaxCm = 0
  CmKinds = {}
  MutKinds = {}
  PoolN = 3
INVARIANTS RescanOK CommentsOK GapsLegal TreeKept LShapesOK LExport
