\* C13 thorough: every sequence of at most 3 tokens over the expression alphabet
SPECIFICATION Spec
CONSTANTS
  Alphabet <- ExprAlpha
  Seps = {" ", "\n"}
  MaxLen = 3
INVARIANTS TypeOK ContractShape Export
