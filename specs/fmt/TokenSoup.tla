----------------------------- MODULE TokenSoup -----------------------------
(***************************************************************************)
(* C13: the parser never panics or hangs and reports sorted errors.        *)
(*                                                                         *)
(* The property has no interesting model STATE (DESIGN section 7): what    *)
(* TLA+ contributes is (i) the exhaustive small-scope enumeration of the   *)
(* inputs -- every sequence of at most MaxLen tokens over an alphabet with *)
(* one representative spelling per token kind of token/token.go (XGo-only  *)
(* tokens and keywords included), every choice of separator between them   *)
(* -- and (ii) the CONTRACT of a parser entry point as a state machine     *)
(*      input --Call--> parsing --Return(o)--> returned --Check--> checked *)
(* whose invariants state the shape of the contract: every call returns    *)
(* (liveness), the outcome is a tree or a tree plus errors (never a panic, *)
(* never nothing), a returned error list is sorted, a nil error goes with  *)
(* a tree without Bad nodes.  The harness (fmth soup) drives the real      *)
(* entry points through the same three steps for every exported input and  *)
(* every mode flag and checks the same obligations on the real results.    *)
(***************************************************************************)
EXTENDS Integers, Sequences, FiniteSets, TLC, VerifIO

CONSTANTS Alphabet,   \* set of token spellings
          Seps,       \* separators that may stand between two tokens: subset of {"", " ", "\n"}
          MaxLen      \* maximal number of tokens

\* one representative spelling per token kind (token/token.go)
Literals  == {"a", "1", "1.5", "2i", "'c'", "\"s\"", "`r`", "c\"s\"", "py\"s\"", "3r", "3ms"}
Operators == {"+", "-", "*", "/", "%", "&", "|", "^", "<<", ">>", "&^",
              "+=", "-=", "*=", "/=", "%=", "&=", "|=", "^=", "<<=", ">>=", "&^=",
              "&&", "||", "<-", "++", "--", "==", "<", ">", "=", "!", "!=", "<=", ">=", ":=", "...",
              "(", "[", "{", ",", ".", ")", "]", "}", ";", ":"}
XGoOps    == {"=>", "?", "->", "<>", "~", "$", "@", "**"}
Keywords  == {"break", "case", "chan", "const", "continue", "default", "defer", "else", "fallthrough", "for", "func",
              "go", "goto", "if", "import", "interface", "map", "package", "range", "return", "select", "struct",
              "switch", "type", "var"}
AllTokens == Literals \cup Operators \cup XGoOps \cup Keywords
\* reduced alphabets by theme (for the longer sequences)
ExprAlpha == {"a", "1", "\"s\"", "+", "-", "*", "&", "<-", "!", "?", ":", "=>", "(", ")", "[", "]", "{", "}", ",", ".", "...", "$", "for", "in", "if", "func", "map", "`r`", "3ms"}
StmtAlpha == {"a", "1", "=", ":=", "+=", "++", "<-", ";", ":", ",", "{", "}", "(", ")", "if", "else", "for", "range", "switch", "case", "default",
              "select", "go", "defer", "return", "break", "goto", "fallthrough", "var", "in"}
DeclAlpha == {"a", "T", "\"s\"", "1", "=", ".", ",", ";", "(", ")", "{", "}", "[", "]", "*", "...", "package", "import", "const", "var", "type", "func",
              "struct", "interface", "chan", "map", "<-", "~", "|"}
CoreAlpha == {"a", "1", "(", ")", "{", "}", "[", "]", ",", ";", "=>", "?", "!", ":", "for", "func"}
Core4Alpha == {"a", "(", ")", "{", "}", "[", ",", "=>", "?", "for"}
Byte4Alpha == {"a", "1", "0x", ".", "'", "\"", "`", "\\", "/", "*", "#", "$", "{", "!", "\n", "<"}
BrkAlpha   == {"a", "[", "]", "{", "}", ",", "for", "in", "=>", ":"}       \* brackets / comprehensions / lambdas, up to 5 tokens
\* C15-style fragments: pieces of lexemes glued without separator
ByteAlpha == {"a", "1", "0x", "e", ".", "'", "\"", "`", "\\", "/", "*", "#", "$", "{", "}", "!", "?", ":", "<", ">", "-", "=", "\n", "@", "~", "_", "r", "c"}

VARIABLES toks,      \* the token spellings of the input
          seps,      \* seps[i] = separator in front of token i (seps[1] = "")
          phase,     \* "input" | "parsing" | "returned" | "checked"
          outcome,   \* "none" | "tree" | "tree+errors"   (what the entry point returned)
          oblig      \* obligations discharged by Check: subset of {"sorted", "nobad"}
vars == <<toks, seps, phase, outcome, oblig>>

Outcomes == {"tree", "tree+errors"}          \* the contract knows no "panic" and no "hang"

Init == toks = <<>> /\ seps = <<>> /\ phase = "input" /\ outcome = "none" /\ oblig = {}
\* grow the input by one token
Extend(t, s) == /\ phase = "input" /\ Len(toks) < MaxLen
                /\ (IF toks = <<>> THEN s = "" ELSE s \in Seps)
                /\ toks' = Append(toks, t) /\ seps' = Append(seps, s)
                /\ UNCHANGED <<phase, outcome, oblig>>
\* parser.ParseFile / ParseExpr / ParseEntry is called with the text
Call == /\ phase = "input" /\ phase' = "parsing" /\ UNCHANGED <<toks, seps, outcome, oblig>>
\* interface.go parseFile / ParseExprFrom: the deferred recover turns a bailout into a normal return;
\* the errors are sorted (p.errors.Sort()) and returned with the (partial) tree
Return(o) == /\ phase = "parsing" /\ o \in Outcomes
             /\ phase' = "returned" /\ outcome' = o /\ UNCHANGED <<toks, seps, oblig>>
\* what the caller may rely on
Check == /\ phase = "returned" /\ phase' = "checked"
         /\ oblig' = IF outcome = "tree" THEN {"nobad"} ELSE {"sorted"}
         /\ UNCHANGED <<toks, seps, outcome>>
Next == \/ \E t \in Alphabet : \E s \in Seps \cup {""} : Extend(t, s)
        \/ Call \/ Check \/ \E o \in Outcomes : Return(o)
Spec == Init /\ [][Next]_vars /\ WF_vars(Call) /\ WF_vars(Check) /\ WF_vars(\E o \in Outcomes : Return(o))

TypeOK == /\ Len(toks) = Len(seps) /\ Len(toks) <= MaxLen
          /\ \A i \in 1..Len(toks) : toks[i] \in Alphabet /\ seps[i] \in Seps \cup {""}
          /\ phase \in {"input", "parsing", "returned", "checked"}
\* the shape of the contract
ContractShape == /\ phase \in {"returned", "checked"} => outcome \in Outcomes
                 /\ phase \in {"input", "parsing"} => outcome = "none"
                 /\ phase = "checked" => (outcome = "tree" => "nobad" \in oblig) /\ (outcome = "tree+errors" => "sorted" \in oblig)
\* once called, the parser returns and the result is checked (no hang)
Returns == (phase = "parsing") ~> (phase = "checked")
\* one CASE record per input (exported when the call is issued)
Export == phase = "parsing" => Emit([toks |-> toks, seps |-> seps])
=============================================================================
