\* C20 thorough: two gap deviations
SPECIFICATION LSpec
CONSTANTS
  Foci = {"lit"}
  Sizes <- SmallSizes
  LFoci = {"stmt", "decl", "pairs"}
  Bases = {"canon"}
  MaxGap = 2
  MaxCm = 0
  CmKinds = {}
  MutKinds = {}
  PoolN = 1
INVARIANTS RescanOK CommentsOK GapsLegal TreeKept LShapesOK LExport
