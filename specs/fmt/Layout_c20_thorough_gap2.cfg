\* C20 thorough: every pair of gap deviations on every statement shape
SPECIFICATION LSpec
CONSTANTS
  Foci = {"lit"}
  Sizes <- SmallSizes
  LFoci = {"stmt", "pairs"}
  Bases = {"canon"}
  MaxGap = 2
  MaxCm = 0
  CmKinds = {}
  MutKinds = {}
  PoolN = 1
INVARIANTS RescanOK CommentsOK GapsLegal TreeKept LShapesOK LExport
