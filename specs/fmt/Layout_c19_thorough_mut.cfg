\* C19 thorough: AST mutations
SPECIFICATION LSpec
CONSTANTS
  Foci = {"prec", "lit", "postfix", "lambda"}
  Sizes <- SmallSizes
  LFoci = {"xasg", "stmt", "fstmt", "decl", "pairs", "samples"}
  Bases = {"canon", "nl"}
  MaxGap = 0
  MaxCm = 0
  CmKinds = {}
  MutKinds = {"wrap", "wrap2", "swap", "op"}
  PoolN = 2
INVARIANTS RescanOK CommentsOK GapsLegal TreeKept LShapesOK LExport
