\* C19 thorough: every single AST mutation of every tree
SPECIFICATION LSpec
CONSTANTS
  Foci = {"prec", "lit", "postfix"}
  Sizes <- SmallSizes
  LFoci = {"xasg", "stmt", "decl", "pairs", "samples"}
  Bases = {"canon"}
  MaxGap = 0
  MaxCm = 0
  CmKinds = {}
  MutKinds = {"wrap", "wrap2", "swap", "op"}
  PoolN = 2
INVARIANTS RescanOK CommentsOK GapsLegal TreeKept LShapesOK LExport
