\* C19 quick: one AST mutation (wrap in parentheses once/twice, swap operands, change operator) of every tree
SPECIFICATION LSpec
CONSTANTS
  Foci = {"prec", "lit"}
  Sizes <- SmallSizes
  LFoci = {"xasg", "stmt", "pairs"}
  Bases = {"canon"}
  MaxGap = 0
  MaxCm = 0
  CmKinds = {}
  MutKinds = {"wrap", "wrap2", "swap", "op"}
  PoolN = 1
INVARIANTS RescanOK CommentsOK GapsLegal TreeKept LShapesOK LExport
