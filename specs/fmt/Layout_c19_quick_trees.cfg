\* C19 quick: every expression tree of every focus (SmallSizes) as a statement of a script, three base layouts
SPECIFICATION LSpec
CONSTANTS
  Foci = {"prec", "ops", "postfix", "lambda", "lit", "atoms", "slidx", "cmd"}
  Sizes <- SmallSizes
  LFoci = {"xasg", "xcmd"}
  Bases = {"canon", "tight", "nl"}
  MaxGap = 0
  MaxCm = 0
  CmKinds = {}
  MutKinds = {}
  PoolN = 1
INVARIANTS RescanOK CommentsOK GapsLegal TreeKept LShapesOK LExport
