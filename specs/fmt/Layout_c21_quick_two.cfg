\* C21 quick: every pair of comments on the pair shapes
SPECIFICATION LSpec
CONSTANTS
  Foci = {"lit"}
  Sizes <- SmallSizes
  LFoci = {"pairs"}
  Bases = {"canon"}
  MaxGap = 0
  MaxCm = 2
  CmKinds = {"//", "/*", "#"}
  MutKinds = {}
  PoolN = 1
INVARIANTS RescanOK CommentsOK GapsLegal TreeKept LShapesOK LExport
