\* C20 quick: one gap deviation from three base layouts at every token
SPECIFICATION LSpec
CONSTANTS
  Foci = {"lit"}
  Sizes <- SmallSizes
  LFoci = {"stmt", "decl", "class", "pairs"}
  Bases = {"canon", "one", "nl"}
  MaxGap = 1
  MaxCm = 0
  CmKinds = {}
  MutKinds = {}
  PoolN = 1
INVARIANTS RescanOK CommentsOK GapsLegal TreeKept LShapesOK LExport
