\* C13 quick: every sequence of at most 3 tokens over the core alphabet (brackets, XGo operators, for/func)
SPECIFICATION Spec
CONSTANTS
  Alphabet <- CoreAlpha
  Seps = {" ", "\n"}
  MaxLen = 3
INVARIANTS TypeOK ContractShape Export
