\* C21 quick: function bodies (declaration, literal, empty) written on one line: every comment and every pair of comments, incl. inside the body followed by a later one
SPECIFICATION LSpec
CONSTANTS
  Foci = {"prec"}
  Sizes <- SmallSizes
  LFoci = {"oneline"}
  Bases = {"one"}
  MaxGap = 0
  MaxCm = 2
  CmKinds = {"/*", "//"}
  MutKinds = {}
  PoolN = 1
INVARIANTS RescanOK CommentsOK GapsLegal TreeKept LShapesOK LExport
