\* C21 thorough: every pair of comments on every statement shape
SPECIFICATION LSpec
CONSTANTS
  Foci = {"lit"}
  Sizes <- SmallSizes
  LFoci = {"stmt", "pairs"}
  Bases = {"canon"}
  MaxGap = 0
  MaxCm = 2
  CmKinds = {"//", "/*"}
  MutKinds = {}
  PoolN = 1
INVARIANTS RescanOK CommentsOK GapsLegal TreeKept LShapesOK LExport
