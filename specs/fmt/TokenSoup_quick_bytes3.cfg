\* C13 quick: C15-style fragments glued without separator, at most 3 fragments
SPECIFICATION Spec
CONSTANTS
  Alphabet <- ByteAlpha
  Seps = {""}
  MaxLen = 3
INVARIANTS TypeOK ContractShape Export
