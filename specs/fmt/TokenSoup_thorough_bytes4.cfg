\* C13 thorough: at most 4 glued fragments over a 16-fragment alphabet
SPECIFICATION Spec
CONSTANTS
  Alphabet <- Byte4Alpha
  Seps = {""}
  MaxLen = 4
INVARIANTS TypeOK ContractShape Export
