\* C20 quick: two gap deviations and a comment on the pair shapes
SPECIFICATION LSpec
CONSTANTS
  Foci = {"lit"}
  Sizes <- SmallSizes
  LFoci = {"pairs"}
  Bases = {"canon", "wide"}
  MaxGap = 2
  MaxCm = 1
  CmKinds = {"/*", "//"}
  MutKinds = {}
  PoolN = 1
INVARIANTS RescanOK CommentsOK GapsLegal TreeKept LShapesOK LExport
