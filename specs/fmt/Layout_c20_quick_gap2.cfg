\* C20 quick: every pair of gap deviations on the pair shapes, two base layouts
SPECIFICATION LSpec
CONSTANTS
  Foci = {"lit"}
  Sizes <- SmallSizes
  LFoci = {"pairs"}
  Bases = {"canon", "wide"}
  MaxGap = 2
  MaxCm = 0
  CmKinds = {}
  MutKinds = {}
  PoolN = 1
INVARIANTS RescanOK CommentsOK GapsLegal TreeKept LShapesOK LExport
