\* C13 thorough: every sequence of at most 3 tokens over the declaration alphabet
SPECIFICATION Spec
CONSTANTS
  Alphabet <- DeclAlpha
  Seps = {" ", "\n"}
  MaxLen = 3
INVARIANTS TypeOK ContractShape Export
