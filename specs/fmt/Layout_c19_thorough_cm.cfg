\* C19 thorough: one comment of every kind at every boundary (a comment must not change the tree)
SPECIFICATION LSpec
CONSTANTS
  Foci = {"prec"}
  Sizes <- SmallSizes
  LFoci = {"stmt", "fstmt", "decl", "class", "pairs", "samples"}
  Bases = {"canon"}
  MaxGap = 0
  MaxCm = 1
  CmKinds = {"//", "/*", "/*o", "#"}
  MutKinds = {}
  PoolN = 1
INVARIANTS RescanOK CommentsOK GapsLegal TreeKept LShapesOK LExport
