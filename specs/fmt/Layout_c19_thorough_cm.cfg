\* C19 thorough: one comment of every kind at every boundary
SPECIFICATION LSpec
CONSTANTS
  Foci = {"prec"}
  Sizes <- SmallSizes
  LFoci = {"stmt", "decl", "class", "pairs", "samples"}
  Bases = {"canon", "nl"}
  MaxGap = 0
  MaxCm = 1
  CmKinds = {"//", "/*", "/*o", "#"}
  MutKinds = {}
  PoolN = 2
INVARIANTS RescanOK CommentsOK GapsLegal TreeKept LShapesOK LExport
