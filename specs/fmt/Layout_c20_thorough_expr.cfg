\* C20 thorough: expression trees at QuickSizes, line breaks everywhere
SPECIFICATION LSpec
CONSTANTS
  Foci = {"lit", "postfix", "lambda", "prec"}
  Sizes <- QuickSizes
  LFoci = {"xasg"}
  Bases = {"nl"}
  MaxGap = 0
  MaxCm = 0
  CmKinds = {}
  MutKinds = {}
  PoolN = 1
INVARIANTS RescanOK CommentsOK GapsLegal TreeKept LShapesOK LExport
