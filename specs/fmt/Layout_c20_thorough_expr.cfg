\* C20 thorough: literal / postfix / lambda expression trees at QuickSizes, line break wherever legal
SPECIFICATION LSpec
CONSTANTS
  Foci = {"lit", "postfix", "lambda"}
  Sizes <- QuickSizes
  LFoci = {"xasg"}
  Bases = {"nl"}
  MaxGap = 0
  MaxCm = 0
  CmKinds = {}
  MutKinds = {}
  PoolN = 1
INVARIANTS RescanOK CommentsOK GapsLegal TreeKept LShapesOK LExport
