SPECIFICATION Spec
CONSTANTS
  MaxFuncs = 0
  MaxStmts = 2
  FuncKinds = {"func"}
  BodyKinds = {"call"}
  StmtKinds = {"call", "cmd", "assign", "mcall1", "mcall2", "if", "for", "switch", "defer", "var", "lamexpr", "lamblk", "funclit", "fwd"}
  GapSet = "g3"
  CaseGapSet = "g1"
  FileKind = "xgo"
INVARIANTS TypeOK IdsOnce StmtStart Monotone DocAdjacent Balanced DeviationsNamed HelpersDeclared Export
