------------------------------ MODULE Overload ------------------------------
(* C10 -- overloaded functions dispatch on argument types, independent of the *)
(* order in which the candidates are listed and of the style they are written *)
(* in (doc/overload.md).                                                      *)
(*                                                                            *)
(* A case is (family, candidate set, listing order, style per listed          *)
(* candidate).  The machine below is shaped like the implementation:          *)
(*   Preload  -- cl/compile.go preloadFile, `case *ast.OverloadFuncDecl`:     *)
(*               walks d.Funcs in LISTING order; a function literal at        *)
(*               listing index idx is declared as  name__<idx>  and leaves a  *)
(*               hole "" in the Gopo_ constant; an identifier / (T).sel       *)
(*               contributes its own name.                                    *)
(*   InitPkg  -- gogen InitThisGopPkgEx: turns the Gopo_ constant into the    *)
(*               overload table (a hole at position i resolves to name__<i>); *)
(*               with no Gopo_ constant (all literals) the table is the       *)
(*               name__<i> functions sorted by i.                             *)
(*   Scan*    -- gogen overload matching: first candidate of the table that   *)
(*               accepts the (typed) arguments.                               *)
(* The property is stated on the model as invariants (Unique,                 *)
(* OrderIndependent, StyleIndependent, Resolves) and every case is exported.  *)
EXTENDS Naturals, Sequences, FiniteSets, TLC, VerifIO

CONSTANTS Grid        \* "quick" | "thorough" | "live": which (family, size, pool) table is enumerated

\* ---------------------------------------------------------------- parameter tuples
Ty == {"int", "string", "float64", "bool", "ints", "ptr"}   \* ints = []int, ptr = *T

Arity1 == << <<"int">>, <<"string">>, <<"float64">>, <<"bool">>, <<"ints">>, <<"ptr">> >>
TyOrd  == <<"int", "string", "float64", "bool", "ints", "ptr">>
Arity2 == [ k \in 1..36 |-> << TyOrd[((k - 1) \div 6) + 1], TyOrd[((k - 1) % 6) + 1] >> ]

\* operator family: struct type foo; a binary candidate is either a method (foo, X) or a
\* function (X, foo) (doc/overload.md: intMulFoo)
OpFull == << <<"foo", "int">>, <<"foo", "string">>, <<"foo", "float64">>, <<"foo", "bool">>,
             <<"foo", "ints">>, <<"foo", "ptr">>, <<"foo", "foo">>,
             <<"int", "foo">>, <<"string", "foo">>, <<"float64", "foo">>, <<"bool", "foo">>,
             <<"ints", "foo">>, <<"ptr", "foo">> >>
PoolByName(nm) == CASE nm = "full42" -> Arity1 \o Arity2
          [] nm = "p12" -> << <<"int">>, <<"string">>, <<"float64">>, <<"bool">>, <<"ints">>, <<"ptr">>,
                                    <<"int", "int">>, <<"int", "string">>, <<"string", "int">>,
                                    <<"float64", "bool">>, <<"ptr", "ints">>, <<"ints", "ptr">> >>
          [] nm = "p8"  -> << <<"int">>, <<"string">>, <<"float64">>, <<"ptr">>,
                                    <<"int", "int">>, <<"int", "string">>, <<"string", "int">>, <<"ints", "bool">> >>
          [] nm = "p7"  -> << <<"int">>, <<"float64">>, <<"ptr">>,
                                    <<"int", "int">>, <<"int", "string">>, <<"string", "int">>, <<"ints", "bool">> >>
          [] nm = "p6"  -> << <<"int">>, <<"float64">>, <<"ptr">>,
                                    <<"int", "string">>, <<"string", "int">>, <<"ints", "bool">> >>
          [] nm = "p4"  -> << <<"int">>, <<"string">>, <<"int", "string">>, <<"ptr", "bool">> >>
          [] nm = "p5"  -> << <<"int">>, <<"string">>, <<"int", "string">>, <<"string", "int">>, <<"ptr", "bool">> >>

          [] nm = "op13" -> OpFull
          [] nm = "op9" -> << <<"foo", "int">>, <<"foo", "string">>, <<"foo", "foo">>, <<"foo", "ptr">>, <<"foo", "ints">>,
                              <<"int", "foo">>, <<"string", "foo">>, <<"ptr", "foo">>, <<"float64", "foo">> >>
          [] nm = "op6" -> << <<"foo", "int">>, <<"foo", "foo">>, <<"foo", "ptr">>,
                                        <<"int", "foo">>, <<"string", "foo">>, <<"foo", "string">> >>

\* the enumeration grid: set of <<family, size, pool name, with-unary-variants>>
GridDef ==
  CASE Grid = "quick" ->
         { <<"func", 2, "p12", FALSE>>, <<"method", 2, "p12", FALSE>>, <<"func", 3, "p6", FALSE>>,
           <<"method", 3, "p6", FALSE>>, <<"func", 4, "p4", FALSE>>, <<"method", 4, "p4", FALSE>>,
           <<"op", 2, "op13", FALSE>>, <<"op", 2, "op6", TRUE>>, <<"op", 3, "op9", FALSE>>, <<"op", 4, "op6", FALSE>> }
    [] Grid = "thorough" ->
         { <<"func", 2, "full42", FALSE>>, <<"method", 2, "full42", FALSE>>,
           <<"func", 2, "p12", FALSE>>, <<"method", 2, "p12", FALSE>>,      \* with the naming / declpos variants
           <<"func", 3, "p8", FALSE>>,
           <<"method", 3, "p8", FALSE>>, <<"func", 4, "p5", FALSE>>, <<"method", 4, "p5", FALSE>>,
           <<"op", 2, "op13", FALSE>>, <<"op", 2, "op6", TRUE>>, <<"op", 3, "op13", FALSE>>, <<"op", 4, "op9", FALSE>> }
    [] Grid = "live" ->
         { <<"func", 2, "p5", FALSE>>, <<"method", 2, "p5", FALSE>>, <<"func", 3, "p5", FALSE>>,
           <<"op", 2, "op6", TRUE>>, <<"op", 3, "op6", FALSE>> }

\* ---------------------------------------------------------------- cases
Injective(f) == \A a, b \in DOMAIN f : a # b => f[a] # f[b]
Perms2 == { p \in [1..2 -> 1..2] : Injective(p) }     \* zero-arity: TLC evaluates each once
Perms3 == { p \in [1..3 -> 1..3] : Injective(p) }
Perms4 == { p \in [1..4 -> 1..4] : Injective(p) }
PermsOf(n) == CASE n = 2 -> Perms2 [] n = 3 -> Perms3 [] n = 4 -> Perms4

\* style of one listed candidate
\*   func   : "lit" (inline function literal) | "named" (identifier of a declared func)
\*   method : "sel" `(T).m` | "selp" `(*T).m`   (uniform or alternating vectors only)
\*   op     : "sel" for (foo, X) | "named" for (X, foo)   -- forced by the tuple shape
StyleVecs(f, cs, lst) ==
  LET n == Len(lst) IN
  CASE f = "func"   -> [1..n -> {"lit", "named"}]
    [] f = "method" -> { [j \in 1..n |-> "sel"], [j \in 1..n |-> "selp"],
                         [j \in 1..n |-> IF j % 2 = 1 THEN "sel" ELSE "selp"] }
    [] f = "op"     -> { [j \in 1..n |-> IF cs[lst[j]][1] = "foo" THEN "sel" ELSE "named"] }

\* index sets of the pool with n elements, as strictly increasing sequences (= canonical order)
IncSeqs(m, n) == { s \in [1..n -> 1..m] : \A i \in 1..(n - 1) : s[i] < s[i + 1] }

Variants(f, n, pool) == IF n # 2 \/ pool = "full42" THEN { <<"plain", "before">> }
                  ELSE { <<"plain", "before">>, <<"under", "before">>, <<"plain", "after">> }
                       \cup (IF f = "method" THEN { <<"recvunder", "before">> } ELSE {})

VARIABLES fam, cands, listing, styles, unary, naming, declpos,   \* the case (constant along a behaviour)
          onames, decls, exov,                   \* Preload
          table,                                  \* InitPkg
          k, i, res, pc                           \* calls: k = current call, i = scan position
vars == <<fam, cands, listing, styles, unary, naming, declpos, onames, decls, exov, table, k, i, res, pc>>

N == Len(cands)

\* typed arguments of call k: exactly the parameter tuple of canonical candidate k;
\* call N+1 (only if unary) is the unary operator applied to a foo
ArgsOf(c) == cands[c]
NCalls == N + (IF unary THEN 1 ELSE 0)

\* a typed argument is accepted by a parameter of the identical type only (no untyped
\* constants, no interfaces in the bound)
Accepts(params, args) == Len(params) = Len(args) /\ \A j \in 1..Len(args) : params[j] = args[j]

Init == /\ \E g \in GridDef : LET pool == PoolByName(g[3]) IN
              /\ fam = g[1]
              /\ \E ix \in IncSeqs(Len(pool), g[2]) : cands = [j \in 1..g[2] |-> pool[ix[j]]]
              /\ listing \in PermsOf(g[2])
              /\ unary = g[4]
              \* identifiers with / without "_": cl overloadName switches the separator of the Gopo_
              \* constant to "__" when the function or receiver type name contains an underscore, and gogen
              \* checkTypeMethod has to split it again (enumerated for the 2-candidate sets)
              \*   under     : function / method / type names all contain "_"
              \*   recvunder : only the receiver type's name contains "_" (method family)
              \* declpos: the named candidates are declared textually before / after the overload
              \* declaration that lists them (preloadFile must force-load them either way: ctx.lbinames)
              /\ \E v \in Variants(g[1], g[2], g[3]) : naming = v[1] /\ declpos = v[2]
        /\ styles \in StyleVecs(fam, cands, listing)

        /\ onames = <<>> /\ decls = {} /\ exov = FALSE /\ table = <<>>
        /\ k = 0 /\ i = 0 /\ res = <<>> /\ pc = "preload"

Hole == [kind |-> "hole", ix |-> 0]
LitName(ix)  == [kind |-> "lit", ix |-> ix]          \* name__<ix>   (ix is 0-based)
OwnName(c)   == [kind |-> "own", ix |-> c]           \* the candidate's own func / method name

\* cl/compile.go preloadFile, OverloadFuncDecl: for idx, fn := range d.Funcs
Preload == /\ pc = "preload"
           /\ onames' = [j \in 1..N |-> IF styles[j] = "lit" THEN Hole ELSE OwnName(listing[j])]
           /\ decls'  = { <<LitName(j - 1), listing[j]>> : j \in { x \in 1..N : styles[x] = "lit" } }
                        \cup { <<OwnName(listing[j]), listing[j]>> : j \in { x \in 1..N : styles[x] # "lit" } }
           /\ exov'   = (\E j \in 1..N : styles[j] # "lit")
           /\ pc' = "initpkg"
           /\ UNCHANGED <<fam, cands, listing, styles, unary, naming, declpos, table, k, i, res>>

\* gogen import.go InitThisGopPkgEx: Gopo_ constant -> table; else name__i sorted by i
InitPkg == /\ pc = "initpkg"
           /\ table' = IF exov
                       THEN [j \in 1..N |-> IF onames[j] = Hole THEN LitName(j - 1) ELSE onames[j]]
                       ELSE [j \in 1..N |-> LitName(j - 1)]
           /\ pc' = "call" /\ k' = 1 /\ i' = 1
           /\ UNCHANGED <<fam, cands, listing, styles, unary, naming, declpos, onames, decls, exov, res>>

Resolve(nm) == LET hits == { d \in decls : d[1] = nm } IN
               IF hits = {} THEN 0 ELSE (CHOOSE d \in hits : TRUE)[2]

\* gogen: matchOverload -- try table[i] on the arguments of call k
ScanHit  == /\ pc = "call" /\ k <= N /\ i <= N
            /\ Resolve(table[i]) # 0 /\ Accepts(cands[Resolve(table[i])], ArgsOf(k))
            /\ res' = Append(res, Resolve(table[i]))
            /\ k' = k + 1 /\ i' = 1
            /\ UNCHANGED <<fam, cands, listing, styles, unary, naming, declpos, onames, decls, exov, table, pc>>
ScanMiss == /\ pc = "call" /\ k <= N /\ i <= N
            /\ ~(Resolve(table[i]) # 0 /\ Accepts(cands[Resolve(table[i])], ArgsOf(k)))
            /\ i' = i + 1
            /\ UNCHANGED <<fam, cands, listing, styles, unary, naming, declpos, onames, decls, exov, table, k, res, pc>>
NoMatch  == /\ pc = "call" /\ k <= N /\ i > N         \* compile error "no overload matches"
            /\ res' = Append(res, 0) /\ k' = k + 1 /\ i' = 1
            /\ UNCHANGED <<fam, cands, listing, styles, unary, naming, declpos, onames, decls, exov, table, pc>>
\* unary operator: `func -(a foo)` is method Gop_Neg of foo, resolved by name, no table
UnaryCall == /\ pc = "call" /\ k = N + 1 /\ unary
             /\ res' = Append(res, N + 1) /\ k' = k + 1
             /\ UNCHANGED <<fam, cands, listing, styles, unary, naming, declpos, onames, decls, exov, table, i, pc>>
Finish   == /\ pc = "call" /\ k > NCalls
            /\ pc' = "done"
            /\ UNCHANGED <<fam, cands, listing, styles, unary, naming, declpos, onames, decls, exov, table, k, i, res>>

Next == Preload \/ InitPkg \/ ScanHit \/ ScanMiss \/ NoMatch \/ UnaryCall \/ Finish
Spec == Init /\ [][Next]_vars /\ WF_vars(Next)

-----------------------------------------------------------------------------
\* The property, on the model.

\* pure first-match dispatch over a listing (a sequence of canonical ids)
RECURSIVE First(_, _, _)
First(lst, args, j) == IF j > Len(lst) THEN 0
                       ELSE IF Accepts(cands[lst[j]], args) THEN lst[j] ELSE First(lst, args, j + 1)
Dispatch(lst, args) == First(lst, args, 1)
Identity == [j \in 1..N |-> j]

TypeOK == /\ fam \in {"func", "method", "op"} /\ N \in 2..4
          /\ Injective(listing) /\ Len(listing) = N /\ Len(styles) = N
          /\ pc \in {"preload", "initpkg", "call", "done"}
\* (the two theorems about the candidate SET are evaluated in the initial states whose listing is the
\* identity -- they quantify over every permutation themselves)
\* candidates are pairwise distinguishable: every call is accepted by exactly one candidate
Unique == (pc = "preload" /\ listing = Identity) => \A c \in 1..N : Cardinality({ d \in 1..N : Accepts(cands[d], ArgsOf(c)) }) = 1
\* Dispatch(pi(cands), args) = Dispatch(cands, args), for every permutation pi (not only the case's)
OrderIndependent == (pc = "preload" /\ listing = Identity) => \A c \in 1..N : \A p \in PermsOf(N) : Dispatch(p, ArgsOf(c)) = Dispatch(Identity, ArgsOf(c))
\* the table built by Preload/InitPkg names every candidate exactly once, whatever the styles
Resolves == (pc = "call" /\ k = 1 /\ i = 1) =>
              /\ \A j \in 1..N : Resolve(table[j]) = listing[j]
              /\ \A d1, d2 \in decls : d1[1] = d2[1] => d1 = d2
\* the machine's result is the accepting candidate: call c reaches candidate c
Correct == pc = "done" => /\ Len(res) = NCalls
                          /\ \A c \in 1..N : res[c] = c /\ res[c] = Dispatch(listing, ArgsOf(c))
                          /\ unary => res[N + 1] = N + 1
Terminates == <>(pc = "done")

\* name of the Gopo_ constant as cl/compile.go overloadName builds it, as a token sequence
\* (operator overloads are named Gop_Mul, Gop_Add, ... : always the "__" form)
GopoSep  == IF fam = "op" \/ naming = "under" \/ (naming = "recvunder" /\ fam = "method") THEN "__" ELSE "_"
GopoName == IF fam = "func" THEN <<"Gopo", GopoSep, "F">> ELSE <<"Gopo", GopoSep, "T", GopoSep, "M">>
\* gogen checkTypeMethod: a key (the part after "Gopo_") that starts with "_" uses "__" as separator,
\* any other key is split at its first "_": both recover (type, name) only if names without "__"
\* separator contain no "_" -- which is what overloadName guarantees
KeyParses == LET key == Tail(GopoName)                      \* drop "Gopo"; key[1] is the separator
             IN (key[1] = "__") <=> (fam = "op" \/ naming \in {"under", "recvunder"})

Export == pc = "done" =>
   Emit([fam |-> fam, declpos |-> declpos, naming |-> naming, gopoSep |-> GopoSep, cands |-> cands, listing |-> listing, styles |-> styles, unary |-> unary,
         table |-> [j \in 1..N |-> [kind |-> table[j].kind, ix |-> table[j].ix]],
         want |-> res])
=============================================================================
