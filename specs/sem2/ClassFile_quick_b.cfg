SPECIFICATION Spec
CONSTANTS
  MinFields = 3
  MaxFields = 3
  MethodLists = "all6"
  Exported = {TRUE}
  Tagged = {TRUE, FALSE}
INVARIANTS TypeOK TwinSame GroupingIrrelevant OutputShape Export
