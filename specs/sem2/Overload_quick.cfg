SPECIFICATION Spec
CONSTANTS
  Grid = "quick"
INVARIANTS TypeOK Unique OrderIndependent Resolves Correct KeyParses Export
