SPECIFICATION Spec
CONSTANTS
  MinFields = 1
  MaxFields = 2
  MethodLists = "singles"
  Exported = {FALSE}
  Tagged = {TRUE, FALSE}
  Preludes = {"none"}
  Shadows = {FALSE}
INVARIANTS TypeOK TwinSame GroupingIrrelevant OutputShape Export
PROPERTY Terminates
