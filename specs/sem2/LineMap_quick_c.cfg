SPECIFICATION Spec
CONSTANTS
  MaxFuncs = 1
  MaxStmts = 1
  FuncKinds = {"func"}
  BodyKinds = {"call", "cmd", "assign", "mcall1", "mcall2", "if", "for", "switch", "defer", "var", "lamexpr", "lamblk", "funclit", "fwd", "swtag", "swbare", "swbare2", "selsend"}
  StmtKinds = {"call", "fwd", "var"}
  GapSet = "g2"
  CaseGapSet = "g1"
  FileKind = "xgo"
  RelBases = {"same"}
INVARIANTS TypeOK IdsOnce StmtStart Monotone DocAdjacent Balanced DeviationsNamed HelpersDeclared RelCorrect Export
