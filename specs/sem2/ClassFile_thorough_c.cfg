SPECIFICATION Spec
CONSTANTS
  MinFields = 1
  MaxFields = 2
  MethodLists = "q2"
  Exported = {FALSE}
  Tagged = {FALSE}
  Preludes = {"none", "const", "type"}
  Shadows = {TRUE, FALSE}
INVARIANTS TypeOK TwinSame GroupingIrrelevant OutputShape Export
