SPECIFICATION Spec
CONSTANTS
  MaxFuncs = 1
  MaxStmts = 1
  FuncKinds = {"func", "method"}
  BodyKinds = {"call", "var"}
  StmtKinds = {"call", "if", "switch", "swtag"}
  GapSet = "g2"
  CaseGapSet = "g2"
  FileKind = "xgo"
  RelBases = {"same", "unset", "sibling", "unrelated"}
INVARIANTS TypeOK IdsOnce StmtStart Monotone DocAdjacent Balanced DeviationsNamed HelpersDeclared RelCorrect Export
