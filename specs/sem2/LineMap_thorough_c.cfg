SPECIFICATION Spec
CONSTANTS
  MaxFuncs = 0
  MaxStmts = 2
  FuncKinds = {"func"}
  BodyKinds = {"call"}
  StmtKinds = {"call", "cmd", "assign", "mcall1", "mcall2", "if", "for", "switch", "defer", "var", "lamexpr", "lamblk", "funclit", "fwd"}
  GapSet = "g5"
  CaseGapSet = "g2"
  FileKind = "xgo"
  RelBases = {"same"}
INVARIANTS TypeOK IdsOnce StmtStart Monotone DocAdjacent Balanced DeviationsNamed HelpersDeclared RelCorrect Export
