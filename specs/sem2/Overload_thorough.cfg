SPECIFICATION Spec
CONSTANTS
  Grid = "thorough"
INVARIANTS TypeOK Unique OrderIndependent Resolves Correct KeyParses Export
