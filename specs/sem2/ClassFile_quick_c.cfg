SPECIFICATION Spec
CONSTANTS
  MinFields = 1
  MaxFields = 2
  MethodLists = "q1"
  Exported = {FALSE}
  Tagged = {FALSE}
  Preludes = {"const", "type"}
  Shadows = {FALSE}
INVARIANTS TypeOK TwinSame GroupingIrrelevant OutputShape Export
