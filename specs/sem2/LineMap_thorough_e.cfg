SPECIFICATION Spec
CONSTANTS
  MaxFuncs = 1
  MaxStmts = 2
  FuncKinds = {"func", "method"}
  BodyKinds = {"call", "swtag", "swbare", "swbare2", "selsend"}
  StmtKinds = {"call", "swtag", "swbare", "swbare2", "selsend"}
  GapSet = "g2"
  CaseGapSet = "g1"
  FileKind = "xgo"
  RelBases = {"same"}
INVARIANTS TypeOK IdsOnce StmtStart Monotone DocAdjacent Balanced DeviationsNamed HelpersDeclared RelCorrect Export
