SPECIFICATION Spec
CONSTANTS
  MinFields = 1
  MaxFields = 3
  MethodLists = "q"
  Exported = {TRUE}
  Tagged = {FALSE}
INVARIANTS TypeOK TwinSame GroupingIrrelevant OutputShape Export
