SPECIFICATION Spec
CONSTANTS
  MaxFuncs = 2
  MaxStmts = 1
  FuncKinds = {"func", "method"}
  BodyKinds = {"call", "var", "fwd", "if", "funclit", "defer"}
  StmtKinds = {"call"}
  GapSet = "g2"
  CaseGapSet = "g2"
  FileKind = "xgo"
INVARIANTS TypeOK IdsOnce StmtStart Monotone DocAdjacent Balanced DeviationsNamed HelpersDeclared Export
