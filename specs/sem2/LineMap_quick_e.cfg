SPECIFICATION Spec
CONSTANTS
  MaxFuncs = 0
  MaxStmts = 2
  FuncKinds = {"func"}
  BodyKinds = {"call"}
  StmtKinds = {"call", "swtag", "swbare", "swbare2", "selsend"}
  GapSet = "g2"
  CaseGapSet = "g1"
  FileKind = "xgo"
  RelBases = {"same"}
INVARIANTS TypeOK IdsOnce StmtStart Monotone DocAdjacent Balanced DeviationsNamed HelpersDeclared RelCorrect Export
