SPECIFICATION Spec
CONSTANTS
  MinFields = 2
  MaxFields = 2
  MethodLists = "pairs"
  Exported = {FALSE}
INVARIANTS TypeOK TwinSame GroupingIrrelevant OutputShape Export
