SPECIFICATION Spec
CONSTANTS
  MinFields = 2
  MaxFields = 2
  MethodLists = "pairs"
  Exported = {FALSE}
  Tagged = {TRUE}
  Preludes = {"none"}
  Shadows = {FALSE}
INVARIANTS TypeOK TwinSame GroupingIrrelevant OutputShape Export
