SPECIFICATION Spec
CONSTANTS
  MaxFuncs = 1
  MaxStmts = 1
  FuncKinds = {"func"}
  BodyKinds = {"call"}
  StmtKinds = {"call", "if"}
  GapSet = "g2"
  CaseGapSet = "g1"
  FileKind = "xgo"
  RelBases = {"same", "unset", "sibling", "unrelated"}
INVARIANTS TypeOK IdsOnce StmtStart Monotone DocAdjacent Balanced DeviationsNamed HelpersDeclared RelCorrect Export
