SPECIFICATION Spec
CONSTANTS
  Grid = "live"
INVARIANTS TypeOK Unique OrderIndependent Resolves Correct Export
PROPERTY Terminates
