SPECIFICATION Spec
CONSTANTS
  Grid = "live"
INVARIANTS TypeOK Unique OrderIndependent Resolves Correct KeyParses Export
PROPERTY Terminates
