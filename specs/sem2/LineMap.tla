------------------------------- MODULE LineMap -------------------------------
(* C09 -- line directives map every statement / function back to its XGo line. *)
(*                                                                            *)
(* A case is one XGo source file, built line by line by the layout machine    *)
(* below.  `text` is the file as a sequence of LINE DESCRIPTORS (the harness   *)
(* renders each descriptor to exactly one source line), `ents` records for     *)
(* every probe id (a call `where(id)`) the line the property demands:          *)
(* the first line of the statement the call belongs to; `funcs` records the    *)
(* line of the `func` keyword of every function item.                          *)
(*                                                                            *)
(* Items are separated by gaps of 0..2 blank / comment lines.  A run of        *)
(* comment lines directly above a `func` or `var` line is its doc comment      *)
(* (parser: leadComment) -- doc-ness is a consequence of the layout.           *)
(*                                                                            *)
(* Code anchors: cl/stmt.go commentStmt/commentStmtEx (one `//line f:N:1`      *)
(* directive per statement, N = line of stmt.Pos(), or of the doc comment for  *)
(* a DeclStmt with doc -- gogen re-emits the doc lines below the directive, so  *)
(* the `var` line itself is still right), commentFunc (directive + re-emitted  *)
(* doc lines per function).  Deviations of today's code from the property are  *)
(* NAMED:                                                                      *)
(*   LazyClobber   a statement whose compilation triggers the lazy loading of  *)
(*                 a function declared later gets the callee's last directive  *)
(*                 (plain functions only: method bodies are compiled later)    *)
(* `CodeLine` is the model of the current code, `ent.line` the property.       *)
EXTENDS Naturals, Sequences, FiniteSets, TLC, VerifIO

CONSTANTS MaxFuncs,    \* function items placed before the case function
          MaxStmts,    \* statement items inside the case function
          FuncKinds,   \* subset of {"func", "method"}
          BodyKinds,   \* statement kinds allowed as the single body statement of a function item
          StmtKinds,   \* statement kinds allowed in the case function
          GapSet,      \* name of the set of gaps used between items (see Gaps)
          CaseGapSet,  \* name of the set of gaps used above the case function's header
          RelBases,    \* subset of {"same", "unset", "sibling", "unrelated"}: cl.Config.RelativeBase vs the file's directory
          FileKind     \* "xgo": ordinary source file; "gox": normal class file (line 1 is the var block,
                       \*   every func -- items, case function, helpers -- is a method of the class)

AllStmtKinds == {"call", "cmd", "assign", "mcall1", "mcall2", "if", "for", "switch", "defer",
                 "var", "lamexpr", "lamblk", "funclit", "fwd",
                 "swtag", "swbare", "swbare2", "selsend"}   \* probe calls inside case / comm clauses

\* a gap is a sequence over {"b", "c"}: blank line, comment line
GapsNamed(nm) == CASE nm = "g1" -> { <<>> }
                   [] nm = "g2" -> { <<>>, <<"c">> }
                   [] nm = "g3" -> { <<>>, <<"c">>, <<"b", "c">> }
                   [] nm = "g5" -> { <<>>, <<"b">>, <<"c">>, <<"c", "c">>, <<"c", "b">> }
                   [] nm = "g7" -> { <<>>, <<"b">>, <<"c">>, <<"b", "b">>, <<"b", "c">>, <<"c", "b">>, <<"c", "c">> }
Gaps == GapsNamed(GapSet)
CaseGaps == GapsNamed(CaseGapSet)

VARIABLES text,     \* sequence of line descriptors [k, id, ref, ss]
          ents,     \* sequence (indexed by probe id) of [kind, line, tok, ndoc, h, ctx]
          funcs,    \* sequence of [kind, decl, ndoc] per function item
          nh,       \* number of forward-declared helpers used so far
          ns,       \* statement items placed in the case function
          tail,     \* line on which the helper declarations start (0 until known)
          relbase,  \* how cl.Config.RelativeBase relates to the directory of the file (constant per case)
          pc        \* "funcs" | "stmts" | "done"
vars == <<text, ents, funcs, nh, ns, tail, relbase, pc>>

\* ---------------------------------------------------------------- file names (cl/stmt.go fileLineFile)
\* directories are sequences of path components; the file lives in FileDir
FileDir == <<"x", "proj-tools">>
BaseDir(rb) == CASE rb = "same" -> FileDir
                 [] rb = "sibling" -> <<"x", "proj">>          \* shares a NAME prefix with FileDir, not a path prefix
                 [] rb = "unrelated" -> <<"y", "other">>
RECURSIVE CommonLen(_, _, _)
CommonLen(a, b, n) == IF n < Len(a) /\ n < Len(b) /\ a[n + 1] = b[n + 1] THEN CommonLen(a, b, n + 1) ELSE n
\* filepath.Rel on component sequences: one ".." per remaining component of base, then the rest of dir
Rel(base, dir) == LET c == CommonLen(base, dir, 0) IN
                  [j \in 1..(Len(base) - c) |-> ".."] \o SubSeq(dir, c + 1, Len(dir))
\* filepath.Join(base, rel) cleaned: ".." pops a component
RECURSIVE Clean(_, _)
Clean(stack, rest) == IF rest = <<>> THEN stack
                      ELSE IF rest[1] = ".." THEN Clean(SubSeq(stack, 1, Len(stack) - 1), Tail(rest))
                      ELSE Clean(Append(stack, rest[1]), Tail(rest))
\* the directory part of the file name every //line directive (and so runtime.Caller) must carry
ExpDir(rb) == IF rb = "unset" THEN [abs |-> TRUE, comps |-> FileDir]
              ELSE [abs |-> FALSE, comps |-> Rel(BaseDir(rb), FileDir)]

Line == Len(text) + 1                         \* number of the next line to be written
NId  == Len(ents) + 1                         \* next probe id

\* line descriptor: kind, probe id on this line (0: none), auxiliary reference number,
\* ss = first line of the innermost STATEMENT (or declaration) this line belongs to (0: none)
L(k, id, ref, ss) == [k |-> k, id |-> id, ref |-> ref, ss |-> ss]

GapLines(g) == [j \in 1..Len(g) |-> IF g[j] = "b" THEN L("blank", 0, 0, 0) ELSE L("comment", 0, 0, 0)]
\* number of comment lines directly above the item (its doc comment, if the item can have one)
RECURSIVE NDoc(_)
NDoc(g) == IF g = <<>> \/ g[Len(g)] # "c" THEN 0 ELSE 1 + NDoc(SubSeq(g, 1, Len(g) - 1))

\* ---------------------------------------------------------------- statement items
\* StmtLines(k, s, id, h): the lines of a statement item of kind k starting at line s, using probe
\* ids id, id+1 and helper number h.  StmtEnts: the probe records it contributes.
StmtLines(k, s, id, h) ==
  CASE k = "call"    -> << L("call", id, 0, s) >>
    [] k = "cmd"     -> << L("cmd", id, 0, s) >>
    [] k = "assign"  -> << L("assign", id, 0, s), L("use", 0, id, s + 1) >>
    [] k = "mcall1"  -> << L("mcall1", id, 0, s), L("arg0", 0, 0, s), L("rparen", 0, 0, s) >>
    [] k = "mcall2"  -> << L("sinkopen", 0, 0, s), L("argwhere", id, 0, s), L("rparen", 0, 0, s) >>
    [] k = "if"      -> << L("ifhdr", id, 0, s), L("call", id + 1, 0, s + 1), L("close", 0, 0, s) >>
    [] k = "for"     -> << L("forhdr", id, 0, s), L("call", id + 1, 0, s + 1), L("close", 0, 0, s) >>
    [] k = "switch"  -> << L("swhdr", id, 0, s), L("case1", 0, 0, s), L("call", id + 1, 0, s + 2), L("close", 0, 0, s) >>
    [] k = "defer"   -> << L("defer", id, 0, s) >>
    [] k = "var"     -> << L("var", id, 0, s), L("use", 0, id, s + 1) >>
    [] k = "lamexpr" -> << L("lamexpr", id, 0, s) >>
    [] k = "lamblk"  -> << L("lamhdr", 0, 0, s), L("ret", id, 0, s + 1), L("lamend", 0, 0, s) >>
    [] k = "funclit" -> << L("flithdr", 0, id, s), L("call", id, 0, s + 1), L("close", 0, 0, s), L("callg", 0, id, s + 3) >>
    [] k = "fwd"     -> << L("fwd", id, h, s) >>
    \* a case / comm clause is a statement of its own: a probe in its expression belongs to the clause's line
    [] k = "swtag"   -> << L("swhdr", id, 0, s), L("casew", id + 1, 0, s + 1), L("call", id + 2, 0, s + 2),
                           L("call", id + 3, 0, s + 3), L("close", 0, 0, s) >>
    [] k = "swbare"  -> << L("swbarehdr", 0, 0, s), L("casegt", id, 0, s + 1), L("call", id + 1, 0, s + 2),
                           L("call", id + 2, 0, s + 3), L("close", 0, 0, s) >>
    [] k = "swbare2" -> << L("swbarehdr", 0, 0, s), L("casegt1", id, 0, s + 1), L("call", id + 1, 0, s + 2),
                           L("casegt", id + 2, 0, s + 3), L("call", id + 3, 0, s + 4), L("call", id + 4, 0, s + 5),
                           L("close", 0, 0, s) >>
    [] k = "selsend" -> << L("mkchan", 0, id, s), L("selhdr", 0, 0, s + 1), L("selcase", id, id, s + 2),
                           L("call", id + 1, 0, s + 3), L("call", id + 2, 0, s + 4), L("close", 0, 0, s + 1) >>

\* opt = TRUE: the probe may legitimately not be reached by the driver (body of a clause that is not taken)
E(k, line, tok, ndoc, h, c) == [kind |-> k, line |-> line, tok |-> tok, ndoc |-> ndoc, h |-> h, ctx |-> c, opt |-> FALSE]
EO(k, line, c) == [kind |-> k, line |-> line, tok |-> line, ndoc |-> 0, h |-> 0, ctx |-> c, opt |-> TRUE]

\* c = context ("func" | "method" | "case"), nd = doc lines above the item
StmtEnts(k, s, nd, h, c) ==
  CASE k \in {"call", "cmd", "assign", "mcall1", "defer", "lamexpr"} -> << E(k, s, s, 0, 0, c) >>
    [] k = "mcall2"  -> << E(k, s, s + 1, 0, 0, c) >>          \* the call sits on line 2 of the statement
    [] k = "if"      -> << E("ifhdr", s, s, 0, 0, c), E("ifbody", s + 1, s + 1, 0, 0, c) >>
    [] k = "for"     -> << E("forhdr", s, s, 0, 0, c), E("forbody", s + 1, s + 1, 0, 0, c) >>
    [] k = "switch"  -> << E("swhdr", s, s, 0, 0, c), E("casebody", s + 2, s + 2, 0, 0, c) >>
    [] k = "var"     -> << E(k, s, s, nd, 0, c) >>
    [] k = "lamblk"  -> << E(k, s + 1, s + 1, 0, 0, c) >>      \* the return statement of the lambda body
    [] k = "funclit" -> << E(k, s + 1, s + 1, 0, 0, c) >>
    [] k = "fwd"     -> << E(k, s, s, 0, h, c) >>
    [] k = "swtag"   -> << E("swhdr", s, s, 0, 0, c), E("caseexpr", s + 1, s + 1, 0, 0, c),
                           E("casebody", s + 2, s + 2, 0, 0, c), E("casebody", s + 3, s + 3, 0, 0, c) >>
    [] k = "swbare"  -> << E("caseexpr", s + 1, s + 1, 0, 0, c),
                           E("casebody", s + 2, s + 2, 0, 0, c), E("casebody", s + 3, s + 3, 0, 0, c) >>
    [] k = "swbare2" -> << E("caseexpr", s + 1, s + 1, 0, 0, c), EO("casebody", s + 2, c), E("caseexpr", s + 3, s + 3, 0, 0, c),
                           E("casebody", s + 4, s + 4, 0, 0, c), E("casebody", s + 5, s + 5, 0, 0, c) >>
    [] k = "selsend" -> << E("commexpr", s + 2, s + 2, 0, 0, c),
                           E("commbody", s + 3, s + 3, 0, 0, c), E("commbody", s + 4, s + 4, 0, 0, c) >>

Init == /\ text = << L("typedecl", 0, 0, 1) >>
        /\ ents = <<>> /\ funcs = <<>> /\ nh = 0 /\ ns = 0 /\ tail = 0 /\ pc = "funcs"
        /\ relbase \in RelBases

\* a function item: gap, header, one body statement, closing brace
PlaceFunc(fk, g, bk) ==
  /\ pc = "funcs" /\ Len(funcs) < MaxFuncs
  /\ LET hdr == Line + Len(g)
         h   == IF bk = "fwd" THEN nh + 1 ELSE 0
     IN /\ text' = text \o GapLines(g) \o << L(IF fk = "func" THEN "funchdr" ELSE "methhdr", 0, Len(funcs) + 1, hdr) >>
                        \o StmtLines(bk, hdr + 1, NId, h) \o << L("close", 0, 0, hdr) >>
        /\ ents' = ents \o StmtEnts(bk, hdr + 1, 0, h, fk)
        /\ funcs' = Append(funcs, [kind |-> fk, decl |-> hdr, ndoc |-> NDoc(g)])
        /\ nh' = IF bk = "fwd" THEN nh + 1 ELSE nh
  /\ UNCHANGED <<ns, tail, relbase, pc>>

\* the case function's header
StartCase(g) ==
  /\ pc = "funcs"
  /\ text' = text \o GapLines(g) \o << L("casehdr", 0, 0, Line + Len(g)) >>
  /\ pc' = "stmts"
  /\ UNCHANGED <<ents, funcs, nh, ns, tail, relbase>>

PlaceStmt(k, g) ==
  /\ pc = "stmts" /\ ns < MaxStmts
  /\ LET s == Line + Len(g)
         h == IF k = "fwd" THEN nh + 1 ELSE 0
     IN /\ text' = text \o GapLines(g) \o StmtLines(k, s, NId, h)
        /\ ents' = ents \o StmtEnts(k, s, NDoc(g), h, "case")
        /\ nh' = IF k = "fwd" THEN nh + 1 ELSE nh
  /\ ns' = ns + 1
  /\ UNCHANGED <<funcs, tail, relbase, pc>>

\* calls of the function items, closing brace, then the forward-declared helpers
EndCase ==
  /\ pc = "stmts" /\ (ns > 0 \/ Len(funcs) > 0)
  /\ LET calls == [j \in 1..Len(funcs) |-> L(IF funcs[j].kind = "func" THEN "callfn" ELSE "callmeth", 0, j, Line + j - 1)]
         body  == text \o calls \o << L("close", 0, 0, 0) >>
         t0    == Len(body) + 1
         helper(h) == << L("laterhdr", 0, h, t0 + 3 * (h - 1)), L("retx", 0, 0, t0 + 3 * (h - 1) + 1), L("close", 0, 0, t0 + 3 * (h - 1)) >>
         helpers == [j \in 1..(3 * nh) |-> helper(((j - 1) \div 3) + 1)[((j - 1) % 3) + 1]]
     IN /\ text' = body \o helpers
        /\ tail' = t0
  /\ pc' = "done"
  /\ UNCHANGED <<ents, funcs, nh, ns, relbase>>

Next == \/ \E fk \in FuncKinds, g \in Gaps, bk \in BodyKinds : PlaceFunc(fk, g, bk)
        \/ \E g \in CaseGaps : StartCase(g)
        \/ \E k \in StmtKinds, g \in Gaps : PlaceStmt(k, g)
        \/ EndCase
Spec == Init /\ [][Next]_vars

-----------------------------------------------------------------------------
\* The model of TODAY'S CODE (named deviations) next to the property's line.
\* (cl/stmt.go checkStmtDoc: a `var` with ndoc doc lines gets `//line f:(line-ndoc):1` followed by
\* the ndoc comment lines, i.e. the var line is line again -- no deviation)
\* nested loadFunc overwrites the pending comment of the code builder; method bodies are compiled
\* after every function has been loaded (typeLoader.methods), so they are not affected
LazyClobberPresent == FALSE    \* set to FALSE once fixes/C09-lazyload-line-comment.diff is committed to /repo
LazyClobber(e) == LazyClobberPresent /\ e.kind = "fwd" /\ e.ctx # "method" /\ FileKind = "xgo"
CodeLine(e) == IF LazyClobber(e) THEN tail + 3 * (e.h - 1) + 1   \* the helper's `return x` line
               ELSE e.line

\* ---------------------------------------------------------------- model-level theorems
TypeOK == /\ FileKind \in {"xgo", "gox"} /\ (FileKind = "gox" => "method" \notin FuncKinds)
          /\ pc \in {"funcs", "stmts", "done"} /\ ns \in 0..MaxStmts /\ Len(funcs) \in 0..MaxFuncs
          /\ \A j \in 1..Len(text) : text[j].ss \in 0..Len(text) + 4
\* every probe id is written on exactly one line, and that is the line the entry names as `tok`
IdsOnce == \A id \in 1..Len(ents) :
             /\ Cardinality({ j \in 1..Len(text) : text[j].id = id }) = 1
             /\ text[ents[id].tok].id = id
\* the demanded line is the first line of the statement that contains the call, and that line
\* is itself the start of a statement
StmtStart == \A id \in 1..Len(ents) :
               /\ ents[id].line = text[ents[id].tok].ss
               /\ text[ents[id].line].ss = ents[id].line
               /\ text[ents[id].line].k \notin {"blank", "comment"}
\* ids are handed out in textual order
Monotone == \A a, b \in 1..Len(ents) : a < b => ents[a].line < ents[b].line
\* doc lines really are comment lines directly above the item
DocAdjacent == /\ \A id \in 1..Len(ents) : \A d \in 1..ents[id].ndoc : text[ents[id].line - d].k = "comment"
               /\ \A f \in 1..Len(funcs) : /\ \A d \in 1..funcs[f].ndoc : text[funcs[f].decl - d].k = "comment"
                                           /\ text[funcs[f].decl].k \in {"funchdr", "methhdr"}
\* braces balance in the finished file
Openers == {"funchdr", "methhdr", "casehdr", "ifhdr", "forhdr", "swhdr", "lamhdr", "flithdr", "laterhdr",
            "swbarehdr", "selhdr"}
Closers == {"close", "lamend"}
Balanced == pc = "done" =>
   Cardinality({ j \in 1..Len(text) : text[j].k \in Openers }) = Cardinality({ j \in 1..Len(text) : text[j].k \in Closers })
\* the code model differs from the property only through the named deviations
DeviationsNamed == pc = "done" => \A id \in 1..Len(ents) :
   (CodeLine(ents[id]) # ents[id].line) => LazyClobber(ents[id])
\* every helper referenced by a fwd statement is declared in the tail
HelpersDeclared == pc = "done" => \A id \in 1..Len(ents) : ents[id].kind = "fwd" =>
   /\ text[tail + 3 * (ents[id].h - 1)].k = "laterhdr" /\ text[tail + 3 * (ents[id].h - 1)].ref = ents[id].h
   /\ LazyClobber(ents[id]) => text[CodeLine(ents[id])].k = "retx"

\* file names: joining the base with the relative directory leads back to the file's directory, and a
\* base that is not a path prefix of the file's directory is left through ".." (never by cutting the string)
RelCorrect == \A rb \in RelBases \ {"unset"} :
   /\ Clean(BaseDir(rb), Rel(BaseDir(rb), FileDir)) = FileDir
   /\ (CommonLen(BaseDir(rb), FileDir, 0) < Len(BaseDir(rb))) => Rel(BaseDir(rb), FileDir)[1] = ".."
   /\ rb = "same" => Rel(BaseDir(rb), FileDir) = <<>>

Export == pc = "done" =>
   Emit([fkind |-> FileKind, relbase |-> relbase, dir |-> ExpDir(relbase), filedir |-> FileDir,
         basedir |-> IF relbase = "unset" THEN <<>> ELSE BaseDir(relbase),
         text  |-> [j \in 1..Len(text) |-> [k |-> text[j].k, id |-> text[j].id, ref |-> text[j].ref]],
         ents  |-> [id \in 1..Len(ents) |-> [kind |-> ents[id].kind, line |-> ents[id].line, ctx |-> ents[id].ctx,
                                             code |-> CodeLine(ents[id]),
                                             ndoc |-> ents[id].ndoc, opt |-> ents[id].opt,
                                             dev  |-> IF LazyClobber(ents[id]) THEN "LazyClobber" ELSE "none"]],
         funcs |-> funcs])
=============================================================================
