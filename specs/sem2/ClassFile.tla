------------------------------ MODULE ClassFile ------------------------------
(* C11 -- a normal .gox class file behaves like its explicit struct form      *)
(* (doc/classfile.md "What's classfile": Rect.gox).                           *)
(*                                                                            *)
(* A case is a class description: the var block (field types in order, how    *)
(* the block groups them, exported or not) and an ordered list of methods     *)
(* taken from six templates (0..2 parameters, 0..2 results, reading fields,   *)
(* mutating fields, calling each other).  The machine                         *)
(*   BuildTwin -- writes the explicit-struct twin: one struct field per name  *)
(*                of the var block, in order; one pointer-receiver method     *)
(*                (receiver `this`) per func                                  *)
(*                (cl/compile.go preloadGopFile ld.typInit + classRecv)       *)
(*   Call/Dump -- runs the fixed driver (positional composite literal, two    *)
(*                passes over all methods, field dump after each pass) on an  *)
(*                abstract object, producing the expected output              *)
(* TLC checks that twin and class have the same members (TwinSame), that      *)
(* the grouping of the var block does not change the member list              *)
(* (GroupingIrrelevant) and that the driver terminates with output of the     *)
(* expected shape (OutputShape, Terminates); every case is exported with the  *)
(* output of the reference evaluator.                                         *)
EXTENDS Naturals, Sequences, FiniteSets, TLC, VerifIO

CONSTANTS MaxFields,    \* longest field list
          MinFields,
          MethodLists,  \* name of the set of method lists enumerated
          Exported,     \* set of BOOLEAN: field/method names capitalised or not
          Preludes,     \* subset of {"none", "const", "type"}: declaration in front of the var block
          Shadows,      \* set of BOOLEAN: main.xgo declares a package-level variable named like field 1
          Tagged        \* set of BOOLEAN: every spec of the var block carries a struct tag `k:"<first name>"`

Types == {"int", "string", "float64", "bool", "ints", "smap", "ptr"}   \* []int, map[string]int, *Self
Templates == <<"sum", "bump", "pair", "flag", "reset", "twice">>

\* method lists (order = declaration order in the class file)
MLists(nm) ==
  CASE nm = "q" -> { <<"sum", "bump">>, <<"bump", "sum">>, <<"pair", "bump", "sum">>, <<"twice", "sum", "bump">>,
                     <<"flag">>, <<"reset", "sum">>, <<"sum", "bump", "pair", "flag", "reset", "twice">>,
                     <<"twice", "reset", "flag", "pair", "bump", "sum">> }
    [] nm = "q1" -> { <<"sum", "bump">> }
    [] nm = "q2" -> { <<"sum", "bump">>, <<"twice", "sum", "bump">> }
    [] nm = "all6" -> { <<"sum", "bump", "pair", "flag", "reset", "twice">> }
    [] nm = "pairs" -> { <<Templates[a], Templates[b]>> : a, b \in 1..6 } \ { <<Templates[a], Templates[a]>> : a \in 1..6 }
    [] nm = "singles" -> { <<Templates[a]>> : a \in 1..6 } \cup { <<>> }

\* signature of a template: parameter types, result types
Params(m)  == CASE m \in {"sum", "flag", "reset"} -> <<>> [] m \in {"bump", "twice"} -> <<"int">> [] m = "pair" -> <<"int", "string">>
Results(m) == CASE m \in {"bump", "reset"} -> <<>> [] m \in {"sum", "twice"} -> <<"int">>
                [] m = "pair" -> <<"int", "string">> [] m = "flag" -> <<"bool", "int">>

\* how the var block presents the fields: one spec per field, consecutive equal types merged into
\* one spec (`a, b int`), or the ungrouped single-spec form `var a, b int` (all fields one type)
Groupings(fs) == {"lines", "merged"} \cup (IF \A i \in 1..Len(fs) : fs[i] = fs[1] THEN {"single"} ELSE {})

\* the var block as a sequence of specs [names |-> seq of field indices, type]
RECURSIVE Merge(_, _)
Merge(fs, i) == IF i > Len(fs) THEN <<>>
                ELSE LET run == CHOOSE n \in 1..(Len(fs) - i + 1) :
                                   /\ \A j \in i..(i + n - 1) : fs[j] = fs[i]
                                   /\ (i + n > Len(fs) \/ fs[i + n] # fs[i])
                     IN << [names |-> [j \in 1..run |-> i + j - 1], type |-> fs[i]] >> \o Merge(fs, i + run)
Block(fs, g) == IF g = "lines" THEN [i \in 1..Len(fs) |-> [names |-> <<i>>, type |-> fs[i]]] ELSE Merge(fs, 1)

VARIABLES fields,    \* seq of Types
          grouping, exported, tagged, prelude, shadow, methods,
          twin,      \* [fields: seq of [ix, type], methods: seq of [name, params, results, recv]]
          obj,       \* abstract object: seq of values, one per field
          out,       \* expected driver output: seq of [tag, vals]
          pass, mi,  \* driver position
          pc
vars == <<fields, grouping, exported, tagged, prelude, shadow, methods, twin, obj, out, pass, mi, pc>>

NF == Len(fields)
Has(m) == \E i \in 1..Len(methods) : methods[i] = m

\* ---------------------------------------------------------------- values
Init0(t, i) == CASE t = "int" -> i [] t = "string" -> <<"s">> [] t = "float64" -> i [] t = "bool" -> (i % 2 = 1)
                 [] t = "ints" -> <<i>> [] t = "smap" -> <<>> [] t = "ptr" -> FALSE
Zero(t) == CASE t \in {"int", "float64"} -> 0 [] t = "string" -> <<>> [] t = "bool" -> FALSE
             [] t \in {"ints", "smap"} -> <<>> [] t = "ptr" -> FALSE
Bump(t, v, x) == CASE t = "int" -> v + x [] t = "string" -> v \o <<"x">> [] t = "float64" -> v + 2 * x
                   [] t = "bool" -> ~v [] t = "ints" -> Append(v, x) [] t = "smap" -> <<x>> [] t = "ptr" -> TRUE
Term(t, v) == CASE t \in {"int", "float64"} -> v [] t \in {"string", "ints"} -> Len(v)
                [] t \in {"bool", "ptr"} -> (IF v THEN 1 ELSE 0) [] t = "smap" -> (IF v = <<>> THEN 0 ELSE v[1])
RECURSIVE SumFrom(_, _)
SumFrom(o, i) == IF i > Len(o) THEN 0 ELSE Term(fields[i], o[i]) + SumFrom(o, i + 1)
Sum(o) == SumFrom(o, 1)
BumpAll(o, x) == [i \in 1..Len(o) |-> Bump(fields[i], o[i], x)]

V(t, v) == [t |-> t, v |-> v]
Y == <<"a", "b">>                       \* the string argument of the driver
X(p) == p + 1                           \* the int argument: 2 in pass 1, 3 in pass 2

\* reference evaluator of one method call: [obj, res]
Eval(m, o, x) ==
  CASE m = "sum"   -> [obj |-> o, res |-> << V("int", Sum(o)) >>]
    [] m = "bump"  -> [obj |-> BumpAll(o, x), res |-> <<>>]
    [] m = "pair"  -> LET o1 == IF Has("bump") THEN BumpAll(o, x) ELSE o
                          o2 == [i \in 1..Len(o1) |-> IF fields[i] = "string" THEN Y ELSE o1[i]]
                      IN [obj |-> o2, res |-> << V("int", IF Has("sum") THEN Sum(o2) ELSE x), V("string", Y) >>]
    [] m = "flag"  -> [obj |-> o, res |-> << V("bool", Sum(o) > 3), V("int", Len(o)) >>]
    [] m = "reset" -> [obj |-> [i \in 1..Len(o) |-> Zero(fields[i])], res |-> <<>>]
    [] m = "twice" -> LET o1 == IF Has("bump") THEN BumpAll(BumpAll(o, x), x) ELSE o
                      IN [obj |-> o1, res |-> << V("int", IF Has("sum") THEN Sum(o1) ELSE x) >>]

\* ---------------------------------------------------------------- machine
FieldSeqs == UNION { [1..n -> Types] : n \in MinFields..MaxFields }

Init == /\ fields \in FieldSeqs
        /\ grouping \in Groupings(fields)
        /\ exported \in Exported
        /\ tagged \in Tagged
        \* ast.File.ClassFieldsDecl: the field block is the first `var` among the leading GenDecls -- a
        \* const / type declaration in front of it changes nothing
        /\ prelude \in Preludes
        \* cl/expr.go compileIdent: inside a method a bare name that is a class field is the field, even
        \* if a package-level variable of the same name exists
        /\ shadow \in Shadows
        /\ methods \in MLists(MethodLists)
        /\ twin = [fields |-> <<>>, methods |-> <<>>]
        /\ obj = <<>> /\ out = <<>> /\ pass = 0 /\ mi = 0 /\ pc = "class"

\* struct fields of a var block: for every spec, for every name, in order
RECURSIVE Flatten(_, _)
Flatten(blk, j) == IF j > Len(blk) THEN <<>>
                   ELSE [n \in 1..Len(blk[j].names) |-> [ix |-> blk[j].names[n], type |-> blk[j].type,
                                                              \* parser parseValueSpec (class file): one tag per spec, shared by its names
                                                              tag |-> IF tagged THEN blk[j].names[1] ELSE 0]] \o Flatten(blk, j + 1)

\* cl/compile.go preloadGopFile: ld.typInit walks classDecl.Specs, then spec.Names, in order;
\* preloadFile/preloadFuncDecl: a func without receiver gets classRecv = (this *Class)
BuildTwin ==
  /\ pc = "class"
  /\ twin' = [fields  |-> Flatten(Block(fields, grouping), 1),
              methods |-> [j \in 1..Len(methods) |-> [name |-> methods[j], params |-> Params(methods[j]),
                                                       results |-> Results(methods[j]), recv |-> "ptr-this"]]]
  /\ obj' = [i \in 1..NF |-> Init0(fields[i], i)]      \* o := &C{positional initial values}
  /\ pass' = 1 /\ mi' = 1 /\ pc' = "run"
  /\ UNCHANGED <<fields, grouping, exported, tagged, prelude, shadow, methods, out>>

\* driver: call method mi of the current pass and print its results
Call ==
  /\ pc = "run" /\ mi <= Len(methods)
  /\ LET r == Eval(methods[mi], obj, X(pass)) IN
       /\ obj' = r.obj
       /\ out' = Append(out, [tag |-> methods[mi], vals |-> r.res])
  /\ mi' = mi + 1
  /\ UNCHANGED <<fields, grouping, exported, tagged, prelude, shadow, methods, twin, pass, pc>>

\* driver: dump every field, then start pass 2 or stop
Dump ==
  /\ pc = "run" /\ mi > Len(methods)
  /\ out' = out \o [i \in 1..NF |-> [tag |-> "field", vals |-> << V("int", i), V(fields[i], obj[i]) >>]]
  /\ IF pass = 1 THEN pass' = 2 /\ mi' = 1 /\ pc' = "run"
                 ELSE pass' = pass /\ mi' = mi /\ pc' = "second"
  /\ UNCHANGED <<fields, grouping, exported, tagged, prelude, shadow, methods, twin, obj>>

\* driver: a SECOND instance built from the same literal still has its initial field values (state is per
\* instance), and the package-level variable named like field 1 was never touched by the methods
Second ==
  /\ pc = "second"
  /\ out' = out \o [i \in 1..NF |-> [tag |-> "second", vals |-> << V("int", i), V(fields[i], Init0(fields[i], i)) >>]]
                \o (IF shadow THEN << [tag |-> "global", vals |-> << V(fields[1], Zero(fields[1])) >>] >> ELSE <<>>)
  /\ pc' = "done"
  /\ UNCHANGED <<fields, grouping, exported, tagged, prelude, shadow, methods, twin, obj, pass, mi>>

Next == BuildTwin \/ Call \/ Dump \/ Second
Spec == Init /\ [][Next]_vars /\ WF_vars(Next)

-----------------------------------------------------------------------------
TypeOK == /\ pc \in {"class", "run", "second", "done"} /\ pass \in 0..2 /\ NF \in MinFields..MaxFields
          /\ grouping \in {"lines", "merged", "single"}
\* twin and class have the same member lists: exactly the fields of the var block in order with
\* their types, exactly the methods in order, all with pointer receiver `this`
TwinSame == pc # "class" =>
   /\ Len(twin.fields) = NF
   /\ \A i \in 1..NF : twin.fields[i].ix = i /\ twin.fields[i].type = fields[i]
   /\ \A i \in 1..NF : (twin.fields[i].tag # 0) <=> tagged
   /\ \A i \in 1..NF : twin.fields[i].tag \in {0} \cup 1..i
   /\ Len(twin.methods) = Len(methods)
   /\ \A j \in 1..Len(methods) : twin.methods[j].name = methods[j] /\ twin.methods[j].recv = "ptr-this"
\* how the var block groups the names does not matter
GroupingIrrelevant == \A g \in Groupings(fields) :
   LET blk == Block(fields, g) IN
     /\ \A j \in 1..Len(blk) : \A n \in 1..Len(blk[j].names) : fields[blk[j].names[n]] = blk[j].type
     /\ LET total == [j \in 1..Len(blk) |-> Len(blk[j].names)]
            RECURSIVE S(_)
            S(j) == IF j = 0 THEN 0 ELSE total[j] + S(j - 1)
        IN S(Len(blk)) = NF
\* shape of the driver output
OutputShape == pc = "done" => Len(out) = 2 * (Len(methods) + NF) + NF + (IF shadow THEN 1 ELSE 0)
Terminates == <>(pc = "done")

Export == pc = "done" =>
   Emit([fields |-> fields, grouping |-> grouping, exported |-> exported, tagged |-> tagged, prelude |-> prelude, shadow |-> shadow, methods |-> methods,
         block |-> Block(fields, grouping), twin |-> twin, out |-> out])
=============================================================================
