SPECIFICATION Spec
CONSTANTS
  MinFields = 1
  MaxFields = 2
  MethodLists = "q"
  Exported = {FALSE}
  Tagged = {FALSE}
  Preludes = {"none"}
  Shadows = {FALSE}
INVARIANTS TypeOK TwinSame GroupingIrrelevant OutputShape Export
