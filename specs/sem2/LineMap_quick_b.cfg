SPECIFICATION Spec
CONSTANTS
  MaxFuncs = 2
  MaxStmts = 0
  FuncKinds = {"func", "method"}
  BodyKinds = {"call", "var", "fwd"}
  StmtKinds = {"call"}
  GapSet = "g3"
  CaseGapSet = "g2"
  FileKind = "xgo"
  RelBases = {"same"}
INVARIANTS TypeOK IdsOnce StmtStart Monotone DocAdjacent Balanced DeviationsNamed HelpersDeclared RelCorrect Export
