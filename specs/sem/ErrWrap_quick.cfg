SPECIFICATION Spec
CONSTANTS
  Positions = {"stmt", "assign", "arg", "nested", "closure", "method"}
  RTypes = {"int", "string", "ptr", "slice", "struct"}
  CalleeForms = {"call", "ident"}
INVARIANTS TypeOK CalledOnce ValuesOnNil PanicOnErr ReturnOnErr DefaultOnErr NeverJunk Export
PROPERTY Terminates
