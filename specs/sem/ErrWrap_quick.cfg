SPECIFICATION Spec
CONSTANTS
  Positions = {"stmt", "assign", "arg", "nested", "closure", "method", "lambda"}
  RTypes = {"int", "string", "ptr", "slice", "struct"}
  CalleeForms = {"call", "ident", "cmd"}
  Layouts = {"one", "multi"}
INVARIANTS TypeOK CalledOnce ValuesOnNil PanicOnErr ReturnOnErr DefaultOnErr FrameLine NeverJunk Export
PROPERTY Terminates
