------------------------------- MODULE Range -------------------------------
(* C04 -- a range expression start:end:step denotes one integer sequence in  *)
(* every context (doc/docs.md "Range for", "for/<-/if", "List comprehension").*)
(*                                                                           *)
(* The documented meaning is an iterator protocol: evaluate the operands     *)
(* once (an omitted start is 0, an omitted step is 1), then hand out         *)
(*    step > 0 :  start, start+step, ...  while the value is  < end          *)
(*    step < 0 :  start, start+step, ...  while the value is  > end          *)
(* The spec is that iterator as a state machine (IterOpen / IterNext /       *)
(* IterStop) driven by three context machines:                               *)
(*   loop    -- `for i <- r {..}`, `for i := range r`, `for i = range r`     *)
(*              (body runs once per element, optional `if` filter first);    *)
(*   count   -- `for range r {..}`, `for r {..}`  (body runs, no variable);  *)
(*   compr   -- `[i for i <- r]`, `[i for i <- r if c]` (append to the result*)
(*              list, the list is the value of the expression).              *)
(* Init ranges over every (start, end, step) of the grid incl. the omitted   *)
(* forms, every operand spelling and every context.  TLC checks that each    *)
(* context machine emits exactly the closed form Seq(start,end,step).        *)
EXTENDS Integers, Sequences, FiniteSets, TLC, VerifIO

CONSTANTS Span,        \* start, end \in -Span..Span   (a .cfg file cannot spell a negative number)
          KMax,        \* step \in -KMax..KMax \ {0}
          Forms,       \* operand spellings: "lit" decimal literals, "var" identifiers, "call" call expressions,
                       \*   and the other literal spellings "hex" 0x2, "oct" 0o2, "bin" 0b10, "us" 0_2 (digit separator);
                       \*   a spelling never changes the value, so it never changes the sequence
          Ctxs         \* syntactic contexts (see CtxKind)

\* which context machine runs a syntactic context, and whether it has an `if` filter
CtxKind(c) == CASE c \in {"forin", "forinif", "forrange", "forassign"} -> "loop"
                [] c \in {"forrange0", "forbare"}                      -> "count"
                [] c \in {"compr", "comprif"}                          -> "compr"
HasFilter(c) == c \in {"forinif", "comprif"}
Keep(x) == x % 2 = 0          \* the filter used by the generated programs: keep(i) = i%2 == 0

Lo == 0 - Span
Hi == Span
Steps == { x \in (0 - KMax)..KMax : x # 0 }

VARIABLES hasS, s, e, hasK, k,   \* the range expression as written (hasS/hasK: operand present)
          form, ctx,             \* presentation
          pc,                    \* "open" | "next" | "filter" | "body" | "close" | "done"
          start, step,           \* operand values the iterator was opened with
          cur,                   \* value the iterator will hand out next
          n,                     \* elements handed out so far
          acc,                   \* comprehension: list built so far
          out,                   \* observable: values seen by the body / value of the comprehension
          runs,                  \* observable of the count contexts: number of body executions
          evals                  \* operand evaluations performed (call spelling counts them)
vars == <<hasS, s, e, hasK, k, form, ctx, pc, start, step, cur, n, acc, out, runs, evals>>

Init == /\ hasS \in BOOLEAN /\ hasK \in BOOLEAN
        /\ s \in (IF hasS THEN Lo..Hi ELSE {0})
        /\ e \in Lo..Hi
        /\ k \in (IF hasK THEN Steps ELSE {1})
        /\ form \in Forms /\ ctx \in Ctxs
        /\ pc = "open" /\ start = 0 /\ step = 1 /\ cur = 0 /\ n = 0
        /\ acc = <<>> /\ out = <<>> /\ runs = 0 /\ evals = 0

\* ---- the iterator ---------------------------------------------------------
\* operands are evaluated once, left to right; omitted start = 0, omitted step = 1
IterOpen == /\ pc = "open"
            /\ start' = s /\ step' = k /\ cur' = s
            /\ evals' = (IF hasS THEN 1 ELSE 0) + 1 + (IF hasK THEN 1 ELSE 0)
            /\ pc' = "next"
            /\ UNCHANGED <<hasS, s, e, hasK, k, form, ctx, n, acc, out, runs>>

Live == (step > 0 /\ cur < e) \/ (step < 0 /\ cur > e)

\* hand out cur
IterNext == /\ pc = "next" /\ Live
            /\ n' = n + 1
            /\ pc' = IF HasFilter(ctx) THEN "filter" ELSE "body"
            /\ UNCHANGED <<hasS, s, e, hasK, k, form, ctx, start, step, cur, acc, out, runs, evals>>
\* exhausted
IterStop == /\ pc = "next" /\ ~Live
            /\ pc' = "close"
            /\ UNCHANGED <<hasS, s, e, hasK, k, form, ctx, start, step, cur, n, acc, out, runs, evals>>
Advance == cur' = cur + step

\* ---- the context machines -------------------------------------------------
\* `if` part of a for-phrase: the body / the append is skipped when the condition is false
FilterPass == /\ pc = "filter" /\ Keep(cur) /\ pc' = "body"
              /\ UNCHANGED <<hasS, s, e, hasK, k, form, ctx, start, step, cur, n, acc, out, runs, evals>>
FilterSkip == /\ pc = "filter" /\ ~Keep(cur) /\ Advance /\ pc' = "next"
              /\ UNCHANGED <<hasS, s, e, hasK, k, form, ctx, start, step, n, acc, out, runs, evals>>

\* for i <- r { body } / for i := range r / for i = range r : the body observes the element
LoopBody  == /\ pc = "body" /\ CtxKind(ctx) = "loop"
             /\ out' = Append(out, cur) /\ Advance /\ pc' = "next"
             /\ UNCHANGED <<hasS, s, e, hasK, k, form, ctx, start, step, n, acc, runs, evals>>
\* for range r { body } / for r { body } : the body runs, nothing is bound
CountBody == /\ pc = "body" /\ CtxKind(ctx) = "count"
             /\ runs' = runs + 1 /\ Advance /\ pc' = "next"
             /\ UNCHANGED <<hasS, s, e, hasK, k, form, ctx, start, step, n, acc, out, evals>>
\* [i for i <- r ...] : append the element expression to the result
ComprAppend == /\ pc = "body" /\ CtxKind(ctx) = "compr"
               /\ acc' = Append(acc, cur) /\ Advance /\ pc' = "next"
               /\ UNCHANGED <<hasS, s, e, hasK, k, form, ctx, start, step, n, out, runs, evals>>
\* the statement ends / the comprehension yields its list
Close == /\ pc = "close"
         /\ out' = IF CtxKind(ctx) = "compr" THEN acc ELSE out
         /\ pc' = "done"
         /\ UNCHANGED <<hasS, s, e, hasK, k, form, ctx, start, step, cur, n, acc, runs, evals>>

Next == IterOpen \/ IterNext \/ IterStop \/ FilterPass \/ FilterSkip
        \/ LoopBody \/ CountBody \/ ComprAppend \/ Close
Spec == Init /\ [][Next]_vars /\ WF_vars(Next)

-----------------------------------------------------------------------------
\* The denotation, in closed form (independent of the machine above).
CeilDiv(a, b) == (a + b - 1) \div b                      \* b > 0
Count(s0, e0, k0) == IF k0 > 0 THEN (IF e0 > s0 THEN CeilDiv(e0 - s0, k0) ELSE 0)
                               ELSE (IF s0 > e0 THEN CeilDiv(s0 - e0, 0 - k0) ELSE 0)
Seq0(s0, e0, k0) == [j \in 1..Count(s0, e0, k0) |-> s0 + (j - 1) * k0]
Kept(q) == SelectSeq(q, Keep)
Denoted == IF HasFilter(ctx) THEN Kept(Seq0(s, e, k)) ELSE Seq0(s, e, k)

TypeOK == /\ pc \in {"open", "next", "filter", "body", "close", "done"}
          /\ n \in Nat /\ runs \in Nat /\ cur \in Int
\* every context emits the one sequence the expression denotes
Denotes == pc = "done" =>
   /\ n = Count(s, e, k)
   /\ IF CtxKind(ctx) = "count" THEN runs = Count(s, e, k) /\ out = <<>>
      ELSE out = Denoted /\ runs = 0
\* inductive form: the iterator is always at position n of the closed form
Position == pc # "open" =>
   /\ n <= Count(s, e, k)
   /\ cur = s + (IF pc \in {"filter", "body"} THEN n - 1 ELSE n) * k
\* what has been emitted so far is the (filtered) prefix already handed out
PrefixOK == pc \in {"next", "close"} =>
   LET seen == SubSeq(Seq0(s, e, k), 1, n)
       got  == IF CtxKind(ctx) = "compr" THEN acc ELSE out IN
   IF CtxKind(ctx) = "count" THEN runs = n
   ELSE got = (IF HasFilter(ctx) THEN Kept(seen) ELSE seen)
\* every element lies between start (inclusive) and end (exclusive), on the side the step points to
InBounds == \A j \in 1..Len(out) :
   IF k > 0 THEN s <= out[j] /\ out[j] < e ELSE e < out[j] /\ out[j] <= s
\* a span pointing away from end is empty -- in both directions
EmptyIff == pc = "done" => ((n = 0) <=> ((k > 0 /\ s >= e) \/ (k < 0 /\ s <= e)))
\* operands are evaluated once each
EvalOnce == pc # "open" => evals = (IF hasS THEN 1 ELSE 0) + 1 + (IF hasK THEN 1 ELSE 0)
Terminates == <>(pc = "done")

\* iteration cap the generated program may use: a correct loop hands out Count elements
Cap == Count(s, e, k) + 2

Export == pc = "done" =>
   Emit([hasS |-> hasS, s |-> s, e |-> e, hasK |-> hasK, k |-> k, form |-> form, ctx |-> ctx,
         seq |-> Seq0(s, e, k), out |-> out, runs |-> runs, evals |-> evals, cap |-> Cap])
=============================================================================
