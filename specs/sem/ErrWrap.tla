------------------------------ MODULE ErrWrap ------------------------------
(* C03 -- error-wrapping operators  expr!  expr?  expr?:d                    *)
(* (doc/docs.md "Error handling": `expr!` panic if err, `expr?` return if    *)
(* err, `expr?:defval` use defval if err).                                   *)
(*                                                                           *)
(* The spec is the documented evaluation of ONE wrapped call inside an       *)
(* enclosing function, as a small-step machine:                              *)
(*   Enter -> CallCallee -> ErrNil                       -> Use -> ReturnNormal*)
(*                       -> ErrPanic    (!,  error)      -> unwound           *)
(*                       -> ErrReturn   (?,  error)      -> returned          *)
(*                       -> ErrDefault  (?:, error)      -> Use -> ...        *)
(* and, when the wrap sits inside a function literal, OuterContinues after   *)
(* the literal returned.  Init ranges over callee arity, outcome, operator,  *)
(* use position, callee spelling, and (for ?) the enclosing function's result*)
(* shape / result types / named pre-assigned results.                        *)
EXTENDS Integers, Sequences, FiniteSets, TLC, VerifIO

CONSTANTS Positions,   \* subset of {"stmt","assign","arg","nested","closure","method","lambda"}
                       \*   lambda = statement in a lambda literal that is an argument of an OVERLOADED function whose
                       \*   second candidate matches (the compiler compiles the lambda body once per candidate tried)
          RTypes,      \* types of the enclosing function's first result: subset of {"int","string","ptr","slice","struct"}
          CalleeForms, \* subset of {"call","ident","cmd"}: g1(fail) | command-style h1 (no arguments) | command-style
                       \*   with arguments  g1! fail  (the operator sits between callee and arguments; means (g1 fail)!)
          Layouts      \* subset of {"one","multi"}: call on one line | arguments spread over three lines, operator last

Ops == {"!", "?", "?:"}

\* a case is legal when the documented forms cover it
Legal(c) ==
   /\ (c.op = "?:" => c.nv = 1)                       \* a default replaces the single value
   /\ (c.pos \in {"assign", "arg"} => c.nv >= 1)
   /\ (c.pos = "nested" => c.nv = 1)
   /\ (c.op = "?" => c.enc \in 1..3) /\ (c.op # "?" => c.enc = 0)
   /\ (c.enc <= 1 => c.rt = "int")                    \* no first result to vary
   /\ (c.named => c.op = "?" /\ c.pos \notin {"closure", "lambda"})
   /\ (c.cf = "cmd" => c.pos \in {"stmt", "lambda"} /\ c.op \in {"!", "?"})   \* a command is a statement
   /\ (c.pos = "lambda" /\ c.op = "?" => c.enc = 1)                           \* the lambda returns just an error
   /\ (c.lay = "multi" => c.cf = "call")

Cases == { c \in [nv : 0..2, fail : BOOLEAN, op : Ops, pos : Positions, cf : CalleeForms,
                  enc : 0..3, rt : RTypes, named : BOOLEAN, lay : Layouts] : Legal(c) }

\* ---- values (as the generated program prints them) ---------------------------
Good(nv)  == SubSeq(<<"7", "'s'">>, 1, nv)           \* callee results when it succeeds
Junk(nv)  == SubSeq(<<"99", "'zz'">>, 1, nv)         \* what the callee returns next to a non-nil error
DefaultV  == <<"55">>                                   \* value of d()
Plus100(v) == IF v = <<"7">> THEN <<"107">> ELSE IF v = <<"55">> THEN <<"155">> ELSE <<"199">>
Zero(t)   == CASE t = "int" -> "0" [] t = "string" -> "''" [] t = "ptr" -> "nil" [] t = "slice" -> "nil" [] t = "struct" -> "{0}"
Normal(t) == CASE t = "int" -> "1" [] t = "string" -> "'r'" [] t = "ptr" -> "ptr" [] t = "slice" -> "[1]" [] t = "struct" -> "{1}"
\* result types of the enclosing function (without the final error)
EncTypes(c) == IF c.enc <= 1 THEN <<>> ELSE IF c.enc = 2 THEN <<c.rt>> ELSE <<c.rt, "string">>
ZeroRets(c)   == [j \in 1..Len(EncTypes(c)) |-> Zero(EncTypes(c)[j])]
NormalRets(c) == [j \in 1..Len(EncTypes(c)) |-> Normal(EncTypes(c)[j])]

VARIABLES c,        \* the case
          pc,       \* "enter" | "call" | "test" | "use" | "tail" | "returned" | "unwound" | "outer" | "done"
          calls,    \* invocations of the callee
          log,      \* side-effect log: "g" callee ran, "d" default evaluated, "after" statement after the wrap ran,
                    \*                  "outer" code after the function literal ran
          res,      \* what the callee returned: [vals, err]
          yield,    \* value(s) of the wrap expression
          seen,     \* values observed at the use position
          outcome,  \* "none" | "normal" | "reterr" | "panic"
          rets,     \* results of the enclosing function (without error)
          reterr,   \* "nil" | "boom"  error result of the enclosing function / panic value identity
          results,  \* current contents of the enclosing function's named results
          fline     \* line the error frame names, relative to the first line of the wrapped expression (-1: no frame)
vars == <<c, pc, calls, log, res, yield, seen, outcome, rets, reterr, results, fline>>

\* source lines of the wrapped expression, relative to its first line
ExprFirstLine == 0
OperatorLine == IF c.lay = "multi" THEN 2 ELSE 0

Init == /\ c \in Cases
        /\ pc = "enter" /\ calls = 0 /\ log = <<>> /\ res = [vals |-> <<>>, err |-> "nil"]
        /\ yield = <<>> /\ seen = <<>> /\ outcome = "none" /\ rets = <<>> /\ reterr = "nil"
        /\ results = <<>> /\ fline = 0 - 1

\* the enclosing function starts; named results may already hold non-zero values
Enter == /\ pc = "enter" /\ pc' = "call"
         /\ results' = IF c.named THEN NormalRets(c) ELSE ZeroRets(c)
         /\ UNCHANGED <<c, calls, log, res, yield, seen, outcome, rets, reterr, fline>>
\* the wrapped call is evaluated -- exactly here, exactly once
CallCallee == /\ pc = "call" /\ pc' = "test"
              /\ calls' = calls + 1 /\ log' = Append(log, "g")
              /\ res' = IF c.fail THEN [vals |-> Junk(c.nv), err |-> "boom"]
                                  ELSE [vals |-> Good(c.nv), err |-> "nil"]
              /\ UNCHANGED <<c, yield, seen, outcome, rets, reterr, results, fline>>
\* error is nil: the expression yields the values
ErrNil == /\ pc = "test" /\ res.err = "nil" /\ pc' = "use"
          /\ yield' = res.vals
          /\ UNCHANGED <<c, calls, log, res, seen, outcome, rets, reterr, results, fline>>
\* expr! : panic with the error (wrapped in a frame naming the source expression; identity kept)
ErrPanic == /\ pc = "test" /\ res.err # "nil" /\ c.op = "!" /\ pc' = "unwound"
            /\ outcome' = "panic" /\ reterr' = res.err
            /\ fline' = ExprFirstLine                    \* the frame is the SOURCE frame of the wrapped expression
            /\ UNCHANGED <<c, calls, log, res, yield, seen, rets, results>>
\* expr? : the (innermost) enclosing function returns zero values and the error
ErrReturn == /\ pc = "test" /\ res.err # "nil" /\ c.op = "?" /\ pc' = "returned"
             /\ outcome' = "reterr" /\ rets' = ZeroRets(c) /\ reterr' = res.err
             /\ fline' = ExprFirstLine
             /\ UNCHANGED <<c, calls, log, res, yield, seen, results>>
\* expr?:d : d is evaluated now (and only now); the expression yields d
ErrDefault == /\ pc = "test" /\ res.err # "nil" /\ c.op = "?:" /\ pc' = "use"
              /\ log' = Append(log, "d") /\ yield' = DefaultV
              /\ UNCHANGED <<c, calls, res, seen, outcome, rets, reterr, results, fline>>
\* the use position consumes the value(s); the next statement runs
Use == /\ pc = "use" /\ pc' = "tail"
       /\ seen' = IF c.pos = "nested" THEN Plus100(yield)
                  ELSE IF c.pos \in {"stmt", "lambda"} \/ (c.pos \in {"closure", "method"} /\ c.nv = 0) THEN <<>>
                  ELSE yield
       /\ log' = Append(log, "after")
       /\ UNCHANGED <<c, calls, res, yield, outcome, rets, reterr, results, fline>>
ReturnNormal == /\ pc = "tail" /\ pc' = "returned"
                /\ outcome' = "normal" /\ rets' = NormalRets(c) /\ reterr' = "nil"
                /\ UNCHANGED <<c, calls, log, res, yield, seen, results, fline>>
\* a function literal returned (normally or through ?): the code after it runs
OuterContinues == /\ pc = "returned" /\ c.pos \in {"closure", "lambda"} /\ pc' = "outer"
                  /\ log' = Append(log, "outer")
                  /\ UNCHANGED <<c, calls, res, yield, seen, outcome, rets, reterr, results, fline>>
Finish == /\ \/ pc = "returned" /\ c.pos \notin {"closure", "lambda"}
             \/ pc = "outer"
             \/ pc = "unwound"
          /\ pc' = "done"
          /\ UNCHANGED <<c, calls, log, res, yield, seen, outcome, rets, reterr, results, fline>>

Next == Enter \/ CallCallee \/ ErrNil \/ ErrPanic \/ ErrReturn \/ ErrDefault \/ Use
        \/ ReturnNormal \/ OuterContinues \/ Finish
Spec == Init /\ [][Next]_vars /\ WF_vars(Next)

-----------------------------------------------------------------------------
In(x, q) == \E j \in 1..Len(q) : q[j] = x
TypeOK == /\ pc \in {"enter", "call", "test", "use", "tail", "returned", "unwound", "outer", "done"}
          /\ outcome \in {"none", "normal", "reterr", "panic"} /\ calls \in 0..1
\* the statement, clause by clause
CalledOnce  == pc = "done" => calls = 1 /\ log[1] = "g" /\ Cardinality({j \in 1..Len(log) : log[j] = "g"}) = 1
ValuesOnNil == pc = "done" /\ ~c.fail => outcome = "normal" /\ yield = Good(c.nv) /\ In("after", log)
PanicOnErr  == pc = "done" /\ c.fail /\ c.op = "!" => outcome = "panic" /\ reterr = "boom" /\ ~In("after", log) /\ ~In("outer", log)
ReturnOnErr == pc = "done" /\ c.fail /\ c.op = "?" =>
                  /\ outcome = "reterr" /\ reterr = "boom" /\ ~In("after", log)
                  /\ rets = ZeroRets(c)                               \* zero values, whatever the named results held
                  /\ (c.pos \in {"closure", "lambda"} => In("outer", log))   \* only the innermost function returns
DefaultOnErr == pc = "done" /\ c.op = "?:" =>
                  /\ outcome = "normal" /\ In("after", log)
                  /\ (In("d", log) <=> c.fail)                        \* d is evaluated only on error
                  /\ yield = (IF c.fail THEN DefaultV ELSE Good(1))
\* the frame of an error names the line where the wrapped expression STARTS, not where the operator stands
FrameLine == pc = "done" => IF outcome \in {"panic", "reterr"}
                            THEN fline = ExprFirstLine /\ (c.lay = "multi" => fline # OperatorLine)
                            ELSE fline = 0 - 1
NeverJunk == \A j \in 1..Len(seen) : seen[j] \notin {"99", "'zz'", "199"}
Terminates == <>(pc = "done")

Export == pc = "done" =>
   Emit([nv |-> c.nv, fail |-> c.fail, op |-> c.op, pos |-> c.pos, cf |-> c.cf, enc |-> c.enc, rt |-> c.rt,
         named |-> c.named, outcome |-> outcome, seen |-> seen, rets |-> rets, reterr |-> reterr,
         log |-> log, calls |-> calls, lay |-> c.lay, fline |-> fline])
=============================================================================
