SPECIFICATION Spec
CONSTANTS
  Span = 4
  KMax = 3
  Forms = {"lit", "var", "call"}
  Ctxs = {"forin", "forinif", "forrange", "forassign", "forrange0", "forbare", "compr", "comprif"}
INVARIANTS TypeOK Denotes Position PrefixOK InBounds EmptyIff EvalOnce Export
PROPERTY Terminates
