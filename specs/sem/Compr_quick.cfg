SPECIFICATION Spec
CONSTANTS
  Vals = {1, 2}
  MaxLen = 3
  MaxLen2 = 2
  Tys = {"int", "string", "struct", "slice"}
INVARIANTS TypeOK CountOK FoundOK EltAfterFilter FirstHitOnly OuterOrder ArgsOK Export
PROPERTY Terminates
