------------------------------- MODULE Compr -------------------------------
(* C02 -- collection sugar evaluates like its documented Go expansion        *)
(* (doc/docs.md: Slices, Maps, "for/<-/if", List comprehension, Select data  *)
(* from a collection, Check if data exists in a collection; README: a <- v). *)
(*                                                                           *)
(* Every construct is an explicit loop / evaluation machine over concrete    *)
(* containers, producing a value and a side-effect log:                      *)
(*   listlit  [e1, e2, ..]            = []T{e1, e2, ..}     (elements l-to-r) *)
(*   maplit   {"k1": e1, ..}          = map[string]T{..}                      *)
(*   append   a <- e1, e2 / a <- b... = a = append(a, e1, e2) / append(a,b...)*)
(*   forin    for [i,] x <- xs if F {body}   = for .. range xs { if F {body} }*)
(*   listc    [E for x <- A if Fa (for y <- B if Fb)]                         *)
(*   mapc     {K: V for ..}    selc {E for ..} (first hit [, ok])             *)
(*   existc   {for ..} (bool)  cmd  f a, b  = f(a, b)                         *)
(* With two for-phrases the LAST phrase is the OUTERMOST loop: the inner      *)
(* phrase's filter may read the outer variable.  Filters run before the       *)
(* element expression; select / exists stop at the first hit.                 *)
(* Abstract elements are small integers; the element type of the generated    *)
(* program (int, string, struct, []int) is a presentation dimension.          *)
EXTENDS Integers, Sequences, FiniteSets, TLC, VerifIO

CONSTANTS Vals,      \* abstract element values, e.g. {1, 2, 3}
          MaxLen,    \* longest container of a one-phrase construct
          MaxLen2,   \* longest container of a two-phrase construct
          Tys        \* element types of the generated programs

Lists(n) == UNION { [1..m -> Vals] : m \in 0..n }

Base == [kind |-> "-", ty |-> "int", A |-> <<>>, B |-> <<>>, nph |-> 1, fa |-> "none", fb |-> "none",
         elt |-> "x", wk |-> FALSE, src |-> "list", ef |-> "lit"]

LitCases    == { [Base EXCEPT !.kind = k, !.ty = t, !.A = a, !.ef = f] :
                    k \in {"listlit", "maplit"}, t \in Tys, a \in Lists(MaxLen), f \in {"lit", "call"} }
\* a <- values : B = initial contents, A = appended values; src "field" = target is s.a; ef "ell" = a <- b...
AppendCases == { [Base EXCEPT !.kind = "append", !.ty = t, !.B = b, !.A = a, !.ef = f, !.src = s] :
                    t \in Tys, b \in Lists(1), a \in (Lists(MaxLen) \ {<<>>}), f \in {"call", "ell"}, s \in {"list", "field"} }
ForInCases  == { [Base EXCEPT !.kind = "forin", !.ty = t, !.A = a, !.fa = f, !.wk = w, !.src = s] :
                    t \in Tys, a \in Lists(MaxLen), f \in {"none", "gt1", "keep"}, w \in BOOLEAN,
                    s \in {"list", "map"} }   \* (`if init; cond` is accepted in comprehension phrases only)
OneElts(k) == CASE k = "listc" -> {"x", "el", "ix"} [] k = "mapc" -> {"xi", "xel"}
                [] k \in {"selc", "selc2"} -> {"x", "el"} [] k = "existc" -> {"none"}
OneCases    == { [Base EXCEPT !.kind = k, !.ty = t, !.A = a, !.fa = f, !.elt = e, !.src = s] :
                    k \in {"listc", "mapc", "selc", "selc2", "existc"}, t \in Tys, a \in Lists(MaxLen),
                    f \in {"none", "gt1", "keep", "init"}, e \in {"x", "el", "ix", "xi", "xel", "none"},
                    s \in {"list", "map"} }
TwoElts(k) == CASE k = "listc" -> {"pair", "el2"} [] k = "mapc" -> {"el2a"} [] k = "selc2" -> {"el2"}
                [] k = "existc" -> {"none"}
\* src "ovl": the comprehension is an argument of an OVERLOADED function whose second candidate matches (the compiler
\* compiles the argument once per candidate it tries; the value and the effects must not depend on that)
TwoCases    == { [Base EXCEPT !.kind = k, !.nph = 2, !.A = a, !.B = b, !.fa = f, !.fb = g, !.elt = e, !.src = s] :
                    k \in {"listc", "mapc", "selc2", "existc"}, a \in Lists(MaxLen2), b \in Lists(MaxLen2),
                    f \in {"none", "keep", "ltb"}, g \in {"none", "keep"}, e \in {"pair", "el2", "el2a", "none"},
                    s \in {"list", "ovl"} }
CmdCases    == { [Base EXCEPT !.kind = "cmd", !.A = a, !.src = s] :
                    a \in (Lists(MaxLen) \ {<<>>}), s \in {"list", "method"} }

NeedsKey(e) == e \in {"ix", "xi"}
Legal(c) ==
   /\ (c.src = "map" => Len(c.A) <= 1 /\ ~c.wk /\ ~NeedsKey(c.elt))   \* map sources: at most one entry (iteration order)
   /\ (c.kind \in {"listc", "mapc", "selc", "selc2", "existc"} /\ c.nph = 1 =>
          /\ c.elt \in OneElts(c.kind)
          /\ (c.ty # "int" => c.elt = "x" /\ c.fa \in {"none", "keep"})   \* typed elements: identity element only
          /\ (c.src = "map" => c.ty = "int"))
   /\ (c.nph = 2 => c.elt \in TwoElts(c.kind))
   /\ (c.src = "ovl" => c.kind = "listc" /\ c.nph = 2)
   \* generated programs must use every variable they declare (a for-phrase variable nobody reads is
   \* rejected by the Go tool chain for a reason that belongs to another property)
   /\ (c.kind = "existc" /\ c.nph = 1 => c.fa # "none")
   /\ (c.kind = "existc" /\ c.nph = 2 => c.fa # "none" /\ (c.fb = "keep" \/ c.fa = "ltb"))
   /\ (c.kind = "forin" /\ c.ty # "int" => c.fa \in {"none", "keep"} /\ c.src = "list")
   /\ (c.kind = "append" /\ c.ef = "ell" => c.src = "list")
Cases == { c \in LitCases \cup AppendCases \cup ForInCases \cup OneCases \cup TwoCases \cup CmdCases : Legal(c) }

\* ---- the fixed helper vocabulary of the generated programs ---------------------
Tag(t, n) == t \o ToString(n)
Pass(f, n, o) == CASE f = "none" -> TRUE [] f \in {"gt1", "keep", "init"} -> n > 1 [] f = "ltb" -> n < o
FilterLog(f, n) == IF f = "keep" THEN <<Tag("k", n)>> ELSE <<>>       \* keep(x) logs k<n>
EltLog(e, a, b) == CASE e \in {"el", "xel"} -> <<Tag("e", a)>>          \* el(x) logs e<n>, returns n*n
                     [] e \in {"el2", "el2a"} -> <<Tag("e", a * 10 + b)>> \* el2(a,b) logs e<ab>, returns a*10+b
                     [] OTHER -> <<>>
\* value of the element expression; i = 0-based index of a in its list
EltVal(e, a, b, i) == CASE e = "x" -> a [] e = "el" -> a * a [] e = "ix" -> i * 10 + a
                        [] e = "pair" -> <<a, b>> [] e = "el2" -> a * 10 + b [] OTHER -> a
MapKV(e, a, b, i) == CASE e = "xi" -> <<a, i>> [] e = "xel" -> <<a, a * a>> [] e = "el2a" -> <<a * 10 + b, a>>

VARIABLES c, pc, i2, i1, j, acc, pairs, found, log
vars == <<c, pc, i2, i1, j, acc, pairs, found, log>>

Looping(k) == k \in {"forin", "listc", "mapc", "selc", "selc2", "existc"}
Outer == IF c.nph = 2 THEN c.B ELSE c.A            \* the LAST for-phrase is the outermost loop
Inner == c.A
FOuter == IF c.nph = 2 THEN c.fb ELSE c.fa
Back == IF c.nph = 2 THEN "inner" ELSE "outer"

Init == /\ c \in Cases
        /\ pc = (IF Looping(c.kind) THEN "outer" ELSE "args")
        /\ i2 = 0 /\ i1 = 0 /\ j = 0 /\ acc = <<>> /\ pairs = <<>> /\ found = FALSE /\ log = <<>>

\* ---- loop machine (for-in statement and the four comprehension forms) ---------
OuterNext == /\ pc = "outer"
             /\ IF i2 < Len(Outer) THEN i2' = i2 + 1 /\ pc' = "ofilter" ELSE i2' = i2 /\ pc' = "finish"
             /\ UNCHANGED <<c, i1, j, acc, pairs, found, log>>
OuterFilter == /\ pc = "ofilter"
               /\ LET n == Outer[i2] IN
                    /\ log' = log \o FilterLog(FOuter, n)
                    /\ pc' = IF ~Pass(FOuter, n, 0) THEN "outer" ELSE IF c.nph = 2 THEN "inner" ELSE "elem"
               /\ i1' = 0
               /\ UNCHANGED <<c, i2, j, acc, pairs, found>>
InnerNext == /\ pc = "inner"
             /\ IF i1 < Len(Inner) THEN i1' = i1 + 1 /\ pc' = "ifilter" ELSE i1' = i1 /\ pc' = "outer"
             /\ UNCHANGED <<c, i2, j, acc, pairs, found, log>>
\* the inner phrase's filter may read the outer variable
InnerFilter == /\ pc = "ifilter"
               /\ LET n == Inner[i1] IN
                    /\ log' = log \o FilterLog(c.fa, n)
                    /\ pc' = IF Pass(c.fa, n, Outer[i2]) THEN "elem" ELSE "inner"
               /\ UNCHANGED <<c, i2, i1, j, acc, pairs, found>>
\* current variables: a = variable of the first phrase, b = variable of the last phrase
CurA == IF c.nph = 2 THEN Inner[i1] ELSE Outer[i2]
CurB == IF c.nph = 2 THEN Outer[i2] ELSE 0
CurI == (IF c.nph = 2 THEN i1 ELSE i2) - 1
BodyRuns == /\ pc = "elem" /\ c.kind = "forin"                       \* body(x) logs b<n>
            /\ log' = Append(log, Tag("b", IF c.wk THEN CurI * 10 + CurA ELSE CurA))
            /\ acc' = Append(acc, CurA) /\ pc' = Back
            /\ UNCHANGED <<c, i2, i1, j, pairs, found>>
ListAppend == /\ pc = "elem" /\ c.kind = "listc"
              /\ log' = log \o EltLog(c.elt, CurA, CurB)
              /\ acc' = Append(acc, EltVal(c.elt, CurA, CurB, CurI)) /\ pc' = Back
              /\ UNCHANGED <<c, i2, i1, j, pairs, found>>
MapStore == /\ pc = "elem" /\ c.kind = "mapc"
            /\ log' = log \o EltLog(c.elt, CurA, CurB)
            /\ pairs' = Append(pairs, MapKV(c.elt, CurA, CurB, CurI)) /\ pc' = Back
            /\ UNCHANGED <<c, i2, i1, j, acc, found>>
SelectHit == /\ pc = "elem" /\ c.kind \in {"selc", "selc2"}          \* first hit ends the search
             /\ log' = log \o EltLog(c.elt, CurA, CurB)
             /\ acc' = <<EltVal(c.elt, CurA, CurB, CurI)>> /\ found' = TRUE /\ pc' = "finish"
             /\ UNCHANGED <<c, i2, i1, j, pairs>>
ExistsHit == /\ pc = "elem" /\ c.kind = "existc"
             /\ found' = TRUE /\ pc' = "finish"
             /\ UNCHANGED <<c, i2, i1, j, acc, pairs, log>>

\* ---- straight-line machines (literals, append, command call) ------------------
\* operands are evaluated left to right; a call operand v(n) logs v<n>
EvalArg == /\ pc = "args" /\ j < Len(c.A)
           /\ j' = j + 1
           /\ log' = IF c.ef = "call" \/ c.kind = "cmd" THEN Append(log, Tag("v", c.A[j + 1])) ELSE log
           /\ UNCHANGED <<c, pc, i2, i1, acc, pairs, found>>
Build == /\ pc = "args" /\ j = Len(c.A) /\ pc' = "finish"
         /\ acc' = IF c.kind = "append" THEN c.B \o c.A ELSE c.A
         /\ pairs' = IF c.kind = "maplit" THEN [m \in 1..Len(c.A) |-> <<m, c.A[m]>>] ELSE pairs
         /\ log' = IF c.kind = "cmd" THEN Append(log, "call") ELSE log
         /\ UNCHANGED <<c, i2, i1, j, found>>
Finish == /\ pc = "finish" /\ pc' = "done"
          /\ UNCHANGED <<c, i2, i1, j, acc, pairs, found, log>>

Next == OuterNext \/ OuterFilter \/ InnerNext \/ InnerFilter \/ BodyRuns \/ ListAppend \/ MapStore
        \/ SelectHit \/ ExistsHit \/ EvalArg \/ Build \/ Finish
Spec == Init /\ [][Next]_vars /\ WF_vars(Next)

-----------------------------------------------------------------------------
\* Closed forms (independent of the machine): the passing tuples in nested-loop order.
Idx(q) == 1..Len(q)
Tuples == IF c.nph = 2
          THEN { <<p, q>> \in Idx(c.B) \X Idx(c.A) : Pass(c.fb, c.B[p], 0) /\ Pass(c.fa, c.A[q], c.B[p]) }
          ELSE { <<p, 0>> : p \in { p \in Idx(c.A) : Pass(c.fa, c.A[p], 0) } }
In(x, q) == \E m \in 1..Len(q) : q[m] = x

TypeOK == /\ pc \in {"outer", "ofilter", "inner", "ifilter", "elem", "args", "finish", "done"}
          /\ i2 \in 0..Len(Outer) /\ i1 \in 0..Len(Inner) /\ j \in 0..Len(c.A)
\* list result / body runs: one per passing tuple
CountOK == pc = "done" /\ c.kind \in {"listc", "forin"} => Len(acc) = Cardinality(Tuples)
\* select / exists: found iff some tuple passes
FoundOK == pc = "done" /\ c.kind \in {"selc", "selc2", "existc"} => (found <=> Tuples # {})
\* the element expression is never evaluated for a tuple that fails its filter, and select stops at the first hit
EltAfterFilter == \A m \in 1..Len(log) :
    (c.fa = "keep" /\ c.nph = 1 /\ c.elt \in {"el", "xel"} /\ log[m] \in {Tag("e", v) : v \in Vals}) =>
        (m > 1 /\ log[m - 1] \in {Tag("k", v) : v \in Vals})
FirstHitOnly == c.kind \in {"selc", "selc2"} => Cardinality({m \in 1..Len(log) : log[m] \notin {Tag("k", v) : v \in Vals}}) <= 1
\* with two phrases the last phrase is outermost: outer-filter calls appear in the order of B,
\* and between two of them only inner-phrase events occur
OuterOrder == pc = "done" /\ c.nph = 2 /\ c.fb = "keep" /\ c.fa = "none" /\ c.kind \in {"listc", "mapc"} =>
    SelectSeq(log, LAMBDA s : s \in {Tag("k", v) : v \in Vals}) = [m \in 1..Len(c.B) |-> Tag("k", c.B[m])]
\* literals / append / command: operands once each, in source order
ArgsOK == pc = "done" /\ ~Looping(c.kind) =>
    /\ acc = (IF c.kind = "append" THEN c.B \o c.A ELSE c.A)
    /\ (c.ef = "call" \/ c.kind = "cmd" =>
           SubSeq(log, 1, Len(c.A)) = [m \in 1..Len(c.A) |-> Tag("v", c.A[m])])
Terminates == <>(pc = "done")

Export == pc = "done" =>
   Emit([kind |-> c.kind, ty |-> c.ty, A |-> c.A, B |-> c.B, nph |-> c.nph, fa |-> c.fa, fb |-> c.fb,
         elt |-> c.elt, wk |-> c.wk, src |-> c.src, ef |-> c.ef,
         acc |-> acc, pairs |-> pairs, found |-> found, log |-> log])
=============================================================================
