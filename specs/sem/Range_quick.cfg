SPECIFICATION Spec
CONSTANTS
  Span = 2
  KMax = 2
  Forms = {"lit", "var", "call"}
  Ctxs = {"forin", "forinif", "forrange", "forassign", "forrange0", "forbare", "compr", "comprif"}
INVARIANTS TypeOK Denotes Position PrefixOK InBounds EmptyIff EvalOnce Export
PROPERTY Terminates
