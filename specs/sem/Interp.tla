------------------------------- MODULE Interp -------------------------------
(* C05 -- string interpolation equals explicit concatenation                 *)
(* (doc/docs.md "String operators": "${expr}" is expr.string, "$$" is "$").  *)
(*                                                                           *)
(* Two machines in one behaviour.                                            *)
(*  1. The generator (GenSeg / GenStop) derives a literal as a sequence of   *)
(*     segments: text atoms (plain characters, braces, escapes), `$$`,       *)
(*     `${e}` for e in a fixed expression set, and a lone `$` that may only  *)
(*     be the very last segment.  Its spelling is the source text `src`.     *)
(*  2. The reader (Read* actions) is the documented meaning of that source   *)
(*     text: scan left to right; an escape denotes its character; `$$`       *)
(*     denotes `$`; `${` .. first `}` is an expression that is evaluated     *)
(*     (once, now) and whose string form is appended; a `$` that ends the    *)
(*     literal denotes itself.  It builds the value, the evaluation log and  *)
(*     the list of source slices it consumed.                                *)
(* TLC checks that reading is the inverse of spelling (the segmentation is   *)
(* recovered, the slices tile the source text) and that the value is the     *)
(* concatenation of the segment values with the log in left-to-right order.  *)
(* Characters that would need escaping on the way to the harness are spelled *)
(* symbolically: BS backslash, DQ double quote, NL newline.                  *)
EXTENDS Integers, Sequences, FiniteSets, TLC, VerifIO

CONSTANTS MaxLen,     \* longest literal, in segments
          Quotes,     \* subset of {"dq", "raw"}
          Exprs,      \* expression names used in ${..}
          MustDollar  \* TRUE: only literals with at least one $-form are exported

\* ---- alphabet ---------------------------------------------------------------
DqText  == {"a", "lb", "rb", "escn", "escq", "escb"}
RawText == {"a", "lb", "rb", "rawb", "rawq", "rawn"}
TextOf(q) == IF q = "dq" THEN DqText ELSE RawText
AllExprs == {"n", "s", "b", "f", "e", "g", "h", "n1"}

Spell(x) == CASE x = "a"    -> <<"a">>
              [] x = "lb"   -> <<"{">>
              [] x = "rb"   -> <<"}">>
              [] x = "escn" -> <<"BS", "n">>
              [] x = "escq" -> <<"BS", "DQ">>
              [] x = "escb" -> <<"BS", "BS">>
              [] x = "rawb" -> <<"BS">>
              [] x = "rawq" -> <<"DQ">>
              [] x = "rawn" -> <<"NL">>
              [] x = "dd"   -> <<"$", "$">>
              [] x = "tail" -> <<"$">>
              [] x = "n"    -> <<"$", "{", "n", "}">>
              [] x = "s"    -> <<"$", "{", "s", "}">>
              [] x = "b"    -> <<"$", "{", "b", "}">>
              [] x = "f"    -> <<"$", "{", "f", "}">>
              [] x = "e"    -> <<"$", "{", "e", "}">>
              [] x = "g"    -> <<"$", "{", "g", "(", ")", "}">>
              [] x = "h"    -> <<"$", "{", "h", "(", ")", "}">>
              [] x = "n1"   -> <<"$", "{", "n", "+", "1", "}">>

\* the environment of the generated programs:
\*   n := 42 (int)  s := "hi"  b := true  f := 1.5 (float64)  e := errors.New("boom")
\*   g() logs "g" and returns 7 (int);  h() logs "h" and returns "yo"
\* string forms: strconv.Itoa / strconv.FormatFloat(f,'g',-1,64) / the string / Error() / FormatBool
ExprVal(x) == CASE x = "n"  -> <<"4", "2">>
                [] x = "s"  -> <<"h", "i">>
                [] x = "b"  -> <<"t", "r", "u", "e">>
                [] x = "f"  -> <<"1", ".", "5">>
                [] x = "e"  -> <<"b", "o", "o", "m">>
                [] x = "g"  -> <<"7">>
                [] x = "h"  -> <<"y", "o">>
                [] x = "n1" -> <<"4", "3">>
ExprLog(x) == IF x \in {"g", "h"} THEN <<x>> ELSE <<>>
ExprType(x) == CASE x \in {"n", "g", "n1"} -> "int" [] x \in {"s", "h"} -> "string"
                 [] x = "b" -> "bool" [] x = "f" -> "float" [] x = "e" -> "error"

\* value of one segment (closed form, used by the theorems only)
SegVal(x) == CASE x \in {"a"} -> <<"a">> [] x = "lb" -> <<"{">> [] x = "rb" -> <<"}">>
               [] x \in {"escn", "rawn"} -> <<"NL">>
               [] x \in {"escq", "rawq"} -> <<"DQ">>
               [] x \in {"escb", "rawb"} -> <<"BS">>
               [] x \in {"dd", "tail"} -> <<"$">>
               [] x \in AllExprs -> ExprVal(x)
SegLog(x) == IF x \in AllExprs THEN ExprLog(x) ELSE <<>>

RECURSIVE Cat(_, _)
Cat(F, q) == IF q = <<>> THEN <<>> ELSE F[q[1]] \o Cat(F, Tail(q))
SegNames == DqText \cup RawText \cup {"dd", "tail"} \cup AllExprs
SpellF == [x \in SegNames |-> Spell(x)]
ValF   == [x \in SegNames |-> SegVal(x)]
LogF   == [x \in SegNames |-> SegLog(x)]

VARIABLES quote, segs, pc,     \* generator: the literal as segments; pc = "gen" | "read" | "done"
          src,                 \* its source text between the quotes
          i,                   \* reader: index of the next unread character of src
          val, log,            \* reader: value built so far, evaluation log
          read,                \* reader: segmentation recovered from the text
          slices               \* reader: <<from, to>> of every slice consumed, in order
vars == <<quote, segs, pc, src, i, val, log, read, slices>>

Init == /\ quote \in Quotes /\ segs = <<>> /\ pc = "gen" /\ src = <<>>
        /\ i = 1 /\ val = <<>> /\ log = <<>> /\ read = <<>> /\ slices = <<>>

\* ---- generator ----------------------------------------------------------------
Choices == TextOf(quote) \cup {"dd", "tail"} \cup Exprs
HasDollar(q) == \E j \in 1..Len(q) : q[j] \notin (DqText \cup RawText)
GenSeg == /\ pc = "gen" /\ Len(segs) < MaxLen
          /\ (IF segs = <<>> THEN TRUE ELSE segs[Len(segs)] # "tail")   \* a lone $ is only legal as the last thing
          /\ \E x \in Choices : segs' = Append(segs, x)
          /\ UNCHANGED <<quote, pc, src, i, val, log, read, slices>>
GenStop == /\ pc = "gen" /\ (MustDollar => HasDollar(segs))
           /\ src' = Cat(SpellF, segs) /\ pc' = "read"
           /\ UNCHANGED <<quote, segs, i, val, log, read, slices>>

\* ---- reader -------------------------------------------------------------------
Consume(n, v, l, name) ==
   /\ i' = i + n /\ val' = val \o v /\ log' = log \o l
   /\ read' = Append(read, name) /\ slices' = Append(slices, <<i, i + n - 1>>)
   /\ UNCHANGED <<quote, segs, pc, src>>
At(j) == IF j <= Len(src) THEN src[j] ELSE "EOF"

\* interpreted string: backslash escape denotes one character
ReadEscape == /\ pc = "read" /\ quote = "dq" /\ At(i) = "BS"
              /\ LET c == At(i + 1) IN
                   Consume(2, IF c = "n" THEN <<"NL">> ELSE <<c>>, <<>>,
                           IF c = "n" THEN "escn" ELSE IF c = "DQ" THEN "escq" ELSE "escb")
\* any other character denotes itself (in a raw string that includes the backslash)
ReadChar == /\ pc = "read" /\ At(i) \notin {"$", "EOF"} /\ ~(quote = "dq" /\ At(i) = "BS")
            /\ LET c == At(i) IN
                 Consume(1, <<c>>, <<>>,
                         CASE c = "{" -> "lb" [] c = "}" -> "rb" [] c = "BS" -> "rawb"
                           [] c = "DQ" -> "rawq" [] c = "NL" -> "rawn" [] OTHER -> c)
\* $$ denotes $
ReadDollarDollar == /\ pc = "read" /\ At(i) = "$" /\ At(i + 1) = "$"
                    /\ Consume(2, <<"$">>, <<>>, "dd")
\* ${ expr } : the expression text runs to the first closing brace; it is evaluated here, once
ExprNamed(t) == CHOOSE x \in AllExprs : SubSeq(Spell(x), 3, Len(Spell(x)) - 1) = t
ReadExpr == /\ pc = "read" /\ At(i) = "$" /\ At(i + 1) = "{"
            /\ LET close == CHOOSE j \in (i + 2)..Len(src) :
                               src[j] = "}" /\ \A m \in (i + 2)..(j - 1) : src[m] # "}"
                   x == ExprNamed(SubSeq(src, i + 2, close - 1)) IN
                 Consume(close - i + 1, ExprVal(x), ExprLog(x), x)
\* a $ that ends the literal denotes itself
ReadTail == /\ pc = "read" /\ At(i) = "$" /\ At(i + 1) = "EOF"
            /\ Consume(1, <<"$">>, <<>>, "tail")
ReadEnd == /\ pc = "read" /\ At(i) = "EOF" /\ pc' = "done"
           /\ UNCHANGED <<quote, segs, src, i, val, log, read, slices>>

Next == GenSeg \/ GenStop \/ ReadEscape \/ ReadChar \/ ReadDollarDollar \/ ReadExpr \/ ReadTail \/ ReadEnd
Spec == Init /\ [][Next]_vars /\ WF_vars(ReadEscape \/ ReadChar \/ ReadDollarDollar \/ ReadExpr \/ ReadTail \/ ReadEnd)

-----------------------------------------------------------------------------
TypeOK == /\ pc \in {"gen", "read", "done"} /\ i \in 1..(Len(src) + 1)
          /\ Len(segs) <= MaxLen
\* the reader never meets a $ it cannot classify (the generator's alphabet is inside the language)
NoStray == pc = "read" /\ At(i) = "$" => At(i + 1) \in {"$", "{", "EOF"}
\* reading is the inverse of spelling; the slices tile the source text
Recovers == pc = "done" => read = segs
Tiles == /\ \A j \in 1..Len(slices) : slices[j][1] <= slices[j][2]
         /\ (slices # <<>> => slices[1][1] = 1)
         /\ \A j \in 1..(Len(slices) - 1) : slices[j + 1][1] = slices[j][2] + 1
         /\ (pc # "gen" => i = (IF slices = <<>> THEN 1 ELSE slices[Len(slices)][2] + 1))
\* value = concatenation of the pieces; log = embedded calls, left to right, once each
Concat == pc = "done" => val = Cat(ValF, segs) /\ log = Cat(LogF, segs)
PrefixConcat == pc # "gen" => val = Cat(ValF, read) /\ log = Cat(LogF, read)
Terminates == (pc = "read") ~> (pc = "done")

Types == [j \in 1..Len(segs) |-> IF segs[j] \in AllExprs THEN ExprType(segs[j]) ELSE "-"]
Export == pc = "done" =>
   Emit([quote |-> quote, segs |-> segs, src |-> src, val |-> val, log |-> log, types |-> Types])
=============================================================================
