SPECIFICATION Spec
CONSTANTS
  MaxLen = 3
  Quotes = {"dq"}
  Exprs = {"n", "s", "b", "g", "h"}
  MustDollar = TRUE
INVARIANTS TypeOK NoStray Recovers Tiles Concat PrefixConcat Export
PROPERTY Terminates
