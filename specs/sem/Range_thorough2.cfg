SPECIFICATION Spec
CONSTANTS
  Span = 2
  KMax = 2
  Forms = {"hex", "oct", "bin", "us"}
  Ctxs = {"forin", "forinif", "forrange", "forassign", "forrange0", "forbare", "compr", "comprif"}
INVARIANTS TypeOK Denotes Position PrefixOK InBounds EmptyIff EvalOnce Export
PROPERTY Terminates
