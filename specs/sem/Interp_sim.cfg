SPECIFICATION Spec
CONSTANTS
  MaxLen = 6
  Quotes = {"dq", "raw"}
  Exprs = {"n", "s", "b", "f", "e", "g", "h", "n1"}
  MustDollar = TRUE
INVARIANTS TypeOK NoStray Recovers Tiles Concat PrefixConcat Export
