SPECIFICATION Spec
CONSTANTS
  MaxLen = 2
  Pool = "small"
  Classes = {"none", "trunc", "noColon", "nonNumeric", "emptyValue", "zero", "negative", "overflow", "overflow32", "len10", "len12", "len15", "len19", "len20",
             "missing", "missingOther", "lenShort", "lenLong",
             "extraBefore", "extraAfter", "lfOnly", "noSpace", "plusSign", "leadZero", "dupLen", "leadSpace",
             "lowerName", "spaceColon",
             "notJSON", "cutJSON", "wrongTag", "noTag", "idBool", "idArr", "neither", "neitherResult", "methodNum",
             "idFrac", "idNull"}
INVARIANTS TypeOK NoOverread RoundTrip Truncation PrefixIntact MalformedErrs LaterIntact Tolerance Strictness Export
PROPERTY Terminates
