SPECIFICATION Spec
CONSTANTS
  MaxLen = 2
  Pool = "full"
  Classes = {"none"}
INVARIANTS TypeOK NoOverread RoundTrip Truncation PrefixIntact MalformedErrs LaterIntact Tolerance Strictness Export
PROPERTY Terminates
