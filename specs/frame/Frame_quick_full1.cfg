SPECIFICATION Spec
CONSTANTS
  MaxLen = 1
  Pool = "fullp"
  Classes = {"none"}
INVARIANTS TypeOK NoOverread RoundTrip Truncation PrefixIntact MalformedErrs LaterIntact Tolerance Strictness Export
PROPERTY Terminates
