SPECIFICATION Spec
CONSTANTS
  MaxLen = 4
  Pool = "small"
  Classes = {"none"}
INVARIANTS TypeOK NoOverread RoundTrip Truncation PrefixIntact MalformedErrs LaterIntact Tolerance Strictness Export
PROPERTY Terminates
