SPECIFICATION Spec
CONSTANTS
  MaxLen = 4
  Pool = "tiny"
  Classes = {"none"}
INVARIANTS TypeOK NoOverread RoundTrip Truncation PrefixIntact MalformedErrs LaterIntact Tolerance Strictness Export
PROPERTY Terminates
