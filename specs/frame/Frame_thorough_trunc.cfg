SPECIFICATION Spec
CONSTANTS
  MaxLen = 3
  Pool = "small"
  Classes = {"trunc"}
INVARIANTS TypeOK NoOverread RoundTrip Truncation PrefixIntact MalformedErrs LaterIntact Tolerance Strictness Export
PROPERTY Terminates
