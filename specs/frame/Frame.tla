------------------------------- MODULE Frame -------------------------------
(* C38 -- x/jsonrpc2: header framer (frame.go) + message codec (messages.go, *)
(* wire.go).                                                                 *)
(*                                                                           *)
(* Text is a sequence of one-character strings.  A *message* is the API-level *)
(* object (call with int/string id, notification, response with result /     *)
(* error / neither).  The WRITER is the function FrameOf: header             *)
(* "Content-Length: n\r\n\r\n" followed by the JSON body in Go's field order. *)
(* The READER is a state machine over the byte stream with one action per    *)
(* code path of headerReader.Read: one header line per step                  *)
(* (r.in.ReadString('\n')), then the body (io.ReadFull), then DecodeMessage.  *)
(* Init ranges over every message sequence in the bound and every defect of  *)
(* the configured classes (none | truncation at every byte offset | one      *)
(* damaged frame); TLC runs the reader on the resulting byte stream and      *)
(* checks the theorems below on the model; the terminal state is exported as *)
(* a CASE record and replayed into the real Reader/Writer.                   *)
(*                                                                           *)
(* JSON itself is abstracted: a body is the rendering of a *wire record*     *)
(* (the fields of wireCombined, plus ill-typed variants); ParseBody is the   *)
(* inverse of Render on the finite wire domain (checked well-defined by an   *)
(* ASSUME), anything else is "not JSON".  encoding/json is not under test.   *)
(* Numbers that do not fit TLC's 32-bit integers (ids up to 2^53, overflowing*)
(* Content-Length values) are handled as decimal text.                       *)
EXTENDS Integers, Sequences, FiniteSets, TLC, VerifIO

CONSTANTS MaxLen,     \* longest message sequence
          Pool,       \* "full" | "fullp" (full + probe) | "mid" | "small" | "tiny" | "probe"
          Classes     \* defect classes enumerated by this configuration

-----------------------------------------------------------------------------
\* literals
S_CL      == <<"C","o","n","t","e","n","t","-","L","e","n","g","t","h">>
S_CLsp    == <<"C","o","n","t","e","n","t","-","L","e","n","g","t","h",":"," ">>
S_CLnosp  == <<"C","o","n","t","e","n","t","-","L","e","n","g","t","h",":">>
S_CLspcol == <<"C","o","n","t","e","n","t","-","L","e","n","g","t","h"," ",":"," ">>
S_lower   == <<"c","o","n","t","e","n","t","-","l","e","n","g","t","h",":"," ">>
S_CT      == <<"C","o","n","t","e","n","t","-","T","y","p","e",":"," ","x">>
CRLF      == <<"\r","\n">>
LF        == <<"\n">>
K_tag     == <<"\"","j","s","o","n","r","p","c","\"",":">>
K_id      == <<"\"","i","d","\"",":">>
K_method  == <<"\"","m","e","t","h","o","d","\"",":">>
K_params  == <<"\"","p","a","r","a","m","s","\"",":">>
K_result  == <<"\"","r","e","s","u","l","t","\"",":">>
K_error   == <<"\"","e","r","r","o","r","\"",":","{","\"","c","o","d","e","\"",":">>
K_message == <<",","\"","m","e","s","s","a","g","e","\"",":">>
S_V20     == <<"2",".","0">>
S_V10     == <<"1",".","0">>
S_Hello   == <<"h","e","l","l","o">>
P_Arr     == <<"[","1","]">>
P_Obj     == <<"{","\"","k","\"",":","\"","v","\"","}">>
R_Null    == <<"n","u","l","l">>
R_Obj     == <<"{","\"","r","\"",":","1","}">>
S_True    == <<"t","r","u","e">>
S_Frac    == <<"1",".","5">>
S_Big     == <<"9","9","9","9","9","9","9","9","9","9","9">>
S_2p31    == <<"2","1","4","7","4","8","3","6","4","8">>
\* Content-Length values by size: 10 / 12 / 15 / 19 digits fit int64 but not int32 (a reader that accepted
\* them would allocate the declared size before a byte of the body is there), 20 digits overflow int64
S_Len10   == <<"4","2","9","4","9","6","7","2","9","6">>
S_Len12   == <<"5","4","9","7","5","5","8","1","3","8","8","8">>
S_Len15   == <<"2","8","1","4","7","4","9","7","6","7","1","0","6","5","7">>
S_Len19   == <<"9","2","2","3","3","7","2","0","3","6","8","5","4","7","7","5","8","0","7">>
S_Len20   == <<"1","8","4","4","6","7","4","4","0","7","3","7","0","9","5","5","1","6","1","6">>
S_Max32   == <<"2","1","4","7","4","8","3","6","4","7">>
I_2p53    == <<"9","0","0","7","1","9","9","2","5","4","7","4","0","9","9","2">>
I_m2p53   == <<"-","9","0","0","7","1","9","9","2","5","4","7","4","0","9","9","2">>
I_2p53p1  == <<"9","0","0","7","1","9","9","2","5","4","7","4","0","9","9","3">>
E_nf      == <<"n","f">>
E_boom    == <<"b","o","o","m">>
E_wnf     == <<"w",":"," ","n","f">>
S_m32601  == <<"-","3","2","6","0","1">>
Q         == <<"\"">>

Digits  == {"0","1","2","3","4","5","6","7","8","9"}
DigitCh == <<"0","1","2","3","4","5","6","7","8","9">>
DigitVal == [c \in Digits |-> (CHOOSE i \in 1..10 : DigitCh[i] = c) - 1]
RECURSIVE Dec(_)
Dec(n) == IF n < 10 THEN <<DigitCh[n + 1]>> ELSE Dec(n \div 10) \o <<DigitCh[(n % 10) + 1]>>

Min(S) == CHOOSE m \in S : \A k \in S : m <= k

\* JSON string literal (the alphabets below only need the two mandatory escapes)
RECURSIVE Esc(_)
Esc(s) == IF s = <<>> THEN <<>>
          ELSE (IF s[1] \in {"\"", "\\"} THEN <<"\\", s[1]>> ELSE <<s[1]>>) \o Esc(Tail(s))
JStr(s) == Q \o Esc(s) \o Q

-----------------------------------------------------------------------------
\* Messages (API level): messages.go Request / Response.
Msg(k, idt, id, me, pa, re, er, co, em) ==
  [k |-> k, idt |-> idt, id |-> id, method |-> me, params |-> pa, result |-> re,
   err |-> er, code |-> co, emsg |-> em]
NoMsg == Msg("none", "none", <<>>, <<>>, <<>>, <<>>, "none", <<>>, <<>>)

IntIds  == {<<"0">>, <<"7">>, <<"-","1">>, I_2p53, I_m2p53}     \* within +-2^53 (stated assumption)
StrIds  == {<<>>, <<"a">>, <<"7">>, <<"a","\"","b">>}
Ids     == {<<"int", i>> : i \in IntIds} \cup {<<"str", s>> : s \in StrIds}
Methods == {<<"m">>, <<"a","/","b">>}                           \* never empty (stated assumption)
Params  == {<<>>, P_Arr, P_Obj}
Results == {<<>>, R_Null, R_Obj}
\* error = none | *wireError(code,msg) | errors.New(msg) (code 0) | fmt.Errorf("w: %w", wireError)
Errs    == {<<"none", <<>>, <<>>>>, <<"wire", S_m32601, E_nf>>, <<"wire", <<"7">>, <<>>>>,
            <<"plain", <<"0">>, E_boom>>, <<"wrapped", S_m32601, E_wnf>>}

Calls  == {Msg("call", i[1], i[2], me, pa, <<>>, "none", <<>>, <<>>) : i \in Ids, me \in Methods, pa \in Params}
Notifs == {Msg("notif", "none", <<>>, me, pa, <<>>, "none", <<>>, <<>>) : me \in Methods, pa \in Params}
Resps  == {Msg("resp", i[1], i[2], <<>>, <<>>, re, e[1], e[2], e[3]) : i \in Ids, re \in Results, e \in Errs}
FullPool == Calls \cup Notifs \cup Resps

MidPool ==
  {m \in Calls : m.method = <<"m">> /\ m.params = <<>>}
  \cup {m \in Calls : m.idt = "int" /\ m.id = <<"7">> /\ m.params # <<>>}
  \cup {m \in Notifs : (m.method = <<"m">> /\ m.params = <<>>) \/ (m.method # <<"m">> /\ m.params = P_Obj)}
  \cup {m \in Resps : m.idt = "int" /\ m.id = <<"7">>}
  \cup {m \in Resps : m.idt = "str" /\ m.id = <<"a">> /\ m.result = <<>> /\ m.code \in {<<>>, S_m32601} /\ m.err \in {"none", "wire"}}
SmallPool == {
  Msg("call", "int", <<"7">>, <<"m">>, P_Arr, <<>>, "none", <<>>, <<>>),
  Msg("call", "str", <<"a">>, <<"a","/","b">>, <<>>, <<>>, "none", <<>>, <<>>),
  Msg("notif", "none", <<>>, <<"m">>, P_Obj, <<>>, "none", <<>>, <<>>),
  Msg("resp", "int", <<"7">>, <<>>, <<>>, R_Obj, "none", <<>>, <<>>),
  Msg("resp", "str", <<"a">>, <<>>, <<>>, <<>>, "wire", S_m32601, E_nf),
  Msg("resp", "int", <<"0">>, <<>>, <<>>, <<>>, "none", <<>>, <<>>) }
TinyPool == {
  Msg("call", "int", <<"7">>, <<"m">>, P_Arr, <<>>, "none", <<>>, <<>>),
  Msg("notif", "none", <<>>, <<"m">>, <<>>, <<>>, "none", <<>>, <<>>),
  Msg("resp", "str", <<"a">>, <<>>, <<>>, R_Null, "plain", <<"0">>, E_boom) }
ProbePool == {   \* lead of DESIGN section 8: int64 id above 2^53
  Msg("call", "int", I_2p53p1, <<"m">>, <<>>, <<>>, "none", <<>>, <<>>),
  Msg("resp", "int", I_2p53p1, <<>>, <<>>, R_Obj, "none", <<>>, <<>>) }
PoolMsgs == CASE Pool = "full" -> FullPool [] Pool = "fullp" -> FullPool \cup ProbePool [] Pool = "mid" -> MidPool [] Pool = "small" -> SmallPool
              [] Pool = "tiny" -> TinyPool [] Pool = "probe" -> ProbePool

\* what survives the wire: a plain/wrapped error comes back as a wire error (code, message)
Norm(m) == [m EXCEPT !.err = IF @ = "none" THEN "none" ELSE "wire"]

-----------------------------------------------------------------------------
\* Wire records (wire.go wireCombined) incl. ill-typed variants, and their JSON rendering.
WireOf(m) == [tagp |-> TRUE, tag |-> S_V20, idt |-> m.idt, id |-> m.id,
              mt |-> IF m.method = <<>> THEN "none" ELSE "str", method |-> m.method,
              params |-> m.params, result |-> m.result,
              err |-> IF m.err = "none" THEN "none" ELSE "obj", code |-> m.code, emsg |-> m.emsg]
EmptyWire == [tagp |-> TRUE, tag |-> S_V20, idt |-> "none", id |-> <<>>, mt |-> "none", method |-> <<>>,
              params |-> <<>>, result |-> <<>>, err |-> "none", code |-> <<>>, emsg |-> <<>>]

IdText(w) == CASE w.idt = "int" -> w.id [] w.idt = "str" -> JStr(w.id) [] w.idt = "bool" -> S_True
               [] w.idt = "arr" -> P_Arr [] w.idt = "frac" -> w.id [] w.idt = "null" -> R_Null
Fields(w) ==   (IF w.tagp THEN << K_tag \o JStr(w.tag) >> ELSE <<>>)
            \o (IF w.idt # "none" THEN << K_id \o IdText(w) >> ELSE <<>>)
            \o (IF w.mt = "str" THEN << K_method \o JStr(w.method) >>
                ELSE IF w.mt = "num" THEN << K_method \o <<"5">> >> ELSE <<>>)
            \o (IF w.params # <<>> THEN << K_params \o w.params >> ELSE <<>>)
            \o (IF w.result # <<>> THEN << K_result \o w.result >> ELSE <<>>)
            \o (IF w.err = "obj" THEN << K_error \o w.code \o K_message \o JStr(w.emsg) \o <<"}">> >> ELSE <<>>)
RECURSIVE JoinComma(_)
JoinComma(fs) == IF fs = <<>> THEN <<>> ELSE IF Len(fs) = 1 THEN fs[1]
                 ELSE fs[1] \o <<",">> \o JoinComma(Tail(fs))
\* messages.go EncodeMessage = json.Marshal(&wireCombined) (struct field order, omitempty)
Render(w) == <<"{">> \o JoinComma(Fields(w)) \o <<"}">>

RECURSIVE IntPart(_)
IntPart(s) == IF s = <<>> \/ s[1] = "." THEN <<>> ELSE <<s[1]>> \o IntPart(Tail(s))

OkRes(m)  == [t |-> "msg", m |-> m, c |-> "ok"]
ErrRes(c) == [t |-> "err", m |-> NoMsg, c |-> c]
\* messages.go DecodeMessage, after json.Unmarshal delivered the wire record
Decode(w) ==
  IF w.mt = "num" THEN ErrRes("bad-json")                        \* UnmarshalTypeError
  ELSE IF ~w.tagp \/ w.tag # S_V20 THEN ErrRes("bad-tag")        \* msg.VersionTag != wireVersion
  ELSE IF w.idt \in {"bool", "arr"} THEN ErrRes("bad-id")        \* default arm of the id type switch
  ELSE LET idt == IF w.idt \in {"int", "frac"} THEN "int" ELSE IF w.idt = "str" THEN "str" ELSE "none"
           id  == IF w.idt = "frac" THEN IntPart(w.id) ELSE IF idt = "none" THEN <<>> ELSE w.id
       IN IF w.method # <<>>                                     \* has a method: Request
          THEN OkRes(Msg(IF idt = "none" THEN "notif" ELSE "call", idt, id, w.method, w.params,
                         <<>>, "none", <<>>, <<>>))
          ELSE IF idt = "none" THEN ErrRes("invalid-request")    \* ErrInvalidRequest
          ELSE OkRes(Msg("resp", idt, id, <<>>, <<>>, w.result,
                         IF w.err = "none" THEN "none" ELSE "wire",
                         IF w.err = "none" THEN <<>> ELSE w.code,
                         IF w.err = "none" THEN <<>> ELSE w.emsg))

\* defect classes ----------------------------------------------------------
HdrMustErr  == {"noColon", "nonNumeric", "emptyValue", "zero", "negative", "overflow", "overflow32",
                "len10", "len12", "len15", "len19", "len20",
                "missing", "missingOther", "lenShort", "lenLong"}
HdrTolerant == {"extraBefore", "extraAfter", "lfOnly", "noSpace", "plusSign", "leadZero", "dupLen",
                "leadSpace"}                                     \* today's reader accepts these
HdrStrict   == {"lowerName", "spaceColon"}                       \* today's reader rejects these (not pinned)
BodyMustErr == {"notJSON", "cutJSON", "wrongTag", "noTag", "idBool", "idArr", "neither",
                "neitherResult", "methodNum"}
BodyFree    == {"idFrac", "idNull"}
HdrClasses  == HdrMustErr \cup HdrTolerant \cup HdrStrict
BodyClasses == BodyMustErr \cup BodyFree
MustErr     == HdrMustErr \cup BodyMustErr
\* classes after which the following frames are still aligned (the frame is well-formed as a frame)
Aligned     == BodyClasses \cup HdrTolerant
AllClasses  == {"none", "trunc"} \cup HdrClasses \cup BodyClasses
ASSUME Classes \subseteq AllClasses

\* the wire record of a body-level defect applied to message m (classes with a JSON body)
DefWire(c, m) == LET w == WireOf(m) IN
  CASE c = "wrongTag" -> [w EXCEPT !.tag = S_V10]
    [] c = "noTag"    -> [w EXCEPT !.tagp = FALSE]
    [] c = "idBool"   -> [w EXCEPT !.idt = "bool", !.id = <<>>]
    [] c = "idArr"    -> [w EXCEPT !.idt = "arr", !.id = <<>>]
    [] c = "neither"  -> EmptyWire
    [] c = "neitherResult" -> [EmptyWire EXCEPT !.result = R_Obj]
    [] c = "methodNum" -> [w EXCEPT !.mt = "num", !.method = <<>>]
    [] c = "idFrac"   -> [w EXCEPT !.idt = "frac", !.id = S_Frac]
    [] c = "idNull"   -> [w EXCEPT !.idt = "null", !.id = <<>>]
WireClasses == BodyClasses \ {"notJSON", "cutJSON"}
WireDomain == {WireOf(m) : m \in PoolMsgs}
              \cup {DefWire(c, m) : c \in (Classes \cap WireClasses), m \in PoolMsgs}
BodyTable == [w \in WireDomain |-> Render(w)]
Bodies    == {BodyTable[w] : w \in WireDomain}
BodyInv   == [b \in Bodies |-> CHOOSE w \in WireDomain : BodyTable[w] = b]
\* ParseBody is well defined: two wire records with the same rendering decode alike
ASSUME \A w \in WireDomain : Decode(w) = Decode(BodyInv[BodyTable[w]])
\* json.Unmarshal + DecodeMessage on the bytes of one body
ParseBody(b) == IF b \in Bodies THEN Decode(BodyInv[b]) ELSE ErrRes("bad-json")

-----------------------------------------------------------------------------
\* WRITER: frame.go headerWriter.Write
Header(n)  == S_CLsp \o Dec(n) \o CRLF \o CRLF
BodyOf(m)  == Render(WireOf(m))
FrameOf(m) == LET b == BodyOf(m) IN Header(Len(b)) \o b

DefBody(c, m) == CASE c = "notJSON" -> S_Hello
                   [] c = "cutJSON" -> SubSeq(BodyOf(m), 1, Len(BodyOf(m)) - 1)
                   [] OTHER -> Render(DefWire(c, m))
\* one damaged frame
DefFrame(c, m) ==
  LET b == BodyOf(m)
      n == Len(b)
  IN CASE c = "noColon"      -> S_CL \o <<" ">> \o Dec(n) \o CRLF \o CRLF \o b
       [] c = "nonNumeric"   -> S_CLsp \o Dec(n) \o <<"x">> \o CRLF \o CRLF \o b
       [] c = "emptyValue"   -> S_CLsp \o CRLF \o CRLF \o b
       [] c = "zero"         -> S_CLsp \o <<"0">> \o CRLF \o CRLF \o b
       [] c = "negative"     -> S_CLsp \o <<"-">> \o Dec(n) \o CRLF \o CRLF \o b
       [] c = "overflow"     -> S_CLsp \o S_Big \o CRLF \o CRLF \o b
       [] c = "overflow32"   -> S_CLsp \o S_2p31 \o CRLF \o CRLF \o b
       [] c = "len10"        -> S_CLsp \o S_Len10 \o CRLF \o CRLF \o b
       [] c = "len12"        -> S_CLsp \o S_Len12 \o CRLF \o CRLF \o b
       [] c = "len15"        -> S_CLsp \o S_Len15 \o CRLF \o CRLF \o b
       [] c = "len19"        -> S_CLsp \o S_Len19 \o CRLF \o CRLF \o b
       [] c = "len20"        -> S_CLsp \o S_Len20 \o CRLF \o CRLF \o b
       [] c = "missing"      -> CRLF \o b
       [] c = "missingOther" -> S_CT \o CRLF \o CRLF \o b
       [] c = "lenShort"     -> Header(n - 1) \o b
       [] c = "lenLong"      -> Header(n + 1) \o b
       [] c = "extraBefore"  -> S_CT \o CRLF \o Header(n) \o b
       [] c = "extraAfter"   -> S_CLsp \o Dec(n) \o CRLF \o S_CT \o CRLF \o CRLF \o b
       [] c = "lfOnly"       -> S_CLsp \o Dec(n) \o LF \o LF \o b
       [] c = "noSpace"      -> S_CLnosp \o Dec(n) \o CRLF \o CRLF \o b
       [] c = "plusSign"     -> S_CLsp \o <<"+">> \o Dec(n) \o CRLF \o CRLF \o b
       [] c = "leadZero"     -> S_CLsp \o <<"0">> \o Dec(n) \o CRLF \o CRLF \o b
       [] c = "dupLen"       -> S_CLsp \o <<"1">> \o CRLF \o Header(n) \o b
       [] c = "leadSpace"    -> <<" ", "\t">> \o S_CLsp \o <<" ">> \o Dec(n) \o <<" ">> \o CRLF \o CRLF \o b
       [] c = "lowerName"    -> S_lower \o Dec(n) \o CRLF \o CRLF \o b
       [] c = "spaceColon"   -> S_CLspcol \o Dec(n) \o CRLF \o CRLF \o b
       [] c \in BodyClasses  -> LET db == DefBody(c, m) IN Header(Len(db)) \o db

RECURSIVE Cat(_, _, _)
Cat(s, d, i) == IF i > Len(s) THEN <<>>
                ELSE (IF i = d.k THEN DefFrame(d.c, s[i]) ELSE FrameOf(s[i])) \o Cat(s, d, i + 1)
NoDefect == [c |-> "none", k |-> 0, n |-> 0]
WriteAll(s) == Cat(s, NoDefect, 1)
StreamOf(s, d) == IF d.c = "trunc" THEN SubSeq(WriteAll(s), 1, d.n) ELSE Cat(s, d, 1)

Streams == UNION {[1..n -> PoolMsgs] : n \in 0..MaxLen}
DefectsOf(s) ==
     (IF "none" \in Classes THEN {NoDefect} ELSE {})
  \cup (IF "trunc" \in Classes THEN {[c |-> "trunc", k |-> 0, n |-> i] : i \in 0..(Len(WriteAll(s)) - 1)} ELSE {})
  \cup {[c |-> cl, k |-> j, n |-> 0] : cl \in Classes \ {"none", "trunc"}, j \in 1..Len(s)}

-----------------------------------------------------------------------------
\* ParseInt(value, 10, 32) followed by `length <= 0`: [ok, n]
RECURSIVE StripZeros(_)
StripZeros(ds) == IF Len(ds) > 1 /\ ds[1] = "0" THEN StripZeros(Tail(ds)) ELSE ds
RECURSIVE Val(_)
Val(ds) == IF ds = <<>> THEN 0 ELSE Val(SubSeq(ds, 1, Len(ds) - 1)) * 10 + DigitVal[ds[Len(ds)]]
RECURSIVE LexGT(_, _)      \* equal length digit strings
LexGT(a, b) == IF a = <<>> THEN FALSE
               ELSE IF a[1] # b[1] THEN DigitVal[a[1]] > DigitVal[b[1]] ELSE LexGT(Tail(a), Tail(b))
BadLen == [ok |-> FALSE, n |-> 0]
ParseLen(v) ==
  LET signed == v # <<>> /\ v[1] \in {"+", "-"}
      ds     == IF signed THEN Tail(v) ELSE v
  IN IF ds = <<>> \/ \E i \in 1..Len(ds) : ds[i] \notin Digits THEN BadLen        \* syntax error
     ELSE IF signed /\ v[1] = "-" THEN BadLen                                     \* range error or <= 0
     ELSE LET sig == StripZeros(ds) IN
          IF Len(sig) > 10 \/ (Len(sig) = 10 /\ LexGT(sig, S_Max32)) THEN BadLen  \* out of int32 range
          ELSE IF Val(sig) = 0 THEN BadLen                                        \* length <= 0
          ELSE [ok |-> TRUE, n |-> Val(sig)]

WS == {" ", "\t", "\r", "\n"}
RECURSIVE TrimL(_)
TrimL(s) == IF s # <<>> /\ s[1] \in WS THEN TrimL(Tail(s)) ELSE s
RECURSIVE TrimR(_)
TrimR(s) == IF s # <<>> /\ s[Len(s)] \in WS THEN TrimR(SubSeq(s, 1, Len(s) - 1)) ELSE s
Trim(s) == TrimR(TrimL(s))       \* strings.TrimSpace on the alphabet used here

-----------------------------------------------------------------------------
\* READER machine
VARIABLES ms,      \* the message sequence written
          defect,  \* [c, k, n]: class, damaged frame (0 = none), truncation offset
          stream,  \* bytes handed to the reader
          pos,     \* bytes consumed so far
          rstart,  \* value of pos when the current Read call began
          length,  \* Content-Length seen by the current Read call (0 = none yet)
          reads,   \* results of the Read calls so far
          pc       \* "hdr" | "body" | "done"
vars == <<ms, defect, stream, pos, rstart, length, reads, pc>>

Init == \E s \in Streams : \E d \in DefectsOf(s) :
          /\ ms = s /\ defect = d /\ stream = StreamOf(s, d)
          /\ pos = 0 /\ rstart = 0 /\ length = 0 /\ reads = <<>> /\ pc = "hdr"

\* result of one Read call.  mi = index of the written message it equals (0: none)
Rd(t, m, c, fatal, p, limit) ==
  LET i == Len(reads) + 1
      same == t = "msg" /\ i <= Len(ms) /\ m = Norm(ms[i])
  IN [t |-> t, mi |-> IF same THEN i ELSE 0, m |-> IF same THEN NoMsg ELSE m,
      c |-> c, fatal |-> fatal, pos |-> p, limit |-> limit]

\* what the current Read call sees next: the line up to the next LF (r.in.ReadString), trimmed
\* (strings.TrimSpace), split at the first colon, value trimmed and parsed
HdrView ==
  LET lfs   == {i \in (pos + 1)..Len(stream) : stream[i] = "\n"}
      lf    == IF lfs = {} THEN 0 ELSE Min(lfs)
      line  == IF lf = 0 THEN <<>> ELSE Trim(SubSeq(stream, pos + 1, lf))
      cs    == {i \in 1..Len(line) : line[i] = ":"}
      colon == IF cs = {} THEN 0 ELSE Min(cs)
  IN [lf |-> lf, line |-> line, colon |-> colon,
      name |-> IF colon = 0 THEN <<>> ELSE SubSeq(line, 1, colon - 1),
      len  |-> IF colon = 0 THEN BadLen ELSE ParseLen(Trim(SubSeq(line, colon + 1, Len(line))))]
Fatal(c) == /\ reads' = Append(reads, Rd("err", NoMsg, c, TRUE, pos', Len(stream)))
            /\ pc' = "done"
\* end of the header block that contains offset p (the LF of its empty line), or the end of the stream
HeaderEnd(p) == LET E == {i \in (p + 1)..Len(stream) :
                            /\ stream[i] = "\n"
                            /\ (stream[i - 1] = "\n" \/ (i >= 3 /\ stream[i - 1] = "\r" /\ stream[i - 2] = "\n"))}
                IN IF E = {} THEN Len(stream) ELSE Min(E)
\* a Content-Length that is rejected: the error comes before anything behind the header is touched
FatalInHeader(c) == /\ reads' = Append(reads, Rd("err", NoMsg, c, TRUE, pos', HeaderEnd(pos')))
                    /\ pc' = "done"

\* frame.go Read: ReadString hits EOF before any byte of this call: clean end of stream (io.EOF)
HdrCleanEOF(h) == /\ h.lf = 0 /\ pos = Len(stream) /\ pos = rstart
                  /\ reads' = Append(reads, Rd("eof", NoMsg, "eof", TRUE, pos, Len(stream)))
                  /\ pc' = "done" /\ UNCHANGED <<ms, defect, stream, pos, rstart, length>>
\* ... EOF inside the header: io.ErrUnexpectedEOF, the partial line is consumed
HdrEOF(h) == /\ h.lf = 0 /\ ~(pos = Len(stream) /\ pos = rstart)
             /\ pos' = Len(stream) /\ Fatal("hdr-eof")
             /\ UNCHANGED <<ms, defect, stream, rstart, length>>
\* empty line ends the header
HdrBlank(h) == /\ h.lf # 0 /\ h.line = <<>> /\ length # 0
               /\ pos' = h.lf /\ pc' = "body"
               /\ UNCHANGED <<ms, defect, stream, rstart, length, reads>>
\* "missing Content-Length header"
HdrMissingLength(h) == /\ h.lf # 0 /\ h.line = <<>> /\ length = 0
                       /\ pos' = h.lf /\ Fatal("missing-length")
                       /\ UNCHANGED <<ms, defect, stream, rstart, length>>
\* "invalid header line"
HdrNoColon(h) == /\ h.lf # 0 /\ h.line # <<>> /\ h.colon = 0
                 /\ pos' = h.lf /\ Fatal("bad-header")
                 /\ UNCHANGED <<ms, defect, stream, rstart, length>>
\* case "Content-Length": value parses and is positive
HdrContentLength(h) == /\ h.lf # 0 /\ h.colon # 0 /\ h.name = S_CL /\ h.len.ok
                       /\ length' = h.len.n /\ pos' = h.lf
                       /\ UNCHANGED <<ms, defect, stream, rstart, reads, pc>>
\* "failed parsing Content-Length" / "invalid Content-Length"
HdrBadLength(h) == /\ h.lf # 0 /\ h.colon # 0 /\ h.name = S_CL /\ ~h.len.ok
                   /\ pos' = h.lf /\ FatalInHeader("bad-length")
                   /\ UNCHANGED <<ms, defect, stream, rstart, length>>
\* default: ignoring unknown headers
HdrUnknown(h) == /\ h.lf # 0 /\ h.colon # 0 /\ h.name # S_CL
                 /\ pos' = h.lf
                 /\ UNCHANGED <<ms, defect, stream, rstart, length, reads, pc>>
\* io.ReadFull fails: io.EOF if nothing was left, io.ErrUnexpectedEOF otherwise
BodyShort == /\ pc = "body" /\ Len(stream) - pos < length
             /\ pos' = Len(stream)
             /\ Fatal(IF Len(stream) = pos THEN "body-eof0" ELSE "body-short")
             /\ UNCHANGED <<ms, defect, stream, rstart, length>>
\* io.ReadFull succeeds; DecodeMessage decides.  A decode error does not end the stream:
\* exactly `length` bytes were consumed, the next Read starts at the next frame.
BodyRead == /\ pc = "body" /\ Len(stream) - pos >= length
            /\ LET r == ParseBody(SubSeq(stream, pos + 1, pos + length)) IN
                 reads' = Append(reads, Rd(r.t, r.m, r.c, FALSE, pos + length, pos + length))
            /\ pos' = pos + length /\ rstart' = pos + length /\ length' = 0 /\ pc' = "hdr"
            /\ UNCHANGED <<ms, defect, stream>>

HdrStep == /\ pc = "hdr"
           /\ \E h \in {HdrView} :
                 \/ HdrCleanEOF(h) \/ HdrEOF(h) \/ HdrBlank(h) \/ HdrMissingLength(h) \/ HdrNoColon(h)
                 \/ HdrContentLength(h) \/ HdrBadLength(h) \/ HdrUnknown(h)
Next == HdrStep \/ BodyShort \/ BodyRead
Spec == Init /\ [][Next]_vars /\ WF_vars(Next)

-----------------------------------------------------------------------------
\* Theorems on the model
Done == pc = "done"
MsgRead(i) == /\ i <= Len(reads) /\ reads[i].t = "msg" /\ reads[i].mi = i
FrameEnds == [i \in 0..Len(ms) |-> Len(WriteAll(SubSeq(ms, 1, i)))]

TypeOK == /\ pos \in 0..Len(stream) /\ rstart \in 0..pos /\ length >= 0
          /\ pc \in {"hdr", "body", "done"}
\* the reader never consumes past the end of the content it was told about
NoOverread == \A i \in 1..Len(reads) : reads[i].pos <= reads[i].limit
\* ReadAll(WriteAll(ms)) = ms, then a clean EOF
RoundTrip == (Done /\ defect.c = "none") =>
   /\ Len(reads) = Len(ms) + 1 /\ \A i \in 1..Len(ms) : MsgRead(i)
   /\ reads[Len(reads)].t = "eof" /\ pos = Len(stream)
\* truncation at offset n: exactly the frames that fit are read; clean EOF iff n is a frame boundary
Truncation == (Done /\ defect.c = "trunc") =>
   LET whole == {i \in 0..Len(ms) : FrameEnds[i] <= defect.n}
       nw    == CHOOSE i \in whole : \A j \in whole : j <= i
   IN /\ Len(reads) = nw + 1 /\ \A i \in 1..nw : MsgRead(i)
      /\ reads[nw + 1].t = (IF FrameEnds[nw] = defect.n THEN "eof" ELSE "err")
\* one damaged frame k: the frames before it are read unharmed ...
PrefixIntact == (Done /\ defect.k > 0) => \A i \in 1..(defect.k - 1) : MsgRead(i)
\* ... a frame the property calls malformed yields an error ...
MalformedErrs == (Done /\ defect.c \in MustErr) => reads[defect.k].t = "err"
\* ... and if the damage respects the framing, every later frame is read unharmed
LaterIntact == (Done /\ defect.c \in Aligned) =>
   /\ Len(reads) = Len(ms) + 1 /\ reads[Len(reads)].t = "eof"
   /\ \A i \in 1..Len(ms) : i # defect.k => MsgRead(i)
\* today's tolerance (not pinned by the property; recorded so that drift is visible)
Tolerance == (Done /\ defect.c \in HdrTolerant) => MsgRead(defect.k)
Strictness == (Done /\ defect.c \in HdrStrict) => reads[defect.k].t = "err"
Terminates == <>Done

\* which oracle applies to read i: "rt" round trip (alarm), "eof" clean end (alarm), "err" an error
\* is required (alarm), "free" not pinned by the property (drift only)
Pin(i) == LET r == reads[i] IN
  CASE defect.c = "none"  -> IF r.t = "eof" THEN "eof" ELSE "rt"
    [] defect.c = "trunc" -> IF r.t = "eof" THEN "eof" ELSE IF r.t = "err" THEN "err" ELSE "rt"
    [] OTHER -> IF i < defect.k THEN "rt"
                ELSE IF i = defect.k THEN (IF defect.c \in MustErr THEN "err" ELSE "free")
                ELSE IF defect.c \in Aligned THEN (IF r.t = "eof" THEN "eof" ELSE "rt") ELSE "free"

RdOut(i) == LET r == reads[i]
                b == [t |-> r.t, mi |-> r.mi, c |-> r.c, fatal |-> r.fatal, pos |-> r.pos,
                      limit |-> r.limit, pin |-> Pin(i)]
            IN IF r.t = "msg" /\ r.mi = 0
               THEN [t |-> r.t, mi |-> r.mi, c |-> r.c, fatal |-> r.fatal, pos |-> r.pos,
                     limit |-> r.limit, pin |-> Pin(i), m |-> r.m]
               ELSE b
Export == Done => Emit([ms |-> ms, d |-> defect, stream |-> stream,
                        reads |-> [i \in 1..Len(reads) |-> RdOut(i)]])
=============================================================================
