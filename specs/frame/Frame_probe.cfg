SPECIFICATION Spec
CONSTANTS
  MaxLen = 1
  Pool = "probe"
  Classes = {"none"}
INVARIANTS TypeOK NoOverread RoundTrip Truncation PrefixIntact MalformedErrs LaterIntact Tolerance Strictness Export
PROPERTY Terminates
