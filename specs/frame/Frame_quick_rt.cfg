SPECIFICATION Spec
CONSTANTS
  MaxLen = 2
  Pool = "mid"
  Classes = {"none"}
INVARIANTS TypeOK NoOverread RoundTrip Truncation PrefixIntact MalformedErrs LaterIntact Tolerance Strictness Export
PROPERTY Terminates
