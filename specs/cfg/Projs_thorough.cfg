SPECIFICATION Spec
CONSTANTS
  MaxLen = 4
  Pool = "full"
INVARIANTS Concatenates MaximalRuns MixedIff Prefix Export
