------------------------------ MODULE ParseDir ------------------------------
(* C34 -- parser/parser_gop.go: ParseFSDir / ParseFSEntry / defaultClassKind. *)
(*                                                                           *)
(* A directory is a listing of entries; an entry is a name (prefix + extension*)
(* part, the harness concatenates them), a kind (sub-directory, or a file     *)
(* with package clause main / foo / none).  The configuration is the          *)
(* class-kind function (one of seven representatives), the mode (0 or         *)
(* ParseGoAsGoPlus) and the filter (nil or "reject entry j").                 *)
(* ParseFSDir is modelled as what it is: a fold over the listing, one action  *)
(* per way the loop body can end for an entry.  The property is stated        *)
(* declaratively (Included / Flags / PkgOf) and TLC checks that the fold      *)
(* computes exactly that, for every directory in the bound.                   *)
EXTENDS Naturals, Sequences, FiniteSets, TLC, VerifIO, SequencesExt

CONSTANTS MaxEntries,  \* entries per directory
          Pres,        \* name prefixes used:   subset of AllPres
          Exts,        \* extension parts used: subset of AllExts
          CKs,         \* class-kind functions used: subset of AllCKs
          Modes,       \* subset of {"plain", "goasxgo"}
          Filters      \* "nil": no filter only | "each": nil and reject-entry-j for every j

AllExts == {".xgo", ".gop", ".go", ".gox", ".spx", ".gmx", ".gsh", ".txt", "_yap.gox"}
AllCKs  == {"default", "none", "gox", "yap", "txtproj", "txtwork", "projnotok"}
ASSUME Exts \subseteq AllExts /\ CKs \subseteq AllCKs /\ Modes \subseteq {"plain", "goasxgo"}
\* every form of a generated name: the bare prefix, a suffix after "_" (tool.GenGoFiles writes
\* gop_autogen_<file>.go), a suffix glued to the prefix, a _test suffix
AutogenPres == {"gop_autogen", "gop_autogen_x", "gop_autogenx", "gop_autogen_x_test"}
AllPres == {"a", "_a", "main"} \cup AutogenPres
ASSUME Pres \subseteq AllPres

\* path.Ext of the rendered name
Ext(e) == IF e.ext = "_yap.gox" THEN ".gox" ELSE e.ext
Underscore(e) == e.pre = "_a"                 \* strings.HasPrefix(fname, "_")
Autogen(e)    == e.pre \in AutogenPres       \* strings.HasPrefix(fname, "gop_autogen")
IsDir(e)      == e.kind = "dir"
\* package name the parser reports: explicit clause, or "main" when there is none
PkgOf(e)      == IF e.kind = "impl" THEN "main" ELSE e.kind

\* The class-kind function: <<isProj, ok>>.
\*   default   conf.ClassKind = nil -> defaultClassKind: .spx (project iff main.spx), .gsh/.gmx projects
\*   none      recognises nothing
\*   gox       claims every .gox file as a work class
\*   yap       claims *_yap.gox; main_yap.gox is the project
\*   txtproj   claims .txt as project class;  txtwork claims .txt as work class
\*   projnotok answers (true, false) for everything (ill-behaved: isProj without ok)
CK(ck, e) ==
  CASE ck = "default" -> IF Ext(e) = ".spx" THEN <<e.pre = "main", TRUE>>
                         ELSE IF Ext(e) \in {".gsh", ".gmx"} THEN <<TRUE, TRUE>> ELSE <<FALSE, FALSE>>
    [] ck = "none"    -> <<FALSE, FALSE>>
    [] ck = "gox"     -> IF Ext(e) = ".gox" THEN <<FALSE, TRUE>> ELSE <<FALSE, FALSE>>
    [] ck = "yap"     -> IF e.ext = "_yap.gox" THEN <<e.pre = "main", TRUE>> ELSE <<FALSE, FALSE>>
    [] ck = "txtproj" -> IF e.ext = ".txt" THEN <<TRUE, TRUE>> ELSE <<FALSE, FALSE>>
    [] ck = "txtwork" -> IF e.ext = ".txt" THEN <<FALSE, TRUE>> ELSE <<FALSE, FALSE>>
    [] ck = "projnotok" -> <<TRUE, FALSE>>

-----------------------------------------------------------------------------
\* The property, declaratively.
Plain(e)      == Ext(e) \in {".xgo", ".gop", ".go"}
Recognised(c, e) == Plain(e) \/ Ext(e) = ".gox" \/ CK(c, e)[2]
IsClass(c, e)     == ~Plain(e) /\ (Ext(e) = ".gox" \/ CK(c, e)[2])
IsNormalGox(c, e) == Ext(e) = ".gox" /\ ~CK(c, e)[2]
IsProj(c, e)      == ~Plain(e) /\ CK(c, e)[1]      \* pinned by the statement only when CK says ok
GoParsed(m, e)    == Ext(e) = ".go" /\ m = "plain" \* lands in GoFiles, otherwise in Files

VARIABLES dir,    \* listing: sequence of [pre, ext, kind]
          ck, mode,
          filt,   \* 0: nil filter; j > 0: the filter rejects entry j
          i,      \* loop index of ParseFSDir
          out,    \* included files: set of [idx, pkg, gofile, proj, class, ngox]
          pc
vars == <<dir, ck, mode, filt, i, out, pc>>

Included(j) == LET e == dir[j] IN
  /\ ~IsDir(e) /\ ~Underscore(e) /\ Recognised(ck, e)
  /\ ~(Ext(e) = ".go" /\ Autogen(e))
  /\ filt # j

NameSeq == SetToSeq(Pres \X Exts)
N == Len(NameSeq)
IdxSeqs ==      {<<>>}
           \cup {<<a>> : a \in 1..N}
           \cup (IF MaxEntries >= 2 THEN {<<a, b>> : a \in 1..N, b \in 1..N} ELSE {})
           \cup (IF MaxEntries >= 3 THEN {<<a, b, c>> : a \in 1..N, b \in 1..N, c \in 1..N} ELSE {})
Increasing(s) == \A k \in 1..(Len(s) - 1) : s[k] < s[k + 1]
KindsFor(n) == IF n[2] = ".go" THEN {"dir", "main", "foo"} ELSE {"dir", "main", "foo", "impl"}
RECURSIVE Build(_)
Build(s) == IF s = <<>> THEN {<<>>}
            ELSE LET n == NameSeq[s[1]] IN
                 {<<[pre |-> n[1], ext |-> n[2], kind |-> k]>> \o rest : k \in KindsFor(n), rest \in Build(Tail(s))}

Init == \E s \in {t \in IdxSeqs : Increasing(t)} : \E d \in Build(s) :
          /\ dir = d /\ ck \in CKs /\ mode \in Modes
          /\ filt \in (IF Filters = "nil" THEN {0} ELSE 0..Len(d))
          /\ i = 1 /\ out = {} /\ pc = "loop"

Cur == dir[i]
Step == i' = i + 1 /\ UNCHANGED <<dir, ck, mode, filt, pc>>
\* the tail of the loop body: `!HasPrefix(fname, "_") && (Filter == nil || filter(d, Filter))`
Gate(rec) == out' = IF Underscore(Cur) \/ filt = i THEN out ELSE out \cup {rec}
Rec(gofile, proj, class, ngox) ==
  [idx |-> i, pkg |-> PkgOf(Cur), gofile |-> gofile, proj |-> proj, class |-> class, ngox |-> ngox]

\* parser_gop.go ParseFSDir: `if d.IsDir() { continue }`
SkipDir == pc = "loop" /\ i <= Len(dir) /\ IsDir(Cur) /\ out' = out /\ Step
\* case ".xgo", ".gop"
XGoFile == /\ pc = "loop" /\ i <= Len(dir) /\ ~IsDir(Cur) /\ Ext(Cur) \in {".xgo", ".gop"}
           /\ Gate(Rec(FALSE, FALSE, FALSE, FALSE)) /\ Step
\* case ".go": gop_autogen* is skipped
SkipAutogen == /\ pc = "loop" /\ i <= Len(dir) /\ ~IsDir(Cur) /\ Ext(Cur) = ".go" /\ Autogen(Cur)
               /\ out' = out /\ Step
\* case ".go": useGoParser = (Mode & ParseGoAsGoPlus) == 0
GoFile == /\ pc = "loop" /\ i <= Len(dir) /\ ~IsDir(Cur) /\ Ext(Cur) = ".go" /\ ~Autogen(Cur)
          /\ Gate(Rec(mode = "plain", FALSE, FALSE, FALSE)) /\ Step
\* case ".gox" (falls through to default) / default, ClassKind says ok: a class file
ClassFile == /\ pc = "loop" /\ i <= Len(dir) /\ ~IsDir(Cur) /\ ~Plain(Cur) /\ CK(ck, Cur)[2]
             /\ Gate(Rec(FALSE, CK(ck, Cur)[1], TRUE, FALSE)) /\ Step
\* case ".gox", ClassKind says no: a normal .gox file (isProj is whatever ClassKind answered)
NormalGox == /\ pc = "loop" /\ i <= Len(dir) /\ ~IsDir(Cur) /\ Ext(Cur) = ".gox" /\ ~CK(ck, Cur)[2]
             /\ Gate(Rec(FALSE, CK(ck, Cur)[1], TRUE, TRUE)) /\ Step
\* default, ClassKind says no: unknown file kind
SkipUnknown == /\ pc = "loop" /\ i <= Len(dir) /\ ~IsDir(Cur) /\ ~Plain(Cur) /\ Ext(Cur) # ".gox"
               /\ ~CK(ck, Cur)[2] /\ out' = out /\ Step
Finish == pc = "loop" /\ i > Len(dir) /\ pc' = "done" /\ UNCHANGED <<dir, ck, mode, filt, i, out>>
Next == SkipDir \/ XGoFile \/ SkipAutogen \/ GoFile \/ ClassFile \/ NormalGox \/ SkipUnknown \/ Finish
Spec == Init /\ [][Next]_vars /\ WF_vars(Next)

-----------------------------------------------------------------------------
\* Theorems: the fold computes the declarative statement.
Done == pc = "done"
SelectsExactly == Done => {r.idx : r \in out} = {j \in 1..Len(dir) : Included(j)}
OncePerFile    == Done => \A r1, r2 \in out : r1.idx = r2.idx => r1 = r2
FlagsRight     == Done => \A r \in out : LET e == dir[r.idx] IN
                    /\ r.class = IsClass(ck, e) /\ r.ngox = IsNormalGox(ck, e)
                    /\ r.proj = IsProj(ck, e) /\ r.gofile = GoParsed(mode, e)
                    /\ (r.ngox => r.class) /\ (r.gofile => ~r.class)
GroupedByPkg   == Done => \A r \in out : r.pkg = PkgOf(dir[r.idx])
\* inductive form: after i-1 entries exactly the included ones among them are in out
Prefix         == {r.idx : r \in out} = {j \in 1..(i - 1) : j <= Len(dir) /\ Included(j)}
Terminates     == <>Done

\* ParseFSEntry on one file: no underscore / autogen / filter rule, .go always by the XGo parser
EntryOf(e) == IF IsDir(e) THEN [ok |-> FALSE, proj |-> FALSE, class |-> FALSE, ngox |-> FALSE, dir |-> TRUE]
              ELSE [ok |-> Recognised(ck, e), proj |-> IsProj(ck, e) /\ Recognised(ck, e),
                    class |-> IsClass(ck, e), ngox |-> IsNormalGox(ck, e), dir |-> FALSE]

Export == Done => Emit([dir |-> dir, ck |-> ck, mode |-> mode, filt |-> filt,
                        out |-> SetToSeq(out),
                        ckok |-> [j \in 1..Len(dir) |-> CK(ck, dir[j])[2]],
                        entry |-> [j \in 1..Len(dir) |-> EntryOf(dir[j])]])
=============================================================================
