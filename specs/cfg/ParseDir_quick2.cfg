SPECIFICATION Spec
CONSTANTS
  MaxEntries = 2
  Pres = {"a", "main", "gop_autogen_x"}
  Exts = {".xgo", ".go", ".gox", ".spx", "_yap.gox", ".txt"}
  CKs = {"default", "yap", "txtproj"}
  Modes = {"plain", "goasxgo"}
  Filters = "each"
INVARIANTS SelectsExactly OncePerFile FlagsRight GroupedByPkg Prefix Export
PROPERTY Terminates
