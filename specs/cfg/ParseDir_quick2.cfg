SPECIFICATION Spec
CONSTANTS
  MaxEntries = 2
  Pres = {"a", "main"}
  Exts = {".xgo", ".go", ".gox", ".spx", "_yap.gox", ".txt"}
  CKs = {"default", "yap", "txtproj"}
  Modes = {"plain", "goasxgo"}
  Filters = "each"
INVARIANTS SelectsExactly OncePerFile FlagsRight GroupedByPkg Prefix Export
PROPERTY Terminates
