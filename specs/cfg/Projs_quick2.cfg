SPECIFICATION Spec
CONSTANTS
  MaxLen = 3
  Pool = "full"
INVARIANTS Concatenates MaximalRuns MixedIff Prefix Export
PROPERTY Terminates
