SPECIFICATION Spec
CONSTANTS
  MaxEntries = 1
  Pres = {"a", "_a", "gop_autogen", "gop_autogen_x", "gop_autogenx", "gop_autogen_x_test", "main"}
  Exts = {".xgo", ".gop", ".go", ".gox", ".spx", ".gmx", ".gsh", ".txt", "_yap.gox"}
  CKs = {"default", "none", "gox", "yap", "txtproj", "txtwork", "projnotok"}
  Modes = {"plain", "goasxgo"}
  Filters = "each"
INVARIANTS SelectsExactly OncePerFile FlagsRight GroupedByPkg Prefix Export
PROPERTY Terminates
