------------------------------- MODULE Projs -------------------------------
(* C35 -- x/xgoprojs: ParseOne / ParseAll.                                   *)
(*                                                                           *)
(* Text is a sequence of one-character strings.  The model classifies an     *)
(* argument the way the documentation of the package does: a *file* argument *)
(* has a file-name extension (filepath.Ext longer than the bare dot), a      *)
(* *local directory* starts with "/", "\", "." or a drive letter, anything   *)
(* else is a package path.  ParseAll is the fold of ParseOne over the list.  *)
(* One action per call of ParseOne (proj.go: ParseAll's loop body).          *)
EXTENDS Naturals, Sequences, FiniteSets, TLC, VerifIO

CONSTANTS MaxLen,      \* longest argument list enumerated
          Pool         \* "small" | "full" : which representative arguments are used

C(s) == s   \* readability: C(<<"a",".","g","o">>)

SmallPool == {
  <<"a", ".", "g", "o">>,            \* file
  <<"d", "/", "b", ".", "g", "o", "x">>,  \* file in dir
  <<".">>,                           \* local dir (Ext "." has length 1: not a file)
  <<".", "/", "d">>,                 \* local dir
  <<"f", "m", "t">>,                 \* package path
  <<"x", ".", "y", "/", "z">>,       \* package path: the dot is not in the last element
  <<"a", ".">>,                      \* trailing dot: Ext = "." -> not a file -> pkg path
  <<>>                               \* empty argument
}
FullPool == SmallPool \cup {
  <<".", "h">>,                      \* hidden name: Ext=".h" -> file
  <<".", ".">>,                      \* ".." : Ext="." -> local
  <<"/", "a", "b", "s">>,            \* absolute dir
  <<"C", ":", "\\", "x">>,           \* drive letter
  <<"\\", "\\", "x">>,               \* UNC
  <<"a", "@", "v", "1">>,            \* pkg@version
  <<"a", "@", "v", "1", ".", "2">>,  \* pkg@v1.2 : Ext=".2" -> file (by the rule)
  <<"1", ":", "x">>,                 \* digit + colon: not a drive letter -> pkg
  <<"g", ".", "c", "/", "a", "/", "b">> \* host-like pkg path
}
Args == IF Pool = "small" THEN SmallPool ELSE FullPool

Max(S) == CHOOSE m \in S : \A k \in S : k <= m

\* path/filepath.Ext on a "/"-separated path
Ext(s) == LET dots == { i \in 1..Len(s) : s[i] = "." /\ \A j \in i..Len(s) : s[j] # "/" }
          IN  IF dots = {} THEN <<>> ELSE SubSeq(s, Max(dots), Len(s))
IsFile(s)  == Len(Ext(s)) > 1
Letter(c)  == c \in {"a","b","c","d","e","f","g","h","x","y","z","A","B","C","D","E","F","X","Y","Z"}
IsLocal(s) == /\ Len(s) > 0
              /\ \/ s[1] \in {"/", "\\", "."}
                 \/ (Len(s) >= 2 /\ s[2] = ":" /\ Letter(s[1]))
Kind(s) == IF IsFile(s) THEN "files" ELSE IF IsLocal(s) THEN "dir" ELSE "pkg"

VARIABLES input, rest, projs, hasF, hasNF, pc, mixed
vars == <<input, rest, projs, hasF, hasNF, pc, mixed>>

Lists == UNION { [1..n -> Args] : n \in 0..MaxLen }

Init == /\ input \in Lists
        /\ rest = input /\ projs = <<>> /\ hasF = FALSE /\ hasNF = FALSE
        /\ pc = "run" /\ mixed = FALSE

\* number of leading file arguments of s
RunLen(s) == IF s = <<>> \/ ~IsFile(s[1]) THEN 0
             ELSE LET ends == { n \in 1..Len(s) : \A i \in 1..n : IsFile(s[i]) } IN Max(ends)

\* proj.go ParseOne: one project and the remaining arguments
ParseOneFiles == /\ pc = "run" /\ rest # <<>> /\ IsFile(rest[1])
                 /\ LET n == RunLen(rest) IN
                      /\ projs' = Append(projs, [k |-> "files", a |-> SubSeq(rest, 1, n)])
                      /\ rest' = SubSeq(rest, n + 1, Len(rest))
                 /\ hasF' = TRUE /\ UNCHANGED <<input, hasNF, pc, mixed>>
ParseOneOther == /\ pc = "run" /\ rest # <<>> /\ ~IsFile(rest[1])
                 /\ projs' = Append(projs, [k |-> Kind(rest[1]), a |-> <<rest[1]>>])
                 /\ rest' = Tail(rest)
                 /\ hasNF' = TRUE /\ UNCHANGED <<input, hasF, pc, mixed>>
\* ParseOne returns ENOENT on the empty list: ParseAll stops and decides about the mixed error
Stop == /\ pc = "run" /\ rest = <<>>
        /\ pc' = "done" /\ mixed' = (hasF /\ hasNF)
        /\ UNCHANGED <<input, rest, projs, hasF, hasNF>>
Next == ParseOneFiles \/ ParseOneOther \/ Stop
Spec == Init /\ [][Next]_vars /\ WF_vars(Next)

-----------------------------------------------------------------------------
\* The property, stated on the model.
RECURSIVE Flatten(_)
Flatten(ps) == IF ps = <<>> THEN <<>> ELSE ps[1].a \o Flatten(Tail(ps))

Concatenates == pc = "done" => Flatten(projs) = input
MaximalRuns  == pc = "done" =>
   /\ \A i \in 1..Len(projs) :
        IF projs[i].k = "files" THEN \A j \in 1..Len(projs[i].a) : IsFile(projs[i].a[j])
        ELSE Len(projs[i].a) = 1 /\ ~IsFile(projs[i].a[1])
   /\ \A i \in 1..(Len(projs) - 1) : ~(projs[i].k = "files" /\ projs[i+1].k = "files")
MixedIff == pc = "done" =>
   (mixed <=> ((\E i \in 1..Len(input) : IsFile(input[i])) /\ (\E i \in 1..Len(input) : ~IsFile(input[i]))))
Prefix == Flatten(projs) \o rest = input            \* inductive form of Concatenates
Terminates == <>(pc = "done")

Export == pc = "done" => Emit([args |-> input, projs |-> projs, mixed |-> mixed])
=============================================================================
