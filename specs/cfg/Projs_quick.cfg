SPECIFICATION Spec
CONSTANTS
  MaxLen = 4
  Pool = "small"
INVARIANTS Concatenates MaximalRuns MixedIff Prefix Export
PROPERTY Terminates
