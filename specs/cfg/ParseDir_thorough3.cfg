SPECIFICATION Spec
CONSTANTS
  MaxEntries = 3
  Pres = {"a", "main"}
  Exts = {".xgo", ".go", ".gox", ".spx"}
  CKs = {"default", "gox", "none"}
  Modes = {"plain", "goasxgo"}
  Filters = "each"
INVARIANTS SelectsExactly OncePerFile FlagsRight GroupedByPkg Prefix Export
PROPERTY Terminates
