SPECIFICATION Spec
CONSTANTS
  Focus = "expr-sim"
  Families = {"leaf","arith","cmp","logic","unary","paren","call","sel","index","slice","assert","complit","funclit","conv","ctx"}
  Budget = 4
  LayoutMoves = 0
  LayoutKinds = {}
  Wrap = "stmts"
  CheckInjective = FALSE
INVARIANTS SyncHoles WithinBudget ExportedComplete Export
PROPERTY LayoutStutters
