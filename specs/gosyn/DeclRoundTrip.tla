--------------------------- MODULE DeclRoundTrip ---------------------------
(* C37 -- Go/XGo declaration trees convert without loss.                                          *)
(*                                                                                                *)
(* The abstract object is the HEADER of the declarations of a file: the model tree of GoSyntax    *)
(* (declaration foci c and d) with every function body emptied.  The two converters are modelled  *)
(* as maps over that tree driven by the table of node kinds each one handles, written down from   *)
(* reading ast/fromgo/gopast.go (gopExpr, gopFuncType, gopField, gopTypeSpec, gopValueSpec) and    *)
(* ast/togo/goast.go (goExpr, goFuncType, goField, goTypeSpec, goValueSpec):                       *)
(*   - a kind outside a converter's table makes it panic (log.Panicln "unknown expr");            *)
(*   - a field a converter does not copy is lost (replaced by nil).                               *)
(* The property is a refinement: FromGo and ToGo are STUTTERING steps on the abstract object.     *)
(* Deliberate deviations of today's code are named switches (constants), so that the faithful     *)
(* model predicts, case by case, what the real converters do; the strict theorem (Lossless) is    *)
(* checked by TLC with the switches in the repaired position.                                     *)
EXTENDS GoSyntax

CONSTANTS TogoCopiesTypeParams,   \* FALSE: goast.go goFuncType / goTypeSpec do not copy TypeParams (today)
          TogoHandlesIndexList,   \* FALSE: goast.go goExpr has no case for *IndexListExpr (today)
          NilForNoNames           \* FALSE: gopIdents / goIdents return make([]*Ident, 0), not nil, for an unnamed field (today)

VARIABLES stage,   \* "syntax" | "go" | "xgo" | "back" | "panic"
          obj,     \* the abstract declaration list as the current representation holds it
          why      \* outcome detail: "" | "fromgo:<Kind>" | "togo:<Kind>"
rvars == <<stage, obj, why>>

ExprKinds == {"Ident", "SelectorExpr", "SliceExpr", "StarExpr", "MapType", "StructType", "FuncType", "InterfaceType",
              "ArrayType", "ChanType", "BasicLit", "BinaryExpr", "UnaryExpr", "CallExpr", "IndexExpr", "IndexListExpr",
              "ParenExpr", "CompositeLit", "FuncLit", "TypeAssertExpr", "KeyValueExpr", "Ellipsis"}
DeclKinds == {"GenDecl", "FuncDecl", "ValueSpec", "TypeSpec", "ImportSpec", "Field", "FieldList", "BlockStmt"}
StmtKinds == {"ExprStmt", "ReturnStmt", "AssignStmt", "IfStmt", "DeclStmt"}
\* gopast.go gopExpr: the switch has a case for each of these (typeparams.IndexListExpr = ast.IndexListExpr from go1.18)
FromGoKinds == ExprKinds \cup DeclKinds
\* goast.go goExpr: the same switch without *IndexListExpr
ToGoKinds == (IF TogoHandlesIndexList THEN ExprKinds ELSE ExprKinds \ {"IndexListExpr"}) \cup DeclKinds
AllKinds == ExprKinds \cup DeclKinds \cup StmtKinds
Open(k) == "(" \o k
Openers == {Open(k) : k \in AllKinds}
KindOfOpener == TLCEval([opn \in Openers |-> CHOOSE k \in AllKinds : Open(k) = opn])
KindsIn(seq) == {KindOfOpener[seq[i]] : i \in {j \in 1..Len(seq) : seq[j] \in Openers}}

\* index of the ")" closing the node opened at i
RECURSIVE MatchFrom(_, _, _)
MatchFrom(seq, j, d) ==
  LET d2 == IF seq[j] \in Openers THEN d + 1 ELSE IF seq[j] = ")" THEN d - 1 ELSE d
  IN IF d2 = 0 THEN j ELSE MatchFrom(seq, j + 1, d2)
EndOf(seq, i) == IF seq[i] \in Openers THEN MatchFrom(seq, i, 0) ELSE i    \* atoms ("nil") end where they start

\* every function body becomes the empty block: both converters build `Body: &BlockStmt{}`
RECURSIVE HeaderFrom(_, _)
HeaderFrom(seq, i) ==
  IF i > Len(seq) THEN <<>>
  ELSE IF seq[i] = "(BlockStmt" THEN <<"(BlockStmt", "[", "]", ")">> \o HeaderFrom(seq, EndOf(seq, i) + 1)
  ELSE <<seq[i]>> \o HeaderFrom(seq, i + 1)
Header(seq) == HeaderFrom(seq, 1)

\* goFuncType / goTypeSpec: the TypeParams child (first child of FuncType, child after the name of TypeSpec) is not copied
RECURSIVE DropTP(_, _)
DropTP(seq, i) ==
  IF i > Len(seq) THEN <<>>
  ELSE IF seq[i] = "(FuncType" THEN <<"(FuncType", "nil">> \o DropTP(seq, EndOf(seq, i + 1) + 1)
  ELSE IF seq[i] = "(TypeSpec" THEN <<"(TypeSpec", seq[i + 1], seq[i + 2], seq[i + 3], "nil">> \o DropTP(seq, EndOf(seq, i + 4) + 1)
  ELSE <<seq[i]>> \o DropTP(seq, i + 1)
\* gopIdents / goIdents: an unnamed field gets an EMPTY, non-nil Names slice ("]e" closes such a list).  go/printer
\* looks at `Names == nil` in exactly one place: a single unnamed result is printed without parentheses.
NamesMap(seq) == IF NilForNoNames THEN seq ELSE
   [k \in 1..Len(seq) |-> IF k > 2 /\ seq[k] = "]" /\ seq[k - 1] = "[" /\ seq[k - 2] = "(Field" THEN "]e" ELSE seq[k]]
ToGoMap(seq) == NamesMap(IF TogoCopiesTypeParams THEN seq ELSE DropTP(seq, 1))
\* positions of the "]e" that go/printer shows: the Names of the only field of a Results list
BareResultPos(seq) == {r + 4 : r \in {q \in 1..Len(seq) : \E i \in 1..Len(seq) :
      /\ seq[i] = "(FuncType"
      /\ q = EndOf(seq, EndOf(seq, i + 1) + 1) + 1
      /\ q + 4 <= Len(seq)
      /\ seq[q] = "(FieldList" /\ seq[q + 1] = "[" /\ seq[q + 2] = "(Field" /\ seq[q + 3] = "[" /\ seq[q + 4] = "]e"
      /\ seq[EndOf(seq, q + 2) + 1] = "]"}}
\* the printed header as an abstract object: only the visible "]e" are kept
Printed(seq) == LET vis == BareResultPos(seq) IN
   [k \in 1..Len(seq) |-> IF seq[k] = "]e" /\ k \notin vis THEN "]" ELSE seq[k]]

RInit == Init /\ stage = "syntax" /\ obj = <<>> /\ why = ""
Derive == stage = "syntax" /\ Next /\ UNCHANGED rvars                       \* GoSyntax builds the declarations
Parse  == /\ stage = "syntax" /\ phase = "layout"                            \* go/parser.ParseFile: the abstract object
          /\ stage' = "go" /\ obj' = Header(sx) /\ why' = "" /\ UNCHANGED vars
FromGo == /\ stage = "go"                                                    \* fromgo.ASTFile(f, 0)
          /\ LET bad == KindsIn(obj) \ FromGoKinds IN
             IF bad = {} THEN stage' = "xgo" /\ obj' = NamesMap(obj) /\ why' = ""
             ELSE stage' = "panic" /\ obj' = obj /\ why' = "fromgo:" \o (CHOOSE k \in bad : TRUE)
          /\ UNCHANGED vars
ToGo   == /\ stage = "xgo"                                                   \* togo.ASTFile(f, 0)
          /\ LET bad == KindsIn(obj) \ ToGoKinds IN
             IF bad = {} THEN stage' = "back" /\ obj' = ToGoMap(obj) /\ why' = ""
             ELSE stage' = "panic" /\ obj' = obj /\ why' = "togo:" \o (CHOOSE k \in bad : TRUE)
          /\ UNCHANGED vars
RNext == Derive \/ Parse \/ FromGo \/ ToGo
RSpec == RInit /\ [][RNext]_<<vars, rvars>>

HasTypeParams(seq) == \E i \in 1..Len(seq) :
   \/ (seq[i] = "(FuncType" /\ seq[i + 1] # "nil")
   \/ (seq[i] = "(TypeSpec" /\ seq[i + 4] # "nil")
Abstract == Header(sx)
PredTP == ~TogoCopiesTypeParams /\ HasTypeParams(Abstract)
PredNames == ~NilForNoNames /\ BareResultPos(NamesMap(Abstract)) # {}
PredPanic == ~TogoHandlesIndexList /\ "IndexListExpr" \in KindsIn(Abstract)
\* the refinement, in the strength the switches allow
Lossless == stage = "back" => Printed(obj) = Abstract              \* holds when all switches are TRUE (repaired converters)
NoPanic  == stage # "panic"                                        \*   "
LossExplained == stage = "back" /\ Printed(obj) # Abstract => PredTP \/ PredNames
PanicExplained == stage = "panic" => PredPanic /\ why = "togo:IndexListExpr"
\* the conversions never touch anything but the abstract object: a stuttering step on the syntax state
ConvStutters == [][stage # "syntax" => UNCHANGED vars]_<<vars, rvars>>
\* fromgo copies every header field: up to the Names representation it is the identity
Strip(seq) == [k \in 1..Len(seq) |-> IF seq[k] = "]e" THEN "]" ELSE seq[k]]
FromGoIsIdentity == [][stage = "go" /\ stage' = "xgo" => Strip(obj') = obj]_<<vars, rvars>>

Predict == (IF PredTP THEN <<"lost:TypeParams">> ELSE <<>>) \o (IF PredNames THEN <<"lost:Names">> ELSE <<>>)
           \o (IF PredPanic THEN <<"panic:togo:IndexListExpr">> ELSE <<>>)
RExport == stage \in {"back", "panic"} =>
   Emit([focus |-> FocusTab[foc].label, wrap |-> FocusTab[foc].wrap, sx |-> sx, text |-> lay, moves |-> moves, cost |-> used, predict |-> Predict])
=============================================================================
