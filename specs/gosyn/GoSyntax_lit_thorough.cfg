SPECIFICATION Spec
CONSTANTS
  Focus = "lit"
  Families = {"leaf","ctx","lit","arith","call","cmp","unary","paren"}
  Budget = 2
  LayoutMoves = 0
  LayoutKinds = {}
  Wrap = "stmts"
  CheckInjective = FALSE
INVARIANTS SyncHoles WithinBudget ExportedComplete Export
PROPERTY LayoutStutters
