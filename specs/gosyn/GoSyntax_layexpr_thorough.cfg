SPECIFICATION Spec
CONSTANTS
  Focus = "layout-expr"
  Families = {"leaf","arith","cmp","logic","unary","paren","call","sel","index","slice","assert","complit","ctx"}
  Budget = 2
  LayoutMoves = 1
  LayoutKinds = {"loosen","tighten","break","comment"}
  Wrap = "stmts"
  CheckInjective = FALSE
INVARIANTS SyncHoles WithinBudget ExportedComplete Export
PROPERTY LayoutStutters
