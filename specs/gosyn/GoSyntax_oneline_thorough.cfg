SPECIFICATION Spec
CONSTANTS
  Focus = "layout-oneline"
  Families = {"leaf","top","stmt","assign","incdec","define","if","for","range","switch","typeswitch","select","label","defergo","return","block","declstmt","send","exprstmt","branch","seq"}
  Budget = 2
  LayoutMoves = 1
  LayoutKinds = {"oneline"}
  Wrap = "stmts"
  CheckInjective = FALSE
INVARIANTS SyncHoles WithinBudget ExportedComplete Export
PROPERTY LayoutStutters
