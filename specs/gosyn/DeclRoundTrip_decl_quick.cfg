SPECIFICATION RSpec
CONSTANTS
  Focus = "decl"
  Families = {"leaf","topd","func","method","typedecl","constdecl","vardecl","type","funclit","complit"}
  Budget = 2
  LayoutMoves = 0
  LayoutKinds = {}
  Wrap = "decls"
  CheckInjective = FALSE
  TogoCopiesTypeParams = @@TP@@
  TogoHandlesIndexList = @@IL@@
  NilForNoNames = @@NN@@
INVARIANTS SyncHoles WithinBudget ExportedComplete LossExplained PanicExplained RExport
PROPERTIES ConvStutters FromGoIsIdentity
