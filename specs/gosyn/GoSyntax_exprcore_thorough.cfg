SPECIFICATION Spec
CONSTANTS
  Focus = "expr-core"
  Families = {"leaf","arith","cmp","logic","unary","paren","ctx"}
  Budget = 3
  LayoutMoves = 0
  LayoutKinds = {}
  Wrap = "stmts"
  CheckInjective = FALSE
INVARIANTS SyncHoles WithinBudget ExportedComplete Export
PROPERTY LayoutStutters
