SPECIFICATION Spec
CONSTANTS
  Focus = "layout-expr"
  Families = {"leaf","arith","cmp","logic","unary","paren","call","sel","index","slice","assert","complit","funclit","conv","ctx"}
  Budget = 1
  LayoutMoves = 1
  LayoutKinds = {"loosen","tighten","break","comment","linecomment"}
  Wrap = "stmts"
  CheckInjective = TRUE
INVARIANTS SyncHoles WithinBudget ExportedComplete Export
PROPERTY LayoutStutters
