----------------------------- MODULE GoSyntax -----------------------------
(* C14 / C37 -- abstract syntax of a Go subset, every concrete presentation of it within a bound. *)
(*                                                                                                *)
(* A tree is built by a LEFTMOST DERIVATION: the state holds two sentential forms that are        *)
(* rewritten in lock step (a syntax-directed translation scheme):                                 *)
(*   sx  the tree itself, as an s-expression in prefix form  "(Kind" child ... ")"  -- this is    *)
(*       the model's prediction of what go/parser (and the XGo parser) must build; the node and   *)
(*       field vocabulary is the projection schema of harness/cmd/gosynh/sexpr.go;                *)
(*   tk  Tokens(tree): the token sequence with explicit spacing marks.                            *)
(* A hole is a string "$<sort><level>".  Sorts are TYPED (I int, B bool, S string, P *int,       *)
(* L []int, ...) so that every derived file type-checks (domain of C14); levels are Go's          *)
(* operator precedences, which makes the grammar the unambiguous stratified Go grammar.           *)
(* A FOCUS (FocusTab) selects the enabled production families, the size budget, the layout moves   *)
(* and how the fragment is wrapped into a file; Init = a focus of the run and the start symbol;    *)
(* one action per class of production applied to the leftmost hole;                                *)
(* a size budget bounds the derivation; when no hole is left the tree is finished (Finish),       *)
(* the layout phase may re-space it (one named action per kind of layout move), and every         *)
(* finished state is exported as a CASE record.                                                   *)
EXTENDS Naturals, Sequences, FiniteSets, TLC, VerifIO

CONSTANTS Foci,      \* the foci enumerated by this run: names of FocusTab (one TLC run covers several foci: Init picks one)
          InjFoci    \* the foci for which the closure-based unambiguity theorem is evaluated (moderate bounds only)

G  == "><"     \* glue: no blank between the neighbours
CG == "?<"     \* conditional glue after a unary operator, resolved by Resolve when the tree is complete
BL == "<_>"    \* explicit blank
NL == "\n"     \* line break
Marks == {G, CG, BL, NL, "<;>", "<c>", "<gc>", "<lc>"}

-----------------------------------------------------------------------------
(* Holes *)
ExprSorts == {"I","AI","B","S","P","PP","L","M","C","T","PT","LT","X","Fn","F","RC","LV"}
OtherSorts == {"Top","St","Stf","Sts","SL","SLf","SLs","Ty","D","DL","Lit","El"}
Sorts == ExprSorts \cup OtherSorts
H(s, l) == "$" \o s \o ToString(l)
HoleNames == {H(s, l) : s \in Sorts, l \in 0..7}
\* (TLCEval: TLC would otherwise keep the function as a lambda and re-evaluate the body at every application)
HoleInfo == TLCEval([h \in HoleNames |-> CHOOSE p \in Sorts \X (0..7) : H(p[1], p[2]) = h])
IsHole(x) == x \in HoleNames
\* AI (addressable int) and LV (assignable int) are also I; AI is also LV
Sub == {<<"AI","I">>, <<"AI","LV">>, <<"LV","I">>}
Accepts(holeSort, prodSort) == prodSort = holeSort \/ <<prodSort, holeSort>> \in Sub

Prd(fam, sort, lvl, cost, sxs, tks) ==
  [fam |-> fam, sort |-> sort, lvl |-> lvl, cost |-> cost, sx |-> sxs, tk |-> tks]

-----------------------------------------------------------------------------
(* s-expression helpers (schema of sexpr.go) *)
Id(n) == <<"(Ident", n, ")">>
Lit(k, v) == <<"(BasicLit", k, v, ")">>
Lst(xs) == <<"[">> \o xs \o <<"]">>
Fld(names, typ) == <<"(Field">> \o Lst(names) \o typ \o <<"nil", ")">>
FldT(names, typ, tag) == <<"(Field">> \o Lst(names) \o typ \o tag \o <<")">>
FL(fields) == <<"(FieldList">> \o Lst(fields) \o <<")">>
FT(params, results) == <<"(FuncType", "nil">> \o params \o results \o <<")">>
Blk(stmts) == <<"(BlockStmt">> \o Lst(stmts) \o <<")">>
CallX(fun, args) == <<"(CallExpr">> \o fun \o Lst(args) \o <<")">>
CallV(fun, args) == <<"(CallExpr">> \o fun \o Lst(args) \o <<"...", ")">>
Sel(x, n) == <<"(SelectorExpr">> \o x \o Id(n) \o <<")">>
Star(x) == <<"(StarExpr">> \o x \o <<")">>
Arr(len, elt) == <<"(ArrayType">> \o len \o elt \o <<")">>
Slc(elt) == Arr(<<"nil">>, elt)
MapT(k, v) == <<"(MapType">> \o k \o v \o <<")">>
ChanT(dir, v) == <<"(ChanType", dir>> \o v \o <<")">>
CLit(typ, elts) == <<"(CompositeLit">> \o typ \o Lst(elts) \o <<")">>
KV(k, v) == <<"(KeyValueExpr">> \o k \o v \o <<")">>
Asg(tok, lhs, rhs) == <<"(AssignStmt", tok>> \o Lst(lhs) \o Lst(rhs) \o <<")">>
ExprS(x) == <<"(ExprStmt">> \o x \o <<")">>
Ret(xs) == <<"(ReturnStmt">> \o Lst(xs) \o <<")">>
FuncLitX(typ, body) == <<"(FuncLit">> \o typ \o body \o <<")">>
Paren(x) == <<"(ParenExpr">> \o x \o <<")">>
Idx(x, i) == <<"(IndexExpr">> \o x \o i \o <<")">>
IntT == Id("int")
\* func(z int) int
FTii == FT(FL(Fld(Id("z"), IntT)), FL(Fld(<<>>, IntT)))
tkFTii == <<"func", G, "(", G, "z", "int", G, ")", "int">>

-----------------------------------------------------------------------------
(* Expression productions.  Levels: 1 ||  2 &&  3 comparison  4 additive  5 multiplicative      *)
(* 6 unary  7 primary.                                                                          *)
BinP(fam, op, k, r, s1, s2) ==
  Prd(fam, r, k, 1, <<"(BinaryExpr", op, H(s1, k), H(s2, k + 1), ")">>, <<H(s1, k), op, H(s2, k + 1)>>)
UnP(fam, op, r, s) ==
  Prd(fam, r, 6, 1, <<"(UnaryExpr", op, H(s, 6), ")">>, <<op, CG, H(s, 6)>>)
ParenP(s) ==
  Prd("paren", s, 7, 1, <<"(ParenExpr", H(s, 1), ")">>, <<"(", G, H(s, 1), G, ")">>)
\* a leaf: the identifier is chosen from the position of the hole (placeholder "#<sort>")
LeafP(s) == Prd("leaf", s, 7, 0, <<"(Ident", "#" \o s, ")">>, <<"#" \o s>>)

ExprProds ==
  {LeafP(s) : s \in {"AI","B","S","P","PP","L","M","C","T","PT","LT","X","Fn","F"}}
  \cup {BinP("arith", op, 4, "I", "I", "I") : op \in {"+", "-", "|", "^"}}
  \cup {BinP("arith", op, 5, "I", "I", "I") : op \in {"*", "/", "%", "<<", ">>", "&", "&^"}}
  \cup {BinP("arith", "+", 4, "S", "S", "S")}
  \cup {BinP("cmp", op, 3, "B", "I", "I") : op \in {"==", "!=", "<", "<=", ">", ">="}}
  \cup {BinP("cmp", "==", 3, "B", "P", "P"), BinP("cmp", "!=", 3, "B", "S", "S"), BinP("cmp", "<", 3, "B", "S", "S")}
  \cup {BinP("logic", "&&", 2, "B", "B", "B"), BinP("logic", "||", 1, "B", "B", "B"),
        BinP("logic", "==", 3, "B", "B", "B"), UnP("logic", "!", "B", "B")}
  \cup {UnP("unary", op, "I", "I") : op \in {"+", "-", "^"}}
  \cup {UnP("unary", "<-", "I", "C"), UnP("unary", "&", "P", "AI"), UnP("unary", "&", "PP", "P")}
  \cup {Prd("unary", "AI", 6, 1, Star(<<H("P", 6)>>), <<"*", CG, H("P", 6)>>),
        Prd("unary", "P", 6, 1, Star(<<H("PP", 6)>>), <<"*", CG, H("PP", 6)>>)}
  \cup {ParenP(s) : s \in {"I", "B", "S", "AI", "P"}}
  \* calls
  \cup {Prd("call", "I", 7, 1, CallX(<<H("Fn", 7)>>, <<H("I", 1)>>), <<H("Fn", 7), G, "(", G, H("I", 1), G, ")">>),
        Prd("call", "I", 7, 1, CallX(Id("g"), <<H("I", 1), H("I", 1)>>), <<"g", G, "(", G, H("I", 1), G, ",", H("I", 1), G, ")">>),
        Prd("call", "I", 7, 1, CallX(Id("v"), <<H("I", 1)>>), <<"v", G, "(", G, H("I", 1), G, ")">>),
        Prd("call", "I", 7, 1, CallX(Id("v"), <<H("I", 1), H("I", 1), H("I", 1)>>),
            <<"v", G, "(", G, H("I", 1), G, ",", H("I", 1), G, ",", H("I", 1), G, ")">>),
        Prd("call", "I", 7, 1, CallV(Id("v"), <<H("I", 1), H("L", 1)>>),
            <<"v", G, "(", G, H("I", 1), G, ",", H("L", 1), G, "...", G, ")">>),
        \* a call whose first argument contains statements (the XGo scanner resets its paren count at every `;`) and that spreads its last
        Prd("call", "I", 7, 1,
            CallV(Id("v"), CallX(FuncLitX(FT(FL(<<>>), FL(Fld(<<>>, IntT))), Blk(Asg("=", Id("a"), Lit("INT", "1")) \o Ret(Id("a")))), <<>>) \o <<H("L", 1)>>),
            <<"v", G, "(", G, "func", G, "(", G, ")", "int", "{", NL, "a", "=", "1", NL, "return", "a", NL, "}", G, "(", G, ")", G, ",", H("L", 1), G, "...", G, ")">>),
        Prd("call", "I", 7, 1, CallX(Id("len"), <<H("L", 1)>>), <<"len", G, "(", G, H("L", 1), G, ")">>),
        Prd("call", "L", 7, 1, CallX(Id("append"), <<H("L", 1), H("I", 1)>>),
            <<"append", G, "(", G, H("L", 1), G, ",", H("I", 1), G, ")">>),
        Prd("call", "L", 7, 1, CallV(Id("append"), <<H("L", 1), H("L", 1)>>),
            <<"append", G, "(", G, H("L", 1), G, ",", H("L", 1), G, "...", G, ")">>),
        Prd("call", "I", 7, 1, CallX(Sel(<<H("PT", 7)>>, "M"), <<>>), <<H("PT", 7), G, ".", G, "M", G, "(", G, ")">>),
        Prd("call", "I", 7, 1, CallX(Sel(<<H("T", 7)>>, "M"), <<>>), <<H("T", 7), G, ".", G, "M", G, "(", G, ")">>),
        Prd("call", "I", 7, 1,
            CallX(FuncLitX(FTii, Blk(Ret(Id("z")))), <<H("I", 1)>>),
            tkFTii \o <<"{", "return", "z", "}", G, "(", G, H("I", 1), G, ")">>)}
  \* selectors, index, slices
  \cup {Prd("sel", "AI", 7, 1, Sel(<<H("T", 7)>>, "A"), <<H("T", 7), G, ".", G, "A">>),
        Prd("sel", "AI", 7, 1, Sel(<<H("PT", 7)>>, "B"), <<H("PT", 7), G, ".", G, "B">>),
        Prd("index", "AI", 7, 1, <<"(IndexExpr", H("L", 7), H("I", 1), ")">>, <<H("L", 7), G, "[", G, H("I", 1), G, "]">>),
        Prd("index", "LV", 7, 1, <<"(IndexExpr", H("M", 7), H("S", 1), ")">>, <<H("M", 7), G, "[", G, H("S", 1), G, "]">>),
        Prd("index", "I", 7, 1, Idx(Id("mk"), CLit(Id("T"), <<H("I", 1), H("I", 1)>>)),
            <<"mk", G, "[", G, "T", G, "{", G, H("I", 1), G, ",", H("I", 1), G, "}", G, "]">>),
        Prd("index", "I", 7, 1, Idx(Id("mk"), CLit(Id("T"), KV(Id("A"), <<H("I", 1)>>))),
            <<"mk", G, "[", G, "T", G, "{", G, "A", G, ":", H("I", 1), G, "}", G, "]">>),
        Prd("index", "T", 7, 1, <<"(IndexExpr", H("LT", 7), H("I", 1), ")">>, <<H("LT", 7), G, "[", G, H("I", 1), G, "]">>),
        Prd("slice", "L", 7, 1, <<"(SliceExpr", H("L", 7), H("I", 1), H("I", 1), "nil", ")">>,
            <<H("L", 7), G, "[", G, H("I", 1), G, ":", G, H("I", 1), G, "]">>),
        Prd("slice", "L", 7, 1, <<"(SliceExpr", H("L", 7), H("I", 1), "nil", "nil", ")">>,
            <<H("L", 7), G, "[", G, H("I", 1), G, ":", G, "]">>),
        Prd("slice", "L", 7, 1, <<"(SliceExpr", H("L", 7), "nil", H("I", 1), "nil", ")">>,
            <<H("L", 7), G, "[", G, ":", G, H("I", 1), G, "]">>),
        Prd("slice", "L", 7, 1, <<"(SliceExpr", H("L", 7), "nil", "nil", "nil", ")">>,
            <<H("L", 7), G, "[", G, ":", G, "]">>),
        Prd("slice", "L", 7, 1, <<"(SliceExpr", H("L", 7), H("I", 1), H("I", 1), H("I", 1), "3", ")">>,
            <<H("L", 7), G, "[", G, H("I", 1), G, ":", G, H("I", 1), G, ":", G, H("I", 1), G, "]">>),
        Prd("slice", "L", 7, 1, <<"(SliceExpr", H("L", 7), "nil", H("I", 1), H("I", 1), "3", ")">>,
            <<H("L", 7), G, "[", G, ":", G, H("I", 1), G, ":", G, H("I", 1), G, "]">>),
        Prd("slice", "S", 7, 1, <<"(SliceExpr", H("S", 7), H("I", 1), H("I", 1), "nil", ")">>,
            <<H("S", 7), G, "[", G, H("I", 1), G, ":", G, H("I", 1), G, "]">>)}
  \* type assertions
  \cup {Prd("assert", "I", 7, 1, <<"(TypeAssertExpr", H("X", 7)>> \o IntT \o <<")">>, <<H("X", 7), G, ".", G, "(", G, "int", G, ")">>),
        Prd("assert", "PT", 7, 1, <<"(TypeAssertExpr", H("X", 7)>> \o Star(Id("T")) \o <<")">>,
            <<H("X", 7), G, ".", G, "(", G, "*", G, "T", G, ")">>),
        Prd("assert", "Fn", 7, 1, <<"(TypeAssertExpr", H("X", 7)>> \o FT(FL(Fld(<<>>, IntT)), FL(Fld(<<>>, IntT))) \o <<")">>,
            <<H("X", 7), G, ".", G, "(", G, "func", G, "(", G, "int", G, ")", "int", G, ")">>)}
  \* composite literals
  \cup {Prd("complit", "T", 7, 1, CLit(Id("T"), <<H("I", 1), H("I", 1)>>), <<"T", G, "{", G, H("I", 1), G, ",", H("I", 1), G, "}">>),
        Prd("complit", "T", 7, 1, CLit(Id("T"), KV(Id("A"), <<H("I", 1)>>) \o KV(Id("B"), <<H("I", 1)>>)),
            <<"T", G, "{", G, "A", G, ":", H("I", 1), G, ",", "B", G, ":", H("I", 1), G, "}">>),
        Prd("complit", "T", 7, 1, CLit(Id("T"), <<>>), <<"T", G, "{", G, "}">>),
        Prd("complit", "PT", 6, 1, <<"(UnaryExpr", "&">> \o CLit(Id("T"), KV(Id("A"), <<H("I", 1)>>)) \o <<")">>,
            <<"&", G, "T", G, "{", G, "A", G, ":", H("I", 1), G, "}">>),
        Prd("complit", "L", 7, 1, CLit(Slc(IntT), <<H("I", 1), H("I", 1)>>),
            <<"[", G, "]", G, "int", G, "{", G, H("I", 1), G, ",", H("I", 1), G, "}">>),
        Prd("complit", "L", 7, 1, CLit(Slc(IntT), <<>>), <<"[", G, "]", G, "int", G, "{", G, "}">>),
        Prd("complit", "L", 7, 1, CLit(Slc(IntT), KV(Lit("INT", "0"), <<H("I", 1)>>) \o KV(Lit("INT", "2"), <<H("I", 1)>>)),
            <<"[", G, "]", G, "int", G, "{", G, "0", G, ":", H("I", 1), G, ",", "2", G, ":", H("I", 1), G, "}">>),
        Prd("complit", "I", 7, 1,
            <<"(IndexExpr">> \o CLit(Arr(<<"(Ellipsis", "nil", ")">>, IntT), <<H("I", 1), H("I", 1)>>) \o <<H("I", 1), ")">>,
            <<"[", G, "...", G, "]", G, "int", G, "{", G, H("I", 1), G, ",", H("I", 1), G, "}", G, "[", G, H("I", 1), G, "]">>),
        Prd("complit", "I", 7, 1,
            <<"(IndexExpr">> \o CLit(Arr(Lit("INT", "2"), IntT), <<H("I", 1)>>) \o <<H("I", 1), ")">>,
            <<"[", G, "2", G, "]", G, "int", G, "{", G, H("I", 1), G, "}", G, "[", G, H("I", 1), G, "]">>),
        Prd("complit", "LT", 7, 1,
            CLit(Slc(Id("T")), CLit(<<"nil">>, <<H("I", 1), H("I", 1)>>) \o CLit(<<"nil">>, KV(Id("A"), <<H("I", 1)>>))),
            <<"[", G, "]", G, "T", G, "{", G, "{", G, H("I", 1), G, ",", H("I", 1), G, "}", G, ",", "{", G, "A", G, ":", H("I", 1), G, "}", G, "}">>),
        Prd("complit", "M", 7, 1, CLit(MapT(Id("string"), IntT), KV(<<H("S", 1)>>, <<H("I", 1)>>)),
            <<"map", G, "[", G, "string", G, "]", G, "int", G, "{", G, H("S", 1), G, ":", H("I", 1), G, "}">>),
        Prd("complit", "M", 7, 1, CLit(MapT(Id("string"), IntT), <<>>),
            <<"map", G, "[", G, "string", G, "]", G, "int", G, "{", G, "}">>),
        Prd("complit", "T", 7, 1,
            <<"(IndexExpr">> \o CLit(MapT(Id("string"), Id("T")), KV(<<H("S", 1)>>, CLit(<<"nil">>, <<H("I", 1), H("I", 1)>>)))
               \o <<H("S", 1), ")">>,
            <<"map", G, "[", G, "string", G, "]", G, "T", G, "{", G, H("S", 1), G, ":", "{", G, H("I", 1), G, ",", H("I", 1), G, "}", G, "}",
              G, "[", G, H("S", 1), G, "]">>)}
  \* function literals and conversions
  \cup {Prd("funclit", "Fn", 7, 1, FuncLitX(FTii, Blk(Ret(<<H("I", 1)>>))), tkFTii \o <<"{", "return", H("I", 1), "}">>),
        Prd("conv", "I", 7, 1, CallX(IntT, <<H("F", 1)>>), <<"int", G, "(", G, H("F", 1), G, ")">>),
        Prd("conv", "F", 7, 1, CallX(Id("float64"), <<H("I", 1)>>), <<"float64", G, "(", G, H("I", 1), G, ")">>),
        Prd("conv", "I", 7, 1, CallX(Paren(IntT), <<H("I", 1)>>), <<"(", G, "int", G, ")", G, "(", G, H("I", 1), G, ")">>),
        Prd("conv", "P", 7, 1, CallX(Paren(Star(IntT)), <<H("P", 1)>>), <<"(", G, "*", G, "int", G, ")", G, "(", G, H("P", 1), G, ")">>),
        Prd("conv", "L", 7, 1, CallX(Slc(IntT), <<H("L", 1)>>), <<"[", G, "]", G, "int", G, "(", G, H("L", 1), G, ")">>),
        Prd("conv", "X", 7, 1, CallX(<<"(InterfaceType">> \o FL(<<>>) \o <<")">>, <<H("I", 1)>>),
            <<"interface", G, "{", G, "}", G, "(", G, H("I", 1), G, ")">>),
        Prd("conv", "Fn", 7, 1, CallX(Paren(FT(FL(Fld(<<>>, IntT)), FL(Fld(<<>>, IntT)))), <<H("Fn", 1)>>),
            <<"(", G, "func", G, "(", G, "int", G, ")", "int", G, ")", G, "(", G, H("Fn", 1), G, ")">>),
        Prd("conv", "RC", 7, 1, CallX(Paren(ChanT("recv", IntT)), <<H("C", 1)>>),
            <<"(", G, "<-", G, "chan", "int", G, ")", G, "(", G, H("C", 1), G, ")">>),
        Prd("conv", "I", 6, 1, <<"(UnaryExpr", "<-", H("RC", 6), ")">>, <<"<-", CG, H("RC", 6)>>)}


-----------------------------------------------------------------------------
(* Contexts in which an expression of each sort is placed (start productions of focus (a)).      *)
AsgBlank(s) == Prd("ctx", "Top", 0, 0, Asg("=", Id("_"), <<H(s, 1)>>), <<"_", "=", H(s, 1)>>)
CtxProds ==
  {AsgBlank(s) : s \in {"I", "B", "S", "P", "L", "M", "T", "PT", "LT", "Fn", "X", "F"}}
  \cup {Prd("ctx", "Top", 0, 0, <<"(IfStmt", "nil", H("B", 1)>> \o Blk(<<>>) \o <<"nil", ")">>, <<"if", H("B", 1), "{", NL, "}">>),
        Prd("ctx", "Top", 0, 0, <<"(SwitchStmt", "nil", H("I", 1)>> \o Blk(<<>>) \o <<")">>, <<"switch", H("I", 1), "{", NL, "}">>),
        Prd("ctx", "Top", 0, 0, Asg("=", <<H("LV", 1)>>, <<H("I", 1)>>), <<H("LV", 1), "=", H("I", 1)>>),
        Prd("ctx", "Top", 0, 0, ExprS(CallX(Id("g"), <<H("I", 1), H("I", 1)>>)), <<"g", G, "(", G, H("I", 1), G, ",", H("I", 1), G, ")">>)}
\* composite literals in a condition need parentheses: `if t == (T{..}) {`
CondLitProds == {BinP("cmp", "==", 3, "B", "T", "T"), ParenP("T")}


(* Statements.  X is the control context of the hole: "" none, "f" inside a for body (break and   *)
(* continue allowed), "s" inside a switch/select clause (break allowed).                          *)
St(X) == "St" \o X
SLn(X) == "SL" \o X
InSw(X) == IF X = "f" THEN "f" ELSE "s"
BodySx(X) == Blk(<<H(SLn(X), 0)>>)
BodyTk(X) == <<"{", NL, H(SLn(X), 0), NL, "}">>
UseSx(n) == Asg("=", Id("_"), Id(n))                  \* `_ = n` keeps go/types quiet about unused variables
UseTk(n) == <<"_", "=", n>>
Use2Sx(n1, n2) == Asg("=", Id("_") \o Id("_"), Id(n1) \o Id(n2))
Use2Tk(n1, n2) == <<"_", G, ",", "_", "=", n1, G, ",", n2>>
Br(tok, lab) == <<"(BranchStmt", tok>> \o lab \o <<")">>
Case(list, body) == <<"(CaseClause">> \o Lst(list) \o Lst(body) \o <<")">>
Comm(c, body) == <<"(CommClause">> \o c \o Lst(body) \o <<")">>
IfS(init, cond, body, els) == <<"(IfStmt">> \o init \o cond \o body \o els \o <<")">>
ForS(init, cond, post, body) == <<"(ForStmt">> \o init \o cond \o post \o body \o <<")">>
RangeS(k, v, tok, x, body) == <<"(RangeStmt">> \o k \o v \o <<tok>> \o x \o body \o <<")">>
IncDec(tok, x) == <<"(IncDecStmt", tok>> \o x \o <<")">>
Bin(op, x, y) == <<"(BinaryExpr", op>> \o x \o y \o <<")">>
Un(op, x) == <<"(UnaryExpr", op>> \o x \o <<")">>
TA(x, t) == <<"(TypeAssertExpr">> \o x \o t \o <<")">>
DeclS(tok, grp, specs) == <<"(DeclStmt", "(GenDecl", tok>> \o grp \o Lst(specs) \o <<")", ")">>
VSpec(names, typ, vals) == <<"(ValueSpec">> \o Lst(names) \o typ \o Lst(vals) \o <<")">>
TSpec(name, alias, typ) == <<"(TypeSpec">> \o Id(name) \o <<"nil">> \o alias \o typ \o <<")">>
NIL == <<"nil">>
S1(fam, X, sxs, tks) == Prd(fam, St(X), 0, 1, sxs, tks)
AssignOps == {"+=", "-=", "*=", "/=", "%=", "&=", "|=", "^=", "<<=", ">>=", "&^="}

StmtProdsFor(X) ==
  {Prd("stmt", SLn(X), 0, 0, <<>>, <<>>),
   Prd("stmt", SLn(X), 0, 0, <<H(St(X), 0)>>, <<H(St(X), 0)>>),
   Prd("seq", SLn(X), 0, 0, <<H(St(X), 0), H(St(X), 0)>>, <<H(St(X), 0), NL, H(St(X), 0)>>)}
  \cup {S1("assign", X, Asg("=", <<H("LV", 1)>>, <<H("I", 1)>>), <<H("LV", 1), "=", H("I", 1)>>),
        S1("assign", X, Asg("=", Id("a") \o Id("b"), Id("b") \o Id("a")), <<"a", G, ",", "b", "=", "b", G, ",", "a">>),
        S1("assign", X, Asg("=", Id("_"), <<H("B", 1)>>), <<"_", "=", H("B", 1)>>),
        S1("incdec", X, IncDec("++", <<H("LV", 1)>>), <<H("LV", 1), G, "++">>),
        S1("incdec", X, IncDec("--", <<H("LV", 1)>>), <<H("LV", 1), G, "--">>)}
  \cup {S1("opassign", X, Asg(op, <<H("LV", 1)>>, <<H("I", 1)>>), <<H("LV", 1), op, H("I", 1)>>) : op \in AssignOps}
  \cup {S1("define", X, Asg(":=", Id("#z"), <<H("I", 1)>>) \o UseSx("#z"), <<"#z", ":=", H("I", 1), NL>> \o UseTk("#z")),
        S1("define", X, Asg(":=", Id("#z") \o Id("#w"), <<H("I", 1), H("S", 1)>>) \o Use2Sx("#z", "#w"),
           <<"#z", G, ",", "#w", ":=", H("I", 1), G, ",", H("S", 1), NL>> \o Use2Tk("#z", "#w")),
        S1("define", X, Asg(":=", Id("#z") \o Id("#w"), Idx(<<H("M", 7)>>, <<H("S", 1)>>)) \o Use2Sx("#z", "#w"),
           <<"#z", G, ",", "#w", ":=", H("M", 7), G, "[", G, H("S", 1), G, "]", NL>> \o Use2Tk("#z", "#w")),
        S1("define", X, Asg(":=", Id("#z") \o Id("#w"), TA(<<H("X", 7)>>, IntT)) \o Use2Sx("#z", "#w"),
           <<"#z", G, ",", "#w", ":=", H("X", 7), G, ".", G, "(", G, "int", G, ")", NL>> \o Use2Tk("#z", "#w")),
        S1("define", X, Asg(":=", Id("#z") \o Id("#w"), Un("<-", <<H("C", 6)>>)) \o Use2Sx("#z", "#w"),
           <<"#z", G, ",", "#w", ":=", "<-", CG, H("C", 6), NL>> \o Use2Tk("#z", "#w"))}
  \cup {S1("if", X, IfS(NIL, <<H("B", 1)>>, BodySx(X), NIL), <<"if", H("B", 1)>> \o BodyTk(X)),
        S1("if", X, IfS(NIL, <<H("B", 1)>>, BodySx(X), BodySx(X)), <<"if", H("B", 1)>> \o BodyTk(X) \o <<"else">> \o BodyTk(X)),
        S1("if", X, IfS(NIL, <<H("B", 1)>>, BodySx(X), IfS(NIL, <<H("B", 1)>>, BodySx(X), BodySx(X))),
           <<"if", H("B", 1)>> \o BodyTk(X) \o <<"else", "if", H("B", 1)>> \o BodyTk(X) \o <<"else">> \o BodyTk(X)),
        S1("if", X, IfS(Asg(":=", Id("#z"), <<H("I", 1)>>), Bin(">", Id("#z"), <<H("I", 4)>>), BodySx(X), NIL),
           <<"if", "#z", ":=", H("I", 1), G, ";", "#z", ">", H("I", 4)>> \o BodyTk(X))}
  \cup {S1("if", X, IfS(NIL, Bin(">", Idx(Id("mk"), CLit(Id("T"), <<H("I", 1), H("I", 1)>>)), <<H("I", 4)>>), BodySx(X), NIL),
           <<"if", "mk", G, "[", G, "T", G, "{", G, H("I", 1), G, ",", H("I", 1), G, "}", G, "]", ">", H("I", 4)>> \o BodyTk(X)),
        S1("for", X, ForS(NIL, Bin(">", Idx(Id("mk"), CLit(Id("T"), KV(Id("A"), <<H("I", 1)>>))), <<H("I", 4)>>), NIL, BodySx("f")),
           <<"for", "mk", G, "[", G, "T", G, "{", G, "A", G, ":", H("I", 1), G, "}", G, "]", ">", H("I", 4)>> \o BodyTk("f")),
        S1("switch", X, <<"(SwitchStmt", "nil">> \o Idx(Id("mk"), CLit(Id("T"), <<H("I", 1), H("I", 1)>>)) \o Blk(Case(<<>>, <<H(SLn(InSw(X)), 0)>>)) \o <<")">>,
           <<"switch", "mk", G, "[", G, "T", G, "{", G, H("I", 1), G, ",", H("I", 1), G, "}", G, "]", "{", NL, "default", G, ":", NL, H(SLn(InSw(X)), 0), NL, "}">>)}
  \cup {S1("for", X, ForS(NIL, NIL, NIL, BodySx("f")), <<"for">> \o BodyTk("f")),
        S1("for", X, ForS(NIL, <<H("B", 1)>>, NIL, BodySx("f")), <<"for", H("B", 1)>> \o BodyTk("f")),
        S1("for", X, ForS(Asg(":=", Id("#z"), Lit("INT", "0")), Bin("<", Id("#z"), <<H("I", 4)>>), IncDec("++", Id("#z")), BodySx("f")),
           <<"for", "#z", ":=", "0", G, ";", "#z", "<", H("I", 4), G, ";", "#z", G, "++">> \o BodyTk("f")),
        S1("for", X, ForS(NIL, <<H("B", 1)>>, NIL, BodySx("f")), <<"for", ";", H("B", 1), G, ";">> \o BodyTk("f")),
        S1("for", X, ForS(Asg(":=", Id("#z"), Lit("INT", "0")), NIL, IncDec("++", Id("#z")), BodySx("f")),
           <<"for", "#z", ":=", "0", G, ";", ";", "#z", G, "++">> \o BodyTk("f")),
        S1("for", X, ForS(<<"(SendStmt", H("C", 1), H("I", 1), ")">>, <<H("B", 1)>>, NIL, BodySx("f")),
           <<"for", H("C", 1), "<-", H("I", 1), G, ";", H("B", 1), G, ";">> \o BodyTk("f")),
        S1("range", X, RangeS(NIL, NIL, "ILLEGAL", <<H("L", 1)>>, BodySx("f")), <<"for", "range", H("L", 1)>> \o BodyTk("f")),
        S1("range", X, RangeS(Id("#z"), NIL, ":=", <<H("L", 1)>>, Blk(UseSx("#z") \o <<H("SLf", 0)>>)),
           <<"for", "#z", ":=", "range", H("L", 1), "{", NL>> \o UseTk("#z") \o <<NL, H("SLf", 0), NL, "}">>),
        S1("range", X, RangeS(Id("#z"), Id("#w"), ":=", <<H("L", 1)>>, Blk(Use2Sx("#z", "#w") \o <<H("SLf", 0)>>)),
           <<"for", "#z", G, ",", "#w", ":=", "range", H("L", 1), "{", NL>> \o Use2Tk("#z", "#w") \o <<NL, H("SLf", 0), NL, "}">>),
        S1("range", X, RangeS(Id("a"), NIL, "=", <<H("L", 1)>>, BodySx("f")), <<"for", "a", "=", "range", H("L", 1)>> \o BodyTk("f")),
        S1("range", X, RangeS(NIL, NIL, "ILLEGAL", <<H("I", 1)>>, BodySx("f")), <<"for", "range", H("I", 1)>> \o BodyTk("f")),
        S1("range", X, RangeS(Id("#z"), NIL, ":=", <<H("I", 1)>>, Blk(UseSx("#z"))),
           <<"for", "#z", ":=", "range", H("I", 1), "{", NL>> \o UseTk("#z") \o <<NL, "}">>),
        S1("range", X, RangeS(Id("#z"), Id("#w"), ":=", <<H("M", 1)>>, Blk(Use2Sx("#z", "#w"))),
           <<"for", "#z", G, ",", "#w", ":=", "range", H("M", 1), "{", NL>> \o Use2Tk("#z", "#w") \o <<NL, "}">>),
        S1("range", X, RangeS(Id("#z"), NIL, ":=", <<H("C", 1)>>, Blk(UseSx("#z"))),
           <<"for", "#z", ":=", "range", H("C", 1), "{", NL>> \o UseTk("#z") \o <<NL, "}">>)}
  \cup {S1("switch", X,
           <<"(SwitchStmt", "nil", H("I", 1)>> \o Blk(Case(<<H("I", 1)>>, <<H(SLn(InSw(X)), 0)>>) \o Case(<<H("I", 1), H("I", 1)>>, <<H(SLn(InSw(X)), 0)>>)
                 \o Case(<<>>, <<H(SLn(InSw(X)), 0)>>)) \o <<")">>,
           <<"switch", H("I", 1), "{", NL, "case", H("I", 1), G, ":", NL, H(SLn(InSw(X)), 0), NL,
             "case", H("I", 1), G, ",", H("I", 1), G, ":", NL, H(SLn(InSw(X)), 0), NL, "default", G, ":", NL, H(SLn(InSw(X)), 0), NL, "}">>),
        S1("switch", X,
           <<"(SwitchStmt", "nil", "nil">> \o Blk(Case(<<H("B", 1)>>, <<H(SLn(InSw(X)), 0)>>)) \o <<")">>,
           <<"switch", "{", NL, "case", H("B", 1), G, ":", NL, H(SLn(InSw(X)), 0), NL, "}">>),
        S1("switch", X,
           <<"(SwitchStmt">> \o Asg(":=", Id("#z"), <<H("I", 1)>>) \o Id("#z") \o Blk(Case(Lit("INT", "1"), <<H(SLn(InSw(X)), 0)>>)) \o <<")">>,
           <<"switch", "#z", ":=", H("I", 1), G, ";", "#z", "{", NL, "case", "1", G, ":", NL, H(SLn(InSw(X)), 0), NL, "}">>),
        S1("switch", X,
           <<"(SwitchStmt">> \o Asg(":=", Id("#z"), <<H("I", 1)>>) \o NIL \o Blk(Case(Bin(">", Id("#z"), Lit("INT", "0")), <<H(SLn(InSw(X)), 0)>>)) \o <<")">>,
           <<"switch", "#z", ":=", H("I", 1), G, ";", "{", NL, "case", "#z", ">", "0", G, ":", NL, H(SLn(InSw(X)), 0), NL, "}">>),
        S1("switch", X,
           <<"(SwitchStmt", "nil", H("I", 1)>> \o Blk(Case(<<H("I", 1)>>, <<H(SLn(InSw(X)), 0)>> \o Br("fallthrough", NIL)) \o Case(<<>>, <<H(SLn(InSw(X)), 0)>>)) \o <<")">>,
           <<"switch", H("I", 1), "{", NL, "case", H("I", 1), G, ":", NL, H(SLn(InSw(X)), 0), NL, "fallthrough", NL,
             "default", G, ":", NL, H(SLn(InSw(X)), 0), NL, "}">>)}
  \cup {S1("typeswitch", X,
           <<"(TypeSwitchStmt", "nil">> \o ExprS(TA(<<H("X", 7)>>, NIL))
              \o Blk(Case(IntT, <<H(SLn(InSw(X)), 0)>>) \o Case(Star(Id("T")) \o Id("T"), <<H(SLn(InSw(X)), 0)>>) \o Case(Id("nil"), <<>>) \o Case(<<>>, <<>>)) \o <<")">>,
           <<"switch", H("X", 7), G, ".", G, "(", G, "type", G, ")", "{", NL, "case", "int", G, ":", NL, H(SLn(InSw(X)), 0), NL,
             "case", "*", G, "T", G, ",", "T", G, ":", NL, H(SLn(InSw(X)), 0), NL, "case", "nil", G, ":", NL, "default", G, ":", NL, "}">>),
        S1("typeswitch", X,
           <<"(TypeSwitchStmt", "nil">> \o Asg(":=", Id("#z"), TA(<<H("X", 7)>>, NIL))
              \o Blk(Case(IntT, UseSx("#z") \o <<H(SLn(InSw(X)), 0)>>) \o Case(<<>>, UseSx("#z"))) \o <<")">>,
           <<"switch", "#z", ":=", H("X", 7), G, ".", G, "(", G, "type", G, ")", "{", NL, "case", "int", G, ":", NL>> \o UseTk("#z")
              \o <<NL, H(SLn(InSw(X)), 0), NL, "default", G, ":", NL>> \o UseTk("#z") \o <<NL, "}">>),
        S1("typeswitch", X,
           <<"(TypeSwitchStmt">> \o Asg(":=", Id("#w"), <<H("X", 1)>>) \o Asg(":=", Id("#z"), TA(Id("#w"), NIL))
              \o Blk(Case(Slc(IntT) \o MapT(Id("string"), IntT), UseSx("#z"))) \o <<")">>,
           <<"switch", "#w", ":=", H("X", 1), G, ";", "#z", ":=", "#w", G, ".", G, "(", G, "type", G, ")", "{", NL,
             "case", "[", G, "]", G, "int", G, ",", "map", G, "[", G, "string", G, "]", G, "int", G, ":", NL>> \o UseTk("#z") \o <<NL, "}">>)}
  \cup {S1("select", X,
           <<"(SelectStmt">> \o Blk(Comm(Asg(":=", Id("#z"), Un("<-", <<H("C", 6)>>)), UseSx("#z") \o <<H(SLn(InSw(X)), 0)>>)
               \o Comm(<<"(SendStmt", H("C", 1), H("I", 1), ")">>, <<H(SLn(InSw(X)), 0)>>) \o Comm(NIL, <<>>)) \o <<")">>,
           <<"select", "{", NL, "case", "#z", ":=", "<-", CG, H("C", 6), G, ":", NL>> \o UseTk("#z") \o <<NL, H(SLn(InSw(X)), 0), NL,
             "case", H("C", 1), "<-", H("I", 1), G, ":", NL, H(SLn(InSw(X)), 0), NL, "default", G, ":", NL, "}">>),
        S1("select", X,
           <<"(SelectStmt">> \o Blk(Comm(ExprS(Un("<-", <<H("C", 6)>>)), <<H(SLn(InSw(X)), 0)>>)
               \o Comm(Asg(":=", Id("#z") \o Id("#w"), Un("<-", <<H("C", 6)>>)), Use2Sx("#z", "#w"))
               \o Comm(Asg("=", <<H("LV", 1)>>, Un("<-", <<H("C", 6)>>)), <<>>)) \o <<")">>,
           <<"select", "{", NL, "case", "<-", CG, H("C", 6), G, ":", NL, H(SLn(InSw(X)), 0), NL,
             "case", "#z", G, ",", "#w", ":=", "<-", CG, H("C", 6), G, ":", NL>> \o Use2Tk("#z", "#w") \o <<NL,
             "case", H("LV", 1), "=", "<-", CG, H("C", 6), G, ":", NL, "}">>),
        S1("select", X, <<"(SelectStmt">> \o Blk(<<>>) \o <<")">>, <<"select", "{", NL, "}">>)}
  \cup {S1("label", X,
           <<"(LabeledStmt">> \o Id("#Lb") \o ForS(NIL, <<H("B", 1)>>, NIL, Blk(<<H("SLf", 0)>> \o Br("continue", Id("#Lb")))) \o <<")">>,
           <<"#Lb", G, ":", NL, "for", H("B", 1), "{", NL, H("SLf", 0), NL, "continue", "#Lb", NL, "}">>),
        S1("label", X,
           <<"(LabeledStmt">> \o Id("#Lb") \o ForS(NIL, NIL, NIL, Blk(IfS(NIL, <<H("B", 1)>>, Blk(Br("break", Id("#Lb"))), NIL) \o <<H("SLf", 0)>>)) \o <<")">>,
           <<"#Lb", G, ":", NL, "for", "{", NL, "if", H("B", 1), "{", NL, "break", "#Lb", NL, "}", NL, H("SLf", 0), NL, "}">>),
        S1("label", X,
           Br("goto", Id("#Lb")) \o <<"(LabeledStmt">> \o Id("#Lb") \o Asg("=", <<H("LV", 1)>>, <<H("I", 1)>>) \o <<")">>,
           <<"goto", "#Lb", NL, "#Lb", G, ":", NL, H("LV", 1), "=", H("I", 1)>>),
        S1("label", X,
           <<"(LabeledStmt">> \o Id("#Lb") \o <<"(SwitchStmt", "nil", H("I", 1)>> \o Blk(Case(<<>>, Br("break", Id("#Lb")))) \o <<")", ")">>,
           <<"#Lb", G, ":", NL, "switch", H("I", 1), "{", NL, "default", G, ":", NL, "break", "#Lb", NL, "}">>)}
  \cup {S1("defergo", X, <<"(DeferStmt">> \o CallX(<<H("Fn", 7)>>, <<H("I", 1)>>) \o <<")">>, <<"defer", H("Fn", 7), G, "(", G, H("I", 1), G, ")">>),
        S1("defergo", X, <<"(GoStmt">> \o CallX(<<H("Fn", 7)>>, <<H("I", 1)>>) \o <<")">>, <<"go", H("Fn", 7), G, "(", G, H("I", 1), G, ")">>),
        S1("defergo", X, <<"(DeferStmt">> \o CallX(FuncLitX(FT(FL(<<>>), NIL), BodySx("")), <<>>) \o <<")">>,
           <<"defer", "func", G, "(", G, ")">> \o BodyTk("") \o <<G, "(", G, ")">>),
        S1("defergo", X, <<"(GoStmt">> \o CallX(FuncLitX(FT(FL(Fld(Id("z"), IntT)), NIL), Blk(UseSx("z"))), <<H("I", 1)>>) \o <<")">>,
           <<"go", "func", G, "(", G, "z", "int", G, ")", "{", NL>> \o UseTk("z") \o <<NL, "}", G, "(", G, H("I", 1), G, ")">>),
        S1("defergo", X, <<"(DeferStmt">> \o CallX(Sel(<<H("PT", 7)>>, "M"), <<>>) \o <<")">>, <<"defer", H("PT", 7), G, ".", G, "M", G, "(", G, ")">>)}
  \cup {S1("return", X, Ret(<<>>), <<"return">>),
        S1("return", X,
           Asg("=", Id("_"), FuncLitX(FT(FL(<<>>), FL(Fld(<<>>, IntT))), Blk(IfS(NIL, <<H("B", 1)>>, Blk(Ret(<<H("I", 1)>>)), NIL) \o Ret(<<H("I", 1)>>)))),
           <<"_", "=", "func", G, "(", G, ")", "int", "{", NL, "if", H("B", 1), "{", NL, "return", H("I", 1), NL, "}", NL, "return", H("I", 1), NL, "}">>),
        S1("return", X,
           Asg("=", Id("_"), FuncLitX(FT(FL(<<>>), FL(Fld(<<>>, IntT) \o Fld(<<>>, Id("string")))), Blk(Ret(<<H("I", 1), H("S", 1)>>)))),
           <<"_", "=", "func", G, "(", G, ")", "(", G, "int", G, ",", "string", G, ")", "{", NL, "return", H("I", 1), G, ",", H("S", 1), NL, "}">>),
        S1("return", X,
           Asg("=", Id("_"), FuncLitX(FT(FL(<<>>), FL(Fld(Id("z"), IntT))), Blk(Asg("=", Id("z"), <<H("I", 1)>>) \o Ret(<<>>)))),
           <<"_", "=", "func", G, "(", G, ")", "(", G, "z", "int", G, ")", "{", NL, "z", "=", H("I", 1), NL, "return", NL, "}">>),
        S1("return", X,
           Asg("=", Id("_"), FuncLitX(FT(FL(<<>>), NIL), Blk(<<H("SL", 0)>> \o Ret(<<>>)))),
           <<"_", "=", "func", G, "(", G, ")", "{", NL, H("SL", 0), NL, "return", NL, "}">>)}
  \cup {S1("block", X, BodySx(X), BodyTk(X))}
  \cup {S1("declstmt", X, DeclS("var", <<>>, VSpec(Id("#z"), IntT, <<>>)) \o UseSx("#z"), <<"var", "#z", "int", NL>> \o UseTk("#z")),
        S1("declstmt", X, DeclS("var", <<>>, VSpec(Id("#z") \o Id("#w"), NIL, <<H("I", 1), H("I", 1)>>)) \o Use2Sx("#z", "#w"),
           <<"var", "#z", G, ",", "#w", "=", H("I", 1), G, ",", H("I", 1), NL>> \o Use2Tk("#z", "#w")),
        S1("declstmt", X, DeclS("var", <<>>, VSpec(Id("#z"), IntT, <<H("I", 1)>>)) \o UseSx("#z"),
           <<"var", "#z", "int", "=", H("I", 1), NL>> \o UseTk("#z")),
        S1("declstmt", X, DeclS("var", <<"group">>, VSpec(Id("#z"), IntT, <<>>) \o VSpec(Id("#w"), NIL, <<H("I", 1)>>)) \o Use2Sx("#z", "#w"),
           <<"var", "(", NL, "#z", "int", NL, "#w", "=", H("I", 1), NL, ")", NL>> \o Use2Tk("#z", "#w")),
        S1("declstmt", X, DeclS("const", <<>>, VSpec(Id("#k"), NIL, Lit("INT", "1"))), <<"const", "#k", "=", "1">>),
        S1("declstmt", X, DeclS("const", <<"group">>, VSpec(Id("#k"), NIL, Id("iota")) \o VSpec(Id("#K"), NIL, <<>>)),
           <<"const", "(", NL, "#k", "=", "iota", NL, "#K", NL, ")">>),
        S1("declstmt", X, DeclS("const", <<>>, VSpec(Id("#k") \o Id("#K"), IntT, Lit("INT", "1") \o Lit("INT", "2"))),
           <<"const", "#k", G, ",", "#K", "int", "=", "1", G, ",", "2">>),
        S1("declstmt", X, DeclS("type", <<>>, TSpec("#Ty", <<>>, <<"(StructType">> \o FL(Fld(Id("A"), IntT)) \o <<")">>)),
           <<"type", "#Ty", "struct", "{", NL, "A", "int", NL, "}">>),
        S1("declstmt", X, DeclS("type", <<>>, TSpec("#Ty", <<"=">>, IntT)), <<"type", "#Ty", "=", "int">>),
        S1("declstmt", X, DeclS("type", <<"group">>, TSpec("#Ty", <<>>, IntT) \o TSpec("#V", <<>>, Slc(Id("#Ty")))),
           <<"type", "(", NL, "#Ty", "int", NL, "#V", "[", G, "]", G, "#Ty", NL, ")">>)}
  \cup {S1("send", X, <<"(SendStmt", H("C", 1), H("I", 1), ")">>, <<H("C", 1), "<-", H("I", 1)>>),
        S1("exprstmt", X, ExprS(CallX(<<H("Fn", 7)>>, <<H("I", 1)>>)), <<H("Fn", 7), G, "(", G, H("I", 1), G, ")">>),
        S1("exprstmt", X, ExprS(Un("<-", <<H("C", 6)>>)), <<"<-", CG, H("C", 6)>>),
        S1("exprstmt", X, ExprS(CallX(Sel(<<H("PT", 7)>>, "M"), <<>>)), <<H("PT", 7), G, ".", G, "M", G, "(", G, ")">>),
        S1("empty", X, <<"(EmptyStmt", ")">>, <<";">>)}
  \cup (IF X = "f" THEN {S1("branch", X, Br("break", NIL), <<"break">>), S1("branch", X, Br("continue", NIL), <<"continue">>)}
        ELSE IF X = "s" THEN {S1("branch", X, Br("break", NIL), <<"break">>)} ELSE {})

StmtProds == StmtProdsFor("") \cup StmtProdsFor("f") \cup StmtProdsFor("s")
             \cup {Prd("top", "Top", 0, 0, <<H("SL", 0)>>, <<H("SL", 0)>>)}

(* Types (focus c): every type expression of the subset; leaves are named types by position.      *)
TyLeaf == Prd("leaf", "Ty", 2, 0, <<"(Ident", "#Ty0", ")">>, <<"#Ty0">>)
T1(sxs, tks) == Prd("type", "Ty", 2, 1, sxs, tks)
TY == H("Ty", 0)
TYR == H("Ty", 1)   \* a bare result type: `func() (T)` is a result LIST, so no parenthesised type here
TypeProds ==
  {TyLeaf,
   T1(Star(<<TY>>), <<"*", G, TY>>),
   T1(Slc(<<TY>>), <<"[", G, "]", G, TY>>),
   T1(Arr(Lit("INT", "3"), <<TY>>), <<"[", G, "3", G, "]", G, TY>>),
   T1(MapT(Id("string"), <<TY>>), <<"map", G, "[", G, "string", G, "]", G, TY>>),
   T1(ChanT("both", <<H("Ty", 2)>>), <<"chan", H("Ty", 2)>>),  \* `chan <-chan T` is chan<- (chan T): no bare receive-channel element
   Prd("type", "Ty", 1, 1, ChanT("recv", <<TY>>), <<"<-", G, "chan", TY>>),
   T1(ChanT("send", <<TY>>), <<"chan", G, "<-", TY>>),
   T1(FT(FL(Fld(<<>>, <<TY>>)), FL(Fld(<<>>, <<TYR>>))), <<"func", G, "(", G, TY, G, ")", TYR>>),
   T1(FT(FL(Fld(Id("x"), <<TY>>) \o Fld(Id("y"), <<"(Ellipsis", TY, ")">>)), NIL), <<"func", G, "(", G, "x", TY, G, ",", "y", "...", G, TY, G, ")">>),
   T1(FT(FL(<<>>), FL(Fld(<<>>, <<TY>>) \o Fld(<<>>, Id("error")))), <<"func", G, "(", G, ")", "(", G, TY, G, ",", "error", G, ")">>),
   T1(<<"(StructType">> \o FL(Fld(Id("A"), <<TY>>) \o FldT(Id("B") \o Id("C"), <<TY>>, Lit("STRING", "`json:\"b\"`")) \o Fld(<<>>, Id("T")) \o Fld(<<>>, Star(Id("R")))) \o <<")">>,
      <<"struct", "{", NL, "A", TY, NL, "B", G, ",", "C", TY, "`json:\"b\"`", NL, "T", NL, "*", G, "R", NL, "}">>),
   T1(<<"(StructType">> \o FL(<<>>) \o <<")">>, <<"struct", G, "{", G, "}">>),
   T1(<<"(InterfaceType">> \o FL(Fld(Id("M"), FT(FL(Fld(Id("x"), <<TY>>)), FL(Fld(<<>>, <<TYR>>)))) \o Fld(Id("N"), FT(FL(<<>>), NIL)) \o Fld(<<>>, Id("error"))) \o <<")">>,
      <<"interface", "{", NL, "M", G, "(", G, "x", TY, G, ")", TYR, NL, "N", G, "(", G, ")", NL, "error", NL, "}">>),
   T1(<<"(InterfaceType">> \o FL(<<>>) \o <<")">>, <<"interface", G, "{", G, "}">>),
   Prd("type", "Ty", 0, 1, Paren(<<TY>>), <<"(", G, TY, G, ")">>)}

(* Declarations (focus c) and generics (focus d).  Names are fresh by position.                    *)
FTg(tps, params, results) == <<"(FuncType">> \o tps \o params \o results \o <<")">>
FuncD(recv, name, typ, body) == <<"(FuncDecl">> \o recv \o Id(name) \o typ \o body \o <<")">>
GenD(tok, grp, specs) == <<"(GenDecl", tok>> \o grp \o Lst(specs) \o <<")">>
TSpecG(name, tps, alias, typ) == <<"(TypeSpec">> \o Id(name) \o tps \o alias \o typ \o <<")">>
PanicSx == Blk(ExprS(CallX(Id("panic"), Lit("INT", "0"))))
PanicTk == <<"{", NL, "panic", G, "(", G, "0", G, ")", NL, "}">>
EmptySx == Blk(<<>>)
EmptyTk == <<"{", NL, "}">>
D1(fam, sxs, tks) == Prd(fam, "D", 0, 1, sxs, tks)
Tilde(t) == Un("~", Id(t))
Method(recvSx, recvTk) ==
   D1("method", FuncD(FL(recvSx), "#Fu", FT(FL(<<>>), NIL), EmptySx), <<"func", "(", G>> \o recvTk \o <<G, ")", "#Fu", G, "(", G, ")">> \o EmptyTk)
DeclProds ==
  TypeProds
  \cup {Prd("topd", "Top", 0, 0, <<H("DL", 0)>>, <<H("DL", 0)>>),
        Prd("topd", "DL", 0, 0, <<H("D", 0)>>, <<H("D", 0)>>),
        Prd("seqd", "DL", 0, 0, <<H("D", 0), H("D", 0)>>, <<H("D", 0), NL, NL, H("D", 0)>>)}
  \cup {D1("func", FuncD(NIL, "#Fu", FT(FL(<<>>), NIL), EmptySx), <<"func", "#Fu", G, "(", G, ")">> \o EmptyTk),
        D1("func", FuncD(NIL, "#Fu", FT(FL(Fld(Id("x"), <<TY>>) \o Fld(Id("y"), <<TY>>)), FL(Fld(<<>>, <<TYR>>))), PanicSx),
           <<"func", "#Fu", G, "(", G, "x", TY, G, ",", "y", TY, G, ")", TYR>> \o PanicTk),
        D1("func", FuncD(NIL, "#Fu", FT(FL(Fld(Id("x") \o Id("y"), <<TY>>)), NIL), EmptySx),
           <<"func", "#Fu", G, "(", G, "x", G, ",", "y", TY, G, ")">> \o EmptyTk),
        D1("func", FuncD(NIL, "#Fu", FT(FL(Fld(<<>>, <<TY>>) \o Fld(<<>>, <<TY>>)), NIL), EmptySx),
           <<"func", "#Fu", G, "(", G, TY, G, ",", TY, G, ")">> \o EmptyTk),
        D1("func", FuncD(NIL, "#Fu", FT(FL(Fld(Id("x"), <<TY>>) \o Fld(Id("y"), <<"(Ellipsis", TY, ")">>)), NIL), EmptySx),
           <<"func", "#Fu", G, "(", G, "x", TY, G, ",", "y", "...", G, TY, G, ")">> \o EmptyTk),
        D1("func", FuncD(NIL, "#Fu", FT(FL(Fld(<<>>, <<"(Ellipsis", TY, ")">>)), NIL), EmptySx),
           <<"func", "#Fu", G, "(", G, "...", G, TY, G, ")">> \o EmptyTk),
        D1("func", FuncD(NIL, "#Fu", FT(FL(<<>>), FL(Fld(<<>>, <<TY>>) \o Fld(<<>>, <<TY>>))), PanicSx),
           <<"func", "#Fu", G, "(", G, ")", "(", G, TY, G, ",", TY, G, ")">> \o PanicTk),
        D1("func", FuncD(NIL, "#Fu", FT(FL(<<>>), FL(Fld(Id("r"), <<TY>>) \o Fld(Id("err"), Id("error")))), PanicSx),
           <<"func", "#Fu", G, "(", G, ")", "(", G, "r", TY, G, ",", "err", "error", G, ")">> \o PanicTk),
        D1("func", FuncD(NIL, "#Fu", FT(FL(<<>>), FL(Fld(Id("r") \o Id("s"), <<TY>>))), PanicSx),
           <<"func", "#Fu", G, "(", G, ")", "(", G, "r", G, ",", "s", TY, G, ")">> \o PanicTk),
        Method(Fld(Id("t"), Id("T")), <<"t", "T">>),
        Method(Fld(Id("t"), Star(Id("T"))), <<"t", "*", G, "T">>),
        Method(Fld(<<>>, Id("T")), <<"T">>),
        Method(Fld(<<>>, Star(Id("T"))), <<"*", G, "T">>),
        Method(Fld(Id("_"), Id("T")), <<"_", "T">>),
        D1("method", FuncD(FL(Fld(Id("t"), Star(Id("T")))), "#Fu", FT(FL(Fld(Id("x"), <<TY>>)), FL(Fld(<<>>, <<TYR>>))), PanicSx),
           <<"func", "(", G, "t", "*", G, "T", G, ")", "#Fu", G, "(", G, "x", TY, G, ")", TYR>> \o PanicTk)}
  \cup {D1("typedecl", GenD("type", <<>>, TSpecG("#Ty", NIL, <<>>, <<TY>>)), <<"type", "#Ty", TY>>),
        D1("typedecl", GenD("type", <<>>, TSpecG("#Ty", NIL, <<"=">>, <<TY>>)), <<"type", "#Ty", "=", TY>>),
        D1("typedecl", GenD("type", <<"group">>, TSpecG("#Ty", NIL, <<>>, <<TY>>) \o TSpecG("#V", NIL, <<"=">>, <<TY>>)),
           <<"type", "(", NL, "#Ty", TY, NL, "#V", "=", TY, NL, ")">>)}
  \cup {D1("constdecl", GenD("const", <<>>, VSpec(Id("#K"), NIL, Lit("INT", "1"))), <<"const", "#K", "=", "1">>),
        D1("constdecl", GenD("const", <<>>, VSpec(Id("#K"), Id("string"), Lit("STRING", "\"s\""))), <<"const", "#K", "string", "=", "\"s\"">>),
        D1("constdecl", GenD("const", <<"group">>, VSpec(Id("#K"), NIL, Id("iota")) \o VSpec(Id("#k"), NIL, <<>>) \o VSpec(Id("#V"), NIL, <<>>)),
           <<"const", "(", NL, "#K", "=", "iota", NL, "#k", NL, "#V", NL, ")">>),
        D1("constdecl", GenD("const", <<"group">>, VSpec(Id("#K"), Id("uint"), Bin("<<", Lit("INT", "1"), Id("iota"))) \o VSpec(Id("#k"), NIL, <<>>)),
           <<"const", "(", NL, "#K", "uint", "=", "1", "<<", "iota", NL, "#k", NL, ")">>),
        D1("constdecl", GenD("const", <<"group">>, VSpec(Id("#K") \o Id("#k"), NIL, Id("iota") \o Bin("*", Id("iota"), Lit("INT", "2"))) \o VSpec(Id("#V") \o Id("#z"), NIL, <<>>)),
           <<"const", "(", NL, "#K", G, ",", "#k", "=", "iota", G, ",", "iota", "*", "2", NL, "#V", G, ",", "#z", NL, ")">>),
        D1("constdecl", GenD("const", <<"group">>, VSpec(Id("#K"), NIL, Lit("INT", "1"))), <<"const", "(", NL, "#K", "=", "1", NL, ")">>)}
  \cup {D1("vardecl", GenD("var", <<>>, VSpec(Id("#V"), <<TY>>, <<>>)), <<"var", "#V", TY>>),
        D1("vardecl", GenD("var", <<>>, VSpec(Id("#V"), NIL, <<H("I", 1)>>)), <<"var", "#V", "=", H("I", 1)>>),
        D1("vardecl", GenD("var", <<>>, VSpec(Id("#V"), IntT, <<H("I", 1)>>)), <<"var", "#V", "int", "=", H("I", 1)>>),
        D1("vardecl", GenD("var", <<>>, VSpec(Id("#V") \o Id("#k"), NIL, <<H("I", 1), H("S", 1)>>)), <<"var", "#V", G, ",", "#k", "=", H("I", 1), G, ",", H("S", 1)>>),
        D1("vardecl", GenD("var", <<"group">>, VSpec(Id("#V"), <<TY>>, <<>>) \o VSpec(Id("#k"), NIL, <<H("I", 1)>>)),
           <<"var", "(", NL, "#V", TY, NL, "#k", "=", H("I", 1), NL, ")">>),
        D1("vardecl", GenD("var", <<>>, VSpec(Id("#V"), NIL, <<H("Fn", 1)>>)), <<"var", "#V", "=", H("Fn", 1)>>),
        D1("vardecl", GenD("var", <<>>, VSpec(Id("#V"), NIL, <<H("L", 1)>>)), <<"var", "#V", "=", H("L", 1)>>),
        D1("vardecl", GenD("var", <<>>, VSpec(Id("#V"), NIL, <<H("T", 1)>>)), <<"var", "#V", "=", H("T", 1)>>),
        D1("vardecl", GenD("var", <<>>, VSpec(Id("#V"), NIL, <<H("M", 1)>>)), <<"var", "#V", "=", H("M", 1)>>)}
  \* generics (focus d)
  \cup {D1("generic", FuncD(NIL, "#Fu", FTg(FL(Fld(Id("P"), Id("any"))), FL(Fld(Id("x"), Id("P"))), FL(Fld(<<>>, Id("P")))), Blk(Ret(Id("x")))),
           <<"func", "#Fu", G, "[", G, "P", "any", G, "]", G, "(", G, "x", "P", G, ")", "P", "{", NL, "return", "x", NL, "}">>),
        D1("generic", FuncD(NIL, "#Fu", FTg(FL(Fld(Id("P") \o Id("Q"), Id("any"))), FL(Fld(Id("x"), Id("P")) \o Fld(Id("y"), Id("Q"))), NIL), EmptySx),
           <<"func", "#Fu", G, "[", G, "P", G, ",", "Q", "any", G, "]", G, "(", G, "x", "P", G, ",", "y", "Q", G, ")">> \o EmptyTk),
        D1("generic", FuncD(NIL, "#Fu", FTg(FL(Fld(Id("P"), Bin("|", Tilde("int"), Tilde("string")))), FL(Fld(Id("x"), Id("P"))), NIL), EmptySx),
           <<"func", "#Fu", G, "[", G, "P", "~", G, "int", "|", "~", G, "string", G, "]", G, "(", G, "x", "P", G, ")">> \o EmptyTk),
        D1("generic", FuncD(NIL, "#Fu", FTg(FL(Fld(Id("P"), <<"(InterfaceType">> \o FL(Fld(<<>>, Tilde("int"))) \o <<")">>)), FL(Fld(Id("x"), Id("P"))), NIL), EmptySx),
           <<"func", "#Fu", G, "[", G, "P", "interface", G, "{", "~", G, "int", "}", G, "]", G, "(", G, "x", "P", G, ")">> \o EmptyTk),
        D1("generic", FuncD(NIL, "#Fu", FTg(FL(Fld(Id("S"), Un("~", Slc(Id("E")))) \o Fld(Id("E"), Id("comparable"))), FL(Fld(Id("x"), Id("S"))), NIL), EmptySx),
           <<"func", "#Fu", G, "[", G, "S", "~", G, "[", G, "]", G, "E", G, ",", "E", "comparable", G, "]", G, "(", G, "x", "S", G, ")">> \o EmptyTk),
        D1("generic", GenD("type", <<>>, TSpecG("#Ty", FL(Fld(Id("P"), Id("any"))), <<>>, <<"(StructType">> \o FL(Fld(Id("v"), Id("P"))) \o <<")">>)),
           <<"type", "#Ty", G, "[", G, "P", "any", G, "]", "struct", "{", NL, "v", "P", NL, "}">>),
        D1("generic", GenD("type", <<>>, TSpecG("#Ty", FL(Fld(Id("K"), Id("comparable")) \o Fld(Id("V"), Id("any"))), <<>>, MapT(Id("K"), Id("V")))),
           <<"type", "#Ty", G, "[", G, "K", "comparable", G, ",", "V", "any", G, "]", "map", G, "[", G, "K", G, "]", G, "V">>),
        D1("generic", GenD("type", <<>>, TSpecG("#Ty", NIL, <<>>, <<"(InterfaceType">> \o FL(Fld(<<>>, Bin("|", Tilde("int"), Tilde("string"))) \o Fld(Id("M"), FT(FL(<<>>), NIL))) \o <<")">>)),
           <<"type", "#Ty", "interface", "{", NL, "~", G, "int", "|", "~", G, "string", NL, "M", G, "(", G, ")", NL, "}">>),
        D1("generic", GenD("type", <<>>, TSpecG("#Ty", FL(Fld(Id("K") \o Id("V"), Id("any"))), <<>>, <<"(StructType">> \o FL(Fld(Id("k"), Id("K")) \o Fld(Id("v"), Id("V"))) \o <<")">>)),
           <<"type", "#Ty", G, "[", G, "K", G, ",", "V", "any", G, "]", "struct", "{", NL, "k", "K", NL, "v", "V", NL, "}">>),
        D1("generic", GenD("type", <<>>, TSpecG("#Ty", NIL, <<>>, <<"(InterfaceType">> \o FL(Fld(<<>>, Bin("|", IntT, Id("string")))) \o <<")">>)),
           <<"type", "#Ty", "interface", "{", NL, "int", "|", "string", NL, "}">>),
        D1("generic", GenD("type", <<>>, TSpecG("#Ty", NIL, <<>>, <<"(InterfaceType">> \o FL(Fld(<<>>, Slc(IntT)) \o Fld(<<>>, Id("comparable"))) \o <<")">>)),
           <<"type", "#Ty", "interface", "{", NL, "[", G, "]", G, "int", NL, "comparable", NL, "}">>),
        \* generic function + explicit instantiation
        D1("generic", FuncD(NIL, "#Fu", FTg(FL(Fld(Id("P"), Id("any"))), FL(Fld(Id("x"), Id("P"))), FL(Fld(<<>>, Id("P")))), Blk(Ret(Id("x"))))
              \o GenD("var", <<>>, VSpec(Id("#V"), NIL, CallX(Idx(Id("#Fu"), IntT), Lit("INT", "1")))),
           <<"func", "#Fu", G, "[", G, "P", "any", G, "]", G, "(", G, "x", "P", G, ")", "P", "{", NL, "return", "x", NL, "}", NL, NL,
             "var", "#V", "=", "#Fu", G, "[", G, "int", G, "]", G, "(", G, "1", G, ")">>),
        D1("generic", GenD("var", <<>>, VSpec(Id("#V"), NIL, <<"(IndexListExpr">> \o Id("#Fu") \o Lst(IntT \o Id("string")) \o <<")">>))
              \o FuncD(NIL, "#Fu", FTg(FL(Fld(Id("P") \o Id("Q"), Id("any"))), FL(Fld(Id("x"), Id("P")) \o Fld(Id("y"), Id("Q"))), NIL), EmptySx),
           <<"var", "#V", "=", "#Fu", G, "[", G, "int", G, ",", "string", G, "]", NL, NL,
             "func", "#Fu", G, "[", G, "P", G, ",", "Q", "any", G, "]", G, "(", G, "x", "P", G, ",", "y", "Q", G, ")">> \o EmptyTk),
        \* generic type + instantiation + method on it
        D1("generic", GenD("type", <<>>, TSpecG("#Ty", FL(Fld(Id("K"), Id("comparable")) \o Fld(Id("V"), Id("any"))), <<>>, MapT(Id("K"), Id("V"))))
              \o GenD("var", <<>>, VSpec(Id("#V"), <<"(IndexListExpr">> \o Id("#Ty") \o Lst(Id("string") \o IntT) \o <<")">>, <<>>))
              \o FuncD(FL(Fld(Id("m"), <<"(IndexListExpr">> \o Id("#Ty") \o Lst(Id("K") \o Id("V")) \o <<")">>)), "Len", FT(FL(<<>>), FL(Fld(<<>>, IntT))), PanicSx),
           <<"type", "#Ty", G, "[", G, "K", "comparable", G, ",", "V", "any", G, "]", "map", G, "[", G, "K", G, "]", G, "V", NL, NL,
             "var", "#V", "#Ty", G, "[", G, "string", G, ",", "int", G, "]", NL, NL,
             "func", "(", G, "m", "#Ty", G, "[", G, "K", G, ",", "V", G, "]", G, ")", "Len", G, "(", G, ")", "int">> \o PanicTk),
        D1("generic", GenD("type", <<>>, TSpecG("#Ty", FL(Fld(Id("P"), Id("any"))), <<>>, Slc(Id("P"))))
              \o GenD("var", <<>>, VSpec(Id("#V"), NIL, CLit(Idx(Id("#Ty"), IntT), Lit("INT", "1")))),
           <<"type", "#Ty", G, "[", G, "P", "any", G, "]", "[", G, "]", G, "P", NL, NL,
             "var", "#V", "=", "#Ty", G, "[", G, "int", G, "]", G, "{", G, "1", G, "}">>)}

(* Spelling variants of literals (focus e): every Go literal class and the spellings that are     *)
(* special to XGo (`$` inside strings: XGo pre-parses "${..}").                                   *)
LitI == {"0x1F", "0b101", "0o17", "017", "1_000", "'a'", "'\\n'", "'\\x41'", "'\\''"}
LitF == {"1.5", "1e3", ".5", "0x1p-2", "1_0.2_5", "1E+2", "09.5", "0129.", "08e1"}   \* leading 0 + digits 8/9: decimal floats
LitC == {"1i", "1.5e+3i", "0x1p-2i", "0b1i", "08i", "0129i", "0123i", "089.5i", "0o17i"}   \* `08i`, `0123i` are DECIMAL imaginaries
LitS == {"\"a b\"", "`raw`", "\"\\\"q\\\"\"", "\"a\\tb\"", "`a\\b`", "\"$\"", "\"$$\"", "\"${a}\"", "\"${\"", "\"${a\"", "\"$a${b}\"", "\"a$\"",
         "\"${a b}\"", "`${a`", "\"$x\"", "\"100%\"", "\"\""}
KindOfI(v) == IF v \in {"'a'", "'\\n'", "'\\x41'", "'\\''"} THEN "CHAR" ELSE "INT"
LitProds ==
  {Prd("lit", "I", 7, 1, Lit(KindOfI(v), v), <<v>>) : v \in LitI}
  \cup {Prd("lit", "F", 7, 1, Lit("FLOAT", v), <<v>>) : v \in LitF}
  \cup {Prd("lit", "S", 7, 1, Lit("STRING", v), <<v>>) : v \in LitS}
  \cup {Prd("lit", "Top", 0, 1, Asg("=", Id("_"), Lit("IMAG", v)), <<"_", "=", v>>) : v \in LitC}

AllProds == ExprProds \cup CtxProds \cup CondLitProds \cup StmtProds \cup DeclProds \cup LitProds

(* The foci.  label: exported with each case; fams: enabled production families; budget: max total cost of the       *)
(* productions of one tree; moves / kinds: layout moves applied to a finished tree; wrap: "stmts" (fragment = body   *)
(* of a function) | "decls" (fragment = top-level declarations).                                                     *)
Fo(label, fams, budget, mv, kinds, wrap) == [label |-> label, fams |-> fams, budget |-> budget, moves |-> mv, kinds |-> kinds, wrap |-> wrap]
FExpr == {"leaf", "arith", "cmp", "logic", "unary", "paren", "call", "sel", "index", "slice", "assert", "complit", "funclit", "conv", "ctx"}
FCore == {"leaf", "arith", "cmp", "logic", "unary", "paren", "ctx"}
FStmtL == {"leaf", "top", "stmt", "assign", "incdec", "define", "if", "for", "range", "switch", "typeswitch", "select", "label", "defergo",
           "return", "block", "declstmt", "send", "exprstmt", "branch"}
FStmt == FStmtL \cup {"opassign", "empty"}
FNest == {"leaf", "top", "stmt", "assign", "if", "for", "range", "switch", "select", "label", "branch", "return", "block", "send"}
FDecl == {"leaf", "topd", "func", "method", "typedecl", "constdecl", "vardecl", "type"}
FGen == {"leaf", "topd", "seqd", "generic", "typedecl", "func", "type"}
KAll == {"loosen", "tighten", "break", "comment", "linecomment", "semi"}
KExpr == {"loosen", "tighten", "break", "comment", "linecomment"}
FocusNames == {"expr2", "stmt2", "oneline2", "laystmt1", "layexpr1", "decl2", "generic1", "lit1",
               "exprcore3", "stmtnest3", "stmtseq2", "onelineseq2", "laystmt1x2", "layexpr2", "decl3", "laydecl2", "generic2", "lit2",
               "exprsim4", "stmtsim5",
               "rtdecl2", "rtgeneric1", "rtdecl3", "rtvalues3", "rtgeneric2"}
FocusTab == TLCEval([f \in FocusNames |->
   CASE f = "expr2"      -> Fo("expr", FExpr, 2, 0, {}, "stmts")
     [] f = "stmt2"      -> Fo("stmt", FStmt, 2, 0, {}, "stmts")
     [] f = "oneline2"   -> Fo("layout-oneline", FStmtL, 2, 1, {"oneline"}, "stmts")
     [] f = "laystmt1"   -> Fo("layout-stmt", FStmtL, 1, 1, KAll, "stmts")
     [] f = "layexpr1"   -> Fo("layout-expr", FExpr, 1, 1, KExpr, "stmts")
     [] f = "decl2"      -> Fo("decl", FDecl, 2, 0, {}, "decls")
     [] f = "generic1"   -> Fo("generic", {"leaf", "topd", "generic"}, 1, 0, {}, "decls")
     [] f = "lit1"       -> Fo("lit", {"leaf", "ctx", "lit", "arith", "call"}, 1, 0, {}, "stmts")
     [] f = "exprcore3"  -> Fo("expr-core", FCore, 3, 0, {}, "stmts")
     [] f = "stmtnest3"  -> Fo("stmt-nest", FNest, 3, 0, {}, "stmts")
     [] f = "stmtseq2"   -> Fo("stmt-seq", FStmt \cup {"seq"}, 2, 0, {}, "stmts")
     [] f = "onelineseq2" -> Fo("layout-oneline", FStmtL \cup {"seq"}, 2, 1, {"oneline"}, "stmts")
     [] f = "laystmt1x2" -> Fo("layout-stmt", FStmtL, 1, 2, KAll, "stmts")
     [] f = "layexpr2"   -> Fo("layout-expr", FExpr \ {"funclit", "conv"}, 2, 1, {"loosen", "tighten", "break", "comment"}, "stmts")
     [] f = "decl3"      -> Fo("decl", FDecl \cup {"seqd"}, 3, 0, {}, "decls")
     [] f = "laydecl2"   -> Fo("layout-decl", FDecl, 2, 1, KAll \cup {"oneline"}, "decls")
     [] f = "generic2"   -> Fo("generic", FGen, 2, 0, {}, "decls")
     [] f = "lit2"       -> Fo("lit", {"leaf", "ctx", "lit", "arith", "call", "cmp", "unary", "paren"}, 2, 0, {}, "stmts")
     [] f = "exprsim4"   -> Fo("expr-sim", FExpr, 4, 0, {}, "stmts")
     [] f = "stmtsim5"   -> Fo("stmt-sim", FStmt \cup {"seq", "arith", "cmp", "logic", "unary", "call", "index", "sel"}, 5, 0, {}, "stmts")
     [] f = "rtdecl2"    -> Fo("decl", FDecl \cup {"funclit", "complit"}, 2, 0, {}, "decls")
     [] f = "rtgeneric1" -> Fo("generic", {"leaf", "topd", "generic"}, 1, 0, {}, "decls")
     [] f = "rtdecl3"    -> Fo("decl", FDecl \cup {"seqd"}, 3, 0, {}, "decls")
     [] f = "rtvalues3"  -> Fo("decl-values", FDecl \cup {"funclit", "complit", "call", "arith", "unary", "conv", "sel", "index"}, 3, 0, {}, "decls")
     [] f = "rtgeneric2" -> Fo("generic", FGen, 2, 0, {}, "decls")])
ASSUME Foci \subseteq FocusNames /\ InjFoci \subseteq Foci
ProdsFor == TLCEval([f \in Foci |-> [h \in HoleNames |->
   {p \in AllProds : p.fam \in FocusTab[f].fams /\ Accepts(HoleInfo[h][1], p.sort) /\ p.lvl >= HoleInfo[h][2]}]])

-----------------------------------------------------------------------------
(* Position-dependent names: a leaf takes the identifier of its sort selected by the position of  *)
(* the hole; "fresh" placeholders (local variables, labels, declared names) get the position as   *)
(* a suffix, so two instances never clash.                                                        *)
NameTab == TLCEval([ph \in {"#Ty0", "#AI", "#B", "#S", "#P", "#PP", "#L", "#M", "#C", "#T", "#PT", "#LT", "#X", "#Fn", "#F"} |->
   CASE ph = "#Ty0" -> <<"int", "string", "T">> [] ph = "#AI" -> <<"a", "b", "n">>  [] ph = "#B" -> <<"c", "d">>   [] ph = "#S" -> <<"s", "r">>
     [] ph = "#P" -> <<"p", "q">>        [] ph = "#PP" -> <<"pp">>      [] ph = "#L" -> <<"l", "u">>
     [] ph = "#M" -> <<"m">>             [] ph = "#C" -> <<"ch">>       [] ph = "#T" -> <<"t">>
     [] ph = "#PT" -> <<"pt">>           [] ph = "#LT" -> <<"lt">>      [] ph = "#X" -> <<"x", "y">>
     [] ph = "#Fn" -> <<"f">>            [] ph = "#F" -> <<"fl">>])
FreshTab == TLCEval([ph \in {"#z", "#w", "#k", "#Lb", "#Fu", "#Ty", "#V", "#K"} |->
   CASE ph = "#z" -> "z" [] ph = "#w" -> "w" [] ph = "#k" -> "k" [] ph = "#Lb" -> "L"
     [] ph = "#Fu" -> "F" [] ph = "#Ty" -> "U" [] ph = "#V" -> "V" [] ph = "#K" -> "K"])
Subst(seq, i) == [k \in 1..Len(seq) |->
   LET e == seq[k] IN
   IF e \in DOMAIN NameTab THEN NameTab[e][(i % Len(NameTab[e])) + 1]
   ELSE IF e \in DOMAIN FreshTab THEN FreshTab[e] \o ToString(i) ELSE e]

-----------------------------------------------------------------------------
(* The derivation machine *)
VARIABLES foc, sx, tk, used, phase, lay, moves, lastpos
vars == <<foc, sx, tk, used, phase, lay, moves, lastpos>>

Min(S) == CHOOSE i \in S : \A j \in S : i <= j
FirstHole(seq) == LET hs == {i \in 1..Len(seq) : IsHole(seq[i])} IN IF hs = {} THEN 0 ELSE Min(hs)
Splice(seq, i, r) == SubSeq(seq, 1, i - 1) \o r \o SubSeq(seq, i + 1, Len(seq))
Holes(seq) == SelectSeq(seq, IsHole)

\* all successors of a derivation state [sx, tk, used]: every applicable production at the leftmost hole
Apply(s, p, i, j) ==
  [sx |-> Splice(s.sx, j, Subst(p.sx, i)), tk |-> Splice(s.tk, i, Subst(p.tk, i)), used |-> s.used + p.cost]
Usable(f, s, i) == {q \in ProdsFor[f][s.tk[i]] : s.used + q.cost <= FocusTab[f].budget}
DeriveSucc(f, s) ==
  LET i == FirstHole(s.tk) j == FirstHole(s.sx) IN
  IF i = 0 THEN {} ELSE {Apply(s, p, i, j) : p \in Usable(f, s, i)}

Start == [sx |-> <<H("Top", 0)>>, tk |-> <<H("Top", 0)>>, used |-> 0]

Init == /\ foc \in Foci
        /\ sx = Start.sx /\ tk = Start.tk /\ used = 0
        /\ phase = "derive" /\ lay = <<>> /\ moves = 0 /\ lastpos = 0

HoleClass == LET i == FirstHole(tk) IN
   IF i = 0 THEN "none"
   ELSE LET s == HoleInfo[tk[i]][1] IN
        IF s \in ExprSorts THEN "expr"
        ELSE IF s \in {"St", "Stf", "Sts", "SL", "SLf", "SLs", "Top"} THEN "stmt"
        ELSE IF s \in {"Ty"} THEN "type" ELSE "decl"
Step == LET cur == [sx |-> sx, tk |-> tk, used |-> used]
            i == FirstHole(tk)  j == FirstHole(sx) IN
        \E p \in Usable(foc, cur, i) :
           LET t == Apply(cur, p, i, j) IN
           /\ sx' = t.sx /\ tk' = t.tk /\ used' = t.used
           /\ UNCHANGED <<foc, phase, lay, moves, lastpos>>
ExpandExpr == phase = "derive" /\ HoleClass = "expr" /\ Step   \* parser.go: parseBinaryExpr/parseUnaryExpr/parsePrimaryExpr/parseOperand
ExpandStmt == phase = "derive" /\ HoleClass = "stmt" /\ Step   \* parser.go: parseStmt, parseSimpleStmtEx, parseIfStmt, parseForStmt, ...
ExpandType == phase = "derive" /\ HoleClass = "type" /\ Step   \* parser.go: tryIdentOrType
ExpandDecl == phase = "derive" /\ HoleClass = "decl" /\ Step   \* parser.go: parseDecl, parseGenDecl, parseFuncDeclOrCall

-----------------------------------------------------------------------------
(* Finishing: conditional glue is resolved, then the token sequence is put in the alternating    *)
(* form  tok gap tok gap ... tok  with gap in {G, BL, NL, ...}: that is Tokens(tree).            *)
BadGlue == {<<"+", "+">>, <<"-", "-">>, <<"&", "&">>, <<"&", "^">>}
Resolve(seq) == [k \in 1..Len(seq) |->
   IF seq[k] # CG THEN seq[k]
   ELSE IF k > 1 /\ k < Len(seq) /\ <<seq[k - 1], seq[k + 1]>> \notin BadGlue THEN G ELSE BL]
Combine(g, m) == IF g = "" THEN "" ELSE IF g = NL \/ m = NL THEN NL ELSE IF m = G \/ g = G THEN G ELSE BL
RECURSIVE Alt(_, _, _)
Alt(seq, k, gap) ==
  IF k > Len(seq) THEN <<>>
  ELSE IF seq[k] \in Marks THEN Alt(seq, k + 1, Combine(gap, seq[k]))
  ELSE (IF gap = "" THEN <<seq[k]>> ELSE <<gap, seq[k]>>) \o Alt(seq, k + 1, BL)
Tokens(seq) == Alt(Resolve(seq), 1, "")

Finish == /\ phase = "derive" /\ FirstHole(tk) = 0
          /\ phase' = "layout" /\ lay' = Tokens(tk)
          /\ UNCHANGED <<foc, sx, tk, used, moves, lastpos>>

-----------------------------------------------------------------------------
(* Layout moves: each changes ONE gap (or the gaps of one block) of a finished tree and leaves   *)
(* the tree alone.  Legality is Go's lexical grammar: semicolon insertion and maximal munch.      *)
NoSemi == {"+", "-", "*", "/", "%", "&", "|", "^", "<<", ">>", "&^", "+=", "-=", "*=", "/=", "%=", "&=", "|=", "^=",
           "<<=", ">>=", "&^=", "&&", "||", "<-", "==", "<", ">", "=", "!", "!=", "<=", ">=", ":=", "...", "(", "[", "{",
           ",", ".", ";", ":", "~", "case", "chan", "const", "default", "defer", "else", "for", "func", "go", "goto", "if",
           "import", "interface", "map", "package", "range", "select", "struct", "switch", "type", "var"}
SemiAfter(t) == t \notin NoSemi                 \* identifiers, literals, break continue fallthrough return ++ -- ) ] }
Punct == {"(", ")", "[", "]", "{", "}", ",", ";"}
Ops == (NoSemi \cup {"++", "--"}) \ {"case", "chan", "const", "default", "defer", "else", "for", "func", "go", "goto", "if",
           "import", "interface", "map", "package", "range", "select", "struct", "switch", "type", "var"}
IsWord(t) == t \notin Ops /\ t \notin Punct
GlueSafe(a, b) == \/ a \in Punct \/ b \in Punct
                  \/ (IsWord(a) /\ b \in Ops /\ b # ".")
                  \/ (a \in Ops /\ a # "." /\ IsWord(b))
GapPos == {j \in 1..Len(lay) : j % 2 = 0}
SetGap(j, g) == /\ lay' = [lay EXCEPT ![j] = g] /\ moves' = moves + 1 /\ lastpos' = j
                /\ UNCHANGED <<foc, sx, tk, used, phase>>
CanMove(kind) == phase = "layout" /\ moves < FocusTab[foc].moves /\ kind \in FocusTab[foc].kinds
Loosen  == CanMove("loosen")  /\ \E j \in GapPos : j > lastpos /\ lay[j] = G /\ SetGap(j, BL)
Tighten == CanMove("tighten") /\ \E j \in GapPos : j > lastpos /\ lay[j] = BL /\ GlueSafe(lay[j - 1], lay[j + 1]) /\ SetGap(j, G)
Break   == CanMove("break")   /\ \E j \in GapPos : j > lastpos /\ lay[j] \in {G, BL} /\ ~SemiAfter(lay[j - 1]) /\ SetGap(j, NL)
Comment == CanMove("comment") /\ \E j \in GapPos : j > lastpos /\ lay[j] \in {G, BL} /\ SetGap(j, IF lay[j] = G THEN "<gc>" ELSE "<c>")
LineComment == CanMove("linecomment") /\ \E j \in GapPos : j > lastpos /\ (lay[j] = NL \/ (lay[j] = BL /\ ~SemiAfter(lay[j - 1]))) /\ SetGap(j, "<lc>")
Semi    == CanMove("semi")    /\ \E j \in GapPos : j > lastpos /\ lay[j] = NL /\ SemiAfter(lay[j - 1]) /\ lay[j + 1] # "}" /\ SetGap(j, "<;>")
\* the block opened at token j-1 = "{" is put on one line
Depth(a, b) == Cardinality({k \in a..b : k % 2 = 1 /\ lay[k] = "{"}) - Cardinality({k \in a..b : k % 2 = 1 /\ lay[k] = "}"})
Closer(j) == Min({k \in (j + 1)..Len(lay) : k % 2 = 1 /\ lay[k] = "}" /\ Cardinality({m \in (j - 1)..k : m % 2 = 1 /\ lay[m] = "{"})
                                                              = Cardinality({m \in (j - 1)..k : m % 2 = 1 /\ lay[m] = "}"})})
OneLine == CanMove("oneline") /\ \E j \in GapPos : j > lastpos /\ lay[j] = NL /\ lay[j - 1] = "{" /\
             LET e == Closer(j) IN
             /\ lay' = [k \in 1..Len(lay) |->
                   IF k % 2 = 0 /\ k >= j /\ k < e /\ lay[k] = NL
                   THEN (IF ~SemiAfter(lay[k - 1]) \/ lay[k + 1] = "}" THEN BL ELSE "<;>")
                   ELSE lay[k]]
             /\ moves' = moves + 1 /\ lastpos' = j /\ UNCHANGED <<foc, sx, tk, used, phase>>
LayoutStep == Loosen \/ Tighten \/ Break \/ Comment \/ LineComment \/ Semi \/ OneLine

Next == ExpandExpr \/ ExpandStmt \/ ExpandType \/ ExpandDecl \/ Finish \/ LayoutStep
Spec == Init /\ [][Next]_vars

-----------------------------------------------------------------------------
(* What TLC checks on the model *)
Toks(l) == [k \in 1..((Len(l) + 1) \div 2) |-> l[2 * k - 1]]
SyncHoles == phase = "derive" => Holes(sx) = Holes(tk)       \* the two sentential forms are rewritten in lock step
WithinBudget == used <= FocusTab[foc].budget /\ moves <= FocusTab[foc].moves
ExportedComplete == phase = "layout" =>
   /\ FirstHole(sx) = 0 /\ FirstHole(tk) = 0
   /\ (Len(lay) % 2 = 1 \/ lay = <<>>)
   /\ \A k \in 1..Len(lay) : (k % 2 = 0) <=> (lay[k] \in Marks)
   /\ Toks(lay) = Toks(Tokens(tk))
\* a layout move is a stuttering step on the tree and on the token sequence
LayoutStutters == [][phase = "layout" /\ phase' = "layout" => sx' = sx /\ Toks(lay') = Toks(lay)]_vars

\* unambiguity of the focus: Tokens is injective on the finished trees (closure of the same successor relation)
RECURSIVE Closure(_, _, _)
Closure(f, front, acc) == IF front = {} THEN acc
   ELSE Closure(f, UNION {DeriveSucc(f, s) : s \in front}, acc \cup {s \in front : FirstHole(s.tk) = 0})
Finished(f) == Closure(f, {Start}, {})
\* (on the bare token sequence: spacing must not be needed to tell two trees apart)
Unambiguous(f) == LET F == Finished(f) IN Cardinality({Toks(Tokens(s.tk)) : s \in F}) = Cardinality({s.sx : s \in F})
ASSUME \A f \in InjFoci : Unambiguous(f)

Export == phase = "layout" =>
   Emit([focus |-> FocusTab[foc].label, wrap |-> FocusTab[foc].wrap, sx |-> sx, text |-> lay, moves |-> moves, cost |-> used])
=============================================================================
