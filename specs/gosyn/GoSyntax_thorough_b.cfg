SPECIFICATION Spec
CONSTANTS
  Foci = {"stmtnest3", "onelineseq2", "laystmt1x2", "laydecl2"}
  InjFoci = {}
INVARIANTS SyncHoles WithinBudget ExportedComplete Export
PROPERTY LayoutStutters
