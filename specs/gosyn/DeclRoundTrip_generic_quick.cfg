SPECIFICATION RSpec
CONSTANTS
  Focus = "generic"
  Families = {"leaf","topd","generic"}
  Budget = 1
  LayoutMoves = 0
  LayoutKinds = {}
  Wrap = "decls"
  CheckInjective = FALSE
  TogoCopiesTypeParams = @@TP@@
  TogoHandlesIndexList = @@IL@@
  NilForNoNames = @@NN@@
INVARIANTS SyncHoles WithinBudget ExportedComplete LossExplained PanicExplained RExport
PROPERTIES ConvStutters FromGoIsIdentity
