SPECIFICATION Spec
CONSTANTS
  Focus = "lit"
  Families = {"leaf","ctx","lit","arith","call"}
  Budget = 1
  LayoutMoves = 0
  LayoutKinds = {}
  Wrap = "stmts"
  CheckInjective = TRUE
INVARIANTS SyncHoles WithinBudget ExportedComplete Export
PROPERTY LayoutStutters
