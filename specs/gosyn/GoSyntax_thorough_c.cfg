SPECIFICATION Spec
CONSTANTS
  Foci = {"layexpr2"}
  InjFoci = {}
INVARIANTS SyncHoles WithinBudget ExportedComplete Export
PROPERTY LayoutStutters
