SPECIFICATION Spec
CONSTANTS
  Focus = "decl"
  Families = {"leaf","topd","func","method","typedecl","constdecl","vardecl","type"}
  Budget = 2
  LayoutMoves = 0
  LayoutKinds = {}
  Wrap = "decls"
  CheckInjective = TRUE
INVARIANTS SyncHoles WithinBudget ExportedComplete Export
PROPERTY LayoutStutters
