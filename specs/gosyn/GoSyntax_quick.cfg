SPECIFICATION Spec
CONSTANTS
  Foci = {"expr2", "stmt2", "oneline2", "laystmt1", "layexpr1", "decl2", "generic1", "lit1"}
  InjFoci = {"laystmt1", "layexpr1", "decl2", "generic1", "lit1"}
INVARIANTS SyncHoles WithinBudget ExportedComplete Export
PROPERTY LayoutStutters
