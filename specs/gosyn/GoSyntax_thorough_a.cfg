SPECIFICATION Spec
CONSTANTS
  Foci = {"expr2", "exprcore3", "stmt2", "stmtseq2", "decl3", "generic2", "lit2"}
  InjFoci = {"expr2", "generic2"}
INVARIANTS SyncHoles WithinBudget ExportedComplete Export
PROPERTY LayoutStutters
