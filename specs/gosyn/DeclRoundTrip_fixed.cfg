SPECIFICATION RSpec
CONSTANTS
  Foci = {"rtgeneric2"}
  InjFoci = {}
  TogoCopiesTypeParams = TRUE
  TogoHandlesIndexList = TRUE
  NilForNoNames = TRUE
INVARIANTS SyncHoles WithinBudget ExportedComplete Lossless NoPanic
PROPERTIES ConvStutters FromGoIsIdentity
