SPECIFICATION RSpec
CONSTANTS
  Focus = "generic-fixed"
  Families = {"leaf","topd","seqd","generic","typedecl","func","type"}
  Budget = 2
  LayoutMoves = 0
  LayoutKinds = {}
  Wrap = "decls"
  CheckInjective = FALSE
  TogoCopiesTypeParams = TRUE
  TogoHandlesIndexList = TRUE
  NilForNoNames = TRUE
INVARIANTS SyncHoles WithinBudget ExportedComplete Lossless NoPanic
PROPERTIES ConvStutters FromGoIsIdentity
