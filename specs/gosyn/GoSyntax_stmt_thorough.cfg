SPECIFICATION Spec
CONSTANTS
  Focus = "stmt"
  Families = {"leaf","top","stmt","assign","incdec","opassign","define","if","for","range","switch","typeswitch","select","label","defergo","return","block","declstmt","send","exprstmt","empty","branch","seq"}
  Budget = 3
  LayoutMoves = 0
  LayoutKinds = {}
  Wrap = "stmts"
  CheckInjective = FALSE
INVARIANTS SyncHoles WithinBudget ExportedComplete Export
PROPERTY LayoutStutters
