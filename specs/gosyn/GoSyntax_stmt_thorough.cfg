SPECIFICATION Spec
CONSTANTS
  Focus = "stmt-nest"
  Families = {"leaf","top","stmt","assign","if","for","range","switch","select","label","branch","return","block","send"}
  Budget = 3
  LayoutMoves = 0
  LayoutKinds = {}
  Wrap = "stmts"
  CheckInjective = FALSE
INVARIANTS SyncHoles WithinBudget ExportedComplete Export
PROPERTY LayoutStutters
