SPECIFICATION Spec
CONSTANTS
  Focus = "stmt-seq"
  Families = {"leaf","top","stmt","assign","incdec","opassign","define","if","for","range","switch","typeswitch","select","label","defergo","return","block","declstmt","send","exprstmt","empty","branch","seq"}
  Budget = 2
  LayoutMoves = 0
  LayoutKinds = {}
  Wrap = "stmts"
  CheckInjective = FALSE
INVARIANTS SyncHoles WithinBudget ExportedComplete Export
PROPERTY LayoutStutters
