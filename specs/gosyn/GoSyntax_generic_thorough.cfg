SPECIFICATION Spec
CONSTANTS
  Focus = "generic"
  Families = {"leaf","topd","seqd","generic","typedecl","func","type"}
  Budget = 2
  LayoutMoves = 0
  LayoutKinds = {}
  Wrap = "decls"
  CheckInjective = FALSE
INVARIANTS SyncHoles WithinBudget ExportedComplete Export
PROPERTY LayoutStutters
