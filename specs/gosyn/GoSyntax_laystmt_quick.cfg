SPECIFICATION Spec
CONSTANTS
  Focus = "layout-stmt"
  Families = {"leaf","top","stmt","assign","incdec","define","if","for","range","switch","typeswitch","select","label","defergo","return","block","declstmt","send","exprstmt","branch"}
  Budget = 1
  LayoutMoves = 1
  LayoutKinds = {"loosen","tighten","break","comment","linecomment","semi"}
  Wrap = "stmts"
  CheckInjective = TRUE
INVARIANTS SyncHoles WithinBudget ExportedComplete Export
PROPERTY LayoutStutters
