SPECIFICATION Spec
CONSTANTS
  Focus = "layout-decl"
  Families = {"leaf","topd","func","method","typedecl","constdecl","vardecl","type"}
  Budget = 2
  LayoutMoves = 1
  LayoutKinds = {"loosen","tighten","break","comment","linecomment","semi","oneline"}
  Wrap = "decls"
  CheckInjective = FALSE
INVARIANTS SyncHoles WithinBudget ExportedComplete Export
PROPERTY LayoutStutters
