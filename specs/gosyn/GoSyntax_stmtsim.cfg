SPECIFICATION Spec
CONSTANTS
  Foci = {"stmtsim5"}
  InjFoci = {}
INVARIANTS SyncHoles WithinBudget ExportedComplete Export
PROPERTY LayoutStutters
