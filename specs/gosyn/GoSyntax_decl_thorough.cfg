SPECIFICATION Spec
CONSTANTS
  Focus = "decl"
  Families = {"leaf","topd","func","method","typedecl","constdecl","vardecl","type","seqd"}
  Budget = 3
  LayoutMoves = 0
  LayoutKinds = {}
  Wrap = "decls"
  CheckInjective = FALSE
INVARIANTS SyncHoles WithinBudget ExportedComplete Export
PROPERTY LayoutStutters
