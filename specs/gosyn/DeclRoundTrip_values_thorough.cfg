SPECIFICATION RSpec
CONSTANTS
  Focus = "decl-values"
  Families = {"leaf","topd","func","method","typedecl","constdecl","vardecl","type","funclit","complit","call","arith","unary","conv","sel","index"}
  Budget = 3
  LayoutMoves = 0
  LayoutKinds = {}
  Wrap = "decls"
  CheckInjective = FALSE
  TogoCopiesTypeParams = @@TP@@
  TogoHandlesIndexList = @@IL@@
  NilForNoNames = @@NN@@
INVARIANTS SyncHoles WithinBudget ExportedComplete LossExplained PanicExplained RExport
PROPERTIES ConvStutters FromGoIsIdentity
