SPECIFICATION Spec
CONSTANTS
  Focus = "generic"
  Families = {"leaf","topd","generic"}
  Budget = 1
  LayoutMoves = 0
  LayoutKinds = {}
  Wrap = "decls"
  CheckInjective = TRUE
INVARIANTS SyncHoles WithinBudget ExportedComplete Export
PROPERTY LayoutStutters
