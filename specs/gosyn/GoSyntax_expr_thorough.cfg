SPECIFICATION Spec
CONSTANTS
  Focus = "expr"
  Families = {"leaf","arith","cmp","logic","unary","paren","call","sel","index","slice","assert","complit","funclit","conv","ctx"}
  Budget = 2
  LayoutMoves = 0
  LayoutKinds = {}
  Wrap = "stmts"
  CheckInjective = TRUE
INVARIANTS SyncHoles WithinBudget ExportedComplete Export
PROPERTY LayoutStutters
