SPECIFICATION Spec
CONSTANTS
  Focus = "stmt-sim"
  Families = {"leaf","top","stmt","assign","incdec","opassign","define","if","for","range","switch","typeswitch","select","label","defergo","return","block","declstmt","send","exprstmt","empty","branch","seq","arith","cmp","logic","unary","call","index","sel"}
  Budget = 5
  LayoutMoves = 0
  LayoutKinds = {}
  Wrap = "stmts"
  CheckInjective = FALSE
INVARIANTS SyncHoles WithinBudget ExportedComplete Export
PROPERTY LayoutStutters
