SPECIFICATION RSpec
CONSTANTS
  Focus = "decl"
  Families = {"leaf","topd","func","method","typedecl","constdecl","vardecl","type","funclit","complit","call","arith"}
  Budget = 2
  LayoutMoves = 0
  LayoutKinds = {}
  Wrap = "decls"
  CheckInjective = FALSE
  TogoCopiesTypeParams = FALSE
  TogoHandlesIndexList = FALSE
  NilForNoNames = FALSE
INVARIANTS SyncHoles WithinBudget ExportedComplete LossExplained PanicExplained RExport
PROPERTIES ConvStutters FromGoIsIdentity
