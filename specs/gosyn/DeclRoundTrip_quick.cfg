SPECIFICATION RSpec
CONSTANTS
  Foci = {"rtdecl2", "rtgeneric1"}
  InjFoci = {}
  TogoCopiesTypeParams = @@TP@@
  TogoHandlesIndexList = @@IL@@
  NilForNoNames = @@NN@@
INVARIANTS SyncHoles WithinBudget ExportedComplete LossExplained PanicExplained RExport
PROPERTIES ConvStutters FromGoIsIdentity
