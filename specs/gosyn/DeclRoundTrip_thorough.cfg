SPECIFICATION RSpec
CONSTANTS
  Foci = {"rtdecl3", "rtvalues3", "rtgeneric2"}
  InjFoci = {}
  TogoCopiesTypeParams = @@TP@@
  TogoHandlesIndexList = @@IL@@
  NilForNoNames = @@NN@@
INVARIANTS SyncHoles WithinBudget ExportedComplete LossExplained PanicExplained RExport
PROPERTIES ConvStutters FromGoIsIdentity
