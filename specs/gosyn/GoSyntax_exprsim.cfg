SPECIFICATION Spec
CONSTANTS
  Foci = {"exprsim4"}
  InjFoci = {}
INVARIANTS SyncHoles WithinBudget ExportedComplete Export
PROPERTY LayoutStutters
