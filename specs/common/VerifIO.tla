------------------------------ MODULE VerifIO ------------------------------
(* Shared plumbing: every pattern-A/C spec exports one record per explored   *)
(* input as a line  <<"CASE", "<json>">>  on TLC's stdout.  engine/vlib/tlc.py*)
(* collects them and hands them to the Go harness.                           *)
EXTENDS TLC, Json
Emit(rec) == PrintT(<<"CASE", ToJson(rec)>>)
=============================================================================
