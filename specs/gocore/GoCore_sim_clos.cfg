SPECIFICATION Spec
CONSTANTS
  Tier = "sim"
  Fams = {"clos"}
  MaxSteps = 600
  Predict = TRUE
INVARIANTS Export Terminates StoreOK Predicted
