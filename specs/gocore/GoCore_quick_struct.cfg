SPECIFICATION Spec
CONSTANTS
  Tier = "quick"
  Fams = {"struct"}
  MaxSteps = 600
  Predict = TRUE
INVARIANTS Export Terminates StoreOK Predicted
