SPECIFICATION Spec
CONSTANTS
  Tier = "quick"
  Fams = {"pkginit"}
  MaxSteps = 600
  Predict = TRUE
  MaxMut = 0
  Sugars = {"go"}
INVARIANTS Export Terminates StoreOK Predicted WellTypedInv
