SPECIFICATION Spec
CONSTANTS
  Tier = "thorough"
  Fams = {"assign"}
  MaxSteps = 600
  Predict = TRUE
INVARIANTS Export Terminates StoreOK Predicted
