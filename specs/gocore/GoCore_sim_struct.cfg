SPECIFICATION Spec
CONSTANTS
  Tier = "sim"
  Fams = {"struct"}
  MaxSteps = 600
  Predict = TRUE
INVARIANTS Export Terminates StoreOK Predicted
