SPECIFICATION Spec
CONSTANTS
  Tier = "sim"
  Fams = {"ctl"}
  MaxSteps = 600
  Predict = TRUE
INVARIANTS Export Terminates StoreOK Predicted
