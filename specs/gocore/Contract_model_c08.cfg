SPECIFICATION Spec
CONSTANTS
  Prop = "c08"
  Mode = "model"
  MaxLen = 5
INVARIANTS Refines
PROPERTY Sticky
