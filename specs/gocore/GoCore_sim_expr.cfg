SPECIFICATION Spec
CONSTANTS
  Tier = "sim"
  Fams = {"expr"}
  MaxSteps = 600
  Predict = TRUE
INVARIANTS Export Terminates StoreOK Predicted
