SPECIFICATION Spec
CONSTANTS
  Tier = "sim"
  Fams = {"slice"}
  MaxSteps = 600
  Predict = TRUE
INVARIANTS Export Terminates StoreOK Predicted
