SPECIFICATION Spec
CONSTANTS
  Tier = "sim"
  Fams = {"mix"}
  MaxSteps = 600
  Predict = TRUE
INVARIANTS Export Terminates StoreOK Predicted
