SPECIFICATION Spec
CONSTANTS
  Tier = "quick"
  Fams = {"clos"}
  MaxSteps = 600
  Predict = TRUE
INVARIANTS Export Terminates StoreOK Predicted
