SPECIFICATION Spec
CONSTANTS
  MaxEdits = @@MAXEDITS@@
INVARIANTS WellFormed Export
