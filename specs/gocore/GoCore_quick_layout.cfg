SPECIFICATION Spec
CONSTANTS
  Tier = "quick"
  Fams = {"layout"}
  MaxSteps = 600
  Predict = TRUE
INVARIANTS Export Terminates StoreOK Predicted
