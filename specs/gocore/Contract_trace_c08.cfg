SPECIFICATION Spec
CONSTANTS
  Prop = "c08"
  Mode = "trace"
  MaxLen = 0
INVARIANTS Export
PROPERTY Sticky
