SPECIFICATION Spec
CONSTANTS
  Tier = "thorough"
  Fams = {"struct"}
  MaxSteps = 600
  Predict = TRUE
INVARIANTS Export Terminates StoreOK Predicted
