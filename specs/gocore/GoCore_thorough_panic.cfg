SPECIFICATION Spec
CONSTANTS
  Tier = "thorough"
  Fams = {"panic"}
  MaxSteps = 600
  Predict = TRUE
INVARIANTS Export Terminates StoreOK Predicted
