SPECIFICATION Spec
CONSTANTS
  Tier = "quick"
  Fams = {"*"}
  MaxSteps = 600
  Predict = FALSE
  MaxMut = 0
  Sugars = {"echo", "full"}
INVARIANTS Export Terminates StoreOK Predicted WellTypedInv
