SPECIFICATION Spec
CONSTANTS
  Tier = "quick"
  Fams = {"*"}
  MaxSteps = 600
  Predict = FALSE
  MaxMut = 0
  Sugars = {"go", "echo", "script", "full"}
INVARIANTS Export Terminates StoreOK Predicted WellTypedInv
