SPECIFICATION Spec
CONSTANTS
  Tier = "thorough"
  Fams = {"expr"}
  MaxSteps = 600
  Predict = TRUE
INVARIANTS Export Terminates StoreOK Predicted
