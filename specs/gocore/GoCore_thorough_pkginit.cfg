SPECIFICATION Spec
CONSTANTS
  Tier = "thorough"
  Fams = {"pkginit"}
  MaxSteps = 600
  Predict = TRUE
  MaxMut = 0
  Sugars = {"go"}
INVARIANTS Export Terminates StoreOK Predicted WellTypedInv
