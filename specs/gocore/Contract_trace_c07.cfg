SPECIFICATION Spec
CONSTANTS
  Prop = "c07"
  Mode = "trace"
  MaxLen = 0
INVARIANTS Export
PROPERTY Sticky
