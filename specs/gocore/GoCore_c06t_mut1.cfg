SPECIFICATION Spec
CONSTANTS
  Tier = "mut"
  Fams = {"*"}
  MaxSteps = 600
  Predict = FALSE
  MaxMut = 1
  Sugars = {"go", "full"}
INVARIANTS Export Terminates StoreOK Predicted WellTypedInv
