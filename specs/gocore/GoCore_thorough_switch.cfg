SPECIFICATION Spec
CONSTANTS
  Tier = "thorough"
  Fams = {"switch"}
  MaxSteps = 600
  Predict = TRUE
INVARIANTS Export Terminates StoreOK Predicted
