SPECIFICATION Spec
CONSTANTS
  NProc = 20
  NRep = 2
INVARIANTS IsPermutation TwoOfAKind Export
