------------------------------ MODULE Contract ------------------------------
(* C06 / C07 / C08 -- outcome contracts of the compiler as history specs.     *)
(*                                                                           *)
(* The harness (gocoreh c06|c07|c08) records one OUTCOME TRACE per compiled  *)
(* package: a "reset" record followed by the events it observed on the real  *)
(* code.  All traces of a run are concatenated into trace.ndjson and this    *)
(* spec replays them (Mode = "trace"): the automaton below accepts exactly   *)
(* the histories the property allows; a trace that leaves it is rejected and *)
(* its number is exported.  The engine requires the set of rejected traces   *)
(* to be exactly the set of cases the harness reported as violations.        *)
(*                                                                           *)
(* Mode = "model": TLC enumerates every event sequence up to MaxLen and      *)
(* proves that the automaton (Step) accepts a history iff the declarative    *)
(* contract (Allowed) holds for it -- the automaton IS the property.         *)
(*                                                                           *)
(* Event record: [ev, r, pos, pkg, h]                                        *)
(*  C06  ev in compile|goparse|gotypes|gobuild    r in ok|err                *)
(*  C07  ev in compile|build                      r in pkg|errs|ok|err|PANIC|FATAL|TIMEOUT ; pos in in|out|na *)
(*  C08  ev = obs   pkg = package id   h = hash of (Go output, error list)   *)
EXTENDS Integers, Sequences, FiniteSets, TLC, Json, VerifIO

CONSTANTS Prop,    \* "c06" | "c07" | "c08"
          Mode,    \* "trace" | "model"
          MaxLen   \* model mode: longest history enumerated

Ev(ev, r, pos, pkg, h) == [ev |-> ev, r |-> r, pos |-> pos, pkg |-> pkg, h |-> h]

-----------------------------------------------------------------------------
\* The declarative contracts (what the property statements say)
IsPrefix(p, q) == Len(p) <= Len(q) /\ \A i \in 1..Len(p) : p[i] = q[i]
Proj(hist) == [i \in 1..Len(hist) |-> <<hist[i].ev, hist[i].r>>]

\* C06: Compile -> Err   or   Compile -> Ok -> GoParse Ok -> GoTypes Ok -> GoBuild Ok   (and prefixes)
AllowedC06(hist) ==
  \/ IsPrefix(Proj(hist), <<<<"compile", "err">>>>)
  \/ IsPrefix(Proj(hist), <<<<"compile", "ok">>, <<"goparse", "ok">>, <<"gotypes", "ok">>, <<"gobuild", "ok">>>>)

\* C07: every compile returns a package or an error list, error positions inside the files; the
\* build helpers return a value or an error
AllowedC07(hist) ==
  \A i \in 1..Len(hist) :
     \/ hist[i].ev = "compile" /\ hist[i].r \in {"pkg", "errs"} /\ hist[i].pos # "out"
     \/ hist[i].ev = "build" /\ hist[i].r \in {"ok", "err"}

\* C08: every observation of a package equals the first one
AllowedC08(hist) ==
  \A i \in 1..Len(hist) : \A j \in 1..Len(hist) :
     hist[i].ev = "obs" /\ hist[j].ev = "obs" /\ hist[i].pkg = hist[j].pkg => hist[i].h = hist[j].h

Allowed(hist) == CASE Prop = "c06" -> AllowedC06(hist) [] Prop = "c07" -> AllowedC07(hist) [] OTHER -> AllowedC08(hist)

-----------------------------------------------------------------------------
\* The automaton: st = state of the current trace, first = history variable of C08
C06Next(st, e) ==
  CASE st = "start" /\ e.ev = "compile" /\ e.r = "err" -> "end"
    [] st = "start" /\ e.ev = "compile" /\ e.r = "ok" -> "compiled"
    [] st = "compiled" /\ e.ev = "goparse" /\ e.r = "ok" -> "parsed"
    [] st = "parsed" /\ e.ev = "gotypes" /\ e.r = "ok" -> "typed"
    [] st = "typed" /\ e.ev = "gobuild" /\ e.r = "ok" -> "end"
    [] OTHER -> "bad"
C07Next(st, e) ==
  IF st = "bad" THEN "bad"
  ELSE IF e.ev = "compile" /\ e.r \in {"pkg", "errs"} /\ e.pos # "out" THEN "run"
  ELSE IF e.ev = "build" /\ e.r \in {"ok", "err"} THEN "run"
  ELSE "bad"

VARIABLES i,      \* next trace line (trace mode) / length of hist (model mode)
          st,     \* automaton state of the current trace
          first,  \* C08: pkg -> first observation (function with growing domain)
          bad,    \* numbers of the rejected traces
          nt,     \* number of traces started
          hist    \* model mode: the history generated so far
vars == <<i, st, first, bad, nt, hist>>

Trace == IF Mode = "trace" THEN ndJsonDeserialize("trace.ndjson") ELSE <<>>

StepEv(e) ==
  IF e.ev = "reset"
  THEN /\ st' = "start" /\ nt' = nt + 1 /\ UNCHANGED <<first, bad>>
  ELSE IF Prop = "c08"
  THEN /\ IF e.pkg \in DOMAIN first
          THEN /\ first' = first
               /\ IF first[e.pkg] = e.h THEN st' = st /\ bad' = bad ELSE st' = "bad" /\ bad' = bad \cup {nt}
          ELSE first' = (e.pkg :> e.h) @@ first /\ st' = st /\ bad' = bad
       /\ nt' = nt
  ELSE LET s2 == IF Prop = "c06" THEN C06Next(st, e) ELSE C07Next(st, e) IN
       /\ st' = s2 /\ bad' = IF s2 = "bad" THEN bad \cup {nt} ELSE bad
       /\ UNCHANGED <<first, nt>>

Init == /\ i = 1 /\ st = "start" /\ first = <<>> /\ bad = {} /\ nt = 0 /\ hist = <<>>

\* trace mode: consume the next recorded event
ReadNext == /\ Mode = "trace" /\ i <= Len(Trace)
            /\ StepEv(Trace[i]) /\ i' = i + 1 /\ UNCHANGED hist

\* model mode: any event may come next
Alphabet ==
  CASE Prop = "c06" -> {Ev(ev, r, "na", 0, "") : ev \in {"compile", "goparse", "gotypes", "gobuild"}, r \in {"ok", "err"}}
    [] Prop = "c07" -> {Ev("compile", r, p, 0, "") : r \in {"pkg", "errs", "PANIC", "FATAL", "TIMEOUT"}, p \in {"in", "out", "na"}}
                       \cup {Ev("build", r, "na", 0, "") : r \in {"ok", "err", "PANIC", "FATAL", "TIMEOUT"}}
    [] OTHER -> {Ev("obs", "", "na", p, h) : p \in {1, 2}, h \in {"x", "y"}}
Generate == /\ Mode = "model" /\ Len(hist) < MaxLen
            /\ \E e \in Alphabet : StepEv(e) /\ hist' = Append(hist, e)
            /\ i' = i + 1

Next == ReadNext \/ Generate
Spec == Init /\ [][Next]_vars

\* THEOREM (checked by TLC in model mode): the automaton rejects exactly the histories the declarative
\* contract forbids
Refines == Mode = "model" => ((bad = {}) <=> Allowed(hist))
\* once rejected, always rejected (a violation cannot be masked by later events)
Sticky == [][bad \subseteq bad']_vars

Export == Mode = "trace" /\ i > Len(Trace) => Emit([prop |-> Prop, traces |-> nt, events |-> Len(Trace), bad |-> bad])
=============================================================================
