SPECIFICATION Spec
CONSTANTS
  Tier = "mut"
  Fams = {"pair"}
  MaxSteps = 600
  Predict = FALSE
  MaxMut = 2
  Sugars = {"echo", "script"}
INVARIANTS Export Terminates StoreOK Predicted WellTypedInv
