SPECIFICATION Spec
CONSTANTS
  Tier = "mut2"
  Fams = {"pair", "clos"}
  MaxSteps = 600
  Predict = FALSE
  MaxMut = 2
  Sugars = {"echo"}
INVARIANTS Export Terminates StoreOK Predicted WellTypedInv
