SPECIFICATION Spec
CONSTANTS
  Tier = "sim"
  Fams = {"*"}
  MaxSteps = 600
  Predict = TRUE
INVARIANTS Export Terminates StoreOK Predicted
