SPECIFICATION Spec
CONSTANTS
  Tier = "thorough"
  Fams = {"defer"}
  MaxSteps = 600
  Predict = TRUE
INVARIANTS Export Terminates StoreOK Predicted
