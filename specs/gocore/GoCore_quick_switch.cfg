SPECIFICATION Spec
CONSTANTS
  Tier = "quick"
  Fams = {"switch"}
  MaxSteps = 600
  Predict = TRUE
INVARIANTS Export Terminates StoreOK Predicted
