SPECIFICATION Spec
CONSTANTS
  Tier = "quick"
  Fams = {"ctl"}
  MaxSteps = 600
  Predict = TRUE
INVARIANTS Export Terminates StoreOK Predicted
