SPECIFICATION Spec
CONSTANTS
  Tier = "mut"
  Fams = {"slice", "struct", "clos", "ctl"}
  MaxSteps = 600
  Predict = FALSE
  MaxMut = 1
  Sugars = {"echo"}
INVARIANTS Export Terminates StoreOK Predicted WellTypedInv
