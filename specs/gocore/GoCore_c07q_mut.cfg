SPECIFICATION Spec
CONSTANTS
  Tier = "mut"
  Fams = {"assign", "ctl", "clos"}
  MaxSteps = 600
  Predict = FALSE
  MaxMut = 1
  Sugars = {"echo"}
INVARIANTS Export Terminates StoreOK Predicted WellTypedInv
