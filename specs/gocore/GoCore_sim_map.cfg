SPECIFICATION Spec
CONSTANTS
  Tier = "sim"
  Fams = {"map"}
  MaxSteps = 600
  Predict = TRUE
INVARIANTS Export Terminates StoreOK Predicted
