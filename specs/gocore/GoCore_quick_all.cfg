SPECIFICATION Spec
CONSTANTS
  Tier = "quick"
  Fams = {"*"}
  MaxSteps = 600
  Predict = TRUE
INVARIANTS Export Terminates StoreOK Predicted
