SPECIFICATION Spec
CONSTANTS
  Tier = "thorough"
  Fams = {"bits"}
  MaxSteps = 600
  Predict = TRUE
INVARIANTS Export Terminates StoreOK Predicted
