SPECIFICATION Spec
CONSTANTS
  Tier = "quick"
  Fams = {"label"}
  MaxSteps = 600
  Predict = TRUE
INVARIANTS Export Terminates StoreOK Predicted
