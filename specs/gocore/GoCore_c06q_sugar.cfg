SPECIFICATION Spec
CONSTANTS
  Tier = "quick"
  Fams = {"assign", "slice", "struct", "clos", "ctl", "switch"}
  MaxSteps = 600
  Predict = FALSE
  MaxMut = 0
  Sugars = {"full"}
INVARIANTS Export Terminates StoreOK Predicted WellTypedInv
