SPECIFICATION Spec
CONSTANTS
  Prop = "c06"
  Mode = "trace"
  MaxLen = 0
INVARIANTS Export
PROPERTY Sticky
