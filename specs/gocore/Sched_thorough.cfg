SPECIFICATION Spec
CONSTANTS
  NProc = 60
  NRep = 3
INVARIANTS IsPermutation TwoOfAKind Export
