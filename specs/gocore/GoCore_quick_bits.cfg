SPECIFICATION Spec
CONSTANTS
  Tier = "quick"
  Fams = {"bits"}
  MaxSteps = 600
  Predict = TRUE
INVARIANTS Export Terminates StoreOK Predicted
