SPECIFICATION Spec
CONSTANTS
  Tier = "sim"
  Fams = {"assign"}
  MaxSteps = 600
  Predict = TRUE
  MaxMut = 0
  Sugars = {"go"}
INVARIANTS Export Terminates StoreOK Predicted WellTypedInv
