SPECIFICATION Spec
CONSTANTS
  Tier = "sim"
  Fams = {"assign"}
  MaxSteps = 600
  Predict = TRUE
INVARIANTS Export Terminates StoreOK Predicted
