SPECIFICATION Spec
CONSTANTS
  Tier = "thorough"
  Fams = {"map"}
  MaxSteps = 600
  Predict = TRUE
INVARIANTS Export Terminates StoreOK Predicted
