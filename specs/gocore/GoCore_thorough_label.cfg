SPECIFICATION Spec
CONSTANTS
  Tier = "thorough"
  Fams = {"label"}
  MaxSteps = 600
  Predict = TRUE
INVARIANTS Export Terminates StoreOK Predicted
