SPECIFICATION Spec
CONSTANTS
  Tier = "quick"
  Fams = {"expr"}
  MaxSteps = 600
  Predict = TRUE
INVARIANTS Export Terminates StoreOK Predicted
