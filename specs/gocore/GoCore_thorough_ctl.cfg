SPECIFICATION Spec
CONSTANTS
  Tier = "thorough"
  Fams = {"ctl"}
  MaxSteps = 600
  Predict = TRUE
INVARIANTS Export Terminates StoreOK Predicted
