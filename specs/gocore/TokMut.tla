------------------------------- MODULE TokMut -------------------------------
(* C07 -- the token-level mutation schedule.  The corpus files chosen for a  *)
(* run are abstracted to their token counts (Lens, filled in by the engine   *)
(* from `gocoreh c07-corpus`).  A mutant is a file plus 1..MaxEdits edits;   *)
(* an edit is (op, p): delete token p, duplicate it, swap it with token p+1, *)
(* or replace it by another token of the same class.  Positions refer to the *)
(* ORIGINAL token sequence and are strictly increasing, the harness applies  *)
(* them from the last to the first, so edits never shift each other.         *)
(* TLC enumerates the complete schedule; Coverage states what "all positions"*)
(* means and is checked on the model.                                        *)
EXTENDS Naturals, Sequences, FiniteSets, TLC, VerifIO

CONSTANTS MaxEdits   \* 1 or 2
\* sequence: token count of each chosen corpus file; the engine substitutes the listing of the run
\* (a cfg file cannot hold a tuple)
Lens == @@LENS@@

Ops == {"del", "dup", "swap", "repl"}
VARIABLES file, edits, pc
vars == <<file, edits, pc>>

Legal(f, op, p) == p \in 1..Lens[f] /\ (op = "swap" => p < Lens[f])

Init == /\ file \in 1..Len(Lens) /\ edits = <<>> /\ pc = "edit"
AddEdit == /\ pc = "edit" /\ Len(edits) < MaxEdits
           /\ \E op \in Ops : \E p \in 1..Lens[file] :
                /\ Legal(file, op, p)
                /\ (edits # <<>> => edits[Len(edits)].p < p)
                /\ edits' = Append(edits, [op |-> op, p |-> p])
           /\ UNCHANGED <<file, pc>>
Stop == /\ pc = "edit" /\ edits # <<>> /\ pc' = "done" /\ UNCHANGED <<file, edits>>
Next == AddEdit \/ Stop
Spec == Init /\ [][Next]_vars

\* every derived mutant is well-formed: positions inside the file, increasing, swap has a right neighbour
WellFormed == \A i \in 1..Len(edits) : Legal(file, edits[i].op, edits[i].p) /\ (i > 1 => edits[i - 1].p < edits[i].p)
\* the number of single-edit mutants of file f the schedule must contain (used by the engine as a count check)
Singles(f) == 4 * Lens[f] - 1

Export == pc = "done" => Emit([kind |-> "tokmut", file |-> file, edits |-> edits])
=============================================================================
