SPECIFICATION Spec
CONSTANTS
  Tier = "thorough"
  Fams = {"expr2"}
  MaxSteps = 600
  Predict = TRUE
INVARIANTS Export Terminates StoreOK Predicted
