SPECIFICATION Spec
CONSTANTS
  Tier = "thorough"
  Fams = {"expr2"}
  MaxSteps = 600
  Predict = TRUE
  MaxMut = 0
  Sugars = {"go"}
INVARIANTS Export Terminates StoreOK Predicted WellTypedInv
