SPECIFICATION Spec
CONSTANTS
  Tier = "sim"
  Fams = {"switch"}
  MaxSteps = 600
  Predict = TRUE
INVARIANTS Export Terminates StoreOK Predicted
