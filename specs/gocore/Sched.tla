-------------------------------- MODULE Sched --------------------------------
(* C08 -- the observation schedule of the determinism check.                  *)
(* A package SHAPE is a sequence of file kinds (contents: harness templates   *)
(* in harness/cmd/gocoreh/c08.go, keyed by kind).  An observation is          *)
(*   Compile(pkg, presentation order pi, process p, repetition r).            *)
(* TLC enumerates every presentation order of every shape with <= 4 files     *)
(* (rotations and the reversal for larger ones); each (shape, pi) is executed *)
(* NRep times in each of NProc fresh processes.  The determinism contract     *)
(* itself (history variable first[pkg]) is Contract.tla, Prop = "c08": the    *)
(* harness executes this schedule and TLC validates the recorded trace.       *)
EXTENDS Naturals, Sequences, FiniteSets, TLC, VerifIO

CONSTANTS NProc, NRep

Shape(name, files, errs) == [name |-> name, files |-> files, errs |-> errs]
Shapes == {
  Shape("xgo+overload+2go", <<"main.xgo", "over.xgo", "a.go", "b.go">>, FALSE),
  Shape("xgo+gox+2go", <<"mainr.xgo", "Rect.gox", "a.go", "b.go">>, FALSE),
  Shape("3go+xgo", <<"maing.xgo", "a.go", "b.go", "c.go">>, FALSE),
  Shape("errors-in-3-files", <<"errmain.xgo", "errover.xgo", "ErrRect.gox", "a.go">>, TRUE),
  Shape("errors+2go", <<"errmain.xgo", "errover.xgo", "a.go", "b.go">>, TRUE),
  Shape("all-kinds", <<"mainr.xgo", "over.xgo", "Rect.gox", "a.go", "b.go", "c.go">>, FALSE),
  Shape("all-kinds-errors", <<"errmain.xgo", "errover.xgo", "ErrRect.gox", "a.go", "b.go">>, TRUE) }

Injective(f, n) == \A i \in 1..n : \A j \in 1..n : i # j => f[i] # f[j]
AllPerms(n) == {f \in [1..n -> 1..n] : Injective(f, n)}
Rot(n, k) == [i \in 1..n |-> ((i + k - 1) % n) + 1]
Rev(n) == [i \in 1..n |-> n + 1 - i]
Orders(n) == IF n <= 4 THEN AllPerms(n) ELSE {Rot(n, k) : k \in 0..(n - 1)} \cup {Rev(n)}

VARIABLES shape, order, pc
vars == <<shape, order, pc>>
Init == /\ shape \in Shapes /\ order \in Orders(Len(shape.files)) /\ pc = "done"
Next == UNCHANGED vars
Spec == Init /\ [][Next]_vars

\* every presentation is a permutation of the shape's files: nothing dropped, nothing duplicated
IsPermutation == {order[i] : i \in 1..Len(shape.files)} = 1..Len(shape.files)
\* every shape has at least two Go files or two XGo-side files (map iteration needs >= 2 entries to matter)
TwoOfAKind == Cardinality({i \in 1..Len(shape.files) : shape.files[i] \in {"a.go", "b.go", "c.go"}}) >= 2
              \/ Cardinality({i \in 1..Len(shape.files) : shape.files[i] \notin {"a.go", "b.go", "c.go"}}) >= 2

Export == Emit([pkg |-> shape.name, errs |-> shape.errs,
                files |-> [i \in 1..Len(shape.files) |-> shape.files[order[i]]],
                nproc |-> NProc, nrep |-> NRep])
=============================================================================
