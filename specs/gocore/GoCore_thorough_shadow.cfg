SPECIFICATION Spec
CONSTANTS
  Tier = "thorough"
  Fams = {"shadow"}
  MaxSteps = 600
  Predict = TRUE
INVARIANTS Export Terminates StoreOK Predicted
