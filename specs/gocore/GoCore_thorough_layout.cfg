SPECIFICATION Spec
CONSTANTS
  Tier = "thorough"
  Fams = {"layout"}
  MaxSteps = 600
  Predict = TRUE
INVARIANTS Export Terminates StoreOK Predicted
