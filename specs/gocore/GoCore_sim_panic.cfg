SPECIFICATION Spec
CONSTANTS
  Tier = "sim"
  Fams = {"panic"}
  MaxSteps = 600
  Predict = TRUE
INVARIANTS Export Terminates StoreOK Predicted
