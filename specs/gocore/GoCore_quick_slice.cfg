SPECIFICATION Spec
CONSTANTS
  Tier = "quick"
  Fams = {"slice"}
  MaxSteps = 600
  Predict = TRUE
INVARIANTS Export Terminates StoreOK Predicted
