SPECIFICATION Spec
CONSTANTS
  Tier = "quick"
  Fams = {"defer"}
  MaxSteps = 600
  Predict = TRUE
INVARIANTS Export Terminates StoreOK Predicted
