SPECIFICATION Spec
CONSTANTS
  Prop = "c07"
  Mode = "model"
  MaxLen = 3
INVARIANTS Refines
PROPERTY Sticky
