SPECIFICATION Spec
CONSTANTS
  Prop = "c06"
  Mode = "model"
  MaxLen = 5
INVARIANTS Refines
PROPERTY Sticky
