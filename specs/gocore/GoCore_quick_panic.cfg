SPECIFICATION Spec
CONSTANTS
  Tier = "quick"
  Fams = {"panic"}
  MaxSteps = 600
  Predict = TRUE
INVARIANTS Export Terminates StoreOK Predicted
