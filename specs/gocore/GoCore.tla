------------------------------- MODULE GoCore -------------------------------
(* C01 / C06 / C07 / C25 -- the Go core that XGo promises to keep unchanged. *)
(*                                                                           *)
(* Part I  (ProgGen): a derivation machine.  A state is a PARTIAL PROGRAM: a *)
(*   stack of open blocks (frames) of a Go main package, each with the       *)
(*   statements derived so far and its scope (typing environment).  Every    *)
(*   derivation step appends one statement that is well-typed in the current *)
(*   environment, opens a block or closes one.  Every complete state is a    *)
(*   well-typed, terminating, deterministic program by construction; the     *)
(*   spec's own typing judgement (WellTyped, Part III) re-checks it.         *)
(* Part II (Sem): a small-step semantics of the same abstract syntax:        *)
(*   continuation stack, environment (name -> cell), store (variable cells,  *)
(*   arrays behind slices, map cells), call stack with defer stacks, panic   *)
(*   state, output.  It predicts stdout / exit status / panic value.         *)
(*                                                                           *)
(* Abstract syntax (uniform records, exported as JSON, rendered to Go text   *)
(* by harness/cmd/gocoreh/render.go):                                        *)
(*   expression [k,s,n,a,c]   k kind, s operator/name, n number, a children, *)
(*                            c characters of a string literal               *)
(*   statement  [k,s,n,e,b,x,sig,lay]  e expressions, b blocks, x names,     *)
(*                            sig function signature, lay layout variant     *)
EXTENDS Integers, Sequences, FiniteSets, TLC, VerifIO

CONSTANTS
  Tier,       \* "quick" | "thorough" | "sim": which row of the family table (budgets) is used
  Fams,       \* set of family names explored by this run; {"*"} = all families of the tier
  MaxSteps,   \* step bound of the semantics
  Predict,    \* TRUE: run the small-step semantics on every complete program
  MaxMut,     \* Part IV (Mutate, C06/C07): at most this many type-level mutations per program (0: none)
  Sugars      \* Part IV: XGo spellings the program is rendered with (subset of SugarNames)

VARIABLES phase,  \* "gen" | "run" | "done"
          g,      \* generator state (partial program)
          m       \* machine state (semantics)
vars == <<phase, g, m>>

\* A feature family: feat = which statement / expression menus are offered, budget = number of
\* derivation steps, nest = deepest block nesting, lays = layout variants of blocks ("m" multi-line,
\* "o" one-line), lits = integer literals offered.  The family of a derivation is fixed in Init.
Has(f)  == f \in g.cfg.feat
Fam     == g.cfg.name
MaxNest == g.cfg.nest
Lays    == g.cfg.lays
IntLits == g.cfg.lits

-----------------------------------------------------------------------------
\* Abstract syntax constructors
Ex(k, s, n, a) == [k |-> k, s |-> s, n |-> n, a |-> a, c |-> <<>>]
IntE(n)  == Ex("int", "", n, <<>>)
StrE(c)  == [k |-> "str", s |-> "", n |-> 0, a |-> <<>>, c |-> c]
BoolE(b) == Ex("bool", "", IF b THEN 1 ELSE 0, <<>>)
NilE     == Ex("nil", "", 0, <<>>)
VarE(x)  == Ex("var", x, 0, <<>>)
Bin(op, l, r) == Ex("bin", op, 0, <<l, r>>)
Un(op, x)     == Ex("un", op, 0, <<x>>)
Par(x)        == Ex("par", "", 0, <<x>>)
LenE(x)       == Ex("len", "", 0, <<x>>)
CapE(x)       == Ex("cap", "", 0, <<x>>)
Idx(x, i)     == Ex("idx", "", 0, <<x, i>>)
Sli(x, lo, hi) == Ex("sli", "", 3, <<x, lo, hi>>)     \* x[lo:hi]
SliLo(x, lo)  == Ex("sli", "", 1, <<x, lo>>)          \* x[lo:]
SliHi(x, hi)  == Ex("sli", "", 2, <<x, hi>>)          \* x[:hi]
SLit(t, es)   == Ex("slit", t, 0, es)                 \* []t{es}
MLit(kvs)     == Ex("mlit", "", 0, kvs)               \* map[string]int{k1: v1, ...}
PLit(s, es)   == Ex("plit", s, 0, es)                 \* P{X: e1, S: e2} / &P{...}  (s = "P" | "&P")
Sel(x, f)     == Ex("sel", f, 0, <<x>>)               \* x.f
Addr(x)       == Ex("addr", "", 0, <<x>>)             \* &x
Deref(x)      == Ex("deref", "", 0, <<x>>)            \* *x
App(x, es)    == Ex("append", "", 0, <<x>> \o es)     \* append(x, es...)
Call(f, es)   == Ex("call", "", 0, <<f>> \o es)       \* f(es...)
MCall(r, mth, es) == Ex("mcall", mth, 0, <<r>> \o es) \* r.mth(es...)
CopyE(d, s)   == Ex("copy", "", 0, <<d, s>>)
DelE(mp, ky)  == Ex("delete", "", 0, <<mp, ky>>)
RecoverE      == Ex("recover", "", 0, <<>>)
ConvE(t, x)   == Ex("conv", t, 0, <<x>>)              \* t(x)

NoSig == [ps |-> <<>>, rs |-> <<>>]
St(k, s, n, e, b, x) == [k |-> k, s |-> s, n |-> n, e |-> e, b |-> b, x |-> x, sig |-> NoSig, lay |-> "m"]
Decl(xs, es)  == St("decl", "", 0, es, <<>>, xs)             \* xs := es
VarS(x, t)    == St("var", t, 0, <<>>, <<>>, <<x>>)          \* var x t
VarInit(x, t, e) == St("var", t, 1, <<e>>, <<>>, <<x>>)      \* var x t = e
ConstS(x, e)  == St("const", "", 0, <<e>>, <<>>, <<x>>)      \* const x = e
Asg(ls, rs)   == St("asg", "", Len(ls), ls \o rs, <<>>, <<>>) \* ls = rs
OpAsg(op, l, r) == St("opasg", op, 0, <<l, r>>, <<>>, <<>>)  \* l op= r
IncS(op, l)   == St("inc", op, 0, <<l>>, <<>>, <<>>)         \* l++ / l--
PrintS(es)    == St("print", "", 0, es, <<>>, <<>>)          \* fmt.Println(es...)
ExprS(e)      == St("expr", "", 0, <<e>>, <<>>, <<>>)
Brk(k, l)     == St(k, l, 0, <<>>, <<>>, <<>>)               \* break / continue [label]
Ret(es)       == St("ret", "", 0, es, <<>>, <<>>)
DeferS(e)     == St("defer", "", 0, <<e>>, <<>>, <<>>)       \* defer f(args)
PanicS(e)     == St("panic", "", 0, <<e>>, <<>>, <<>>)
ExitS(e)      == St("exit", "", 0, <<e>>, <<>>, <<>>)        \* os.Exit(e)
Lay(s, l)     == [s EXCEPT !.lay = l]

-----------------------------------------------------------------------------
\* Part I -- ProgGen
Names == <<"a", "b", "c", "d", "e", "f", "g", "h", "u", "v", "w", "z", "aa", "bb", "cc", "dd", "ee", "ff", "gg", "hh",
           "kk", "mm", "nn", "pp", "qq", "ss", "tt", "uu", "vv", "ww", "xx", "yy">>
StrLits == {<<"a">>, <<"b", "c">>}

\* scope entry: name, type, ro (not assignable: loop counters), u (must be used inside the block)
Ent(x, t, ro, u) == [x |-> x, t |-> t, ro |-> ro, u |-> u]
\* frame: k kind, h header statement, body, sc scope, part, done (completed blocks / clauses),
\*        term (body ends in a terminating statement), lock (names not assignable inside), lu label used
Frame(k, h, sc, lock) == [k |-> k, h |-> h, body |-> <<>>, sc |-> sc, part |-> 1, done |-> <<>>,
                          term |-> FALSE, lock |-> lock, lu |-> FALSE, cur |-> <<>>, pd |-> <<>>, sc0 |-> sc]

Rev(s) == [i \in 1..Len(s) |-> s[Len(s) + 1 - i]]
RECURSIVE ScopeChain(_)
ScopeChain(fs) == IF fs = <<>> THEN <<>>
                  ELSE Rev(fs[Len(fs)].sc) \o ScopeChain(SubSeq(fs, 1, Len(fs) - 1))
Chain   == ScopeChain(g.frames)
NF      == Len(g.frames)
Top     == g.frames[NF]
VisNames == {Chain[i].x : i \in 1..Len(Chain)}
EntOf(x) == Chain[CHOOSE i \in 1..Len(Chain) : Chain[i].x = x /\ \A j \in 1..(i - 1) : Chain[j].x # x]
Locked  == UNION {g.frames[i].lock : i \in 1..NF}
Vars(T) == {x \in VisNames : EntOf(x).t = T}
WVars(T) == {x \in Vars(T) : ~EntOf(x).ro /\ x \notin Locked}
Fresh(i) == Names[g.fresh + i]
Pairs(S) == {q \in S \X S : q[1] # q[2]}
InTop(x) == \E i \in 1..Len(Top.sc) : Top.sc[i].x = x

\* index of the innermost function frame (1 = main)
FuncBase == CHOOSE i \in 1..NF : g.frames[i].k \in {"main", "func"} /\
                                 \A j \in (i + 1)..NF : g.frames[j].k # "func"
LoopIdx  == {i \in FuncBase..NF : g.frames[i].k \in {"for", "range"}}
BreakIdx == LoopIdx \cup {i \in FuncBase..NF : g.frames[i].k = "switch"}
CurFunc  == g.frames[FuncBase]

Lits(T) == CASE T = "int" -> {IntE(n) : n \in IntLits}
             [] T = "string" -> {StrE(c) : c \in StrLits}
             [] T = "bool" -> {BoolE(TRUE)}
             [] OTHER -> {}
VarAtoms(T) == {VarE(x) : x \in Vars(T)}
Atoms(T) == VarAtoms(T) \cup Lits(T)

IntOps == IF Has("allops") THEN {"+", "-", "*", "/", "%"} ELSE {"+", "*"}
BitOps == IF Has("bitops") THEN {"&", "|", "^", "<<", ">>", "&^"} ELSE {}
CmpOps == IF Has("allops") THEN {"==", "!=", "<", "<=", ">", ">="} ELSE {"<", "=="}

\* deep, typed expression sets (family "expr"): all trees up to depth d
RECURSIVE DeepInt(_), DeepBool(_), DeepStr(_)
DeepInt(d) == IF d = 0 THEN Atoms("int")
              ELSE LET S == DeepInt(d - 1) IN
                   S \cup {Bin(op, l, r) : op \in IntOps \cup BitOps, l \in S, r \in S}
                     \cup {Un("-", x) : x \in VarAtoms("int")}
                     \cup (IF Has("paren") THEN {Bin(op, l, Par(r)) : op \in {"-", "*"}, l \in Atoms("int"),
                                                      r \in {Bin("+", x, y) : x \in VarAtoms("int"), y \in Atoms("int")}}
                           ELSE {})
                     \cup (IF Has("strlen") THEN {LenE(x) : x \in VarAtoms("string")} ELSE {})
DeepStr(d) == IF d = 0 THEN Atoms("string")
              ELSE LET S == DeepStr(d - 1) IN S \cup {Bin("+", l, r) : l \in S, r \in S}
DeepBool(d) == IF d = 0 THEN Atoms("bool")
               ELSE LET S == DeepBool(d - 1) IN
                    S \cup {Bin(op, l, r) : op \in CmpOps, l \in DeepInt(d - 1), r \in DeepInt(d - 1)}
                      \cup {Bin(op, l, r) : op \in {"==", "<"}, l \in DeepStr(d - 1), r \in DeepStr(d - 1)}
                      \cup {Bin(op, l, r) : op \in {"&&", "||"}, l \in S, r \in S}
                      \cup {Un("!", x) : x \in S}

\* simulation only: one random typed tree of depth d per step (TLC!RandomElement)
RECURSIVE RndInt(_), RndBool(_)
RndInt(d) == IF d = 0 THEN RandomElement(Atoms("int"))
             ELSE LET op == RandomElement({"+", "-", "*", "/", "%", "neg", "par"}) IN
                  IF op = "neg" THEN Un("-", RandomElement(VarAtoms("int")))
                  ELSE IF op = "par" THEN Bin(RandomElement({"-", "*", "/"}), RndInt(d - 1), Par(RndInt(d - 1)))
                  ELSE Bin(op, RndInt(d - 1), RndInt(d - 1))
RndBool(d) == IF d = 0 THEN RandomElement(Atoms("bool"))
              ELSE LET op == RandomElement({"&&", "||", "!", "<", "==", ">=", "!="}) IN
                   IF op \in {"&&", "||"} THEN Bin(op, RndBool(d - 1), RndBool(d - 1))
                   ELSE IF op = "!" THEN Un("!", RndBool(d - 1))
                   ELSE Bin(op, RndInt(d - 1), RndInt(d - 1))

Depth == IF Has("deep2") THEN 2 ELSE IF Has("deep1") THEN 1 ELSE 0

\* expression pools offered to statement holes
IntPool == DeepInt(Depth)
  \cup (IF Has("arith") THEN {Bin("+", VarE(x), IntE(1)) : x \in Vars("int")} ELSE {})
  \cup (IF Has("slice") THEN {LenE(VarE(x)) : x \in Vars("[]int")}
                             \cup {Idx(VarE(x), IntE(0)) : x \in Vars("[]int")} ELSE {})
  \cup (IF Has("cap") THEN {CapE(VarE(x)) : x \in Vars("[]int")} ELSE {})
  \cup (IF Has("map") THEN {Idx(VarE(x), StrE(<<"a">>)) : x \in Vars("map[string]int")}
                           \cup {LenE(VarE(x)) : x \in Vars("map[string]int")} ELSE {})
  \cup (IF Has("struct") THEN {Sel(VarE(x), "X") : x \in Vars("P") \cup Vars("*P")} ELSE {})
StrPool == DeepStr(Depth)
  \cup (IF Has("struct") THEN {Sel(VarE(x), "S") : x \in Vars("P") \cup Vars("*P")} ELSE {})
BoolPool == DeepBool(Depth)
CondPool == (IF Depth > 0 THEN DeepBool(Depth) \ Atoms("bool") ELSE {})
  \cup {Bin("<", VarE(x), IntE(2)) : x \in Vars("int")}
  \cup (IF Has("cond2") THEN {Bin("==", Bin("%", VarE(x), IntE(2)), IntE(0)) : x \in Vars("int")} ELSE {})
  \cup VarAtoms("bool")
  \cup (IF Has("recover") THEN {Bin("!=", VarE(x), NilE) : x \in Vars("any")} ELSE {})
Pool(T) == CASE T = "int" -> IntPool [] T = "string" -> StrPool [] T = "bool" -> BoolPool
             [] OTHER -> VarAtoms(T)

\* things that can be printed deterministically (no func values, no addresses)
PrintTypes == {"int", "string", "bool", "[]int", "map[string]int", "P", "*P", "any", "rune"}
PrintPool == (IF Depth > 0 THEN IntPool \cup StrPool \cup BoolPool ELSE {})
             \cup UNION {VarAtoms(T) : T \in PrintTypes}
             \cup (IF Has("slice") THEN {LenE(VarE(x)) : x \in Vars("[]int")} ELSE {})
             \cup (IF Has("cap") THEN {CapE(VarE(x)) : x \in Vars("[]int")} ELSE {})

\* menu entries: s statement, d declared scope entries, nf fresh names consumed, t terminates block
MI(s, d, nf) == [s |-> s, d |-> d, nf |-> nf, t |-> FALSE]
MT(s)        == [s |-> s, d |-> <<>>, nf |-> 0, t |-> TRUE]

DeclTypes == (IF Has("declint") THEN {"int"} ELSE {}) \cup (IF Has("declstr") THEN {"string"} ELSE {})
             \cup (IF Has("declbool") THEN {"bool"} ELSE {})
ShadowNames == {x \in VisNames : ~InTop(x) /\ EntOf(x).t \in {"int", "string"}}

MenuBasic ==
  (IF Has("print") THEN {MI(PrintS(<<e>>), <<>>, 0) : e \in PrintPool} ELSE {})
  \cup (IF Has("rnd3") THEN {MI(PrintS(<<RndInt(3)>>), <<>>, 0), MI(PrintS(<<RndBool(3)>>), <<>>, 0),
                             MI(PrintS(<<RndInt(2), RndBool(2)>>), <<>>, 0)} ELSE {})
  \cup (IF Has("print2") THEN {MI(PrintS(<<VarE(x), VarE(y)>>), <<>>, 0) : x \in Vars("int"), y \in Vars("string")} ELSE {})
  \cup UNION {{MI(Decl(<<Fresh(1)>>, <<e>>), <<Ent(Fresh(1), T, FALSE, TRUE)>>, 1) : e \in Pool(T)} : T \in DeclTypes}
  \cup (IF Has("vardecl") THEN {MI(VarS(Fresh(1), T), <<Ent(Fresh(1), T, FALSE, TRUE)>>, 1) : T \in {"int", "string", "bool"}}
                               \cup {MI(VarInit(Fresh(1), "int", e), <<Ent(Fresh(1), "int", FALSE, TRUE)>>, 1) : e \in Atoms("int")}
        ELSE {})
  \cup (IF Has("const") THEN {MI(ConstS(Fresh(1), e), <<Ent(Fresh(1), "int", TRUE, TRUE)>>, 1) :
                                  e \in {IntE(5), Bin("<<", IntE(1), IntE(3)), Bin("/", IntE(7), IntE(2))}} ELSE {})
  \cup (IF Has("shadow") /\ NF > 1
        THEN {MI(Decl(<<x>>, <<e>>), <<Ent(x, "int", FALSE, TRUE)>>, 0) : x \in ShadowNames, e \in Pool("int")}
             \cup {MI(Decl(<<x>>, <<e>>), <<Ent(x, "string", FALSE, TRUE)>>, 0) : x \in ShadowNames, e \in Atoms("string")}
        ELSE {})
  \cup (IF Has("asg") THEN UNION {{MI(Asg(<<VarE(x)>>, <<e>>), <<>>, 0) : x \in WVars(T), e \in Pool(T)}
                                  : T \in {"int", "string", "bool"}} ELSE {})
  \cup (IF Has("opasg") THEN {MI(OpAsg(op, VarE(x), e), <<>>, 0) : op \in IntOps \cup BitOps, x \in WVars("int"), e \in Atoms("int")}
                             \cup {MI(OpAsg("+", VarE(x), e), <<>>, 0) : x \in WVars("string"), e \in Atoms("string")}
        ELSE {})
  \cup (IF Has("inc") THEN {MI(IncS(op, VarE(x)), <<>>, 0) : op \in {"++", "--"}, x \in WVars("int")} ELSE {})
  \cup (IF Has("swap") THEN {MI(Asg(<<VarE(q[1]), VarE(q[2])>>, <<VarE(q[2]), VarE(q[1])>>), <<>>, 0) : q \in Pairs(WVars("int"))}
                            \cup {MI(Asg(<<VarE(q[1]), VarE(q[2])>>, <<Bin("+", VarE(q[1]), VarE(q[2])), VarE(q[1])>>), <<>>, 0) : q \in Pairs(WVars("int"))}
                            \cup {MI(Decl(<<Fresh(1), Fresh(2)>>, <<e, f>>),
                                     <<Ent(Fresh(1), "int", FALSE, TRUE), Ent(Fresh(2), "string", FALSE, TRUE)>>, 2) :
                                 e \in Atoms("int"), f \in Atoms("string")}
        ELSE {})

\* break / continue: only where Go allows them, labels only of enclosing labelled loops
MenuBranch ==
  IF ~Has("branch") THEN {} ELSE
  (IF BreakIdx # {} THEN {MT(Brk("break", ""))} ELSE {})
  \cup (IF LoopIdx # {} THEN {MT(Brk("continue", ""))} ELSE {})
  \cup (IF Has("label") THEN {MT(Brk(k, g.frames[i].h.s)) : k \in {"break", "continue"},
                                  i \in {j \in LoopIdx : g.frames[j].h.s # ""}} ELSE {})

SliceT == "[]int"
MenuSlice ==
  IF ~Has("slice") THEN {} ELSE
  {MI(Decl(<<Fresh(1)>>, <<e>>), <<Ent(Fresh(1), SliceT, FALSE, TRUE)>>, 1) :
      e \in {SLit("int", <<IntE(1), IntE(2), IntE(3)>>)}
            \cup (IF Has("slice2") THEN {SLit("int", <<>>), Ex("make", "[]int", 0, <<IntE(2), IntE(4)>>)} ELSE {})
            \cup {App(VarE(x), <<v>>) : x \in Vars(SliceT), v \in Atoms("int")}
            \cup {Sli(VarE(x), IntE(0), IntE(2)) : x \in Vars(SliceT)}
            \cup {SliLo(VarE(x), IntE(1)) : x \in Vars(SliceT)}
            \cup (IF Has("slice2") THEN {SliHi(VarE(x), IntE(1)) : x \in Vars(SliceT)} ELSE {})}
  \cup (IF Has("slice2") THEN {MI(VarS(Fresh(1), SliceT), <<Ent(Fresh(1), SliceT, FALSE, TRUE)>>, 1)} ELSE {})
  \cup {MI(Asg(<<VarE(x)>>, <<App(VarE(y), <<v>>)>>), <<>>, 0) : x \in WVars(SliceT), y \in Vars(SliceT), v \in Atoms("int")}
  \cup {MI(Asg(<<Idx(VarE(x), IntE(i))>>, <<v>>), <<>>, 0) : x \in Vars(SliceT), i \in {0, 1}, v \in Atoms("int")}
  \cup {MI(OpAsg("+", Idx(VarE(x), IntE(0)), v), <<>>, 0) : x \in Vars(SliceT), v \in Atoms("int")}
  \cup {MI(IncS("++", Idx(VarE(x), IntE(1))), <<>>, 0) : x \in Vars(SliceT)}
  \cup {MI(Asg(<<Idx(VarE(x), IntE(0)), Idx(VarE(x), IntE(1))>>, <<Idx(VarE(x), IntE(1)), Idx(VarE(x), IntE(0))>>), <<>>, 0) :
           x \in Vars(SliceT)}
  \cup {MI(Decl(<<Fresh(1)>>, <<CopyE(VarE(q[1]), VarE(q[2]))>>), <<Ent(Fresh(1), "int", FALSE, TRUE)>>, 1) : q \in Pairs(Vars(SliceT))}
  \cup (IF Has("slice2") THEN {MI(Asg(<<VarE(x)>>, <<Ex("append", "...", 0, <<VarE(x), VarE(y)>>)>>), <<>>, 0) :
                                   x \in WVars(SliceT), y \in Vars(SliceT)} ELSE {})

MapT == "map[string]int"
KeyPool == {StrE(<<"a">>), StrE(<<"b", "c">>)} \cup (IF Has("mapvarkey") THEN VarAtoms("string") ELSE {})
MenuMap ==
  IF ~Has("map") THEN {} ELSE
  {MI(Decl(<<Fresh(1)>>, <<e>>), <<Ent(Fresh(1), MapT, FALSE, TRUE)>>, 1) :
      e \in {MLit(<<>>), MLit(<<StrE(<<"a">>), IntE(1)>>), Ex("make", MapT, 0, <<>>)}
            \cup VarAtoms(MapT)}
  \cup (IF Has("nilmap") THEN {MI(VarS(Fresh(1), MapT), <<Ent(Fresh(1), MapT, FALSE, TRUE)>>, 1)} ELSE {})
  \cup {MI(Asg(<<Idx(VarE(x), ky)>>, <<v>>), <<>>, 0) : x \in Vars(MapT), ky \in KeyPool, v \in Atoms("int")}
  \cup {MI(OpAsg("+", Idx(VarE(x), ky), v), <<>>, 0) : x \in Vars(MapT), ky \in KeyPool, v \in Atoms("int")}
  \cup {MI(IncS("++", Idx(VarE(x), ky)), <<>>, 0) : x \in Vars(MapT), ky \in KeyPool}
  \cup {MI(ExprS(DelE(VarE(x), ky)), <<>>, 0) : x \in Vars(MapT), ky \in KeyPool}
  \cup {MI(Decl(<<Fresh(1), Fresh(2)>>, <<Idx(VarE(x), ky)>>),
           <<Ent(Fresh(1), "int", FALSE, TRUE), Ent(Fresh(2), "bool", FALSE, TRUE)>>, 2) : x \in Vars(MapT), ky \in KeyPool}

MenuStruct ==
  IF ~Has("struct") THEN {} ELSE
  {MI(Decl(<<Fresh(1)>>, <<PLit("P", <<e, f>>)>>), <<Ent(Fresh(1), "P", FALSE, TRUE)>>, 1) :
      e \in Atoms("int"), f \in Lits("string")}
  \cup {MI(Decl(<<Fresh(1)>>, <<PLit("&P", <<e, f>>)>>), <<Ent(Fresh(1), "*P", FALSE, TRUE)>>, 1) :
      e \in Lits("int"), f \in Lits("string")}
  \cup {MI(VarS(Fresh(1), "P"), <<Ent(Fresh(1), "P", FALSE, TRUE)>>, 1)}
  \cup UNION {{MI(Decl(<<Fresh(1)>>, <<VarE(x)>>), <<Ent(Fresh(1), T, FALSE, TRUE)>>, 1) : x \in Vars(T)} : T \in {"P", "*P"}}
  \cup {MI(Decl(<<Fresh(1)>>, <<Addr(VarE(x))>>), <<Ent(Fresh(1), "*P", FALSE, TRUE)>>, 1) : x \in Vars("P")}
  \cup {MI(Decl(<<Fresh(1)>>, <<Deref(VarE(x))>>), <<Ent(Fresh(1), "P", FALSE, TRUE)>>, 1) : x \in Vars("*P")}
  \cup {MI(Asg(<<Sel(VarE(x), "X")>>, <<e>>), <<>>, 0) : x \in Vars("P") \cup Vars("*P"), e \in Atoms("int")}
  \cup {MI(OpAsg("+", Sel(VarE(x), "X"), e), <<>>, 0) : x \in Vars("P") \cup Vars("*P"), e \in Lits("int")}
  \cup {MI(IncS("++", Sel(VarE(x), "X")), <<>>, 0) : x \in Vars("P") \cup Vars("*P")}
  \cup {MI(Asg(<<Sel(VarE(x), "S")>>, <<e>>), <<>>, 0) : x \in Vars("P") \cup Vars("*P"), e \in Lits("string")}
  \cup {MI(ExprS(MCall(VarE(x), "Inc", <<e>>)), <<>>, 0) : x \in Vars("P") \cup Vars("*P"), e \in Lits("int")}
  \cup {MI(Decl(<<Fresh(1)>>, <<MCall(VarE(x), "Get", <<>>)>>), <<Ent(Fresh(1), "int", FALSE, TRUE)>>, 1) :
           x \in Vars("P") \cup Vars("*P")}
  \cup {MI(Decl(<<Fresh(1)>>, <<MCall(VarE(x), "With", <<e>>)>>), <<Ent(Fresh(1), "P", FALSE, TRUE)>>, 1) :
           x \in Vars("P") \cup Vars("*P"), e \in Lits("int")}
  \cup {MI(PrintS(<<Bin("==", VarE(q[1]), VarE(q[2]))>>), <<>>, 0) : q \in Pairs(Vars("P"))}
  \cup (IF Has("mvalue") THEN {MI(Decl(<<Fresh(1)>>, <<Sel(VarE(x), "Get")>>), <<Ent(Fresh(1), "func() int", FALSE, TRUE)>>, 1) :
                                   x \in Vars("P") \cup Vars("*P")} ELSE {})

FnT  == "func() int"
Fn1T == "func(int) int"
MenuCall ==
  IF ~Has("call") THEN {} ELSE
  {MI(Decl(<<Fresh(1)>>, <<Call(VarE(f), <<>>)>>), <<Ent(Fresh(1), "int", FALSE, TRUE)>>, 1) : f \in Vars(FnT)}
  \cup {MI(Decl(<<Fresh(1)>>, <<Call(VarE(f), <<e>>)>>), <<Ent(Fresh(1), "int", FALSE, TRUE)>>, 1) :
           f \in Vars(Fn1T), e \in Atoms("int")}
  \cup {MI(Asg(<<VarE(x)>>, <<Call(VarE(f), <<>>)>>), <<>>, 0) : f \in Vars(FnT), x \in WVars("int")}
  \cup {MI(PrintS(<<Call(VarE(f), <<>>)>>), <<>>, 0) : f \in Vars(FnT)}
  \cup {MI(ExprS(Call(VarE(f), <<>>)), <<>>, 0) : f \in Vars(FnT) \cup Vars("func()")}
  \cup (IF Has("call2") THEN {MI(PrintS(<<Bin("+", Call(VarE(f), <<>>), Call(VarE(h), <<>>))>>), <<>>, 0) :
                                  f \in Vars(FnT), h \in Vars(FnT)} ELSE {})
  \cup (IF Has("defer") THEN {MI(DeferS(Call(VarE(f), <<>>)), <<>>, 0) : f \in Vars(FnT) \cup Vars("func()")}
                             \cup {MI(DeferS(Ex("println", "", 0, <<e>>)), <<>>, 0) : e \in VarAtoms("int") \cup Lits("string")}
        ELSE {})

InDeferred == CurFunc.k = "func" /\ CurFunc.h.n = 1
MenuPanic ==
  (IF Has("panic") THEN {MT(PanicS(e)) : e \in Lits("string") \cup (IF Has("panicint") THEN Lits("int") ELSE {})}
                        \cup (IF Has("rtpanic") THEN {MI(PrintS(<<Bin("/", IntE(6), VarE(x))>>), <<>>, 0) : x \in Vars("int")}
                                                     \cup {MI(PrintS(<<Idx(VarE(x), VarE(y))>>), <<>>, 0) : x \in Vars(SliceT), y \in Vars("int")}
                              ELSE {})
   ELSE {})
  \cup (IF Has("recover") /\ InDeferred
        THEN {MI(Decl(<<Fresh(1)>>, <<RecoverE>>), <<Ent(Fresh(1), "any", FALSE, TRUE)>>, 1),
              MI(ExprS(RecoverE), <<>>, 0)} ELSE {})
  \cup (IF Has("exit") THEN {MT(ExitS(IntE(3)))} ELSE {})
  \cup (IF Has("ret") /\ CurFunc.k = "func" /\ CurFunc.h.n # 1
        THEN (IF CurFunc.h.sig.rs = <<>> THEN {MT(Ret(<<>>))}
              ELSE {MT(Ret(<<e>>)) : e \in Atoms("int")} \cup
                   (IF CurFunc.h.sig.rs[1].x # "" THEN {MT(Ret(<<>>))} ELSE {}))
        ELSE {})
  \cup (IF Has("retmain") /\ CurFunc.k = "main" /\ NF > 1 THEN {MT(Ret(<<>>))} ELSE {})

InMapRange == \E i \in 1..NF : g.frames[i].k = "range" /\ g.frames[i].h.n = 9
SimpleMenu == IF InMapRange THEN {MI(OpAsg("+", VarE(x), VarE(Top.h.x[2])), <<>>, 0) : x \in WVars("int") \ {Top.h.x[2]}}
              ELSE MenuBasic \cup MenuBranch \cup MenuSlice \cup MenuMap \cup MenuStruct \cup MenuCall \cup MenuPanic

\* frame of  Fresh(1) := func(ps) rs { ... } ; the variable is in scope only after the literal (pd)
FuncFrame(ps, rs, ft) ==
  [Frame("func", [St("func", "", 0, <<>>, <<>>, <<Fresh(1)>>) EXCEPT !.sig = [ps |-> ps, rs |-> rs]],
         ps \o (IF rs # <<>> /\ rs[1].x # "" THEN rs ELSE <<>>), {})
   EXCEPT !.pd = <<Ent(Fresh(1), ft, FALSE, TRUE)>>]

\* ---- block-opening steps: o = frame to push, pre = statements put before it in the parent, nf
OI(f, pre, d, nf) == [f |-> f, pre |-> pre, d |-> d, nf |-> nf]
LabelsFor == IF Has("label") THEN {"", <<"L1", "L2", "L3", "L4", "L5">>[NF]} ELSE {""}
N3 == IF Has("loop3") THEN {2, 3} ELSE {2}

OpenMenu ==
  (IF Has("if") THEN
     {OI(Frame("if", Lay(St("if", "", 0, <<c>>, <<>>, <<>>), l), <<>>, {}), <<>>, <<>>, 0) : c \in CondPool, l \in Lays}
     \cup (IF Has("ifinit") THEN
            {OI(Frame("if", St("if", "", 1, <<Bin("<", VarE(Fresh(1)), IntE(3)), e>>, <<>>, <<Fresh(1)>>),
                      <<Ent(Fresh(1), "int", FALSE, FALSE)>>, {}), <<>>, <<>>, 1) : e \in Pool("int")} ELSE {})
   ELSE {})
  \cup (IF Has("for3") THEN
     {OI(Frame("for", Lay(St("for", lb, 3, <<IntE(n)>>, <<>>, <<Fresh(1)>>), l),
               <<Ent(Fresh(1), "int", TRUE, FALSE)>>, {}), <<>>, <<>>, 1) : n \in N3, lb \in LabelsFor, l \in Lays}
   ELSE {})
  \cup (IF Has("forcond") THEN
     {OI(Frame("for", Lay(St("for", lb, 1, <<IntE(2)>>, <<>>, <<Fresh(1)>>), l), <<>>, {Fresh(1)}),
         <<Decl(<<Fresh(1)>>, <<IntE(0)>>)>>, <<Ent(Fresh(1), "int", FALSE, FALSE)>>, 1) : lb \in LabelsFor, l \in Lays}
   ELSE {})
  \cup (IF Has("forever") THEN
     {OI(Frame("for", Lay(St("for", lb, 0, <<IntE(2)>>, <<>>, <<Fresh(1)>>), l), <<>>, {Fresh(1)}),
         <<Decl(<<Fresh(1)>>, <<IntE(0)>>)>>, <<Ent(Fresh(1), "int", FALSE, FALSE)>>, 1) : lb \in LabelsFor, l \in Lays}
   ELSE {})
  \cup (IF Has("range") THEN
     {OI(Frame("range", St("range", lb, 0, <<VarE(x)>>, <<>>, <<Fresh(1), Fresh(2)>>),
               <<Ent(Fresh(1), "int", FALSE, TRUE), Ent(Fresh(2), "int", FALSE, TRUE)>>, {}), <<>>, <<>>, 2) :
         x \in Vars(SliceT), lb \in LabelsFor}
     \cup {OI(Frame("range", St("range", "", 0, <<VarE(x)>>, <<>>, <<Fresh(1), "">>),
               <<Ent(Fresh(1), "int", FALSE, TRUE)>>, {}), <<>>, <<>>, 1) : x \in Vars(SliceT) \cup Vars("string")}
     \cup {OI(Frame("range", St("range", "", 0, <<VarE(x)>>, <<>>, <<"_", Fresh(1)>>),
               <<Ent(Fresh(1), "int", FALSE, TRUE)>>, {}), <<>>, <<>>, 1) : x \in Vars(SliceT)}
     \* range over a map: iteration order is unspecified, so the body may only accumulate commutatively (n = 9)
     \cup {OI(Frame("range", St("range", "", 9, <<VarE(x)>>, <<>>, <<"_", Fresh(1)>>),
               <<Ent(Fresh(1), "int", FALSE, FALSE)>>, {}), <<>>, <<>>, 1) : x \in Vars(MapT)}
     \cup {OI(Frame("range", St("range", "", 0, <<VarE(x)>>, <<>>, <<Fresh(1), Fresh(2)>>),
               <<Ent(Fresh(1), "int", FALSE, TRUE), Ent(Fresh(2), "rune", FALSE, TRUE)>>, {}), <<>>, <<>>, 2) :
         x \in Vars("string")}
   ELSE {})
  \cup (IF Has("switch") THEN
     {OI(Frame("switch", St("switch", "", 1, <<VarE(x)>>, <<>>, <<>>), <<>>, {}), <<>>, <<>>, 0) : x \in Vars("int")}
     \cup (IF Has("switchnotag") THEN {OI(Frame("switch", St("switch", "", 0, <<>>, <<>>, <<>>), <<>>, {}), <<>>, <<>>, 0)} ELSE {})
   ELSE {})
  \cup (IF Has("block") THEN {OI(Frame("block", St("block", "", 0, <<>>, <<>>, <<>>), <<>>, {}), <<>>, <<>>, 0)} ELSE {})
  \cup (IF Has("func") THEN
     \* f := func() int { ... }   /  f := func(p int) int { ... }  /  f := func() (r int) { ... }  /  f := func() { ... }
     {OI(FuncFrame(<<>>, <<Ent("", "int", FALSE, FALSE)>>, FnT), <<>>, <<>>, 1)}
     \cup (IF Has("func1") THEN {OI(FuncFrame(<<Ent(Fresh(2), "int", FALSE, FALSE)>>, <<Ent("", "int", FALSE, FALSE)>>, Fn1T), <<>>, <<>>, 2)} ELSE {})
     \cup (IF Has("named") THEN {OI(FuncFrame(<<>>, <<Ent(Fresh(2), "int", FALSE, FALSE)>>, FnT), <<>>, <<>>, 2)} ELSE {})
     \cup (IF Has("funcv") THEN {OI(FuncFrame(<<>>, <<>>, "func()"), <<>>, <<>>, 1)} ELSE {})
   ELSE {})
  \cup (IF Has("deferfn") THEN
     \* defer func() { ... }()
     {OI(Frame("func", St("func", "", 1, <<>>, <<>>, <<>>), <<>>, {}), <<>>, <<>>, 0)}
   ELSE {})
  \cup (IF Has("iife") THEN
     {OI(Frame("func", St("func", "", 3, <<>>, <<>>, <<>>), <<>>, {}), <<>>, <<>>, 0)}
   ELSE {})

\* statements the generator puts at the start of a loop body so that the loop terminates
LoopPrefix(h) ==
  IF h.k # "for" THEN <<>>
  ELSE IF h.n = 1 THEN <<IncS("++", VarE(h.x[1]))>>                                 \* for v < N { v++ ...
  ELSE IF h.n = 0 THEN <<IncS("++", VarE(h.x[1])),
                          Lay(St("if", "", 0, <<Bin(">", VarE(h.x[1]), h.e[1])>>, <<<<>>, <<Brk("break", "")>>, <<>>>>, <<>>), h.lay)>>
  ELSE <<>>

\* close of a block: use every variable that Go would report as unused
UseOf(sc) == LET us == {i \in 1..Len(sc) : sc[i].u} IN
             IF us = {} THEN <<>>
             ELSE <<PrintS([j \in 1..Cardinality(us) |->
                     VarE(sc[CHOOSE i \in us : Cardinality({k \in us : k < i}) = j - 1].x)])>>
\* func values, maps of funcs etc. cannot be printed deterministically: they are used by a blank assignment
UseStmts(sc) ==
  LET pr == SelectSeq(sc, LAMBDA en : en.u /\ en.t \in PrintTypes)
      np == SelectSeq(sc, LAMBDA en : en.u /\ en.t \notin PrintTypes)
  IN  (IF pr = <<>> THEN <<>> ELSE <<PrintS([j \in 1..Len(pr) |-> VarE(pr[j].x)])>>)
      \o [j \in 1..Len(np) |-> Asg(<<VarE("_")>>, <<VarE(np[j].x)>>)]

EndsRet(f) == f.body # <<>> /\ f.body[Len(f.body)].k = "ret"
Finish(f, retE) ==  \* body of a frame when it is closed
  LET use == UseStmts(f.sc) IN
  IF f.k = "func" /\ EndsRet(f)
  THEN SubSeq(f.body, 1, Len(f.body) - 1) \o use \o <<f.body[Len(f.body)]>>
  ELSE IF f.k = "func" /\ f.h.sig.rs # <<>> /\ f.h.sig.rs[1].x = ""
  THEN f.body \o use \o <<Ret(<<retE>>)>>
  ELSE IF f.k = "func" /\ f.h.sig.rs # <<>>
  THEN f.body \o use \o <<Ret(<<>>)>>           \* named results: bare return
  ELSE f.body \o use

CaseS(es, body, ft) == St("case", "", IF ft THEN 1 ELSE 0, es, <<body>>, <<>>)

Compound(f, retE) ==
  LET b == Finish(f, retE) IN
  CASE f.k = "if" -> [f.h EXCEPT !.b = IF f.part = 1 THEN <<<<>>, b, <<>>>> ELSE <<<<>>, f.done[1], b>>]
    [] f.k = "for" -> [f.h EXCEPT !.b = <<b>>, !.s = IF f.lu THEN @ ELSE ""]
    [] f.k = "range" -> [f.h EXCEPT !.b = <<b>>, !.s = IF f.lu THEN @ ELSE ""]
    [] f.k = "switch" -> [f.h EXCEPT !.b = <<f.done \o <<CaseS(f.cur, b, FALSE)>>>>]
    [] f.k = "block" -> [f.h EXCEPT !.b = <<b>>]
    [] f.k = "func" -> [f.h EXCEPT !.b = <<b>>]

AddStmts(f, ss, d, t) == [f EXCEPT !.body = @ \o ss, !.sc = @ \o d, !.term = t]

GenSimple ==
  /\ phase = "gen" /\ g.left > 0 /\ ~Top.term /\ g.fresh + 2 <= Len(Names)
  /\ (Top.k = "switch" => Top.lu)    \* a clause must be open
  /\ \E r \in SimpleMenu :
       LET lab == r.s.k \in {"break", "continue"} /\ r.s.s # ""
           li == IF lab THEN CHOOSE i \in LoopIdx : g.frames[i].h.s = r.s.s ELSE 0
           fs1 == [g.frames EXCEPT ![NF] = AddStmts(@, <<r.s>>, r.d, r.t)]
       IN g' = [g EXCEPT !.left = @ - 1, !.fresh = @ + r.nf,
                         !.frames = IF lab THEN [fs1 EXCEPT ![li].lu = TRUE] ELSE fs1]
  /\ UNCHANGED <<phase, m>>

GenOpen ==
  /\ phase = "gen" /\ g.left > 0 /\ ~Top.term /\ NF <= MaxNest /\ ~InMapRange /\ g.fresh + 2 <= Len(Names)
  /\ (Top.k = "switch" => Top.lu)
  /\ \E o \in OpenMenu :
       LET nf1 == AddStmts(o.f, LoopPrefix(o.f.h), <<>>, FALSE) IN
       g' = [g EXCEPT !.left = @ - 1, !.fresh = @ + o.nf,
                      !.frames = Append([@ EXCEPT ![NF] = AddStmts(@, o.pre, o.d, FALSE)], nf1)]
  /\ UNCHANGED <<phase, m>>

\* if ... { then } else { ...
GenElse ==
  /\ phase = "gen" /\ g.left > 0 /\ Has("else") /\ Top.k = "if" /\ Top.part = 1 /\ Top.body # <<>>
  /\ g' = [g EXCEPT !.frames[NF] = [@ EXCEPT !.done = <<Finish(Top, NilE)>>, !.body = <<>>, !.part = 2,
                                             !.term = FALSE, !.sc = Top.sc0]]
  /\ UNCHANGED <<phase, m>>

\* switch: start the next clause (lu marks "a clause is open"); ft: the clause just finished falls through
CaseLits == {7, -3, 1}      \* the initial values of a and b, and a value that never matches
UsedCases(f) == UNION {{f.done[i].e[j].n : j \in 1..Len(f.done[i].e)} : i \in 1..Len(f.done)}
                \cup {f.cur[j].n : j \in 1..Len(f.cur)}
HasDefault(f) == (f.lu /\ f.cur = <<>>) \/ \E i \in 1..Len(f.done) : f.done[i].e = <<>>
GenCase ==
  /\ phase = "gen" /\ g.left > 0 /\ Top.k = "switch"
  /\ \E ft \in (IF Top.lu /\ Has("fallthrough") /\ ~Top.term THEN {FALSE, TRUE} ELSE {FALSE}) :
     \E es \in (IF Top.h.n = 1
                THEN {<<IntE(n)>> : n \in CaseLits \ UsedCases(Top)}
                     \cup (IF Has("case2") THEN {<<IntE(n), IntE(n + 20)>> : n \in CaseLits \ UsedCases(Top)} ELSE {})
                ELSE {<<c>> : c \in CondPool})
               \cup (IF HasDefault(Top) THEN {} ELSE {<<>>}) :
       g' = [g EXCEPT !.left = @ - 1, !.frames[NF] =
               [@ EXCEPT !.done = IF Top.lu THEN @ \o <<CaseS(Top.cur, Finish(Top, NilE), ft)>> ELSE @,
                         !.cur = es, !.body = <<>>, !.term = FALSE, !.lu = TRUE,
                         !.sc = Top.sc0]]
  /\ UNCHANGED <<phase, m>>

RetPool == IF Top.k = "func" /\ Top.h.sig.rs # <<>> /\ Top.h.sig.rs[1].x = "" /\ ~EndsRet(Top)
           THEN Atoms("int") ELSE {NilE}
GenClose ==
  /\ phase = "gen" /\ NF > 1 /\ (Top.body # <<>> \/ Top.k = "switch")
  /\ (Top.k = "switch" => Top.lu)
  /\ \E re \in RetPool :
       LET st == Compound(Top, re)
           par == g.frames[NF - 1]
           \* f := func..: f is in scope only after the literal (pd)
       IN g' = [g EXCEPT !.frames = SubSeq(@, 1, NF - 2) \o <<AddStmts(par, <<st>>, Top.pd, FALSE)>>]
  /\ UNCHANGED <<phase, m>>

\* Top-level declarations every program of the struct family starts with (fixed; executed by the
\* semantics like any other function):   type P struct { X int; S string }
\*   func (p P) Get() int { return p.X }          value receiver
\*   func (p *P) Inc(n int) { p.X += n }          pointer receiver
\*   func (p P) With(n int) P { p.X = n; return p }   value receiver mutating its copy
FuncD(name, rx, rt, ps, rs, body) == [name |-> name, rx |-> rx, rt |-> rt, sig |-> [ps |-> ps, rs |-> rs], b |-> body]
PreludeFuncs ==
  IF Has("struct") THEN <<
    FuncD("Get", "p", "P", <<>>, <<Ent("", "int", FALSE, FALSE)>>, <<Ret(<<Sel(VarE("p"), "X")>>)>>),
    FuncD("Inc", "p", "*P", <<Ent("n", "int", FALSE, FALSE)>>, <<>>, <<OpAsg("+", Sel(VarE("p"), "X"), VarE("n"))>>),
    FuncD("With", "p", "P", <<Ent("n", "int", FALSE, FALSE)>>, <<Ent("", "P", FALSE, FALSE)>>,
          <<Asg(<<Sel(VarE("p"), "X")>>, <<VarE("n")>>), Ret(<<VarE("p")>>)>>) >>
  ELSE <<>>
Prelude == IF Has("struct") THEN "P" ELSE ""

\* Family "pkginit" (a lead from C12): package-level initialisers that are referenced first from a function
\* whose parameter shadows one of their operands.  The three declarations
\*     func c(p string) int { _ = p; return b }      var b = a      const a = 1
\* appear in one of three orders, with p = "a" (shadowing) or "z"; main prints c("x") and b.
GlobalDecls(v) ==
  IF v = 0 THEN <<>> ELSE
  LET pn == IF v <= 3 THEN "a" ELSE "z"
      fC == [St("tfunc", "", 0, <<>>, <<<<Asg(<<VarE("_")>>, <<VarE(pn)>>), Ret(<<VarE("b")>>)>>>>, <<"c">>)
             EXCEPT !.sig = [ps |-> <<Ent(pn, "string", FALSE, FALSE)>>, rs |-> <<Ent("", "int", FALSE, FALSE)>>]]
      vB == VarInit("b", "", VarE("a"))        \* var b = a   (untyped)
      cA == ConstS("a", IntE(1))
      o == ((v - 1) % 3) + 1
  IN CASE o = 1 -> <<fC, vB, cA>> [] o = 2 -> <<cA, vB, fC>> [] OTHER -> <<vB, cA, fC>>
Program == [prelude |-> Prelude, funcs |-> PreludeFuncs, globals |-> GlobalDecls(g.gv), body |-> Finish(g.frames[1], NilE)]

-----------------------------------------------------------------------------
\* Part II -- small-step semantics of the abstract syntax above.
\*
\* Values are uniform records [t,n,c,e]: t type tag, n number / store address, c characters,
\* e components.  The store is a sequence of cells (address = index): variable cells, arrays
\* behind slices, map cells, closure cells.  Environments are association lists name -> address,
\* innermost first; closures keep the environment of their creation (capture by reference).
V(t, n, c, e) == [t |-> t, n |-> n, c |-> c, e |-> e]
IntV(n)  == V("int", n, <<>>, <<>>)
StrV(c)  == V("string", 0, c, <<>>)
BoolV(b) == V("bool", IF b THEN 1 ELSE 0, <<>>, <<>>)
NilV     == V("nil", 0, <<>>, <<>>)
RuneV(n) == V("rune", n, <<>>, <<>>)
SliceV(a, off, len, cap) == V("slice", a, <<>>, <<IntV(off), IntV(len), IntV(cap)>>)
MapV(a)  == V("map", a, <<>>, <<>>)
StructV(x, s) == V("struct", 0, <<>>, <<x, s>>)
PtrV(a)  == V("ptr", a, <<>>, <<>>)
FuncV(a) == V("func", a, <<>>, <<>>)
RtErr(kind, n, l) == V("rterr", n, <<kind>>, <<IntV(l)>>)

Zero(T) == CASE T = "int" -> IntV(0) [] T = "string" -> StrV(<<>>) [] T = "bool" -> BoolV(FALSE)
             [] T = "[]int" -> SliceV(0, 0, 0, 0) [] T = "map[string]int" -> MapV(0)
             [] T = "P" -> StructV(IntV(0), StrV(<<>>)) [] T = "*P" -> PtrV(0)
             [] T = "rune" -> RuneV(0)
             [] OTHER -> NilV

Cell(t, v, e, f, env) == [t |-> t, v |-> v, e |-> e, f |-> f, env |-> env]
VarCell(v)  == Cell("var", v, <<>>, <<>>, <<>>)
ArrCell(es) == Cell("arr", NilV, es, <<>>, <<>>)
MapCell(es) == Cell("map", NilV, es, <<>>, <<>>)     \* e = <<k1, v1, k2, v2, ...>> in insertion order
CloCell(f, env) == Cell("clo", NilV, <<>>, f, env)   \* f = [sig, b, rx]

Ok(v, st) == [r |-> "ok", v |-> v, st |-> st]
Pn(v, st) == [r |-> "panic", v |-> v, st |-> st]
Unk(st)   == [r |-> "unk", v |-> NilV, st |-> st]

Bound(env, x) == \E i \in 1..Len(env) : env[i].x = x
Look(env, x) == env[CHOOSE i \in 1..Len(env) : env[i].x = x /\ \A j \in 1..(i - 1) : env[j].x # x].a

Ord(c) == CASE c = "a" -> 97 [] c = "b" -> 98 [] c = "c" -> 99 [] c = "x" -> 120 [] c = "y" -> 121 [] OTHER -> 63
RECURSIVE StrLess(_, _)
StrLess(a, b) == IF b = <<>> THEN FALSE ELSE IF a = <<>> THEN TRUE
                 ELSE IF Ord(a[1]) # Ord(b[1]) THEN Ord(a[1]) < Ord(b[1]) ELSE StrLess(Tail(a), Tail(b))
Abs(n) == IF n < 0 THEN -n ELSE n
GoDiv(a, b) == LET q == Abs(a) \div Abs(b) IN IF (a < 0) = (b < 0) THEN q ELSE -q   \* truncated division
GoMod(a, b) == a - b * GoDiv(a, b)
IntR(n, st) == IF Abs(n) > 1000000000 THEN Unk(st) ELSE Ok(IntV(n), st)             \* no overflow modelling
IsNil(v) == v.t = "nil" \/ (v.t \in {"slice", "map", "ptr", "func"} /\ v.n = 0)
Min2(a, b) == IF a < b THEN a ELSE b

BinOp(op, x, y, st) ==
  IF x.t = "int" /\ y.t = "int" THEN
    CASE op = "+" -> IntR(x.n + y.n, st) [] op = "-" -> IntR(x.n - y.n, st) [] op = "*" -> IF Abs(x.n) > 30000 \/ Abs(y.n) > 30000 THEN Unk(st) ELSE IntR(x.n * y.n, st)
      [] op = "/" -> IF y.n = 0 THEN Pn(RtErr("divzero", 0, 0), st) ELSE IntR(GoDiv(x.n, y.n), st)
      [] op = "%" -> IF y.n = 0 THEN Pn(RtErr("divzero", 0, 0), st) ELSE IntR(GoMod(x.n, y.n), st)
      [] op = "<<" -> IF y.n < 0 \/ y.n > 20 \/ Abs(x.n) > 1000 THEN Unk(st) ELSE IntR(x.n * 2 ^ y.n, st)
      [] op = ">>" -> IF y.n < 0 \/ y.n > 30 THEN Unk(st) ELSE IntR(x.n \div 2 ^ y.n, st)
      [] op = "==" -> Ok(BoolV(x.n = y.n), st) [] op = "!=" -> Ok(BoolV(x.n # y.n), st)
      [] op = "<" -> Ok(BoolV(x.n < y.n), st) [] op = "<=" -> Ok(BoolV(x.n <= y.n), st)
      [] op = ">" -> Ok(BoolV(x.n > y.n), st) [] op = ">=" -> Ok(BoolV(x.n >= y.n), st)
      [] OTHER -> Unk(st)
  ELSE IF x.t = "string" /\ y.t = "string" THEN
    CASE op = "+" -> Ok(StrV(x.c \o y.c), st)
      [] op = "==" -> Ok(BoolV(x.c = y.c), st) [] op = "!=" -> Ok(BoolV(x.c # y.c), st)
      [] op = "<" -> Ok(BoolV(StrLess(x.c, y.c)), st)
      [] OTHER -> Unk(st)
  ELSE IF x.t = "bool" /\ y.t = "bool" /\ op \in {"==", "!="} THEN Ok(BoolV((x.n = y.n) = (op = "==")), st)
  ELSE IF x.t = "struct" /\ y.t = "struct" /\ op \in {"==", "!="}
       THEN Ok(BoolV((x.e[1].n = y.e[1].n /\ x.e[2].c = y.e[2].c) = (op = "==")), st)
  ELSE IF op \in {"==", "!="} /\ (x.t = "nil" \/ y.t = "nil") THEN Ok(BoolV((IsNil(x) /\ IsNil(y)) = (op = "==")), st)
  ELSE Unk(st)

\* runtime.growslice for 8-byte elements: double below 256, then round up to a malloc size class
SizeClasses == {1, 2, 3, 4, 6, 8, 10, 12, 14, 16, 18, 20, 22, 24, 26, 28, 30, 32, 36, 40, 44, 48, 52, 56, 60, 64}
GrowCap(old, need) == LET c0 == IF need > 2 * old THEN need ELSE 2 * old
                          up == {c \in SizeClasses : c >= c0}
                      IN  IF up = {} THEN c0 ELSE CHOOSE c \in up : \A d \in up : c <= d

SLen(v) == v.e[2].n
SOff(v) == v.e[1].n
SCap(v) == v.e[3].n
Elems(v, st) == IF v.n = 0 THEN <<>> ELSE SubSeq(st[v.n].e, SOff(v) + 1, SOff(v) + SLen(v))
MapIdx(es, key) == {i \in 1..(Len(es) \div 2) : es[2 * i - 1].c = key.c}
MapGet(es, key, zero) == IF MapIdx(es, key) = {} THEN zero ELSE es[2 * (CHOOSE i \in MapIdx(es, key) : TRUE)]
MapPut(es, key, v) == IF MapIdx(es, key) = {} THEN es \o <<key, v>>
                      ELSE [es EXCEPT ![2 * (CHOOSE i \in MapIdx(es, key) : TRUE)] = v]
MapDel(es, key) == IF MapIdx(es, key) = {} THEN es
                   ELSE LET i == CHOOSE i \in MapIdx(es, key) : TRUE IN SubSeq(es, 1, 2 * i - 2) \o SubSeq(es, 2 * i + 1, Len(es))
Zeros(n) == [i \in 1..n |-> IntV(0)]
FieldIdx(f) == IF f = "X" THEN 1 ELSE 2

RECURSIVE Eval(_, _, _), EvalList(_, _, _)
EvalList(es, env, st) ==   \* left to right; result [r, vs, v (panic value), st]
  IF es = <<>> THEN [r |-> "ok", vs |-> <<>>, v |-> NilV, st |-> st]
  ELSE LET x == Eval(es[1], env, st) IN
       IF x.r # "ok" THEN [r |-> x.r, vs |-> <<>>, v |-> x.v, st |-> x.st]
       ELSE LET rest == EvalList(Tail(es), env, x.st) IN [rest EXCEPT !.vs = <<x.v>> \o @]

Eval(e, env, st) ==
  CASE e.k = "int" -> Ok(IntV(e.n), st)
    [] e.k = "str" -> Ok(StrV(e.c), st)
    [] e.k = "bool" -> Ok(BoolV(e.n = 1), st)
    [] e.k = "nil" -> Ok(NilV, st)
    [] e.k = "var" -> IF Bound(env, e.s) THEN Ok(st[Look(env, e.s)].v, st) ELSE Unk(st)
    [] e.k = "par" -> Eval(e.a[1], env, st)
    [] e.k = "un" ->
         LET x == Eval(e.a[1], env, st) IN
         IF x.r # "ok" THEN x
         ELSE IF e.s = "-" /\ x.v.t = "int" THEN Ok(IntV(-x.v.n), x.st)
         ELSE IF e.s = "!" /\ x.v.t = "bool" THEN Ok(BoolV(x.v.n = 0), x.st)
         ELSE Unk(x.st)
    [] e.k = "bin" ->
         LET x == Eval(e.a[1], env, st) IN
         IF x.r # "ok" THEN x
         ELSE IF e.s \in {"&&", "||"} THEN
              (IF x.v.t # "bool" THEN Unk(x.st)
               ELSE IF (e.s = "&&" /\ x.v.n = 0) \/ (e.s = "||" /\ x.v.n = 1) THEN x
               ELSE Eval(e.a[2], env, x.st))
         ELSE LET y == Eval(e.a[2], env, x.st) IN
              IF y.r # "ok" THEN y ELSE BinOp(e.s, x.v, y.v, y.st)
    [] e.k \in {"len", "cap"} ->
         LET x == Eval(e.a[1], env, st) IN
         IF x.r # "ok" THEN x
         ELSE IF x.v.t = "slice" THEN Ok(IntV(IF e.k = "len" THEN SLen(x.v) ELSE SCap(x.v)), x.st)
         ELSE IF x.v.t = "string" /\ e.k = "len" THEN Ok(IntV(Len(x.v.c)), x.st)
         ELSE IF x.v.t = "map" /\ e.k = "len" THEN Ok(IntV(IF x.v.n = 0 THEN 0 ELSE Len(x.st[x.v.n].e) \div 2), x.st)
         ELSE Unk(x.st)
    [] e.k = "idx" ->
         LET x == Eval(e.a[1], env, st) IN
         IF x.r # "ok" THEN x ELSE
         LET i == Eval(e.a[2], env, x.st) IN
         IF i.r # "ok" THEN i
         ELSE IF x.v.t = "slice" /\ i.v.t = "int" THEN
              (IF i.v.n < 0 \/ i.v.n >= SLen(x.v) THEN Pn(RtErr("index", i.v.n, SLen(x.v)), i.st)
               ELSE Ok(i.st[x.v.n].e[SOff(x.v) + i.v.n + 1], i.st))
         ELSE IF x.v.t = "string" /\ i.v.t = "int" THEN
              (IF i.v.n < 0 \/ i.v.n >= Len(x.v.c) THEN Pn(RtErr("index", i.v.n, Len(x.v.c)), i.st)
               ELSE Ok(IntV(Ord(x.v.c[i.v.n + 1])), i.st))
         ELSE IF x.v.t = "map" /\ i.v.t = "string" THEN
              Ok(IF x.v.n = 0 THEN IntV(0) ELSE MapGet(i.st[x.v.n].e, i.v, IntV(0)), i.st)
         ELSE Unk(i.st)
    [] e.k = "sli" ->
         LET x == Eval(e.a[1], env, st) IN
         IF x.r # "ok" THEN x ELSE
         LET r2 == EvalList(Tail(e.a), env, x.st) IN
         IF r2.r # "ok" THEN [r |-> r2.r, v |-> r2.v, st |-> r2.st]
         ELSE IF x.v.t = "slice" THEN
              LET lo == IF e.n \in {1, 3} THEN r2.vs[1].n ELSE 0
                  hi == IF e.n = 3 THEN r2.vs[2].n ELSE IF e.n = 2 THEN r2.vs[1].n ELSE SLen(x.v)
              IN IF 0 <= lo /\ lo <= hi /\ hi <= SCap(x.v)
                 THEN Ok(SliceV(x.v.n, SOff(x.v) + lo, hi - lo, SCap(x.v) - lo), r2.st)
                 ELSE Unk(r2.st)      \* slice bounds out of range: not modelled
         ELSE IF x.v.t = "string" THEN
              LET lo == IF e.n \in {1, 3} THEN r2.vs[1].n ELSE 0
                  hi == IF e.n = 3 THEN r2.vs[2].n ELSE IF e.n = 2 THEN r2.vs[1].n ELSE Len(x.v.c)
              IN IF 0 <= lo /\ lo <= hi /\ hi <= Len(x.v.c) THEN Ok(StrV(SubSeq(x.v.c, lo + 1, hi)), r2.st) ELSE Unk(r2.st)
         ELSE Unk(r2.st)
    [] e.k = "slit" ->
         LET r2 == EvalList(e.a, env, st) IN
         IF r2.r # "ok" THEN [r |-> r2.r, v |-> r2.v, st |-> r2.st]
         ELSE Ok(SliceV(Len(r2.st) + 1, 0, Len(r2.vs), Len(r2.vs)), Append(r2.st, ArrCell(r2.vs)))
    [] e.k = "make" ->
         IF e.s = "[]int" /\ Len(e.a) = 2 /\ e.a[1].k = "int" /\ e.a[2].k = "int" /\ e.a[1].n <= e.a[2].n
         THEN Ok(SliceV(Len(st) + 1, 0, e.a[1].n, e.a[2].n), Append(st, ArrCell(Zeros(e.a[2].n))))
         ELSE IF e.s = "map[string]int" /\ e.a = <<>> THEN Ok(MapV(Len(st) + 1), Append(st, MapCell(<<>>)))
         ELSE Unk(st)
    [] e.k = "mlit" ->
         LET r2 == EvalList(e.a, env, st) IN
         IF r2.r # "ok" THEN [r |-> r2.r, v |-> r2.v, st |-> r2.st]
         ELSE Ok(MapV(Len(r2.st) + 1), Append(r2.st, MapCell(r2.vs)))
    [] e.k = "plit" ->
         LET r2 == EvalList(e.a, env, st) IN
         IF r2.r # "ok" THEN [r |-> r2.r, v |-> r2.v, st |-> r2.st] ELSE
         LET sv == IF r2.vs = <<>> THEN Zero("P") ELSE StructV(r2.vs[1], r2.vs[2]) IN
         IF e.s = "P" THEN Ok(sv, r2.st) ELSE Ok(PtrV(Len(r2.st) + 1), Append(r2.st, VarCell(sv)))
    [] e.k = "sel" ->
         LET x == Eval(e.a[1], env, st) IN
         IF x.r # "ok" THEN x
         ELSE IF e.s \notin {"X", "S"} THEN Unk(x.st)            \* method values: not modelled
         ELSE IF x.v.t = "struct" THEN Ok(x.v.e[FieldIdx(e.s)], x.st)
         ELSE IF x.v.t = "ptr" THEN (IF x.v.n = 0 THEN Pn(RtErr("nilptr", 0, 0), x.st)
                                      ELSE Ok(x.st[x.v.n].v.e[FieldIdx(e.s)], x.st))
         ELSE Unk(x.st)
    [] e.k = "addr" -> IF e.a[1].k = "var" /\ Bound(env, e.a[1].s) THEN Ok(PtrV(Look(env, e.a[1].s)), st) ELSE Unk(st)
    [] e.k = "deref" ->
         LET x == Eval(e.a[1], env, st) IN
         IF x.r # "ok" THEN x
         ELSE IF x.v.t # "ptr" THEN Unk(x.st)
         ELSE IF x.v.n = 0 THEN Pn(RtErr("nilptr", 0, 0), x.st) ELSE Ok(x.st[x.v.n].v, x.st)
    [] e.k = "append" ->
         LET r2 == EvalList(e.a, env, st) IN
         IF r2.r # "ok" THEN [r |-> r2.r, v |-> r2.v, st |-> r2.st]
         ELSE IF r2.vs[1].t # "slice" THEN Unk(r2.st) ELSE
         LET sl == r2.vs[1]
             add == IF e.s = "..." THEN Elems(r2.vs[2], r2.st) ELSE Tail(r2.vs)
             n == SLen(sl) + Len(add)
         IN IF add = <<>> THEN Ok(sl, r2.st)
            ELSE IF sl.n # 0 /\ n <= SCap(sl)
            THEN Ok(SliceV(sl.n, SOff(sl), n, SCap(sl)),
                    [r2.st EXCEPT ![sl.n].e = [i \in 1..Len(@) |->
                        IF i > SOff(sl) + SLen(sl) /\ i <= SOff(sl) + n THEN add[i - SOff(sl) - SLen(sl)] ELSE @[i]]])
            ELSE LET nc == GrowCap(SCap(sl), n) IN
                 Ok(SliceV(Len(r2.st) + 1, 0, n, nc), Append(r2.st, ArrCell(Elems(sl, r2.st) \o add \o Zeros(nc - n))))
    [] OTHER -> Unk(st)

\* values as fmt prints them: slices, maps and pointers are resolved against the store
RECURSIVE PrintV(_, _)
PrintV(v, st) ==
  CASE v.t = "slice" -> V("slice", 0, <<>>, LET es == Elems(v, st) IN [i \in 1..Len(es) |-> PrintV(es[i], st)])
    [] v.t = "map" -> V("map", 0, <<>>, IF v.n = 0 THEN <<>> ELSE st[v.n].e)
    [] v.t = "ptr" -> V("ptr", 0, <<>>, IF v.n = 0 THEN <<>> ELSE <<st[v.n].v>>)
    [] OTHER -> v
PrintLine(vs, st) == [i \in 1..Len(vs) |-> PrintV(vs[i], st)]

\* ---- continuation items and frames
It(i, s, ss, n, env, env2, ph, v) == [i |-> i, s |-> s, ss |-> ss, n |-> n, env |-> env, env2 |-> env2, ph |-> ph, v |-> v]
Stmts(ss)   == It("stmts", <<>>, ss, 1, <<>>, <<>>, "", NilV)
ScopeIt(env) == It("scope", <<>>, <<>>, 0, env, <<>>, "", NilV)
Simple(i)   == It(i, <<>>, <<>>, 0, <<>>, <<>>, "", NilV)
Push(ss, K) == IF ss = <<>> THEN K ELSE <<Stmts(ss)>> \o K

Discard == [d |-> "discard", xs |-> <<>>]
FrameM(k, env, dest, isdef, named, rts) ==
  [k |-> k, env |-> env, defers |-> <<>>, named |-> named, rts |-> rts, rets |-> <<>>, dest |-> dest, isdef |-> isdef,
   byp |-> FALSE]   \* byp: this frame's deferred calls are being run by a panic (runtime.gopanic), not by its return

Fail(mm)     == [mm EXCEPT !.status = "unk"]
Panic(mm, v) == [mm EXCEPT !.pan = <<v>>, !.k = <<Simple("defers")>>, !.cs[1].byp = TRUE]

\* bind names to fresh cells (":=", parameters)
Bind(mm, xs, vs) ==
  LET n == Len(mm.st) IN
  [mm EXCEPT !.st = @ \o [i \in 1..Len(xs) |-> VarCell(vs[i])],
             !.env = [i \in 1..Len(xs) |-> [x |-> xs[Len(xs) + 1 - i], a |-> n + Len(xs) + 1 - i]] \o @]

\* ---- assignable locations
Ref(k, a, i, key) == [k |-> k, a |-> a, i |-> i, key |-> key]
EvalL(e, env, st) ==   \* result [r, ref, v (panic value), st]
  CASE e.k = "var" -> IF e.s = "_" THEN [r |-> "ok", ref |-> Ref("blank", 0, 0, NilV), v |-> NilV, st |-> st]
                      ELSE IF Bound(env, e.s) THEN [r |-> "ok", ref |-> Ref("cell", Look(env, e.s), 0, NilV), v |-> NilV, st |-> st]
                      ELSE [r |-> "unk", ref |-> Ref("blank", 0, 0, NilV), v |-> NilV, st |-> st]
    [] e.k = "idx" ->
         LET x == Eval(e.a[1], env, st) IN
         IF x.r # "ok" THEN [r |-> x.r, ref |-> Ref("blank", 0, 0, NilV), v |-> x.v, st |-> x.st] ELSE
         LET i == Eval(e.a[2], env, x.st) IN
         IF i.r # "ok" THEN [r |-> i.r, ref |-> Ref("blank", 0, 0, NilV), v |-> i.v, st |-> i.st]
         ELSE IF x.v.t = "slice" THEN
              (IF i.v.n < 0 \/ i.v.n >= SLen(x.v)
               THEN [r |-> "panic", ref |-> Ref("blank", 0, 0, NilV), v |-> RtErr("index", i.v.n, SLen(x.v)), st |-> i.st]
               ELSE [r |-> "ok", ref |-> Ref("elem", x.v.n, SOff(x.v) + i.v.n + 1, NilV), v |-> NilV, st |-> i.st])
         ELSE IF x.v.t = "map" THEN
              (IF x.v.n = 0 THEN [r |-> "panic", ref |-> Ref("blank", 0, 0, NilV), v |-> RtErr("nilmap", 0, 0), st |-> i.st]
               ELSE [r |-> "ok", ref |-> Ref("mapent", x.v.n, 0, i.v), v |-> NilV, st |-> i.st])
         ELSE [r |-> "unk", ref |-> Ref("blank", 0, 0, NilV), v |-> NilV, st |-> i.st]
    [] e.k = "sel" ->
         IF e.a[1].k # "var" \/ ~Bound(env, e.a[1].s) THEN [r |-> "unk", ref |-> Ref("blank", 0, 0, NilV), v |-> NilV, st |-> st]
         ELSE LET c == Look(env, e.a[1].s) IN
              IF st[c].v.t = "struct" THEN [r |-> "ok", ref |-> Ref("field", c, FieldIdx(e.s), NilV), v |-> NilV, st |-> st]
              ELSE IF st[c].v.t = "ptr" THEN
                   (IF st[c].v.n = 0 THEN [r |-> "panic", ref |-> Ref("blank", 0, 0, NilV), v |-> RtErr("nilptr", 0, 0), st |-> st]
                    ELSE [r |-> "ok", ref |-> Ref("field", st[c].v.n, FieldIdx(e.s), NilV), v |-> NilV, st |-> st])
              ELSE [r |-> "unk", ref |-> Ref("blank", 0, 0, NilV), v |-> NilV, st |-> st]
    [] OTHER -> [r |-> "unk", ref |-> Ref("blank", 0, 0, NilV), v |-> NilV, st |-> st]

RECURSIVE EvalLList(_, _, _)
EvalLList(es, env, st) ==
  IF es = <<>> THEN [r |-> "ok", refs |-> <<>>, v |-> NilV, st |-> st]
  ELSE LET x == EvalL(es[1], env, st) IN
       IF x.r # "ok" THEN [r |-> x.r, refs |-> <<>>, v |-> x.v, st |-> x.st]
       ELSE LET rest == EvalLList(Tail(es), env, x.st) IN [rest EXCEPT !.refs = <<x.ref>> \o @]

ReadRef(st, rf) == CASE rf.k = "cell" -> st[rf.a].v
                     [] rf.k = "elem" -> st[rf.a].e[rf.i]
                     [] rf.k = "mapent" -> MapGet(st[rf.a].e, rf.key, IntV(0))
                     [] rf.k = "field" -> st[rf.a].v.e[rf.i]
                     [] OTHER -> NilV
WriteRef(st, rf, v) == CASE rf.k = "cell" -> [st EXCEPT ![rf.a].v = v]
                         [] rf.k = "elem" -> [st EXCEPT ![rf.a].e[rf.i] = v]
                         [] rf.k = "mapent" -> [st EXCEPT ![rf.a].e = MapPut(@, rf.key, v)]
                         [] rf.k = "field" -> [st EXCEPT ![rf.a].v.e[rf.i] = v]
                         [] OTHER -> st
RECURSIVE WriteAll(_, _, _)
WriteAll(st, refs, vs) == IF refs = <<>> THEN st ELSE WriteAll(WriteRef(st, refs[1], vs[1]), Tail(refs), Tail(vs))

\* ---- calls
IsCall(e) == e.k \in {"call", "mcall"}
HasCall(es) == \E i \in 1..Len(es) : IsCall(es[i])
Method(name) == LET fs == g.prog.funcs
                    i == CHOOSE i \in 1..Len(fs) : fs[i].name = name
                IN  fs[i]
HasMethod(name) == \E i \in 1..Len(g.prog.funcs) : g.prog.funcs[i].name = name

\* enter a function: f = [sig, b, rx]; args include the receiver first when rx # ""
Enter(mm, f, cenv, args, dest, isdef, K) ==
  LET ps == (IF f.rx # "" THEN <<f.rx>> ELSE <<>>) \o [i \in 1..Len(f.sig.ps) |-> f.sig.ps[i].x]
      nm == SelectSeq(f.sig.rs, LAMBDA en : en.x # "")
      m1 == Bind([mm EXCEPT !.env = cenv], ps, args)
      m2 == Bind(m1, [i \in 1..Len(nm) |-> nm[i].x], [i \in 1..Len(nm) |-> Zero(nm[i].t)])
      fr == FrameM(K, mm.env, dest, isdef, [i \in 1..Len(nm) |-> Len(m1.st) + i], [i \in 1..Len(f.sig.rs) |-> f.sig.rs[i].t])
  IN [m2 EXCEPT !.k = Push(f.b, <<Simple("fnend")>>), !.cs = <<fr>> \o @]

\* start the call e (kind call / mcall); K = continuation after the call; results go to dest
StartCall(mm, e, dest, K) ==
  IF e.k = "call" THEN
    LET fv == Eval(e.a[1], mm.env, mm.st) IN
    IF fv.r # "ok" \/ fv.v.t # "func" THEN Fail(mm)
    ELSE IF fv.v.n = 0 THEN Panic([mm EXCEPT !.st = fv.st], RtErr("nilptr", 0, 0)) ELSE
    LET as == EvalList(Tail(e.a), mm.env, fv.st) IN
    IF as.r = "panic" THEN Panic([mm EXCEPT !.st = as.st], as.v)
    ELSE IF as.r # "ok" THEN Fail(mm)
    ELSE Enter([mm EXCEPT !.st = as.st], as.st[fv.v.n].f, as.st[fv.v.n].env, as.vs, dest, FALSE, K)
  ELSE \* mcall
    IF ~HasMethod(e.s) \/ e.a[1].k # "var" \/ ~Bound(mm.env, e.a[1].s) THEN Fail(mm) ELSE
    LET md == Method(e.s)
        c  == Look(mm.env, e.a[1].s)
        rv == mm.st[c].v
        as == EvalList(Tail(e.a), mm.env, mm.st)
        recv == IF md.rt = "*P" THEN (IF rv.t = "ptr" THEN rv ELSE PtrV(c))
                ELSE (IF rv.t = "ptr" THEN (IF rv.n = 0 THEN NilV ELSE mm.st[rv.n].v) ELSE rv)
    IN IF as.r = "panic" THEN Panic([mm EXCEPT !.st = as.st], as.v)
       ELSE IF as.r # "ok" THEN Fail(mm)
       ELSE IF recv.t = "nil" THEN Panic(mm, RtErr("nilptr", 0, 0))
       ELSE Enter([mm EXCEPT !.st = as.st], [sig |-> md.sig, b |-> md.b, rx |-> md.rx], <<>>, <<recv>> \o as.vs, dest, FALSE, K)

RECURSIVE AssignVars(_, _, _)
AssignVars(mm, xs, vs) == IF xs = <<>> THEN mm
                          ELSE AssignVars([mm EXCEPT !.st[Look(mm.env, xs[1])].v = vs[1]], Tail(xs), Tail(vs))

\* hand the results of a finished call to the statement that made it
Deliver(mm, dest, vs) ==
  CASE dest.d = "discard" -> mm
    [] dest.d = "decl" -> IF Len(dest.xs) = Len(vs) THEN Bind(mm, dest.xs, vs) ELSE Fail(mm)
    [] dest.d = "asg" -> IF Len(dest.xs) = Len(vs) THEN AssignVars(mm, dest.xs, vs) ELSE Fail(mm)
    [] dest.d = "print" -> [mm EXCEPT !.out = Append(@, PrintLine(vs, mm.st))]
    [] OTHER -> Fail(mm)

DoRecover(mm) == IF mm.pan # <<>> /\ Head(mm.cs).isdef THEN [v |-> mm.pan[1], m |-> [mm EXCEPT !.pan = <<>>]]
                 ELSE [v |-> NilV, m |-> mm]

\* index of the first continuation item that satisfies the target test of break / continue
LoopItem(it, lab) == it.i \in {"for", "range"} /\ (lab = "" \/ it.s.s = lab)
BreakTarget(k, lab) == LET js == {j \in 1..Len(k) : LoopItem(k[j], lab) \/ (lab = "" /\ k[j].i = "sw")} IN
                       IF js = {} THEN 0 ELSE CHOOSE j \in js : \A j2 \in js : j <= j2
ContTarget(k, lab)  == LET js == {j \in 1..Len(k) : LoopItem(k[j], lab)} IN
                       IF js = {} THEN 0 ELSE CHOOSE j \in js : \A j2 \in js : j <= j2

RECURSIVE FindClause(_, _, _, _, _, _)
FindClause(cs, i, tagged, tv, env, st) ==   \* first clause (in source order) one of whose expressions matches; 0: none
  IF i > Len(cs) THEN 0
  ELSE LET c == cs[i]
           hit == \E j \in 1..Len(c.e) :
                     LET x == Eval(c.e[j], env, st) IN
                     x.r = "ok" /\ (IF tagged THEN BinOp("==", tv, x.v, st).v.n = 1 ELSE x.v.n = 1)
       IN IF hit THEN i ELSE FindClause(cs, i + 1, tagged, tv, env, st)
DefaultClause(cs) == LET ds == {i \in 1..Len(cs) : cs[i].e = <<>>} IN IF ds = {} THEN 0 ELSE CHOOSE i \in ds : TRUE

\* ---- one statement; mm.k is already the continuation after the statement
Exec(mm, s) ==
  LET env == mm.env
      st0 == mm.st
  IN
  CASE s.k \in {"decl", "const"} \/ (s.k = "var" /\ s.n = 1) ->
         IF Len(s.e) = 1 /\ IsCall(s.e[1]) THEN StartCall(mm, s.e[1], [d |-> "decl", xs |-> s.x], mm.k)
         ELSE IF Len(s.e) = 1 /\ s.e[1].k = "recover" THEN LET rr == DoRecover(mm) IN Bind(rr.m, s.x, <<rr.v>>)
         ELSE IF Len(s.e) = 1 /\ s.e[1].k = "copy" THEN
              LET r2 == EvalList(s.e[1].a, env, st0) IN
              IF r2.r # "ok" \/ r2.vs[1].t # "slice" \/ r2.vs[2].t # "slice" THEN Fail(mm) ELSE
              LET dst == r2.vs[1]  src == Elems(r2.vs[2], r2.st)  n == Min2(SLen(dst), Len(src)) IN
              Bind([mm EXCEPT !.st = IF n = 0 THEN r2.st ELSE
                       [r2.st EXCEPT ![dst.n].e = [i \in 1..Len(@) |->
                           IF i > SOff(dst) /\ i <= SOff(dst) + n THEN src[i - SOff(dst)] ELSE @[i]]]], s.x, <<IntV(n)>>)
         ELSE IF Len(s.x) = 2 /\ Len(s.e) = 1 THEN
              (IF s.e[1].k # "idx" THEN Fail(mm) ELSE
               LET r2 == EvalList(s.e[1].a, env, st0) IN
               IF r2.r = "panic" THEN Panic([mm EXCEPT !.st = r2.st], r2.v)
               ELSE IF r2.r # "ok" \/ r2.vs[1].t # "map" THEN Fail(mm)
               ELSE LET es == IF r2.vs[1].n = 0 THEN <<>> ELSE r2.st[r2.vs[1].n].e IN
                    Bind([mm EXCEPT !.st = r2.st], s.x, <<MapGet(es, r2.vs[2], IntV(0)), BoolV(MapIdx(es, r2.vs[2]) # {})>>))
         ELSE IF HasCall(s.e) \/ Len(s.e) # Len(s.x) THEN Fail(mm)
         ELSE LET r2 == EvalList(s.e, env, st0) IN
              IF r2.r = "panic" THEN Panic([mm EXCEPT !.st = r2.st], r2.v)
              ELSE IF r2.r # "ok" THEN Fail(mm)
              ELSE Bind([mm EXCEPT !.st = r2.st], s.x, r2.vs)
    [] s.k = "var" -> Bind(mm, s.x, <<Zero(s.s)>>)
    [] s.k = "asg" ->
         LET ls == SubSeq(s.e, 1, s.n)  rs == SubSeq(s.e, s.n + 1, Len(s.e)) IN
         IF Len(rs) = 1 /\ IsCall(rs[1]) THEN
            (IF \A i \in 1..Len(ls) : ls[i].k = "var" /\ ls[i].s # "_"
             THEN StartCall(mm, rs[1], [d |-> "asg", xs |-> [i \in 1..Len(ls) |-> ls[i].s]], mm.k) ELSE Fail(mm))
         ELSE IF HasCall(rs) \/ Len(ls) # Len(rs) THEN Fail(mm) ELSE
         LET l2 == EvalLList(ls, env, st0) IN
         IF l2.r = "unk" THEN Fail(mm)
         ELSE IF l2.r = "panic" THEN Panic([mm EXCEPT !.st = l2.st], l2.v)    \* gc checks the bounds of the left side first
         ELSE
         LET r2 == EvalList(rs, env, l2.st) IN
         IF r2.r = "unk" THEN Fail(mm)
         ELSE IF r2.r = "panic" THEN Panic([mm EXCEPT !.st = r2.st], r2.v)
         ELSE [mm EXCEPT !.st = WriteAll(r2.st, l2.refs, r2.vs)]
    [] s.k \in {"opasg", "inc"} ->
         LET l2 == EvalL(s.e[1], env, st0) IN
         IF l2.r = "unk" THEN Fail(mm) ELSE
         LET r2 == IF s.k = "inc" THEN Ok(IntV(1), l2.st) ELSE Eval(s.e[2], env, l2.st) IN
         IF r2.r = "unk" THEN Fail(mm)
         ELSE IF r2.r = "panic" THEN Panic([mm EXCEPT !.st = r2.st], r2.v)
         ELSE IF l2.r = "panic" THEN Panic([mm EXCEPT !.st = r2.st], l2.v)
         ELSE LET op == IF s.k = "inc" THEN (IF s.s = "++" THEN "+" ELSE "-") ELSE s.s
                  nv == BinOp(op, ReadRef(r2.st, l2.ref), r2.v, r2.st)
              IN IF nv.r = "unk" THEN Fail(mm)
                 ELSE IF nv.r = "panic" THEN Panic([mm EXCEPT !.st = r2.st], nv.v)
                 ELSE [mm EXCEPT !.st = WriteRef(r2.st, l2.ref, nv.v)]
    [] s.k = "print" ->
         IF Len(s.e) = 1 /\ IsCall(s.e[1]) THEN StartCall(mm, s.e[1], [d |-> "print", xs |-> <<>>], mm.k)
         ELSE IF HasCall(s.e) THEN Fail(mm)
         ELSE LET r2 == EvalList(s.e, env, st0) IN
              IF r2.r = "panic" THEN Panic([mm EXCEPT !.st = r2.st], r2.v)
              ELSE IF r2.r # "ok" THEN Fail(mm)
              ELSE [mm EXCEPT !.st = r2.st, !.out = Append(@, PrintLine(r2.vs, r2.st))]
    [] s.k = "expr" ->
         LET e == s.e[1] IN
         IF IsCall(e) THEN StartCall(mm, e, Discard, mm.k)
         ELSE IF e.k = "recover" THEN DoRecover(mm).m
         ELSE IF e.k = "delete" THEN
              LET r2 == EvalList(e.a, env, st0) IN
              IF r2.r # "ok" \/ r2.vs[1].t # "map" THEN Fail(mm)
              ELSE IF r2.vs[1].n = 0 THEN [mm EXCEPT !.st = r2.st]
              ELSE [mm EXCEPT !.st = [r2.st EXCEPT ![r2.vs[1].n].e = MapDel(@, r2.vs[2])]]
         ELSE Fail(mm)
    [] s.k \in {"break", "continue"} ->
         LET j == IF s.k = "break" THEN BreakTarget(mm.k, s.s) ELSE ContTarget(mm.k, s.s) IN
         IF j = 0 THEN Fail(mm)
         ELSE IF s.k = "break" THEN [mm EXCEPT !.k = SubSeq(@, j + 1, Len(@)), !.env = mm.k[j].env]
         ELSE [mm EXCEPT !.k = SubSeq(@, j, Len(@)), !.env = mm.k[j].env2]
    [] s.k = "ret" ->
         IF HasCall(s.e) THEN Fail(mm) ELSE
         LET r2 == EvalList(s.e, env, st0)  fr == Head(mm.cs) IN
         IF r2.r = "panic" THEN Panic([mm EXCEPT !.st = r2.st], r2.v)
         ELSE IF r2.r # "ok" THEN Fail(mm)
         ELSE IF s.e # <<>> /\ fr.named # <<>>
              THEN [mm EXCEPT !.st = [i \in 1..Len(r2.st) |->
                                        IF \E q \in 1..Len(fr.named) : fr.named[q] = i
                                        THEN VarCell(r2.vs[CHOOSE q \in 1..Len(fr.named) : fr.named[q] = i]) ELSE r2.st[i]],
                              !.k = <<Simple("defers")>>]
              ELSE [mm EXCEPT !.st = r2.st, !.cs[1].rets = r2.vs, !.k = <<Simple("defers")>>]
    [] s.k = "defer" ->
         LET e == s.e[1] IN
         IF e.k = "println" THEN
            LET r2 == EvalList(e.a, env, st0) IN
            IF r2.r # "ok" THEN Fail(mm)
            ELSE [mm EXCEPT !.st = r2.st, !.cs[1].defers = Append(@, [kind |-> "println", f |-> 0, args |-> r2.vs])]
         ELSE IF e.k = "call" THEN
            LET r2 == EvalList(e.a, env, st0) IN
            IF r2.r # "ok" \/ r2.vs[1].t # "func" THEN Fail(mm)
            ELSE [mm EXCEPT !.st = r2.st, !.cs[1].defers = Append(@, [kind |-> "clo", f |-> r2.vs[1].n, args |-> Tail(r2.vs)])]
         ELSE Fail(mm)
    [] s.k = "panic" ->
         LET r2 == Eval(s.e[1], env, st0) IN
         IF r2.r = "panic" THEN Panic([mm EXCEPT !.st = r2.st], r2.v)
         ELSE IF r2.r # "ok" THEN Fail(mm) ELSE Panic([mm EXCEPT !.st = r2.st], r2.v)
    [] s.k = "exit" -> [mm EXCEPT !.status = "done", !.exit = s.e[1].n]
    [] s.k = "if" ->
         LET m1 == IF s.n = 1
                   THEN LET r1 == Eval(s.e[2], env, st0) IN
                        IF r1.r # "ok" THEN Fail(mm) ELSE Bind([mm EXCEPT !.st = r1.st], <<s.x[1]>>, <<r1.v>>)
                   ELSE mm
         IN IF m1.status # "run" THEN m1 ELSE
            LET c == Eval(s.e[1], m1.env, m1.st) IN
            IF c.r = "panic" THEN Panic([m1 EXCEPT !.st = c.st], c.v)
            ELSE IF c.r # "ok" \/ c.v.t # "bool" THEN Fail(mm)
            ELSE [m1 EXCEPT !.st = c.st, !.k = Push(IF c.v.n = 1 THEN s.b[2] ELSE s.b[3], <<ScopeIt(env)>> \o @)]
    [] s.k = "block" -> [mm EXCEPT !.k = Push(s.b[1], <<ScopeIt(env)>> \o @)]
    [] s.k = "for" ->
         LET m1 == IF s.n = 3 THEN Bind(mm, <<s.x[1]>>, <<IntV(0)>>) ELSE mm IN
         [m1 EXCEPT !.k = <<It("for", s, <<>>, 0, env, m1.env, "cond", NilV)>> \o @]
    [] s.k = "range" ->
         LET x == Eval(s.e[1], env, st0) IN
         IF x.r # "ok" THEN Fail(mm) ELSE
         LET snap == CASE x.v.t = "slice" -> x.v
                       [] x.v.t = "string" -> x.v
                       [] x.v.t = "map" -> V("keys", 0, <<>>, IF x.v.n = 0 THEN <<>> ELSE
                                              LET es == x.st[x.v.n].e IN [i \in 1..(Len(es) \div 2) |-> es[2 * i - 1]])
                       [] OTHER -> NilV
             names == SelectSeq(s.x, LAMBDA nm : nm # "" /\ nm # "_")
             m1 == Bind([mm EXCEPT !.st = x.st], names, [i \in 1..Len(names) |-> NilV])
         IN IF snap.t = "nil" THEN Fail(mm)
            ELSE [m1 EXCEPT !.k = <<It("range", s, <<>>, 0, env, m1.env, IF x.v.t = "map" THEN "map" ELSE "", snap)>> \o @,
                            !.env = m1.env,
                            !.rmap = IF x.v.t = "map" THEN x.v.n ELSE 0]
    [] s.k = "switch" ->
         LET tv == IF s.n = 1 THEN Eval(s.e[1], env, st0) ELSE Ok(BoolV(TRUE), st0) IN
         IF tv.r # "ok" THEN Fail(mm) ELSE
         LET cs == s.b[1]
             hit == FindClause(cs, 1, s.n = 1, tv.v, env, tv.st)
             i == IF hit # 0 THEN hit ELSE DefaultClause(cs)
         IN IF i = 0 THEN mm
            ELSE [mm EXCEPT !.k = Push(cs[i].b[1], <<It("swnext", s, <<>>, i, env, env, "", NilV),
                                                     It("sw", s, <<>>, 0, env, env, "", NilV)>> \o @)]
    [] s.k = "func" ->
         LET a == Len(st0) + 1
             m1 == [mm EXCEPT !.st = Append(@, CloCell([sig |-> s.sig, b |-> s.b[1], rx |-> ""], env))]
         IN CASE s.n = 0 -> Bind(m1, <<s.x[1]>>, <<FuncV(a)>>)
              [] s.n = 1 -> [m1 EXCEPT !.cs[1].defers = Append(@, [kind |-> "clo", f |-> a, args |-> <<>>])]
              [] s.n = 3 -> Enter(m1, m1.st[a].f, env, <<>>, Discard, FALSE, mm.k)
              [] OTHER -> Fail(mm)
    [] OTHER -> Fail(mm)

\* ---- one step of the machine
StepM(mm) ==
  LET it == Head(mm.k) IN
  CASE it.i = "stmts" ->
         LET K1 == IF it.n < Len(it.ss) THEN <<[it EXCEPT !.n = @ + 1]>> \o Tail(mm.k) ELSE Tail(mm.k) IN
         Exec([mm EXCEPT !.k = K1], it.ss[it.n])
    [] it.i = "scope" -> [mm EXCEPT !.k = Tail(@), !.env = it.env]
    [] it.i = "sw" -> [mm EXCEPT !.k = Tail(@), !.env = it.env]
    [] it.i = "swnext" ->
         LET cs == it.s.b[1] IN
         IF cs[it.n].n = 1 /\ it.n < Len(cs)
         THEN [mm EXCEPT !.env = it.env, !.k = Push(cs[it.n + 1].b[1], <<[it EXCEPT !.n = @ + 1]>> \o Tail(@))]
         ELSE [mm EXCEPT !.env = it.env, !.k = Tail(@)]
    [] it.i = "for" ->
         IF it.ph = "post"
         THEN [mm EXCEPT !.env = it.env2,
                         !.st = IF it.s.n = 3 THEN [@ EXCEPT ![Look(it.env2, it.s.x[1])].v = IntV(@.n + 1)] ELSE @,
                         !.k = <<[it EXCEPT !.ph = "cond"]>> \o Tail(@)]
         ELSE LET c == IF it.s.n = 0 THEN Ok(BoolV(TRUE), mm.st)
                       ELSE Eval(Bin("<", VarE(it.s.x[1]), it.s.e[1]), it.env2, mm.st) IN
              IF c.r # "ok" THEN Fail(mm)
              ELSE IF c.v.n = 1 THEN [mm EXCEPT !.env = it.env2, !.k = Push(it.s.b[1], <<[it EXCEPT !.ph = "post"]>> \o Tail(@))]
              ELSE [mm EXCEPT !.env = it.env, !.k = Tail(@)]
    [] it.i = "range" ->
         LET sn == it.v
             n == CASE sn.t = "slice" -> SLen(sn) [] sn.t = "string" -> Len(sn.c) [] OTHER -> Len(sn.e)
             kx == it.s.x[1]
             vx == IF Len(it.s.x) > 1 THEN it.s.x[2] ELSE ""
             kv == CASE sn.t = "keys" -> sn.e[it.n + 1] [] OTHER -> IntV(it.n)
             vv == CASE sn.t = "slice" -> mm.st[sn.n].e[SOff(sn) + it.n + 1]
                     [] sn.t = "string" -> RuneV(Ord(sn.c[it.n + 1]))
                     [] OTHER -> IF mm.rmap = 0 THEN IntV(0) ELSE MapGet(mm.st[mm.rmap].e, sn.e[it.n + 1], IntV(0))
         IN IF it.n >= n THEN [mm EXCEPT !.env = it.env, !.k = Tail(@)]
            ELSE LET s1 == IF kx \notin {"", "_"} THEN [mm.st EXCEPT ![Look(it.env2, kx)].v = kv] ELSE mm.st
                     s2 == IF vx \notin {"", "_"} THEN [s1 EXCEPT ![Look(it.env2, vx)].v = vv] ELSE s1
                 IN [mm EXCEPT !.st = s2, !.env = it.env2, !.k = Push(it.s.b[1], <<[it EXCEPT !.n = @ + 1]>> \o Tail(@))]
    [] it.i = "fnend" -> [mm EXCEPT !.k = <<Simple("defers")>>]
    [] it.i = "defers" ->
         LET fr == Head(mm.cs) IN
         IF fr.defers # <<>> THEN
            LET d == fr.defers[Len(fr.defers)]
                m1 == [mm EXCEPT !.cs[1].defers = SubSeq(@, 1, Len(@) - 1)]
            IN IF d.kind = "println" THEN [m1 EXCEPT !.out = Append(@, PrintLine(d.args, mm.st))]
               \* recover() works only in a deferred call run by the panic itself (not by a normal return
               \* that happens while a panic is in flight)
               ELSE Enter(m1, mm.st[d.f].f, mm.st[d.f].env, d.args, Discard, fr.byp /\ mm.pan # <<>>, <<Simple("defers")>>)
         ELSE IF Len(mm.cs) = 1 THEN   \* main returns (or dies)
            [mm EXCEPT !.status = "done", !.exit = IF mm.pan # <<>> THEN 2 ELSE 0, !.k = <<>>]
         ELSE IF mm.pan # <<>> THEN     \* still panicking: the caller starts running its deferred calls
            [mm EXCEPT !.cs = [Tail(@) EXCEPT ![1].byp = TRUE], !.env = fr.env, !.k = <<Simple("defers")>>]
         ELSE LET vs == IF fr.named # <<>> THEN [i \in 1..Len(fr.named) |-> mm.st[fr.named[i]].v]
                        ELSE IF fr.rets # <<>> THEN fr.rets
                        ELSE [i \in 1..Len(fr.rts) |-> Zero(fr.rts[i])]
              IN Deliver([mm EXCEPT !.cs = Tail(@), !.env = fr.env, !.k = fr.k], fr.dest, vs)
    [] OTHER -> Fail(mm)

StartM(prog) == [k |-> Push(prog.body, <<Simple("fnend")>>), env |-> <<>>, st |-> <<>>, out |-> <<>>, pan |-> <<>>,
                 cs |-> <<FrameM(<<>>, <<>>, Discard, FALSE, <<>>, <<>>)>>, steps |-> 0, status |-> "run", exit |-> 0, rmap |-> 0]
InitM == [status |-> "idle", steps |-> 0]

Step == /\ phase = "run" /\ m.status = "run"
        /\ m' = [StepM(m) EXCEPT !.steps = m.steps + 1]
        /\ UNCHANGED <<phase, g>>
Halt == /\ phase = "run" /\ m.status # "run"
        /\ phase' = "done"
        /\ UNCHANGED <<g, m>>

\* ---- model-level theorems (TLC invariants)
Terminates == phase = "run" => m.steps <= MaxSteps
\* type preservation: every variable cell holds a value of a kind Go could store there, addresses are valid
StoreOK == phase = "run" /\ m.status = "run" =>
   /\ \A i \in 1..Len(m.st) : m.st[i].t \in {"var", "arr", "map", "clo"}
   /\ \A i \in 1..Len(m.st) : m.st[i].t = "var" /\ m.st[i].v.t \in {"slice", "map", "ptr", "func"} => m.st[i].v.n <= Len(m.st)
   /\ \A i \in 1..Len(m.env) : m.env[i].a \in 1..Len(m.st)
   /\ Len(m.cs) >= 1
\* every program the model could not follow is counted, not hidden
Predicted == phase = "done" /\ Predict => m.status \in {"done", "unk"}


-----------------------------------------------------------------------------
\* Part III -- the spec's own typing judgement.  ProgGen builds programs from typed menus; WellTyped is
\* written independently of the menus (types of expressions, scoping, placement of break / continue /
\* return) and is checked by TLC on every complete program (invariant WellTypedInv).
TLook(tenv, x) == IF \E i \in 1..Len(tenv) : tenv[i].x = x
                  THEN tenv[CHOOSE i \in 1..Len(tenv) : tenv[i].x = x /\ \A j \in 1..(i - 1) : tenv[j].x # x].t
                  ELSE "ERR"
TBind(tenv, xs, ts) == [i \in 1..Len(xs) |-> [x |-> xs[Len(xs) + 1 - i], t |-> ts[Len(xs) + 1 - i]]] \o tenv
Nilable == {"[]int", "map[string]int", "*P", "any", "func() int", "func(int) int", "func()"}
FnTypeOf(sig) ==
  LET pt == [i \in 1..Len(sig.ps) |-> sig.ps[i].t]  rt == [i \in 1..Len(sig.rs) |-> sig.rs[i].t] IN
  CASE pt = <<>> /\ rt = <<"int">> -> "func() int"
    [] pt = <<"int">> /\ rt = <<"int">> -> "func(int) int"
    [] pt = <<>> /\ rt = <<>> -> "func()"
    [] OTHER -> "ERR"
MethodSig(name) == CASE name = "Get" -> [ps |-> <<>>, r |-> "int"]
                     [] name = "Inc" -> [ps |-> <<"int">>, r |-> "void"]
                     [] name = "With" -> [ps |-> <<"int">>, r |-> "P"]
                     [] OTHER -> [ps |-> <<"ERR">>, r |-> "ERR"]

RECURSIVE TypeOf(_, _)
TypeOf(e, tenv) ==
  LET T(i) == TypeOf(e.a[i], tenv)
      ArgsAre(from, ts) == Len(e.a) - from + 1 = Len(ts) /\ \A i \in 1..Len(ts) : T(from + i - 1) = ts[i]
  IN
  CASE e.k = "int" -> "int" [] e.k = "str" -> "string" [] e.k = "bool" -> "bool" [] e.k = "nil" -> "nil"
    [] e.k = "var" -> TLook(tenv, e.s)
    [] e.k = "par" -> T(1)
    [] e.k = "un" -> IF e.s = "-" /\ T(1) = "int" THEN "int" ELSE IF e.s = "!" /\ T(1) = "bool" THEN "bool" ELSE "ERR"
    [] e.k = "bin" ->
         IF e.s \in {"&&", "||"} THEN (IF T(1) = "bool" /\ T(2) = "bool" THEN "bool" ELSE "ERR")
         ELSE IF e.s \in {"==", "!="}
              THEN (IF (T(1) = T(2) /\ T(1) \in {"int", "string", "bool", "P", "*P"})
                       \/ (T(2) = "nil" /\ T(1) \in Nilable) \/ (T(1) = "nil" /\ T(2) \in Nilable) THEN "bool" ELSE "ERR")
         ELSE IF e.s \in {"<", "<=", ">", ">="} THEN (IF T(1) = T(2) /\ T(1) \in {"int", "string"} THEN "bool" ELSE "ERR")
         ELSE IF e.s = "+" /\ T(1) = "string" /\ T(2) = "string" THEN "string"
         ELSE IF e.s \in {"+", "-", "*", "/", "%", "&", "|", "^", "<<", ">>", "&^"} /\ T(1) = "int" /\ T(2) = "int" THEN "int"
         ELSE "ERR"
    [] e.k = "len" -> IF T(1) \in {"string", "[]int", "map[string]int"} THEN "int" ELSE "ERR"
    [] e.k = "cap" -> IF T(1) = "[]int" THEN "int" ELSE "ERR"
    [] e.k = "idx" -> IF T(1) = "[]int" /\ T(2) = "int" THEN "int"
                      ELSE IF T(1) = "map[string]int" /\ T(2) = "string" THEN "int"
                      ELSE IF T(1) = "string" /\ T(2) = "int" THEN "byte" ELSE "ERR"
    [] e.k = "sli" -> IF T(1) \in {"[]int", "string"} /\ \A i \in 2..Len(e.a) : T(i) = "int" THEN T(1) ELSE "ERR"
    [] e.k = "slit" -> IF e.s = "int" /\ \A i \in 1..Len(e.a) : T(i) = "int" THEN "[]int" ELSE "ERR"
    [] e.k = "mlit" -> IF Len(e.a) % 2 = 0 /\ \A i \in 1..Len(e.a) : T(i) = (IF i % 2 = 1 THEN "string" ELSE "int")
                       THEN "map[string]int" ELSE "ERR"
    [] e.k = "make" -> IF e.s = "[]int" /\ Len(e.a) \in {1, 2} /\ \A i \in 1..Len(e.a) : T(i) = "int" THEN "[]int"
                       ELSE IF e.s = "map[string]int" /\ e.a = <<>> THEN e.s ELSE "ERR"
    [] e.k = "plit" -> IF e.a = <<>> \/ (Len(e.a) = 2 /\ T(1) = "int" /\ T(2) = "string")
                       THEN (IF e.s = "P" THEN "P" ELSE IF e.s = "&P" THEN "*P" ELSE "ERR") ELSE "ERR"
    [] e.k = "sel" -> IF T(1) \notin {"P", "*P"} THEN "ERR"
                      ELSE IF e.s = "X" THEN "int" ELSE IF e.s = "S" THEN "string"
                      ELSE IF e.s = "Get" THEN "func() int" ELSE "ERR"
    [] e.k = "addr" -> IF e.a[1].k = "var" /\ T(1) = "P" THEN "*P" ELSE "ERR"
    [] e.k = "deref" -> IF T(1) = "*P" THEN "P" ELSE "ERR"
    [] e.k = "append" -> IF T(1) # "[]int" THEN "ERR"
                         ELSE IF e.s = "..." THEN (IF Len(e.a) = 2 /\ T(2) = "[]int" THEN "[]int" ELSE "ERR")
                         ELSE IF \A i \in 2..Len(e.a) : T(i) = "int" THEN "[]int" ELSE "ERR"
    [] e.k = "call" -> IF T(1) = "func() int" /\ Len(e.a) = 1 THEN "int"
                       ELSE IF T(1) = "func(int) int" /\ ArgsAre(2, <<"int">>) THEN "int"
                       ELSE IF T(1) = "func(string) int" /\ ArgsAre(2, <<"string">>) THEN "int"
                       ELSE IF T(1) = "func()" /\ Len(e.a) = 1 THEN "void" ELSE "ERR"
    [] e.k = "mcall" -> IF T(1) \in {"P", "*P"} /\ ArgsAre(2, MethodSig(e.s).ps)
                           /\ (MethodSig(e.s).r # "void" \/ e.a[1].k = "var")    \* pointer receiver needs an addressable operand
                        THEN MethodSig(e.s).r ELSE "ERR"
    [] e.k = "copy" -> IF ArgsAre(1, <<"[]int", "[]int">>) THEN "int" ELSE "ERR"
    [] e.k = "delete" -> IF ArgsAre(1, <<"map[string]int", "string">>) THEN "void" ELSE "ERR"
    [] e.k = "recover" -> "any"
    [] e.k = "println" -> IF \A i \in 1..Len(e.a) : T(i) \notin {"ERR", "void"} THEN "void" ELSE "ERR"
    [] OTHER -> "ERR"

Ctx(loop, brk, labels, rs, named) == [loop |-> loop, brk |-> brk, labels |-> labels, rs |-> rs, named |-> named]
Assignable(e) == e.k \in {"var", "idx", "sel"}
RECURSIVE OKStmts(_, _, _)
OKStmts(ss, tenv, ctx) ==
  IF ss = <<>> THEN TRUE ELSE
  LET s == ss[1]
      rest == Tail(ss)
      TE(e) == TypeOf(e, tenv)
      Val(t) == t \notin {"ERR", "void", "nil"}
      InLoop(lb) == Ctx(TRUE, TRUE, ctx.labels \cup (IF lb = "" THEN {} ELSE {lb}), ctx.rs, ctx.named)
  IN
  CASE s.k = "decl" ->
         LET ts == IF Len(s.x) = 2 /\ Len(s.e) = 1
                   THEN (IF s.e[1].k = "idx" /\ TE(s.e[1].a[1]) = "map[string]int" /\ TE(s.e[1].a[2]) = "string"
                         THEN <<"int", "bool">> ELSE <<"ERR", "ERR">>)
                   ELSE [i \in 1..Len(s.e) |-> TE(s.e[i])]
         IN Len(ts) = Len(s.x) /\ (\A i \in 1..Len(ts) : Val(ts[i]) /\ ts[i] # "byte") /\ OKStmts(rest, TBind(tenv, s.x, ts), ctx)
    [] s.k = "var" -> (s.n = 1 => TE(s.e[1]) = s.s) /\ OKStmts(rest, TBind(tenv, s.x, <<s.s>>), ctx)
    [] s.k = "const" -> TE(s.e[1]) = "int" /\ OKStmts(rest, TBind(tenv, s.x, <<"int">>), ctx)
    [] s.k = "asg" ->
         /\ 2 * s.n = Len(s.e) \/ (Len(s.e) = s.n + 1)
         /\ \A i \in 1..s.n : Assignable(s.e[i])
         /\ (2 * s.n = Len(s.e) => \A i \in 1..s.n :
                (s.e[i].k = "var" /\ s.e[i].s = "_" /\ Val(TE(s.e[s.n + i]))) \/ (Val(TE(s.e[i])) /\ TE(s.e[i]) = TE(s.e[s.n + i])))
         /\ OKStmts(rest, tenv, ctx)
    [] s.k = "opasg" -> Assignable(s.e[1]) /\ TE(s.e[1]) = TE(s.e[2])
                        /\ (TE(s.e[1]) = "int" \/ (TE(s.e[1]) = "string" /\ s.s = "+")) /\ OKStmts(rest, tenv, ctx)
    [] s.k = "inc" -> Assignable(s.e[1]) /\ TE(s.e[1]) = "int" /\ OKStmts(rest, tenv, ctx)
    [] s.k = "print" -> (\A i \in 1..Len(s.e) : Val(TE(s.e[i]))) /\ OKStmts(rest, tenv, ctx)
    [] s.k = "expr" -> s.e[1].k \in {"call", "mcall", "delete", "recover", "copy"} /\ TE(s.e[1]) # "ERR" /\ OKStmts(rest, tenv, ctx)
    [] s.k = "break" -> ctx.brk /\ (s.s = "" \/ s.s \in ctx.labels) /\ OKStmts(rest, tenv, ctx)
    [] s.k = "continue" -> ctx.loop /\ (s.s = "" \/ s.s \in ctx.labels) /\ OKStmts(rest, tenv, ctx)
    [] s.k = "ret" -> /\ \/ (s.e = <<>> /\ (ctx.rs = <<>> \/ ctx.named))
                         \/ (Len(s.e) = Len(ctx.rs) /\ s.e # <<>> /\ \A i \in 1..Len(s.e) : TE(s.e[i]) = ctx.rs[i])
                      /\ OKStmts(rest, tenv, ctx)
    [] s.k = "defer" -> s.e[1].k \in {"call", "println"} /\ TE(s.e[1]) # "ERR" /\ OKStmts(rest, tenv, ctx)
    [] s.k = "panic" -> Val(TE(s.e[1])) /\ OKStmts(rest, tenv, ctx)
    [] s.k = "exit" -> TE(s.e[1]) = "int" /\ OKStmts(rest, tenv, ctx)
    [] s.k = "if" ->
         LET te2 == IF s.n = 1 THEN TBind(tenv, <<s.x[1]>>, <<TE(s.e[2])>>) ELSE tenv IN
         /\ (s.n = 1 => Val(TE(s.e[2])))
         /\ TypeOf(s.e[1], te2) = "bool"
         /\ OKStmts(s.b[2], te2, ctx) /\ OKStmts(s.b[3], te2, ctx) /\ OKStmts(rest, tenv, ctx)
    [] s.k = "block" -> OKStmts(s.b[1], tenv, ctx) /\ OKStmts(rest, tenv, ctx)
    [] s.k = "for" ->
         LET te2 == IF s.n = 3 THEN TBind(tenv, <<s.x[1]>>, <<"int">>) ELSE tenv IN
         /\ (s.n # 0 => TLook(te2, s.x[1]) = "int" /\ TypeOf(s.e[1], te2) = "int")
         /\ OKStmts(s.b[1], te2, InLoop(s.s)) /\ OKStmts(rest, tenv, ctx)
    [] s.k = "range" ->
         LET rt == TE(s.e[1])
             kv == CASE rt = "[]int" -> <<"int", "int">> [] rt = "string" -> <<"int", "rune">>
                     [] rt = "map[string]int" -> <<"string", "int">> [] OTHER -> <<"ERR", "ERR">>
             idx == {i \in 1..Len(s.x) : s.x[i] \notin {"", "_"}}
             names == SelectSeq(s.x, LAMBDA nm : nm \notin {"", "_"})
             tys == [j \in 1..Len(names) |-> kv[CHOOSE i \in idx : Cardinality({q \in idx : q < i}) = j - 1]]
         IN kv[1] # "ERR" /\ OKStmts(s.b[1], TBind(tenv, names, tys), InLoop(s.s)) /\ OKStmts(rest, tenv, ctx)
    [] s.k = "switch" ->
         LET tt == IF s.n = 1 THEN TE(s.e[1]) ELSE "bool"
             cs == s.b[1]
         IN /\ Val(tt)
            /\ \A i \in 1..Len(cs) :
                  /\ cs[i].k = "case"
                  /\ \A j \in 1..Len(cs[i].e) : TE(cs[i].e[j]) = tt
                  /\ (cs[i].n = 1 => i < Len(cs))                                  \* no fallthrough in the last clause
                  /\ OKStmts(cs[i].b[1], tenv, Ctx(ctx.loop, TRUE, ctx.labels, ctx.rs, ctx.named))
            /\ Cardinality({i \in 1..Len(cs) : cs[i].e = <<>>}) <= 1
            /\ OKStmts(rest, tenv, ctx)
    [] s.k = "func" ->
         LET ps == s.sig.ps  rs == s.sig.rs
             nm == SelectSeq(rs, LAMBDA en : en.x # "")
             te2 == TBind(TBind(tenv, [i \in 1..Len(ps) |-> ps[i].x], [i \in 1..Len(ps) |-> ps[i].t]),
                          [i \in 1..Len(nm) |-> nm[i].x], [i \in 1..Len(nm) |-> nm[i].t])
             c2 == Ctx(FALSE, FALSE, {}, [i \in 1..Len(rs) |-> rs[i].t], nm # <<>>)
             body == s.b[1]
         IN /\ OKStmts(body, te2, c2)
            /\ (rs # <<>> => body # <<>> /\ body[Len(body)].k \in {"ret", "panic"})   \* terminating statement
            /\ IF s.n = 0 THEN FnTypeOf(s.sig) # "ERR" /\ OKStmts(rest, TBind(tenv, <<s.x[1]>>, <<FnTypeOf(s.sig)>>), ctx)
               ELSE s.sig = NoSig /\ OKStmts(rest, tenv, ctx)
    [] OTHER -> FALSE

\* package-level scope: order of declaration does not matter in Go
GlobalTenv(prog) == IF prog.globals = <<>> THEN <<>>
                    ELSE <<[x |-> "b", t |-> "int"], [x |-> "a", t |-> "int"], [x |-> "c", t |-> "func(string) int"]>>
WellTyped(prog) ==
  /\ OKStmts(prog.body, GlobalTenv(prog), Ctx(FALSE, FALSE, {}, <<>>, FALSE))
  /\ \A i \in 1..Len(prog.globals) :
        LET d == prog.globals[i] IN
        CASE d.k = "tfunc" -> OKStmts(d.b[1], TBind(GlobalTenv(prog), <<d.sig.ps[1].x>>, <<d.sig.ps[1].t>>),
                                      Ctx(FALSE, FALSE, {}, <<d.sig.rs[1].t>>, FALSE))
          [] d.k \in {"var", "const"} -> TypeOf(d.e[1], GlobalTenv(prog)) = "int"
          [] OTHER -> FALSE
  /\ \A i \in 1..Len(prog.funcs) :
        LET f == prog.funcs[i] IN
        OKStmts(f.b, TBind(<<[x |-> f.rx, t |-> f.rt]>>, [j \in 1..Len(f.sig.ps) |-> f.sig.ps[j].x], [j \in 1..Len(f.sig.ps) |-> f.sig.ps[j].t]),
                Ctx(FALSE, FALSE, {}, [j \in 1..Len(f.sig.rs) |-> f.sig.rs[j].t], FALSE))
\* checked once per program: in the first state after the derivation is complete
WellTypedInv == ((phase = "run" /\ m.steps = 0) \/ (phase = "mut" /\ g.muts = <<>>)) => WellTyped(g.prog)

-----------------------------------------------------------------------------
\* Part IV -- Mutate (C06, C07): near-miss programs.  A mutation is (kind, idx): the idx-th SITE of that
\* kind in the pre-order walk of main's body (statement, then its expressions left to right, then its
\* blocks in order).  TLC enumerates every (kind, idx) -- and every ordered pair for MaxMut = 2 -- over
\* the sites the spec counts; the harness applies them to the same walk and reports its own count
\* (a different count is drift: the binding is broken).
MutKinds == {"chtype", "dropdecl", "dupdecl", "swapargs", "undef", "arity", "unusedvar", "unusedimport", "asgmismatch"}
SiteS(st, kind) ==
  CASE kind = "chtype" -> (st.k = "var" /\ st.s \in {"int", "string", "bool"}) \/
                          (st.k = "decl" /\ Len(st.e) = 1 /\ Len(st.x) = 1 /\ st.e[1].k \in {"int", "str"})
    [] kind \in {"dropdecl", "dupdecl"} -> st.k \in {"decl", "var", "const"} \/ (st.k = "func" /\ st.n = 0)
    [] kind = "unusedvar" -> st.k # "case"
    [] kind = "asgmismatch" -> st.k \in {"decl", "asg"}
    [] OTHER -> FALSE
SiteE(e, kind) ==
  CASE kind = "swapargs" -> e.k \in {"plit", "append", "idx", "copy"} /\ Len(e.a) >= 2
    [] kind = "undef" -> e.k = "var" /\ e.s # "_"
    [] kind = "arity" -> e.k \in {"call", "mcall", "len", "cap", "append", "copy", "delete"}
    [] OTHER -> FALSE
RECURSIVE SumSeq(_)
SumSeq(q) == IF q = <<>> THEN 0 ELSE q[1] + SumSeq(Tail(q))
RECURSIVE CntE(_, _), CntS(_, _)
CntE(e, kind) == (IF SiteE(e, kind) THEN 1 ELSE 0) + SumSeq([i \in 1..Len(e.a) |-> CntE(e.a[i], kind)])
CntS(ss, kind) == SumSeq([i \in 1..Len(ss) |->
                     (IF SiteS(ss[i], kind) THEN 1 ELSE 0)
                     + SumSeq([j \in 1..Len(ss[i].e) |-> CntE(ss[i].e[j], kind)])
                     + SumSeq([j \in 1..Len(ss[i].b) |-> CntS(ss[i].b[j], kind)])])
Sites(prog, kind) == IF kind = "unusedimport" THEN 1 ELSE CntS(prog.body, kind)

\* sugar variants: which XGo spellings the renderer uses (harness/cmd/gocoreh/render.go: Sugar)
SugarNames == {"go", "echo", "script", "full"}

MutStep ==
  /\ phase = "mut" /\ Len(g.muts) < MaxMut
  /\ \E kind \in MutKinds : \E i \in 1..Sites(g.prog, kind) :
       \* a second mutation comes after the first in (kind, idx) order: unordered pairs once
       /\ (g.muts # <<>> => (g.muts[1].kind # kind \/ g.muts[1].idx < i))
       /\ g' = [g EXCEPT !.muts = Append(@, [kind |-> kind, idx |-> i, nsites |-> Sites(g.prog, kind)])]
  /\ UNCHANGED <<phase, m>>
MutDone ==
  /\ phase = "mut"
  /\ \E sg \in Sugars : g' = [g EXCEPT !.sugar = sg]
  /\ phase' = "done"
  /\ UNCHANGED m

GenFinish ==
  /\ phase = "gen" /\ NF = 1 /\ (g.left = 0 \/ Top.term)
  /\ phase' = IF Predict THEN "run" ELSE IF MaxMut > 0 \/ Sugars # {"go"} THEN "mut" ELSE "done"
  /\ g' = [g EXCEPT !.prog = Program]
  /\ m' = IF Predict THEN StartM(Program) ELSE m


\* ---- the feature families (one cfg each: Fams = {name}; GoCore_<tier>_all.cfg explores all of a tier in one run)
FamRec(name, feat, budget, nest, lays, lits) ==
  [name |-> name, feat |-> feat, budget |-> budget, nest |-> nest, lays |-> lays, lits |-> lits]
FExpr   == {"envint", "envstr", "envbool", "print", "allops", "deep1", "paren", "strlen"}
FExpr2  == {"envint", "envstr", "envbool", "print", "deep2", "strlen"}
FBits   == {"envint", "print", "bitops", "deep1", "opasg"}
FAssign == {"envint", "envstr", "asg", "opasg", "inc", "swap", "allops", "vardecl", "const", "declint", "declstr", "arith"}
FCtl    == {"envint", "print", "if", "else", "for3", "forcond", "forever", "branch", "inc"}
FLabel  == {"envint", "if", "for3", "branch", "label", "inc"}
FLayout == {"envint", "print", "if", "else", "for3", "forever", "branch", "switch", "inc", "block"}
FSwitch == {"envint", "print", "switch", "switchnotag", "fallthrough", "branch"}
FSlice  == {"envint", "slice", "slice2", "cap", "print", "range", "opasg"}
FMap    == {"envint", "envstr", "map", "nilmap", "mapvarkey", "print", "range"}
FStruct == {"envint", "struct", "mvalue", "print", "call"}
FClos   == {"func", "call", "inc", "print", "for3"}
FClos2  == {"envint", "func", "func1", "funcv", "call", "call2", "inc", "opasg", "for3", "print", "ret"}
FDefer  == {"func", "named", "deferfn", "panic", "recover", "call", "print"}
FDefer2 == {"envint", "func", "named", "deferfn", "defer", "call", "panic", "recover", "ret", "opasg", "print", "if"}
FPanic  == {"envint", "slice", "panic", "panicint", "rtpanic", "deferfn", "recover", "print", "exit", "retmain", "if"}
FShadow == {"envint", "envstr", "shadow", "block", "if", "ifinit", "print", "asg"}
FMix    == {"envint", "envstr", "print", "print2", "if", "else", "ifinit", "for3", "forcond", "forever", "branch", "label",
            "switch", "fallthrough", "inc", "opasg", "asg", "swap", "arith", "slice", "range", "map", "struct", "call",
            "func", "named", "deferfn", "defer", "panic", "recover", "ret", "shadow", "block", "declint", "cond2"}
Families ==
  CASE Tier = "quick" -> {
         FamRec("expr", FExpr, 1, 0, {"m"}, {2}),        FamRec("bits", FBits, 1, 0, {"m"}, {2}),
         FamRec("assign", FAssign, 1, 0, {"m"}, {2}),    FamRec("ctl", FCtl, 2, 2, {"m"}, {1}),
         FamRec("label", FLabel, 3, 3, {"m"}, {1}),      FamRec("layout", FLayout, 2, 2, {"o"}, {1}),
         FamRec("switch", FSwitch \ {"switchnotag"}, 4, 1, {"m"}, {1}),    FamRec("slice", FSlice, 2, 1, {"m"}, {5}),
         FamRec("map", FMap, 2, 1, {"m"}, {5}),          FamRec("struct", FStruct, 2, 0, {"m"}, {5}),
         FamRec("clos", FClos, 4, 2, {"m"}, {1}),        FamRec("defer", FDefer, 4, 2, {"m"}, {1}),
         FamRec("panic", FPanic, 2, 2, {"m"}, {0}),      FamRec("shadow", FShadow, 2, 1, {"m"}, {1}),
         FamRec("pkginit", {"pkginit"}, 0, 0, {"m"}, {1}) }
    [] Tier = "thorough" -> {
         FamRec("expr", FExpr, 1, 0, {"m"}, {2, 3}),     FamRec("expr2", FExpr2, 1, 0, {"m"}, {2}),
         FamRec("bits", FBits, 1, 0, {"m"}, {1, 2}),
         FamRec("assign", FAssign \ {"vardecl", "const", "declstr", "swap"}, 2, 0, {"m"}, {2}),
         FamRec("ctl", FCtl \cup {"cond2"}, 3, 2, {"m"}, {1}),
         FamRec("label", FLabel \cup {"forever"}, 3, 3, {"m"}, {1}),
         FamRec("layout", FLayout, 3, 2, {"o"}, {1}),
         FamRec("switch", FSwitch \cup {"case2"}, 4, 1, {"m"}, {1}),
         FamRec("slice", FSlice \cup {"if"}, 2, 1, {"m"}, {5}),
         FamRec("map", FMap \cup {"if"}, 2, 1, {"m"}, {5}),
         FamRec("struct", FStruct \ {"mvalue", "call", "envint"}, 3, 0, {"m"}, {1}),    FamRec("clos", FClos \cup {"func1", "funcv", "ret"}, 4, 2, {"m"}, {1}),
         FamRec("defer", FDefer, 5, 2, {"m"}, {1}),      FamRec("panic", FPanic, 3, 2, {"m"}, {0, 5}),
         FamRec("shadow", FShadow \cup {"for3", "swap"}, 2, 2, {"m"}, {1}),
         FamRec("pkginit", {"pkginit"}, 0, 0, {"m"}, {1}) }
    [] Tier = "mut" -> {  \* small programs whose every mutation site (and pair of sites) is enumerated (C06, C07)
         FamRec("assign", {"envint", "envstr", "asg", "opasg", "inc", "swap", "vardecl", "const", "declint", "arith"}, 1, 0, {"m"}, {2}),
         FamRec("slice", FSlice, 1, 1, {"m"}, {5}),      FamRec("map", FMap, 1, 1, {"m"}, {5}),
         FamRec("struct", FStruct, 1, 0, {"m"}, {5}),    FamRec("clos", FClos, 3, 2, {"m"}, {1}),
         FamRec("ctl", FCtl, 1, 2, {"m"}, {1}),          FamRec("defer", FDefer, 3, 2, {"m"}, {1}),
         FamRec("pair", {"envint", "inc", "vardecl"}, 1, 0, {"m"}, {2}) }
    [] Tier = "mut2" -> {
         FamRec("assign", FAssign, 1, 0, {"m"}, {2}),
         FamRec("slice", FSlice, 2, 1, {"m"}, {5}),      FamRec("map", FMap, 2, 1, {"m"}, {5}),
         FamRec("struct", FStruct, 2, 0, {"m"}, {5}),    FamRec("clos", FClos, 4, 2, {"m"}, {1}),
         FamRec("ctl", FCtl, 2, 2, {"m"}, {1}),          FamRec("defer", FDefer, 4, 2, {"m"}, {1}),
         FamRec("switch", FSwitch, 2, 1, {"m"}, {1}),    FamRec("shadow", FShadow, 2, 1, {"m"}, {1}),
         FamRec("pair", {"envint", "envstr", "inc", "swap", "vardecl", "print", "asg"}, 1, 0, {"m"}, {2}) }
    [] OTHER -> {      \* "sim": budgets beyond the exhaustive ones, explored by seeded random derivations
         FamRec("expr", {"envint", "envstr", "envbool", "rnd3", "asg", "opasg", "allops"}, 4, 0, {"m"}, {2, 3}),
         FamRec("assign", FAssign, 5, 0, {"m"}, {2}),
         FamRec("ctl", FCtl \cup {"cond2", "label"}, 6, 3, {"m", "o"}, {1}),
         FamRec("switch", FSwitch \cup {"case2", "for3", "inc", "label"}, 7, 3, {"m", "o"}, {1}),
         FamRec("slice", FSlice \cup {"if", "for3"}, 6, 2, {"m"}, {5}),
         FamRec("map", FMap \cup {"if"}, 6, 2, {"m"}, {5}),
         FamRec("struct", FStruct \cup {"if", "for3"}, 6, 2, {"m"}, {5}),
         FamRec("clos", FClos2, 7, 3, {"m", "o"}, {1}),
         FamRec("defer", FDefer2, 8, 3, {"m"}, {1}),
         FamRec("panic", FPanic, 5, 2, {"m"}, {0, 5}),
         FamRec("shadow", FShadow \cup {"for3", "swap", "arith"}, 6, 3, {"m"}, {1}),
         FamRec("mix", FMix, 8, 3, {"m", "o"}, {1}) }

InitEnvOf(ft) ==
  (IF "envint" \in ft THEN <<Ent("a", "int", FALSE, TRUE), Ent("b", "int", FALSE, TRUE)>> ELSE <<>>)
  \o (IF "envstr" \in ft THEN <<Ent("c", "string", FALSE, TRUE)>> ELSE <<>>)
  \o (IF "envbool" \in ft THEN <<Ent("d", "bool", FALSE, TRUE)>> ELSE <<>>)
  \o (IF "pkginit" \in ft THEN <<Ent("b", "int", TRUE, FALSE)>> ELSE <<>>)
InitBodyOf(ft) ==
  (IF "envint" \in ft THEN <<Decl(<<"a", "b">>, <<IntE(7), Un("-", IntE(3))>>)>> ELSE <<>>)
  \o (IF "envstr" \in ft THEN <<Decl(<<"c">>, <<StrE(<<"x", "y">>)>>)>> ELSE <<>>)
  \o (IF "envbool" \in ft THEN <<Decl(<<"d">>, <<BoolE(FALSE)>>)>> ELSE <<>>)
  \o (IF "pkginit" \in ft THEN <<PrintS(<<Call(VarE("c"), <<StrE(<<"x">>)>>), VarE("b")>>)>> ELSE <<>>)

Init == /\ phase = "gen"
        /\ \E f \in {f \in Families : f.name \in Fams \/ Fams = {"*"}} :
           \E gv \in (IF "pkginit" \in f.feat THEN 1..6 ELSE {0}) :
             g = [cfg |-> f, gv |-> gv, frames |-> <<[Frame("main", St("main", "", 0, <<>>, <<>>, <<>>), InitEnvOf(f.feat), {})
                                             EXCEPT !.body = InitBodyOf(f.feat)]>>,
                  left |-> f.budget, fresh |-> 4, prog |-> <<>>, muts |-> <<>>, sugar |-> "go"]
        /\ m = InitM

Gen == GenSimple \/ GenOpen \/ GenElse \/ GenCase \/ GenClose \/ GenFinish

Next == Gen \/ Step \/ Halt \/ MutStep \/ MutDone
Spec == Init /\ [][Next]_vars

Export == phase = "done" =>
  Emit([fam |-> Fam, prog |-> g.prog, pred |-> (m.status = "done"),
        out |-> IF m.status = "done" THEN m.out ELSE <<>>,
        exit |-> IF m.status = "done" THEN m.exit ELSE 0,
        pan |-> IF m.status = "done" THEN [i \in 1..Len(m.pan) |-> PrintV(m.pan[i], m.st)] ELSE <<>>,
        steps |-> m.steps, muts |-> g.muts, sugar |-> g.sugar])
=============================================================================
