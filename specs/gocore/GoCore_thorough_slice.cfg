SPECIFICATION Spec
CONSTANTS
  Tier = "thorough"
  Fams = {"slice"}
  MaxSteps = 600
  Predict = TRUE
INVARIANTS Export Terminates StoreOK Predicted
