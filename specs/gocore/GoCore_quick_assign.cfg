SPECIFICATION Spec
CONSTANTS
  Tier = "quick"
  Fams = {"assign"}
  MaxSteps = 600
  Predict = TRUE
INVARIANTS Export Terminates StoreOK Predicted
