SPECIFICATION Spec
CONSTANTS
  Tier = "quick"
  Fams = {"layout", "shadow"}
  MaxSteps = 600
  Predict = FALSE
  MaxMut = 0
  Sugars = {"script"}
INVARIANTS Export Terminates StoreOK Predicted WellTypedInv
