SPECIFICATION Spec
CONSTANTS
  Tier = "thorough"
  Fams = {"clos"}
  MaxSteps = 600
  Predict = TRUE
INVARIANTS Export Terminates StoreOK Predicted
