SPECIFICATION Spec
CONSTANTS
  Tier = "quick"
  Fams = {"map"}
  MaxSteps = 600
  Predict = TRUE
INVARIANTS Export Terminates StoreOK Predicted
