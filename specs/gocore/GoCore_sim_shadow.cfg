SPECIFICATION Spec
CONSTANTS
  Tier = "sim"
  Fams = {"shadow"}
  MaxSteps = 600
  Predict = TRUE
INVARIANTS Export Terminates StoreOK Predicted
