SPECIFICATION Spec
CONSTANTS
  Tier = "quick"
  Fams = {"shadow"}
  MaxSteps = 600
  Predict = TRUE
INVARIANTS Export Terminates StoreOK Predicted
