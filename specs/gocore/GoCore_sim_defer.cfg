SPECIFICATION Spec
CONSTANTS
  Tier = "sim"
  Fams = {"defer"}
  MaxSteps = 600
  Predict = TRUE
INVARIANTS Export Terminates StoreOK Predicted
