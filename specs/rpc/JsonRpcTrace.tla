----------------------------- MODULE JsonRpcTrace -----------------------------
(* C39 -- validation of traces recorded from the real x/jsonrpc2 Connection    *)
(* against the DESIGN spec JsonRpcConn.                                        *)
(*                                                                             *)
(* Logged (consume one trace line):                                            *)
(*   upd      one updateInFlight: site = calling function, full projected      *)
(*            inFlightState after the call, calls retired inside it            *)
(*   retire   an AsyncCall.retire outside updateInFlight (rejected Call)       *)
(*   wire_call / wire_notif / wire_resp   a frame was written successfully     *)
(*   peer_send / peer_resp                the scripted peer queued a message   *)
(*   reset    next scenario (fresh Connection)                                 *)
(* Everything else a goroutine does outside the lock is a silent step that TLC *)
(* infers: failing writes, reads, handler bodies, context cancellation, faults.*)
EXTENDS JsonRpcConn, Json, Integers

VARIABLE l
tvars == <<vars, l>>

T == ndJsonDeserialize("trace.ndjson")
N == Len(T)

ToSet(s) == { s[k] : k \in DOMAIN s }
Ev(kind) == l <= N /\ T[l].ev = kind

\* the logged snapshot equals the connection state after the step
MatchC(e) ==
  /\ c'.cc = e.cc /\ c'.rd = e.rd /\ c'.re = e.re /\ c'.we = e.we /\ c'.co = e.co /\ c'.dn = e.dn
  /\ c'.out = ToSet(e.out) /\ c'.on = e.on /\ c'.inc = e.inc
  /\ ById(c') = ToSet(e.by)
  /\ Len(c'.hq) = Len(e.hq)
  /\ \A k \in 1..Len(e.hq) : rid[c'.hq[k]] = e.hq[k]
  /\ c'.hr = e.hr
\* exactly the logged calls were retired in this step, each with the logged kind and with a
\* response that carries the call's own id
RetMatch(rs) ==
  /\ \A k \in DOMAIN rs : rs[k].resp = rs[k].call
  /\ { i \in Calls : retires'[i] # retires[i] } = { rs[k].call : k \in DOMAIN rs }
  /\ \A k \in DOMAIN rs : /\ retires'[rs[k].call] = retires[rs[k].call] + 1
                          /\ rkind'[rs[k].call] = (IF rs[k].err THEN "err" ELSE "resp")

\* harness: an extra Connection.Wait() after the connection is done (no state change)
WaitObs == c.dn /\ Upd(c) /\ UNCHANGED <<callVars, npc, readVars, hdlVars, instVars, clpc, kpc, wireVars>>
Start == Upd(c) /\ UNCHANGED <<callVars, npc, readVars, hdlVars, instVars, clpc, kpc, wireVars>>

SiteAction(site) ==
  CASE site = "newConnection" -> Start
    [] site = "Call"          -> \E i \in Calls : CRegister(i) \/ CCleanup(i)
    [] site = "Notify"        -> \E j \in Notifs : NBegin(j)
    [] site = "NotifyDefer"   -> \E j \in Notifs : NEnd(j)
    [] site = "Respond"       -> \E r \in Inst : ARespLookup(r)
    [] site = "Cancel"        -> \E i \in IncIds : KLookup(i)
    [] site = "Close"         -> CloseSet
    [] site = "Wait"          -> CloseWait \/ WaitObs
    [] site = "readIncoming"  -> RResponse \/ RExit
    [] site = "acceptRequest" -> RAccept \/ REnqueue
    [] site = "handleAsync"   -> HDequeue \/ HCancelChk
    [] site = "processResult" -> RPRDel \/ RPRDecr \/ HPRDel \/ HPRDecr \/ (\E r \in Inst : APRDel(r) \/ APRDecr(r))
    [] site = "write"         -> (\E i \in Calls : CWErr(i)) \/ (\E j \in Notifs : NWErr(j)) \/ RPRWErr \/ HPRWErr
                                 \/ (\E r \in Inst : APRWErr(r))
    [] OTHER -> FALSE

LoggedUpd == /\ Ev("upd") /\ l' = l + 1
             /\ SiteAction(T[l].site) /\ MatchC(T[l]) /\ RetMatch(T[l].ret)
\* a retire inside a critical section is re-reported by that section's upd event (T[l].ret)
LoggedRetire == /\ Ev("retire") /\ l' = l + 1
                /\ IF T[l].insec THEN UNCHANGED vars
                   ELSE CRejected(T[l].call) /\ T[l].resp = T[l].call /\ T[l].err
LoggedWireCall == /\ Ev("wire_call") /\ l' = l + 1
                  /\ CWrite(T[l].call) /\ T[l].call \in sentCalls'
LoggedWireNotif == /\ Ev("wire_notif") /\ l' = l + 1
                   /\ \E j \in Notifs : NWrite(j) /\ npc'[j] = "end"
RespOf(r, e) == rid[r] = e.id
LoggedWireResp == /\ Ev("wire_resp") /\ l' = l + 1
                  /\ \/ RPRWrite /\ responses' # responses /\ RespOf(rreq, T[l])
                     \/ HPRWrite /\ responses' # responses /\ RespOf(hreq, T[l])
                     \/ \E r \in Inst : APRWrite(r) /\ responses' # responses /\ RespOf(r, T[l])
LoggedPeerSend == /\ Ev("peer_send") /\ l' = l + 1 /\ PeerSend(T[l].id)
LoggedPeerResp == /\ Ev("peer_resp") /\ l' = l + 1 /\ (PeerRespond(T[l].call) \/ PeerBogus(T[l].call))
\* events that only the contract spec looks at
Skip == /\ l <= N /\ T[l].ev \in {"await_ret", "h_start", "h_end", "respond_start", "respond_end", "close_call", "close_ret"}
        /\ l' = l + 1 /\ UNCHANGED vars
Reset == /\ Ev("reset") /\ l' = l + 1
         /\ c' = InitC /\ panicked' = FALSE
         /\ cpc' = [i \in Calls |-> "init"] /\ retires' = [i \in Calls |-> 0]
         /\ rkind' = [i \in Calls |-> "none"] /\ cctx' = [i \in Calls |-> FALSE]
         /\ npc' = [j \in Notifs |-> "init"]
         /\ rpc' = "read" /\ rreq' = 0 /\ rmsg' = [t |-> "none"]
         /\ hpc' = "off" /\ hreq' = 0
         /\ nsent' = 0 /\ rid' = [r \in Inst |-> NoId] /\ dup' = [r \in Inst |-> FALSE]
         /\ cancelled' = [r \in Inst |-> FALSE] /\ responses' = [r \in Inst |-> 0]
         /\ apc' = [r \in Inst |-> "none"] /\ finished' = [r \in Inst |-> FALSE]
         /\ clpc' = "init" /\ kpc' = [i \in IncIds |-> "none"]
         /\ fromPeer' = <<>> /\ sentCalls' = {} /\ responded' = {} /\ peerGone' = FALSE
         /\ wbroken' = FALSE /\ bogus' = 0 /\ wslot' = FreeSlot

\* silent steps: everything the hooks cannot see
Silent == /\ UNCHANGED l
          /\ \/ \E i \in Calls : (CWrite(i) /\ sentCalls' = sentCalls) \/ CCtxCancel(i) \/ CWAcq(i)
             \/ \E j \in Notifs : (NWrite(j) /\ npc'[j] = "werr") \/ NWAcq(j)
             \/ RPRWAcq \/ HPRWAcq \/ (\E r \in Inst : APRWAcq(r))
             \/ RRead \/ RReadErr
             \/ (RPRWrite /\ responses' = responses) \/ (HPRWrite /\ responses' = responses)
             \/ \E r \in Inst : APRWrite(r) /\ responses' = responses
             \/ HCheck \/ HHandleSync \/ HHandleAsync
             \/ \E i \in IncIds : KCancel(i)
             \/ PeerHangup \/ WBreak

TraceNext == LoggedUpd \/ LoggedRetire \/ LoggedWireCall \/ LoggedWireNotif \/ LoggedWireResp
             \/ LoggedPeerSend \/ LoggedPeerResp \/ Skip \/ Reset \/ Silent

TraceInit == Init /\ l = 1 /\ TLCSet(1, 1)
HighWater == TLCSet(1, IF l > TLCGet(1) THEN l ELSE TLCGet(1))
TraceSpec == TraceInit /\ [][TraceNext]_tvars

\* acceptance: some behaviour consumed every line
Accepted == /\ PrintT(<<"HWM", TLCGet(1), N>>)
            /\ TLCGet(1) = N + 1
=============================================================================
