----------------------------- MODULE JsonRpcConn -----------------------------
(* C39 -- x/jsonrpc2 Connection (conn.go): design specification.               *)
(*                                                                             *)
(* One Connection `c` talking to a scripted peer.  The state of the connection *)
(* is the record `c` -- a field-by-field mirror of conn.go's inFlightState plus*)
(* the `done` channel -- and it is ONLY changed by actions marked  [upd: site] *)
(* each of which is one call of Connection.updateInFlight from the named       *)
(* function: f(s) followed by the tail of updateInFlight (TailC).  All other   *)
(* actions are steps a goroutine takes outside the lock (wire writes, reads,   *)
(* handler bodies, the peer, faults) and are "silent" for trace validation.    *)
(*                                                                             *)
(* Threads:  one per outgoing Call (Calls), one per Notify (Notifs), the       *)
(* readIncoming goroutine, the handleAsync goroutine, one Respond goroutine    *)
(* per asynchronously handled request, Cancel calls, one Close call.           *)
(* The 1-buffered `writer` channel of conn.go (mutual exclusion of wire writes) *)
(* is the variable `wslot`: a thread takes it (WAcq) before its Write step and  *)
(* gives it back when Connection.write returns, i.e. after the writeErr update. *)
EXTENDS Naturals, Sequences, FiniteSets, TLC

CONSTANTS Calls,          \* ids of outgoing calls (each issued at most once)
          Notifs,         \* outgoing notifications
          MaxInc,         \* number of requests the peer may send
          IncIds,         \* ids the peer uses for its calls (may be reused: duplicate-id path)
          NoId,           \* marks an incoming notification
          AllowClose, AllowPeerGone, AllowWBreak, AllowCtxCancel, AllowCancelApi, AllowBogus

Inst == 1..MaxInc

VARIABLES
  c,          \* [cc, rd, re, we, co, dn, out, on, inc, by, hq, hr] -- see InitC
  panicked,   \* one of conn.go's three panic sites was reached
  \* outgoing calls
  cpc, retires, rkind, cctx,
  \* notifications
  npc,
  \* reader goroutine
  rpc, rreq, rmsg,
  \* handler goroutine
  hpc, hreq,
  \* incoming request instances
  nsent, rid, dup, cancelled, responses, apc, finished,
  \* Close()
  clpc,
  \* API Cancel(id) calls in progress
  kpc,
  \* wire / peer / faults
  fromPeer, sentCalls, responded, peerGone, wbroken, bogus,
  \* the writer slot: "free" or the thread inside Connection.write
  wslot

connVars == <<c, panicked>>
callVars == <<cpc, retires, rkind, cctx>>
readVars == <<rpc, rreq, rmsg>>
hdlVars  == <<hpc, hreq>>
instVars == <<nsent, rid, dup, cancelled, responses, apc, finished>>
wireVars == <<fromPeer, sentCalls, responded, peerGone, wbroken, bogus, wslot>>
vars == <<connVars, callVars, npc, readVars, hdlVars, instVars, clpc, kpc, wireVars>>

-----------------------------------------------------------------------------
(* inFlightState *)
InitC == [cc  |-> FALSE,   \* connClosing
          rd  |-> TRUE,    \* reading  (newConnection started readIncoming)
          re  |-> FALSE,   \* readErr  # nil
          we  |-> FALSE,   \* writeErr # nil
          co  |-> TRUE,    \* closer # nil (not yet closed)
          dn  |-> FALSE,   \* done channel closed
          out |-> {},      \* keys of outgoingCalls
          on  |-> 0,       \* outgoingNotifications
          inc |-> 0,       \* incoming
          by  |-> [i \in IncIds |-> 0],   \* incomingByID: id -> request instance (0 = absent)
          hq  |-> <<>>,    \* handlerQueue (request instances)
          hr  |-> FALSE]   \* handlerRunning

IdleC(s) == s.out = {} /\ s.on = 0 /\ s.inc = 0 /\ ~s.hr          \* inFlightState.idle
SD(s)    == s.cc \/ s.re \/ s.we                                   \* shuttingDown(...) # nil
ById(s)  == { i \in IncIds : s.by[i] # 0 }

\* conn.go updateInFlight, after f(s): the tail that may close the closer and the done channel.
TailC(s) == IF s.dn THEN s
            ELSE IF IdleC(s) /\ SD(s) THEN [s EXCEPT !.co = FALSE, !.dn = ~s.rd]
            ELSE s
\* panic site 1: "updateInFlight transitioned to non-idle when already done"
Upd(s) == /\ c' = TailC(s)
          /\ panicked' = (panicked \/ (s.dn /\ ~IdleC(s)))
UpdP(s, p) == /\ c' = TailC(s)
              /\ panicked' = (panicked \/ p \/ (s.dn /\ ~IdleC(s)))

\* AsyncCall.retire: panic site 2 is "retire called twice"
Retire(i, kind) == /\ retires' = [retires EXCEPT ![i] = @ + 1]
                   /\ rkind'   = [rkind EXCEPT ![i] = kind]

WriteFails == wbroken \/ ~c.co      \* the transport is broken or was closed by the connection

FreeSlot == <<"free", 0>>
CallT(i) == <<"call", i>>
NotT(j)  == <<"notif", j>>
RespT(r) == <<"resp", r>>
ReaderT  == <<"reader", 0>>
HandlerT == <<"handler", 0>>

-----------------------------------------------------------------------------
Init ==
  /\ c = InitC /\ panicked = FALSE
  /\ cpc = [i \in Calls |-> "init"] /\ retires = [i \in Calls |-> 0]
  /\ rkind = [i \in Calls |-> "none"] /\ cctx = [i \in Calls |-> FALSE]
  /\ npc = [j \in Notifs |-> "init"]
  /\ rpc = "read" /\ rreq = 0 /\ rmsg = [t |-> "none"]
  /\ hpc = "off" /\ hreq = 0
  /\ nsent = 0 /\ rid = [r \in Inst |-> NoId] /\ dup = [r \in Inst |-> FALSE]
  /\ cancelled = [r \in Inst |-> FALSE] /\ responses = [r \in Inst |-> 0]
  /\ apc = [r \in Inst |-> "none"] /\ finished = [r \in Inst |-> FALSE]
  /\ clpc = "init" /\ kpc = [i \in IncIds |-> "none"]
  /\ fromPeer = <<>> /\ sentCalls = {} /\ responded = {} /\ peerGone = FALSE
  /\ wbroken = FALSE /\ bogus = 0 /\ wslot = FreeSlot

-----------------------------------------------------------------------------
(* Outgoing calls: conn.go Call *)

\* [upd: Call] register the call unless shutting down
CRegister(i) ==
  /\ cpc[i] = "init"
  /\ IF SD(c) THEN /\ Upd(c) /\ cpc' = [cpc EXCEPT ![i] = "rejected"]
              ELSE /\ Upd([c EXCEPT !.out = @ \cup {i}]) /\ cpc' = [cpc EXCEPT ![i] = "wacq"]
  /\ UNCHANGED <<retires, rkind, cctx, npc, readVars, hdlVars, instVars, clpc, kpc, wireVars>>

\* Call: `ac.retire(&Response{ID: id, Error: err})` outside the lock (never registered)
CRejected(i) ==
  /\ cpc[i] = "rejected" /\ Retire(i, "err") /\ cpc' = [cpc EXCEPT ![i] = "ret"]
  /\ UNCHANGED <<connVars, cctx, npc, readVars, hdlVars, instVars, clpc, kpc, wireVars>>

\* the caller's context is cancelled before the write
CCtxCancel(i) ==
  /\ AllowCtxCancel /\ cpc[i] \in {"init", "wacq", "write"} /\ ~cctx[i]
  /\ cctx' = [cctx EXCEPT ![i] = TRUE]
  /\ UNCHANGED <<connVars, cpc, retires, rkind, npc, readVars, hdlVars, instVars, clpc, kpc, wireVars>>

\* conn.go write: `writer := <-c.writer` (silent)
CWAcq(i) ==
  /\ cpc[i] = "wacq" /\ wslot = FreeSlot /\ wslot' = CallT(i) /\ cpc' = [cpc EXCEPT ![i] = "write"]
  /\ UNCHANGED <<connVars, retires, rkind, cctx, npc, readVars, hdlVars, instVars, clpc, kpc,
                 fromPeer, sentCalls, responded, peerGone, wbroken, bogus>>
\* conn.go write (silent): the frame goes out, or the Write fails; the slot is returned when write returns
CWrite(i) ==
  /\ cpc[i] = "write"
  /\ IF cctx[i] THEN cpc' = [cpc EXCEPT ![i] = "cleanup"] /\ UNCHANGED sentCalls /\ wslot' = FreeSlot  \* ctx.Err() # nil: no writeErr
     ELSE IF WriteFails THEN cpc' = [cpc EXCEPT ![i] = "werr"] /\ UNCHANGED <<sentCalls, wslot>>
     ELSE cpc' = [cpc EXCEPT ![i] = "ret"] /\ sentCalls' = sentCalls \cup {i} /\ wslot' = FreeSlot
  /\ UNCHANGED <<connVars, retires, rkind, cctx, npc, readVars, hdlVars, instVars, clpc, kpc,
                 fromPeer, responded, peerGone, wbroken, bogus>>

\* [upd: write] record the write error once and cancel every incoming call
WErrC(s) == IF s.we THEN s ELSE [s EXCEPT !.we = TRUE]
CancelAllById == [r \in Inst |-> cancelled[r] \/ (\E i \in IncIds : c.by[i] = r)]
CWErr(i) ==
  /\ cpc[i] = "werr" /\ Upd(WErrC(c))
  /\ cancelled' = IF c.we THEN cancelled ELSE CancelAllById
  /\ cpc' = [cpc EXCEPT ![i] = "cleanup"] /\ wslot' = FreeSlot
  /\ UNCHANGED <<retires, rkind, cctx, npc, readVars, hdlVars, nsent, rid, dup, responses, apc, finished,
                 clpc, kpc, fromPeer, sentCalls, responded, peerGone, wbroken, bogus>>

\* [upd: Call] write failed: retire unless readIncoming already did
CCleanup(i) ==
  /\ cpc[i] = "cleanup"
  /\ IF i \in c.out THEN /\ Upd([c EXCEPT !.out = @ \ {i}]) /\ Retire(i, "err")
                    ELSE /\ Upd(c) /\ UNCHANGED <<retires, rkind>>
  /\ cpc' = [cpc EXCEPT ![i] = "ret"]
  /\ UNCHANGED <<cctx, npc, readVars, hdlVars, instVars, clpc, kpc, wireVars>>

-----------------------------------------------------------------------------
(* Outgoing notifications: conn.go Notify *)

\* [upd: Notify]
NBegin(j) ==
  /\ npc[j] = "init"
  /\ IF c.out = {} /\ ById(c) = {} /\ SD(c)
       THEN Upd(c) /\ npc' = [npc EXCEPT ![j] = "ret"]
       ELSE Upd([c EXCEPT !.on = @ + 1]) /\ npc' = [npc EXCEPT ![j] = "wacq"]
  /\ UNCHANGED <<callVars, readVars, hdlVars, instVars, clpc, kpc, wireVars>>
\* write (silent)
NWAcq(j) ==
  /\ npc[j] = "wacq" /\ wslot = FreeSlot /\ wslot' = NotT(j) /\ npc' = [npc EXCEPT ![j] = "write"]
  /\ UNCHANGED <<connVars, callVars, readVars, hdlVars, instVars, clpc, kpc,
                 fromPeer, sentCalls, responded, peerGone, wbroken, bogus>>
NWrite(j) ==
  /\ npc[j] = "write"
  /\ npc' = [npc EXCEPT ![j] = IF WriteFails THEN "werr" ELSE "end"]
  /\ wslot' = IF WriteFails THEN wslot ELSE FreeSlot
  /\ UNCHANGED <<connVars, callVars, readVars, hdlVars, instVars, clpc, kpc,
                 fromPeer, sentCalls, responded, peerGone, wbroken, bogus>>
\* [upd: write]
NWErr(j) ==
  /\ npc[j] = "werr" /\ Upd(WErrC(c))
  /\ cancelled' = IF c.we THEN cancelled ELSE CancelAllById
  /\ npc' = [npc EXCEPT ![j] = "end"] /\ wslot' = FreeSlot
  /\ UNCHANGED <<callVars, readVars, hdlVars, nsent, rid, dup, responses, apc, finished, clpc, kpc,
                 fromPeer, sentCalls, responded, peerGone, wbroken, bogus>>
\* [upd: NotifyDefer] the deferred decrement
NEnd(j) ==
  /\ npc[j] = "end"
  /\ UpdP([c EXCEPT !.on = IF @ > 0 THEN @ - 1 ELSE 0], c.on = 0)
  /\ npc' = [npc EXCEPT ![j] = "ret"]
  /\ UNCHANGED <<callVars, readVars, hdlVars, instVars, clpc, kpc, wireVars>>

-----------------------------------------------------------------------------
(* processResult, shared by the reader (rejections), the handler and Respond.     *)
(* A "pr context" is (pc, request instance); the three users keep their own pc.   *)
IsCall(r) == rid[r] # NoId /\ ~dup[r]

\* [upd: processResult] delete(s.incomingByID, req.ID)
PRDelC(r) == [c EXCEPT !.by = [i \in IncIds |-> IF i = rid[r] /\ c.by[i] = r THEN 0 ELSE c.by[i]]]
\* NOTE conn.go deletes by ID whatever instance is registered under it; instances with the same id
\* cannot both be registered (the second is the `dup` path), so deleting "own" is the same thing.

\* [upd: processResult] s.incoming-- ; panic site 3: incoming already zero
PRDecC == [c EXCEPT !.inc = IF @ > 0 THEN @ - 1 ELSE 0]

-----------------------------------------------------------------------------
(* readIncoming goroutine *)

\* reader.Read returns a message (silent)
RRead ==
  /\ rpc = "read" /\ fromPeer # <<>> /\ c.rd /\ c.co      \* a closed stream delivers nothing more
  /\ rmsg' = Head(fromPeer) /\ fromPeer' = Tail(fromPeer)
  /\ rpc' = IF Head(fromPeer).t = "resp" THEN "resp" ELSE "accept"
  /\ rreq' = IF Head(fromPeer).t = "req" THEN Head(fromPeer).r ELSE 0
  /\ UNCHANGED <<connVars, callVars, npc, hdlVars, instVars, clpc, kpc, sentCalls, responded, peerGone, wbroken, bogus, wslot>>
\* reader.Read fails: the peer hung up (after everything queued was read) or the closer was closed (silent)
RReadErr ==
  /\ rpc = "read" /\ c.rd
  /\ (peerGone /\ fromPeer = <<>>) \/ ~c.co
  /\ rpc' = "exit"
  /\ UNCHANGED <<connVars, callVars, npc, rreq, rmsg, hdlVars, instVars, clpc, kpc, wireVars>>
\* [upd: readIncoming] a response: retire the matching call, ignore an unexpected one
RResponse ==
  /\ rpc = "resp"
  /\ IF rmsg.id \in c.out
       THEN Upd([c EXCEPT !.out = @ \ {rmsg.id}]) /\ Retire(rmsg.id, "resp")
       ELSE Upd(c) /\ UNCHANGED <<retires, rkind>>
  /\ rpc' = "read"
  /\ UNCHANGED <<cpc, cctx, npc, rreq, rmsg, hdlVars, instVars, clpc, kpc, wireVars>>
\* [upd: readIncoming] the read loop ended: retire everything still outstanding
RExit ==
  /\ rpc = "exit"
  /\ Upd([c EXCEPT !.rd = FALSE, !.re = TRUE, !.out = {}])
  /\ retires' = [i \in Calls |-> IF i \in c.out THEN retires[i] + 1 ELSE retires[i]]
  /\ rkind'   = [i \in Calls |-> IF i \in c.out THEN "err" ELSE rkind[i]]
  /\ rpc' = "exited"
  /\ UNCHANGED <<cpc, cctx, npc, rreq, rmsg, hdlVars, instVars, clpc, kpc, wireVars>>

\* [upd: acceptRequest] count the request; register a call by id; reject when shutting down
RAccept ==
  /\ rpc = "accept"
  /\ LET r == rreq IN
     IF rid[r] = NoId
       THEN /\ Upd([c EXCEPT !.inc = @ + 1]) /\ rpc' = "enqueue" /\ UNCHANGED dup
       ELSE IF c.by[rid[r]] # 0
         THEN \* duplicate id: req.ID is cleared, the error goes nowhere (processResult sees a notification)
              /\ Upd([c EXCEPT !.inc = @ + 1]) /\ dup' = [dup EXCEPT ![r] = TRUE] /\ rpc' = "pr_decr"
         ELSE /\ Upd([c EXCEPT !.inc = @ + 1, !.by[rid[r]] = r]) /\ UNCHANGED dup
              /\ rpc' = IF SD(c) THEN "pr_del" ELSE "enqueue"
  /\ UNCHANGED <<callVars, npc, rreq, rmsg, hdlVars, nsent, rid, cancelled, responses, apc, finished, clpc, kpc, wireVars>>
\* [upd: acceptRequest] enqueue for the handler (start it if needed) unless shutting down
REnqueue ==
  /\ rpc = "enqueue"
  /\ IF SD(c)
       THEN /\ Upd(c) /\ rpc' = (IF IsCall(rreq) THEN "pr_del" ELSE "pr_decr") /\ UNCHANGED hpc
       ELSE /\ Upd([c EXCEPT !.hq = Append(@, rreq), !.hr = TRUE])
            /\ hpc' = IF c.hr THEN hpc ELSE "dequeue"      \* go c.handleAsync()
            /\ rpc' = "read"
  /\ UNCHANGED <<callVars, npc, rreq, rmsg, hreq, instVars, clpc, kpc, wireVars>>
\* reader's processResult
RPRDel ==
  /\ rpc = "pr_del" /\ Upd(PRDelC(rreq)) /\ rpc' = "pr_wacq"
  /\ UNCHANGED <<callVars, npc, rreq, rmsg, hdlVars, instVars, clpc, kpc, wireVars>>
RPRWAcq ==
  /\ rpc = "pr_wacq" /\ wslot = FreeSlot /\ wslot' = ReaderT /\ rpc' = "pr_write"
  /\ UNCHANGED <<connVars, callVars, npc, rreq, rmsg, hdlVars, instVars, clpc, kpc,
                 fromPeer, sentCalls, responded, peerGone, wbroken, bogus>>
RPRWrite ==
  /\ rpc = "pr_write"
  /\ IF WriteFails THEN rpc' = "pr_werr" /\ UNCHANGED <<responses, wslot>>
                   ELSE rpc' = "pr_decr" /\ responses' = [responses EXCEPT ![rreq] = @ + 1] /\ wslot' = FreeSlot
  /\ UNCHANGED <<connVars, callVars, npc, rreq, rmsg, hdlVars, nsent, rid, dup, cancelled, apc, finished, clpc, kpc,
                 fromPeer, sentCalls, responded, peerGone, wbroken, bogus>>
RPRWErr ==
  /\ rpc = "pr_werr" /\ Upd(WErrC(c))
  /\ cancelled' = IF c.we THEN cancelled ELSE CancelAllById
  /\ rpc' = "pr_decr" /\ wslot' = FreeSlot
  /\ UNCHANGED <<callVars, npc, rreq, rmsg, hdlVars, nsent, rid, dup, responses, apc, finished, clpc, kpc,
                 fromPeer, sentCalls, responded, peerGone, wbroken, bogus>>
RPRDecr ==
  /\ rpc = "pr_decr" /\ UpdP(PRDecC, c.inc = 0) /\ rpc' = "read"
  /\ cancelled' = [cancelled EXCEPT ![rreq] = TRUE] /\ finished' = [finished EXCEPT ![rreq] = TRUE]
  /\ UNCHANGED <<callVars, npc, rreq, rmsg, hdlVars, nsent, rid, dup, responses, apc, clpc, kpc, wireVars>>

-----------------------------------------------------------------------------
(* handleAsync goroutine *)

\* [upd: handleAsync] take the next request or stop
HDequeue ==
  /\ hpc = "dequeue"
  /\ IF c.hq # <<>>
       THEN /\ Upd([c EXCEPT !.hq = Tail(@)]) /\ hreq' = Head(c.hq)
            /\ hpc' = "check"
       ELSE /\ Upd([c EXCEPT !.hr = FALSE]) /\ hpc' = "off" /\ UNCHANGED hreq
  /\ UNCHANGED <<callVars, npc, readVars, instVars, clpc, kpc, wireVars>>
\* `req.ctx.Err()` is read outside the lock (silent)
HCheck ==
  /\ hpc = "check" /\ hpc' = IF cancelled[hreq] THEN "cancelchk" ELSE "handle"
  /\ UNCHANGED <<connVars, callVars, npc, readVars, hreq, instVars, clpc, kpc, wireVars>>
\* [upd: handleAsync] the request was cancelled before it was handled: look at writeErr only
HCancelChk ==
  /\ hpc = "cancelchk" /\ Upd(c) /\ hpc' = IF IsCall(hreq) THEN "pr_del" ELSE "pr_decr"
  /\ UNCHANGED <<callVars, npc, readVars, hreq, instVars, clpc, kpc, wireVars>>
\* Handler.Handle returns a result / an error (silent) ...
HHandleSync ==
  /\ hpc = "handle" /\ hpc' = IF IsCall(hreq) THEN "pr_del" ELSE "pr_decr"
  /\ UNCHANGED <<connVars, callVars, npc, readVars, hreq, instVars, clpc, kpc, wireVars>>
\* ... or ErrAsyncResponse for a call: it stays in flight until Respond (silent)
HHandleAsync ==
  /\ hpc = "handle" /\ IsCall(hreq) /\ apc[hreq] = "none"
  /\ apc' = [apc EXCEPT ![hreq] = "pending"] /\ hpc' = "dequeue"
  /\ UNCHANGED <<connVars, callVars, npc, readVars, hreq, nsent, rid, dup, cancelled, responses, finished, clpc, kpc, wireVars>>
HPRDel ==
  /\ hpc = "pr_del" /\ Upd(PRDelC(hreq)) /\ hpc' = "pr_wacq"
  /\ UNCHANGED <<callVars, npc, readVars, hreq, instVars, clpc, kpc, wireVars>>
HPRWAcq ==
  /\ hpc = "pr_wacq" /\ wslot = FreeSlot /\ wslot' = HandlerT /\ hpc' = "pr_write"
  /\ UNCHANGED <<connVars, callVars, npc, readVars, hreq, instVars, clpc, kpc,
                 fromPeer, sentCalls, responded, peerGone, wbroken, bogus>>
HPRWrite ==
  /\ hpc = "pr_write"
  /\ IF WriteFails THEN hpc' = "pr_werr" /\ UNCHANGED <<responses, wslot>>
                   ELSE hpc' = "pr_decr" /\ responses' = [responses EXCEPT ![hreq] = @ + 1] /\ wslot' = FreeSlot
  /\ UNCHANGED <<connVars, callVars, npc, readVars, hreq, nsent, rid, dup, cancelled, apc, finished, clpc, kpc,
                 fromPeer, sentCalls, responded, peerGone, wbroken, bogus>>
HPRWErr ==
  /\ hpc = "pr_werr" /\ Upd(WErrC(c))
  /\ cancelled' = IF c.we THEN cancelled ELSE CancelAllById
  /\ hpc' = "pr_decr" /\ wslot' = FreeSlot
  /\ UNCHANGED <<callVars, npc, readVars, hreq, nsent, rid, dup, responses, apc, finished, clpc, kpc,
                 fromPeer, sentCalls, responded, peerGone, wbroken, bogus>>
HPRDecr ==
  /\ hpc = "pr_decr" /\ UpdP(PRDecC, c.inc = 0) /\ hpc' = "dequeue"
  /\ cancelled' = [cancelled EXCEPT ![hreq] = TRUE] /\ finished' = [finished EXCEPT ![hreq] = TRUE]
  /\ UNCHANGED <<callVars, npc, readVars, hreq, nsent, rid, dup, responses, apc, clpc, kpc, wireVars>>

-----------------------------------------------------------------------------
(* Connection.Respond for an asynchronously handled call (one goroutine per instance) *)

\* [upd: Respond] look the request up by id
ARespLookup(r) ==
  /\ apc[r] = "pending" /\ Upd(c) /\ apc' = [apc EXCEPT ![r] = "pr_del"]
  /\ UNCHANGED <<callVars, npc, readVars, hdlVars, nsent, rid, dup, cancelled, responses, finished, clpc, kpc, wireVars>>
APRDel(r) ==
  /\ apc[r] = "pr_del" /\ Upd(PRDelC(r)) /\ apc' = [apc EXCEPT ![r] = "pr_wacq"]
  /\ UNCHANGED <<callVars, npc, readVars, hdlVars, nsent, rid, dup, cancelled, responses, finished, clpc, kpc, wireVars>>
APRWAcq(r) ==
  /\ apc[r] = "pr_wacq" /\ wslot = FreeSlot /\ wslot' = RespT(r) /\ apc' = [apc EXCEPT ![r] = "pr_write"]
  /\ UNCHANGED <<connVars, callVars, npc, readVars, hdlVars, nsent, rid, dup, cancelled, responses, finished, clpc, kpc,
                 fromPeer, sentCalls, responded, peerGone, wbroken, bogus>>
APRWrite(r) ==
  /\ apc[r] = "pr_write"
  /\ IF WriteFails THEN apc' = [apc EXCEPT ![r] = "pr_werr"] /\ UNCHANGED <<responses, wslot>>
                   ELSE apc' = [apc EXCEPT ![r] = "pr_decr"] /\ responses' = [responses EXCEPT ![r] = @ + 1] /\ wslot' = FreeSlot
  /\ UNCHANGED <<connVars, callVars, npc, readVars, hdlVars, nsent, rid, dup, cancelled, finished, clpc, kpc,
                 fromPeer, sentCalls, responded, peerGone, wbroken, bogus>>
APRWErr(r) ==
  /\ apc[r] = "pr_werr" /\ Upd(WErrC(c))
  /\ cancelled' = IF c.we THEN cancelled ELSE CancelAllById
  /\ apc' = [apc EXCEPT ![r] = "pr_decr"] /\ wslot' = FreeSlot
  /\ UNCHANGED <<callVars, npc, readVars, hdlVars, nsent, rid, dup, responses, finished, clpc, kpc,
                 fromPeer, sentCalls, responded, peerGone, wbroken, bogus>>
APRDecr(r) ==
  /\ apc[r] = "pr_decr" /\ UpdP(PRDecC, c.inc = 0) /\ apc' = [apc EXCEPT ![r] = "done"]
  /\ cancelled' = [cancelled EXCEPT ![r] = TRUE] /\ finished' = [finished EXCEPT ![r] = TRUE]
  /\ UNCHANGED <<callVars, npc, readVars, hdlVars, nsent, rid, dup, responses, clpc, kpc, wireVars>>

-----------------------------------------------------------------------------
(* Connection.Cancel(id) from the application *)
\* [upd: Cancel] look up, then cancel the request's context outside the lock
KLookup(i) ==
  /\ AllowCancelApi /\ kpc[i] \in {"none", "done"} /\ Upd(c)
  /\ kpc' = [kpc EXCEPT ![i] = IF c.by[i] # 0 THEN "cancel" ELSE "done"]
  /\ UNCHANGED <<callVars, npc, readVars, hdlVars, instVars, clpc, wireVars>>
KCancel(i) ==
  /\ kpc[i] = "cancel" /\ kpc' = [kpc EXCEPT ![i] = "done"]
  /\ cancelled' = [r \in Inst |-> cancelled[r] \/ (rid[r] = i /\ ~dup[r] /\ ~finished[r] /\ r <= nsent)]
  /\ UNCHANGED <<connVars, callVars, npc, readVars, hdlVars, nsent, rid, dup, responses, apc, finished, clpc, wireVars>>

-----------------------------------------------------------------------------
(* Connection.Close / Wait *)
\* [upd: Close]
CloseSet ==
  /\ AllowClose /\ clpc = "init" /\ Upd([c EXCEPT !.cc = TRUE]) /\ clpc' = "wait"
  /\ UNCHANGED <<callVars, npc, readVars, hdlVars, instVars, kpc, wireVars>>
\* [upd: Wait] <-c.done, then read closeErr
CloseWait ==
  /\ clpc = "wait" /\ c.dn /\ Upd(c) /\ clpc' = "ret"
  /\ UNCHANGED <<callVars, npc, readVars, hdlVars, instVars, kpc, wireVars>>

-----------------------------------------------------------------------------
(* The peer and the faults (all silent) *)
PeerRespond(i) ==
  /\ i \in sentCalls \ responded /\ ~peerGone
  /\ fromPeer' = Append(fromPeer, [t |-> "resp", id |-> i]) /\ responded' = responded \cup {i}
  /\ UNCHANGED <<connVars, callVars, npc, readVars, hdlVars, instVars, clpc, kpc, sentCalls, peerGone, wbroken, bogus, wslot>>
\* a response nobody is waiting for (unknown or already answered id)
PeerBogus(i) ==
  /\ AllowBogus /\ bogus = 0 /\ ~peerGone /\ i \in responded
  /\ fromPeer' = Append(fromPeer, [t |-> "resp", id |-> i]) /\ bogus' = 1
  /\ UNCHANGED <<connVars, callVars, npc, readVars, hdlVars, instVars, clpc, kpc, sentCalls, responded, peerGone, wbroken, wslot>>
PeerSend(id) ==
  /\ nsent < MaxInc /\ ~peerGone
  /\ nsent' = nsent + 1 /\ rid' = [rid EXCEPT ![nsent + 1] = id]
  /\ fromPeer' = Append(fromPeer, [t |-> "req", r |-> nsent + 1])
  /\ UNCHANGED <<connVars, callVars, npc, readVars, hdlVars, dup, cancelled, responses, apc, finished, clpc, kpc,
                 sentCalls, responded, peerGone, wbroken, bogus, wslot>>
PeerHangup ==
  /\ AllowPeerGone /\ ~peerGone /\ peerGone' = TRUE
  /\ UNCHANGED <<connVars, callVars, npc, readVars, hdlVars, instVars, clpc, kpc, fromPeer, sentCalls, responded, wbroken, bogus, wslot>>
WBreak ==
  /\ AllowWBreak /\ ~wbroken /\ wbroken' = TRUE
  /\ UNCHANGED <<connVars, callVars, npc, readVars, hdlVars, instVars, clpc, kpc, fromPeer, sentCalls, responded, peerGone, bogus, wslot>>

-----------------------------------------------------------------------------
CallStep(i) == CRegister(i) \/ CRejected(i) \/ CWAcq(i) \/ CWrite(i) \/ CWErr(i) \/ CCleanup(i)
NotifStep(j) == NBegin(j) \/ NWAcq(j) \/ NWrite(j) \/ NWErr(j) \/ NEnd(j)
ReaderStep == RRead \/ RReadErr \/ RResponse \/ RExit \/ RAccept \/ REnqueue \/ RPRDel \/ RPRWAcq \/ RPRWrite \/ RPRWErr \/ RPRDecr
HandlerStep == HDequeue \/ HCheck \/ HCancelChk \/ HHandleSync \/ HHandleAsync \/ HPRDel \/ HPRWAcq \/ HPRWrite \/ HPRWErr \/ HPRDecr
RespStep(r) == ARespLookup(r) \/ APRDel(r) \/ APRWAcq(r) \/ APRWrite(r) \/ APRWErr(r) \/ APRDecr(r)
EnvStep == (\E i \in Calls : PeerRespond(i) \/ PeerBogus(i) \/ CCtxCancel(i))
           \/ (\E id \in IncIds \cup {NoId} : PeerSend(id))
           \/ PeerHangup \/ WBreak \/ (\E i \in IncIds : KLookup(i) \/ KCancel(i))

Next == \/ \E i \in Calls : CallStep(i)
        \/ \E j \in Notifs : NotifStep(j)
        \/ ReaderStep \/ HandlerStep
        \/ \E r \in Inst : RespStep(r)
        \/ CloseSet \/ CloseWait
        \/ EnvStep

\* Fairness: every goroutine of the connection keeps running; the peer answers what it received
\* (or hangs up); asynchronous handlers eventually call Respond.  Nothing forces the application to
\* start calls, close, cancel, or the faults to happen.
Fairness ==
  /\ \A i \in Calls : WF_vars(CRejected(i) \/ CWAcq(i) \/ CWrite(i) \/ CWErr(i) \/ CCleanup(i))
  /\ \A j \in Notifs : WF_vars(NWAcq(j) \/ NWrite(j) \/ NWErr(j) \/ NEnd(j))
  /\ WF_vars(ReaderStep) /\ WF_vars(HandlerStep)
  /\ \A r \in Inst : WF_vars(RespStep(r))
  /\ WF_vars(CloseWait)
  /\ \A i \in Calls : WF_vars(PeerRespond(i))
  /\ \A i \in IncIds : WF_vars(KCancel(i))

Spec == Init /\ [][Next]_vars /\ Fairness

-----------------------------------------------------------------------------
(* The contract (C39) as invariants and temporal properties.                  *)

TypeOK == /\ c.on \in Nat /\ c.inc \in Nat /\ c.out \subseteq Calls
          /\ \A i \in Calls : retires[i] \in Nat

\* each outgoing call's Await returns exactly once: retire happens at most once (and see Retired)
RetireAtMostOnce == \A i \in Calls : retires[i] <= 1
\* an Await that returns a response returns the one carrying its own id: the model retires call i
\* with "resp" only from a wire response whose id is i, which the peer sends only for a call it got
AnswerIsOwn == \A i \in Calls : rkind[i] = "resp" => (i \in sentCalls /\ i \in responded)
\* each incoming call is answered at most once; notifications and duplicate-id requests never
AtMostOneResponse == \A r \in Inst : responses[r] <= 1 /\ (responses[r] = 1 => (r <= nsent /\ IsCall(r)))
\* done only when idle and the reader has exited; Close returns only then
DoneOnlyWhenIdle == c.dn => (IdleC(c) /\ ~c.rd /\ ~c.co)
CloseOnlyWhenDone == clpc = "ret" => c.dn
\* no handler is running or queued once Close has returned
NoHandlerAfterClose == clpc = "ret" => (hpc = "off" /\ c.hq = <<>> /\ \A r \in Inst : apc[r] \in {"none", "done"})
NoInternalPanic == ~panicked
\* bookkeeping consistency of the design (what conn.go's comments promise)
OutgoingAreUnretired == \A i \in c.out : retires[i] = 0 /\ cpc[i] \in {"wacq", "write", "werr", "cleanup", "ret"}
IncomingCounts == c.inc >= Cardinality(ById(c))
CloserClosedOnlyWhenShuttingDown == ~c.co => SD(c)
HandlerRunningIffGoroutine == c.hr <=> (hpc # "off")
\* the writer slot is held exactly by the thread that is inside Connection.write
SlotHeldByWriter ==
  /\ \A i \in Calls : (wslot = CallT(i)) <=> (cpc[i] \in {"write", "werr"})
  /\ \A j \in Notifs : (wslot = NotT(j)) <=> (npc[j] \in {"write", "werr"})
  /\ (wslot = ReaderT) <=> (rpc \in {"pr_write", "pr_werr"})
  /\ (wslot = HandlerT) <=> (hpc \in {"pr_write", "pr_werr"})
  /\ \A r \in Inst : (wslot = RespT(r)) <=> (apc[r] \in {"pr_write", "pr_werr"})

\* every call that was issued is eventually retired
Retired == \A i \in Calls : (cpc[i] # "init") ~> (retires[i] = 1)
\* Close returns (handlers finish, the peer answers or the transport breaks -- all by fairness)
CloseReturns == (clpc = "wait") ~> (clpc = "ret")
\* once the connection is done it stays done and idle
DoneStable == [][c.dn => c'.dn]_vars

\* a compact view for exhaustive checking: everything is behaviour-relevant here
=============================================================================
