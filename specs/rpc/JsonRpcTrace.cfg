SPECIFICATION TraceSpec
CONSTANTS
  Calls = {1, 2, 3}
  Notifs = {"n1", "n2"}
  MaxInc = 3
  IncIds = {"a", "b"}
  NoId = "none"
  AllowClose = TRUE
  AllowPeerGone = TRUE
  AllowWBreak = TRUE
  AllowCtxCancel = TRUE
  AllowCancelApi = TRUE
  AllowBogus = TRUE
CONSTRAINT HighWater
INVARIANTS RetireAtMostOnce AtMostOneResponse DoneOnlyWhenIdle NoInternalPanic NoHandlerAfterClose
POSTCONDITION Accepted
CHECK_DEADLOCK FALSE
