SPECIFICATION Spec
CONSTANTS
  Calls = {1}
  Notifs = {}
  MaxInc = 2
  IncIds = {"a"}
  NoId = "none"
  AllowClose = TRUE
  AllowPeerGone = TRUE
  AllowWBreak = FALSE
  AllowCtxCancel = FALSE
  AllowCancelApi = TRUE
  AllowBogus = FALSE
INVARIANTS TypeOK RetireAtMostOnce AnswerIsOwn AtMostOneResponse DoneOnlyWhenIdle CloseOnlyWhenDone
  NoHandlerAfterClose NoInternalPanic OutgoingAreUnretired IncomingCounts CloserClosedOnlyWhenShuttingDown
  HandlerRunningIffGoroutine SlotHeldByWriter
PROPERTIES DoneStable Retired CloseReturns
