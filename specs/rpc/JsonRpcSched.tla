----------------------------- MODULE JsonRpcSched -----------------------------
(* C39 -- schedule export: the design spec JsonRpcConn with a history variable *)
(* that labels every step.  `hist` is kept out of the VIEW, so TLC explores     *)
(* each distinct design state once and `hist` is the (BFS-shortest) behaviour   *)
(* leading to it.  Every state whose last step is an updateInFlight action is   *)
(* exported as one schedule; the harness replays it into a real Connection,     *)
(* ordering goroutines with the `verif` gate hook at the entry of               *)
(* updateInFlight (and gates in its own transport / handler), and compares the  *)
(* projected state after every critical section with the model's.               *)
EXTENDS JsonRpcConn, VerifIO

VARIABLE hist
svars == <<vars, hist>>

\* kind: "upd" = one updateInFlight (gated, state compared); "io" = a gated step outside the lock
\* (wire write, read, handler body); "env" = performed by the driver; "auto" = happens by itself
L(kind, name, th, arg) == hist' = Append(hist, [k |-> kind, a |-> name, th |-> th, arg |-> arg, c |-> c'])


SNext ==
  \/ \E i \in Calls :
       \/ CRegister(i) /\ L("upd", "CRegister", CallT(i), i)
       \/ CRejected(i) /\ L("auto", "CRejected", CallT(i), i)
       \/ CWAcq(i)     /\ L("io", "WAcq", CallT(i), i)
       \/ CWrite(i)    /\ L("io", IF sentCalls' # sentCalls THEN "CWriteOk" ELSE "CWriteFail", CallT(i), i)
       \/ CWErr(i)     /\ L("upd", "CWErr", CallT(i), i)
       \/ CCleanup(i)  /\ L("upd", "CCleanup", CallT(i), i)
       \/ CCtxCancel(i) /\ L("env", "CCtxCancel", CallT(i), i)
       \/ PeerRespond(i) /\ L("env", "PeerRespond", <<"peer", 0>>, i)
       \/ PeerBogus(i) /\ L("env", "PeerBogus", <<"peer", 0>>, i)
  \/ \E j \in Notifs :
       \/ NBegin(j) /\ L("upd", "NBegin", NotT(j), j)
       \/ NWAcq(j)  /\ L("io", "WAcq", NotT(j), j)
       \/ NWrite(j) /\ L("io", IF npc'[j] = "end" THEN "NWriteOk" ELSE "NWriteFail", NotT(j), j)
       \/ NWErr(j)  /\ L("upd", "NWErr", NotT(j), j)
       \/ NEnd(j)   /\ L("upd", "NEnd", NotT(j), j)
  \/ RRead     /\ L("io", "RRead", <<"reader", 0>>, 0)
  \/ RReadErr  /\ L("io", "RReadErr", <<"reader", 0>>, 0)
  \/ RResponse /\ L("upd", "RResponse", <<"reader", 0>>, 0)
  \/ RExit     /\ L("upd", "RExit", <<"reader", 0>>, 0)
  \/ RAccept   /\ L("upd", "RAccept", <<"reader", 0>>, rreq)
  \/ REnqueue  /\ L("upd", "REnqueue", <<"reader", 0>>, rreq)
  \/ RPRDel    /\ L("upd", "RPRDel", <<"reader", 0>>, rreq)
  \/ RPRWAcq   /\ L("io", "WAcq", <<"reader", 0>>, rreq)
  \/ RPRWrite  /\ L("io", IF responses' # responses THEN "PRWriteOk" ELSE "PRWriteFail", <<"reader", 0>>, rreq)
  \/ RPRWErr   /\ L("upd", "RPRWErr", <<"reader", 0>>, rreq)
  \/ RPRDecr   /\ L("upd", "RPRDecr", <<"reader", 0>>, rreq)
  \/ HDequeue  /\ L("upd", "HDequeue", <<"handler", 0>>, 0)
  \/ HCheck    /\ L("auto", "HCheck", <<"handler", 0>>, hreq)
  \/ HCancelChk /\ L("upd", "HCancelChk", <<"handler", 0>>, hreq)
  \/ HHandleSync /\ L("io", "HHandleSync", <<"handler", 0>>, hreq)
  \/ HHandleAsync /\ L("io", "HHandleAsync", <<"handler", 0>>, hreq)
  \/ HPRDel    /\ L("upd", "HPRDel", <<"handler", 0>>, hreq)
  \/ HPRWAcq   /\ L("io", "WAcq", <<"handler", 0>>, hreq)
  \/ HPRWrite  /\ L("io", IF responses' # responses THEN "PRWriteOk" ELSE "PRWriteFail", <<"handler", 0>>, hreq)
  \/ HPRWErr   /\ L("upd", "HPRWErr", <<"handler", 0>>, hreq)
  \/ HPRDecr   /\ L("upd", "HPRDecr", <<"handler", 0>>, hreq)
  \/ \E r \in Inst :
       \/ ARespLookup(r) /\ L("upd", "ARespLookup", RespT(r), r)
       \/ APRDel(r)   /\ L("upd", "APRDel", RespT(r), r)
       \/ APRWAcq(r)  /\ L("io", "WAcq", RespT(r), r)
       \/ APRWrite(r) /\ L("io", IF responses' # responses THEN "PRWriteOk" ELSE "PRWriteFail", RespT(r), r)
       \/ APRWErr(r)  /\ L("upd", "APRWErr", RespT(r), r)
       \/ APRDecr(r)  /\ L("upd", "APRDecr", RespT(r), r)
  \/ \E id \in IncIds \cup {NoId} : PeerSend(id) /\ L("env", "PeerSend", <<"peer", 0>>, id)
  \/ PeerHangup /\ L("env", "PeerHangup", <<"peer", 0>>, 0)
  \/ WBreak     /\ L("env", "WBreak", <<"peer", 0>>, 0)
  \/ CloseSet   /\ L("upd", "CloseSet", <<"close", 0>>, 0)
  \/ CloseWait  /\ L("upd", "CloseWait", <<"close", 0>>, 0)
  \/ \E i \in IncIds :
       \/ KLookup(i) /\ L("upd", "KLookup", <<"cancel", i>>, i)
       \/ KCancel(i) /\ L("auto", "KCancel", <<"cancel", i>>, i)

SInit == Init /\ hist = <<>>
SSpec == SInit /\ [][SNext]_svars
View == vars

\* export one schedule per distinct design state reached by a critical section
Export == (Len(hist) > 0 /\ hist[Len(hist)].k = "upd") => Emit([h |-> hist])
=============================================================================
