SPECIFICATION Spec
CONSTANTS
  Calls = {1, 2, 3}
  MaxInc = 3
  IncIds = {"a", "b"}
  NoId = "none"
INVARIANTS RetireAtMostOnce AnswerCarriesOwnId AwaitMatchesRetire AtMostOneResponse CloseAfterHandlers
  DoneOnlyWhenIdle DoneIsFinal
CHECK_DEADLOCK FALSE
