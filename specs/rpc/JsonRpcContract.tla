---------------------------- MODULE JsonRpcContract ----------------------------
(* C39 -- the property itself, as a CONTRACT over observable events only, for    *)
(* linear validation of traces recorded from the real Connection.  No design    *)
(* knowledge: the state is a handful of history variables, every trace line is  *)
(* one deterministic step, and the invariants below are evaluated by TLC after  *)
(* every event.  This is the spec that decides the verdict.                      *)
(*                                                                               *)
(*  (1) each outgoing call's Await returns exactly once, with the response       *)
(*      carrying its own ID or with an error                                     *)
(*  (2) each incoming call is answered at most once                              *)
(*  (3) Close returns once in-flight handlers finish (and not before)            *)
EXTENDS Naturals, Sequences, FiniteSets, TLC, Json

CONSTANTS Calls, MaxInc, IncIds, NoId
Inst == 0..MaxInc

T == ndJsonDeserialize("trace.ndjson")
N == Len(T)

VARIABLES l,
  retc,      \* call id -> number of times the AsyncCall was retired
  rk,        \* call id -> "none" | "resp" | "err"   how it was retired
  foreign,   \* some retire carried a response whose ID is not the call's own
  awaited,   \* call id -> number of Await returns observed
  badAwait,  \* an Await returned before/without its retire, or with the wrong kind/payload
  sends,     \* incoming id -> calls received from the peer with that id
  resps,     \* incoming id -> responses written for that id
  hrun,      \* handler invocations in progress (instances)
  arun,      \* Respond calls in progress (instances)
  closeRet,  \* Close has returned
  closeBad,  \* Close returned while a handler / Respond was still running or before done
  last,      \* last logged connection snapshot: [dn, idle, rd]
  doneSeen, undone   \* done was observed; a later snapshot showed it undone / non-idle
cvars == <<l, retc, rk, foreign, awaited, badAwait, sends, resps, hrun, arun, closeRet, closeBad, last, doneSeen, undone>>

InitVals ==
  /\ retc = [i \in Calls |-> 0] /\ rk = [i \in Calls |-> "none"] /\ foreign = FALSE
  /\ awaited = [i \in Calls |-> 0] /\ badAwait = FALSE
  /\ sends = [i \in IncIds |-> 0] /\ resps = [i \in IncIds |-> 0]
  /\ hrun = {} /\ arun = {} /\ closeRet = FALSE /\ closeBad = FALSE
  /\ last = [dn |-> FALSE, idle |-> TRUE, rd |-> TRUE] /\ doneSeen = FALSE /\ undone = FALSE
Init == l = 1 /\ InitVals

RetireAll(rs) ==
  /\ retc' = [i \in Calls |-> retc[i] + Cardinality({k \in DOMAIN rs : rs[k].call = i})]
  /\ rk'   = [i \in Calls |-> IF \E k \in DOMAIN rs : rs[k].call = i
                               THEN (IF rs[CHOOSE k \in DOMAIN rs : rs[k].call = i].err THEN "err" ELSE "resp")
                               ELSE rk[i]]
  /\ foreign' = (foreign \/ \E k \in DOMAIN rs : rs[k].resp # rs[k].call \/ rs[k].call \notin Calls)

Step(e) ==
  CASE e.ev = "upd" ->
         LET idle == e.out = <<>> /\ e.on = 0 /\ e.inc = 0 /\ ~e.hr IN
         /\ UNCHANGED <<retc, rk, foreign>>      \* retirements are separate "retire" events
         /\ last' = [dn |-> e.dn, idle |-> idle, rd |-> e.rd]
         /\ doneSeen' = (doneSeen \/ e.dn)
         /\ undone' = (undone \/ (doneSeen /\ (~e.dn \/ ~idle)))
         /\ UNCHANGED <<awaited, badAwait, sends, resps, hrun, arun, closeRet, closeBad>>
    [] e.ev = "retire" ->
         /\ RetireAll(<<e>>)
         /\ UNCHANGED <<awaited, badAwait, sends, resps, hrun, arun, closeRet, closeBad, last, doneSeen, undone>>
    [] e.ev = "await_ret" ->
         /\ awaited' = [awaited EXCEPT ![e.call] = @ + 1]
         /\ badAwait' = (badAwait \/ retc[e.call] # 1 \/ rk[e.call] # e.kind
                                  \/ (e.kind = "resp" /\ e.payload # e.call * 10 + 1))
         /\ UNCHANGED <<retc, rk, foreign, sends, resps, hrun, arun, closeRet, closeBad, last, doneSeen, undone>>
    [] e.ev = "peer_send" ->
         /\ sends' = IF e.id = NoId THEN sends ELSE [sends EXCEPT ![e.id] = @ + 1]
         /\ UNCHANGED <<retc, rk, foreign, awaited, badAwait, resps, hrun, arun, closeRet, closeBad, last, doneSeen, undone>>
    [] e.ev = "wire_resp" ->
         /\ resps' = IF e.id \in IncIds THEN [resps EXCEPT ![e.id] = @ + 1] ELSE resps
         /\ UNCHANGED <<retc, rk, foreign, awaited, badAwait, sends, hrun, arun, closeRet, closeBad, last, doneSeen, undone>>
    [] e.ev = "h_start" -> /\ hrun' = hrun \cup {e.inst}
         /\ closeBad' = (closeBad \/ closeRet)          \* a handler starts after Close returned
         /\ UNCHANGED <<retc, rk, foreign, awaited, badAwait, sends, resps, arun, closeRet, last, doneSeen, undone>>
    [] e.ev = "h_end" -> /\ hrun' = hrun \ {e.inst}
         /\ UNCHANGED <<retc, rk, foreign, awaited, badAwait, sends, resps, arun, closeRet, closeBad, last, doneSeen, undone>>
    [] e.ev = "respond_start" -> /\ arun' = arun \cup {e.inst}
         /\ UNCHANGED <<retc, rk, foreign, awaited, badAwait, sends, resps, hrun, closeRet, closeBad, last, doneSeen, undone>>
    [] e.ev = "respond_end" -> /\ arun' = arun \ {e.inst}
         /\ UNCHANGED <<retc, rk, foreign, awaited, badAwait, sends, resps, hrun, closeRet, closeBad, last, doneSeen, undone>>
    [] e.ev = "close_ret" ->
         /\ closeRet' = TRUE
         /\ closeBad' = (closeBad \/ hrun # {} \/ ~last.dn)
         /\ UNCHANGED <<retc, rk, foreign, awaited, badAwait, sends, resps, hrun, arun, last, doneSeen, undone>>
    [] e.ev = "reset" ->
         /\ retc' = [i \in Calls |-> 0] /\ rk' = [i \in Calls |-> "none"] /\ foreign' = FALSE
         /\ awaited' = [i \in Calls |-> 0] /\ badAwait' = FALSE
         /\ sends' = [i \in IncIds |-> 0] /\ resps' = [i \in IncIds |-> 0]
         /\ hrun' = {} /\ arun' = {} /\ closeRet' = FALSE /\ closeBad' = FALSE
         /\ last' = [dn |-> FALSE, idle |-> TRUE, rd |-> TRUE] /\ doneSeen' = FALSE /\ undone' = FALSE
    [] OTHER -> UNCHANGED <<retc, rk, foreign, awaited, badAwait, sends, resps, hrun, arun, closeRet, closeBad, last, doneSeen, undone>>

Next == l <= N /\ Step(T[l]) /\ l' = l + 1
Spec == Init /\ [][Next]_cvars

\* ---- the contract, evaluated after every event of every recorded trace
RetireAtMostOnce   == \A i \in Calls : retc[i] <= 1
AnswerCarriesOwnId == ~foreign
AwaitMatchesRetire == ~badAwait /\ \A i \in Calls : awaited[i] <= 1
AtMostOneResponse  == \A i \in IncIds : resps[i] <= sends[i]
CloseAfterHandlers == ~closeBad
DoneOnlyWhenIdle   == last.dn => (last.idle /\ ~last.rd)
DoneIsFinal        == ~undone

Consumed == l = N + 1
Accepted == PrintT(<<"HWM", l, N>>) /\ TRUE
=============================================================================
