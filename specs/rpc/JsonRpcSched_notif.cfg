SPECIFICATION SSpec
CONSTANTS
  Calls = {1}
  Notifs = {"n1"}
  MaxInc = 1
  IncIds = {"a"}
  NoId = "none"
  AllowClose = TRUE
  AllowPeerGone = TRUE
  AllowWBreak = TRUE
  AllowCtxCancel = FALSE
  AllowCancelApi = FALSE
  AllowBogus = FALSE
VIEW View
INVARIANTS RetireAtMostOnce NoInternalPanic DoneOnlyWhenIdle Export
