SPECIFICATION Spec
CONSTANTS
  Calls = {1, 2}
  Notifs = {}
  MaxInc = 0
  IncIds = {"a"}
  NoId = "none"
  AllowClose = TRUE
  AllowPeerGone = TRUE
  AllowWBreak = FALSE
  AllowCtxCancel = FALSE
  AllowCancelApi = FALSE
  AllowBogus = TRUE
INVARIANTS TypeOK RetireAtMostOnce AnswerIsOwn AtMostOneResponse DoneOnlyWhenIdle CloseOnlyWhenDone
  NoHandlerAfterClose NoInternalPanic OutgoingAreUnretired IncomingCounts CloserClosedOnlyWhenShuttingDown
  HandlerRunningIffGoroutine SlotHeldByWriter
PROPERTIES DoneStable Retired CloseReturns
