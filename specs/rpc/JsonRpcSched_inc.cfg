SPECIFICATION SSpec
CONSTANTS
  Calls = {1}
  Notifs = {}
  MaxInc = 2
  IncIds = {"a"}
  NoId = "none"
  AllowClose = TRUE
  AllowPeerGone = TRUE
  AllowWBreak = FALSE
  AllowCtxCancel = FALSE
  AllowCancelApi = FALSE
  AllowBogus = FALSE
VIEW View
INVARIANTS RetireAtMostOnce NoInternalPanic DoneOnlyWhenIdle Export
