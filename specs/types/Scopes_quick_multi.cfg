SPECIFICATION Spec
CONSTANTS
  NNames = 2
  Ops = {"pvar2", "pconst2", "func", "define2", "lvar2", "lconst2", "use", "block", "close"}
  MaxOcc = 5
  MaxItems = 6
  MaxDepth = 2
  Canon = TRUE
CONSTRAINT Prune
INVARIANTS TypeOK Theorems Export
