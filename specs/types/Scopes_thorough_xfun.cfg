SPECIFICATION Spec
CONSTANTS
  NNames = 2
  Ops = {"pvar", "func", "pover", "errwrap", "lambdab", "lambda", "use", "close"}
  MaxOcc = 5
  MaxItems = 6
  MaxDepth = 3
  Canon = TRUE
CONSTRAINT Prune
INVARIANTS TypeOK Theorems Export
