SPECIFICATION Spec
CONSTANTS
  NNames = 3
  Ops = {"pvar", "method", "func", "muse", "use", "define", "close"}
  MaxOcc = 4
  MaxItems = 6
  MaxDepth = 2
  Canon = TRUE
CONSTRAINT Prune
INVARIANTS TypeOK Theorems Export
