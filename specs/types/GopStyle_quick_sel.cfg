SPECIFICATION Spec
CONSTANTS
  Vary = {"sel", "sh", "shk"}
  Fns = {"Println"}
  Shs = {"-", "toUpper"}
  ScopeAware = TRUE
  LambdaParamsScoped = FALSE
  BareReturnLambda2 = FALSE
INVARIANTS TypeOK Confluent ImportSound Export
PROPERTIES Stable Terminates
