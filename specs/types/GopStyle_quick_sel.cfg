SPECIFICATION Spec
CONSTANTS
  Vary = {"sel", "sh", "shk"}
  Fns = {"Println"}
  Shs = {"-", "toUpper"}
  ScopeAware = TRUE
  LambdaParamsScoped = TRUE
  BareReturnLambda2 = TRUE
INVARIANTS TypeOK Confluent ImportSound Export
PROPERTIES Stable Terminates
