SPECIFICATION Spec
CONSTANTS
  Vary = {"sh", "shk"}
  Fns = {"Println"}
  Shs = {"-", "fmt"}
  ScopeAware = TRUE
  LambdaParamsScoped = TRUE
  BareReturnLambda2 = TRUE
INVARIANTS TypeOK Confluent ImportSound Export
PROPERTIES Stable Terminates
