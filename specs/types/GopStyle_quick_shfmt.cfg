SPECIFICATION Spec
CONSTANTS
  Vary = {"sh", "shk"}
  Fns = {"Println"}
  Shs = {"-", "fmt"}
  ScopeAware = TRUE
  LambdaParamsScoped = FALSE
  BareReturnLambda2 = FALSE
INVARIANTS TypeOK Confluent ImportSound Export
PROPERTIES Stable Terminates
