SPECIFICATION Spec
CONSTANTS
  Vary = {"sh", "shk"}
  Fns = {"Println"}
  Shs = {"-", "fmt"}
INVARIANTS TypeOK Confluent ImportSound Export
PROPERTIES Stable Terminates
