SPECIFICATION Spec
CONSTANTS
  Vary = {"sh", "shk"}
  Fns = {"Println"}
  Shs = {"-", "fmt"}
  ScopeAware = TRUE
INVARIANTS TypeOK Confluent ImportSound Export
PROPERTIES Stable Terminates
