SPECIFICATION Spec
CONSTANTS
  Vary = {"sh", "shk"}
  Fns = {"Println"}
  Shs = {"-", "fmt"}
  ScopeAware = FALSE
INVARIANTS TypeOK Confluent ImportSound Export
PROPERTIES Stable Terminates
