SPECIFICATION Spec
CONSTANTS
  NNames = 3
  Ops = {"pvar", "pconst", "ptype", "func", "define", "lvar", "use", "block", "if", "close"}
  MaxOcc = 4
  MaxItems = 6
  MaxDepth = 2
  Canon = TRUE
CONSTRAINT Prune
INVARIANTS TypeOK Theorems Export
