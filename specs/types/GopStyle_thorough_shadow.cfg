SPECIFICATION Spec
CONSTANTS
  Vary = {"fn", "sh", "shk"}
  Fns = {"Println", "Printf", "Print", "Sprint", "Errorf"}
  Shs = {"-", "echo", "print", "printf", "println", "errorf", "sprint", "fprintln", "fmt", "toUpper"}
  ScopeAware = TRUE
  LambdaParamsScoped = FALSE
  BareReturnLambda2 = FALSE
INVARIANTS TypeOK Confluent ImportSound Export
PROPERTIES Stable Terminates
