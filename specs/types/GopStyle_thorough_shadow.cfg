SPECIFICATION Spec
CONSTANTS
  Vary = {"fn", "sh", "shk"}
  Fns = {"Print", "Printf", "Println", "Fprint", "Fprintf", "Fprintln", "Sprint", "Sprintf", "Sprintln", "Errorf", "Sscan"}
  Shs = {"-", "echo", "print", "printf", "println", "errorf", "sprint", "fprintln", "fmt", "toUpper"}
INVARIANTS TypeOK Confluent ImportSound Export
PROPERTIES Stable Terminates
