SPECIFICATION Spec
CONSTANTS
  Vary = {"fn", "sh", "shk"}
  Fns = {"Println", "Printf", "Print", "Sprint", "Errorf"}
  Shs = {"-", "echo", "print", "printf", "println", "errorf", "sprint", "fprintln", "fmt", "toUpper"}
  ScopeAware = TRUE
  LambdaParamsScoped = TRUE
  BareReturnLambda2 = TRUE
INVARIANTS TypeOK Confluent ImportSound Export
PROPERTIES Stable Terminates
