SPECIFICATION Spec
CONSTANTS
  Vary = {"lit", "callee", "mainpos", "mainfirst", "keep"}
  Fns = {"Println"}
  Shs = {"-"}
INVARIANTS TypeOK Confluent ImportSound Export
PROPERTIES Stable Terminates
