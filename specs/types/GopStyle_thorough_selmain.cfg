SPECIFICATION Spec
CONSTANTS
  Vary = {"sel", "sh", "shk", "mainpos", "keep"}
  Fns = {"Println"}
  Shs = {"-", "toUpper"}
  ScopeAware = TRUE
INVARIANTS TypeOK Confluent ImportSound Export
PROPERTIES Stable Terminates
