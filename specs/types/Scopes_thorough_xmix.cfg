SPECIFICATION Spec
CONSTANTS
  NNames = 2
  Ops = {"xmain", "func", "define", "use", "forin", "lambda", "lambdab", "compr", "echo", "close"}
  MaxOcc = 4
  MaxItems = 6
  MaxDepth = 3
  Canon = TRUE
CONSTRAINT Prune
INVARIANTS TypeOK Theorems Export
