SPECIFICATION Spec
CONSTANTS
  NNames = 3
  Ops = {"pvar2", "pconst2", "define2", "lvar2", "lconst2", "pvar", "pconst", "ptype", "func", "method", "define", "lvar", "lconst", "ltype", "use", "muse", "block", "if", "for", "switch", "range", "funclit", "close", "pover", "xmain", "errwrap", "echo", "interp", "forin", "lambdab", "lambda", "compr"}
  MaxOcc = 8
  MaxItems = 12
  MaxDepth = 3
  Canon = FALSE
CONSTRAINT Prune
INVARIANTS TypeOK Theorems Export
