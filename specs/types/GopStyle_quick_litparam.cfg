SPECIFICATION Spec
CONSTANTS
  Vary = {"fn", "sh", "shk"}
  Fns = {"Println", "Sprint"}
  Shs = {"-", "echo", "sprint", "fmt"}
  ScopeAware = TRUE
  LambdaParamsScoped = TRUE
  BareReturnLambda2 = TRUE
INVARIANTS TypeOK Confluent ImportSound Export
PROPERTIES Stable Terminates
