SPECIFICATION Spec
CONSTANTS
  Vary = {"fn", "sh", "shk"}
  Fns = {"Println", "Sprint"}
  Shs = {"-", "echo", "sprint", "fmt"}
  ScopeAware = TRUE
  LambdaParamsScoped = FALSE
  BareReturnLambda2 = FALSE
INVARIANTS TypeOK Confluent ImportSound Export
PROPERTIES Stable Terminates
