SPECIFICATION Spec
CONSTANTS
  NNames = 2
  Ops = {"func", "define", "use", "for", "switch", "range", "funclit", "lconst", "ltype", "close"}
  MaxOcc = 4
  MaxItems = 6
  MaxDepth = 3
  Canon = TRUE
CONSTRAINT Prune
INVARIANTS TypeOK Theorems Export
