SPECIFICATION Spec
CONSTANTS
  Vary = {"mainpos", "mainfirst", "keep", "fn"}
  Fns = {"Println", "Sscan"}
  Shs = {"-"}
  ScopeAware = TRUE
INVARIANTS TypeOK Confluent ImportSound Export
PROPERTIES Stable Terminates
