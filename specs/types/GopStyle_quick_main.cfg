SPECIFICATION Spec
CONSTANTS
  Vary = {"mainpos", "mainfirst", "keep", "fn"}
  Fns = {"Println", "Sscan"}
  Shs = {"-"}
  ScopeAware = TRUE
  LambdaParamsScoped = TRUE
  BareReturnLambda2 = TRUE
INVARIANTS TypeOK Confluent ImportSound Export
PROPERTIES Stable Terminates
