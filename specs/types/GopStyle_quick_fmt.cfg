SPECIFICATION Spec
CONSTANTS
  Vary = {"fn", "pos", "arg"}
  Fns = {"Println", "Printf", "Sprint", "Fprintln", "Errorf", "Sscan"}
  Shs = {"-"}
  ScopeAware = TRUE
  LambdaParamsScoped = TRUE
  BareReturnLambda2 = TRUE
INVARIANTS TypeOK Confluent ImportSound Export
PROPERTIES Stable Terminates
