SPECIFICATION Spec
CONSTANTS
  Vary = {"fn", "pos", "arg"}
  Fns = {"Println", "Printf", "Sprint", "Fprintln", "Errorf", "Sscan"}
  Shs = {"-"}
  ScopeAware = TRUE
  LambdaParamsScoped = FALSE
  BareReturnLambda2 = FALSE
INVARIANTS TypeOK Confluent ImportSound Export
PROPERTIES Stable Terminates
