SPECIFICATION Spec
CONSTANTS
  Vary = {"fn", "w"}
  Fns = {"Fprint", "Fprintf", "Fprintln"}
  Shs = {"-"}
  ScopeAware = TRUE
INVARIANTS TypeOK Confluent ImportSound Export
PROPERTIES Stable Terminates
