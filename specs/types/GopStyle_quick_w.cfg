SPECIFICATION Spec
CONSTANTS
  Vary = {"fn", "w"}
  Fns = {"Fprint", "Fprintf", "Fprintln"}
  Shs = {"-"}
  ScopeAware = TRUE
  LambdaParamsScoped = TRUE
  BareReturnLambda2 = TRUE
INVARIANTS TypeOK Confluent ImportSound Export
PROPERTIES Stable Terminates
