SPECIFICATION Spec
CONSTANTS
  Vary = {"fn", "w"}
  Fns = {"Fprint", "Fprintf", "Fprintln"}
  Shs = {"-"}
  ScopeAware = TRUE
  LambdaParamsScoped = FALSE
  BareReturnLambda2 = FALSE
INVARIANTS TypeOK Confluent ImportSound Export
PROPERTIES Stable Terminates
