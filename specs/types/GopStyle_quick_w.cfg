SPECIFICATION Spec
CONSTANTS
  Vary = {"fn", "w"}
  Fns = {"Fprint", "Fprintf", "Fprintln"}
  Shs = {"-"}
INVARIANTS TypeOK Confluent ImportSound Export
PROPERTIES Stable Terminates
