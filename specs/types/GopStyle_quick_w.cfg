SPECIFICATION Spec
CONSTANTS
  Vary = {"fn", "w"}
  Fns = {"Fprint", "Fprintf", "Fprintln"}
  Shs = {"-"}
  ScopeAware = FALSE
INVARIANTS TypeOK Confluent ImportSound Export
PROPERTIES Stable Terminates
