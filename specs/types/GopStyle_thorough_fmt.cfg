SPECIFICATION Spec
CONSTANTS
  Vary = {"fn", "pos", "arg", "w"}
  Fns = {"Print", "Printf", "Println", "Fprint", "Fprintf", "Fprintln", "Sprint", "Sprintf", "Sprintln", "Errorf", "Sscan"}
  Shs = {"-"}
  ScopeAware = TRUE
  LambdaParamsScoped = TRUE
  BareReturnLambda2 = TRUE
INVARIANTS TypeOK Confluent ImportSound Export
PROPERTIES Stable Terminates
