SPECIFICATION Spec
CONSTANTS
  Vary = {"fn", "pos", "arg", "w"}
  Fns = {"Print", "Printf", "Println", "Fprint", "Fprintf", "Fprintln", "Sprint", "Sprintf", "Sprintln", "Errorf", "Sscan"}
  Shs = {"-"}
  ScopeAware = TRUE
  LambdaParamsScoped = FALSE
  BareReturnLambda2 = FALSE
INVARIANTS TypeOK Confluent ImportSound Export
PROPERTIES Stable Terminates
