------------------------------ MODULE GopStyle ------------------------------
(* C25 -- the Go -> XGo style rewriter (x/format: Gopstyle, formatFile,       *)
(* fmtToBuiltin, fncallStartingLowerCase, funcLitToLambdaExpr, commandStyle-  *)
(* First, import removal) as a decision table, run as a state machine.        *)
(*                                                                           *)
(* Init ranges over PROGRAM DESCRIPTIONS d: a Go main package built from      *)
(* dimensions --                                                              *)
(*   fn, w, pos, arg  the fmt call site: which print function, to which       *)
(*                    writer, in which syntactic position, shape of its first *)
(*                    argument                                                *)
(*   sh, shk          a user declaration named like an XGo builtin (echo,     *)
(*                    print, printf, println, errorf, sprint, fprintln), like *)
(*                    the import `fmt`, or like a lower-cased function name,   *)
(*                    and how it is declared (local var / := / param /        *)
(*                    package var / package func / import alias)              *)
(*   sel              a call through a selector: package function, method,    *)
(*                    method with a lower-case twin, func-typed field, method *)
(*                    named like a print function                             *)
(*   lit, callee      a function-literal argument in every shape              *)
(*                    funcLitToLambdaExpr distinguishes, passed to a func-    *)
(*                    typed or an `any` parameter                             *)
(*   mainpos, mainfirst, keep   `main` last or not, main's first statement,   *)
(*                    whether `fmt` stays used after the rewrite              *)
(* The rewrite rules are applied ONE AT A TIME in any order (actions RFmt,    *)
(* RCmd, RSel, RLit, RMain, RPkg, RImp); TLC checks that every order ends,    *)
(* ends in the same shape, and that the shape equals the closed-form table    *)
(* Predicted(d) (confluence + well-definedness).  Each description is         *)
(* exported with the predicted shape and with Safe(d): whether the rewrite is *)
(* expected to preserve behaviour under XGo's scoping (the rewriter tracks    *)
(* only `var`/`const` names, and only for the qualifier `fmt`).  The harness  *)
(* (typesh gopstyle) renders d as Go text, converts it with                   *)
(* xformat.GopstyleSource, compiles, builds and runs both programs.           *)
EXTENDS Naturals, Sequences, FiniteSets, TLC, VerifIO

CONSTANTS Vary,     \* set of dimension names that range freely in this run; the others keep Default
          Fns,      \* fmt functions offered when "fn" varies
          Shs,      \* shadowed names offered when "sh" varies
          ScopeAware \* FALSE: the rewriter as it is (scope holds var/const names only, consulted for the
                     \* qualifier only); TRUE: after fixes/C25-shadowed-names.diff (:=, parameters, package
                     \* funcs are in the scope too, and the builtin's own name is looked up as well)
          , LambdaParamsScoped \* FALSE: parameters of a function literal ARGUMENT are not in the rewriter's scope
                     \* (formatCallExpr turns the literal into a lambda first, and formatExpr of a
                     \* LambdaExpr/LambdaExpr2 inserts nothing); TRUE: after fixes/C25-lambda-param-scope.diff
          , BareReturnLambda2  \* FALSE: `func() { return }` becomes a LambdaExpr with an empty right-hand side
                     \* (the printer then panics); TRUE: after fixes/C25-bare-return-lambda.diff (LambdaExpr2)

PrintFns   == {"Print", "Printf", "Println"}
FprintFns  == {"Fprint", "Fprintf", "Fprintln"}
SprintFns  == {"Sprint", "Sprintf", "Sprintln"}
AllFns     == PrintFns \cup FprintFns \cup SprintFns \cup {"Errorf", "Sscan"}
TableFns   == AllFns \ {"Sscan"}            \* format.go: printFuncs
\* format.go fmtToBuiltin: lower-case name, println -> echo
Builtin(f) == CASE f = "Println" -> "echo"   [] f = "Print" -> "print"     [] f = "Printf" -> "printf"
                [] f = "Fprint" -> "fprint"  [] f = "Fprintf" -> "fprintf" [] f = "Fprintln" -> "fprintln"
                [] f = "Sprint" -> "sprint"  [] f = "Sprintf" -> "sprintf" [] f = "Sprintln" -> "sprintln"
                [] f = "Errorf" -> "errorf"  [] OTHER -> "-"

Default == [fn |-> "Println", w |-> "-", pos |-> "stmt", arg |-> "str", sh |-> "-", shk |-> "-",
            sel |-> "-", lit |-> "-", callee |-> "typed", mainpos |-> "last", mainfirst |-> "call",
            keep |-> FALSE]

Dom(dim) ==
  CASE dim = "fn"        -> Fns
    [] dim = "w"         -> {"-", "Stdout", "Stderr"}
    [] dim = "pos"       -> {"stmt", "assign", "arg", "defer"}
    [] dim = "arg"       -> {"str", "neg", "paren", "none"}
    [] dim = "sh"        -> Shs
    [] dim = "shk"       -> {"-", "local", "define", "param", "litparam", "pkgvar", "pkgfunc", "import"}
    [] dim = "sel"       -> {"-", "pkgfn", "method1", "method2", "field", "methprint"}
    [] dim = "lit"       -> {"-", "ret1", "ret2", "named", "unnamed", "multi", "noparam", "void", "voidmulti", "barereturn"}
    [] dim = "callee"    -> {"typed", "any"}
    [] dim = "mainpos"   -> {"last", "notlast"}
    [] dim = "mainfirst" -> {"call", "var", "define"}
    [] dim = "keep"      -> BOOLEAN
Dims == {"fn", "w", "pos", "arg", "sh", "shk", "sel", "lit", "callee", "mainpos", "mainfirst", "keep"}
Range(dim) == IF dim \in Vary THEN Dom(dim) ELSE {Default[dim]}

\* descriptions that are Go programs (the renderer has a text for exactly these)
Valid(d) ==
  /\ (d.w # "-" <=> d.fn \in FprintFns)
  /\ (d.fn \in SprintFns \cup {"Errorf", "Sscan"} => d.pos \in {"assign", "arg"})
  /\ (d.fn = "Sscan" => d.pos = "assign" /\ d.arg = "str")
  /\ (d.arg = "none" => d.fn \in {"Println", "Print", "Sprint", "Sprintln", "Fprintln", "Fprint"})
  /\ (d.sh = "-" <=> d.shk = "-")
  /\ (d.sh = "fmt" => d.shk \in {"local", "define", "param", "litparam"} /\ d.fn \in {"Println", "Printf", "Print"}
                      /\ d.pos = "stmt" /\ d.arg = "str")
  /\ (d.sh = "toUpper" => d.sel = "pkgfn")
  /\ (d.shk = "import" => d.sh \notin {"fmt"})
  /\ (d.callee = "any" => d.lit \in {"ret1", "multi"})
  /\ (d.mainfirst = "var" \/ d.mainfirst = "define" => d.shk \notin {"param"})
  /\ (d.shk = "litparam" => d.lit = "-")     \* the site then sits inside a literal argument of its own
  /\ (d.pos = "defer" => d.fn \in PrintFns \cup FprintFns)

Descs == { d \in [fn : Range("fn"), w : Dom("w"), pos : Dom("pos"), arg : Range("arg"),
                  sh : Range("sh"), shk : Range("shk"), sel : Range("sel"), lit : Range("lit"),
                  callee : Range("callee"), mainpos : Range("mainpos"), mainfirst : Range("mainfirst"),
                  keep : Range("keep")] :
              /\ Valid(d)
              \* a dimension that does not vary takes the default that suits the print function
              /\ ("w" \notin Vary => d.w = IF d.fn \in FprintFns THEN "Stdout" ELSE "-")
              /\ ("pos" \notin Vary => d.pos = IF d.fn \in SprintFns \cup {"Errorf", "Sscan"} THEN "assign" ELSE "stmt") }

VARIABLES d,    \* the program description (never changes)
          st,   \* the rewrite state of every site
          pc    \* "rewrite" | "done"
vars == <<d, st, pc>>

St0 == [fmtsite |-> "orig",   \* orig | builtin | kept
        cmd     |-> "na",     \* na | paren | cmd      (the fmt site as a statement)
        selsite |-> "orig",   \* orig | lower | none
        litsite |-> "orig",   \* orig | lambda | lambda2 | kept | none
        mainst  |-> "func",   \* func | shadow
        pkg     |-> "present",\* present | dropped
        imp     |-> "present",\* present | dropped     (the import of fmt)
        done    |-> {}]       \* rules applied so far

Init == /\ d \in Descs
        /\ st = [St0 EXCEPT !.cmd = IF d.pos = "stmt" THEN "paren" ELSE "na",
                            !.selsite = IF d.sel = "-" THEN "none" ELSE "orig",
                            !.litsite = IF d.lit = "-" THEN "none" ELSE "orig"]
        /\ pc = "rewrite"

\* --- what the rewriter knows ------------------------------------------------
\* gopstyle.go formatCtx.scope: only names of `var` / `const` specs are inserted (formatGenDecl);
\* `:=`, parameters, func and import names are not.
RewriterSees(shk) == IF ScopeAware THEN shk \in {"local", "define", "param", "pkgvar", "pkgfunc"}
                                         \cup (IF LambdaParamsScoped THEN {"litparam"} ELSE {})
                     ELSE shk \in {"local", "pkgvar"}
\* the name the site would be converted to is declared by the program and the rewriter knows it
BuiltinNameSeen(x) == ScopeAware /\ x.sh # "-" /\ x.sh = Builtin(x.fn) /\ RewriterSees(x.shk)
\* stmt_expr_or_type.go formatSelectorExpr: `fmt.F` is left alone iff LookupParent("fmt") succeeds
FmtQualifierHidden == d.sh = "fmt" /\ RewriterSees(d.shk)

Rule(r) == /\ pc = "rewrite" /\ r \notin st.done
Mark(s, r) == [s EXCEPT !.done = @ \cup {r}]

\* format.go fmtToBuiltin via formatSelectorExpr
RFmt == /\ Rule("fmt")
        /\ st' = Mark([st EXCEPT !.fmtsite = IF FmtQualifierHidden \/ d.fn \notin TableFns \/ BuiltinNameSeen(d)
                                             THEN "kept" ELSE "builtin"], "fmt")
        /\ UNCHANGED <<d, pc>>
\* format.go commandStyleFirst (formatExprStmt): any call statement whose Fun is an identifier or selector
RCmd == /\ Rule("cmd")
        /\ st' = Mark([st EXCEPT !.cmd = IF d.pos = "stmt" THEN "cmd" ELSE "na"], "cmd")
        /\ UNCHANGED <<d, pc>>
\* format.go fncallStartingLowerCase: every selector call, whatever the selector denotes
RSel == /\ Rule("sel")
        /\ st' = Mark([st EXCEPT !.selsite = IF d.sel = "-" THEN "none" ELSE "lower"], "sel")
        /\ UNCHANGED <<d, pc>>
\* format.go funcLitToLambdaExpr
LitShape(l) == CASE l = "-" -> "none"
                 [] l = "named" -> "kept"
                 [] l \in {"ret1", "ret2", "unnamed", "noparam"} -> "lambda"     \* single `return e1..en`
                 [] l = "barereturn" -> IF BareReturnLambda2 THEN "lambda2" ELSE "lambda"  \* `return` alone: n = 0
                 [] OTHER -> "lambda2"                                         \* multi, void, voidmulti
RLit == /\ Rule("lit")
        /\ st' = Mark([st EXCEPT !.litsite = LitShape(d.lit)], "lit")
        /\ UNCHANGED <<d, pc>>
\* gopstyle.go Gopstyle: main last -> shadow entry
RMain == /\ Rule("main")
         /\ st' = Mark([st EXCEPT !.mainst = IF d.mainpos = "last" THEN "shadow" ELSE "func"], "main")
         /\ UNCHANGED <<d, pc>>
\* gopstyle.go Gopstyle: package main -> NoPkgDecl
RPkg == /\ Rule("pkg")
        /\ st' = Mark([st EXCEPT !.pkg = "dropped"], "pkg")
        /\ UNCHANGED <<d, pc>>
\* gopstyle.go formatFile, last loop: runs after every function has been formatted
FmtStaysUsed(s) == d.keep \/ (s.fmtsite = "kept" /\ d.sh # "fmt")
RImp == /\ Rule("imp") /\ "fmt" \in st.done
        /\ st' = Mark([st EXCEPT !.imp = IF FmtStaysUsed(st) THEN "present" ELSE "dropped"], "imp")
        /\ UNCHANGED <<d, pc>>
AllRules == {"fmt", "cmd", "sel", "lit", "main", "pkg", "imp"}
Finish == /\ pc = "rewrite" /\ st.done = AllRules
          /\ pc' = "done" /\ UNCHANGED <<d, st>>
Done == pc = "done" /\ UNCHANGED vars          \* the rewritten file is printed; nothing more happens
Next == RFmt \/ RCmd \/ RSel \/ RLit \/ RMain \/ RPkg \/ RImp \/ Finish \/ Done
Spec == Init /\ [][Next]_vars /\ WF_vars(Next)

\* --- the closed-form decision table ------------------------------------------
Predicted(x) ==
  LET kept == (x.sh = "fmt" /\ RewriterSees(x.shk)) \/ x.fn \notin TableFns \/ BuiltinNameSeen(x) IN
  [fmtsite |-> IF kept THEN "kept" ELSE "builtin",
   cmd     |-> IF x.pos = "stmt" THEN "cmd" ELSE "na",
   selsite |-> IF x.sel = "-" THEN "none" ELSE "lower",
   litsite |-> LitShape(x.lit),
   mainst  |-> IF x.mainpos = "last" THEN "shadow" ELSE "func",
   pkg     |-> "dropped",
   imp     |-> IF x.keep \/ (kept /\ x.sh # "fmt") THEN "present" ELSE "dropped",
   done    |-> AllRules]

\* --- is the rewrite expected to preserve behaviour? ---------------------------
\* the name the converted site calls is captured by a user declaration visible at the site
BuiltinCaptured(x) == /\ x.sh = Builtin(x.fn) /\ x.sh # "-"
                      /\ ~((x.sh = "fmt" /\ RewriterSees(x.shk)) \/ x.fn \notin TableFns \/ BuiltinNameSeen(x))
\* `fmt` denotes a user value the rewriter does not see: the method call is turned into a builtin
QualifierMisread(x) == x.sh = "fmt" /\ ~RewriterSees(x.shk)
\* main's leading `var` becomes a package-level declaration once main is the shadow entry
MainVarHoisted(x) == x.mainpos = "last" /\ x.mainfirst = "var"
Safe(x) == /\ ~BuiltinCaptured(x) /\ ~QualifierMisread(x) /\ ~MainVarHoisted(x)
           /\ x.sel # "method2"            \* t.Get() -> t.get() reaches the lower-case twin
           /\ x.callee # "any"             \* a lambda has no type of its own
           /\ (x.lit = "barereturn" => BareReturnLambda2)   \* `=> ` with nothing after it cannot be printed

\* --- what TLC checks on the model ---------------------------------------------
TypeOK == /\ st.done \subseteq AllRules /\ pc \in {"rewrite", "done"}
          /\ st.fmtsite \in {"orig", "builtin", "kept"} /\ st.imp \in {"present", "dropped"}
\* confluence / well-definedness: whatever the order, the final shape is the table's
Confluent == pc = "done" => st = Predicted(d)
\* a site is decided once: an applied rule's result never changes afterwards
Stable == [][\A r \in AllRules : r \in st.done =>
             (r = "fmt" => st'.fmtsite = st.fmtsite) /\ (r = "imp" => st'.imp = st.imp)
             /\ (r = "lit" => st'.litsite = st.litsite) /\ (r = "sel" => st'.selsite = st.selsite)]_vars
\* the import is never dropped while a site still (or again) uses the package
ImportSound == (pc = "done" /\ st.imp = "dropped") => (st.fmtsite = "builtin" \/ d.sh = "fmt") /\ ~d.keep
Terminates == <>(pc = "done")

Export == pc = "done" =>
  Emit([d |-> d, shape |-> [fmtsite |-> st.fmtsite, cmd |-> st.cmd, selsite |-> st.selsite,
                             litsite |-> st.litsite, mainst |-> st.mainst, pkg |-> st.pkg, imp |-> st.imp,
                             builtin |-> IF st.fmtsite = "builtin" THEN Builtin(d.fn) ELSE "-"],
        prop |-> Safe(d)])
=============================================================================
