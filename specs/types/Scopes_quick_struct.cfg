SPECIFICATION Spec
CONSTANTS
  NNames = 2
  Ops = {"pstruct", "pvar", "func", "define", "use", "close"}
  MaxOcc = 4
  MaxItems = 4
  MaxDepth = 1
  Canon = TRUE
CONSTRAINT Prune
INVARIANTS TypeOK Theorems Export
