------------------------------- MODULE Scopes -------------------------------
(* C12 -- lexical scoping of Go / XGo programs, as recorded by x/typesutil.   *)
(*                                                                           *)
(* A state is a PARTIAL PROGRAM: a sequence of ITEMS (one source line, or one *)
(* opener/closer of a block, each) plus the stack of blocks still open.  One  *)
(* derivation step appends one item: a declaration (package var / const /     *)
(* type / func with param and result / method / overloaded func; local `var`, *)
(* `:=`, const, type, errwrap `:=`), an opener (func body, method body, bare  *)
(* block, if / for / switch with an init declaration, range, XGo for-in,      *)
(* func literal, XGo block lambda, the XGo shadow `main`), a closer, or a USE *)
(* of a name (`_ = a`, `echo a`, "${a}", an initializer, a condition, an XGo  *)
(* lambda `p => a`, a list comprehension `[a for v <- xs]`).                  *)
(*                                                                           *)
(* Names range over Names (a, b, c) and are freely shadowed.  `Resolve` gives *)
(* every use its declaration per the Go specification ("Declarations and      *)
(* scope"): package-level identifiers are visible in the whole package, the   *)
(* scope of a parameter / result / receiver is the function body, the scope   *)
(* of a local identifier begins AFTER its ValueSpec / ShortVarDecl and ends   *)
(* with the innermost containing block, if/for/switch headers open an         *)
(* implicit block around the body block, an identifier may be redeclared in   *)
(* an inner block.  XGo additions (x/typesutil Info.Scopes doc): ForPhraseStmt*)
(* and ForPhrase are header scopes like RangeStmt, LambdaExpr/LambdaExpr2     *)
(* are function scopes.                                                       *)
(*                                                                           *)
(* Only programs in which every use resolves (and whose package initialisers  *)
(* are acyclic) are COMPLETE; they are exported as {items, occ} where occ is  *)
(* the table of identifier occurrences with, per use, the index of the        *)
(* declaring occurrence.  Every value is int-typed: the renderer              *)
(* (harness/cmd/typesh/scopes.go) wraps a use by the kind of its target       *)
(* (`a`, `a(1)`, `int(a(1))`, `int(a)`, `len(a)`) so the program type-checks. *)
EXTENDS Integers, Sequences, FiniteSets, TLC, VerifIO

CONSTANTS
  NNames,    \* how many of the names a, b, c are used
  Ops,       \* set of item operators offered by this run
  MaxOcc,    \* bound on identifier occurrences of model names (automatic uses not counted)
  MaxItems,  \* bound on items (closers included)
  MaxDepth,  \* bound on block nesting
  Canon      \* TRUE: names are introduced in the order of Names (programs up to renaming)

VARIABLES items,   \* the partial program: sequence of items
          stack,   \* indices of the openers of the blocks still open (innermost last)
          occs,    \* history: AllOccs(items), kept incrementally
          nocc     \* history: NOcc(items)
vars == <<items, stack, occs, nocc>>

Names   == SubSeq(<<"a", "b", "c">>, 1, NNames)   \* canonical introduction order
NameSet == { Names[i] : i \in 1..Len(Names) }
ND      == NameSet \cup {"-"}

TwoOps == {"pvar2", "pconst2", "define2", "lvar2", "lconst2"}   \* declarations of TWO names: `var n, k = 1, 2` ...
GoOps == TwoOps \cup
         {"pstruct", "pshadow", "tuse", "pvar", "pconst", "ptype", "func", "method", "define", "lvar", "lconst", "ltype", "use",
          "muse", "block", "if", "for", "switch", "range", "funclit", "close"}
XOps  == {"pover", "xmain", "errwrap", "echo", "interp", "forin", "lambdab", "lambda", "compr"}

Openers  == {"func", "method", "xmain", "block", "if", "for", "switch", "range", "forin", "funclit", "lambdab"}
FuncLike == {"func", "method", "xmain", "funclit", "lambdab", "lambda"}   \* header scope = body scope
PkgOps   == {"pvar", "pconst", "ptype", "pover", "func", "method", "xmain", "pvar2", "pconst2", "pstruct", "pshadow"}

It(op, n, u, p, r, q, k, v) ==
  [op |-> op, n |-> n, u |-> u, p |-> p, r |-> r, q |-> q, k |-> k, v |-> v, par |-> 0]

\* ---------------------------------------------------------------------------
\* Occurrences of an item in SOURCE ORDER: <<role, field, class>>.
\*   declaration classes: pkg (package scope), meth (method namespace), hdr (header of the item:
\*   parameters, init declaration, loop variables), loc (local, visible after the item),
\*   post (local, visible after the block the item opens is closed: `n := func(..) {..}`)
\*   use classes: body (resolved at the item's position in the enclosing block), inner (resolved
\*   inside the item's header scope), self (automatic use of the item's own declaration), muse
Roles(op) ==
  CASE op = "pvar"    -> << <<"n","n","pkg">>, <<"u","u","body">> >>
    [] op = "pconst"  -> << <<"n","n","pkg">> >>
    [] op = "ptype"   -> << <<"n","n","pkg">> >>
    [] op = "pover"   -> << <<"n","n","pkg">> >>
    \* `type n struct { p int; T; *U; sync.Mutex; *bytes.Buffer }`: the named field p is a declaration of class
    \* "fld" (never the target of a plain use); r, q, k, v are FLAGS ("y" / "-") for the four embedded
    \* field shapes (plain, pointer, package-qualified, pointer to package-qualified), not names
    [] op = "pstruct" -> << <<"n","n","pkg">>, <<"p","p","fld">> >>
    [] op \in {"pvar2", "pconst2"} -> << <<"n","n","pkg">>, <<"k","k","pkg">> >>
    [] op \in {"define2", "lvar2"} -> << <<"n","n","loc">>, <<"k","k","loc">>, <<"au","n","self">>, <<"auk","k","self">> >>
    [] op = "lconst2" -> << <<"n","n","loc">>, <<"k","k","loc">> >>
    [] op = "func"    -> << <<"n","n","pkg">>, <<"p","p","hdr">>, <<"r","r","hdr">> >>
    [] op = "method"  -> << <<"q","q","hdr">>, <<"n","n","meth">>, <<"p","p","hdr">>, <<"r","r","hdr">> >>
    [] op = "define"  -> << <<"n","n","loc">>, <<"u","u","body">>, <<"au","n","self">> >>
    [] op = "lvar"    -> << <<"n","n","loc">>, <<"u","u","body">>, <<"au","n","self">> >>
    [] op = "errwrap" -> << <<"n","n","loc">>, <<"u","u","body">>, <<"au","n","self">> >>
    [] op = "lconst"  -> << <<"n","n","loc">> >>
    [] op = "ltype"   -> << <<"n","n","loc">> >>
    [] op \in {"use", "echo", "interp"} -> << <<"u","u","body">> >>
    [] op = "muse"    -> << <<"u","u","muse">> >>
    [] op = "if"      -> << <<"n","n","hdr">>, <<"u","u","body">>, <<"au","n","self">> >>
    [] op = "for"     -> << <<"n","n","hdr">>, <<"au","n","self">>, <<"au2","n","self">> >>
    [] op = "switch"  -> << <<"n","n","hdr">>, <<"u","u","body">>, <<"au","n","self">> >>
    [] op = "range"   -> << <<"k","k","hdr">>, <<"v","v","hdr">>, <<"auk","k","self">>, <<"auv","v","self">> >>
    [] op = "forin"   -> << <<"k","k","hdr">>, <<"v","v","hdr">>, <<"u","u","inner">>,
                            <<"auk","k","self">>, <<"auv","v","self">> >>
    [] op = "funclit" -> << <<"n","n","post">>, <<"p","p","hdr">>, <<"r","r","hdr">>, <<"au","n","self">> >>
    [] op = "lambdab" -> << <<"p","p","hdr">> >>
    [] op = "lambda"  -> << <<"p","p","hdr">>, <<"u","u","inner">> >>
    [] op = "compr"   -> << <<"n","n","loc">>, <<"u","u","inner">>, <<"v","v","hdr">>, <<"au","n","self">> >>
    [] OTHER          -> << >>

DeclClasses == {"pkg", "meth", "hdr", "loc", "post", "fld"}
Fld(it, f) == CASE f = "n" -> it.n [] f = "u" -> it.u [] f = "p" -> it.p [] f = "r" -> it.r
                [] f = "q" -> it.q [] f = "k" -> it.k [] f = "v" -> it.v

\* occurrences of item `it` standing at index i
OccsOfItem(it, i) ==
  LET rs == Roles(it.op)
      keep == SelectSeq(rs, LAMBDA t : Fld(it, t[2]) # "-")
  IN  [ j \in 1..Len(keep) |-> [i |-> i, role |-> keep[j][1], fld |-> keep[j][2], name |-> Fld(it, keep[j][2]),
                                  cls |-> keep[j][3], dk |-> it.op \o "." \o keep[j][2]] ]

RECURSIVE OccsFrom(_, _)
OccsFrom(its, i) == IF i > Len(its) THEN << >> ELSE OccsOfItem(its[i], i) \o OccsFrom(its, i + 1)
AllOccs(its) == OccsFrom(its, 1)

\* occurrences counted against MaxOcc: everything but the automatic uses
Counted(it) == Cardinality({ j \in 1..Len(Roles(it.op)) :
                   Roles(it.op)[j][3] # "self" /\ Fld(it, Roles(it.op)[j][2]) # "-" })
RECURSIVE NOcc(_)
NOcc(its) == IF its = << >> THEN 0 ELSE Counted(its[1]) + NOcc(Tail(its))

\* ---------------------------------------------------------------------------
\* Block structure.  par of item i = index of the opener of the innermost block containing i
\* (0: package level).  Anc(i) = all openers enclosing i, and 0.
RECURSIVE AncOf(_, _)
AncOf(its, i) == IF i = 0 THEN {} ELSE {its[i].par} \cup AncOf(its, its[i].par)
RECURSIVE DepOf(_, _)
DepOf(its, i) == IF i = 0 THEN 0 ELSE 1 + DepOf(its, its[i].par)   \* depth of the block item i opens

\* scope depth of a declaration occurrence d (twice the block depth; header scopes of
\* if/for/switch/range/for-in sit between the enclosing block and the body block)
ScopeDepth(its, d) ==
  CASE d.cls = "pkg"  -> 0
    [] d.cls = "meth" -> 0
    [] d.cls = "hdr"  -> IF its[d.i].op \in FuncLike THEN 2 * DepOf(its, d.i) ELSE 2 * DepOf(its, d.i) - 1
    [] OTHER          -> 2 * DepOf(its, its[d.i].par)

\* is declaration d visible from a use in item i (ctx "body": at the item's position in its
\* enclosing block; ctx "inner": inside the header scope of item i)?
Visible(its, d, i, ctx) ==
  CASE d.cls = "pkg"  -> TRUE
    [] d.cls = "meth" -> FALSE
    [] d.cls = "fld"  -> FALSE
    [] d.cls = "hdr"  -> (d.i = i /\ ctx = "inner") \/ d.i \in AncOf(its, i)
    [] d.cls = "loc"  -> d.i < i /\ its[d.i].par \in AncOf(its, i)
    [] d.cls = "post" -> d.i < i /\ d.i \notin AncOf(its, i) /\ its[d.i].par \in AncOf(its, i)

Decls(oc) == { j \in 1..Len(oc) : oc[j].cls \in DeclClasses }

\* candidates and resolution of use occurrence number x of oc
Cands(its, oc, x) ==
  LET o == oc[x] IN
  CASE o.cls = "self" -> { j \in Decls(oc) : oc[j].i = o.i /\ oc[j].role = o.fld }
    [] o.cls = "muse" -> { j \in Decls(oc) : oc[j].cls = "meth" /\ oc[j].name = o.name }
    [] OTHER          -> { j \in Decls(oc) : oc[j].name = o.name /\ Visible(its, oc[j], o.i, o.cls) }
Innermost(its, oc, S) == { j \in S : \A j2 \in S : ScopeDepth(its, oc[j2]) <= ScopeDepth(its, oc[j]) }
Target(its, oc, x) ==
  IF oc[x].cls \in DeclClasses THEN x
  ELSE LET inn == Innermost(its, oc, Cands(its, oc, x)) IN
       IF Cardinality(inn) = 1 THEN CHOOSE j \in inn : TRUE ELSE 0

\* ---------------------------------------------------------------------------
\* A second, operational definition of resolution: walk outwards block by block from the use
\* (what a compiler's scope chain does); TLC checks that it agrees with the declarative one.
\* DeclsIn(e, part): declarations living in scope (e, part) -- e an opener index or 0.
ScopeMembers(its, oc, e, part, i, name) ==
  { j \in Decls(oc) : /\ oc[j].name = name
       /\ \/ (part = "b" /\ oc[j].cls = "loc"  /\ its[oc[j].i].par = e /\ oc[j].i < i)
          \/ (part = "b" /\ oc[j].cls = "post" /\ its[oc[j].i].par = e /\ oc[j].i < i
                         /\ oc[j].i \notin AncOf(its, i))
          \/ (part = "b" /\ e = 0 /\ oc[j].cls = "pkg")
          \/ (oc[j].cls = "hdr" /\ oc[j].i = e /\ e # 0
                /\ IF its[e].op \in FuncLike THEN part = "b" ELSE part = "h") }
RECURSIVE Walk(_, _, _, _, _, _)
Walk(its, oc, e, part, i, name) ==      \* e: current scope owner; returns the set found first
  LET here == ScopeMembers(its, oc, e, part, i, name) IN
  IF here # {} THEN here
  ELSE IF part = "b" /\ e # 0 /\ its[e].op \notin FuncLike THEN Walk(its, oc, e, "h", i, name)
  ELSE IF e = 0 THEN {}
  ELSE Walk(its, oc, its[e].par, "b", i, name)
Resolve2(its, oc, x) ==
  LET o == oc[x] IN
  IF o.cls = "inner" THEN Walk(its, oc, o.i, IF its[o.i].op \in FuncLike THEN "b" ELSE "h", o.i, o.name)
  ELSE Walk(its, oc, its[o.i].par, "b", o.i, o.name)

\* ---------------------------------------------------------------------------
\* Well-formedness of an appended item (prefix-closed, so partial programs are pruned early)
PkgNames  == { occs[j].name : j \in { x \in Decls(occs) : occs[x].cls = "pkg" } }
MethNames == { occs[j].name : j \in { x \in Decls(occs) : occs[x].cls = "meth" } }
HdrNames(it)    == LET rs == Roles(it.op) IN
                   { Fld(it, rs[j][2]) : j \in { x \in 1..Len(rs) : rs[x][3] = "hdr" } } \ {"-"}
HdrCount(it)    == LET rs == Roles(it.op) IN
                   Cardinality({ x \in 1..Len(rs) : rs[x][3] = "hdr" /\ Fld(it, rs[x][2]) # "-" })
BodyNames(e) ==     \* names declared directly in the body scope of opener e
  { occs[j].name : j \in { x \in Decls(occs) : occs[x].cls \in {"loc", "post"} /\ items[occs[x].i].par = e } }
     \cup (IF e # 0 /\ items[e].op \in FuncLike THEN HdrNames(items[e]) ELSE {})

\* names of an item in source order (for the canonical-introduction rule)
NamesOf(it) == LET rs == Roles(it.op)
                   keep == SelectSeq(rs, LAMBDA t : t[3] # "self" /\ Fld(it, t[2]) # "-")
               IN  [ j \in 1..Len(keep) |-> Fld(it, keep[j][2]) ]
SeenNames == { occs[j].name : j \in 1..Len(occs) }
Idx(nm) == CHOOSE j \in 1..Len(Names) : Names[j] = nm
RECURSIVE CanonOK(_, _)
CanonOK(seen, ns) ==
  IF ns = << >> THEN TRUE
  ELSE LET nm == ns[1] IN
       /\ \A j \in 1..(Idx(nm) - 1) : Names[j] \in seen
       /\ CanonOK(seen \cup {nm}, Tail(ns))

TopPar == IF stack = << >> THEN 0 ELSE stack[Len(stack)]
DeclsOf(it, c) == LET rs == Roles(it.op) IN
                  { Fld(it, rs[j][2]) : j \in { x \in 1..Len(rs) : rs[x][3] = c } } \ {"-"}

\* pk, mn, bn, seen, xm: the state-dependent sets, computed once per state by Add
WellFormed(it, pk, mn, bn, seen, xm) ==
      /\ nocc + Counted(it) <= MaxOcc
      /\ (it.op \in Openers => Len(stack) < MaxDepth)
      /\ HdrCount(it) = Cardinality(HdrNames(it))                  \* header names pairwise distinct
      /\ DeclsOf(it, "pkg")  \cap pk = {}                          \* no redeclaration in a scope
      /\ DeclsOf(it, "meth") \cap mn = {}
      /\ (DeclsOf(it, "loc") \cup DeclsOf(it, "post")) \cap bn = {}
      /\ (Canon => CanonOK(seen, NamesOf(it)))
      \* shapes that would not be programs
      /\ (it.op = "range" => (it.k # "-" \/ it.v # "-"))
      /\ (it.op \in TwoOps => it.n # it.k)
      \* `type byte uint16` (flag r) / `type rune = int64` (flag q): a package-level type named like a
      \* predeclared one, at most once; `tuse` = `var z byte` / `var z rune` in a block (type position)
      /\ (it.op = "pshadow" => (it.r = "y" \/ it.q = "y") /\ \A j \in 1..Len(items) : items[j].op # "pshadow")
      /\ (it.op = "tuse" => (it.r = "y") # (it.q = "y"))
      /\ (stack = << >> => ~xm)                                    \* the shadow main comes last
      \* the shadow main begins at the first top-level STATEMENT: a leading var/const/type would
      \* still be a package-level declaration (parser.go: parseFile / ShadowEntry)
      /\ (TopPar # 0 /\ it.op \in {"lvar", "lconst", "ltype", "lvar2", "lconst2"} /\ items[TopPar].op = "xmain"
            => \E j \in 1..Len(items) : items[j].par = TopPar /\ items[j].op \notin {"lvar", "lconst", "ltype", "lvar2", "lconst2"})

\* candidate items at the current point
PkgCands == { it \in
       { It("pvar", n, u, "-", "-", "-", "-", "-") : n \in NameSet, u \in ND }
  \cup { It(op, n, "-", "-", "-", "-", "-", "-") : op \in {"pconst", "ptype", "pover"}, n \in NameSet }
  \cup { It("func", n, "-", p, r, "-", "-", "-") : n \in NameSet, p \in ND, r \in ND }
  \cup { It("method", n, "-", p, r, q, "-", "-") : n \in NameSet, p \in ND, r \in ND, q \in ND }
  \cup { It(op, n, "-", "-", "-", "-", k, "-") : op \in {"pvar2", "pconst2"}, n \in NameSet, k \in NameSet }
  \cup { It("pstruct", n, "-", p, r, q, k, v) : n \in NameSet, p \in ND, r \in {"-", "y"}, q \in {"-", "y"},
                                                  k \in {"-", "y"}, v \in {"-", "y"} }
  \cup { It("pshadow", "-", "-", "-", r, q, "-", "-") : r \in {"-", "y"}, q \in {"-", "y"} }
  \cup { It("xmain", "-", "-", "-", "-", "-", "-", "-") } : it.op \in Ops }
BlockCands == { it \in
       { It(op, n, u, "-", "-", "-", "-", "-") : op \in {"define", "lvar", "errwrap"}, n \in NameSet, u \in ND }
  \cup { It(op, n, "-", "-", "-", "-", "-", "-") : op \in {"lconst", "ltype"}, n \in NameSet }
  \cup { It(op, "-", u, "-", "-", "-", "-", "-") : op \in {"use", "echo", "interp", "muse"}, u \in NameSet }
  \cup { It(op, n, "-", "-", "-", "-", k, "-") : op \in {"define2", "lvar2", "lconst2"}, n \in NameSet, k \in NameSet }
  \cup { It("tuse", "-", "-", "-", r, q, "-", "-") : r \in {"-", "y"}, q \in {"-", "y"} }
  \cup { It("block", "-", "-", "-", "-", "-", "-", "-") }
  \cup { It("if", n, u, "-", "-", "-", "-", "-") : n \in ND, u \in ND }
  \cup { It("for", n, "-", "-", "-", "-", "-", "-") : n \in NameSet }
  \cup { It("switch", n, u, "-", "-", "-", "-", "-") : n \in NameSet, u \in ND }
  \cup { It("range", "-", "-", "-", "-", "-", k, v) : k \in ND, v \in ND }
  \cup { It("forin", "-", u, "-", "-", "-", k, v) : u \in ND, k \in ND, v \in NameSet }
  \cup { It("funclit", n, "-", p, r, "-", "-", "-") : n \in ND, p \in ND, r \in ND }
  \cup { It("lambdab", "-", "-", p, "-", "-", "-", "-") : p \in NameSet }
  \cup { It("lambda", "-", u, p, "-", "-", "-", "-") : p \in NameSet, u \in ND }
  \cup { It("compr", n, u, "-", "-", "-", "-", v) : n \in ND, u \in ND, v \in NameSet } : it.op \in Ops }

Init == items = << >> /\ stack = << >> /\ occs = << >> /\ nocc = 0

\* ProgGen: append one declaration / use / opener   (cl/compile.go preloadFile, loadFunc;
\* cl/stmt.go compileStmt; cl/expr.go compileExpr -- each item is one of their cases)
Add == /\ Len(items) < MaxItems
       /\ LET pk == PkgNames  mn == MethNames  bn == BodyNames(TopPar)  seen == SeenNames
              xm == \E j \in 1..Len(items) : items[j].op = "xmain"
          IN \E it \in (IF stack = << >> THEN PkgCands ELSE BlockCands) :
               /\ WellFormed(it, pk, mn, bn, seen, xm)
               /\ items' = Append(items, [it EXCEPT !.par = TopPar])
               /\ stack' = IF it.op \in Openers THEN Append(stack, Len(items) + 1) ELSE stack
               /\ occs'  = occs \o OccsOfItem(it, Len(items) + 1)
               /\ nocc'  = nocc + Counted(it)
\* close the innermost block (cb.End)
Close == /\ stack # << >>
         /\ Len(items) < MaxItems
         /\ items' = Append(items, [It("close", "-", "-", "-", "-", "-", "-", "-") EXCEPT !.par = TopPar])
         /\ stack' = SubSeq(stack, 1, Len(stack) - 1)
         /\ UNCHANGED <<occs, nocc>>
Next == Add \/ Close
Spec == Init /\ [][Next]_vars

\* ---------------------------------------------------------------------------
\* Complete programs
UseIdx == { x \in 1..Len(occs) : occs[x].cls \notin DeclClasses }
Closed == stack = << >> /\ items # << >>

\* resolution tables of the current program: candidates, innermost candidates, target (0: none)
CandT == [ x \in 1..Len(occs) |-> IF x \in UseIdx THEN Cands(items, occs, x) ELSE {x} ]
InnT(C) == [ x \in 1..Len(occs) |-> Innermost(items, occs, C[x]) ]
TgtT(I) == [ x \in 1..Len(occs) |-> IF Cardinality(I[x]) = 1 THEN CHOOSE j \in I[x] : TRUE ELSE 0 ]

\* package initialisers must be acyclic: `var n = u` may only mention a constant, a type, or a
\* package variable that has a literal initialiser
InitOK(T, x) ==
  LET o == occs[x] t == T[x] IN
  (items[o.i].op = "pvar" /\ o.role = "u") =>
     /\ t # 0 /\ occs[t].i # o.i
     /\ items[occs[t].i].op \in {"pconst", "ptype", "pvar", "pconst2", "pvar2"}
     /\ (items[occs[t].i].op = "pvar" => items[occs[t].i].u = "-")

CompleteT(T) == Closed /\ \A x \in UseIdx : T[x] # 0 /\ InitOK(T, x)
Complete == CompleteT(TgtT(InnT(CandT)))

\* prune: every unresolved name needs at least one more (package-level) declaration
Unresolved == { occs[x].name : x \in { y \in UseIdx : occs[y].cls # "self" /\ Cands(items, occs, y) = {} } }
Prune == nocc + Cardinality(Unresolved) <= MaxOcc

\* ---------------------------------------------------------------------------
\* What TLC checks on the model
TypeOK == /\ \A i \in 1..Len(items) : items[i].par \in 0..(i - 1)
          /\ \A s \in 1..Len(stack) : items[stack[s]].op \in Openers
          /\ Len(stack) <= MaxDepth /\ nocc <= MaxOcc
          /\ occs = AllOccs(items) /\ nocc = NOcc(items)

\* resolution is deterministic: never two innermost candidates
Deterministic(I) == \A x \in UseIdx : Cardinality(I[x]) <= 1

\* in a complete program every use resolves to exactly one declaration, declared elsewhere, of the
\* same name; a declaration is at its own position
ResolvesElsewhere(I, T) ==
    \A x \in 1..Len(occs) :
      IF occs[x].cls \in DeclClasses THEN T[x] = x
      ELSE /\ T[x] \in Decls(occs) /\ T[x] # x /\ occs[T[x]].name = occs[x].name
           /\ Cardinality(I[x]) = 1

\* a `:=` / `var` / const / type name is in scope only AFTER its statement; a func-literal variable
\* only after the literal; header declarations only inside their statement
DeclBeforeUse(T) ==
  \A x \in UseIdx : (occs[x].cls \in {"body", "inner"} /\ T[x] # 0) =>
    LET t == T[x] IN
      CASE occs[t].cls = "loc"  -> occs[t].i < occs[x].i
        [] occs[t].cls = "post" -> occs[t].i < occs[x].i /\ occs[t].i \notin AncOf(items, occs[x].i)
        [] occs[t].cls = "hdr"  -> occs[t].i = occs[x].i \/ occs[t].i \in AncOf(items, occs[x].i)
        [] OTHER                -> TRUE

\* the declarative and the operational definition of resolution agree
TwoDefinitionsAgree(I) ==
  \A x \in UseIdx : occs[x].cls \in {"body", "inner"} => Resolve2(items, occs, x) = I[x]

\* one invariant so that the tables are computed once per closed program; Assert names the part
Theorems ==
  Closed =>
    LET C == CandT  I == InnT(C)  T == TgtT(I) IN
    /\ Assert(Deterministic(I), "Deterministic")
    /\ Assert(DeclBeforeUse(T), "DeclBeforeUse")
    /\ Assert(TwoDefinitionsAgree(I), "TwoDefinitionsAgree")
    /\ (CompleteT(T) => Assert(ResolvesElsewhere(I, T), "ResolvesElsewhere"))

Export ==
  Closed =>
    LET C == CandT  I == InnT(C)  T == TgtT(I) IN
    CompleteT(T) =>
    Emit([items |-> items,
          occ   |-> [ x \in 1..Len(occs) |->
                       [i |-> occs[x].i, role |-> occs[x].role, name |-> occs[x].name, cls |-> occs[x].cls,
                        dk |-> occs[x].dk, tgt |-> T[x],
                        nc |-> IF x \in UseIdx THEN Cardinality(C[x]) ELSE 0] ],
          go    |-> \A i \in 1..Len(items) : items[i].op \in GoOps])
=============================================================================
