SPECIFICATION Spec
CONSTANTS
  Vary = {"lit", "callee", "mainpos"}
  Fns = {"Println"}
  Shs = {"-"}
  ScopeAware = TRUE
  LambdaParamsScoped = FALSE
  BareReturnLambda2 = FALSE
INVARIANTS TypeOK Confluent ImportSound Export
PROPERTIES Stable Terminates
