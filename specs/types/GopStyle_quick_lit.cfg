SPECIFICATION Spec
CONSTANTS
  Vary = {"lit", "callee", "mainpos"}
  Fns = {"Println"}
  Shs = {"-"}
  ScopeAware = TRUE
  LambdaParamsScoped = TRUE
  BareReturnLambda2 = TRUE
INVARIANTS TypeOK Confluent ImportSound Export
PROPERTIES Stable Terminates
