SPECIFICATION Spec
CONSTANTS
  Vary = {"lit", "callee", "mainpos"}
  Fns = {"Println"}
  Shs = {"-"}
INVARIANTS TypeOK Confluent ImportSound Export
PROPERTIES Stable Terminates
