SPECIFICATION Spec
CONSTANTS
  Vary = {"lit", "callee", "mainpos"}
  Fns = {"Println"}
  Shs = {"-"}
  ScopeAware = FALSE
INVARIANTS TypeOK Confluent ImportSound Export
PROPERTIES Stable Terminates
