SPECIFICATION Spec
CONSTANTS
  Vary = {"fn", "sh", "shk"}
  Fns = {"Println", "Printf", "Errorf"}
  Shs = {"-", "echo", "printf", "errorf", "println", "fmt"}
  ScopeAware = TRUE
  LambdaParamsScoped = FALSE
  BareReturnLambda2 = FALSE
INVARIANTS TypeOK Confluent ImportSound Export
PROPERTIES Stable Terminates
