SPECIFICATION Spec
CONSTANTS
  Vary = {"fn", "sh", "shk"}
  Fns = {"Println", "Printf", "Errorf"}
  Shs = {"-", "echo", "printf", "errorf", "println", "fmt"}
  ScopeAware = TRUE
  LambdaParamsScoped = TRUE
  BareReturnLambda2 = TRUE
INVARIANTS TypeOK Confluent ImportSound Export
PROPERTIES Stable Terminates
