SPECIFICATION Spec
CONSTANTS
  Vary = {"fn", "pos", "sh", "shk"}
  Fns = {"Println", "Printf", "Sprint", "Errorf"}
  Shs = {"-", "echo", "printf", "sprint", "errorf", "fmt"}
INVARIANTS TypeOK Confluent ImportSound Export
PROPERTIES Stable Terminates
