SPECIFICATION Spec
CONSTANTS
  NNames = 2
  Ops = {"pshadow", "tuse", "pvar", "func", "block", "use", "close"}
  MaxOcc = 3
  MaxItems = 6
  MaxDepth = 2
  Canon = TRUE
CONSTRAINT Prune
INVARIANTS TypeOK Theorems Export
