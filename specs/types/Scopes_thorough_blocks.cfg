SPECIFICATION Spec
CONSTANTS
  NNames = 2
  Ops = {"func", "define", "lvar", "use", "block", "if", "for", "switch", "close"}
  MaxOcc = 4
  MaxItems = 7
  MaxDepth = 3
  Canon = TRUE
CONSTRAINT Prune
INVARIANTS TypeOK Theorems Export
