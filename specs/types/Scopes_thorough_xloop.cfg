SPECIFICATION Spec
CONSTANTS
  NNames = 2
  Ops = {"xmain", "define", "use", "echo", "interp", "forin", "compr", "close"}
  MaxOcc = 5
  MaxItems = 6
  MaxDepth = 3
  Canon = TRUE
CONSTRAINT Prune
INVARIANTS TypeOK Theorems Export
