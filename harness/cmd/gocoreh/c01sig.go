package main

// Structural signatures for "XGo rejects a program Go accepts".

import (
	"fmt"
	"reflect"
	"regexp"
	"strconv"
	"strings"

	gotoken "go/token"

	"github.com/goplus/xgo/ast"
	"github.com/goplus/xgo/scanner"
	"github.com/goplus/xgo/token"

	"verifharness/xgolib"
)

var posRe = regexp.MustCompile(`([\w./-]+):(\d+):(\d+)`)

// compileFailSig: kinds of the innermost syntax nodes at the first error position (as XGo's own
// parser sees the source), plus the keyword if the innermost node is an identifier spelled like a Go
// keyword.  Never message text.
func compileFailSig(out xgolib.Outcome, src string) string {
	if out.Panic != nil {
		return "xgo-compile-panic"
	}
	msg := fmt.Sprint(out.Err)
	m := posRe.FindStringSubmatch(msg)
	if m == nil {
		return "xgo-" + out.Stage + "-fail:nopos"
	}
	line, _ := strconv.Atoi(m[2])
	col, _ := strconv.Atoi(m[3])
	if out.Stage == "parse" || out.Pkg == nil {
		return "xgo-parse-fail:" + tokenAt(src, line, col)
	}
	var chain []string
	kw := ""
	for _, f := range out.Pkg.Files {
		ast.Inspect(f, func(n ast.Node) bool {
			if n == nil {
				return false
			}
			p, e := out.Fset.Position(n.Pos()), out.Fset.Position(n.End())
			if !p.IsValid() {
				return true
			}
			before := p.Line < line || (p.Line == line && p.Column <= col)
			after := e.Line > line || (e.Line == line && e.Column > col)
			if before && after {
				chain = append(chain, strings.TrimPrefix(reflect.TypeOf(n).String(), "*ast."))
				if id, ok := n.(*ast.Ident); ok && gotoken.IsKeyword(id.Name) {
					kw = id.Name
				}
				return true
			}
			return false
		})
	}
	if len(chain) > 3 {
		chain = chain[len(chain)-3:]
	}
	sig := "xgo-compile-fail:" + strings.Join(chain, "/")
	if kw != "" {
		sig += ":kw=" + kw
	}
	return sig
}

// tokenAt: kinds of the token at line:col and of the one before it.
func tokenAt(src string, line, col int) string {
	fset := token.NewFileSet()
	f := fset.AddFile("main.xgo", -1, len(src))
	var s scanner.Scanner
	s.Init(f, []byte(src), nil, 0)
	prev := "BOF"
	for {
		pos, tok, _ := s.Scan()
		if tok == token.EOF {
			return "prev=" + prev + ",tok=EOF"
		}
		p := fset.Position(pos)
		if p.Line > line || (p.Line == line && p.Column >= col) {
			return "prev=" + prev + ",tok=" + tok.String()
		}
		prev = tok.String()
	}
}
