package main

// In-process reference front end (oracle D for the domain predicate of C01 and for C06):
// go/parser + go/types with the source importer.

import (
	"fmt"
	"go/ast"
	"go/parser"
	"go/token"
	"go/types"
	"os"
	"path/filepath"
	"reflect"
	"regexp"
	"runtime"
	"strconv"
	"strings"
	"sync"

	"github.com/goplus/gogen/packages"
)

type goChecker struct {
	mu   sync.Mutex
	fset *token.FileSet
	imp  types.Importer
}

func newGoChecker() *goChecker {
	fset := token.NewFileSet()
	// export data via `go list -export` in the working directory (a module that resolves XGo's
	// dependencies): one `go list` per imported package, cached
	return &goChecker{fset: fset, imp: packages.NewImporter(fset)}
}

// goVerdict of the reference front end on one Go file.
type goVerdict struct {
	Stage string // "ok" | "parse" | "types"
	Class string // structural class of the first error (types: error code name)
	Msg   string
}

var (
	codeNames     map[int]string
	codeNamesOnce sync.Once
)

// loadCodeNames reads the name table of go/types' error codes from the tool chain's own source
// (internal/types/errors/code_string.go: lines `_ = x[UnusedVar-52]`).
func loadCodeNames() {
	codeNames = map[int]string{}
	b, err := os.ReadFile(filepath.Join(runtime.GOROOT(), "src", "internal", "types", "errors", "code_string.go"))
	if err != nil {
		return
	}
	re := regexp.MustCompile(`_ = x\[(\w+)\s*-\s*(-?\d+)\]`)
	for _, m := range re.FindAllStringSubmatch(string(b), -1) {
		n, _ := strconv.Atoi(m[2])
		codeNames[n] = m[1]
	}
}

// typesErrClass: the error's code (read by reflection, as go/types' documentation allows), else a
// small classifier on the message.
func typesErrClass(err error) string {
	codeNamesOnce.Do(loadCodeNames)
	if te, ok := err.(types.Error); ok {
		v := reflect.ValueOf(te).FieldByName("go116code")
		if v.IsValid() && v.CanInt() {
			if n, ok := codeNames[int(v.Int())]; ok {
				return n
			}
		}
		return classifyGoErr(te.Msg)
	}
	return classifyGoErr(err.Error())
}

// classifyGoErr: fallback classifier on compiler message text (used for `go build` output).
func classifyGoErr(msg string) string {
	switch {
	case strings.Contains(msg, "declared and not used"):
		return "UnusedVar"
	case strings.Contains(msg, "imported and not used"):
		return "UnusedImport"
	case strings.Contains(msg, "label") && strings.Contains(msg, "defined and not used"):
		return "UnusedLabel"
	case strings.Contains(msg, "undefined:"), strings.Contains(msg, "undefined ("):
		return "UndeclaredName"
	case strings.Contains(msg, "redeclared"), strings.Contains(msg, "no new variables"):
		return "DuplicateDecl"
	case strings.Contains(msg, "assignment mismatch"):
		return "WrongAssignCount"
	case strings.Contains(msg, "not enough arguments"), strings.Contains(msg, "too many arguments"):
		return "WrongArgCount"
	case strings.Contains(msg, "cannot use"):
		return "IncompatibleAssign"
	case strings.Contains(msg, "mismatched types"), strings.Contains(msg, "mismatch"):
		return "MismatchedTypes"
	case strings.Contains(msg, "missing return"):
		return "MissingReturn"
	case strings.Contains(msg, "invalid operation"):
		return "InvalidOperation"
	case strings.Contains(msg, "syntax error"), strings.Contains(msg, "expected "):
		return "Syntax"
	case strings.Contains(msg, "is not used"):
		return "UnusedExpr"
	case strings.Contains(msg, "timed out"), strings.Contains(msg, "signal: killed"):
		return "Timeout"
	}
	return "Other"
}

func (g *goChecker) verdict(filename, src string) goVerdict {
	g.mu.Lock()
	defer g.mu.Unlock()
	f, err := parser.ParseFile(g.fset, filename, src, parser.SkipObjectResolution)
	if err != nil {
		return goVerdict{"parse", "Syntax", err.Error()}
	}
	var first error
	conf := types.Config{Importer: g.imp, Error: func(e error) {
		if first == nil {
			first = e
		}
	}}
	conf.Check("main", g.fset, []*ast.File{f}, nil)
	if first != nil {
		return goVerdict{"types", typesErrClass(first), first.Error()}
	}
	return goVerdict{Stage: "ok"}
}

// check returns "" iff Go's front end accepts the program.
func (g *goChecker) check(src string) string {
	v := g.verdict("main.go", src)
	if v.Stage == "ok" {
		return ""
	}
	return fmt.Sprintf("%s: %s", v.Stage, v.Msg)
}
