package main

// C07 -- the compiler never crashes or hangs on parseable input.  Oracle S (the statement itself):
// cl.NewPackage, called directly with its default settings, returns a package or an error list
// within the time cap, without an unrecovered panic or a runtime fatal error, and every reported
// error position lies inside the compiled files; x/build BuildFile / BuildFSDir return a value or an
// error.  Every compile runs in a worker subprocess (`gocoreh c07-worker`) so that a fatal error or
// a hang is observable.  A panic that cl.NewPackage recovers into its error list satisfies the
// statement; when the recovered value is a Go runtime error it is reported as drift
// ("masked-runtime-error"), never as a violation.

import (
	"bufio"
	"encoding/json"
	"fmt"
	"io"
	"os"
	"os/exec"
	"path/filepath"
	"reflect"
	"runtime"
	"sort"
	"strings"
	"syscall"
	"time"

	"github.com/goplus/gogen"
	"github.com/goplus/gogen/packages"
	xerrors "github.com/qiniu/x/errors"

	"github.com/goplus/xgo/ast"
	"github.com/goplus/xgo/cl"
	"github.com/goplus/xgo/parser"
	"github.com/goplus/xgo/scanner"
	"github.com/goplus/xgo/token"
	"github.com/goplus/xgo/x/build"

	"verifharness/hlib"
	"verifharness/xgolib"
)

// ---------------------------------------------------------------------------- corpus and tokens

type corpusFile struct {
	Path string `json:"path"`
	Ntok int    `json:"ntok"`
}

type tok struct {
	off, end int
	tok      token.Token
	lit      string
}

// tokenize returns the explicit tokens of src (automatic semicolons are not tokens).
func tokenize(src []byte) []tok {
	fset := token.NewFileSet()
	f := fset.AddFile("x.xgo", -1, len(src))
	var s scanner.Scanner
	s.Init(f, src, func(token.Position, string) {}, 0)
	var ts []tok
	for {
		pos, t, lit := s.Scan()
		if t == token.EOF {
			break
		}
		if t == token.SEMICOLON && lit == "\n" {
			continue
		}
		off := f.Offset(pos)
		text := lit
		if text == "" {
			text = t.String()
		}
		end := off + len(text)
		if end > len(src) {
			end = len(src)
		}
		ts = append(ts, tok{off, end, t, string(src[off:end])})
	}
	return ts
}

func tokClass(t token.Token) string {
	switch {
	case t == token.IDENT:
		return "ident"
	case t.IsLiteral():
		return "lit:" + t.String()
	case t.IsKeyword():
		return "kw"
	case t == token.LPAREN || t == token.RPAREN || t == token.LBRACE || t == token.RBRACE || t == token.LBRACK || t == token.RBRACK ||
		t == token.COMMA || t == token.SEMICOLON || t == token.COLON || t == token.PERIOD:
		return "delim"
	}
	return "op"
}

func corpusFiles() []string {
	repo := xgolib.RepoDir()
	var paths []string
	for _, root := range []string{"cl/_testgop", "demo"} {
		filepath.Walk(filepath.Join(repo, root), func(p string, info os.FileInfo, err error) error {
			if err == nil && !info.IsDir() && (strings.HasSuffix(p, ".xgo") || strings.HasSuffix(p, ".gop")) {
				rel, _ := filepath.Rel(repo, p)
				paths = append(paths, rel)
			}
			return nil
		})
	}
	sort.Strings(paths)
	return paths
}

// runC07Corpus lists the corpus files the parser accepts, with their token counts.
func runC07Corpus(args []string) {
	repo := xgolib.RepoDir()
	for _, rel := range corpusFiles() {
		src, err := os.ReadFile(filepath.Join(repo, rel))
		if err != nil {
			continue
		}
		fset := token.NewFileSet()
		if _, err := parser.ParseFile(fset, "main.xgo", src, 0); err != nil {
			continue
		}
		b, _ := json.Marshal(corpusFile{rel, len(tokenize(src))})
		fmt.Println(string(b))
	}
}

type edit struct {
	Op string `json:"op"`
	P  int    `json:"p"`
}

// applyEdits applies the edits (positions 1-based into the original tokens, increasing) last first.
func applyEdits(src []byte, edits []edit) (string, []string) {
	ts := tokenize(src)
	type piece struct{ gap, text string }
	ps := make([]piece, len(ts))
	prev := 0
	for i, t := range ts {
		ps[i] = piece{string(src[prev:t.off]), t.lit}
		prev = t.end
	}
	tail := string(src[prev:])
	var kinds []string
	for k := len(edits) - 1; k >= 0; k-- {
		e := edits[k]
		i := e.P - 1
		if i < 0 || i >= len(ps) {
			continue
		}
		kinds = append(kinds, e.Op+":"+tokClass(ts[i].tok))
		switch e.Op {
		case "del":
			ps[i].text = ""
		case "dup":
			ps[i].text = ps[i].text + " " + ps[i].text
		case "swap":
			if i+1 < len(ps) {
				ps[i].text, ps[i+1].text = ps[i+1].text, ps[i].text
			}
		case "repl":
			// the next token of the same class with a different spelling (cyclic); else a class default
			cls := tokClass(ts[i].tok)
			repl := ""
			for d := 1; d < len(ts); d++ {
				j := (i + d) % len(ts)
				if tokClass(ts[j].tok) == cls && ts[j].lit != ts[i].lit {
					repl = ts[j].lit
					break
				}
			}
			if repl == "" {
				switch {
				case cls == "ident":
					repl = "zz9"
				case strings.HasPrefix(cls, "lit:"):
					repl = "0"
				case cls == "kw":
					repl = "func"
				case cls == "delim":
					repl = ","
				default:
					repl = "+"
				}
			}
			ps[i].text = repl
		}
	}
	var b strings.Builder
	for _, p := range ps {
		b.WriteString(p.gap)
		b.WriteString(p.text)
	}
	b.WriteString(tail)
	sort.Strings(kinds)
	return b.String(), kinds
}

// ---------------------------------------------------------------------------- worker

type c07Job struct {
	ID   int    `json:"id"`
	Name string `json:"name"` // file name (extension selects the parse mode)
	Src  string `json:"src"`
}

type c07Out struct {
	ID      int    `json:"id"`
	Parse   string `json:"parse"`   // ok | partial | none
	Compile string `json:"compile"` // pkg | errs | PANIC | skipped
	Pos     string `json:"pos"`     // in | out | na
	PosMsg  string `json:"posmsg,omitempty"`
	Panic   string `json:"panic,omitempty"`
	Masked  string `json:"masked,omitempty"` // runtime error recovered into the error list
	Write   string `json:"write,omitempty"`  // ok | err | PANIC
	BuildF  string `json:"buildf"`           // BuildFile:  ok | err | PANIC
	BuildD  string `json:"buildd"`           // BuildFSDir: ok | err | PANIC
	BPanic  string `json:"bpanic,omitempty"`
	Nerr    int    `json:"nerr"`
	Ms      int64  `json:"ms"`
}

func flattenErrs(err error, out *[]error) {
	switch e := err.(type) {
	case nil:
	case xerrors.List:
		for _, x := range e {
			flattenErrs(x, out)
		}
	default:
		*out = append(*out, err)
	}
}

func panicClass(r any) string {
	if re, ok := r.(runtime.Error); ok {
		s := re.Error()
		switch {
		case strings.Contains(s, "nil pointer"):
			return "runtime:nil-dereference"
		case strings.Contains(s, "index out of range"), strings.Contains(s, "slice bounds"):
			return "runtime:index"
		case strings.Contains(s, "interface conversion"):
			return "runtime:type-assertion"
		case strings.Contains(s, "divide by zero"):
			return "runtime:divide"
		}
		return "runtime:other"
	}
	return "value:" + reflect.TypeOf(r).String()
}

func runC07Worker(args []string) {
	jobsPath := args[0]
	f, err := os.Open(jobsPath)
	if err != nil {
		fmt.Fprintln(os.Stderr, err)
		os.Exit(3)
	}
	if len(args) > 1 {
		os.Chdir(args[1])
	}
	w := bufio.NewWriter(os.Stdout)
	sc := bufio.NewScanner(f)
	sc.Buffer(make([]byte, 1<<20), 1<<26)
	impFset := token.NewFileSet()
	imp := packages.NewImporter(impFset)
	bctx := build.Default()
	// warm-up: the importer's `go list` calls are paid before the first timed job
	c07One(c07Job{ID: -1, Name: "main.xgo", Src: "import \"fmt\"\n\nfmt.Println(1, \"a\")\necho [1, 2]\n"}, imp, bctx)
	fmt.Fprintln(w, "READY")
	w.Flush()
	for sc.Scan() {
		var j c07Job
		if json.Unmarshal(sc.Bytes(), &j) != nil {
			continue
		}
		fmt.Fprintf(w, "S %d\n", j.ID)
		w.Flush()
		o := c07One(j, imp, bctx)
		b, _ := json.Marshal(o)
		fmt.Fprintf(w, "R %s\n", b)
		w.Flush()
	}
}

func c07One(j c07Job, imp *packages.Importer, bctx *build.Context) (o c07Out) {
	t0 := time.Now()
	o.ID = j.ID
	o.Pos = "na"
	fset := token.NewFileSet()
	mode := parser.Mode(0)
	if strings.HasSuffix(j.Name, ".gox") {
		mode |= parser.ParseGoPlusClass
	}
	var file *ast.File
	var perr error
	func() {
		defer func() {
			if r := recover(); r != nil { // a parser panic is C13's business, not C07's
				file, perr = nil, fmt.Errorf("parser panic: %v", r)
			}
		}()
		file, perr = parser.ParseFile(fset, j.Name, j.Src, mode)
	}()
	switch {
	case file == nil:
		o.Parse, o.Compile, o.BuildF, o.BuildD = "none", "skipped", "skipped", "skipped"
		return
	case perr != nil:
		o.Parse = "partial"
	default:
		o.Parse = "ok"
	}
	nlines := strings.Count(j.Src, "\n") + 1
	pkg := &ast.Package{Name: file.Name.Name, Files: map[string]*ast.File{j.Name: file}}
	conf := &cl.Config{Fset: fset, Importer: imp, NoFileLine: true}
	conf.LookupClass = func(ext string) (*cl.Project, bool) { return nil, false }
	var out *gogen.Package
	var cerr error
	func() {
		defer func() {
			if r := recover(); r != nil {
				o.Compile, o.Panic = "PANIC", panicClass(r)+": "+trunc(fmt.Sprint(r), 200)
			}
		}()
		out, cerr = cl.NewPackage("", pkg, conf) // default settings: cl's own recover is on
		if cerr != nil {
			o.Compile = "errs"
		} else {
			o.Compile = "pkg"
		}
	}()
	if o.Compile == "errs" {
		var list []error
		flattenErrs(cerr, &list)
		o.Nerr = len(list)
		for _, e := range list {
			var p token.Position
			has := false
			switch ce := e.(type) {
			case *gogen.CodeError:
				if ce.Pos != token.NoPos && ce.Fset != nil {
					p, has = ce.Fset.Position(ce.Pos), true
				}
			case *gogen.ImportError:
				if ce.Pos != token.NoPos && ce.Fset != nil {
					p, has = ce.Fset.Position(ce.Pos), true
				}
			case runtime.Error:
				o.Masked = panicClass(ce)
			}
			if !has {
				continue
			}
			in := p.Filename == j.Name && p.Line >= 1 && p.Line <= nlines+1 && p.Column >= 1
			if in && o.Pos != "out" {
				o.Pos = "in"
			}
			if !in {
				o.Pos, o.PosMsg = "out", fmt.Sprintf("%s (file %q has %d lines)", p, j.Name, nlines)
			}
		}
	}
	if o.Compile == "pkg" && out != nil {
		func() {
			defer func() {
				if r := recover(); r != nil {
					o.Write = "PANIC"
				}
			}()
			if err := out.WriteTo(io.Discard); err != nil {
				o.Write = "err"
			} else {
				o.Write = "ok"
			}
		}()
	}
	// the build helpers of x/build on the same source text
	if strings.HasSuffix(j.Name, ".xgo") || strings.HasSuffix(j.Name, ".gop") {
		o.BuildF = callBuild(func() error { _, err := bctx.BuildFile("/mem/"+j.Name, j.Src); return err }, &o.BPanic)
		o.BuildD = callBuild(func() error {
			_, err := bctx.BuildFSDir(&xgolib.MemFS{Dir: "/mem", Files: map[string]string{j.Name: j.Src}}, "/mem")
			return err
		}, &o.BPanic)
	} else {
		o.BuildF, o.BuildD = "skipped", "skipped"
	}
	o.Ms = time.Since(t0).Milliseconds()
	return
}

func callBuild(f func() error, pmsg *string) (r string) {
	defer func() {
		if e := recover(); e != nil {
			r = "PANIC"
			*pmsg = panicClass(e) + ": " + trunc(fmt.Sprint(e), 200)
		}
	}()
	if err := f(); err != nil {
		return "err"
	}
	return "ok"
}

// ---------------------------------------------------------------------------- parent

type c07Case struct {
	// kind "tokmut": File indexes the header's file list
	Kind  string   `json:"kind"`
	Files []string `json:"files"` // header record
	File  int      `json:"file"`
	Path  string   `json:"path"` // filled in by the engine from the corpus listing: the record is self-contained
	Edits []edit   `json:"edits"`
	// GoCore mutants
	Fam   string `json:"fam"`
	Prog  *Prog  `json:"prog"`
	Muts  []Mut  `json:"muts"`
	Sugar string `json:"sugar"`
}

const c07Cap = 20 * time.Second

// runWorker runs the jobs in one worker subprocess; a job on which the worker dies or stalls gets
// the outcome FATAL / TIMEOUT, the rest is handed to a fresh worker.
func runWorker(self, dir string, jobs []c07Job, tag string, outs map[int]*c07Out, extra map[int]string) {
	for len(jobs) > 0 {
		jp := filepath.Join(dir, "jobs-"+tag+".ndjson")
		jf, _ := os.Create(jp)
		enc := json.NewEncoder(jf)
		for _, j := range jobs {
			enc.Encode(j)
		}
		jf.Close()
		cmd := exec.Command(self, "c07-worker", jp, dir)
		cmd.Env = append(os.Environ(), "GOTRACEBACK=single")
		cmd.SysProcAttr = &syscall.SysProcAttr{Setpgid: true}
		stdout, _ := cmd.StdoutPipe()
		errPath := filepath.Join(dir, "stderr-"+tag+".txt")
		errFile, _ := os.Create(errPath) // a file, not a pipe: grandchildren cannot block Wait
		cmd.Stderr = errFile
		if err := cmd.Start(); err != nil {
			fmt.Fprintln(os.Stderr, "worker:", err)
			os.Exit(3)
		}
		lines := make(chan string, 64)
		go func() {
			sc := bufio.NewScanner(stdout)
			sc.Buffer(make([]byte, 1<<20), 1<<26)
			for sc.Scan() {
				lines <- sc.Text()
			}
			close(lines)
		}()
		cur, done := -1, 0
		timedOut := false
		ready := false
	loop:
		for {
			lim := c07Cap
			if overloaded() {
				// wall-clock says little while the machine is starved: wait longer before killing; a cap hit
				// that is confirmed under overload still ends the run inconclusively, never as an alarm
				lim = 10 * c07Cap
			}
			if !ready {
				lim = 20 * time.Minute // importer start-up (`go list`), not part of any compile
			}
			select {
			case l, ok := <-lines:
				if !ok {
					break loop
				}
				if l == "READY" {
					ready = true
				} else if strings.HasPrefix(l, "S ") {
					fmt.Sscan(l[2:], &cur)
				} else if strings.HasPrefix(l, "R ") {
					var o c07Out
					if json.Unmarshal([]byte(l[2:]), &o) == nil {
						oo := o
						outs[o.ID] = &oo
						done++
						cur = -1
					}
				}
			case <-time.After(lim):
				timedOut = true
				syscall.Kill(-cmd.Process.Pid, syscall.SIGKILL)
				break loop
			}
		}
		cmd.Wait()
		errFile.Close()
		if done == len(jobs) {
			return
		}
		if !ready {
			fmt.Fprintln(os.Stderr, "c07 worker did not become ready")
			os.Exit(4)
		}
		eb, _ := os.ReadFile(errPath)
		stderr := string(eb)
		// the worker ended early: job `cur` (or the next one) is the offender
		off := done
		if cur >= 0 {
			for k, j := range jobs {
				if j.ID == cur {
					off = k
				}
			}
		}
		o := &c07Out{ID: jobs[off].ID, Parse: "ok", Pos: "na", BuildF: "skipped", BuildD: "skipped"}
		if timedOut {
			o.Compile = "TIMEOUT"
		} else {
			o.Compile = "FATAL"
		}
		extra[jobs[off].ID] = trunc(stderr, 1500)
		outs[jobs[off].ID] = o
		jobs = jobs[off+1:]
	}
}

type limitedWriter struct {
	w io.Writer
	n int
}

func (l *limitedWriter) Write(p []byte) (int, error) {
	if l.n > 0 {
		q := p
		if len(q) > l.n {
			q = q[:l.n]
		}
		l.w.Write(q)
		l.n -= len(q)
	}
	return len(p), nil
}

func runC07(args []string) {
	cases := hlib.ReadAllCases[c07Case]()
	scratch := os.Getenv("VERIF_SCRATCH_DIR")
	if scratch == "" {
		scratch, _ = os.MkdirTemp(os.Getenv("HOME")+"/.verif-scratch", "c07-")
		defer os.RemoveAll(scratch)
	}
	runner, err := xgolib.NewRunner(filepath.Join(scratch, "c07mod"))
	if err != nil {
		fmt.Fprintln(os.Stderr, "runner:", err)
		os.Exit(3)
	}
	self, _ := os.Executable()
	repo := xgolib.RepoDir()
	var files []string
	srcs := map[string][]byte{}
	n := len(cases)
	jobs := make([]c07Job, 0, n)
	results := make([]hlib.Result, n)
	for i := range cases {
		c := &cases[i]
		results[i] = hlib.Result{Idx: i, V: "skip", Sig: "header"}
		switch {
		case c.Files != nil:
			files = c.Files
			continue
		case c.Kind == "tokmut":
			path := c.Path
			if path == "" && c.File >= 1 && c.File <= len(files) {
				path = files[c.File-1]
			}
			if path == "" {
				results[i].Sig = "bad-file-index"
				continue
			}
			src, ok := srcs[path]
			if !ok {
				src, _ = os.ReadFile(filepath.Join(repo, path))
				srcs[path] = src
			}
			text, kinds := applyEdits(src, c.Edits)
			jobs = append(jobs, c07Job{ID: i, Name: "main.xgo", Src: text})
			results[i] = hlib.Result{Idx: i, V: "ok", NT: "tok:" + strings.Join(kinds, "+"),
				Input: map[string]any{"file": path, "edits": c.Edits, "src": text}}
		case c.Prog != nil:
			prog, forceImp, _ := applyMuts(*c.Prog, c.Muts)
			text := renderC06(prog, c.Sugar, forceImp)
			var mk []string
			for _, m := range c.Muts {
				mk = append(mk, m.Kind)
			}
			jobs = append(jobs, c07Job{ID: i, Name: "main.xgo", Src: text})
			results[i] = hlib.Result{Idx: i, V: "ok", NT: "mut:" + c.Fam + ":" + strings.Join(mk, "+"),
				Input: map[string]any{"fam": c.Fam, "muts": c.Muts, "src": text}}
		}
	}
	// ---- workers
	nw := envInt("VERIF_C07_WORKERS", 4)
	outs := make([]map[int]*c07Out, nw)
	extras := make([]map[int]string, nw)
	hlib.Parallel(nw, nw, func(w int) {
		outs[w], extras[w] = map[int]*c07Out{}, map[int]string{}
		var mine []c07Job
		for k := w; k < len(jobs); k += nw {
			mine = append(mine, jobs[k])
		}
		runWorker(self, runner.Dir, mine, fmt.Sprint(w), outs[w], extras[w])
	})
	all := map[int]*c07Out{}
	extra := map[int]string{}
	for w := 0; w < nw; w++ {
		for k, v := range outs[w] {
			all[k] = v
		}
		for k, v := range extras[w] {
			extra[k] = v
		}
	}
	// a FATAL / TIMEOUT is confirmed by running the offender alone
	for _, j := range jobs {
		if o := all[j.ID]; o != nil && (o.Compile == "FATAL" || o.Compile == "TIMEOUT") {
			solo, ex := map[int]*c07Out{}, map[int]string{}
			runWorker(self, runner.Dir, []c07Job{j}, "solo", solo, ex)
			if s := solo[j.ID]; s != nil {
				all[j.ID] = s
				if ex[j.ID] != "" {
					extra[j.ID] = ex[j.ID]
				}
				if s.Compile == "TIMEOUT" && overloaded() {
					// a cap hit on an overloaded machine decides nothing (DESIGN 7.1): exit 2, never an alarm
					fmt.Fprintf(os.Stderr, "compile of case %d hit the %v cap while the machine is overloaded\n", j.ID, c07Cap)
					os.Exit(5)
				}
			}
		}
	}
	// ---- verdicts and traces
	tf, _ := os.Create(filepath.Join(scratch, "trace.ndjson"))
	enc := json.NewEncoder(tf)
	bad := []int{}
	ntrace := 0
	cnt := map[string]int{"masked_runtime_errors": 0, "write_panics": 0, "compile_PANIC": 0, "compile_FATAL": 0, "compile_TIMEOUT": 0}
	var msTotal int64
	corrupt := os.Getenv("VERIF_CORRUPT_TRACE") != ""
	for _, j := range jobs {
		i := j.ID
		o := all[i]
		if o == nil {
			results[i].V, results[i].Sig, results[i].Detail = "skip", "no-outcome", "worker produced no outcome"
			continue
		}
		cnt["parse_"+o.Parse]++
		if o.Parse == "none" {
			results[i].V, results[i].Sig, results[i].Detail = "skip", "not-parseable", "the parser returns no AST: outside the domain"
			continue
		}
		cnt["compile_"+o.Compile]++
		msTotal += o.Ms
		ntrace++
		enc.Encode(traceEv{Ev: "reset", Pkg: i})
		cr := o.Compile
		if corrupt && ntrace == 3 {
			cr = "PANIC"
		}
		enc.Encode(traceEv{Ev: "compile", R: cr, Pos: o.Pos, Pkg: i})
		if o.BuildF != "skipped" && o.BuildF != "" {
			enc.Encode(traceEv{Ev: "build", R: o.BuildF, Pos: "na", Pkg: i})
			enc.Encode(traceEv{Ev: "build", R: o.BuildD, Pos: "na", Pkg: i})
		}
		sig := ""
		switch {
		case o.Compile == "PANIC":
			sig = "cl-panic:" + strings.SplitN(o.Panic, ": ", 2)[0]
		case o.Compile == "FATAL":
			sig = "cl-fatal:" + fatalClass(extra[i])
		case o.Compile == "TIMEOUT":
			sig = "cl-timeout"
		case o.Pos == "out":
			sig = "error-position-outside-files"
		case o.BuildF == "PANIC" || o.BuildD == "PANIC":
			sig = "xbuild-panic:" + strings.SplitN(o.BPanic, ": ", 2)[0]
		}
		results[i].Detail = fmt.Sprintf("parse=%s compile=%s pos=%s nerr=%d BuildFile=%s BuildFSDir=%s %dms", o.Parse, o.Compile, o.Pos, o.Nerr, o.BuildF, o.BuildD, o.Ms)
		if nt, ok := results[i].NT.(string); ok {
			results[i].NT = nt + ":" + o.Parse + ":" + o.Compile
		}
		if sig != "" {
			bad = append(bad, ntrace)
			results[i].V, results[i].Sig = "viol", sig
			results[i].Detail += "\n" + o.Panic + o.BPanic + o.PosMsg + "\n" + extra[i] + "\n--- source ---\n" + j.Src
		} else if o.Masked != "" {
			results[i].V, results[i].Sig = "drift", "masked-runtime-error:"+o.Masked
			results[i].Detail += "\ncl.NewPackage recovered a Go runtime error into its error list (allowed by the statement)\n--- source ---\n" + j.Src
			cnt["masked_runtime_errors"]++
		} else if o.Write == "PANIC" {
			results[i].V, results[i].Sig = "drift", "write-panic"
			cnt["write_panics"]++
		}
	}
	tf.Close()
	rb, _ := json.Marshal(bad)
	os.WriteFile(filepath.Join(scratch, "rejected.json"), rb, 0644)
	for i := range results {
		hlib.Emit(results[i])
	}
	sum := map[string]any{"v": "summary", "jobs": len(jobs), "traces": ntrace, "job_ms_total": msTotal}
	for k, v := range cnt {
		sum[k] = v
	}
	hlib.EmitRaw(sum)
}

// overloaded: the 1-minute load average exceeds twice the number of CPUs.
func overloaded() bool {
	b, err := os.ReadFile("/proc/loadavg")
	if err != nil {
		return false
	}
	var l1 float64
	fmt.Sscan(string(b), &l1)
	return l1 > 2*float64(runtime.NumCPU())
}

func fatalClass(stderr string) string {
	switch {
	case strings.Contains(stderr, "stack overflow"), strings.Contains(stderr, "stack exceeds"):
		return "stack-overflow"
	case strings.Contains(stderr, "concurrent map"):
		return "concurrent-map"
	case strings.Contains(stderr, "out of memory"):
		return "oom"
	case strings.Contains(stderr, "fatal error"):
		return "runtime-fatal"
	case strings.Contains(stderr, "panic:"):
		return "unrecovered-panic"
	}
	return "exit"
}
