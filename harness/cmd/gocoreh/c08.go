package main

// C08 -- compilation output is deterministic.  Oracle S: the same set of files gives byte-identical Go
// output and the same error list for every file presentation order, in every fresh process (map
// iteration order is randomised per map), and on repetition within one process.  The schedule
// (package shape x presentation order, NProc fresh processes x NRep repetitions) is enumerated by TLC
// (specs/gocore/Sched.tla); the observations are recorded as a trace and validated by TLC against the
// history-variable contract of Contract.tla (Prop = "c08").

import (
	"bufio"
	"crypto/sha1"
	"encoding/hex"
	"encoding/json"
	"fmt"
	"os"
	"os/exec"
	"path/filepath"
	"sort"
	"strings"

	"verifharness/hlib"
	"verifharness/xgolib"
)

var c08Files = map[string]string{
	"main.xgo": `func add(a, b int) int {
	return a + b
}

echo add(1, 2), mulInt(2, 3), Greet("x"), mul(2, 3), mul(1.5, 2.0)
var t T
t.Set(3)
echo t.Get()
`,
	"mainr.xgo": `func add(a, b int) int {
	return a + b
}

echo add(1, 2), Greet("x")
var t T
t.Set(3)
echo t.Get()
r := &Rect{w: 2, h: 3}
echo r.Area()
`,
	"maing.xgo": `echo Greet("x"), Twice(4)
var t T
t.Set(Twice(3))
echo t.Get()
`,
	"over.xgo": `func mulInt(a, b int) int {
	return a * b
}

func mulFloat(a, b float64) float64 {
	return a * b
}

func mul = (
	mulInt
	mulFloat
)
`,
	"a.go": `package main

func Greet(s string) string { return "hi " + s }

type T struct{ v int }
`,
	"b.go": `package main

func (t *T) Set(v int) { t.v = v }

func (t *T) Get() int { return t.v }
`,
	"c.go": `package main

type U struct{ T }

func Twice(n int) int { return 2 * n }

func (u U) Name() string { return "u" }
`,
	"Rect.gox": `var (
	w, h int
)

func Area() int {
	return w * h
}
`,
	"errmain.xgo": `func add(a, b int) int {
	return a + b
}

echo add(1, undefinedX), Greet("x")
echo add("s", 2)
`,
	"errover.xgo": `func badRet() int {
	return "s"
}

func alsoBad() {
	undefinedZ()
}
`,
	"ErrRect.gox": `var (
	w, h int
)

func Bad() int {
	return undefinedY
}
`,
}

type c08Case struct {
	Pkg   string   `json:"pkg"`
	Errs  bool     `json:"errs"`
	Files []string `json:"files"`
	Nproc int      `json:"nproc"`
	Nrep  int      `json:"nrep"`
}

type c08Obs struct {
	Case int    `json:"case"`
	Rep  int    `json:"rep"`
	H    string `json:"h"`  // hash of output + error list
	HO   string `json:"ho"` // hash of the Go output
	HE   string `json:"he"` // hash of the error list
	NErr int    `json:"nerr"`
	Out  string `json:"out,omitempty"`
	Err  string `json:"err,omitempty"`
}

func h8(s string) string {
	x := sha1.Sum([]byte(s))
	return hex.EncodeToString(x[:6])
}

func c08Compile(c *c08Case) (string, string, int) {
	files := map[string]string{}
	for _, f := range c.Files {
		files[f] = c08Files[f]
	}
	out := xgolib.Compile(files, xgolib.Options{NoFileLine: false, Order: c.Files})
	errs := ""
	n := 0
	if out.Err != nil {
		var list []error
		flattenErrs(out.Err, &list)
		n = len(list)
		var p []string
		for _, e := range list {
			p = append(p, e.Error())
		}
		errs = strings.Join(p, "\n")
	}
	if out.Panic != nil {
		errs += fmt.Sprintf("\nPANIC %v", out.Panic)
	}
	return out.Go, errs, n
}

// runC08Worker: one fresh process executes the whole schedule (every case, NRep times each).
func runC08Worker(args []string) {
	f, err := os.Open(args[0])
	if err != nil {
		fmt.Fprintln(os.Stderr, err)
		os.Exit(3)
	}
	if len(args) > 1 {
		os.Chdir(args[1])
	}
	full := len(args) > 2 && args[2] == "full"
	w := bufio.NewWriter(os.Stdout)
	defer w.Flush()
	sc := bufio.NewScanner(f)
	sc.Buffer(make([]byte, 1<<20), 1<<26)
	idx := 0
	for sc.Scan() {
		var c c08Case
		if json.Unmarshal(sc.Bytes(), &c) != nil {
			continue
		}
		for r := 1; r <= c.Nrep; r++ {
			goSrc, errs, n := c08Compile(&c)
			o := c08Obs{Case: idx, Rep: r, H: h8(goSrc + "\x00" + errs), HO: h8(goSrc), HE: h8(errs), NErr: n}
			if full {
				o.Out, o.Err = goSrc, errs
			}
			b, _ := json.Marshal(o)
			w.Write(b)
			w.WriteByte('\n')
		}
		idx++
	}
}

func runC08(args []string) {
	cases := hlib.ReadAllCases[c08Case]()
	scratch := os.Getenv("VERIF_SCRATCH_DIR")
	if scratch == "" {
		scratch, _ = os.MkdirTemp(os.Getenv("HOME")+"/.verif-scratch", "c08-")
		defer os.RemoveAll(scratch)
	}
	runner, err := xgolib.NewRunner(filepath.Join(scratch, "c08mod"))
	if err != nil {
		fmt.Fprintln(os.Stderr, "runner:", err)
		os.Exit(3)
	}
	self, _ := os.Executable()
	jp := filepath.Join(scratch, "c08-jobs.ndjson")
	jf, _ := os.Create(jp)
	enc := json.NewEncoder(jf)
	nproc := 1
	for _, c := range cases {
		enc.Encode(c)
		if c.Nproc > nproc {
			nproc = c.Nproc
		}
	}
	jf.Close()
	obs := make([][]c08Obs, nproc)
	failed := make([]string, nproc)
	hlib.Parallel(nproc, 4, func(p int) {
		mode := "hash"
		if p == 0 {
			mode = "full" // the first process keeps the texts so that a difference can be shown
		}
		cmd := exec.Command(self, "c08-worker", jp, runner.Dir, mode)
		cmd.Stderr = nil
		outb, err := cmd.Output()
		if err != nil {
			failed[p] = err.Error()
			return
		}
		for _, l := range strings.Split(string(outb), "\n") {
			if strings.HasPrefix(l, "{") {
				var o c08Obs
				if json.Unmarshal([]byte(l), &o) == nil {
					obs[p] = append(obs[p], o)
				}
			}
		}
	})
	for p, f := range failed {
		if f != "" {
			fmt.Fprintf(os.Stderr, "c08 worker %d failed: %s\n", p, f)
			os.Exit(4)
		}
	}
	// ---- the recorded trace: one trace per package (all presentations, processes, repetitions)
	tf, _ := os.Create(filepath.Join(scratch, "trace.ndjson"))
	tenc := json.NewEncoder(tf)
	pkgs := []string{}
	byPkg := map[string][]int{}
	for i, c := range cases {
		if _, ok := byPkg[c.Pkg]; !ok {
			pkgs = append(pkgs, c.Pkg)
		}
		byPkg[c.Pkg] = append(byPkg[c.Pkg], i)
	}
	sort.Strings(pkgs)
	corrupt := os.Getenv("VERIF_CORRUPT_TRACE") != ""
	type first struct {
		h, ho, he string
		src       c08Obs
		order     []string
	}
	bad := []int{}
	results := make([]hlib.Result, len(cases))
	for i, c := range cases {
		results[i] = hlib.Result{Idx: i, V: "ok", NT: c.Pkg + ":" + strings.Join(c.Files, ","), Input: map[string]any{"pkg": c.Pkg, "order": c.Files}}
	}
	nobs := 0
	for t, pk := range pkgs {
		tenc.Encode(traceEv{Ev: "reset", Pkg: t})
		var fst *first
		pkgBad := false
		for _, i := range byPkg[pk] {
			for p := 0; p < nproc; p++ {
				for _, o := range obs[p] {
					if o.Case != i {
						continue
					}
					nobs++
					h := o.H
					if corrupt && t == 0 && p == 1 && o.Rep == 1 && i == byPkg[pk][0] {
						h = "corrupted"
					}
					tenc.Encode(traceEv{Ev: "obs", Pkg: t, H: h, Pos: "na"})
					if fst == nil {
						fst = &first{h, o.HO, o.HE, o, cases[i].Files}
						continue
					}
					if h != fst.h && results[i].V != "viol" {
						what := "output"
						if o.HO == fst.ho {
							what = "error-list"
						}
						if cases[i].Errs != (o.NErr > 0) || (fst.src.NErr > 0) != (o.NErr > 0) {
							what = "success-vs-failure"
						}
						same := strings.Join(cases[i].Files, ",") == strings.Join(fst.order, ",")
						why := "presentation-order"
						if same {
							why = "same-order(process-or-repetition)"
						}
						results[i].V, results[i].Sig = "viol", "nondeterministic:"+what+":"+why+":"+pk
						results[i].Detail = fmt.Sprintf("package %s: observation (order %v, process %d, rep %d) = %s differs from the first (order %v) = %s\n--- first: errors ---\n%s\n--- first: output ---\n%s",
							pk, cases[i].Files, p, o.Rep, h, fst.order, fst.h, fst.src.Err, trunc(fst.src.Out, 1500))
						pkgBad = true
					}
				}
			}
		}
		if pkgBad {
			bad = append(bad, t+1)
		}
		// sanity of the inputs: error-free shapes compile, error shapes report >= 2 errors
		for _, i := range byPkg[pk] {
			for _, o := range obs[0] {
				if o.Case == i && results[i].V == "ok" {
					if !cases[i].Errs && o.NErr > 0 {
						results[i].V, results[i].Sig, results[i].Detail = "skip", "template-does-not-compile", o.Err
					} else if cases[i].Errs && o.NErr < 2 {
						results[i].V, results[i].Sig, results[i].Detail = "skip", "template-too-few-errors", o.Err
					} else {
						results[i].Detail = fmt.Sprintf("%d processes x %d repetitions identical: %s (errors: %d)", nproc, cases[i].Nrep, o.H, o.NErr)
					}
				}
			}
		}
	}
	tf.Close()
	rb, _ := json.Marshal(bad)
	os.WriteFile(filepath.Join(scratch, "rejected.json"), rb, 0644)
	for i := range results {
		hlib.Emit(results[i])
	}
	hlib.EmitRaw(map[string]any{"v": "summary", "observations": nobs, "fresh_processes": nproc, "packages": len(pkgs)})
}
