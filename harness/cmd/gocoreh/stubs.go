package main

func runC08(args []string)       {}
func runC08Worker(args []string) {}
