package main

func runC06(args []string)       {}
func runC07(args []string)       {}
func runC07Worker(args []string) {}
func runC07Corpus(args []string) {}
func runC08(args []string)       {}
func runC08Worker(args []string) {}
