package main

// C01 -- a valid Go program means the same thing when compiled as XGo.
// Oracle D: the Go tool chain on the same source text.  The model's prediction (GoCore.tla Part II)
// is a third voter: model != both real sides is drift, never an alarm.

import (
	"encoding/json"
	"fmt"
	"os"
	"path/filepath"
	"sort"
	"strings"
	"sync"
	"time"

	"verifharness/hlib"
	"verifharness/xgolib"
)

type c01Case struct {
	Fam  string   `json:"fam"`
	Prog Prog     `json:"prog"`
	Pred bool     `json:"pred"`
	Out  [][]Val  `json:"out"`
	Exit int      `json:"exit"`
	Pan  []Val    `json:"pan"` // empty: no unrecovered panic; else one value
	Nst  int      `json:"steps"`
	// harness-side
	text    string
	procLvl bool
}

type caseRun struct {
	stdout string
	exit   int
	panics string
	ok     bool
	why    string
}

const batchSize = 120

func envInt(name string, def int) int {
	if v := os.Getenv(name); v != "" {
		var n int
		if _, err := fmt.Sscan(v, &n); err == nil {
			return n
		}
	}
	return def
}

func hasStmt(ss []St, pred func(St) bool) bool {
	for _, s := range ss {
		if pred(s) {
			return true
		}
		for _, b := range s.B {
			if hasStmt(b, pred) {
				return true
			}
		}
	}
	return false
}

// splitMarkers cuts the stdout of a batch program into per-case chunks.
func splitMarkers(out string) map[int]string {
	res := map[int]string{}
	cur := -1
	var b strings.Builder
	flush := func() {
		if cur >= 0 {
			res[cur] = b.String()
		}
		b.Reset()
	}
	for _, line := range strings.SplitAfter(out, "\n") {
		if strings.HasPrefix(line, "#") && !strings.HasPrefix(line, "#panic:") {
			var id int
			if _, err := fmt.Sscanf(line, "#%d\n", &id); err == nil {
				flush()
				cur = id
				continue
			}
		}
		b.WriteString(line)
	}
	flush()
	return res
}

func panicLines(stderr string) string {
	var p []string
	for _, l := range strings.Split(stderr, "\n") {
		t := strings.TrimLeft(l, "\t ")
		if strings.HasPrefix(t, "panic: ") || strings.HasPrefix(t, "fatal error: ") {
			p = append(p, t)
		}
	}
	return strings.Join(p, "\n")
}

type c01 struct {
	cases   []c01Case
	runner  *xgolib.Runner
	results []hlib.Result
	mu      sync.Mutex
	builds  int
}

func (h *c01) setRes(i int, v, sig, detail string) {
	h.mu.Lock()
	defer h.mu.Unlock()
	r := &h.results[i]
	if r.V == "viol" || (r.V == "skip" && v != "viol") {
		return
	}
	if r.V == "drift" && v == "ok" {
		return
	}
	r.V, r.Sig, r.Detail = v, sig, detail
}

func runC01(args []string) {
	h := &c01{cases: hlib.ReadAllCases[c01Case]()}
	scratch := os.Getenv("VERIF_SCRATCH_DIR")
	if scratch == "" {
		scratch, _ = os.MkdirTemp(os.Getenv("HOME")+"/.verif-scratch", "c01-")
		defer os.RemoveAll(scratch)
	}
	var err error
	h.runner, err = xgolib.NewRunner(filepath.Join(scratch, "c01mod"))
	if err != nil {
		fmt.Fprintln(os.Stderr, "runner:", err)
		os.Exit(3)
	}
	// gogen's importer runs `go list -export` in the working directory: it must be a module that
	// resolves XGo's own dependencies, else every compile pays a failing `go list`.
	os.Chdir(h.runner.Dir)
	n := len(h.cases)
	h.results = make([]hlib.Result, n)
	maxProc := envInt("VERIF_C01_PROC", 8)
	nproc := 0
	var live []int
	t0 := time.Now()
	// ---- stage 1: every case alone, in-process: is it Go (domain)? does XGo compile it (property)?
	gc := newGoChecker()
	for i := range h.cases {
		c := &h.cases[i]
		c.text = RenderProgram(c.Prog, Sugar{})
		h.results[i] = hlib.Result{Idx: i, V: "ok", NT: ntKey(c), Input: map[string]any{"fam": c.Fam, "src": c.text}}
		if msg := gc.check(c.text); msg != "" {
			h.setRes(i, "skip", "gen-invalid:"+classifyGoErr(msg), "generator emitted a program Go rejects: "+msg)
			continue
		}
		out := xgolib.Compile(map[string]string{"main.xgo": c.text}, xgolib.Options{NoFileLine: true})
		if out.Panic != nil || out.Err != nil {
			h.setRes(i, "viol", compileFailSig(out, c.text), fmt.Sprintf("Go accepts the program, XGo does not: err=%v panic=%v", out.Err, out.Panic))
			continue
		}
		c.procLvl = hasStmt(c.Prog.Body, func(s St) bool { return s.K == "exit" })
		if c.procLvl {
			nproc++
		}
		live = append(live, i)
	}
	t1 := time.Now()
	// ---- stage 2: batches of pure-output cases, identical text on both sides
	var batchIdx [][]int
	byKey := map[string][]int{}
	var keys []string
	for _, i := range live {
		if h.cases[i].procLvl {
			continue
		}
		k := h.cases[i].Prog.Prelude
		if len(h.cases[i].Prog.Globals) > 0 { // package-level declarations cannot share a batch
			gb, _ := json.Marshal(h.cases[i].Prog.Globals)
			k += string(gb)
		}
		if _, ok := byKey[k]; !ok {
			keys = append(keys, k)
		}
		byKey[k] = append(byKey[k], i)
	}
	sort.Strings(keys)
	for _, k := range keys {
		idx := byKey[k]
		for len(idx) > 0 {
			m := batchSize
			if m > len(idx) {
				m = len(idx)
			}
			batchIdx = append(batchIdx, idx[:m])
			idx = idx[m:]
		}
	}
	hlib.Parallel(len(batchIdx), 8, func(b int) { h.runBatch(fmt.Sprintf("b%d", b), batchIdx[b], 0) })
	t2 := time.Now()
	// ---- stage 3: process-level observables, one program per case: every os.Exit case, plus a
	// seeded sample of the cases whose batch output shows a panic leaving the case
	var procCases []int
	for _, i := range live {
		if h.cases[i].procLvl {
			procCases = append(procCases, i)
		}
	}
	var panicky []int
	for _, i := range live {
		if !h.cases[i].procLvl && strings.Contains(h.results[i].Detail, "#panic:") && h.results[i].V == "ok" {
			panicky = append(panicky, i)
		}
	}
	seed := int(hlib.Seed())
	for k := 0; k < len(panicky) && len(procCases) < maxProc+nproc; k++ {
		procCases = append(procCases, panicky[(k*7919+seed*31)%len(panicky)])
	}
	if len(procCases) > 4*maxProc {
		procCases = procCases[:4*maxProc]
	}
	hlib.Parallel(len(procCases), 8, func(k int) { h.runProc(procCases[k]) })
	t3 := time.Now()
	h.localise()
	npred, nagree := 0, 0
	for i := range h.results {
		if h.cases[i].Pred && h.results[i].V != "skip" {
			npred++
			if h.results[i].V == "ok" {
				nagree++
			}
		}
		hlib.Emit(h.results[i])
	}
	hlib.EmitRaw(map[string]any{"v": "summary", "programs_built": h.builds, "batches": len(batchIdx),
		"process_level_cases": len(procCases), "model_predicted": npred, "model_agrees": nagree,
		"t_compile_s": t1.Sub(t0).Seconds(), "t_batches_s": t2.Sub(t1).Seconds(), "t_proc_s": t3.Sub(t2).Seconds()})
}

// localise narrows the signature of every output difference to the program features that explain it:
// spectrum-based -- a feature (statement kind / operator / layout variant) is suspicious when every
// program of this run that contains it fails (support >= 2); if there is none, the feature with the
// highest failure ratio.  One root cause then gives one signature instead of one per program shape.
func (h *c01) localise() {
	total, fails := map[string]int{}, map[string]int{}
	feats := make([][]string, len(h.cases))
	for i := range h.cases {
		if h.results[i].V == "skip" {
			continue
		}
		feats[i] = strings.Split(kindSet(h.cases[i].Prog.Body), ",")
		bad := h.results[i].V == "viol" && (strings.HasPrefix(h.results[i].Sig, "output-diff:") || strings.HasPrefix(h.results[i].Sig, "proc-diff:"))
		for _, f := range feats[i] {
			total[f]++
			if bad {
				fails[f]++
			}
		}
	}
	for i := range h.results {
		r := &h.results[i]
		if r.V != "viol" || !(strings.HasPrefix(r.Sig, "output-diff:") || strings.HasPrefix(r.Sig, "proc-diff:")) {
			continue
		}
		var sure []string
		best, bestR := "", -1.0
		for _, f := range feats[i] {
			ratio := float64(fails[f]) / float64(total[f])
			if fails[f] == total[f] && total[f] >= 2 {
				sure = append(sure, f)
			}
			if ratio > bestR || (ratio == bestR && f < best) {
				best, bestR = f, ratio
			}
		}
		parts := strings.SplitN(r.Sig, ":", 4) // output-diff : fam : kind : kindset
		if len(parts) < 4 {
			continue
		}
		if len(sure) == 0 {
			sure = []string{best}
		}
		sort.Strings(sure)
		obs := parts[2] // output-diff:<fam>:<observable>:...   proc-diff:<observable>:<fam>:...
		if parts[0] == "proc-diff" {
			obs = parts[1]
		}
		r.Sig = parts[0] + ":" + obs + ":" + strings.Join(sure, ",")
	}
}

func ntKey(c *c01Case) string {
	return c.Fam + ":" + kindSet(c.Prog.Body)
}

// kindSet: the sorted set of statement kinds / operators / expression kinds of a program.
func kindSet(ss []St) string {
	set := map[string]bool{}
	var we func(e Ex)
	we = func(e Ex) {
		switch e.K {
		case "bin", "un":
			set[e.S] = true
		case "int", "str", "bool", "var", "par":
		default:
			set[e.K] = true
		}
		for _, a := range e.A {
			we(a)
		}
	}
	var ws func(ss []St)
	ws = func(ss []St) {
		for _, s := range ss {
			k := s.K
			if s.K == "opasg" || s.K == "inc" {
				k += s.S
			}
			if (s.K == "break" || s.K == "continue") && s.S != "" {
				k += "L"
			}
			if s.K == "for" || s.K == "func" || s.K == "case" {
				k += fmt.Sprint(s.N)
			}
			if s.Lay == "o" {
				k += "/o"
			}
			set[k] = true
			for _, e := range s.E {
				we(e)
			}
			for _, b := range s.B {
				ws(b)
			}
		}
	}
	ws(ss)
	var ks []string
	for k := range set {
		ks = append(ks, k)
	}
	sort.Strings(ks)
	return strings.Join(ks, ",")
}

// runBatch builds and runs the same batch text as Go and as XGo and compares per case.
func (h *c01) runBatch(name string, idx []int, depth int) {
	if len(idx) == 0 {
		return
	}
	ps := make([]Prog, len(idx))
	for k, i := range idx {
		ps[k] = h.cases[i].Prog
	}
	text := RenderBatch(ps, idx, Sugar{})
	split := func() {
		if len(idx) == 1 {
			return
		}
		mid := len(idx) / 2
		h.runBatch(name+"l", idx[:mid], depth+1)
		h.runBatch(name+"r", idx[mid:], depth+1)
	}
	h.mu.Lock()
	h.builds += 2
	h.mu.Unlock()
	gres := h.runner.Run("g"+name, map[string]string{"main.go": text}, 60*time.Second)
	if gres.BuildErr != "" || gres.TimedOut {
		if len(idx) == 1 {
			h.setRes(idx[0], "skip", "gen-invalid:go-build", "Go side does not build/finish: "+trunc(gres.BuildErr, 600))
			return
		}
		split()
		return
	}
	out := xgolib.Compile(map[string]string{"main.xgo": text}, xgolib.Options{NoFileLine: true})
	if out.Err != nil || out.Panic != nil {
		if len(idx) == 1 {
			h.setRes(idx[0], "viol", compileFailSig(out, text), fmt.Sprintf("XGo compiles the case alone but not inside the case wrapper: err=%v panic=%v", out.Err, out.Panic))
			return
		}
		split()
		return
	}
	xres := h.runner.Run("x"+name, map[string]string{"xgo_autogen.go": out.Go}, 60*time.Second)
	if xres.BuildErr != "" || xres.TimedOut {
		if len(idx) == 1 {
			sig := "xgo-output-build-fail:" + classifyGoErr(xres.BuildErr)
			if xres.TimedOut {
				sig = "xgo-binary-timeout"
			}
			h.setRes(idx[0], "viol", sig, "Go builds and runs the source; the Go code XGo generated for it does not: "+trunc(xres.BuildErr, 800))
			return
		}
		split()
		return
	}
	gm, xm := splitMarkers(gres.Stdout), splitMarkers(xres.Stdout)
	if gres.Exit != xres.Exit && len(idx) > 1 {
		split()
		return
	}
	for _, i := range idx {
		c := &h.cases[i]
		g, gok := gm[i]
		x, xok := xm[i]
		switch {
		case !gok && !xok:
			h.setRes(i, "skip", "not-reached", "case not reached in the batch (an earlier case ended the process)")
			if len(idx) > 1 {
				h.runBatch(name+fmt.Sprintf("s%d", i), []int{i}, depth+1)
			}
		case g != x || gok != xok || (len(idx) == 1 && gres.Exit != xres.Exit):
			h.setRes(i, "viol", "output-diff:"+c.Fam+":"+diffKind(g, x)+":"+kindSet(c.Prog.Body),
				fmt.Sprintf("stdout differs\n--- go ---\n%s--- xgo ---\n%s--- source ---\n%s", g, x, c.text))
		default:
			if c.Pred {
				want := formatModel(c, true)
				if want != g {
					h.setRes(i, "drift", "model-vs-go:"+c.Fam, fmt.Sprintf("model predicts\n%s--- go and xgo print ---\n%s--- source ---\n%s", want, g, c.text))
					continue
				}
			}
			h.setRes(i, "ok", "", trunc(g, 300))
		}
	}
}

func diffKind(g, x string) string {
	gp, xp := strings.Contains(g, "#panic:"), strings.Contains(x, "#panic:")
	switch {
	case gp && !xp:
		return "go-panics"
	case !gp && xp:
		return "xgo-panics"
	case gp && xp:
		return "panic-value"
	}
	return "stdout"
}

// runProc: one program per case on both sides; compares stdout, exit status and panic report.
func (h *c01) runProc(i int) {
	c := &h.cases[i]
	h.mu.Lock()
	h.builds += 2
	h.mu.Unlock()
	name := fmt.Sprintf("p%d", i)
	gres := h.runner.Run("g"+name, map[string]string{"main.go": c.text}, 30*time.Second)
	if gres.BuildErr != "" || gres.TimedOut {
		h.setRes(i, "skip", "gen-invalid:go-build", "Go side does not build/finish: "+trunc(gres.BuildErr, 600))
		return
	}
	out := xgolib.Compile(map[string]string{"main.xgo": c.text}, xgolib.Options{NoFileLine: true})
	if out.Err != nil || out.Panic != nil {
		h.setRes(i, "viol", compileFailSig(out, c.text), fmt.Sprintf("err=%v panic=%v", out.Err, out.Panic))
		return
	}
	xres := h.runner.Run("x"+name, map[string]string{"xgo_autogen.go": out.Go}, 30*time.Second)
	if xres.BuildErr != "" || xres.TimedOut {
		h.setRes(i, "viol", "xgo-output-build-fail:"+classifyGoErr(xres.BuildErr), trunc(xres.BuildErr, 800))
		return
	}
	gp, xp := panicLines(gres.Stderr), panicLines(xres.Stderr)
	obs := fmt.Sprintf("exit=%d panic=%q stdout=%q", gres.Exit, gp, trunc(gres.Stdout, 200))
	switch {
	case gres.Stdout != xres.Stdout:
		h.setRes(i, "viol", "proc-diff:stdout:"+c.Fam+":"+kindSet(c.Prog.Body), fmt.Sprintf("go: %s\nxgo: exit=%d panic=%q stdout=%q\n%s", obs, xres.Exit, xp, xres.Stdout, c.text))
	case gres.Exit != xres.Exit:
		h.setRes(i, "viol", "proc-diff:exit:"+c.Fam+":"+kindSet(c.Prog.Body), fmt.Sprintf("go: %s\nxgo: exit=%d panic=%q\n%s", obs, xres.Exit, xp, c.text))
	case gp != xp:
		h.setRes(i, "viol", "proc-diff:panic:"+c.Fam+":"+kindSet(c.Prog.Body), fmt.Sprintf("go: %s\nxgo: exit=%d panic=%q\n%s", obs, xres.Exit, xp, c.text))
	default:
		if c.Pred {
			want := formatModel(c, false)
			wantPan := formatModelPanic(c)
			if want != gres.Stdout || c.Exit != gres.Exit || wantPan != gp {
				h.setRes(i, "drift", "model-vs-go-proc:"+c.Fam, fmt.Sprintf("model: exit=%d panic=%q stdout=%q\ngo: %s\n%s", c.Exit, wantPan, want, obs, c.text))
				return
			}
		}
		h.setRes(i, "ok", "", "process-level: "+obs)
	}
}

func trunc(s string, n int) string {
	if len(s) > n {
		return s[:n] + "..."
	}
	return s
}
