package main

// Printing of the model's values the way fmt.Println prints the corresponding Go values.

import (
	"sort"
	"strconv"
	"strings"
)

// Val is a value exported by GoCore.tla (PrintV): t type tag, n number, c characters, e children.
type Val struct {
	T string   `json:"t"`
	N int      `json:"n"`
	C []string `json:"c"`
	E []Val    `json:"e"`
}

func fmtVal(v Val, top bool) string {
	switch v.T {
	case "int", "rune":
		return strconv.Itoa(v.N)
	case "string":
		return joinC(v.C)
	case "bool":
		if v.N == 1 {
			return "true"
		}
		return "false"
	case "nil":
		return "<nil>"
	case "slice":
		var p []string
		for _, e := range v.E {
			p = append(p, fmtVal(e, false))
		}
		return "[" + strings.Join(p, " ") + "]"
	case "map":
		type kv struct{ k, v string }
		var kvs []kv
		for i := 0; i+1 < len(v.E); i += 2 {
			kvs = append(kvs, kv{fmtVal(v.E[i], false), fmtVal(v.E[i+1], false)})
		}
		sort.Slice(kvs, func(i, j int) bool { return kvs[i].k < kvs[j].k })
		var p []string
		for _, e := range kvs {
			p = append(p, e.k+":"+e.v)
		}
		return "map[" + strings.Join(p, " ") + "]"
	case "struct":
		var p []string
		for _, e := range v.E {
			p = append(p, fmtVal(e, false))
		}
		return "{" + strings.Join(p, " ") + "}"
	case "ptr":
		if len(v.E) == 0 {
			return "<nil>"
		}
		if top {
			return "&" + fmtVal(v.E[0], false)
		}
		return "0xPTR"
	case "rterr":
		switch joinC(v.C) {
		case "divzero":
			return "runtime error: integer divide by zero"
		case "index":
			if v.N < 0 {
				return "runtime error: index out of range [" + strconv.Itoa(v.N) + "]"
			}
			return "runtime error: index out of range [" + strconv.Itoa(v.N) + "] with length " + strconv.Itoa(v.E[0].N)
		case "nilmap":
			return "assignment to entry in nil map"
		case "nilptr":
			return "runtime error: invalid memory address or nil pointer dereference"
		}
		return "runtime error: ?" + joinC(v.C)
	}
	return "?" + v.T
}

// formatModel: the stdout the model predicts (batch: a panic leaving the case is printed by the wrapper).
func formatModel(c *c01Case, batch bool) string {
	var b strings.Builder
	for _, line := range c.Out {
		var p []string
		for _, v := range line {
			p = append(p, fmtVal(v, true))
		}
		b.WriteString(strings.Join(p, " ") + "\n")
	}
	if batch && len(c.Pan) > 0 {
		b.WriteString("#panic: " + fmtVal(c.Pan[0], true) + "\n")
	}
	return b.String()
}

// formatModelPanic: the "panic: ..." line of the runtime for an unrecovered panic.
func formatModelPanic(c *c01Case) string {
	if len(c.Pan) == 0 {
		return ""
	}
	v := c.Pan[0]
	switch v.T {
	case "string", "int":
		return "panic: " + fmtVal(v, true)
	case "rterr":
		s := "panic: " + fmtVal(v, true)
		if joinC(v.C) == "nilmap" {
			return s
		}
		return s
	}
	return "panic: " + fmtVal(v, true)
}
