package main

import (
	"fmt"
	"os"
	"path/filepath"

	"verifharness/hlib"
	"verifharness/xgolib"
)

// runProbe compiles the named files as one package and prints the outcome (debugging aid).
func runProbe(args []string) {
	files := map[string]string{}
	var order []string
	for _, a := range args {
		b, err := os.ReadFile(a)
		if err != nil {
			fmt.Fprintln(os.Stderr, err)
			os.Exit(3)
		}
		files[filepath.Base(a)] = string(b)
		order = append(order, filepath.Base(a))
	}
	out := xgolib.Compile(files, xgolib.Options{NoFileLine: true, Order: order})
	fmt.Printf("stage=%s err=%v panic=%v elapsed=%v\n", out.Stage, out.Err, out.Panic, out.Elapsed)
	fmt.Println(out.Go)
}

// runRender prints the Go text of every CASE record on stdin (debugging aid).
func runRender(args []string) {
	n := 0
	hlibForEach(func(idx int, c *c01Case) {
		n++
		fmt.Printf("// ---- case %d fam=%s pred=%v\n%s\n", idx, c.Fam, c.Pred, RenderProgram(c.Prog, Sugar{}))
		if c.Pred {
			fmt.Printf("// model: exit=%d out=%q panic=%q\n", c.Exit, formatModel(c, true), formatModelPanic(c))
		}
	})
}

func hlibForEach(f func(idx int, c *c01Case)) { hlib.ForEachCase(f) }
