package main

// Rendering of the abstract syntax of specs/gocore/GoCore.tla as Go (and, with sugar switched on,
// XGo) source text.  The abstract syntax is exported by TLC as JSON: expressions [k,s,n,a,c],
// statements [k,s,n,e,b,x,sig,lay].

import (
	"fmt"
	"strconv"
	"strings"
)

type Ex struct {
	K string   `json:"k"`
	S string   `json:"s"`
	N int      `json:"n"`
	A []Ex     `json:"a"`
	C []string `json:"c"`
}

type Ent struct {
	X string `json:"x"`
	T string `json:"t"`
}

type Sig struct {
	Ps []Ent `json:"ps"`
	Rs []Ent `json:"rs"`
}

type St struct {
	K   string `json:"k"`
	S   string `json:"s"`
	N   int    `json:"n"`
	E   []Ex   `json:"e"`
	B   [][]St `json:"b"`
	X   []string `json:"x"`
	Sig Sig    `json:"sig"`
	Lay string `json:"lay"`
}

type FuncD struct {
	Name string `json:"name"`
	Rx   string `json:"rx"`
	Rt   string `json:"rt"`
	Sig  Sig    `json:"sig"`
	B    []St   `json:"b"`
}

type Prog struct {
	Prelude string  `json:"prelude"`
	Funcs   []FuncD `json:"funcs"`
	Globals []St    `json:"globals"` // package-level declarations in presentation order (family pkginit)
	Body    []St    `json:"body"`
}

// Sugar selects XGo spellings (C06); the zero value renders plain Go.
type Sugar struct {
	Echo    int  // 0: fmt.Println(..)  1: echo a, b  2: println a, b  3: echo(a, b)
	ListLit bool // []int{1,2} -> [1, 2] ; map[string]int{"a": 1} -> {"a": 1}
	ForIn   bool // for k, v := range xs -> for k, v <- xs
	Lambda  bool // func literal with a single return -> lambda where the type is known
	Interp  bool // "lit" + strvar -> "lit${strvar}"
	NoPkg   bool // drop `package main`, `import "fmt"` and `func main` (class-free script style)
}

type renderer struct {
	sg      Sugar
	usesOS  bool
	usesFmt bool
}

var binPrec = map[string]int{
	"||": 1, "&&": 2,
	"==": 3, "!=": 3, "<": 3, "<=": 3, ">": 3, ">=": 3,
	"+": 4, "-": 4, "|": 4, "^": 4,
	"*": 5, "/": 5, "%": 5, "<<": 5, ">>": 5, "&": 5, "&^": 5,
}

func joinC(c []string) string { return strings.Join(c, "") }

func (r *renderer) exprs(es []Ex) string {
	var p []string
	for _, e := range es {
		p = append(p, r.expr(e))
	}
	return strings.Join(p, ", ")
}

func isUnaryLike(e Ex) bool {
	return e.K == "un" || (e.K == "int" && e.N < 0) || e.K == "addr" || e.K == "deref"
}

func (r *renderer) operand(e Ex, parentPrec int, right bool) string {
	s := r.expr(e)
	if e.K == "bin" {
		p := binPrec[e.S]
		if p < parentPrec || (right && p == parentPrec) {
			return "(" + s + ")"
		}
	}
	return s
}

func (r *renderer) expr(e Ex) string {
	switch e.K {
	case "int":
		return strconv.Itoa(e.N)
	case "str":
		return strconv.Quote(joinC(e.C))
	case "bool":
		if e.N == 1 {
			return "true"
		}
		return "false"
	case "nil":
		return "nil"
	case "var":
		return e.S
	case "bin":
		if r.sg.Interp && e.S == "+" && e.A[0].K == "str" && e.A[1].K == "var" && !strings.ContainsAny(joinC(e.A[0].C), "$\\\"") {
			return "\"" + joinC(e.A[0].C) + "${" + e.A[1].S + "}\""
		}
		p := binPrec[e.S]
		return r.operand(e.A[0], p, false) + " " + e.S + " " + r.operand(e.A[1], p, true)
	case "un":
		x := r.expr(e.A[0])
		if e.A[0].K == "bin" || isUnaryLike(e.A[0]) {
			x = "(" + x + ")"
		}
		return e.S + x
	case "par":
		return "(" + r.expr(e.A[0]) + ")"
	case "len", "cap":
		return e.K + "(" + r.expr(e.A[0]) + ")"
	case "idx":
		return r.postfixOperand(e.A[0]) + "[" + r.expr(e.A[1]) + "]"
	case "sli":
		x := r.postfixOperand(e.A[0])
		switch e.N {
		case 1:
			return x + "[" + r.expr(e.A[1]) + ":]"
		case 2:
			return x + "[:" + r.expr(e.A[1]) + "]"
		}
		return x + "[" + r.expr(e.A[1]) + ":" + r.expr(e.A[2]) + "]"
	case "slit":
		if r.sg.ListLit && len(e.A) > 0 && e.S == "int" {
			return "[" + r.exprs(e.A) + "]"
		}
		return "[]" + e.S + "{" + r.exprs(e.A) + "}"
	case "mlit":
		var p []string
		for i := 0; i+1 < len(e.A); i += 2 {
			p = append(p, r.expr(e.A[i])+": "+r.expr(e.A[i+1]))
		}
		if r.sg.ListLit && len(p) > 0 {
			return "{" + strings.Join(p, ", ") + "}"
		}
		return "map[string]int{" + strings.Join(p, ", ") + "}"
	case "make":
		if len(e.A) == 0 {
			return "make(" + e.S + ")"
		}
		return "make(" + e.S + ", " + r.exprs(e.A) + ")"
	case "plit":
		if len(e.A) == 0 {
			return e.S + "{}"
		}
		if e.N == 1 {
			return e.S + "{" + r.exprs(e.A) + "}"
		}
		return e.S + "{X: " + r.expr(e.A[0]) + ", S: " + r.expr(e.A[1]) + "}"
	case "sel":
		return r.postfixOperand(e.A[0]) + "." + e.S
	case "addr":
		return "&" + r.postfixOperand(e.A[0])
	case "deref":
		return "*" + r.postfixOperand(e.A[0])
	case "append":
		if e.S == "..." {
			return "append(" + r.expr(e.A[0]) + ", " + r.expr(e.A[1]) + "...)"
		}
		return "append(" + r.exprs(e.A) + ")"
	case "call":
		return r.postfixOperand(e.A[0]) + "(" + r.exprs(e.A[1:]) + ")"
	case "mcall":
		return r.postfixOperand(e.A[0]) + "." + e.S + "(" + r.exprs(e.A[1:]) + ")"
	case "copy", "delete", "recover":
		return e.K + "(" + r.exprs(e.A) + ")"
	case "conv":
		return e.S + "(" + r.exprs(e.A) + ")"
	case "println":
		r.usesFmt = true
		return "fmt.Println(" + r.exprs(e.A) + ")"
	case "raw": // harness-made mutants (C06): text taken as is
		return e.S
	}
	panic("render: unknown expression kind " + e.K)
}

func (r *renderer) postfixOperand(e Ex) string {
	s := r.expr(e)
	if e.K == "bin" || e.K == "un" || isUnaryLike(e) {
		return "(" + s + ")"
	}
	return s
}

func sigText(sig Sig) string {
	var ps []string
	for _, p := range sig.Ps {
		ps = append(ps, p.X+" "+p.T)
	}
	s := "(" + strings.Join(ps, ", ") + ")"
	switch {
	case len(sig.Rs) == 0:
	case len(sig.Rs) == 1 && sig.Rs[0].X == "":
		s += " " + sig.Rs[0].T
	default:
		var rs []string
		for _, p := range sig.Rs {
			if p.X == "" {
				rs = append(rs, p.T)
			} else {
				rs = append(rs, p.X+" "+p.T)
			}
		}
		s += " (" + strings.Join(rs, ", ") + ")"
	}
	return s
}

// block renders "{ ... }" after a header; one == true puts everything on one line.
func (r *renderer) block(ss []St, ind string, one bool) string {
	if one {
		var p []string
		for _, s := range ss {
			p = append(p, r.stmt(s, "", true))
		}
		if len(p) == 0 {
			return "{}"
		}
		return "{ " + strings.Join(p, "; ") + " }"
	}
	var b strings.Builder
	b.WriteString("{\n")
	for _, s := range ss {
		b.WriteString(ind + "\t" + r.stmt(s, ind+"\t", false) + "\n")
	}
	b.WriteString(ind + "}")
	return b.String()
}

func (r *renderer) simpleDecl(x string, e Ex) string { return x + " := " + r.expr(e) }

// stmt renders one statement without the leading indentation and without the trailing newline.
func (r *renderer) stmt(s St, ind string, one bool) string {
	one = one || s.Lay == "o"
	switch s.K {
	case "decl":
		return strings.Join(s.X, ", ") + " := " + r.exprs(s.E)
	case "tfunc": // top-level function declaration
		return "func " + s.X[0] + sigText(s.Sig) + " " + r.block(s.B[0], ind, false)
	case "var":
		if s.N == 1 && s.S == "" {
			return "var " + s.X[0] + " = " + r.expr(s.E[0])
		}
		if s.N == 1 {
			return "var " + s.X[0] + " " + s.S + " = " + r.expr(s.E[0])
		}
		return "var " + s.X[0] + " " + s.S
	case "const":
		return "const " + s.X[0] + " = " + r.expr(s.E[0])
	case "asg":
		return r.exprs(s.E[:s.N]) + " = " + r.exprs(s.E[s.N:])
	case "opasg":
		return r.expr(s.E[0]) + " " + s.S + "= " + r.expr(s.E[1])
	case "inc":
		return r.expr(s.E[0]) + s.S
	case "print":
		switch r.sg.Echo {
		case 1:
			if len(s.E) > 0 && !startsAmbiguous(s.E[0]) {
				return "echo " + r.exprs(s.E)
			}
			return "echo(" + r.exprs(s.E) + ")"
		case 2:
			if len(s.E) > 0 && !startsAmbiguous(s.E[0]) {
				return "println " + r.exprs(s.E)
			}
			return "println(" + r.exprs(s.E) + ")"
		case 3:
			return "echo(" + r.exprs(s.E) + ")"
		}
		r.usesFmt = true
		return "fmt.Println(" + r.exprs(s.E) + ")"
	case "expr":
		return r.expr(s.E[0])
	case "break", "continue":
		if s.S != "" {
			return s.K + " " + s.S
		}
		return s.K
	case "ret":
		if len(s.E) == 0 {
			return "return"
		}
		return "return " + r.exprs(s.E)
	case "defer":
		return "defer " + r.expr(s.E[0])
	case "panic":
		return "panic(" + r.expr(s.E[0]) + ")"
	case "exit":
		r.usesOS = true
		return "os.Exit(" + r.expr(s.E[0]) + ")"
	case "raw":
		return s.S
	case "if":
		h := "if "
		if s.N == 1 {
			h += r.simpleDecl(s.X[0], s.E[1]) + "; "
		}
		h += r.expr(s.E[0]) + " "
		out := h + r.block(s.B[1], ind, one)
		if len(s.B) > 2 && len(s.B[2]) > 0 {
			if len(s.B[2]) == 1 && s.B[2][0].K == "if" && s.S == "elif" {
				out += " else " + r.stmt(s.B[2][0], ind, one)
			} else {
				out += " else " + r.block(s.B[2], ind, one)
			}
		}
		return out
	case "for":
		h := ""
		if s.S != "" {
			if one {
				h = s.S + ": "
			} else {
				h = s.S + ":\n" + ind
			}
		}
		v := s.X[0]
		switch s.N {
		case 3:
			h += "for " + v + " := 0; " + v + " < " + r.expr(s.E[0]) + "; " + v + "++ "
		case 1:
			h += "for " + v + " < " + r.expr(s.E[0]) + " "
		default:
			h += "for "
		}
		return h + r.block(s.B[0], ind, one)
	case "range":
		h := ""
		if s.S != "" {
			if one {
				h = s.S + ": "
			} else {
				h = s.S + ":\n" + ind
			}
		}
		vars := s.X[0]
		if len(s.X) > 1 && s.X[1] != "" {
			vars += ", " + s.X[1]
		}
		if r.sg.ForIn && s.X[0] != "_" && !(len(s.X) > 1 && s.X[1] == "") {
			h += "for " + vars + " <- " + r.expr(s.E[0]) + " "
		} else if r.sg.ForIn && s.X[0] == "_" {
			h += "for " + s.X[1] + " <- " + r.expr(s.E[0]) + " "
		} else {
			h += "for " + vars + " := range " + r.expr(s.E[0]) + " "
		}
		return h + r.block(s.B[0], ind, one)
	case "switch":
		h := "switch "
		if s.N == 1 {
			h += r.expr(s.E[0]) + " "
		}
		if one {
			var p []string
			for _, c := range s.B[0] {
				p = append(p, r.clause(c, "", true))
			}
			return h + "{ " + strings.Join(p, "; ") + " }"
		}
		var b strings.Builder
		b.WriteString(h + "{\n")
		for _, c := range s.B[0] {
			b.WriteString(ind + r.clause(c, ind, false))
		}
		b.WriteString(ind + "}")
		return b.String()
	case "block":
		return r.block(s.B[0], ind, one)
	case "func":
		lit := "func" + sigText(s.Sig) + " " + r.block(s.B[0], ind, one)
		switch s.N {
		case 0:
			if r.sg.Lambda && len(s.B[0]) == 1 && s.B[0][0].K == "ret" && len(s.B[0][0].E) == 1 && len(s.Sig.Rs) == 1 {
				// var f func(..) T = (params) => expr
				var ps, pt []string
				for _, p := range s.Sig.Ps {
					ps = append(ps, p.X)
					pt = append(pt, p.T)
				}
				lhs := "(" + strings.Join(ps, ", ") + ")"
				if len(ps) == 1 {
					lhs = ps[0]
				}
				return "var " + s.X[0] + " func(" + strings.Join(pt, ", ") + ") " + s.Sig.Rs[0].T + " = " + lhs + " => " + r.expr(s.B[0][0].E[0])
			}
			return s.X[0] + " := " + lit
		case 1:
			return "defer " + lit + "()"
		case 2:
			return "return " + lit
		}
		return lit + "()"
	}
	panic("render: unknown statement kind " + s.K)
}

// startsAmbiguous: a command-style call `echo x` cannot start with something the parser would
// read as a binary operator or a call/index of echo itself.
func startsAmbiguous(e Ex) bool {
	switch e.K {
	case "un", "par", "addr", "deref", "slit", "mlit":
		return true
	case "int":
		return e.N < 0
	case "bin":
		return startsAmbiguous(e.A[0])
	case "idx", "sli", "sel", "call", "mcall":
		return startsAmbiguous(e.A[0])
	}
	return false
}

func (r *renderer) clause(c St, ind string, one bool) string {
	h := "default:"
	if len(c.E) > 0 {
		h = "case " + r.exprs(c.E) + ":"
	}
	body := c.B[0]
	if one {
		var p []string
		for _, s := range body {
			p = append(p, r.stmt(s, "", true))
		}
		if c.N == 1 {
			p = append(p, "fallthrough")
		}
		if len(p) == 0 {
			return h
		}
		return h + " " + strings.Join(p, "; ")
	}
	var b strings.Builder
	b.WriteString(h + "\n")
	for _, s := range body {
		b.WriteString(ind + "\t" + r.stmt(s, ind+"\t", false) + "\n")
	}
	if c.N == 1 {
		b.WriteString(ind + "\tfallthrough\n")
	}
	return b.String()
}

func (r *renderer) funcDecl(f FuncD) string {
	recv := ""
	if f.Rx != "" {
		recv = "(" + f.Rx + " " + f.Rt + ") "
	}
	return "func " + recv + f.Name + sigText(f.Sig) + " " + r.block(f.B, "", false) + "\n"
}

func (r *renderer) prelude(p Prog) string {
	var b strings.Builder
	if p.Prelude == "P" {
		b.WriteString("type P struct {\n\tX int\n\tS string\n}\n\n")
	}
	for _, f := range p.Funcs {
		b.WriteString(r.funcDecl(f) + "\n")
	}
	for _, d := range p.Globals {
		b.WriteString(r.stmt(d, "", false) + "\n\n")
	}
	return b.String()
}

func header(usesFmt, usesOS bool) string {
	h := "package main\n\n"
	switch {
	case usesFmt && usesOS:
		h += "import (\n\t\"fmt\"\n\t\"os\"\n)\n\n"
	case usesFmt:
		h += "import \"fmt\"\n\n"
	case usesOS:
		h += "import \"os\"\n\n"
	}
	return h
}

// RenderProgram renders one program as a complete main package.
func RenderProgram(p Prog, sg Sugar) string {
	r := &renderer{sg: sg}
	pre := r.prelude(p)
	if sg.NoPkg {
		var b strings.Builder
		for _, s := range p.Body {
			b.WriteString(r.stmt(s, "", false) + "\n")
		}
		body := b.String()
		h := ""
		switch {
		case r.usesFmt && r.usesOS:
			h = "import (\n\t\"fmt\"\n\t\"os\"\n)\n\n"
		case r.usesFmt:
			h = "import \"fmt\"\n\n"
		case r.usesOS:
			h = "import \"os\"\n\n"
		}
		return h + pre + body
	}
	body := "func main() " + r.block(p.Body, "", false) + "\n"
	return header(r.usesFmt, r.usesOS) + pre + body
}

// RenderBatch renders many programs (sharing one prelude) as one main package: case i is the
// function case_<id>, main prints "#<id>" before calling it, a panic leaving a case is recovered
// and printed as "#panic: <value>".
func RenderBatch(ps []Prog, ids []int, sg Sugar) string {
	r := &renderer{sg: sg}
	r.usesFmt = true
	pre := ""
	if len(ps) > 0 {
		pre = r.prelude(ps[0])
	}
	var b strings.Builder
	for i, p := range ps {
		fmt.Fprintf(&b, "func case_%d() {\n\tdefer func() {\n\t\tif e := recover(); e != nil {\n\t\t\tfmt.Println(\"#panic:\", e)\n\t\t}\n\t}()\n", ids[i])
		for _, s := range p.Body {
			b.WriteString("\t" + r.stmt(s, "\t", false) + "\n")
		}
		b.WriteString("}\n\n")
	}
	b.WriteString("func main() {\n")
	for _, id := range ids {
		fmt.Fprintf(&b, "\tfmt.Println(\"#%d\")\n\tcase_%d()\n", id, id)
	}
	b.WriteString("}\n")
	return header(true, r.usesOS) + pre + b.String()
}
