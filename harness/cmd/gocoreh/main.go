// gocoreh: conformance harness for the whole-program compiler properties
// C01 (Go subset keeps its meaning), C06 (success implies valid Go), C07 (no crash / hang),
// C08 (deterministic output).  Specs: specs/gocore/GoCore.tla, specs/gocore/Contract.tla.
package main

import (
	"fmt"
	"os"

	"verifharness/hlib"
)

func main() {
	if len(os.Args) < 2 {
		fmt.Fprintln(os.Stderr, "usage: gocoreh c01|c06|c07|c08|probe|... < cases.ndjson")
		os.Exit(3)
	}
	switch os.Args[1] {
	case "probe": // debugging aid: compile the files given as arguments as one package, print the Go output
		runProbe(os.Args[2:])
	case "render": // debugging aid: render every CASE record as Go source
		runRender(os.Args[2:])
	case "c01":
		runC01(os.Args[2:])
	case "c06":
		runC06(os.Args[2:])
	case "c07":
		runC07(os.Args[2:])
	case "c07-worker":
		runC07Worker(os.Args[2:])
	case "c07-corpus":
		runC07Corpus(os.Args[2:])
	case "c08":
		runC08(os.Args[2:])
	case "c08-worker":
		runC08Worker(os.Args[2:])
	default:
		fmt.Fprintln(os.Stderr, "unknown mode", os.Args[1])
		os.Exit(3)
	}
	hlib.Flush()
}
