package main

// Mutate (GoCore.tla Part IV): apply the (kind, idx) mutations TLC enumerated to the abstract
// syntax.  A site is found by the same pre-order walk the spec counts with: statement, then its
// expressions left to right (each pre-order), then its blocks in order.

import "encoding/json"

type Mut struct {
	Kind   string `json:"kind"`
	Idx    int    `json:"idx"`
	Nsites int    `json:"nsites"`
}

func cloneProg(p Prog) Prog {
	b, _ := json.Marshal(p)
	var q Prog
	json.Unmarshal(b, &q)
	return q
}

func siteS(s *St, kind string) bool {
	switch kind {
	case "chtype":
		return (s.K == "var" && (s.S == "int" || s.S == "string" || s.S == "bool")) ||
			(s.K == "decl" && len(s.E) == 1 && len(s.X) == 1 && (s.E[0].K == "int" || s.E[0].K == "str"))
	case "dropdecl", "dupdecl":
		return s.K == "decl" || s.K == "var" || s.K == "const" || (s.K == "func" && s.N == 0)
	case "unusedvar":
		return s.K != "case"
	case "asgmismatch":
		return s.K == "decl" || s.K == "asg"
	}
	return false
}

func siteE(e *Ex, kind string) bool {
	switch kind {
	case "swapargs":
		return (e.K == "plit" || e.K == "append" || e.K == "idx" || e.K == "copy") && len(e.A) >= 2
	case "undef":
		return e.K == "var" && e.S != "_"
	case "arity":
		switch e.K {
		case "call", "mcall", "len", "cap", "append", "copy", "delete":
			return true
		}
	}
	return false
}

type mutator struct {
	kind   string
	target int // 1-based site to mutate; 0: only count
	count  int
}

func (m *mutator) walkE(e *Ex) {
	if siteE(e, m.kind) {
		m.count++
		if m.count == m.target {
			switch m.kind {
			case "swapargs":
				e.A[0], e.A[1] = e.A[1], e.A[0]
			case "undef":
				e.S = "zz9"
			case "arity":
				e.A = append(e.A, Ex{K: "int", N: 1})
			}
			// children of a mutated node are still walked so that counts stay comparable
		}
	}
	for i := range e.A {
		m.walkE(&e.A[i])
	}
}

func (m *mutator) walkS(ss []St) []St {
	var out []St
	for i := range ss {
		s := ss[i]
		drop, dup, ins := false, false, false
		if siteS(&s, m.kind) {
			m.count++
			if m.count == m.target {
				switch m.kind {
				case "chtype":
					if s.K == "var" {
						if s.S == "int" || s.S == "bool" {
							s.S = "string"
						} else {
							s.S = "int"
						}
						if s.N == 1 { // var x T = e: keep e, the type no longer fits
						}
					} else if s.E[0].K == "int" {
						s.E = []Ex{{K: "str", C: []string{"q"}}}
					} else {
						s.E = []Ex{{K: "int", N: 1}}
					}
				case "dropdecl":
					drop = true
				case "dupdecl":
					dup = true
				case "unusedvar":
					ins = true
				case "asgmismatch":
					s.E = append(append([]Ex{}, s.E...), Ex{K: "int", N: 1})
				}
			}
		}
		for j := range s.E {
			m.walkE(&s.E[j])
		}
		for j := range s.B {
			s.B[j] = m.walkS(s.B[j])
		}
		if ins {
			out = append(out, St{K: "decl", X: []string{"zz1"}, E: []Ex{{K: "int", N: 1}}})
		}
		if !drop {
			out = append(out, s)
		}
		if dup {
			out = append(out, s)
		}
	}
	return out
}

// applyMuts returns the mutated program, whether `import "os"` is to be forced, and for each
// mutation the number of sites this walk found in the ORIGINAL program (binding with the spec).
func applyMuts(p Prog, muts []Mut) (Prog, bool, []int) {
	q := cloneProg(p)
	forceImport := false
	var counts []int
	for _, mu := range muts {
		if mu.Kind == "unusedimport" {
			counts = append(counts, 1)
			continue
		}
		c := &mutator{kind: mu.Kind}
		orig := cloneProg(p)
		c.walkS(orig.Body)
		counts = append(counts, c.count)
	}
	// apply the later site first so that an earlier mutation does not shift the later one
	for k := len(muts) - 1; k >= 0; k-- {
		mu := muts[k]
		if mu.Kind == "unusedimport" {
			forceImport = true
			continue
		}
		m := &mutator{kind: mu.Kind, target: mu.Idx}
		q.Body = m.walkS(q.Body)
	}
	return q, forceImport, counts
}
