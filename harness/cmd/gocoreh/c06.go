package main

// C06 -- compiler success implies valid, well-typed Go output.  Oracle S+D: the Go source XGo writes
// is handed to go/parser, go/types and `go build`.  Inputs: ProgGen programs rendered with XGo sugar,
// and Mutate's near-miss programs.  One outcome trace per package is recorded and validated by TLC
// against specs/gocore/Contract.tla.

import (
	"encoding/json"
	"fmt"
	"os"
	"os/exec"
	"path/filepath"
	"regexp"
	"sort"
	"strings"

	"verifharness/hlib"
	"verifharness/xgolib"
)

type c06Case struct {
	c01Case
	Muts  []Mut  `json:"muts"`
	Sugar string `json:"sugar"`
}

func sugarOf(name string) Sugar {
	switch name {
	case "echo":
		return Sugar{Echo: 1, ListLit: true, ForIn: true}
	case "script":
		return Sugar{Echo: 2, NoPkg: true, Lambda: true}
	case "full":
		return Sugar{Echo: 1, ListLit: true, ForIn: true, Lambda: true, Interp: true, NoPkg: true}
	}
	return Sugar{}
}

const sugarHelper = `func mayFail__(n int) (int, error) {
	if n < 0 {
		return 0, errors.New("neg")
	}
	return n, nil
}

`
const sugarTrailer = `v__ := mayFail__(1)!
w__ := mayFail__(-1)?:7
ys__ := [x__ * 2 for x__ <- [1, 2, 3] if x__ > 1]
echo v__, w__, ys__
`

// renderC06 renders one (possibly mutated) program as XGo source.
func renderC06(p Prog, sugar string, forceImport bool) string {
	sg := sugarOf(sugar)
	src := RenderProgram(p, sg)
	if sugar == "full" {
		// class-free script: helper function before the statements, errwrap / comprehension after them
		r := &renderer{sg: sg}
		pre := r.prelude(p)
		var b strings.Builder
		for _, s := range p.Body {
			b.WriteString(r.stmt(s, "", false) + "\n")
		}
		imports := []string{"errors"}
		if r.usesFmt {
			imports = append(imports, "fmt")
		}
		if r.usesOS || forceImport {
			imports = append(imports, "os")
		}
		sort.Strings(imports)
		h := "import (\n"
		for _, i := range imports {
			h += "\t\"" + i + "\"\n"
		}
		h += ")\n\n"
		return h + pre + sugarHelper + b.String() + sugarTrailer
	}
	if forceImport && !strings.Contains(src, "\"os\"") {
		switch {
		case strings.Contains(src, "import \"fmt\"\n"):
			src = strings.Replace(src, "import \"fmt\"\n", "import (\n\t\"fmt\"\n\t\"os\"\n)\n", 1)
		case sg.NoPkg:
			src = "import \"os\"\n\n" + src
		default:
			src = strings.Replace(src, "package main\n\n", "package main\n\nimport \"os\"\n\n", 1)
		}
	}
	return src
}

type traceEv struct {
	Ev  string `json:"ev"`
	R   string `json:"r"`
	Pos string `json:"pos"`
	Pkg int    `json:"pkg"`
	H   string `json:"h"`
}

var pkgHdr = regexp.MustCompile(`(?m)^# vcase/pkgs/p(\d+)`)

func runC06(args []string) {
	cases := hlib.ReadAllCases[c06Case]()
	scratch := os.Getenv("VERIF_SCRATCH_DIR")
	if scratch == "" {
		scratch, _ = os.MkdirTemp(os.Getenv("HOME")+"/.verif-scratch", "c06-")
		defer os.RemoveAll(scratch)
	}
	runner, err := xgolib.NewRunner(filepath.Join(scratch, "c06mod"))
	if err != nil {
		fmt.Fprintln(os.Stderr, "runner:", err)
		os.Exit(3)
	}
	os.Chdir(runner.Dir)
	maxBuild := envInt("VERIF_C06_BUILDS", 150)
	gc := newGoChecker()
	n := len(cases)
	results := make([]hlib.Result, n)
	traces := make([][]traceEv, n)
	goSrc := make([]string, n)
	var okIdx []int
	nCompiled, nMutOK := 0, 0
	for i := range cases {
		c := &cases[i]
		prog, forceImp, counts := applyMuts(c.Prog, c.Muts)
		src := renderC06(prog, c.Sugar, forceImp)
		var mk []string
		for _, m := range c.Muts {
			mk = append(mk, m.Kind)
		}
		nt := c.Fam + ":" + c.Sugar + ":" + strings.Join(mk, "+") + ":" + kindSet(prog.Body)
		results[i] = hlib.Result{Idx: i, V: "ok", NT: nt, Input: map[string]any{"fam": c.Fam, "sugar": c.Sugar, "muts": c.Muts, "src": src}}
		for k, m := range c.Muts {
			if counts[k] != m.Nsites {
				results[i].V, results[i].Sig = "drift", "mutation-sites:"+m.Kind
				results[i].Detail = fmt.Sprintf("the spec counts %d sites of kind %s, the harness walk finds %d", m.Nsites, m.Kind, counts[k])
			}
		}
		tr := []traceEv{{Ev: "reset", Pkg: i}}
		out := xgolib.Compile(map[string]string{"main.xgo": src}, xgolib.Options{NoFileLine: true})
		if out.Err != nil || out.Panic != nil {
			tr = append(tr, traceEv{Ev: "compile", R: "err", Pkg: i})
			traces[i] = tr
			if results[i].V == "ok" {
				results[i].Detail = "compile error: " + trunc(fmt.Sprint(out.Err, out.Panic), 160)
			}
			continue
		}
		nCompiled++
		if len(c.Muts) > 0 {
			nMutOK++
		}
		tr = append(tr, traceEv{Ev: "compile", R: "ok", Pkg: i})
		v := gc.verdict("xgo_autogen.go", out.Go)
		fail := func(stage, class, msg string) {
			results[i].V, results[i].Sig = "viol", "go-reject:"+class
			results[i].Detail = fmt.Sprintf("XGo reports success; %s rejects the Go it wrote: %s\n--- xgo source ---\n%s--- go output ---\n%s", stage, msg, src, out.Go)
		}
		switch v.Stage {
		case "parse":
			tr = append(tr, traceEv{Ev: "goparse", R: "err", Pkg: i})
			fail("go/parser", "Syntax", v.Msg)
		case "types":
			tr = append(tr, traceEv{Ev: "goparse", R: "ok", Pkg: i}, traceEv{Ev: "gotypes", R: "err", Pkg: i})
			fail("go/types", v.Class, v.Msg)
		default:
			tr = append(tr, traceEv{Ev: "goparse", R: "ok", Pkg: i}, traceEv{Ev: "gotypes", R: "ok", Pkg: i})
			goSrc[i] = out.Go
			okIdx = append(okIdx, i)
			if results[i].V == "ok" {
				results[i].Detail = "compiles; go/parser and go/types accept the output"
			}
		}
		traces[i] = tr
	}
	// ---- go build: packages as sub-directories of one scratch module (seeded sample beyond maxBuild)
	build := okIdx
	if len(build) > maxBuild {
		seed := int(hlib.Seed())
		sort.Slice(build, func(a, b int) bool {
			ha, hb := (build[a]*2654435761+seed*40503)%1000003, (build[b]*2654435761+seed*40503)%1000003
			return ha < hb
		})
		build = append([]int{}, build[:maxBuild]...)
		sort.Ints(build)
	}
	for _, i := range build {
		d := filepath.Join(runner.Dir, "pkgs", fmt.Sprintf("p%d", i))
		os.MkdirAll(d, 0755)
		os.WriteFile(filepath.Join(d, "xgo_autogen.go"), []byte(goSrc[i]), 0644)
	}
	nBuildFail := 0
	if len(build) > 0 {
		cmd := exec.Command("go", "build", "./pkgs/...")
		cmd.Dir = runner.Dir
		cmd.Env = append(os.Environ(), "GOFLAGS=-mod=mod", "GOPROXY=off", "GOSUMDB=off", "GOTOOLCHAIN=local")
		outb, berr := cmd.CombinedOutput()
		failed := map[int]string{}
		if berr != nil {
			text := string(outb)
			locs := pkgHdr.FindAllStringSubmatchIndex(text, -1)
			for k, l := range locs {
				var id int
				fmt.Sscan(text[l[2]:l[3]], &id)
				end := len(text)
				if k+1 < len(locs) {
					end = locs[k+1][0]
				}
				failed[id] = text[l[0]:end]
			}
			if len(failed) == 0 {
				fmt.Fprintln(os.Stderr, "go build failed without naming a package:\n"+trunc(text, 2000))
				os.Exit(4)
			}
		}
		for _, i := range build {
			if msg, bad := failed[i]; bad {
				nBuildFail++
				traces[i] = append(traces[i], traceEv{Ev: "gobuild", R: "err", Pkg: i})
				results[i].V, results[i].Sig = "viol", "go-reject-build:"+classifyGoErr(msg)
				results[i].Detail = "XGo reports success, go/types accepts, `go build` rejects: " + trunc(msg, 600) + "\n" + goSrc[i]
			} else {
				traces[i] = append(traces[i], traceEv{Ev: "gobuild", R: "ok", Pkg: i})
				if results[i].V == "ok" {
					results[i].Detail = "compiles; go/parser, go/types and go build accept the output"
				}
			}
		}
	}
	// ---- outcome traces for TLC (Contract.tla)
	tf, err := os.Create(filepath.Join(scratch, "trace.ndjson"))
	if err != nil {
		fmt.Fprintln(os.Stderr, err)
		os.Exit(3)
	}
	enc := json.NewEncoder(tf)
	corrupt := os.Getenv("VERIF_CORRUPT_TRACE") != "" // binding demonstration: flip one recorded outcome
	for i := range traces {
		for k, e := range traces[i] {
			if corrupt && i == len(traces)/2 && k == len(traces[i])-1 && e.R == "ok" {
				e.R = "err"
			}
			enc.Encode(e)
		}
	}
	tf.Close()
	bad := []int{}
	for i := range results {
		if results[i].V == "viol" {
			bad = append(bad, i+1) // trace numbers are 1-based (nt counts resets)
		}
		hlib.Emit(results[i])
	}
	rb, _ := json.Marshal(bad)
	os.WriteFile(filepath.Join(scratch, "rejected.json"), rb, 0644)
	hlib.EmitRaw(map[string]any{"v": "summary", "compiled_ok": nCompiled, "mutants_compiled_ok": nMutOK,
		"go_built": len(build), "go_build_failures": nBuildFail, "harness_rejected_traces": len(bad)})
}
