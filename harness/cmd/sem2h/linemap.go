package main

func runLineMap() {}
