package main

import (
	"debug/dwarf"
	"debug/elf"
	"fmt"
	"os"
	"path/filepath"
	"sort"
	"strings"
	"time"

	"github.com/goplus/xgo/parser"

	"verifharness/hlib"
	"verifharness/xgolib"
)

// C09 -- line directives.  A case of specs/sem2/LineMap.tla is one source file:
//
//	text   line descriptors (k, id, ref); descriptor j renders to source line j
//	ents   per probe id: kind, line (= what the property demands: first line of the statement),
//	       code (= line predicted by the model of today's code), dev (named deviation), ctx
//	funcs  per function item: kind, decl (line of `func`), ndoc
type lmLine struct {
	K   string `json:"k"`
	ID  int    `json:"id"`
	Ref int    `json:"ref"`
}
type lmEnt struct {
	Opt  bool   `json:"opt"` // the probe may legitimately not be reached
	Kind string `json:"kind"`
	Line int    `json:"line"`
	Code int    `json:"code"`
	Dev  string `json:"dev"`
	Ctx  string `json:"ctx"`
}
type lmFunc struct {
	Kind string `json:"kind"`
	Decl int    `json:"decl"`
	NDoc int    `json:"ndoc"`
}
type lmCase struct {
	FKind string   `json:"fkind"` // "xgo" (default) | "gox": the file is a normal class file Case<idx>.gox
	// cl.Config.RelativeBase vs the directory of the file: same | unset | sibling | unrelated;
	// Dir = directory part every //line directive must carry (model: filepath.Rel on components)
	RelBase string `json:"relbase"`
	Dir     struct {
		Abs   bool     `json:"abs"`
		Comps []string `json:"comps"`
	} `json:"dir"`
	FileDir []string `json:"filedir"`
	BaseDir []string `json:"basedir"`
	Text  []lmLine `json:"text"`
	Ents  []lmEnt  `json:"ents"`
	Funcs []lmFunc `json:"funcs"`
}

const lmIDBase = 1000 // global probe id = idx*lmIDBase + id

const lmProbe = `import "runtime"

func where(id int, more ...int) int {
	_, file, line, _ := runtime.Caller(1)
	echo "@", id, file, line
	return 1
}

func sink(x ...int) {
}

func apply(f func(int) int) int {
	return f(0)
}
`

func (c *lmCase) fileName(idx int) string {
	if c.FKind == "gox" {
		return fmt.Sprintf("Case%d.gox", idx)
	}
	return fmt.Sprintf("case%d.xgo", idx)
}

func (c *lmCase) render(idx int) string {
	var sb strings.Builder
	gid := func(id int) int { return idx*lmIDBase + id }
	for _, l := range c.Text {
		var t string
		switch l.K {
		case "typedecl":
			t = fmt.Sprintf("type T%d struct{}", idx)
			if c.FKind == "gox" {
				t = "var n int" // the class's var block
			}
		case "blank":
			t = ""
		case "comment":
			t = "// c"
		case "funchdr":
			t = fmt.Sprintf("func f%d_%d() {", idx, l.Ref)
		case "methhdr":
			t = fmt.Sprintf("func (t *T%d) m%d() {", idx, l.Ref)
		case "casehdr":
			t = fmt.Sprintf("func case%d() {", idx)
		case "close":
			t = "}"
		case "call":
			t = fmt.Sprintf("\twhere(%d)", gid(l.ID))
		case "cmd":
			t = fmt.Sprintf("\twhere %d", gid(l.ID))
		case "assign":
			t = fmt.Sprintf("\tv%d := where(%d)", l.ID, gid(l.ID))
		case "use":
			t = fmt.Sprintf("\tsink(v%d)", l.Ref)
		case "mcall1":
			t = fmt.Sprintf("\twhere(%d,", gid(l.ID))
		case "arg0":
			t = "\t\t0,"
		case "rparen":
			t = "\t)"
		case "sinkopen":
			t = "\tsink("
		case "argwhere":
			t = fmt.Sprintf("\t\twhere(%d),", gid(l.ID))
		case "ifhdr":
			t = fmt.Sprintf("\tif where(%d) > 0 {", gid(l.ID))
		case "forhdr":
			t = fmt.Sprintf("\tfor i := 0; i < where(%d); i++ {", gid(l.ID))
		case "swhdr":
			t = fmt.Sprintf("\tswitch where(%d) {", gid(l.ID))
		case "case1":
			t = "\tcase 1:"
		case "defer":
			t = fmt.Sprintf("\tdefer sink(where(%d))", gid(l.ID))
		case "var":
			t = fmt.Sprintf("\tvar v%d = where(%d)", l.ID, gid(l.ID))
		case "lamexpr":
			t = fmt.Sprintf("\tsink(apply(x => where(%d) + x))", gid(l.ID))
		case "lamhdr":
			t = "\tsink(apply(x => {"
		case "ret":
			t = fmt.Sprintf("\t\treturn where(%d) + x", gid(l.ID))
		case "lamend":
			t = "\t}))"
		case "flithdr":
			t = fmt.Sprintf("\tg%d := func() {", l.Ref)
		case "callg":
			t = fmt.Sprintf("\tg%d()", l.Ref)
		case "fwd":
			t = fmt.Sprintf("\tsink(later%d_%d(where(%d)))", idx, l.Ref, gid(l.ID))
		case "callfn":
			t = fmt.Sprintf("\tf%d_%d()", idx, l.Ref)
		case "callmeth":
			t = fmt.Sprintf("\t(&T%d{}).m%d()", idx, l.Ref)
		case "casew":
			t = fmt.Sprintf("\tcase where(%d):", gid(l.ID))
		case "swbarehdr":
			t = "\tswitch {"
		case "casegt":
			t = fmt.Sprintf("\tcase where(%d) > 0:", gid(l.ID))
		case "casegt1":
			t = fmt.Sprintf("\tcase where(%d) > 1:", gid(l.ID))
		case "mkchan":
			t = fmt.Sprintf("\tch%d := make(chan int, 1)", l.Ref)
		case "selhdr":
			t = "\tselect {"
		case "selcase":
			t = fmt.Sprintf("\tcase ch%d <- where(%d):", l.Ref, gid(l.ID))
		case "laterhdr":
			t = fmt.Sprintf("func later%d_%d(x int) int {", idx, l.Ref)
		case "retx":
			t = "\treturn x"
		default:
			fmt.Fprintf(errOut, "unknown line descriptor %q\n", l.K)
			exitCode = 3
		}
		sb.WriteString(t)
		sb.WriteString("\n")
	}
	return sb.String()
}

var lmSpec = batchSpec{
	Compose: func(b []*unit) map[string]string {
		files := map[string]string{"aprobe.xgo": lmProbe}
		var sb strings.Builder
		for _, u := range b {
			for k, v := range u.Extra {
				files[k] = v
			}
			if u.Decls == "gox" {
				fmt.Fprintf(&sb, "(&Case%d{}).case%d()\n", u.Idx, u.Idx)
			} else {
				fmt.Fprintf(&sb, "case%d()\n", u.Idx)
			}
		}
		files["main.xgo"] = sb.String()
		return files
	},
	// the Go tool chain resolves a relative //line file name against the directory of the Go file
	// (and trims that directory again if the result lies below it); undo both: every reported name is
	// made absolute against the package directory, then re-expressed relative to it
	ParseAt: func(stdout, pkgDir string) map[int][]string {
		m := map[int][]string{}
		for _, l := range strings.Split(stdout, "\n") {
			var id, line int
			var file string
			if n, _ := fmt.Sscanf(l, "@ %d %s %d", &id, &file, &line); n == 3 {
				idx := id / lmIDBase
				if !filepath.IsAbs(file) {
					file = filepath.Join(pkgDir, file)
				}
				file = filepath.Clean(file)
				if strings.HasPrefix(file, getRunner().Dir+string(filepath.Separator)) {
					file = lmRelTo(pkgDir, file) // came from a relative directive
				}
				m[idx] = append(m[idx], fmt.Sprintf("%d %s %d", id%lmIDBase, file, line))
			}
		}
		return m
	},
	Post: func(bin string, b []*unit, res map[int]*batchOutcome) {
		lines, err := dwarfFuncLines(bin)
		if err != nil {
			fmt.Fprintln(errOut, "dwarf:", err)
			exitCode = 3
			return
		}
		for _, o := range res {
			o.FuncLine = lines // shared map, read-only
		}
	},
	FailOnExit: true,
}

// dwarfFuncLines returns DW_AT_decl_line of every subprogram of package main, by name.
func dwarfFuncLines(bin string) (map[string]int, error) {
	f, err := elf.Open(bin)
	if err != nil {
		return nil, err
	}
	defer f.Close()
	d, err := f.DWARF()
	if err != nil {
		return nil, err
	}
	out := map[string]int{}
	r := d.Reader()
	for {
		e, err := r.Next()
		if err != nil {
			return nil, err
		}
		if e == nil {
			break
		}
		if e.Tag != dwarf.TagSubprogram {
			continue
		}
		name, _ := e.Val(dwarf.AttrName).(string)
		line, ok := e.Val(dwarf.AttrDeclLine).(int64)
		if ok && strings.HasPrefix(name, "main.") {
			if _, dup := out[name]; !dup {
				out[name] = int(line)
			}
		}
	}
	return out, nil
}

// lmRelTo expresses an absolute path the way a //line file name relative to pkgDir would be written
// (absolute paths outside any relation stay absolute only if Rel fails).
func lmRelTo(pkgDir, abs string) string {
	if r, err := filepath.Rel(pkgDir, abs); err == nil {
		return filepath.ToSlash(r)
	}
	return abs
}

// expFile is the file name the model demands in every directive of the case, normalised like the
// observations (absolute as is; relative names relative to the Go package directory).
func (c *lmCase) expFile(idx int) string {
	name := c.fileName(idx)
	if c.RelBase == "" || c.RelBase == "same" {
		return name
	}
	if c.Dir.Abs {
		return "/" + strings.Join(append(append([]string{}, c.Dir.Comps...), name), "/")
	}
	return filepath.ToSlash(filepath.Join(append(append([]string{}, c.Dir.Comps...), name)...))
}

func runLineMap() {
	mode := "comments"
	if len(os.Args) > 2 {
		mode = os.Args[2]
	}
	cases := hlib.ReadAllCases[lmCase]()
	units := make([]*unit, len(cases))
	for i := range cases {
		units[i] = &unit{Idx: i, Extra: map[string]string{cases[i].fileName(i): cases[i].render(i)}}
		if cases[i].FKind == "gox" {
			units[i].Decls = "gox"
		}
	}
	opt := xgolib.Options{} // file-line output ON
	if mode == "comments" {
		opt.ParseMode = parser.ParseComments // what tool/load.go uses
	}
	// one group of batch programs per RelativeBase configuration (a package has one base)
	groups := map[string][]*unit{}
	specOf := map[string]batchSpec{}
	for i, u := range units {
		c := &cases[i]
		rb := c.RelBase
		if rb == "" {
			rb = "same"
		}
		if _, ok := specOf[rb]; !ok {
			sp := lmSpec
			if rb != "same" || len(c.FileDir) > 0 {
				dir := "/mem"
				if len(c.FileDir) > 0 {
					dir = "/" + strings.Join(c.FileDir, "/")
				}
				base := dir
				switch rb {
				case "unset":
					base = ""
				case "sibling", "unrelated":
					base = "/" + strings.Join(c.BaseDir, "/")
				}
				pm := opt.ParseMode
				sp.CompileFn = func(files map[string]string) xgolib.Outcome { return compileAt(files, dir, base, pm, false) }
			}
			specOf[rb] = sp
		}
		groups[rb] = append(groups[rb], u)
	}
	outs := map[int]*batchOutcome{}
	for _, rb := range []string{"same", "unset", "sibling", "unrelated"} {
		us := groups[rb]
		if len(us) == 0 {
			continue
		}
		t0 := time.Now()
		soloCompileSpec(us, opt, specOf[rb])
		var ok []*unit
		for _, u := range us {
			if u.SoloErr == "" {
				ok = append(ok, u)
			}
		}
		t1 := time.Now()
		for k, v := range runBatchesSpec(ok, 100, opt, 8, specOf[rb]) {
			outs[k] = v
		}
		fmt.Fprintf(errOut, "linemap[%s]: %d units compiled alone in %.1fs, batches run in %.1fs\n", rb, len(us), t1.Sub(t0).Seconds(), time.Since(t1).Seconds())
	}
	for i := range cases {
		c := &cases[i]
		u := units[i]
		src := u.Extra[c.fileName(i)]
		var kinds []string
		for _, e := range c.Ents {
			kinds = append(kinds, e.Kind+"@"+e.Ctx)
		}
		gaps := ""
		for _, l := range c.Text {
			switch l.K {
			case "blank":
				gaps += "b"
			case "comment":
				gaps += "c"
			default:
				if !strings.HasSuffix(gaps, "|") {
					gaps += "|"
				}
			}
		}
		res := hlib.Result{Idx: i, V: "ok", Input: map[string]any{"file": src, "mode": mode, "name": c.fileName(i)},
			NT: c.FKind + ":" + c.RelBase + ":" + strings.Join(kinds, ",") + "/" + gaps}
		file := c.expFile(i)
		o := outs[i]
		switch {
		case u.SoloErr != "":
			res.V, res.Sig = "viol", "compile-fail:"+strings.Join(kinds, ",")
			res.Detail = "layout does not compile: " + u.SoloErr + "\n" + src
		case o == nil || o.XgoErr != "":
			fmt.Fprintf(errOut, "case %d compiled alone but not in a batch: %+v\n", i, o)
			exitCode = 3
			continue
		case o.BuildErr != "":
			res.V, res.Sig = "viol", "gobuild-fail:"+strings.Join(kinds, ",")
			res.Detail = fmt.Sprintf("generated Go does not build/run: %.600s\n%s", o.BuildErr, src)
		default:
			obs := map[int]map[string]bool{}
			for _, l := range o.Lines {
				var id, line int
				var f string
				fmt.Sscanf(l, "%d %s %d", &id, &f, &line)
				if obs[id] == nil {
					obs[id] = map[string]bool{}
				}
				obs[id][fmt.Sprintf("%s:%d", f, line)] = true
			}
			// rank: unmodelled > named deviation ; drift when the code no longer deviates
			rank := 0
			set := func(r int, v, sig, detail string) {
				if r > rank {
					rank, res.V, res.Sig, res.Detail = r, v, sig, detail
				}
			}
			var seen []string
			for id1, e := range c.Ents {
				id := id1 + 1
				want := fmt.Sprintf("%s:%d", file, e.Line)
				code := fmt.Sprintf("%s:%d", file, e.Code)
				got := sortedKeys(obs[id])
				seen = append(seen, fmt.Sprintf("%d@%s", id, strings.Join(got, "|")))
				if len(got) == 0 && e.Opt {
					continue // body of a clause the driver does not take
				}
				if len(got) == 0 {
					set(10, "viol", "probe-not-reached:"+e.Kind, fmt.Sprintf("probe %d (%s) printed nothing\n%s", id, e.Kind, src))
					continue
				}
				allWant, allCode := true, true
				for _, g := range got {
					allWant = allWant && g == want
					allCode = allCode && g == code
				}
				switch {
				case allWant && e.Dev != "none":
					set(1, "drift", "no-longer-deviates:"+e.Dev, fmt.Sprintf("probe %d (%s): code reports %v = the property's line; the model of the code expected %s", id, e.Kind, got, code))
				case allWant:
				case allCode && e.Dev != "none":
					set(6, "viol", "stmt-line:"+e.Dev,
						fmt.Sprintf("probe %d (%s in %s): runtime.Caller reports %v, the statement is written at %s (named deviation %s)\n%s", id, e.Kind, e.Ctx, got, want, e.Dev, numbered(src)))
				default:
					rel := "other"
					if len(got) == 1 {
						var f string
						var ln int
						fmt.Sscanf(strings.Replace(got[0], ":", " ", 1), "%s %d", &f, &ln)
						switch {
						case f != file:
							rel = "wrong-file"
						case ln < e.Line:
							rel = "earlier"
						case ln > e.Line:
							rel = "later"
						}
					}
					if rel == "wrong-file" {
						rb := c.RelBase
						if rb == "" {
							rb = "same"
						}
						set(8, "viol", "file-name:relbase="+rb, fmt.Sprintf("probe %d (%s in %s): runtime.Caller reports %v; the file is %s (source directory /%s, RelativeBase %q)\n%s",
							id, e.Kind, e.Ctx, got, want, strings.Join(c.FileDir, "/"), "/"+strings.Join(c.BaseDir, "/"), numbered(src)))
						continue
					}
					set(8, "viol", fmt.Sprintf("stmt-line:%s:%s:%s", e.Kind, e.Ctx, rel),
						fmt.Sprintf("probe %d (%s in %s): runtime.Caller reports %v, the statement is written at %s\n%s", id, e.Kind, e.Ctx, got, want, numbered(src)))
				}
			}
			for n1, f := range c.Funcs {
				name := fmt.Sprintf("main.f%d_%d", i, n1+1)
				if f.Kind == "method" {
					name = fmt.Sprintf("main.(*T%d).m%d", i, n1+1)
				} else if c.FKind == "gox" {
					name = fmt.Sprintf("main.(*Case%d).f%d_%d", i, i, n1+1)
				}
				got, found := o.FuncLine[name]
				doc := "nodoc"
				if f.NDoc > 0 {
					doc = "doc"
				}
				seen = append(seen, fmt.Sprintf("%s@%d", name, got))
				if !found {
					set(2, "drift", "func-not-in-dwarf", name+" has no DWARF subprogram entry")
				} else if got != f.Decl {
					set(9, "viol", fmt.Sprintf("func-line:%s:%s", f.Kind, doc),
						fmt.Sprintf("%s: declaration line in the debug info is %d, the function is written at %s:%d\n%s", name, got, file, f.Decl, numbered(src)))
				}
			}
			if res.V == "ok" {
				sort.Strings(seen)
				res.Detail = strings.Join(seen, " ")
			}
		}
		hlib.Emit(res)
	}
	emitSummary()
}

func numbered(src string) string {
	var sb strings.Builder
	for i, l := range strings.Split(strings.TrimRight(src, "\n"), "\n") {
		fmt.Fprintf(&sb, "%3d| %s\n", i+1, l)
	}
	return sb.String()
}
