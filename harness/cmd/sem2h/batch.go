package main

import (
	"fmt"
	"os"
	"path/filepath"
	"sort"
	"strings"
	"sync"
	"time"

	"verifharness/hlib"
	"verifharness/xgolib"
)

// A unit is one model case rendered as XGo text: top-level declarations (names made unique by the
// case index) plus one entry function `case<idx>` which prints `#<idx>` first and recovers its
// own panic.  Units are compiled alone first (a compile failure is an outcome of that unit), then
// batched into programs that are built and run in parallel.
type unit struct {
	Idx     int
	Decls   string            // top-level declarations in main.xgo
	Extra   map[string]string // additional files of the package (class files), names unique per unit
	Excl    string            // units with the same non-empty Excl key never share a batch
	GoSolo  string            // generated Go of the solo compilation
	SoloErr string            // non-empty: solo compilation failed (error / panic text)
}

// soloCompile compiles every unit alone, in-process.
func soloCompile(units []*unit, opt xgolib.Options) { soloCompileSpec(units, opt, defaultSpec) }

func soloCompileSpec(units []*unit, opt xgolib.Options, spec batchSpec) {
	for _, u := range units {
		out := spec.compile(spec.Compose([]*unit{u}), opt)
		switch {
		case out.Panic != nil:
			u.SoloErr = fmt.Sprintf("panic(%s): %v", out.Stage, out.Panic)
		case out.Err != nil:
			u.SoloErr = fmt.Sprintf("error(%s): %v", out.Stage, out.Err)
		default:
			u.GoSolo = out.Go
		}
	}
}

// batchOutcome is what running a unit inside a batch program produced.
type batchOutcome struct {
	Lines    []string // output lines after the `#<idx>` marker
	Ran      bool
	BuildErr string // go build failed on a batch that could not be bisected further (single unit)
	XgoErr   string // XGo failed on the unit inside a batch though it passed alone (never expected)
	FuncLine map[string]int // linemap: DWARF decl_line of the unit's functions, by Go name
}

var (
	runnerOnce sync.Once
	runner     *xgolib.Runner
	nPrograms  int
	progMu     sync.Mutex
)

func scratchDir() string {
	sd := os.Getenv("VERIF_SCRATCH_DIR")
	if sd == "" {
		sd = filepath.Join(os.Getenv("HOME"), ".verif-scratch", fmt.Sprintf("sem2h-%d", os.Getpid()))
		os.MkdirAll(sd, 0755)
	}
	return sd
}

func getRunner() *xgolib.Runner {
	runnerOnce.Do(func() {
		r, err := xgolib.NewRunner(filepath.Join(scratchDir(), "runmod"))
		if err != nil {
			fmt.Fprintln(os.Stderr, "cannot create runner:", err)
			os.Exit(3)
		}
		runner = r
	})
	return runner
}

// planBatches distributes units over batches of about `size` units so that units with the same
// non-empty Excl key never meet.
func planBatches(units []*unit, size int) [][]*unit {
	if len(units) == 0 {
		return nil
	}
	nb := (len(units) + size - 1) / size
	excl := map[string]int{}
	for _, u := range units {
		if u.Excl != "" {
			excl[u.Excl]++
		}
	}
	for _, n := range excl {
		if n > nb {
			nb = n
		}
	}
	batches := make([][]*unit, nb)
	next := map[string]int{}
	free := 0
	for _, u := range units {
		if u.Excl != "" {
			b := next[u.Excl]
			next[u.Excl]++
			batches[b] = append(batches[b], u)
		}
	}
	for _, u := range units {
		if u.Excl == "" {
			// fill the currently smallest batch among the round-robin position
			batches[free%nb] = append(batches[free%nb], u)
			free++
		}
	}
	var out [][]*unit
	for _, b := range batches {
		if len(b) > 0 {
			out = append(out, b)
		}
	}
	return out
}

// batchSpec says how a batch of units becomes one program and how its output maps back to units.
type batchSpec struct {
	Compose    func(b []*unit) map[string]string   // XGo files of the batch program
	Parse      func(stdout string) map[int][]string // unit index -> its output lines
	Post       func(bin string, b []*unit, res map[int]*batchOutcome) // optional: inspect the built binary
	FailOnExit bool // a non-zero exit status of the program is bisected like a build failure
	PlainGo    bool // Compose returns {"main.go": Go source}: no XGo compilation, the Go tool chain only
	CompileFn  func(files map[string]string) xgolib.Outcome // optional: replaces xgolib.Compile(files, opt)
	ParseAt    func(stdout, pkgDir string) map[int][]string // optional: Parse that knows the Go package's directory
}

func (s batchSpec) compile(files map[string]string, opt xgolib.Options) xgolib.Outcome {
	if s.CompileFn != nil {
		return s.CompileFn(files)
	}
	return xgolib.Compile(files, opt)
}

// defaultSpec: declarations concatenated into main.xgo, `case<idx>` calls as top-level statements,
// output cut at the `#<idx>` markers.
var defaultSpec = batchSpec{
	Compose: func(b []*unit) map[string]string {
		var sb strings.Builder
		files := map[string]string{}
		for _, u := range b {
			sb.WriteString(u.Decls)
			sb.WriteString("\n")
			for k, v := range u.Extra {
				files[k] = v
			}
		}
		for _, u := range b {
			fmt.Fprintf(&sb, "case%d\n", u.Idx)
		}
		files["main.xgo"] = sb.String()
		return files
	},
	Parse: splitOutput,
}

// runBatches builds and runs all units; results are keyed by unit index.
func runBatches(units []*unit, size int, opt xgolib.Options, workers int) map[int]*batchOutcome {
	return runBatchesSpec(units, size, opt, workers, defaultSpec)
}

func runBatchesSpec(units []*unit, size int, opt xgolib.Options, workers int, spec batchSpec) map[int]*batchOutcome {
	res := map[int]*batchOutcome{}
	var mu sync.Mutex
	batches := planBatches(units, size)
	var seq int
	var run func(b []*unit)
	run = func(b []*unit) {
		if len(b) == 0 {
			return
		}
		mu.Lock()
		seq++
		name := fmt.Sprintf("b%d", seq)
		mu.Unlock()
		files := spec.Compose(b)
		var out xgolib.Outcome
		if spec.PlainGo {
			out.Go = files["main.go"]
		} else {
			out = spec.compile(files, opt)
		}
		fail := ""
		kind := ""
		var rr xgolib.RunResult
		binPath := ""
		defer func() {
			if binPath != "" {
				os.Remove(binPath)
			}
		}()
		if out.Err != nil || out.Panic != nil {
			fail, kind = fmt.Sprintf("%v %v", out.Err, out.Panic), "xgo"
		} else {
			progMu.Lock()
			nPrograms++
			progMu.Unlock()
			bin, berr := getRunner().Build(name, map[string]string{"main.go": out.Go})
			if berr != "" {
				fail, kind = berr, "gobuild"
			} else {
				binPath = bin
				rr = xgolib.Exec(bin, 600*time.Second)
				if rr.TimedOut {
					fail, kind = "timeout", "timeout"
				} else if spec.FailOnExit && rr.Exit != 0 {
					fail, kind = fmt.Sprintf("exit %d: %.400s", rr.Exit, rr.Stderr), "exit"
				}
			}
		}
		if fail != "" {
			if len(b) == 1 {
				o := &batchOutcome{}
				if kind == "xgo" {
					o.XgoErr = fail
				} else if kind == "timeout" {
					// never a verdict: the engine turns a non-zero harness exit into "inconclusive"
					fmt.Fprintf(os.Stderr, "unit %d: program timed out\n", b[0].Idx)
					o.XgoErr = "timeout"
					exitCode = 3
				} else {
					o.BuildErr = kind + ": " + fail
				}
				mu.Lock()
				res[b[0].Idx] = o
				mu.Unlock()
				return
			}
			h := len(b) / 2
			run(b[:h])
			run(b[h:])
			return
		}
		var parsed map[int][]string
		if spec.ParseAt != nil {
			parsed = spec.ParseAt(rr.Stdout, filepath.Join(getRunner().Dir, "cmd", name))
		} else {
			parsed = spec.Parse(rr.Stdout)
		}
		local := map[int]*batchOutcome{}
		for _, u := range b {
			o := &batchOutcome{}
			if l, ok := parsed[u.Idx]; ok {
				o.Ran, o.Lines = true, l
			}
			local[u.Idx] = o
		}
		if spec.Post != nil {
			spec.Post(binPath, b, local)
		}
		mu.Lock()
		for k, v := range local {
			res[k] = v
		}
		mu.Unlock()
	}
	hlib.Parallel(len(batches), workers, func(i int) { run(batches[i]) })
	return res
}

// splitOutput cuts a batch program's stdout at the `#<idx>` markers.
func splitOutput(s string) map[int][]string {
	m := map[int][]string{}
	cur := -1
	for _, l := range strings.Split(s, "\n") {
		if strings.HasPrefix(l, "#") {
			var n int
			if _, err := fmt.Sscanf(l, "#%d", &n); err == nil {
				cur = n
				m[cur] = []string{}
				continue
			}
		}
		if cur >= 0 && l != "" {
			m[cur] = append(m[cur], l)
		}
	}
	return m
}

func sortedKeys(m map[string]bool) []string {
	var r []string
	for k := range m {
		r = append(r, k)
	}
	sort.Strings(r)
	return r
}

func emitSummary() {
	progMu.Lock()
	n := nPrograms
	progMu.Unlock()
	hlib.EmitRaw(map[string]any{"v": "summary", "programs_built": n})
}
