package main

import (
	"bytes"
	"errors"
	"sort"
	"sync"
	"time"

	"github.com/goplus/gogen/packages"
	"github.com/goplus/xgo/ast"
	"github.com/goplus/xgo/cl"
	"github.com/goplus/xgo/parser"
	"github.com/goplus/xgo/token"
	"github.com/goplus/xgo/x/build"

	"verifharness/xgolib"
)

// compileAt is xgolib.Compile with two more degrees of freedom that C09 needs: the directory the
// source files live in (xgolib fixes it to /mem) and cl.Config.RelativeBase ("" = unset).  It uses
// xgolib's MemFS and returns xgolib's Outcome; like xgolib.Compile it never panics.
var (
	atMu   sync.Mutex
	atFset = token.NewFileSet()
	atImp  = packages.NewImporter(atFset)
)

func compileAt(files map[string]string, dir, relBase string, mode parser.Mode, noFileLine bool) (out xgolib.Outcome) {
	atMu.Lock()
	defer atMu.Unlock()
	t0 := time.Now()
	fset := token.NewFileSet()
	out.Fset = fset
	out.Stage = "parse"
	defer func() {
		out.Elapsed = time.Since(t0)
		if r := recover(); r != nil {
			out.Panic = r
		}
	}()
	mfs := &xgolib.MemFS{Dir: dir, Files: files}
	pkgs, err := parser.ParseFSDir(fset, mfs, dir, parser.Config{ClassKind: build.ClassKind, Mode: mode})
	if err != nil {
		out.Err = err
		return
	}
	var mainPkg *ast.Package
	if p, ok := pkgs["main"]; ok {
		mainPkg = p
	} else {
		var names []string
		for n := range pkgs {
			names = append(names, n)
		}
		sort.Strings(names)
		if len(names) == 0 {
			out.Err = errors.New("no package")
			return
		}
		mainPkg = pkgs[names[0]]
	}
	out.Pkg = mainPkg
	out.Stage = "compile"
	conf := &cl.Config{Fset: fset, Importer: atImp, NoFileLine: noFileLine, RelativeBase: relBase}
	conf.LookupClass = func(ext string) (*cl.Project, bool) { return nil, false }
	pkg, err := cl.NewPackage("", mainPkg, conf)
	if err != nil {
		out.Err = err
		return
	}
	out.Stage = "write"
	var buf bytes.Buffer
	if err = pkg.WriteTo(&buf); err != nil {
		out.Err = err
		return
	}
	out.Go = buf.String()
	out.Stage = "ok"
	return
}
