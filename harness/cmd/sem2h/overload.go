package main

import (
	"fmt"
	"regexp"
	"strings"
	"time"

	"verifharness/hlib"
	"verifharness/xgolib"
)

// C10 -- overload dispatch.  A case of specs/sem2/Overload.tla:
//
//	fam      "func" | "method" | "op"
//	cands    parameter tuples in canonical order (candidate id = 1-based position)
//	listing  candidate ids in the order the overload declaration lists them
//	styles   style of each LISTED candidate: lit | named | sel | selp
//	unary    op family: an additional unary operator on foo (candidate id n+1)
//	table    the model's overload table (kind lit => hole in the Gopo_ constant)
//	want     want[k] = candidate the model dispatches call k to (call k passes typed
//	         arguments of candidate k's parameter types)
type ovCase struct {
	Fam     string     `json:"fam"`
	Cands   [][]string `json:"cands"`
	Listing []int      `json:"listing"`
	Styles  []string   `json:"styles"`
	Unary   bool       `json:"unary"`
	Naming  string     `json:"naming"`  // plain | under (all names contain "_") | recvunder (receiver type only)
	DeclPos string     `json:"declpos"` // before | after: named candidates declared before / after the overload decl
	GopoSep string     `json:"gopoSep"` // separator the model expects in the Gopo_ constant's name
	Table   []struct {
		Kind string `json:"kind"`
		Ix   int    `json:"ix"`
	} `json:"table"`
	Want []int `json:"want"`
}

var binOps = []string{"*", "/", "%", "+", "-", "&", "|", "^"}
var unOps = []string{"-", "+", "^"}

func goType(t string, idx int) string {
	switch t {
	case "ints":
		return "[]int"
	case "ptr":
		return fmt.Sprintf("*T%d", idx)
	case "foo":
		return fmt.Sprintf("foo%d", idx)
	}
	return t
}

func varOf(t string) string { return "v" + t }

func valueOf(t string, idx int) string {
	switch t {
	case "int":
		return "1"
	case "string":
		return `"s"`
	case "float64":
		return "1.5"
	case "bool":
		return "true"
	case "ints":
		return "[]int{1}"
	case "ptr":
		return fmt.Sprintf("&T%d{}", idx)
	case "foo":
		return fmt.Sprintf("foo%d{}", idx)
	}
	return "nil"
}

func params(tuple []string, idx int, skipFirst bool) string {
	var ps []string
	for i, t := range tuple {
		if skipFirst && i == 0 {
			continue
		}
		ps = append(ps, fmt.Sprintf("p%d %s", i, goType(t, idx)))
	}
	return strings.Join(ps, ", ")
}

// styleClass abstracts the style vector for signatures.
func (c *ovCase) styleClass() string {
	set := map[string]bool{}
	if c.DeclPos == "after" {
		set["declared-after"] = true
	}
	if c.Naming == "under" || c.Naming == "recvunder" {
		set[c.Naming] = true
	}
	for _, s := range c.Styles {
		set[s] = true
	}
	r := strings.Join(sortedKeys(set), "+")
	if c.Unary {
		r += "+unary"
	}
	return r
}

// render produces the XGo text of the case.  op is the operator spelling (op family).
func (c *ovCase) render(idx int, op string) string {
	var sb strings.Builder
	n := len(c.Cands)
	w := func(f string, a ...any) { fmt.Fprintf(&sb, f, a...) }
	w("type T%d struct {\n\tn int\n}\n", idx)
	if c.Fam == "op" {
		w("type foo%d struct {\n\tn int\n}\n", idx)
	}
	styleOf := map[int]string{} // candidate id -> style
	for j, id := range c.Listing {
		styleOf[id] = c.Styles[j]
	}
	body := func(id int) string { return fmt.Sprintf("echo \"=\", %d", id) }
	head := sb.String() // type declarations
	sb.Reset()
	// declared (non-literal) candidates, in canonical order
	for id := 1; id <= n; id++ {
		tup := c.Cands[id-1]
		switch c.Fam {
		case "func":
			if styleOf[id] == "named" {
				w("func f%dn%d(%s) {\n\t%s\n}\n", idx, id, params(tup, idx, false), body(id))
			}
		case "method":
			w("func (t *T%d) m%dn%d(%s) {\n\t%s\n}\n", idx, idx, id, params(tup, idx, false), body(id))
		case "op":
			if tup[0] == "foo" {
				w("func (a foo%d) o%dn%d(%s) (ret foo%d) {\n\t%s\n\treturn\n}\n", idx, idx, id, params(tup, idx, true), idx, body(id))
			} else {
				w("func o%df%d(%s) (ret foo%d) {\n\t%s\n\treturn\n}\n", idx, id, params(tup, idx, false), idx, body(id))
			}
		}
	}
	candDecls := sb.String()
	sb.Reset()
	// the overload declaration, in LISTING order
	switch c.Fam {
	case "func":
		w("func f%d = (\n", idx)
	case "method":
		w("func (T%d).m%d = (\n", idx, idx)
	case "op":
		w("func (foo%d).%s = (\n", idx, op)
	}
	for j, id := range c.Listing {
		tup := c.Cands[id-1]
		switch c.Styles[j] {
		case "lit":
			w("\tfunc(%s) {\n\t\t%s\n\t}\n", params(tup, idx, false), body(id))
		case "named":
			if c.Fam == "op" {
				w("\to%df%d\n", idx, id)
			} else {
				w("\tf%dn%d\n", idx, id)
			}
		case "sel":
			if c.Fam == "op" {
				w("\t(foo%d).o%dn%d\n", idx, idx, id)
			} else {
				w("\t(T%d).m%dn%d\n", idx, idx, id)
			}
		case "selp":
			w("\t(*T%d).m%dn%d\n", idx, idx, id)
		}
	}
	w(")\n")
	ovDecl := sb.String()
	sb.Reset()
	sb.WriteString(head)
	if c.DeclPos == "after" {
		sb.WriteString(ovDecl + candDecls)
	} else {
		sb.WriteString(candDecls + ovDecl)
	}
	if c.Unary {
		w("func %s(a foo%d) (ret foo%d) {\n\t%s\n\treturn\n}\n", op, idx, idx, body(n+1))
	}
	// the calls: call k passes typed variables of candidate k's parameter types
	w("func case%d() {\n\tdefer func() {\n\t\tif e := recover(); e != nil {\n\t\t\techo \"panic\", e\n\t\t}\n\t}()\n\techo \"#%d\"\n", idx, idx)
	used := map[string]bool{}
	for _, tup := range c.Cands {
		for _, t := range tup {
			used[t] = true
		}
	}
	if c.Fam == "op" {
		used["foo"] = true
	}
	for _, t := range []string{"int", "string", "float64", "bool", "ints", "ptr", "foo"} {
		if used[t] {
			w("\tvar %s %s = %s\n", varOf(t), goType(t, idx), valueOf(t, idx))
		}
	}
	if c.Fam == "method" {
		w("\tvar recv *T%d = &T%d{}\n", idx, idx)
	}
	for k := 1; k <= n; k++ {
		tup := c.Cands[k-1]
		var args []string
		for _, t := range tup {
			args = append(args, varOf(t))
		}
		switch c.Fam {
		case "func":
			w("\tf%d %s\n", idx, strings.Join(args, ", "))
		case "method":
			w("\trecv.m%d %s\n", idx, strings.Join(args, ", "))
		case "op":
			w("\t_ = %s %s %s\n", args[0], op, args[1])
		}
	}
	if c.Unary {
		w("\t_ = %svfoo\n", op)
	}
	w("}\n")
	if c.Naming == "under" {
		// f3n2 -> f_3n2, T3 -> T_3, m3 -> m_3, o3f1 -> o_3f1, foo3 -> foo_3 (case3 stays)
		re := regexp.MustCompile(fmt.Sprintf(`\b(foo|f|T|m|o)(%d)((?:n|f)\d+)?\b`, idx))
		return re.ReplaceAllString(sb.String(), "${1}_${2}${3}")
	}
	if c.Naming == "recvunder" { // only the type names: T3 -> T_3, foo3 -> foo_3
		re := regexp.MustCompile(fmt.Sprintf(`\b(foo|T)(%d)\b`, idx))
		return re.ReplaceAllString(sb.String(), "${1}_${2}")
	}
	return sb.String()
}

var reGopo = regexp.MustCompile(`(?m)^const Gopo_\w+ = "([^"]*)"`)

func runOverload() {
	cases := hlib.ReadAllCases[ovCase]()
	units := make([]*unit, len(cases))
	ops := make([]string, len(cases))
	nUn := 0
	for i := range cases {
		c := &cases[i]
		u := &unit{Idx: i}
		if c.Fam == "op" {
			if c.Unary {
				ops[i] = unOps[nUn%len(unOps)]
				nUn++
				u.Excl = "unary" + ops[i] // one package can declare a given unary operator once
			} else {
				ops[i] = binOps[i%len(binOps)]
			}
		}
		u.Decls = c.render(i, ops[i])
		units[i] = u
	}
	opt := xgolib.Options{NoFileLine: true}
	t0 := time.Now()
	soloCompile(units, opt)
	fmt.Fprintf(errOut, "overload: %d units compiled alone in %.1fs\n", len(units), time.Since(t0).Seconds())
	var ok []*unit
	for _, u := range units {
		if u.SoloErr == "" {
			ok = append(ok, u)
		}
	}
	size := 300
	t0 = time.Now()
	outs := runBatches(ok, size, opt, 8)
	fmt.Fprintf(errOut, "overload: batches run in %.1fs\n", time.Since(t0).Seconds())
	for i := range cases {
		c := &cases[i]
		u := units[i]
		n := len(c.Cands)
		in := map[string]any{"fam": c.Fam, "cands": c.Cands, "listing": c.Listing, "styles": c.Styles, "unary": c.Unary, "op": ops[i], "naming": c.Naming, "declpos": c.DeclPos}
		arity := ""
		for _, t := range c.Cands {
			arity += fmt.Sprint(len(t))
		}
		res := hlib.Result{Idx: i, V: "ok", Input: in,
			NT: fmt.Sprintf("%s/%s/%v/%s/u%v/%s", c.Fam, strings.Join(c.Styles, ","), c.Listing, arity, c.Unary, c.Naming+"/"+c.DeclPos)}
		cls := c.Fam + ":" + c.styleClass()
		switch {
		case len(c.Want) != n+b2i(c.Unary):
			fmt.Fprintf(errOut, "case %d: malformed want\n", i)
			exitCode = 3
			continue
		case u.SoloErr != "":
			res.V, res.Sig = "viol", "compile-fail:"+cls
			res.Detail = fmt.Sprintf("the overload declaration does not compile: %s\n%s", u.SoloErr, u.Decls)
		default:
			o := outs[i]
			switch {
			case o == nil || o.XgoErr != "":
				fmt.Fprintf(errOut, "case %d compiled alone but not in a batch: %v\n", i, o)
				exitCode = 3
				continue
			case o.BuildErr != "":
				res.V, res.Sig = "viol", "gobuild-fail:"+cls
				res.Detail = fmt.Sprintf("generated Go does not build: %.600s\n%s", o.BuildErr, u.Decls)
			case !o.Ran:
				res.V, res.Sig = "viol", "not-run:"+cls
				res.Detail = "case function produced no output marker\n" + u.Decls
			default:
				var want []string
				for _, id := range c.Want {
					want = append(want, fmt.Sprintf("= %d", id))
				}
				if strings.Join(o.Lines, "\n") != strings.Join(want, "\n") {
					kind := "wrong-candidate"
					for _, l := range o.Lines {
						if strings.HasPrefix(l, "panic") {
							kind = "panic"
						}
					}
					res.V, res.Sig = "viol", kind+":"+cls
					res.Detail = fmt.Sprintf("calls reached %q, model (the accepting candidates) %q\n%s", o.Lines, want, u.Decls)
				} else {
					res.Detail = fmt.Sprintf("calls reached %q", o.Lines)
				}
			}
			// drift: shape of the Gopo_ constant vs the model's table (not pinned by the property)
			if res.V == "ok" {
				if d := c.tableDrift(u.GoSolo); d != "" {
					res.V, res.Sig, res.Detail = "drift", "gopo-table:"+c.Fam, d
				}
			}
		}
		hlib.Emit(res)
	}
	emitSummary()
}

func b2i(b bool) int {
	if b {
		return 1
	}
	return 0
}

// tableDrift compares the holes of the Gopo_ constant in the generated Go with the model's table.
func (c *ovCase) tableDrift(gosrc string) string {
	allLit := true
	for _, t := range c.Table {
		if t.Kind != "lit" {
			allLit = false
		}
	}
	m := reGopo.FindStringSubmatch(gosrc)
	if m != nil && c.GopoSep != "" && strings.HasPrefix(m[0], "const Gopo__") != (c.GopoSep == "__") {
		return fmt.Sprintf("model expects separator %q in the name of the Gopo_ constant; code emits %.40s", c.GopoSep, m[0])
	}
	if allLit {
		if m != nil {
			return "model: no Gopo_ constant for an all-literal overload; code emits " + m[0]
		}
		return ""
	}
	if m == nil {
		return "model: Gopo_ constant expected; none in the generated Go"
	}
	parts := strings.Split(m[1], ",")
	if len(parts) != len(c.Table) {
		return fmt.Sprintf("Gopo_ constant %q has %d entries, model table %d", m[1], len(parts), len(c.Table))
	}
	for j, p := range parts {
		if (p == "") != (c.Table[j].Kind == "lit") {
			return fmt.Sprintf("Gopo_ constant %q: entry %d hole=%v, model kind %s", m[1], j, p == "", c.Table[j].Kind)
		}
	}
	return ""
}
