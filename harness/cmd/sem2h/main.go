// sem2h: conformance harness for the language-semantics properties C10 (overload dispatch),
// C09 (line directives), C11 (normal .gox class file = explicit struct).
package main

import (
	"fmt"
	"os"

	"verifharness/hlib"
)

var (
	errOut   = os.Stderr
	exitCode int // non-zero: the harness itself failed (engine turns it into exit 2)
)

func main() {
	if len(os.Args) < 2 {
		fmt.Fprintln(os.Stderr, "usage: sem2h overload|linemap|classfile < cases.ndjson   |   sem2h try [-run] [-nofileline] <dir>")
		os.Exit(3)
	}
	// gogen's importer shells out to `go list -export <pkg>` in the current directory for every
	// package it has not loaded yet, and a failure (cwd outside a module that knows qiniu/x) is not
	// cached: each compilation would then spawn ~6 failing `go list` processes.  Work inside the
	// scratch module of the runner (requires the tree under test, so qiniu/x resolves).
	if err := os.Chdir(getRunner().Dir); err != nil {
		fmt.Fprintln(os.Stderr, err)
		os.Exit(3)
	}
	switch os.Args[1] {
	case "overload":
		runOverload()
	case "linemap":
		runLineMap()
	case "classfile":
		runClassFile()
	case "try":
		runTry(os.Args[2:])
	default:
		fmt.Fprintln(os.Stderr, "unknown mode", os.Args[1])
		os.Exit(3)
	}
	hlib.Flush()
	os.Exit(exitCode)
}
