package main

import (
	"fmt"
	"os"
	"path/filepath"
	"strings"
	"time"

	"github.com/goplus/xgo/parser"

	"verifharness/xgolib"
)

// runTry is a development aid: compile every .xgo/.gox file of a directory as one package through
// the same pipeline the checks use, print the generated Go and (with -run) the program's output.
func runTry(args []string) {
	run, nofl, quiet := false, false, false
	var mode parser.Mode
	var dir string
	for _, a := range args {
		switch a {
		case "-run":
			run = true
		case "-nofileline":
			nofl = true
		case "-q":
			quiet = true
		case "-comments":
			mode = parser.ParseComments
		default:
			dir, _ = filepath.Abs(a)
		}
	}
	ents, err := os.ReadDir(dir)
	if err != nil {
		fmt.Fprintln(os.Stderr, err)
		os.Exit(3)
	}
	files := map[string]string{}
	for _, e := range ents {
		n := e.Name()
		if strings.HasSuffix(n, ".xgo") || strings.HasSuffix(n, ".gox") || strings.HasSuffix(n, ".go") {
			b, _ := os.ReadFile(filepath.Join(dir, n))
			files[n] = string(b)
		}
	}
	out := xgolib.Compile(files, xgolib.Options{NoFileLine: nofl, ParseMode: mode})
	if out.Err != nil || out.Panic != nil {
		fmt.Printf("stage=%s err=%v panic=%v\n", out.Stage, out.Err, out.Panic)
		return
	}
	if !quiet {
		fmt.Println(out.Go)
	}
	if run {
		r := getRunner()
		rr := r.Run("try", map[string]string{"main.go": out.Go}, 20*time.Second)
		fmt.Printf("---- builderr=%q exit=%d\n%s", rr.BuildErr, rr.Exit, rr.Stdout)
		if rr.Stderr != "" {
			fmt.Printf("---- stderr\n%s", rr.Stderr)
		}
	}
}
