package main

func runClassFile() {}
